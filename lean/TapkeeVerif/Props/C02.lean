import Mathlib.Algebra.Order.Group.Abs
import Mathlib.Algebra.Order.Group.Int
import TapkeeVerif.Proofs.KnnBrute
import TapkeeVerif.Proofs.KnnRelabel
import TapkeeVerif.Proofs.KnnVpBuild
import TapkeeVerif.Proofs.KnnCover
import TapkeeVerif.Proofs.CoverPrune
import TapkeeVerif.Proofs.CoverRefute
import TapkeeVerif.Proofs.CoverFinal
import TapkeeVerif.Proofs.CoverBuildCreate
import TapkeeVerif.Proofs.CoverBuildFuel
import TapkeeVerif.Proofs.CoverBuildMono
import TapkeeVerif.Proofs.CoverFuel
import TapkeeVerif.Proofs.CoverBuildLeaf
/-!
# Property C02 — all three neighbour searches return exactly the k nearest other samples

Subjects: the models of `include/tapkee/neighbors/{neighbors,vptree}.hpp` in `Model/Knn.lean`,
`Model/VpTree.lean` (the code as of the fixes F-KNN-DUP bc2ea82, F-COVER-TIES 372b1de).
Quantifiers are real: any sample type `α`, any number of samples (`pts : List α`, distinct *indices*,
repeated *samples* allowed — a metric may vanish off the diagonal), any `k < N`, any scalar type `K` that
is a linearly ordered additive group (ℤ, ℚ, ℝ, dyadic doubles without rounding), every outcome of
`std::nth_element` / `std::partial_sort` / `priority_queue::pop` allowed by the postconditions, every
vantage-point stream.

`IsExactKnn δ pts k i l` : `l` has exactly `k` distinct entries, all samples other than `i`, and the
sorted distances from `i` to them are the `k` smallest of the sorted distances from `i` to all others.
-/
namespace TapkeeVerif.Knn
open TapkeeVerif.VpTree

section
variable {α K : Type} [DecidableEq α] [LinearOrder K]

/-- the oracle the driver evaluates on implementation output is the specification -/
theorem isExactKnn_iff (δ : α → α → K) (pts : List α) (k : Nat) (i : α) (l : List α) :
    isExactKnn δ pts k i l = true ↔ IsExactKnn δ pts k i l := by
  simp [isExactKnn]

/-- **brute force is exact** for every admissible outcome of `std::nth_element`, every `k < N`, and every
    callback under which no sample is nearer to the query than the query itself (every metric, every
    kernel-induced distance) — repeated samples included. -/
theorem brute_exact {δ : α → α → K} {pts : List α} {k : Nat} {i : α} {l : List α}
    (hpts : pts.Nodup) (hi : i ∈ pts) (hk : k < pts.length)
    (hself : ∀ j ∈ pts, δ i i ≤ δ i j) (h : BruteOut δ pts k i l) : IsExactKnn δ pts k i l :=
  brute_exact' hpts hi hk hself h

/-- the executable model instance (stable sort for `nth_element`) is one of the admissible outcomes -/
theorem bruteKnn_admissible (δ : α → α → K) (pts : List α) (k : Nat) (i : α) :
    BruteOut δ pts k i (bruteKnn δ pts k i) := bruteKnn_out δ pts k i

/-- **relabelling invariance of the specification**: the range handed to a search may carry any distinct elements
    (`f` : sample ↦ element of the range, the user callback translates an element back through `g`, `g (f a) = a`) —
    a list is the exact k-NN list for the relabelled callback on the relabelled range iff its preimage is for the
    original one.  Hence every exactness theorem of this file transfers to non-identity ranges (`*iter ≠ position`),
    for all three methods. -/
theorem isExactKnn_relabel {β : Type} [DecidableEq β] {δ : α → α → K} {f : α → β} {g : β → α} (hg : ∀ a, g (f a) = a)
    (pts : List α) (k : Nat) (i : α) (l : List α) :
    IsExactKnn (fun a b => δ (g a) (g b)) (pts.map f) k (f i) (l.map f) ↔ IsExactKnn δ pts k i l :=
  isExactKnn_relabel' hg pts k i l

/-- **relabelling invariance of the brute-force model**: on the relabelled range with the relabelled callback it
    returns the image of the list it returns on the original one -/
theorem bruteKnn_relabel {β : Type} [DecidableEq β] {δ : α → α → K} {f : α → β} {g : β → α} (hg : ∀ a, g (f a) = a)
    (pts : List α) (k : Nat) (i : α) :
    bruteKnn (fun a b => δ (g a) (g b)) (pts.map f) k (f i) = (bruteKnn δ pts k i).map f :=
  bruteKnn_relabel' hg pts k i

/-- non-vacuity: elements `10 + 3·sample` (no position is an element of the range), the callback translating back -/
example (δ : Nat → Nat → K) :
    bruteKnn (fun a b => δ ((a - 10) / 3) ((b - 10) / 3)) ([0, 1, 2, 5].map fun s => 10 + 3 * s) 2 (10 + 3 * 1) =
      (bruteKnn δ [0, 1, 2, 5] 2 1).map fun s => 10 + 3 * s :=
  bruteKnn_relabel (f := fun s => 10 + 3 * s) (g := fun e => (e - 10) / 3) (fun a => by omega) _ _ _

/-- Why the repair `popIfLonger` (F-KNN-DUP) is needed: on three coinciding samples there is an admissible
    `nth_element` outcome for which the selection loop alone returns `k + 1 = 2` neighbours for `k = 1`. -/
theorem bruteLoop_alone_not_exact :
    IsNthElement recLt 2 (bruteRecords (fun _ _ : Nat => (0 : Nat)) [0, 1, 2] 2) [(0, 0), (1, 0), (2, 0)] ∧
      ¬ IsExactKnn (fun _ _ : Nat => (0 : Nat)) [0, 1, 2] 1 2 (bruteLoop 2 1 [(0, 0), (1, 0), (2, 0)]) := by
  refine ⟨⟨by decide, by decide, by decide⟩, by decide⟩

/-- **cover-tree wrapper selection theorem** (`find_neighbors_covertree_impl` after the batch query): for
    every outcome of `std::partial_sort` under a comparator refining the distance order, the returned list
    is the exact k-NN list, provided the candidate set satisfies `CandsOk` (distinct samples, ≥ k besides the
    query, nothing outside nearer than something inside — the property of `{j | δ i j ≤ (k+1)-th distance}`;
    certificate-checked on every run for the sets the real query returns). -/
theorem cover_wrapper_exact {δ : α → α → K} {lt : K × α → K × α → Bool} {pts : List α} {i : α} {k : Nat}
    {cands l : List α} (hpts : pts.Nodup) (hc : CandsOk δ pts i k cands)
    (hlt : ∀ a b : K × α, lt b a = false → a.1 ≤ b.1) (h : CoverOut δ lt i k cands l) :
    IsExactKnn δ pts k i l :=
  cover_wrapper_exact' hpts hc hlt h

/-- the executable wrapper model (`std::pair`'s lexicographic `operator<`) is an admissible outcome and its
    comparator refines the distance order -/
theorem coverSelect_admissible [LinearOrder α] (δ : α → α → K) (i : α) (k : Nat) (cands : List α) :
    CoverOut δ pairLt i k cands (coverSelect δ i k cands) ∧
      ∀ a b : K × α, pairLt b a = false → a.1 ≤ b.1 :=
  ⟨coverSelect_out δ i k cands, pairLt_refines⟩

/-- Why the repair (F-COVER-TIES) is needed: taking the first `k+1` entries of the unsorted candidate set
    `[2, 0, 1]` of query 1 (three collinear points, k = 1, a tie at the boundary) gives two neighbours. -/
theorem cover_take_first_not_exact :
    ¬ IsExactKnn (fun a b : Nat => if a ≤ b then b - a else a - b) [0, 1, 2] 1 1
        (([2, 0, 1].take (1 + 1)).filter (fun j => j ≠ 1)) := by decide

end

section
variable {α K : Type} [DecidableEq α] [LinearOrder K] [AddCommGroup K] [IsOrderedAddMonoid K]

/-- **`vptree_build_inv`** : every tree the constructor can return — any vantage-point stream, any
    `nth_element` outcome — satisfies the ball invariant (inner subtree within `threshold` of the vantage
    point, outer subtree at least `threshold` away) and contains every item exactly once. -/
theorem vptree_build_inv {cb : Cb α K} (hcb : CbOk cb) {items : List α} {t : Tree α K} (h : Built cb items t) :
    TInv cb.dist t ∧ t.points.Perm items :=
  built_inv hcb h

/-- the executable `buildFromPoints` model returns an admissible tree for every draw stream -/
theorem vptree_build_admissible {cb : Cb α K} (hcb : CbOk cb) (draws : List Nat) (pos : Nat) (items : List α) :
    Built cb items (build cb draws items.length pos items).1 :=
  build_built hcb draws items.length pos items (Nat.le_refl _)

/-- **pruning soundness** : `search` on a tree with the ball invariant leaves in the heap `k` nearest samples
    of the target (triangle inequality; `tau` only shrinks; admission is strict) -/
theorem vptree_search_nearest {cb : Cb α K} {pop : List (α × K) → List (α × K)} (hm : IsMetric cb.dist)
    {k : Nat} (hk : 1 ≤ k) (hpop : PopSpec pop) {t : Tree α K} (hT : TInv cb.dist t) (hnd : t.points.Nodup)
    (hkN : k ≤ t.points.length) (q : α) :
    IsKNearest cb.dist q t.points k ((search cb pop q k t ⟨none, []⟩).heap.map (·.1)) :=
  search_nearest hm hk hpop hT hnd hkN

/-- **`vptree_search_exact`** : `find_neighbors_vptree_impl` is exact for every metric callback, every
    admissible tree, every heap tie-break, every `k < N`, repeated samples included. -/
theorem vptree_search_exact {cb : Cb α K} {pop : List (α × K) → List (α × K)} (hm : IsMetric cb.dist)
    (hcb : CbOk cb) (hpop : PopSpec pop) {pts : List α} {t : Tree α K} (hB : Built cb pts t) (hnd : pts.Nodup)
    {i : α} (hi : i ∈ pts) {k : Nat} (hk : k < pts.length) :
    IsExactKnn cb.dist pts k i (vpKnn cb pop t k i) :=
  vp_exact' hm hcb hpop hB hnd hi hk

/-- the executable heap (`pop` = remove the first maximal item) meets `priority_queue::pop`'s contract -/
theorem popMaxFirst_admissible : PopSpec (popMaxFirst : List (α × K) → List (α × K)) := popMaxFirst_spec

/-- **`three_methods_agree`** : for a metric callback the three searches return the same sorted distance
    list for every sample — whatever the tie-breaks — namely the `k` smallest distances to the others. -/
theorem three_methods_agree {cb : Cb α K} {pop : List (α × K) → List (α × K)} (hm : IsMetric cb.dist)
    (hcb : CbOk cb) (hpop : PopSpec pop) {pts : List α} {t : Tree α K} (hB : Built cb pts t) (hnd : pts.Nodup)
    {i : α} (hi : i ∈ pts) {k : Nat} (hk : k < pts.length)
    {lb : List α} (hb : BruteOut cb.dist pts k i lb)
    {lt : K × α → K × α → Bool} {cands lc : List α} (hc : CandsOk cb.dist pts i k cands)
    (hlt : ∀ a b : K × α, lt b a = false → a.1 ≤ b.1) (hcov : CoverOut cb.dist lt i k cands lc) :
    sortK (lb.map (cb.dist i)) = sortK ((vpKnn cb pop t k i).map (cb.dist i)) ∧
      sortK (lc.map (cb.dist i)) = sortK ((vpKnn cb pop t k i).map (cb.dist i)) := by
  have hself : ∀ j ∈ pts, cb.dist i i ≤ cb.dist i j := fun j _ => by rw [hm.self]; exact hm.nonneg i j
  have h1 := (brute_exact hnd hi hk hself hb).2.2.2.2
  have h2 := (vptree_search_exact hm hcb hpop hB hnd hi hk).2.2.2.2
  have h3 := (cover_wrapper_exact hnd hc hlt hcov).2.2.2.2
  exact ⟨h1.trans h2.symm, h3.trans h2.symm⟩

end


/-! ### cover tree batch query: `cover_query_fuel_suffices`, `cover_query_exact`, `cover_tree_exact`

Subject: `CoverTree.batchQuery` — the model of `k_nearest_neighbor` / `internal_batch_nearest_neighbor` /
`descend` / `copy_zero_set` / `copy_cover_sets` / `brute_nearest` / `update` (code as of the repair F-COVER-COPY
585dcb2) on a given tree.  **Proved** (total correctness): on every well-formed tree (`CoverTree.wfTree`) whose
childless nodes all carry `leaf_scale` (`CNode.leavesAt`) — both are proved of the tree `batch_create` builds
(`batchCreate_wf`, `batchCreate_leavesAt`) and evaluated on the real tree on every run — and for every metric, the
model ANSWERS (its fuel `CNode.queryFuel top = height + innerScale + 1` suffices, no larger fuel gives another
answer, the undefined `children[0]` of a childless query node is never read: `cover_query_fuel_suffices`), every
query sample gets a result, and every result `q :: cands` has duplicate-free candidates containing every sample near
`q` (`CoverTree.Near`: no `K0 = k+1` distinct samples are all strictly closer) — `cover_query_exact`; together with
the wrapper this gives exact neighbour lists — `cover_tree_exact`; chained with the construction —
`cover_tree_end_to_end`, `cover_tree_total`.
Ingredients: the `upper_bound` array is justified at every step, every pruning decision is sound, the traversal
loses no node (live-set invariant through `descend`, the copy loops and the recursion); `max_scale` never exceeds
the largest scale of a reference node with children, and every frame descends one scale or one level of the query tree.
`halfsort` is a parameter of the model and the theorems hold for every `hsort` returning a permutation of its
argument.  For the copy bound with `query_chi->max_dist` counted once — the code before the repair — the statement
is refuted below. -/

namespace CoverQuery
open TapkeeVerif.CoverTree

section
variable {K : Type} [LinearOrder K] [AddCommGroup K] [IsOrderedAddMonoid K]
variable {δ : Nat → Nat → K} {pts : List Nat} {K0 : Nat}

/-- whenever `upper_bound[0]` is finite, at least `K0` distinct samples lie within it of the query point -/
theorem cover_upper_bound_justified {x : Nat} {ub : List K} {Off : List Nat} (h : UBOk δ pts K0 x ub Off) {u : K}
    (hu : ub0 K0 ub = some u) :
    ∃ Y : List Nat, Y.Nodup ∧ (∀ y ∈ Y, y ∈ pts) ∧ K0 ≤ Y.length ∧ ∀ y ∈ Y, δ x y ≤ u :=
  h.count hu

/-- the array stays justified under `update` with the distance of a not yet offered sample, under the refill for
    a query child (`setter(.., upper_bound[0] + parent_dist)`), and initially -/
theorem cover_upper_bound_preserved (hm : IsMetric δ) (hK : 1 ≤ K0) {x y c : Nat} {ub : List K} {Off : List Nat}
    (h : UBOk δ pts K0 x ub Off) (hy : y ∈ pts) (hyO : y ∉ Off) (hx : x ∈ pts) :
    UBOk δ pts K0 x (offer K0 ub (δ x y)) (y :: Off) ∧
      UBOk δ pts K0 c (fill K0 (addInf (ub0 K0 ub) (δ x c))) [] ∧
      UBOk δ pts K0 x (update K0 [] (δ x x)) [x] :=
  ⟨h.offer hK hy hyO, h.fill hm, UBOk.init hK hx⟩

/-- **`descend`**: a parent skipped as a whole, a child rejected by `shell` or by `d <= upper_chi`, a leaf not
    put into the zero set — nothing below them is near any query sample below the query node -/
theorem cover_descend_prune_sound (hm : IsMetric δ) {Q : CNode K} {L : List Nat} {ub : List K} {Off : List Nat}
    (hub : UBOk δ pts K0 Q.p ub Off) (hσ : ∀ q' ∈ L, δ Q.p q' ≤ Q.maxDist)
    {par : Nat} {n : CNode K} (hρ : ∀ c ∈ n.leaves, δ n.p c ≤ n.maxDist) :
    (leInf (δ Q.p n.p) (addInf (addInf (addInf (ub0 K0 ub) Q.maxDist) Q.maxDist) n.maxDist) = false →
        ∀ q' ∈ L, ∀ c ∈ n.leaves, ¬ Near δ pts K0 q' c) ∧
      (shell (δ Q.p par) (δ par n.p) (addInf (addInf (addInf (ub0 K0 ub) n.maxDist) Q.maxDist) Q.maxDist) = false →
        ∀ q' ∈ L, ∀ c ∈ n.leaves, ¬ Near δ pts K0 q' c) ∧
      (leInf (δ Q.p n.p) (addInf (addInf (addInf (ub0 K0 ub) n.maxDist) Q.maxDist) Q.maxDist) = false →
        ∀ q' ∈ L, ∀ c ∈ n.leaves, ¬ Near δ pts K0 q' c) ∧
      (leInf (δ Q.p n.p) (addInf (addInf (ub0 K0 ub) Q.maxDist) Q.maxDist) = false →
        ∀ q' ∈ L, ¬ Near δ pts K0 q' n.p) :=
  ⟨descend_parent_prune_sound hm hub hσ hρ, descend_child_shell_sound hm hub hσ hρ,
    descend_child_dist_sound hm hub hσ hρ, descend_leaf_sound hm hub hσ⟩

/-- **`copy_cover_sets` / `copy_zero_set`** with the repaired bound (`max_dist` of the query child twice) -/
theorem cover_copy_prune_sound (hm : IsMetric δ) {C : CNode K} {L : List Nat} {ub : List K} {Off : List Nat}
    (hub : UBOk δ pts K0 C.p ub Off) (hσ : ∀ q' ∈ L, δ C.p q' ≤ C.maxDist)
    {x : Nat} {n : CNode K} (hρ : ∀ c ∈ n.leaves, δ n.p c ≤ n.maxDist) :
    (shell (δ x n.p) (δ x C.p) (addInf (addInf (addInf (ub0 K0 ub) C.maxDist) C.maxDist) n.maxDist) = false →
        ∀ q' ∈ L, ∀ c ∈ n.leaves, ¬ Near δ pts K0 q' c) ∧
      (leInf (δ C.p n.p) (addInf (addInf (addInf (ub0 K0 ub) C.maxDist) C.maxDist) n.maxDist) = false →
        ∀ q' ∈ L, ∀ c ∈ n.leaves, ¬ Near δ pts K0 q' c) ∧
      (shell (δ x n.p) (δ x C.p) (addInf (addInf (ub0 K0 ub) C.maxDist) C.maxDist) = false ∨
        leInf (δ C.p n.p) (addInf (addInf (ub0 K0 ub) C.maxDist) C.maxDist) = false →
        ∀ q' ∈ L, ¬ Near δ pts K0 q' n.p) :=
  ⟨copy_cover_shell_sound hm hub hσ hρ, copy_cover_dist_sound hm hub hσ hρ, copy_zero_sound hm hub hσ⟩

/-- **final filter of `brute_nearest`**: exactly the near samples of the zero set survive being compared with
    `upper_bound[0]` — a dropped one is not near, a near one is not dropped -/
theorem cover_filter_sound (hm : IsMetric δ) {q r : Nat} {ub : List K} {Off : List Nat}
    (hub : UBOk δ pts K0 q ub Off) :
    (leInf (δ q r) (ub0 K0 ub) = false → ¬ Near δ pts K0 q r) ∧
      (Near δ pts K0 q r → leInf (δ q r) (ub0 K0 ub) = true) :=
  ⟨brute_filter_sound hm hub, near_within_ub hub⟩

end

/-- **`cover_query_fuel_suffices`** : the fuel of the query model suffices and the answer does not depend on it.
    On EVERY tree whose childless nodes all carry `leafScale` (no other hypothesis: any callback, any `K0`, any
    `hsort` returning a permutation), the batch query — which runs with the fuel `top.queryFuel`
    `= top.height + top.innerScale + 1` computed from the tree — answers (`some res`: neither "out of fuel" nor the
    undefined split of a childless query node), and the model run with ANY fuel `≥ top.queryFuel` returns that same
    `res`. -/
theorem cover_query_fuel_suffices {K : Type} [LinearOrder K] [AddCommGroup K] [IsOrderedAddMonoid K]
    (δ : Nat → Nat → K) (K0 leafScale : Nat) {top : CNode K} {hsort : List (DN K) → List (DN K)}
    (hperm : ∀ l, (hsort l).Perm l) (hleaf : CNode.leavesAt leafScale top = true) :
    ∃ res, batchQuery δ hsort K0 leafScale top = some res ∧
      ∀ fuel, top.queryFuel ≤ fuel → batchQueryFuel δ hsort K0 leafScale fuel top = some res :=
  batchQuery_total K0 leafScale (fun l _ he => (hperm l).mem_iff.1 he) hleaf

/-- the answer, when there is one, is the same for every fuel (no hypotheses at all) -/
theorem cover_query_fuel_mono {K : Type} [LinearOrder K] [AddCommGroup K] [IsOrderedAddMonoid K]
    (δ : Nat → Nat → K) (K0 leafScale : Nat) {top : CNode K} {hsort : List (DN K) → List (DN K)} {fuel fuel' : Nat}
    (hle : fuel ≤ fuel') {res : List (List Nat)} (h : batchQueryFuel δ hsort K0 leafScale fuel top = some res) :
    batchQueryFuel δ hsort K0 leafScale fuel' top = some res :=
  internalBatch_fuel_mono leafScale hle h

/-- **`cover_query_exact`** (total correctness of the batch query) : on a well-formed tree over the samples
    `0..N-1` (with at least two samples, so that the top node has children) whose childless nodes carry `leafScale`,
    and for every metric, the batch query answers, every sample `q` has a result, and every result is `q :: cands`
    with `cands` duplicate free, inside the sample set and containing every sample near `q`. -/
theorem cover_query_exact {K : Type} [LinearOrder K] [AddCommGroup K] [IsOrderedAddMonoid K] {δ : Nat → Nat → K}
    (hm : IsMetric δ) {K0 : Nat} (hK : 1 ≤ K0) {N : Nat} (leafScale : Nat) {top : CNode K}
    {hsort : List (DN K) → List (DN K)} (hperm : ∀ l, (hsort l).Perm l)
    (hwf : wfTree δ N top = true) (htopc : top.children ≠ []) (hleaf : CNode.leavesAt leafScale top = true) :
    ∃ res, batchQuery δ hsort K0 leafScale top = some res ∧
      (∀ r ∈ res, ∃ q ∈ top.leaves, ∃ cands, r = q :: cands ∧
        (∀ c, Near δ (List.range N) K0 q c → c ∈ cands) ∧ cands.Nodup ∧ ∀ c ∈ cands, c ∈ List.range N) ∧
      ∀ q ∈ top.leaves, ∃ r ∈ res, r.head? = some q := by
  obtain ⟨res, h, _⟩ := cover_query_fuel_suffices δ K0 leafScale hperm hleaf
  exact ⟨res, h, batchQuery_good hm hK leafScale hperm hwf htopc h⟩

/-- **`cover_tree_exact`** (total correctness) : the cover-tree neighbour search is exact — for every well-formed
    tree with childless nodes at `leafScale`, every metric, every `k < N`: the batch query answers, EVERY sample
    `q < N` has a result `q :: cands`, and for every result and every `partial_sort` outcome of the wrapper the list
    returned for sample `q` is the exact k-NN list of `q`. -/
theorem cover_tree_exact {K : Type} [LinearOrder K] [AddCommGroup K] [IsOrderedAddMonoid K] {δ : Nat → Nat → K}
    (hm : IsMetric δ) {k N : Nat} (hk : k < N) (leafScale : Nat) {top : CNode K}
    {hsort : List (DN K) → List (DN K)} (hperm : ∀ l, (hsort l).Perm l)
    (hwf : wfTree δ N top = true) (htopc : top.children ≠ []) (hleaf : CNode.leavesAt leafScale top = true) :
    ∃ res, batchQuery δ hsort (k + 1) leafScale top = some res ∧
      (∀ q, q < N → ∃ cands, q :: cands ∈ res) ∧
      ∀ (q : Nat) (cands l : List Nat) (lt : K × Nat → K × Nat → Bool), q :: cands ∈ res →
        (∀ a b : K × Nat, lt b a = false → a.1 ≤ b.1) → CoverOut δ lt q k cands l →
        IsExactKnn δ (List.range N) k q l := by
  obtain ⟨res, h, _⟩ := cover_query_fuel_suffices δ (k + 1) leafScale hperm hleaf
  exact ⟨res, h, good_results_exact hk hwf
    (batchQuery_good hm (by omega : 1 ≤ k + 1) leafScale hperm hwf htopc h)⟩

/-! non-vacuity of `cover_query_fuel_suffices` / `cover_query_exact` / `cover_tree_exact`: the tree the real `batch_create`
    builds for the four samples 0, 3, 4, 9 of the integer line (dumped by the harness), `K0 = 2` (k = 1) -/

/-- `|x_a - x_b|` for the samples 0, 3, 4, 9 (indices above 3 stand for sample 3: a pseudo-metric on all of ℕ) -/
def exδ (a b : Nat) : Int := absI (([0, 3, 4, 9] : List Int).getD (min a 3) 0 - ([0, 3, 4, 9] : List Int).getD (min b 3) 0)

def exTree : CNode Int :=
  .mk 0 9 0 0 [.mk 0 4 0 4 [.mk 0 0 0 100 [], .mk 1 1 3 9 [.mk 1 0 0 100 [], .mk 2 0 1 100 []]], .mk 3 0 9 100 []]

theorem exδ_metric : IsMetric exδ := by
  have hfin : ∀ a b : Nat, exδ a b = exδ (min a 3) (min b 3) := fun a b => by simp [exδ, Nat.min_assoc]
  have hself : ∀ a : Fin 4, exδ a a = 0 := by decide
  have hsymm : ∀ a b : Fin 4, exδ a b = exδ b a := by decide
  have htri : ∀ a b c : Fin 4, exδ a c ≤ exδ a b + exδ b c := by decide
  have hlt : ∀ a : Nat, min a 3 < 4 := fun a => by omega
  refine ⟨fun x => ?_, fun x y => ?_, fun x y z => ?_⟩
  · rw [hfin]; exact hself ⟨min x 3, hlt x⟩
  · rw [hfin x y, hfin y x]; exact hsymm ⟨min x 3, hlt x⟩ ⟨min y 3, hlt y⟩
  · rw [hfin x z, hfin x y, hfin y z]
    exact htri ⟨min x 3, hlt x⟩ ⟨min y 3, hlt y⟩ ⟨min z 3, hlt z⟩

/-- the hypotheses hold, and the model's answer equals the candidate sets the real query returned -/
theorem exTree_query :
    wfTree exδ 4 exTree = true ∧ exTree.children ≠ [] ∧ CNode.leavesAt 100 exTree = true ∧
      batchQuery exδ id 2 100 exTree = some [[3, 3, 2], [2, 1, 2], [1, 1, 2], [0, 0, 1]] := by decide

/-- `cover_query_fuel_suffices` on this tree (height 4, largest scale of a node with children 9: fuel 14); the bound
    is attained here — with one unit less the model runs out of fuel -/
example : exTree.queryFuel = 14 ∧ batchQueryFuel exδ id 2 100 13 exTree = none ∧
    ∀ fuel, 14 ≤ fuel →
      batchQueryFuel exδ id 2 100 fuel exTree = some [[3, 3, 2], [2, 1, 2], [1, 1, 2], [0, 0, 1]] := by
  refine ⟨by decide, by decide, fun fuel hf => ?_⟩
  obtain ⟨res, h1, h2⟩ := cover_query_fuel_suffices exδ 2 100 (top := exTree) (hsort := id)
    (fun l => List.Perm.refl l) exTree_query.2.2.1
  rw [exTree_query.2.2.2] at h1
  rw [h2 fuel hf, ← h1]

/-- `cover_query_fuel_mono`: the answer obtained with fuel 14 is the answer with fuel 1000 -/
example : batchQueryFuel exδ id 2 100 1000 exTree = some [[3, 3, 2], [2, 1, 2], [1, 1, 2], [0, 0, 1]] :=
  cover_query_fuel_mono exδ 2 100 (fuel := 14) (by decide) (by decide)

/-- the hypothesis `leavesAt` cannot be dropped: on a childless node of another scale the real query would read
    `children[0]` of a leaf, and the model reports the error whatever the fuel -/
example : ∀ fuel, batchQueryFuel exδ id 2 100 fuel (.mk 0 0 0 0 [] : CNode Int) = none := by
  intro fuel
  cases fuel with
  | zero => rfl
  | succ n => rfl

/-- `cover_query_exact` applies: the batch query answers and every sample's candidates contain all its near samples -/
example : ∃ res, batchQuery exδ id 2 100 exTree = some res ∧
    (∀ r ∈ res, ∃ q ∈ exTree.leaves, ∃ cands, r = q :: cands ∧
      (∀ c, Near exδ (List.range 4) 2 q c → c ∈ cands) ∧ cands.Nodup ∧ ∀ c ∈ cands, c ∈ List.range 4) ∧
    ∀ q ∈ exTree.leaves, ∃ r ∈ res, r.head? = some q :=
  cover_query_exact exδ_metric (by decide) 100 (fun l => List.Perm.refl l) exTree_query.1 exTree_query.2.1
    exTree_query.2.2.1

/-- hence, e.g., the neighbour list selected for sample 3 (x = 9) from its candidates `[3, 2]` is its exact 1-NN list -/
example : IsExactKnn exδ (List.range 4) 1 3 (coverSelect exδ 3 1 [3, 2]) := by
  obtain ⟨res, h, _, hex⟩ := cover_tree_exact exδ_metric (k := 1) (N := 4) (by decide) 100
    (hsort := id) (fun l => List.Perm.refl l) exTree_query.1 exTree_query.2.1 exTree_query.2.2.1
  rw [exTree_query.2.2.2, Option.some.injEq] at h
  subst h
  exact hex 3 [3, 2] _ pairLt (by decide) (coverSelect_admissible exδ 3 1 [3, 2]).2
    (coverSelect_admissible exδ 3 1 [3, 2]).1

/-! ### cover tree construction: `batchCreate_wf`, `batchCreate_leavesAt`, `cover_tree_end_to_end`, `cover_tree_total`

Subject: `CoverBuild.batchCreate` — the statement-by-statement model of `batch_create` / `batch_insert` / `split` /
`dist_split` / `max_set` / `set_leaf_scale` (code as of the repairs F-COVER-ZERO e2bbcb6, F-COVER-SCALE e30d89e and
F-COVER-TOP 7615484) into the tree type the query model runs on.  The floating-point functions `get_scale`
(`ceil(log d / log 1.3)`) and `dist_of_scale` (`pow(1.3, s)`) are parameters of the model; the theorems hold for EVERY
`getScale` and every `distOfScale` with `0 ≤ distOfScale s` (otherwise a node of non-coinciding points can get
`max_dist = 0` and be relabelled as a leaf-scale node) — evaluated on every run on the values the real code computes.
That the top level covers the farthest sample (`maxd ≤ distOfScale top_scale`) was a second hypothesis until it turned
out to be false of the real functions (defect F-COVER-TOP, found through this proof: `pow(1.3, get_scale(d)) < d` for
`d` next to a power of 1.3, the farthest samples were dropped); it now follows from the repaired code's loop.
Of the callback only `δ x x = 0` and `0 ≤ δ x y` are used (any pseudo-metric: repeated samples allowed).
On every run the tree of this model is compared with the real tree. -/

section
open TapkeeVerif.CoverBuild
variable {K : Type} [LinearOrder K] [AddCommGroup K] [IsOrderedAddMonoid K]

/-- **`batchCreate_leaves`** : for EVERY list of points (any order, any repetitions, any coinciding samples), whatever
    tree the construction returns stores exactly the given points, each as often as given, and is well formed node by
    node (first child carries the parent's point, `parent_dist` are true distances, `max_dist` bounds the distance to
    every descendant, scales increase towards the leaves); the leaf scale is at least 100. -/
theorem batchCreate_leaves {δ : Nat → Nat → K} (hm : IsMetric δ) {getScale : K → Int} {distOfScale : Int → K}
    (hpos : ∀ s, 0 ≤ distOfScale s) {fuel : Nat} {points : List Nat} {t : CNode K} {ls : Nat}
    (h : batchCreate δ getScale distOfScale fuel points = some (t, ls)) :
    wfNode δ t = true ∧ t.leaves.Perm points ∧ 100 ≤ ls :=
  batchCreate_good hm.self hm.nonneg hpos h

/-- **`batchCreate_wf`** : the tree `batch_create` returns for the samples `0 .. N-1` (in any order) satisfies
    `wfTree` — the hypothesis of `cover_query_exact` / `cover_tree_exact`: every sample occurs exactly once, the first
    child carries the parent's point, `parent_dist` are true distances, `max_dist` bounds the distance to every
    descendant, scales increase towards the leaves.  For every (pseudo-)metric, every `N`, every `getScale`, every
    non-negative `distOfScale`. -/
theorem batchCreate_wf {δ : Nat → Nat → K} (hm : IsMetric δ) {getScale : K → Int} {distOfScale : Int → K}
    (hpos : ∀ s, 0 ≤ distOfScale s) {fuel N : Nat} {points : List Nat} (hpts : points.Perm (List.range N))
    {t : CNode K} {ls : Nat} (h : batchCreate δ getScale distOfScale fuel points = some (t, ls)) :
    wfTree δ N t = true :=
  batchCreate_wf' hm.self hm.nonneg hpos hpts h

/-- **`batchCreate_leavesAt`** : every childless node of the tree `batch_create` returns carries the `leaf_scale` it
    returns (what `set_leaf_scale` establishes; `batch_insert` itself creates childless nodes at scale 100 only) — the
    hypothesis of `cover_query_fuel_suffices`: the query never splits a childless query node.  For every
    (pseudo-)metric, every list of points, every `getScale`, every non-negative `distOfScale`. -/
theorem batchCreate_leavesAt {δ : Nat → Nat → K} (hm : IsMetric δ) {getScale : K → Int} {distOfScale : Int → K}
    (hpos : ∀ s, 0 ≤ distOfScale s) {fuel : Nat} {points : List Nat} {t : CNode K} {ls : Nat}
    (h : batchCreate δ getScale distOfScale fuel points = some (t, ls)) : CNode.leavesAt ls t = true :=
  batchCreate_leavesAt' hm.self hm.nonneg hpos h

/-- **`cover_tree_end_to_end`** (total in the query) : construction, batch query and wrapper chained — for every
    metric, every `N ≥ 2`, every `k < N`, every `getScale`, every non-negative `distOfScale`: if `batch_create` returns
    `(top, leaf_scale)` then the batch query on `top` (as query and reference tree, with that `leaf_scale`) ANSWERS,
    every sample `q < N` has a result `q :: cands`, and for every result the list the wrapper selects for sample `q` is
    the exact k-NN list.  No certificate is involved: `wfTree` and `leavesAt` are proved of the tree built. -/
theorem cover_tree_end_to_end {δ : Nat → Nat → K} (hm : IsMetric δ) {getScale : K → Int} {distOfScale : Int → K}
    (hpos : ∀ s, 0 ≤ distOfScale s) {k N : Nat} (hk : k < N) (hN : 2 ≤ N) {fuel : Nat} {top : CNode K} {ls : Nat}
    (hb : batchCreate δ getScale distOfScale fuel (List.range N) = some (top, ls))
    {hsort : List (DN K) → List (DN K)} (hperm : ∀ l, (hsort l).Perm l) :
    ∃ res, batchQuery δ hsort (k + 1) ls top = some res ∧
      (∀ q, q < N → ∃ cands, q :: cands ∈ res) ∧
      ∀ (q : Nat) (cands l : List Nat) (lt : K × Nat → K × Nat → Bool), q :: cands ∈ res →
        (∀ a b : K × Nat, lt b a = false → a.1 ≤ b.1) → CoverOut δ lt q k cands l →
        IsExactKnn δ (List.range N) k q l := by
  have hwf := batchCreate_wf hm hpos (List.Perm.refl _) hb
  have hlen : top.leaves.length = N := by
    unfold wfTree at hwf
    simp only [Bool.and_eq_true, beq_iff_eq] at hwf
    exact hwf.1.2
  exact cover_tree_exact hm hk ls hperm hwf (children_ne_nil_of_leaves (by omega)) (batchCreate_leavesAt hm hpos hb)

/-- **`batchCreate_fuel_suffices`** (the model reaches no error state and its fuel suffices) : the construction
    answers — no `last()` / `decr()` of an empty `dist` stack, no negative scale, none of the three counters (recursion
    depth, child loop, top-scale loop) runs out — for every (pseudo-)metric and every non-empty list of points, when
    the scale functions bracket the positive distances `d` between the points (`ScalesOk`: `distOfScale sLow < d ≤
    distOfScale sTop`, `sLow ≤ getScale d ≤ sTop`; evaluated on every run on the values the real code computes, and
    the driver runs the model with exactly this fuel) and the fuel is at least `(sTop - sLow) + 2`.  Termination of
    the real recursion is this property of `pow` / `log`: it descends one scale per level and stops below the
    smallest positive distance. -/
theorem batchCreate_fuel_suffices {δ : Nat → Nat → K} (hm : IsMetric δ) {getScale : K → Int} {distOfScale : Int → K}
    (hpos : ∀ s, 0 ≤ distOfScale s) {points : List Nat} (hne : points ≠ []) {sLow sTop : Int}
    (hsc : ScalesOk δ getScale distOfScale points sLow sTop) {fuel : Nat} (hfuel : (sTop - sLow).toNat + 2 ≤ fuel) :
    ∃ t ls, batchCreate δ getScale distOfScale fuel points = some (t, ls) :=
  batchCreate_total hm.self hm.nonneg hpos hne hsc hfuel

/-- **`batchCreate_fuel_mono`** : the answer does not depend on the fuel — what the model returns with some fuel it
    returns with every larger fuel (no hypotheses). -/
theorem batchCreate_fuel_mono {δ : Nat → Nat → K} {getScale : K → Int} {distOfScale : Int → K} {fuel fuel' : Nat}
    (hle : fuel ≤ fuel') {points : List Nat} {res : CNode K × Nat}
    (h : batchCreate δ getScale distOfScale fuel points = some res) :
    batchCreate δ getScale distOfScale fuel' points = some res :=
  batchCreate_fuel_mono' hle h

/-- **`batchCreate_total_wf`** (total correctness of the construction) : for every (pseudo-)metric, every `N ≥ 1`, the
    samples `0 .. N-1` in any order, scale functions with `0 ≤ distOfScale` that bracket the positive distances, and
    enough fuel, `batch_create` returns a tree and that tree satisfies `wfTree`. -/
theorem batchCreate_total_wf {δ : Nat → Nat → K} (hm : IsMetric δ) {getScale : K → Int} {distOfScale : Int → K}
    (hpos : ∀ s, 0 ≤ distOfScale s) {N : Nat} (hN : 1 ≤ N) {points : List Nat} (hpts : points.Perm (List.range N))
    {sLow sTop : Int} (hsc : ScalesOk δ getScale distOfScale points sLow sTop) {fuel : Nat}
    (hfuel : (sTop - sLow).toNat + 2 ≤ fuel) :
    ∃ t ls, batchCreate δ getScale distOfScale fuel points = some (t, ls) ∧ wfTree δ N t = true := by
  have hne : points ≠ [] := by
    intro h0
    have := hpts.length_eq
    rw [h0, List.length_range] at this
    simp at this
    omega
  obtain ⟨t, ls, h⟩ := batchCreate_fuel_suffices hm hpos hne hsc hfuel
  exact ⟨t, ls, h, batchCreate_wf hm hpos hpts h⟩

/-- **`cover_tree_total`** (total correctness of the cover-tree neighbour search, construction included) : for every
    metric, every `N ≥ 2`, every `k < N`, scale functions with `0 ≤ distOfScale` that bracket the positive distances
    (`ScalesOk`, the termination property of `pow` / `log`) and enough construction fuel: `batch_create` returns a tree,
    the batch query on it answers, every sample has a result, and the wrapper's list for every result is the exact
    k-NN list.  Remaining trusted ground: the scale functions as tabulated from the real run, exact arithmetic. -/
theorem cover_tree_total {δ : Nat → Nat → K} (hm : IsMetric δ) {getScale : K → Int} {distOfScale : Int → K}
    (hpos : ∀ s, 0 ≤ distOfScale s) {k N : Nat} (hk : k < N) (hN : 2 ≤ N) {sLow sTop : Int}
    (hsc : ScalesOk δ getScale distOfScale (List.range N) sLow sTop) {fuel : Nat}
    (hfuel : (sTop - sLow).toNat + 2 ≤ fuel) {hsort : List (DN K) → List (DN K)} (hperm : ∀ l, (hsort l).Perm l) :
    ∃ top ls res, batchCreate δ getScale distOfScale fuel (List.range N) = some (top, ls) ∧
      batchQuery δ hsort (k + 1) ls top = some res ∧
      (∀ q, q < N → ∃ cands, q :: cands ∈ res) ∧
      ∀ (q : Nat) (cands l : List Nat) (lt : K × Nat → K × Nat → Bool), q :: cands ∈ res →
        (∀ a b : K × Nat, lt b a = false → a.1 ≤ b.1) → CoverOut δ lt q k cands l →
        IsExactKnn δ (List.range N) k q l := by
  obtain ⟨top, ls, hb, _⟩ := batchCreate_total_wf hm hpos (by omega : 1 ≤ N) (List.Perm.refl _) hsc hfuel
  obtain ⟨res, hq, hall, hex⟩ := cover_tree_end_to_end hm hpos hk hN hb hperm
  exact ⟨top, ls, res, hb, hq, hall, hex⟩

/-- **F-COVER-TOP, Lean-checked**: with the top scale `get_scale(max_dist)` taken as it is (the code before the
    repair) the construction drops samples as soon as `dist_of_scale(get_scale(d)) < d` — witness: two samples at
    distance 3 and scale functions with `distOfScale (getScale 3) = 2` (the real functions do this by rounding at
    `d = 247.0645290734506 = nextafter(1.3^21)`, `corpus/C02/f-cover-top.case`): the tree is the single leaf 0. -/
theorem cover_top_uncovered_drops :
    (batchInsert (fun a b : Nat => ((if a = b then 0 else 3 : Nat) : Int)) (fun _ => 0) (fun _ => 2) 5 0 0 0
        [⟨[3], 1⟩] [] [] 100).map (fun r => (r.node.leaves, r.pointSet.map (·.p))) = some ([0], [1]) := by
  decide

end

/-! non-vacuity of `batchCreate_wf` / `batchCreate_leavesAt` / `cover_tree_end_to_end` / `cover_tree_total`: six samples 0, 3, 4, 9, 9, 20 of the integer line (two of
    them coincide), the scale functions tabulated from the real `get_scale` / `dist_of_scale` (`floor(1.3^s)`: the
    distances are integers) — the model returns exactly the tree the real `batch_create` builds (dumped by the
    harness: `knn method=covertree k=1 cb=plain metric=L1 pts=0;3;4;9;9;20 dump=1`) -/

def ex6δ (a b : Nat) : Int :=
  absI (([0, 3, 4, 9, 9, 20] : List Int).getD (min a 5) 0 - ([0, 3, 4, 9, 9, 20] : List Int).getD (min b 5) 0)

/-- `get_scale(d)` on the distances that occur -/
def ex6Gs (d : Int) : Int :=
  (([(1, 0), (3, 5), (4, 6), (5, 7), (6, 7), (9, 9), (11, 10), (16, 11), (17, 11), (20, 12)] : List (Int × Int)).lookup
    d).getD 0

/-- `floor(dist_of_scale(s))` -/
def ex6Ds (s : Int) : Int :=
  Int.ofNat (if s < 0 then 0 else ([1, 1, 1, 2, 2, 3, 4, 6, 8, 10, 13, 17, 23, 30] : List Nat).getD s.toNat 40)

def ex6Tree : CNode Int :=
  .mk 0 20 0 0 [.mk 0 9 0 3 [.mk 0 4 0 7 [.mk 0 0 0 100 [], .mk 1 1 3 12 [.mk 1 0 0 100 [], .mk 2 0 1 100 []]],
    .mk 4 0 9 100 [.mk 4 0 0 100 [], .mk 3 0 0 100 []]], .mk 5 0 20 100 []]

theorem ex6δ_metric : IsMetric ex6δ := by
  have hfin : ∀ a b : Nat, ex6δ a b = ex6δ (min a 5) (min b 5) := fun a b => by simp [ex6δ]
  have hself : ∀ a : Fin 6, ex6δ a a = 0 := by decide
  have hsymm : ∀ a b : Fin 6, ex6δ a b = ex6δ b a := by decide
  have htri : ∀ a b c : Fin 6, ex6δ a c ≤ ex6δ a b + ex6δ b c := by decide
  have hlt : ∀ a : Nat, min a 5 < 6 := fun a => by omega
  refine ⟨fun x => ?_, fun x y => ?_, fun x y z => ?_⟩
  · rw [hfin]; exact hself ⟨min x 5, hlt x⟩
  · rw [hfin x y, hfin y x]; exact hsymm ⟨min x 5, hlt x⟩ ⟨min y 5, hlt y⟩
  · rw [hfin x z, hfin x y, hfin y z]
    exact htri ⟨min x 5, hlt x⟩ ⟨min y 5, hlt y⟩ ⟨min z 5, hlt z⟩

/-- the model builds the real tree (a node of two coinciding samples included) and the query answers -/
theorem ex6_build :
    CoverBuild.batchCreate ex6δ ex6Gs ex6Ds 20 (List.range 6) = some (ex6Tree, 100) ∧
      batchQuery ex6δ id 2 100 ex6Tree = some [[5, 5, 4, 3], [4, 4, 3], [3, 4, 3], [2, 1, 2], [1, 1, 2], [0, 0, 1]] :=
  ⟨by rfl, by decide +kernel⟩

/-- the scale functions bracket the positive distances of the six samples: `sLow = -1`, `sTop = 12`, so fuel 15
    suffices by `batchCreate_fuel_suffices` -/
example : ∃ t ls, CoverBuild.batchCreate ex6δ ex6Gs ex6Ds 15 (List.range 6) = some (t, ls) :=
  batchCreate_fuel_suffices ex6δ_metric (fun _ => Int.natCast_nonneg _) (by decide)
    (sLow := -1) (sTop := 12) (by unfold CoverBuild.ScalesOk; decide) (by decide)

/-- hence the tree is well formed (by the theorem, not by evaluation) … -/
example : wfTree ex6δ 6 ex6Tree = true :=
  batchCreate_wf ex6δ_metric (fun _ => Int.natCast_nonneg _) (List.Perm.refl _) ex6_build.1

/-- … its childless nodes carry the leaf scale (by the theorem) … -/
example : CNode.leavesAt 100 ex6Tree = true :=
  batchCreate_leavesAt ex6δ_metric (fun _ => Int.natCast_nonneg _) ex6_build.1

/-- … and, e.g., the list selected for sample 3 (x = 9, coinciding with sample 4) from its candidates `[4, 3]` is its
    exact 1-NN list (`cover_tree_end_to_end`) -/
example : IsExactKnn ex6δ (List.range 6) 1 3 (coverSelect ex6δ 3 1 [4, 3]) := by
  obtain ⟨res, h, _, hex⟩ := cover_tree_end_to_end ex6δ_metric (fun _ => Int.natCast_nonneg _) (k := 1) (by decide)
    (by decide) ex6_build.1 (hsort := id) (fun l => List.Perm.refl l)
  rw [ex6_build.2, Option.some.injEq] at h
  subst h
  exact hex 3 [4, 3] _ pairLt (by decide) (coverSelect_admissible ex6δ 3 1 [4, 3]).2
    (coverSelect_admissible ex6δ 3 1 [4, 3]).1

/-- the hypotheses of `cover_tree_total` are met by the six samples (`sLow = -1`, `sTop = 12`, fuel 15) -/
example : ∃ top ls res, CoverBuild.batchCreate ex6δ ex6Gs ex6Ds 15 (List.range 6) = some (top, ls) ∧
    batchQuery ex6δ id 2 ls top = some res ∧ (∀ q, q < 6 → ∃ cands, q :: cands ∈ res) ∧
    ∀ (q : Nat) (cands l : List Nat) (lt : Int × Nat → Int × Nat → Bool), q :: cands ∈ res →
      (∀ a b : Int × Nat, lt b a = false → a.1 ≤ b.1) → CoverOut ex6δ lt q 1 cands l →
      IsExactKnn ex6δ (List.range 6) 1 q l :=
  cover_tree_total ex6δ_metric (fun _ => Int.natCast_nonneg _) (by decide) (by decide)
    (sLow := -1) (sTop := 12) (by unfold CoverBuild.ScalesOk; decide) (by decide) (fun l => List.Perm.refl l)

/-- **F-COVER-COPY, Lean-checked**: with `query_chi->max_dist` counted once (the code before the repair) the
    copy-step pruning statement is false — witness: 7 samples in 3-D under L∞ found on the real code
    (`corpus/C02/f-cover-copy.case`), where the reference node holding the second nearest neighbour of a query
    sample is discarded. -/
theorem cover_copy_bound_refuted :
    ¬ (∀ (δ : Nat → Nat → Int) (pts : List Nat) (K0 : Nat) (C n : CNode Int) (L : List Nat) (ub : List Int)
        (Off : List Nat), IsMetric δ → UBOk δ pts K0 C.p ub Off → (∀ q' ∈ L, δ C.p q' ≤ C.maxDist) →
        (∀ c ∈ n.leaves, δ n.p c ≤ n.maxDist) →
        leInf (δ C.p n.p) (addInf (addInf (ub0 K0 ub) C.maxDist) n.maxDist) = false →
        ∀ q' ∈ L, ∀ c ∈ n.leaves, ¬ Near δ pts K0 q' c) :=
  copy_one_maxDist_refuted

end CoverQuery

/-! ### non-vacuity: the hypotheses are met by a concrete instance (points on the integer line) -/

/-- `|a - b|` on integers-as-naturals -/
def lineDist (a b : Nat) : Int := |(a : Int) - (b : Int)|

def lineCb : Cb Nat Int := ⟨lineDist, fun v a b => decide (lineDist v a < lineDist v b)⟩

example : IsMetric lineDist :=
  ⟨fun x => by simp [lineDist], fun x y => by simp only [lineDist]; exact abs_sub_comm _ _,
   fun x y z => by simp only [lineDist]; exact abs_sub_le _ _ _⟩

example : CbOk lineCb := fun v a b => by simp [lineCb]

example : Built lineCb [0, 3, 5, 6, 10, 11] (build lineCb [7, 500000] 6 0 [0, 3, 5, 6, 10, 11]).1 :=
  vptree_build_admissible (fun v a b => by simp [lineCb]) _ _ _

example : ∀ j ∈ [0, 3, 5, 6, 10, 11], lineDist 3 3 ≤ lineDist 3 j := by decide

/-- a candidate set with a tie at the boundary (query 1, k = 1: both 0 and 2 at distance 1) -/
example : CandsOk (fun a b : Nat => if a ≤ b then b - a else a - b) [0, 1, 2] 1 1 [2, 0, 1] := by decide

end TapkeeVerif.Knn
