import TapkeeVerif.Model.Knn
import TapkeeVerif.Model.VpTree
/-! Property C02 — theorems (work in progress; see Proofs/Knn*.lean). -/
namespace TapkeeVerif.Knn

/-- the oracle the driver evaluates is the specification -/
theorem isExactKnn_iff {α K : Type} [DecidableEq α] [DecidableEq K] [LE K] [DecidableLE K]
    (δ : α → α → K) (pts : List α) (k : Nat) (i : α) (l : List α) :
    isExactKnn δ pts k i l = true ↔ IsExactKnn δ pts k i l := by
  simp [isExactKnn]

end TapkeeVerif.Knn
