import TapkeeVerif.Props.C10
import TapkeeVerif.Props.C07
import TapkeeVerif.Props.C09Compose
import TapkeeVerif.Props.C08Compose
/-!
# Property C10 (composition) — LPP and NPE end to end: the stage models composed into one `embed` model each, joined with C07

`lppEmbedModel` is `LocalityPreservingProjectionsImplementation::embed` (methods/locality_preserving_projections.hpp),
`npeEmbedModel` is `NeighborhoodPreservingEmbeddingImplementation::embed` (methods/neighborhood_preserving_embedding.hpp),
each ONE function composed of the stage models that are proved (and tied to the code) separately:

    find_neighbors_with(plain_distance / kernel_distance)   Connected.findNeighbors (search = C02 model)        C02 / C03
    compute_laplacian(.., neighbors, distance, width)        Laplacian.computeLaplacian ∘ LeCompose.nbOf          C09   (LPP)
    linear_weight_matrix(.., neighbors, kernel, shifts)      the front of LleCompose.klleEmbedModel (lleM)        C08   (NPE)
    construct_locality_preserving_eigenproblem               LinearGraph.lppProblem                               C10
    construct_neighborhood_preserving_eigenproblem           LinearGraph.npeProblem                               C10
    generalized_eigendecomposition(Smallest, lhs, rhs, d)    LinearGraph.genSolveLower (what the solver reads) +
                                                             parameter `solver` (contract SpectralLocal.GenEigSystem),
                                                             first `d` columns (skip = 0)                         C10
    compute_mean, project(P, mean, ..)                       computeMean, embedRows        (Model/Pca, Project)   C06 / C07
    new MatrixProjectionImplementation(P, mean)              project P mean                (Model/Project)        C07

The last four statements are the same in the three methods: `linTail` / `linTail_spec`.  Nothing is re-defined.

Interfaces that needed an explicit statement to meet:
* the distance / kernel callback (`δ`, `κ`) and the feature callback (`feat`) are independent parameters on sample ids: no
  conjunct needs a relation between them (the graph is a function of `δ`/`κ` only, the pencil of the graph and of `feat`);
* NPE's first two statements ARE Kernel LLE's: the model takes them from `klleEmbedModel`, run with `d = 0` and a solver
  whose answer is discarded (`fun _ => (0, 0)`), so that every conjunct of `klle_end_to_end` about the neighbourhoods, the
  local systems and the alignment matrix applies verbatim; this needs `1 ≤ N` (KLLE's `leftCols` bound at `d = 0`);
* the generalised solver contract (`GenEigSystem`: full `Bs`-orthonormal ascending eigensystem) is a hypothesis *at the pair
  the solver actually reads* (`genSolveLower` of the constructed pair), as in C10 `lin_solution`;
* C07 speaks about program variables by source text (`Env`): `(o.P, o.mean)` are the values of `projection_result.first` /
  `mean_vector` of the generated row of the method — hypotheses on the environment, as in `pca_end_to_end`.
-/
namespace TapkeeVerif.LinCompose
open TapkeeVerif TapkeeVerif.Connected TapkeeVerif.Knn TapkeeVerif.Laplacian TapkeeVerif.LinearGraph
open TapkeeVerif.SpectralLocal TapkeeVerif.IsomapCompose TapkeeVerif.Gen Matrix

variable {K : Type} [Field K] [LinearOrder K] [IsStrictOrderedRing K]

/-- everything the three linear-graph `embed`s compute on the way, and the two things they return (`Y`, `proj`) -/
structure LinOut (N D d : Nat) (K : Type) where
  /-- result of `find_neighbors` -/
  found : Found
  /-- the sample-space matrix: graph Laplacian (LPP), LLE alignment matrix (NPE) -/
  M : Mat N N K
  /-- the sample weights of the right-hand side: degrees (LPP), ones (NPE) -/
  w : Vec N K
  /-- the feature vectors read through the callback, one ROW per sample -/
  F : Mat N D K
  /-- `eigenproblem_matrices.first / .second` exactly as constructed -/
  lhs : Mat D D K
  rhs : Mat D D K
  /-- what `GeneralizedSelfAdjointEigenSolver` reads of them (lower triangles, mirrored) -/
  As : Mat D D K
  Bs : Mat D D K
  /-- the full generalised eigensystem (ascending) the solver works with -/
  V : Mat D D K
  lam : Vec D K
  /-- `projection_result.first`: the first `d` columns -/
  P : Mat D d K
  /-- `mean_vector` -/
  mean : Vec D K
  /-- the embedding returned by `project(...)` -/
  Y : Mat N d K
  /-- the returned `ProjectingFunction` -/
  proj : Vec D K → Vec d K

/-- the common tail of the three `embed`s: solver on the constructed pair, `compute_mean`, `project`, projection object -/
def linTail {N D d : Nat} (f : Found) (M : Mat N N K) (w : Vec N K) (F : Mat N D K) (pr : Mat D D K × Mat D D K)
    (hd : 0 + d ≤ D) (solver : Mat D D K → Mat D D K → Mat D D K × Vec D K) : LinOut N D d K :=
  { found := f, M := M, w := w, F := F, lhs := pr.1, rhs := pr.2,
    As := (genSolveLower pr).1, Bs := (genSolveLower pr).2,
    V := (solver (genSolveLower pr).1 (genSolveLower pr).2).1,
    lam := (solver (genSolveLower pr).1 (genSolveLower pr).2).2,
    P := cols (solver (genSolveLower pr).1 (genSolveLower pr).2).1 (shiftIdx 0 hd),
    mean := computeMean F,
    Y := embedRows (cols (solver (genSolveLower pr).1 (genSolveLower pr).2).1 (shiftIdx 0 hd)) (computeMean F) F,
    proj := TapkeeVerif.project (cols (solver (genSolveLower pr).1 (genSolveLower pr).2).1 (shiftIdx 0 hd))
      (computeMean F) }

/-- the shape of the generated rows of the three methods in C07's table -/
def IsLinRow (r : String × String × ProjReturn) : Prop :=
  r.2.2 = .matrix "projection_result.first" "mean_vector" "projection_result.first" "mean_vector"
    "compute_mean(begin,end,features,current_dimension)"

/-- **the common tail, specified** (C10 spectral part + C07).  `A`, `B` the property's `X M Xᵀ`, `X B Xᵀ`; `hpr`: the solver
    reads `(2·A, B)` of the constructed pair (C10 `solver_sees_XMXt_*`).  Then with `o = linTail …`:
    (a) `o.As = 2·A`, `o.Bs = B`; (b) `P` = the first `d` columns of the solver's `V`; (c) under the solver contract at
    `(o.As, o.Bs)`: every column of `P` solves `A p = (½·λ) B p`, `Pᵀ B P = 1`, the eigenvalues are ascending, and `P`
    minimises `tr(Zᵀ A Z)` over all `Zᵀ B Z = 1` — the `d` smallest (C10 `lin_solution`);
    (d) the embedding is `Pᵀ(x_i − mean)` with the training mean (= C10's `LinearGraph.project P F`); the returned projection
    function is the one C07's generated row describes, reproduces every embedding row, is affine, and sends the mean to 0. -/
theorem linTail_spec {N D d : Nat} (f : Found) (M : Mat N N K) (w : Vec N K) (F : Mat N D K)
    (pr : Mat D D K × Mat D D K) (hd : 0 + d ≤ D) (solver : Mat D D K → Mat D D K → Mat D D K × Vec D K)
    (A B : Mat D D K) (hpr : genSolveLower pr = (fun i j => 2 * A i j, B))
    (r : String × String × ProjReturn) (hr : r ∈ projectionTable) (hrow : IsLinRow r) :
    let o := linTail f M w F pr hd solver
    (o.As = (fun i j => 2 * A i j) ∧ o.Bs = B) ∧
    ((o.V, o.lam) = solver o.As o.Bs ∧ o.P = cols (Mat.toM o.V) (shiftIdx 0 hd)) ∧
    (GenEigSystem (Mat.toM o.As) (Mat.toM o.Bs) (Mat.toM o.V) o.lam →
      (∀ j : Fin d, (Mat.toM A).mulVec (fun i => o.P i j)
          = ((1 : K) / 2 * o.lam (shiftIdx 0 hd j)) • (Mat.toM B).mulVec (fun i => o.P i j)) ∧
      (Mat.toM o.P)ᵀ * Mat.toM B * Mat.toM o.P = (1 : K)⁻¹ • (1 : Matrix (Fin d) (Fin d) K) ∧
      (∀ j j' : Fin d, j ≤ j' → (1 : K) / 2 * o.lam (shiftIdx 0 hd j) ≤ (1 : K) / 2 * o.lam (shiftIdx 0 hd j')) ∧
      ∀ Z : Matrix (Fin D) (Fin d) K, Zᵀ * Mat.toM B * Z = (1 : K)⁻¹ • (1 : Matrix (Fin d) (Fin d) K) →
        Matrix.trace ((Mat.toM o.P)ᵀ * Mat.toM A * Mat.toM o.P) ≤ Matrix.trace (Zᵀ * Mat.toM A * Z)) ∧
    ((o.mean = computeMean o.F ∧ (∀ a, o.mean a = (∑ i, o.F i a) / (N : K)) ∧
        o.Y = embedRows o.P o.mean o.F ∧ o.Y = LinearGraph.project o.P o.F) ∧
      (∀ env : C07.Env D d K, env.mat "projection_result.first" = o.P → env.vec "mean_vector" = o.mean →
        C07.returnedProjection env r.2.2 = some o.proj ∧ C07.returnedEmbedding env o.F r.2.2 = some o.Y ∧
        C07.meanOfInit o.F "compute_mean(begin,end,features,current_dimension)" = some o.mean) ∧
      (∀ i : Fin N, o.proj (o.F i) = o.Y i) ∧
      (∀ (x y : Vec D K) (a : K), o.proj (fun k => a * x k + (1 - a) * y k) =
        fun j => a * o.proj x j + (1 - a) * o.proj y j) ∧
      (∀ x : Vec D K, o.proj x = fun j => (∑ k, o.P k j * x k) - ∑ k, o.P k j * o.mean k) ∧
      o.proj o.mean = fun _ => 0) := by
  intro o
  have hAs : o.As = fun i j => 2 * A i j := congrArg Prod.fst hpr
  have hBs : o.Bs = B := congrArg Prod.snd hpr
  refine ⟨⟨hAs, hBs⟩, ⟨rfl, rfl⟩, ?_, ⟨rfl, fun a => ?_, rfl, rfl⟩, ?_, fun _ => rfl, ?_, ?_, ?_⟩
  · intro h
    have hA : Mat.toM o.As = (2 : K) • Mat.toM A := by
      rw [hAs]; ext i j; simp [Matrix.smul_apply]
    have hB : Mat.toM o.Bs = (1 : K) • Mat.toM B := by rw [hBs, one_smul]
    exact C10.lin_solution (Mat.toM A) (Mat.toM B) (Mat.toM o.As) (Mat.toM o.Bs) (Mat.toM o.V) o.lam 2 1 h hA hB
      two_pos one_pos hd
  · exact (C07.mean_is_training_mean o.F r hr _ _ _ _ _ hrow).2 a
  · intro env hmat hvec
    have hproj : C07.returnedProjection env r.2.2 = some o.proj := by
      rw [hrow]
      show some (TapkeeVerif.project (env.mat "projection_result.first") (env.vec "mean_vector")) = some o.proj
      rw [hmat, hvec]; rfl
    obtain ⟨Y, hY, hrowY⟩ := C07.embedding_row_eq_projection r hr env o.F o.proj hproj
    refine ⟨hproj, ?_, (C07.mean_is_training_mean o.F r hr _ _ _ _ _ hrow).1⟩
    rw [hY]
    congr 1
    funext i
    exact hrowY i
  · intro x y a
    exact C07.projection_affine o.P o.mean x y a
  · intro x
    exact C07.projection_linear_plus_const o.P o.mean x
  · exact C07.projection_of_mean_zero o.P o.mean

/-! ## LPP -/

def lppRow : String × String × ProjReturn :=
  ("LocalityPreservingProjections", "locality_preserving_projections.hpp",
    .matrix "projection_result.first" "mean_vector" "projection_result.first" "mean_vector"
      "compute_mean(begin,end,features,current_dimension)")
theorem lppRow_mem : lppRow ∈ projectionTable := by decide

/-- **`LocalityPreservingProjectionsImplementation::embed`, composed.**  `δ` distance callback, `feat` feature callback on
    sample ids `0..N-1`; `k` requested `num_neighbors`, `check` = `check_connectivity`, `d` target dimension, `width` the
    heat-kernel width, `heat` the `exp` oracle, `search k` the neighbour search (C02), `solver` the generalised
    eigensolver outcome on the pair it reads. -/
def lppEmbedModel {D : Nat} (δ : Nat → Nat → K) (feat : Nat → Vec D K) (N k : Nat) (check : Bool) (d : Nat)
    (hd : 0 + d ≤ D) (width : K) (heat : K → K) (search : Nat → Graph)
    (solver : Mat D D K → Mat D D K → Mat D D K × Vec D K) : Except Err (LinOut N D d K) :=
  match findNeighbors search N check (findFuel N) k [] with
  | .oob => .error .knnOob
  | .fuelOut => .error .knnFuel
  | .ok f =>
    if hu : Uniform f.graph N f.k then
      .ok (linTail f (computeLaplacian heat (fun i j : Fin N => δ i.1 j.1) width (LeCompose.nbOf hu)).1
        (computeLaplacian heat (fun i j : Fin N => δ i.1 j.1) width (LeCompose.nbOf hu)).2 (fun i : Fin N => feat i.1)
        (lppProblem (computeLaplacian heat (fun i j : Fin N => δ i.1 j.1) width (LeCompose.nbOf hu)).1
          (computeLaplacian heat (fun i j : Fin N => δ i.1 j.1) width (LeCompose.nbOf hu)).2
          (fun i : Fin N => feat i.1)) hd solver)
    else .error .knnOob

/-- **lpp_end_to_end.**  For every `N`, distance callback `δ`, feature callback `feat` (any `D`), requested
    `1 ≤ k ≤ N-1`, `check_connectivity` on, every exact search (C02), width, positive `exp` oracle, `d ≤ D` and solver
    outcome, the composed model returns (no error state) and
    1. the final `k'` is the least level of the doubling sequence whose graph passes `is_connected`;
    2. the lists are the exact `k'`-NN lists;
    3. `(o.M, o.w) = compute_laplacian` of THAT graph (`nbOf` reads the returned lists), `o.M` symmetric, `o.w > 0`;
    4. the pair handed to the solver is `construct_locality_preserving_eigenproblem (o.M, o.w, F)` and equals the FULL
       symmetric `(2·FᵀLF, FᵀDF)` — both triangles — and that is also what the solver reads of it;
    5. `linTail_spec` with `A = FᵀLF`, `B = FᵀDF`: under the solver contract the columns of `P` solve
       `(FᵀLF) p = (λ/2)(FᵀDF) p` for the `d` smallest eigenvalues (C10), the embedding is `Pᵀ(x_i − mean)`, and the
       returned projection function reproduces every embedding row and is affine (C07). -/
theorem lpp_end_to_end {D : Nat} (δ : Nat → Nat → K) (feat : Nat → Vec D K) {N : Nat} (hN : 0 < N) {k : Nat}
    (hk : 1 ≤ k) (hkN : k ≤ N - 1) {d : Nat} (hd : 0 + d ≤ D) (width : K) (heat : K → K) (hheat : ∀ x, 0 < heat x)
    (search : Nat → Graph) (hlen : ∀ k, (search k).length = N)
    (hexact : ∀ k, k ≤ N - 1 → ∀ u (hu : u < (search k).length), IsExactKnn δ (List.range N) k u (search k)[u])
    (solver : Mat D D K → Mat D D K → Mat D D K × Vec D K) :
    ∃ o, lppEmbedModel δ feat N k true d hd width heat search solver = .ok o ∧
      -- 1. k doubling
      (∃ j, o.found.k = min (k * 2 ^ j) (N - 1) ∧ k ≤ o.found.k ∧ StronglyConnected o.found.graph N ∧
        (∀ j', j' < j → ¬ StronglyConnected (search (min (k * 2 ^ j') (N - 1))) N) ∧
        o.found.tried = (List.range (j + 1)).map fun j' => min (k * 2 ^ j') (N - 1)) ∧
      -- 2. exact k'-NN lists
      (o.found.graph = search o.found.k ∧ o.found.graph.length = N ∧
        ∀ u (hu : u < o.found.graph.length), IsExactKnn δ (List.range N) o.found.k u o.found.graph[u]) ∧
      -- 3. the Laplacian of that graph
      (∃ hu : Uniform o.found.graph N o.found.k,
        (∀ i a, (o.found.graph[i.1]?).bind (·[a.1]?) = some (LeCompose.nbOf hu i a).1) ∧
        (o.M, o.w) = computeLaplacian heat (fun i j : Fin N => δ i.1 j.1) width (LeCompose.nbOf hu) ∧
        (∀ r c, o.M r c = o.M c r) ∧ (∀ i, 0 < o.w i) ∧ (Mat.toM o.M).mulVec (fun _ => 1) = 0) ∧
      -- 4. the feature-space pair: full and symmetric
      ((∀ i : Fin N, o.F i = feat i.1) ∧ (o.lhs, o.rhs) = lppProblem o.M o.w o.F ∧
        o.lhs = (fun i j => 2 * fullForm o.M o.F i j) ∧ o.rhs = fullDiagForm o.w o.F ∧
        (∀ i j, o.lhs i j = o.lhs j i) ∧ (∀ i j, o.rhs i j = o.rhs j i) ∧ o.As = o.lhs ∧ o.Bs = o.rhs) ∧
      -- 5. solver, projection matrix, embedding, projection function
      (((o.V, o.lam) = solver o.As o.Bs ∧ o.P = cols (Mat.toM o.V) (shiftIdx 0 hd)) ∧
        (GenEigSystem (Mat.toM o.As) (Mat.toM o.Bs) (Mat.toM o.V) o.lam →
          (∀ j : Fin d, (Mat.toM (fullForm o.M o.F)).mulVec (fun i => o.P i j)
              = ((1 : K) / 2 * o.lam (shiftIdx 0 hd j)) • (Mat.toM (fullDiagForm o.w o.F)).mulVec (fun i => o.P i j)) ∧
          (Mat.toM o.P)ᵀ * Mat.toM (fullDiagForm o.w o.F) * Mat.toM o.P = (1 : K)⁻¹ • (1 : Matrix (Fin d) (Fin d) K) ∧
          (∀ j j' : Fin d, j ≤ j' →
            (1 : K) / 2 * o.lam (shiftIdx 0 hd j) ≤ (1 : K) / 2 * o.lam (shiftIdx 0 hd j')) ∧
          ∀ Z : Matrix (Fin D) (Fin d) K,
            Zᵀ * Mat.toM (fullDiagForm o.w o.F) * Z = (1 : K)⁻¹ • (1 : Matrix (Fin d) (Fin d) K) →
            Matrix.trace ((Mat.toM o.P)ᵀ * Mat.toM (fullForm o.M o.F) * Mat.toM o.P)
              ≤ Matrix.trace (Zᵀ * Mat.toM (fullForm o.M o.F) * Z)) ∧
        ((o.mean = computeMean o.F ∧ (∀ a, o.mean a = (∑ i, o.F i a) / (N : K)) ∧
            o.Y = embedRows o.P o.mean o.F ∧ o.Y = LinearGraph.project o.P o.F) ∧
          (∀ env : C07.Env D d K, env.mat "projection_result.first" = o.P → env.vec "mean_vector" = o.mean →
            C07.returnedProjection env lppRow.2.2 = some o.proj ∧
            C07.returnedEmbedding env o.F lppRow.2.2 = some o.Y ∧
            C07.meanOfInit o.F "compute_mean(begin,end,features,current_dimension)" = some o.mean) ∧
          (∀ i : Fin N, o.proj (feat i.1) = o.Y i) ∧
          (∀ (x y : Vec D K) (a : K), o.proj (fun k => a * x k + (1 - a) * y k) =
            fun j => a * o.proj x j + (1 - a) * o.proj y j) ∧
          (∀ x : Vec D K, o.proj x = fun j => (∑ k, o.P k j * x k) - ∑ k, o.P k j * o.mean k) ∧
          o.proj o.mean = fun _ => 0)) := by
  obtain ⟨f, hf⟩ := findNeighbors_terminates δ search hN hk hlen hexact
  obtain ⟨j, hkj, hgraph, hsc, hmin, htried⟩ := k_raised_only_if_needed search hN _ k f hf
  have hk'le : f.k ≤ N - 1 := by rw [hkj]; exact Nat.min_le_right _ _
  have hex' : ∀ u (hu : u < f.graph.length), IsExactKnn δ (List.range N) f.k u f.graph[u] := by
    rw [hgraph]; exact hexact _ hk'le
  have hglen : f.graph.length = N := by rw [hgraph]; exact hlen _
  have huni : Uniform f.graph N f.k := uniform_of_exact hglen hex'
  have hkpos : 0 < f.k := by
    rw [hkj]; exact Nat.lt_min.2 ⟨Nat.mul_pos (by omega) (Nat.pow_pos (by omega)), by omega⟩
  have hLD := C09.computeLaplacian_eq heat (fun i j : Fin N => δ i.1 j.1) width (LeCompose.nbOf huni)
  set L := (computeLaplacian heat (fun i j : Fin N => δ i.1 j.1) width (LeCompose.nbOf huni)).1 with hLdef
  set Dg := (computeLaplacian heat (fun i j : Fin N => δ i.1 j.1) width (LeCompose.nbOf huni)).2 with hDdef
  set F : Mat N D K := fun i => feat i.1 with hF
  have hLsymT : (Mat.toM L)ᵀ = Mat.toM L := by rw [hLdef, hLD]; exact C09.laplacian_symm _ _
  have hLsym : ∀ r c, L r c = L c r := fun r c => by
    have := congrFun (congrFun hLsymT c) r
    simpa [Matrix.transpose_apply] using this
  have hDpos : ∀ i, 0 < Dg i := by
    rw [hDdef, hLD]; exact C09.degrees_pos _ _ hkpos (fun i a => hheat _)
  have hL1 : (Mat.toM L).mulVec (fun _ => 1) = 0 := by rw [hLdef, hLD]; exact C09.laplacian_mulVec_one _ _
  have hret := C10.lpp_returns hLsym Dg F
  have hsees := C10.solver_sees_XMXt_lpp hLsym Dg F
  obtain ⟨⟨hAs, hBs⟩, h5b, h5c, h5d⟩ :=
    linTail_spec f L Dg F (lppProblem L Dg F) hd solver (fullForm L F) (fullDiagForm Dg F) hsees lppRow lppRow_mem rfl
  refine ⟨linTail f L Dg F (lppProblem L Dg F) hd solver, ?_, ?_, ⟨hgraph, hglen, hex'⟩,
    ⟨huni, LeCompose.nbOf_spec huni, rfl, hLsym, hDpos, hL1⟩,
    ⟨fun _ => rfl, rfl, congrArg Prod.fst hret, congrArg Prod.snd hret, ?_, ?_, ?_, ?_⟩, h5b, h5c, h5d⟩
  · unfold lppEmbedModel
    simp only [hf, huni, dite_true]
    rfl
  · have hkle : k ≤ f.k := by
      rw [hkj]; exact Nat.le_min.2 ⟨Nat.le_mul_of_pos_right k (Nat.pow_pos (by omega)), hkN⟩
    exact ⟨j, hkj, hkle, hsc, hmin, htried⟩
  · intro i j
    show (lppProblem L Dg F).1 i j = (lppProblem L Dg F).1 j i
    rw [hret]
    show 2 * fullForm L F i j = 2 * fullForm L F j i
    rw [fullForm_symm hLsym F i j]
  · intro i j
    show (lppProblem L Dg F).2 i j = (lppProblem L Dg F).2 j i
    rw [hret]
    show fullDiagForm Dg F i j = fullDiagForm Dg F j i
    unfold fullDiagForm
    exact congrArg _ (funext fun r => by ring)
  · rw [hAs]; exact (congrArg Prod.fst hret).symm
  · rw [hBs]; exact (congrArg Prod.snd hret).symm

/-! ### Non-vacuity (LPP): two samples at distance 1 with features `0`, `1` (`D = 1`), `k = 1`, `d = 1`, constant heat `½`:
`L = [[1,−1],[−1,1]]`, degrees `(1,1)`, the solver reads `As = 2·FᵀLF = 2`, `Bs = FᵀDF = 1`; its outcome `V = 1`, `λ = 2` meets
the contract. -/

def exHalf : ℚ → ℚ := fun _ => 1 / 2
def exFeat1 : Nat → Vec 1 ℚ := fun i _ => (i : ℚ)
def exLppSolver : Mat 1 1 ℚ → Mat 1 1 ℚ → Mat 1 1 ℚ × Vec 1 ℚ := fun _ _ => (fun _ _ => 1, fun _ => 2)

example : ∃ o, lppEmbedModel LeCompose.exδ2 exFeat1 2 1 true 1 (by decide) 1 exHalf (bruteSearch LeCompose.exδ2 2)
      exLppSolver = .ok o ∧
    GenEigSystem (Mat.toM o.As) (Mat.toM o.Bs) (Mat.toM o.V) o.lam ∧ o.As 0 0 = 2 ∧ o.Bs 0 0 = 1 ∧
    (∀ i : Fin 2, o.proj (exFeat1 i.1) = o.Y i) ∧ o.Y 1 0 = 1 / 2 := by
  obtain ⟨o, ho, -, -, -, -, -, -, -, -, hrow, -⟩ :=
    lpp_end_to_end LeCompose.exδ2 exFeat1 (N := 2) (by decide) (k := 1) (by decide) (by decide) (d := 1) (by decide) 1
      exHalf (fun _ => by unfold exHalf; norm_num) (bruteSearch LeCompose.exδ2 2) (bruteSearch_length LeCompose.exδ2 2)
      (fun k hk => bruteSearch_exact (by decide)
        (fun i j _ _ => by unfold LeCompose.exδ2; simp only [if_true]; split_ifs <;> norm_num) k hk)
      exLppSolver
  have ho' := ho
  unfold lppEmbedModel at ho'
  simp only [LeCompose.ex_find2, LeCompose.ex_uniform2, dite_true] at ho'
  injection ho' with ho'
  subst ho'
  refine ⟨_, ho, ⟨by decide +kernel, by decide +kernel, ?_⟩, by decide +kernel, by decide +kernel, hrow,
    by decide +kernel⟩
  unfold Monotone
  decide +kernel

/-! ## NPE -/

def npeRow : String × String × ProjReturn :=
  ("NeighborhoodPreservingEmbedding", "neighborhood_preserving_embedding.hpp",
    .matrix "projection_result.first" "mean_vector" "projection_result.first" "mean_vector"
      "compute_mean(begin,end,features,current_dimension)")
theorem npeRow_mem : npeRow ∈ projectionTable := by decide

omit [LinearOrder K] [IsStrictOrderedRing K] in
theorem fullDiagForm_symm {N D : Nat} (w : Vec N K) (F : Mat N D K) (i j : Fin D) :
    fullDiagForm w F i j = fullDiagForm w F j i := by
  unfold fullDiagForm
  exact congrArg _ (funext fun r => by ring)

/-- the solver handed to `klleEmbedModel` when only its front (neighbours, weight matrix) is used -/
def discardedSolver {N : Nat} : Mat N N K → Mat N N K × Vec N K := fun _ => (fun _ _ => 0, fun _ => 0)

/-- **`NeighborhoodPreservingEmbeddingImplementation::embed`, composed.**  `κ` kernel callback, `feat` feature callback on
    sample ids; `shift` = `nullspace_shift`, `tshift` = `klle_shift`; `solve` the local `ldlt().solve(ones)` outcomes.  The
    first two statements (`find_neighbors_with(kernel_distance)`, `linear_weight_matrix`) are Kernel LLE's: taken from
    `klleEmbedModel` (its eigensolver stage run at `d = 0` on a discarded answer). -/
def npeEmbedModel {D : Nat} (κ : Nat → Nat → K) (feat : Nat → Vec D K) (N k : Nat) (check : Bool) (d : Nat)
    (hd : 0 + d ≤ D) (shift tshift : K) (search : Nat → Graph) (solve : (k : Nat) → Mat k k K → Vec k K)
    (solver : Mat D D K → Mat D D K → Mat D D K × Vec D K) : Except LleCompose.Err (LinOut N D d K) :=
  match LleCompose.klleEmbedModel κ N k check 0 shift tshift search solve discardedSolver with
  | .error e => .error e
  | .ok q => .ok (linTail q.found q.M (fun _ => 1) (fun i : Fin N => feat i.1)
      (npeProblem q.M (fun i : Fin N => feat i.1)) hd solver)

/-- **npe_end_to_end.**  For every `N`, kernel callback `κ`, feature callback `feat` (any `D`), requested `1 ≤ k ≤ N-1`,
    `check_connectivity` on, every exact search w.r.t. the kernel-induced distance (C02), every local solve outcome,
    `d ≤ D` and every generalised solver outcome: the KLLE front returns `q`, the composed model returns `o`, and
    1. the final `k'` is the least level of the doubling sequence whose graph passes `is_connected`;
    2. the lists are the exact `k'`-NN lists w.r.t. `sqrt(κ(l,l) − 2κ(l,r) + κ(r,r))`;
    3. `o.M` is `linear_weight_matrix` of THOSE neighbourhoods (`q.nb` reads the lists, `q.wraw` the local solves on the
       regularised local Gram systems — everything `klle_end_to_end` says about `q` applies, `hq`), it IS
       `(I − W)ᵀ(I − W) + nullspace_shift·I`, and it is symmetric;
    4. the pair handed to the solver is `construct_neighborhood_preserving_eigenproblem (o.M, F)` and equals the FULL
       symmetric `(2·FᵀMF, FᵀF)` — both triangles — and that is also what the solver reads of it;
    5. `linTail_spec` with `A = FᵀMF`, `B = FᵀF`: under the solver contract the columns of `P` solve
       `(FᵀMF) p = (λ/2)(FᵀF) p` for the `d` smallest eigenvalues (C10), the embedding is `Pᵀ(x_i − mean)`, and the
       returned projection function reproduces every embedding row and is affine (C07). -/
theorem npe_end_to_end {D : Nat} (κ : Nat → Nat → K) (sqrtO : K → K) (feat : Nat → Vec D K) {N : Nat} (hN : 0 < N)
    {k : Nat} (hk : 1 ≤ k) (hkN : k ≤ N - 1) {d : Nat} (hd : 0 + d ≤ D) (shift tshift : K)
    (search : Nat → Graph) (hlen : ∀ k, (search k).length = N)
    (hexact : ∀ k, k ≤ N - 1 → ∀ u (hu : u < (search k).length),
      IsExactKnn (LleCompose.kernelDist sqrtO κ) (List.range N) k u (search k)[u])
    (solve : (k : Nat) → Mat k k K → Vec k K) (solver : Mat D D K → Mat D D K → Mat D D K × Vec D K) :
    ∃ q o, LleCompose.klleEmbedModel κ N k true 0 shift tshift search solve discardedSolver = .ok q ∧
      npeEmbedModel κ feat N k true d hd shift tshift search solve solver = .ok o ∧
      o = linTail q.found q.M (fun _ => 1) (fun i : Fin N => feat i.1) (npeProblem q.M (fun i : Fin N => feat i.1))
        hd solver ∧
      -- 1. k doubling
      (∃ j, o.found.k = min (k * 2 ^ j) (N - 1) ∧ k ≤ o.found.k ∧ StronglyConnected o.found.graph N ∧
        (∀ j', j' < j → ¬ StronglyConnected (search (min (k * 2 ^ j') (N - 1))) N) ∧
        o.found.tried = (List.range (j + 1)).map fun j' => min (k * 2 ^ j') (N - 1)) ∧
      -- 2. exact k'-NN lists w.r.t. the kernel-induced distance
      (o.found.graph = search o.found.k ∧ o.found.graph.length = N ∧
        ∀ u (hu : u < o.found.graph.length),
          IsExactKnn (LleCompose.kernelDist sqrtO κ) (List.range N) o.found.k u o.found.graph[u]) ∧
      -- 3. the alignment matrix of those neighbourhoods
      (q.k = o.found.k ∧
        (∀ (i : Fin N) (a : Fin q.k), ∃ l, o.found.graph[i.1]? = some l ∧ l[a.1]? = some (q.nb i a).1) ∧
        (∀ i, q.wraw i = solve q.k (LocallyLinear.lleSystem (LleCompose.kMat κ N) i (q.nb i) tshift)) ∧
        o.M = LocallyLinear.lleM q.nb q.wraw shift ∧
        Mat.toM o.M = (1 - LocallyLinear.lleW q.nb (fun i => LocallyLinear.lleWeights (q.wraw i)))ᵀ
            * (1 - LocallyLinear.lleW q.nb (fun i => LocallyLinear.lleWeights (q.wraw i)))
          + shift • (1 : Matrix (Fin N) (Fin N) K) ∧
        ∀ r c, o.M r c = o.M c r) ∧
      -- 4. the feature-space pair: full and symmetric
      ((∀ i : Fin N, o.F i = feat i.1) ∧ (∀ i, o.w i = 1) ∧ (o.lhs, o.rhs) = npeProblem o.M o.F ∧
        o.lhs = (fun i j => 2 * fullForm o.M o.F i j) ∧ o.rhs = fullDiagForm (fun _ => 1) o.F ∧
        (∀ i j, o.lhs i j = o.lhs j i) ∧ (∀ i j, o.rhs i j = o.rhs j i) ∧ o.As = o.lhs ∧ o.Bs = o.rhs) ∧
      -- 5. solver, projection matrix, embedding, projection function
      (((o.V, o.lam) = solver o.As o.Bs ∧ o.P = cols (Mat.toM o.V) (shiftIdx 0 hd)) ∧
        (GenEigSystem (Mat.toM o.As) (Mat.toM o.Bs) (Mat.toM o.V) o.lam →
          (∀ j : Fin d, (Mat.toM (fullForm o.M o.F)).mulVec (fun i => o.P i j)
              = ((1 : K) / 2 * o.lam (shiftIdx 0 hd j))
                • (Mat.toM (fullDiagForm (fun _ => 1) o.F)).mulVec (fun i => o.P i j)) ∧
          (Mat.toM o.P)ᵀ * Mat.toM (fullDiagForm (fun _ => 1) o.F) * Mat.toM o.P
            = (1 : K)⁻¹ • (1 : Matrix (Fin d) (Fin d) K) ∧
          (∀ j j' : Fin d, j ≤ j' →
            (1 : K) / 2 * o.lam (shiftIdx 0 hd j) ≤ (1 : K) / 2 * o.lam (shiftIdx 0 hd j')) ∧
          ∀ Z : Matrix (Fin D) (Fin d) K,
            Zᵀ * Mat.toM (fullDiagForm (fun _ => 1) o.F) * Z = (1 : K)⁻¹ • (1 : Matrix (Fin d) (Fin d) K) →
            Matrix.trace ((Mat.toM o.P)ᵀ * Mat.toM (fullForm o.M o.F) * Mat.toM o.P)
              ≤ Matrix.trace (Zᵀ * Mat.toM (fullForm o.M o.F) * Z)) ∧
        ((o.mean = computeMean o.F ∧ (∀ a, o.mean a = (∑ i, o.F i a) / (N : K)) ∧
            o.Y = embedRows o.P o.mean o.F ∧ o.Y = LinearGraph.project o.P o.F) ∧
          (∀ env : C07.Env D d K, env.mat "projection_result.first" = o.P → env.vec "mean_vector" = o.mean →
            C07.returnedProjection env npeRow.2.2 = some o.proj ∧
            C07.returnedEmbedding env o.F npeRow.2.2 = some o.Y ∧
            C07.meanOfInit o.F "compute_mean(begin,end,features,current_dimension)" = some o.mean) ∧
          (∀ i : Fin N, o.proj (feat i.1) = o.Y i) ∧
          (∀ (x y : Vec D K) (a : K), o.proj (fun k => a * x k + (1 - a) * y k) =
            fun j => a * o.proj x j + (1 - a) * o.proj y j) ∧
          (∀ x : Vec D K, o.proj x = fun j => (∑ k, o.P k j * x k) - ∑ k, o.P k j * o.mean k) ∧
          o.proj o.mean = fun _ => 0)) := by
  obtain ⟨q, hq, ⟨j, hkj, hkle, -, hsc, hmin, htried⟩, h2, ⟨h3a, h3b, -, -⟩, ⟨h4a, -⟩, ⟨h5a, h5b⟩, -⟩ :=
    LleCompose.klle_end_to_end κ sqrtO hN hk hkN (d := 0) (by omega) shift tshift search hlen hexact solve
      discardedSolver
  set F : Mat N D K := fun i => feat i.1 with hF
  have hMT : (Mat.toM q.M)ᵀ = Mat.toM q.M := by
    rw [h5b]
    simp only [Matrix.transpose_add, Matrix.transpose_mul, Matrix.transpose_transpose, Matrix.transpose_smul,
      Matrix.transpose_one]
  have hMsym : ∀ r c, q.M r c = q.M c r := fun r c => by
    have := congrFun (congrFun hMT c) r
    simpa [Matrix.transpose_apply] using this
  have hret := C10.npe_returns hMsym F
  have hsees := C10.solver_sees_XMXt_npe hMsym F
  obtain ⟨⟨hAs, hBs⟩, t5b, t5c, t5d⟩ :=
    linTail_spec q.found q.M (fun _ => 1) F (npeProblem q.M F) hd solver (fullForm q.M F)
      (fullDiagForm (fun _ => 1) F) hsees npeRow npeRow_mem rfl
  refine ⟨q, linTail q.found q.M (fun _ => 1) F (npeProblem q.M F) hd solver, hq, ?_, rfl,
    ⟨j, hkj, hkle, hsc, hmin, htried⟩, h2, ⟨h3a, h3b, h4a, h5a, h5b, hMsym⟩,
    ⟨fun _ => rfl, fun _ => rfl, rfl, congrArg Prod.fst hret, congrArg Prod.snd hret, ?_, ?_, ?_, ?_⟩, t5b, t5c, t5d⟩
  · unfold npeEmbedModel
    rw [hq]
  · intro i j
    show (npeProblem q.M F).1 i j = (npeProblem q.M F).1 j i
    rw [hret]
    show 2 * fullForm q.M F i j = 2 * fullForm q.M F j i
    rw [fullForm_symm hMsym F i j]
  · intro i j
    show (npeProblem q.M F).2 i j = (npeProblem q.M F).2 j i
    rw [hret]
    exact fullDiagForm_symm _ F i j
  · rw [hAs]; exact (congrArg Prod.fst hret).symm
  · rw [hBs]; exact (congrArg Prod.snd hret).symm

/-! ### Non-vacuity (NPE): the four samples of `Props/C08Compose.lean` (`exκ`, `exSqrt`, `exSolve`; `k = 1` doubled once to
`k' = 2`), one feature `x = (0, 0, 0, 2)` (`D = 1`, `d = 1`): `Bs = FᵀF = 4`, the solver's outcome `V = ½`, `λ = As/4` meets
the contract. -/

def exFeatN : Nat → Vec 1 ℚ := fun i _ => if i = 3 then 2 else 0
def exNpeSolver : Mat 1 1 ℚ → Mat 1 1 ℚ → Mat 1 1 ℚ × Vec 1 ℚ := fun As _ => (fun _ _ => 1 / 2, fun _ => As 0 0 / 4)

example : ∃ o, npeEmbedModel LleCompose.exκ exFeatN 4 1 true 1 (by decide) (1 / 10) (1 / 25)
      (bruteSearch (LleCompose.kernelDist LleCompose.exSqrt LleCompose.exκ) 4) LleCompose.exSolve exNpeSolver = .ok o ∧
    o.found.k = 2 ∧ GenEigSystem (Mat.toM o.As) (Mat.toM o.Bs) (Mat.toM o.V) o.lam ∧ o.Bs 0 0 = 4 ∧
    (∀ i : Fin 4, o.proj (exFeatN i.1) = o.Y i) := by
  obtain ⟨q, o, hq, ho, hdef, -, -, -, -, -, -, -, -, hrow, -⟩ :=
    npe_end_to_end LleCompose.exκ LleCompose.exSqrt exFeatN (N := 4) (by decide) (k := 1) (by decide) (by decide)
      (d := 1) (by decide) (1 / 10) (1 / 25) (bruteSearch (LleCompose.kernelDist LleCompose.exSqrt LleCompose.exκ) 4)
      (bruteSearch_length _ 4) (fun k hk => bruteSearch_exact (by decide) LleCompose.ex_self k hk) LleCompose.exSolve
      exNpeSolver
  have hq' := hq
  unfold LleCompose.klleEmbedModel at hq'
  simp only [LleCompose.ex_find, LleCompose.ex_fwd] at hq'
  rw [dif_pos (by decide)] at hq'
  injection hq' with hq'
  subst hq'
  subst hdef
  refine ⟨_, ho, rfl, ⟨by decide +kernel, by decide +kernel, ?_⟩, by decide +kernel, hrow⟩
  unfold Monotone
  decide +kernel

/-! ## LLTSA -/

def lltsaRow : String × String × ProjReturn :=
  ("LinearLocalTangentSpaceAlignment", "linear_local_tangent_space_alignment.hpp",
    .matrix "projection_result.first" "mean_vector" "projection_result.first" "mean_vector"
      "compute_mean(begin,end,features,current_dimension)")
theorem lltsaRow_mem : lltsaRow ∈ projectionTable := by decide

/-- **`LinearLocalTangentSpaceAlignmentImplementation::embed`, composed.**  The first two statements
    (`find_neighbors_with(kernel_distance)`, `tangent_weight_matrix(.., target_dimension, nullspace_shift)`) are Kernel
    LTSA's: taken from `kltsaEmbedModel` (same `d`; its eigensolver stage runs on a discarded answer). -/
def lltsaEmbedModel {D : Nat} (κ : Nat → Nat → K) (feat : Nat → Vec D K) (N k : Nat) (check : Bool) (d : Nat)
    (hd : 0 + d ≤ D) (shift : K) (search : Nat → Graph) (localEig : (k : Nat) → Mat k k K → Mat k d K)
    (rskO : Nat → K) (solver : Mat D D K → Mat D D K → Mat D D K × Vec D K) :
    Except LleCompose.Err (LinOut N D d K) :=
  match LleCompose.kltsaEmbedModel κ N k check d shift search localEig rskO discardedSolver with
  | .error e => .error e
  | .ok q => .ok (linTail q.found q.M (fun _ => 1) (fun i : Fin N => feat i.1)
      (lltsaProblem q.M (fun i : Fin N => feat i.1)) hd solver)

/-- **lltsa_end_to_end.**  As `npe_end_to_end`, with `1 ≤ d ≤ k` (the range `validate()` lets through; then `1 + d ≤ N`):
    the KLTSA front returns `q`, the composed model returns `o`, and
    1.–2. least passing `k'`, exact `k'`-NN lists w.r.t. the kernel-induced distance;
    3. `o.M` is `tangent_weight_matrix` of THOSE neighbourhoods: `Σ_i S_i (I − G_i G_iᵀ) S_iᵀ + nullspace_shift·I` with
       `G_i G_iᵀ = rsk² + U_i U_iᵀ`, `U_i` the local eigensolver's outcome on the centred local Gram matrix (everything
       `kltsa_end_to_end` says about `q` applies, `hq`); it is symmetric;
    4. the pair handed to the solver is `construct_lltsa_eigenproblem (o.M, F)` and equals the FULL symmetric
       `(2·Fᵀ(H M H)F, FᵀHF)` (`H` the centring matrix) — both triangles — and that is what the solver reads of it;
    5. `linTail_spec` with `A = Fᵀ(H M H)F`, `B = FᵀHF`: under the solver contract the columns of `P` solve
       `A p = (λ/2) B p` for the `d` smallest eigenvalues (C10; `lltsa_solves_alignment_problem` turns this into the
       property's problem with the alignment matrix proper, eigenvalues shifted by `nullspace_shift`), the embedding is
       `Pᵀ(x_i − mean)`, and the returned projection function reproduces every embedding row and is affine (C07). -/
theorem lltsa_end_to_end {D : Nat} (κ : Nat → Nat → K) (sqrtO : K → K) (feat : Nat → Vec D K) {N : Nat} (hN : 0 < N)
    {k : Nat} (hk : 1 ≤ k) (hkN : k ≤ N - 1) {d : Nat} (hdk : d ≤ k) (hd : 0 + d ≤ D) (shift : K)
    (search : Nat → Graph) (hlen : ∀ k, (search k).length = N)
    (hexact : ∀ k, k ≤ N - 1 → ∀ u (hu : u < (search k).length),
      IsExactKnn (LleCompose.kernelDist sqrtO κ) (List.range N) k u (search k)[u])
    (localEig : (k : Nat) → Mat k k K → Mat k d K) (rskO : Nat → K)
    (solver : Mat D D K → Mat D D K → Mat D D K × Vec D K) :
    ∃ q o, LleCompose.kltsaEmbedModel κ N k true d shift search localEig rskO discardedSolver = .ok q ∧
      lltsaEmbedModel κ feat N k true d hd shift search localEig rskO solver = .ok o ∧
      o = linTail q.found q.M (fun _ => 1) (fun i : Fin N => feat i.1) (lltsaProblem q.M (fun i : Fin N => feat i.1))
        hd solver ∧
      -- 1. k doubling
      (∃ j, o.found.k = min (k * 2 ^ j) (N - 1) ∧ k ≤ o.found.k ∧ StronglyConnected o.found.graph N ∧
        (∀ j', j' < j → ¬ StronglyConnected (search (min (k * 2 ^ j') (N - 1))) N) ∧
        o.found.tried = (List.range (j + 1)).map fun j' => min (k * 2 ^ j') (N - 1)) ∧
      -- 2. exact k'-NN lists w.r.t. the kernel-induced distance
      (o.found.graph = search o.found.k ∧ o.found.graph.length = N ∧
        ∀ u (hu : u < o.found.graph.length),
          IsExactKnn (LleCompose.kernelDist sqrtO κ) (List.range N) o.found.k u o.found.graph[u]) ∧
      -- 3. the alignment matrix of those neighbourhoods
      (q.k = o.found.k ∧ d ≤ q.k ∧
        (∀ (i : Fin N) (a : Fin q.k), ∃ l, o.found.graph[i.1]? = some l ∧ l[a.1]? = some (q.nb i a).1) ∧
        (∀ i, q.U i = localEig q.k (LocallyLinear.localCentered (LleCompose.kMat κ N) (q.nb i))) ∧
        o.M = LocallyLinear.ltsaM q.nb q.rsk q.U shift ∧
        Mat.toM o.M = (∑ i, LocallyLinear.S (q.nb i) * (1 - Mat.toM (LocallyLinear.ltsaProj q.rsk (q.U i)))
            * (LocallyLinear.S (q.nb i))ᵀ) + shift • (1 : Matrix (Fin N) (Fin N) K) ∧
        ∀ r c, o.M r c = o.M c r) ∧
      -- 4. the feature-space pair: full and symmetric
      ((∀ i : Fin N, o.F i = feat i.1) ∧ (o.lhs, o.rhs) = lltsaProblem o.M o.F ∧
        o.lhs = (fun i j => 2 * fullForm (centredForm o.M) o.F i j) ∧ o.rhs = fullForm LinearGraph.centering o.F ∧
        o.As = o.lhs ∧ o.Bs = o.rhs) ∧
      -- 5. solver, projection matrix, embedding, projection function
      (((o.V, o.lam) = solver o.As o.Bs ∧ o.P = cols (Mat.toM o.V) (shiftIdx 0 hd)) ∧
        (GenEigSystem (Mat.toM o.As) (Mat.toM o.Bs) (Mat.toM o.V) o.lam →
          (∀ j : Fin d, (Mat.toM (fullForm (centredForm o.M) o.F)).mulVec (fun i => o.P i j)
              = ((1 : K) / 2 * o.lam (shiftIdx 0 hd j))
                • (Mat.toM (fullForm LinearGraph.centering o.F)).mulVec (fun i => o.P i j)) ∧
          (Mat.toM o.P)ᵀ * Mat.toM (fullForm LinearGraph.centering o.F) * Mat.toM o.P
            = (1 : K)⁻¹ • (1 : Matrix (Fin d) (Fin d) K) ∧
          (∀ j j' : Fin d, j ≤ j' →
            (1 : K) / 2 * o.lam (shiftIdx 0 hd j) ≤ (1 : K) / 2 * o.lam (shiftIdx 0 hd j')) ∧
          ∀ Z : Matrix (Fin D) (Fin d) K,
            Zᵀ * Mat.toM (fullForm LinearGraph.centering o.F) * Z = (1 : K)⁻¹ • (1 : Matrix (Fin d) (Fin d) K) →
            Matrix.trace ((Mat.toM o.P)ᵀ * Mat.toM (fullForm (centredForm o.M) o.F) * Mat.toM o.P)
              ≤ Matrix.trace (Zᵀ * Mat.toM (fullForm (centredForm o.M) o.F) * Z)) ∧
        ((o.mean = computeMean o.F ∧ (∀ a, o.mean a = (∑ i, o.F i a) / (N : K)) ∧
            o.Y = embedRows o.P o.mean o.F ∧ o.Y = LinearGraph.project o.P o.F) ∧
          (∀ env : C07.Env D d K, env.mat "projection_result.first" = o.P → env.vec "mean_vector" = o.mean →
            C07.returnedProjection env lltsaRow.2.2 = some o.proj ∧
            C07.returnedEmbedding env o.F lltsaRow.2.2 = some o.Y ∧
            C07.meanOfInit o.F "compute_mean(begin,end,features,current_dimension)" = some o.mean) ∧
          (∀ i : Fin N, o.proj (feat i.1) = o.Y i) ∧
          (∀ (x y : Vec D K) (a : K), o.proj (fun k => a * x k + (1 - a) * y k) =
            fun j => a * o.proj x j + (1 - a) * o.proj y j) ∧
          (∀ x : Vec D K, o.proj x = fun j => (∑ k, o.P k j * x k) - ∑ k, o.P k j * o.mean k) ∧
          o.proj o.mean = fun _ => 0)) := by
  obtain ⟨q, hq, ⟨j, hkj, hkle, -, hsc, hmin, htried⟩, h2, ⟨h3a, h3b, -, -⟩, ⟨h4a, -, h4c, -, -, -, h4g⟩, ⟨h5a, h5b⟩, -⟩ :=
    LleCompose.kltsa_end_to_end κ sqrtO hN hk hkN (d := d) hdk (by omega) shift search hlen hexact localEig rskO
      discardedSolver
  set F : Mat N D K := fun i => feat i.1 with hF
  have hP : ∀ i, (Mat.toM (LocallyLinear.ltsaProj q.rsk (q.U i)))ᵀ = Mat.toM (LocallyLinear.ltsaProj q.rsk (q.U i)) := by
    intro i
    ext a b
    simp only [Matrix.transpose_apply, Mat.toM_apply, h4g]
    congr 1
    exact Finset.sum_congr rfl fun c _ => mul_comm _ _
  have hMT : (Mat.toM q.M)ᵀ = Mat.toM q.M := by
    rw [h5b, Matrix.transpose_add, Matrix.transpose_sum, Matrix.transpose_smul, Matrix.transpose_one]
    congr 1
    refine Finset.sum_congr rfl fun i _ => ?_
    rw [Matrix.transpose_mul, Matrix.transpose_mul, Matrix.transpose_transpose, Matrix.transpose_sub,
      Matrix.transpose_one, hP i, Matrix.mul_assoc]
  have hMsym : ∀ r c, q.M r c = q.M c r := fun r c => by
    have := congrFun (congrFun hMT c) r
    simpa [Matrix.transpose_apply] using this
  have hret := C10.lltsa_returns hMsym F
  have hsees := C10.solver_sees_XMXt_lltsa hMsym F
  obtain ⟨⟨hAs, hBs⟩, t5b, t5c, t5d⟩ :=
    linTail_spec q.found q.M (fun _ => 1) F (lltsaProblem q.M F) hd solver (fullForm (centredForm q.M) F)
      (fullForm LinearGraph.centering F) hsees lltsaRow lltsaRow_mem rfl
  refine ⟨q, linTail q.found q.M (fun _ => 1) F (lltsaProblem q.M F) hd solver, hq, ?_, rfl,
    ⟨j, hkj, hkle, hsc, hmin, htried⟩, h2, ⟨h3a, h4c, h3b, h4a, h5a, h5b, hMsym⟩,
    ⟨fun _ => rfl, rfl, congrArg Prod.fst hret, congrArg Prod.snd hret, ?_, ?_⟩, t5b, t5c, t5d⟩
  · unfold lltsaEmbedModel
    rw [hq]
  · rw [hAs]; exact (congrArg Prod.fst hret).symm
  · rw [hBs]; exact (congrArg Prod.snd hret).symm

/-- non-vacuity of the outer hypotheses (LLTSA): the KLTSA instance of `Props/C08Compose.lean` (`N = 4`, requested `k = 1`
    doubled once, `d = 1`) with the feature `x = (0, 0, 0, 2)`: the composed model runs and the returned projection
    reproduces the embedding rows.  The solver contract of conjunct 5 is the same hypothesis as for NPE / LPP (instances
    above); it is not instantiated here. -/
example : ∃ o, lltsaEmbedModel LleCompose.exκ exFeatN 4 1 true 1 (by decide) (1 / 10)
      (bruteSearch (LleCompose.kernelDist LleCompose.exSqrt LleCompose.exκ) 4) (fun _ _ _ _ => (0 : ℚ)) (fun _ => 1 / 2)
      exNpeSolver = .ok o ∧ o.found.k = 2 ∧ (∀ i : Fin 4, o.proj (exFeatN i.1) = o.Y i) := by
  obtain ⟨q, o, -, ho, -, ⟨j, hkj, hkle, -⟩, -, -, -, -, -, -, -, hrow, -⟩ :=
    lltsa_end_to_end LleCompose.exκ LleCompose.exSqrt exFeatN (N := 4) (by decide) (k := 1) (by decide) (by decide)
      (d := 1) (by decide) (by decide) (1 / 10) (bruteSearch (LleCompose.kernelDist LleCompose.exSqrt LleCompose.exκ) 4)
      (bruteSearch_length _ 4) (fun k hk => bruteSearch_exact (by decide) LleCompose.ex_self k hk)
      (fun _ _ _ _ => (0 : ℚ)) (fun _ => 1 / 2) exNpeSolver
  have ho' := ho
  unfold lltsaEmbedModel LleCompose.kltsaEmbedModel at ho'
  simp only [LleCompose.ex_find, LleCompose.ex_fwd] at ho'
  rw [if_pos (by decide), dif_pos (by decide)] at ho'
  injection ho' with ho'
  subst ho'
  exact ⟨_, ho, rfl, hrow⟩

end TapkeeVerif.LinCompose
