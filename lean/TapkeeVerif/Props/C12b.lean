import Mathlib.Data.List.Nodup
import Mathlib.Data.Matrix.Mul
import TapkeeVerif.Props.C02
import TapkeeVerif.Props.C04
import TapkeeVerif.Proofs.Spectral
import TapkeeVerif.Proofs.Equivariance
import TapkeeVerif.Model.Mds
import TapkeeVerif.Model.Pca
import TapkeeVerif.Model.IsomapPre
/-!
# C12 (second module) — the other properties' theorems transported along a re-ordering of the samples

Corollaries of theorems owned by other properties (imported read-only):

* C02 (`Props/C02.lean`): exactness of a neighbour list transports along a renaming of the samples, hence the
  brute-force search on re-ordered data returns — for every admissible outcome of `std::nth_element` — a list whose
  un-renamed image is an exact k-NN list of the original data;
* C04 (`Props/C04.lean`, `dijkstra_exact`): the geodesics of the relabelled neighbourhood graph are the relabelled
  geodesics, for both queue disciplines and every tie-breaking stream on either side;
* the spectral vocabulary of C05/C06/C08–C10 (`Proofs/Spectral.lean`, `IsEigSystem` on Mathlib matrices): the eigen-system
  contract is stable under `B ↦ ΠBΠᵀ`, `V ↦ ΠV`, and is the same contract as `Equivariance.IsEigSys` of `Props/C12`.

Kept apart from `Props/C12.lean` so that a temporarily broken upstream module cannot break the main module.
-/
set_option linter.unusedSectionVars false

namespace TapkeeVerif.C12b

/-! ## C02: exact k-NN lists transport along a renaming -/

section knn
open TapkeeVerif.Knn
variable {α β K : Type} [DecidableEq α] [DecidableEq β] [LinearOrder K]

theorem others_map (σ : α → β) (hσ : Function.Injective σ) (pts : List α) (i : α) :
    others (pts.map σ) (σ i) = (others pts i).map σ := by
  unfold others
  rw [List.filter_map]
  congr 1
  apply List.filter_congr
  intro j _
  simp [hσ.eq_iff]

/-- `l` is an exact k-NN list of `i` iff the renamed list is one of the renamed sample w.r.t. the renamed callback -/
theorem isExactKnn_transport (σ : α → β) (hσ : Function.Injective σ) (δ : α → α → K) (δ' : β → β → K)
    (hδ : ∀ a b, δ' (σ a) (σ b) = δ a b) (pts : List α) (k : Nat) (i : α) (l : List α) :
    IsExactKnn δ' (pts.map σ) k (σ i) (l.map σ) ↔ IsExactKnn δ pts k i l := by
  unfold IsExactKnn
  have h1 : (l.map σ).map (δ' (σ i)) = l.map (δ i) := by
    rw [List.map_map]
    exact List.map_congr_left fun a _ => hδ i a
  have h2 : ((others pts i).map σ).map (δ' (σ i)) = (others pts i).map (δ i) := by
    rw [List.map_map]
    exact List.map_congr_left fun a _ => hδ i a
  rw [others_map σ hσ, h1, h2, List.length_map, List.nodup_map_iff hσ, List.mem_map_of_injective hσ]
  have h3 : (∀ j ∈ l.map σ, j ∈ pts.map σ) ↔ ∀ j ∈ l, j ∈ pts := by
    constructor
    · intro h j hj
      exact (List.mem_map_of_injective hσ).mp (h (σ j) (List.mem_map_of_mem hj))
    · intro h j hj
      obtain ⟨a, ha, rfl⟩ := List.mem_map.mp hj
      exact List.mem_map_of_mem (h a ha)
  rw [h3]

/-- **brute force on re-ordered data.**  Rename the samples by `π`, hand the renamed data to
    `find_neighbors_bruteforce_impl`: whatever `std::nth_element` does, the list it returns for the renamed
    sample, read back through `π⁻¹`, is an exact k-NN list of the original sample in the original data. -/
theorem brute_perm (π : Equiv.Perm α) {δ : α → α → K} {pts : List α} {k : Nat} {i : α} {l' : List α}
    (hpts : pts.Nodup) (hi : i ∈ pts) (hk : k < pts.length) (hself : ∀ j ∈ pts, δ i i ≤ δ i j)
    (h : BruteOut (fun a b => δ (π.symm a) (π.symm b)) (pts.map π) k (π i) l') :
    IsExactKnn δ pts k i (l'.map π.symm) := by
  have hex : IsExactKnn (fun a b => δ (π.symm a) (π.symm b)) (pts.map π) k (π i) l' := by
    refine brute_exact ((List.nodup_map_iff π.injective).mpr hpts) (List.mem_map_of_mem hi)
      (by rw [List.length_map]; exact hk) ?_ h
    intro j hj
    obtain ⟨a, ha, rfl⟩ := List.mem_map.mp hj
    simpa using hself a ha
  have hl : l' = (l'.map π.symm).map π := by
    rw [List.map_map]
    simp
  rw [hl] at hex
  exact (isExactKnn_transport π π.injective δ _ (fun a b => by simp) pts k i _).mp hex

/-- non-vacuity: on the line 0,1,2,3 the model's own brute-force output for the re-ordered data is admissible -/
example : BruteOut (fun a b : Nat => |(a : Int) - (b : Int)|) [0, 1, 2, 3] 2 1
    (bruteKnn (fun a b : Nat => |(a : Int) - (b : Int)|) [0, 1, 2, 3] 2 1) :=
  bruteKnn_admissible _ _ _ _

end knn

/-! ## C04: geodesics of the relabelled graph are the relabelled geodesics -/

section dijkstra
open TapkeeVerif.Dijkstra
variable {K : Type} [AddCommMonoid K] [LinearOrder K] [IsOrderedAddMonoid K]

/-- `P'` is `P` with the samples re-ordered: new sample `u` is old sample `p u`, old index `a` is now called `q a` -/
structure IsRelabel (p q : Nat → Nat) (P P' : Problem K) : Prop where
  N_eq : P'.N = P.N
  p_lt : ∀ a, a < P.N → p a < P.N
  q_lt : ∀ a, a < P.N → q a < P.N
  pq : ∀ a, a < P.N → p (q a) = a
  qp : ∀ a, a < P.N → q (p a) = a
  nbr : ∀ u, u < P.N → ∀ i, P'.nbr u i = (P.nbr (p u) i).map q
  w : ∀ a b, a < P.N → b < P.N → P'.w a b = P.w (p a) (p b)

variable {p q : Nat → Nat} {P P' : Problem K} {k : Nat}

theorem edge_relabel (hr : IsRelabel p q P P') {u x : Nat} (h : Edge P k u x) : Edge P' k (q u) (q x) := by
  obtain ⟨hu, hx, i, hi, hn⟩ := h
  refine ⟨hr.N_eq ▸ hr.q_lt u hu, hr.N_eq ▸ hr.q_lt x hx, i, hi, ?_⟩
  rw [hr.nbr (q u) (hr.q_lt u hu) i, hr.pq u hu, hn]
  rfl

theorem edge_unrelabel (hr : IsRelabel p q P P') (hwf : WF P k) {u x : Nat} (h : Edge P' k u x) :
    Edge P k (p u) (p x) := by
  obtain ⟨hu, hx, i, hi, hn⟩ := h
  rw [hr.N_eq] at hu hx
  obtain ⟨y, hy, hyN⟩ := hwf (p u) (hr.p_lt u hu) i hi
  rw [hr.nbr u hu i, hy] at hn
  have hxy : q y = x := by simpa using hn
  refine ⟨hr.p_lt u hu, hr.p_lt x hx, i, hi, ?_⟩
  rw [hy, ← hxy, hr.pq y hyN]

theorem walk_relabel (hr : IsRelabel p q P P') {s v : Nat} {d : K} (h : Walk P k s v d) :
    Walk P' k (q s) (q v) d := by
  induction h with
  | nil hs => exact Walk.nil (hr.N_eq ▸ hr.q_lt _ hs)
  | snoc _ he ih =>
    have he' := edge_relabel hr he
    have := Walk.snoc ih he'
    rwa [hr.w _ _ (hr.q_lt _ he.1) (hr.q_lt _ he.2.1), hr.pq _ he.1, hr.pq _ he.2.1] at this

theorem walk_unrelabel (hr : IsRelabel p q P P') (hwf : WF P k) {s v : Nat} {d : K} (h : Walk P' k s v d) :
    Walk P k (p s) (p v) d := by
  induction h with
  | nil hs => exact Walk.nil (hr.p_lt _ (hr.N_eq ▸ hs))
  | snoc _ he ih =>
    have he' := edge_unrelabel hr hwf he
    have := Walk.snoc ih he'
    rwa [← hr.w _ _ (hr.N_eq ▸ he.1) (hr.N_eq ▸ he.2.1)] at this

/-- the geodesic value between two samples does not depend on how the samples are numbered -/
theorem geodesic_perm (hr : IsRelabel p q P P') (hwf : WF P k) {s v : Nat} (hs : s < P.N) (hv : v < P.N)
    {o : Option K} (h : IsGeodesic P k s v o) : IsGeodesic P' k (q s) (q v) o := by
  cases o with
  | none =>
    intro d' hw
    have := walk_unrelabel hr hwf hw
    rw [hr.pq s hs, hr.pq v hv] at this
    exact h d' this
  | some d =>
    refine ⟨walk_relabel hr h.1, fun d' hw => ?_⟩
    have := walk_unrelabel hr hwf hw
    rw [hr.pq s hs, hr.pq v hv] at this
    exact h.2 d' this

theorem wf_relabel (hr : IsRelabel p q P P') (hwf : WF P k) : WF P' k := by
  intro u hu i hi
  rw [hr.N_eq] at hu
  obtain ⟨y, hy, hyN⟩ := hwf (p u) (hr.p_lt u hu) i hi
  exact ⟨q y, by rw [hr.nbr u hu i, hy]; rfl, hr.N_eq ▸ hr.q_lt y hyN⟩

/-- **dijkstra_perm.**  Run the Dijkstra of `routines/isomap.hpp` on the neighbourhood graph and on the same graph
    with the samples re-ordered — either queue discipline, any tie-breaking stream, independently on the two
    sides: both rows exist and the entry for the renamed target equals the entry for the original target. -/
theorem dijkstra_perm (hr : IsRelabel p q P P') (hwf : WF P k) (hw : ∀ a b, 0 ≤ P.w a b)
    (hw' : ∀ a b, 0 ≤ P'.w a b) (disc disc' : Disc) (ch ch' : Nat → Nat) {s : Nat} (hs : s < P.N) :
    ∃ r r', row P disc k ch s s = .ok r ∧ row P' disc' k ch' (q s) (q s) = .ok r' ∧
      ∀ v (hv : v < P.N), r'[q v]'(hr.N_eq ▸ hr.q_lt v hv) = r[v] := by
  obtain ⟨r, hrow, hg⟩ := dijkstra_exact hwf hw disc ch hs
  obtain ⟨r', hrow', hg'⟩ := dijkstra_exact (wf_relabel hr hwf) hw' disc' ch' (hr.N_eq ▸ hr.q_lt s hs : q s < P'.N)
  refine ⟨r, r', hrow, hrow', fun v hv => ?_⟩
  exact (hg' (q v) (hr.N_eq ▸ hr.q_lt v hv)).unique (geodesic_perm hr hwf hs hv (hg v hv))

/-- non-vacuity: the cycle 0 → 1 → 2 → 0 and the same cycle with samples 0 and 1 exchanged -/
example : IsRelabel (K := Nat) (fun a => if a = 0 then 1 else if a = 1 then 0 else a)
    (fun a => if a = 0 then 1 else if a = 1 then 0 else a)
    ⟨3, #[#[1], #[2], #[0]], fun a b => a + b⟩
    ⟨3, #[#[2], #[0], #[1]], fun a b =>
      (if a = 0 then 1 else if a = 1 then 0 else a) + (if b = 0 then 1 else if b = 1 then 0 else b)⟩ := by
  refine ⟨rfl, by decide, by decide, by decide, by decide, ?_, fun a b _ _ => rfl⟩
  intro u hu i
  have hu3 : u < 3 := hu
  have : u = 0 ∨ u = 1 ∨ u = 2 := by omega
  rcases this with rfl | rfl | rfl <;> rcases i with _ | i <;> simp [Problem.nbr]

end dijkstra

/-! ## the spectral contract of C05 / C06 / C08–C10 under a re-ordering -/

section spectral
open Matrix TapkeeVerif.Spectral
variable {K : Type} [Field K] {n d : Type} [Fintype n] [DecidableEq n] [Fintype d] [DecidableEq d]

/-- if `(V, λ)` is an eigen-system of `A` then `(ΠV, λ)` is one of `ΠAΠᵀ` (`Proofs/Spectral.IsEigSystem`) -/
theorem isEigSystem_perm (π : Equiv.Perm n) {A : Matrix n n K} {V : Matrix n d K} {lam : d → K}
    (h : IsEigSystem A V lam) : IsEigSystem (A.submatrix π π) (V.submatrix π id) lam := by
  constructor
  · have h1 : A.submatrix π π * V.submatrix π id = (A * V).submatrix π id :=
      Matrix.submatrix_mul_equiv A V π π id
    have h2 : V.submatrix π id * diagonal lam = (V * diagonal lam).submatrix π id := by
      have := Matrix.submatrix_mul_equiv V (diagonal lam) π (Equiv.refl d) id
      simpa using this
    rw [h1, h2, h.eig]
  · have : (V.submatrix π id)ᵀ * V.submatrix π id = (Vᵀ * V).submatrix id id := by
      rw [Matrix.transpose_submatrix]
      exact Matrix.submatrix_mul_equiv Vᵀ V id π id
    rw [this, h.ortho]
    simp

/-- the Gram matrix of the embedding `V·diag(s)` of the re-ordered samples is the relabelled Gram matrix -/
theorem gram_embedding_perm (π : Equiv.Perm n) (V : Matrix n d K) (s : d → K) :
    (V.submatrix π id * diagonal s) * (V.submatrix π id * diagonal s)ᵀ
      = ((V * diagonal s) * (V * diagonal s)ᵀ).submatrix π π := by
  have h2 : V.submatrix π id * diagonal s = (V * diagonal s).submatrix π id := by
    have := Matrix.submatrix_mul_equiv V (diagonal s) π (Equiv.refl d) id
    simpa using this
  rw [h2, Matrix.transpose_submatrix]
  exact Matrix.submatrix_mul_equiv _ _ π (Equiv.refl d) π

end spectral

section bridge
open Matrix TapkeeVerif.Spectral TapkeeVerif.Equivariance
variable {K : Type} [Field K] {n d : Nat}

/-- the eigen-system contract of `Props/C12` (stated with the model's list sums) is the contract of
    `Proofs/Spectral` (stated on Mathlib matrices) -/
theorem isEigSys_iff_isEigSystem (B : Mat n n K) (V : Mat n d K) (lam : Vec d K) :
    IsEigSys B V lam ↔ IsEigSystem (Mat.toM B) (Mat.toM V) lam := by
  constructor
  · rintro ⟨h1, h2⟩
    constructor
    · ext i c
      have := h1 i c
      rw [sumFin_eq_sum] at this
      rw [Matrix.mul_diagonal, Matrix.mul_apply]
      simp only [Mat.toM_apply]
      rw [this, mul_comm]
    · ext c c'
      have := h2 c c'
      rw [sumFin_eq_sum] at this
      simp only [Matrix.mul_apply, Matrix.transpose_apply, Matrix.one_apply, Mat.toM_apply]
      exact this
  · intro h
    constructor
    · intro i c
      have := congrFun (congrFun h.eig i) c
      rw [Matrix.mul_diagonal, Matrix.mul_apply] at this
      simp only [Mat.toM_apply] at this
      rw [sumFin_eq_sum, this, mul_comm]
    · intro c c'
      have := congrFun (congrFun h.ortho c) c'
      simp only [Matrix.mul_apply, Matrix.transpose_apply, Matrix.one_apply, Mat.toM_apply] at this
      rw [sumFin_eq_sum]
      exact this

end bridge

/-! ## the stage models of C04 / C05 / C06 under a re-ordering of the samples

`Model/Center.lean`, `Model/Mds.lean` (C05), `Model/Pca.lean` (C06) and `Model/IsomapPre.lean` (C04; a fold over the
statement list `Gen/IsomapSteps.lean` regenerated from `methods/isomap.hpp`) are independent transcriptions of the
same source lines as `Model/Equivariance.lean`: they agree with it, hence inherit its equivariance. -/

section stages
open TapkeeVerif.Equivariance
variable {K : Type} [Field K] {n N D : Nat}

theorem center_c05_eq (A : Mat n n K) : TapkeeVerif.centerMatrix A = Equivariance.centerMatrix A := by
  funext i j
  simp only [TapkeeVerif.centerMatrix, TapkeeVerif.centerWith, TapkeeVerif.colMeans, TapkeeVerif.grandMean,
    Equivariance.centerMatrix, Equivariance.centerWith, Equivariance.colMean, Equivariance.grandMean, Nat.cast_mul]

/-- C05's MDS pre-matrix (Model/Mds.lean) for re-ordered samples is the relabelled one -/
theorem mdsPre_c05_perm (π : Equiv.Perm (Fin n)) (δ : Fin n → Fin n → K) (hsym : ∀ i j, δ i j = δ j i) :
    TapkeeVerif.mdsPre (relabelFn π δ) = relabel π (TapkeeVerif.mdsPre δ) := by
  have hsq : ∀ δ' : Fin n → Fin n → K, TapkeeVerif.sqDistMatrix δ' = Equivariance.sqDistMatrix δ' := by
    intro δ'
    funext i j
    simp only [TapkeeVerif.sqDistMatrix, Equivariance.sqDistMatrix, Fin.le_def]
  funext i j
  simp only [TapkeeVerif.mdsPre, TapkeeVerif.scale, center_c05_eq, hsq]
  rw [sqDistMatrix_relabel π δ hsym, centerMatrix_relabel]
  rfl

/-- C05's Kernel PCA pre-matrix likewise -/
theorem kpcaPre_c05_perm (π : Equiv.Perm (Fin n)) (κ : Fin n → Fin n → K) (hsym : ∀ i j, κ i j = κ j i) :
    TapkeeVerif.kpcaPre (relabelFn π κ) = relabel π (TapkeeVerif.kpcaPre κ) := by
  have hk : ∀ κ' : Fin n → Fin n → K, TapkeeVerif.kernelMatrix κ' = Equivariance.kernelMatrix κ' := by
    intro κ'
    funext i j
    simp only [TapkeeVerif.kernelMatrix, Equivariance.kernelMatrix, Fin.le_def]
  simp only [TapkeeVerif.kpcaPre, center_c05_eq, hk]
  rw [kernelMatrix_relabel π κ hsym, centerMatrix_relabel]

/-- C06: the mean and the covariance matrix PCA hands to the eigensolver do not depend on the sample order -/
theorem pcaPre_c06_perm (π : Equiv.Perm (Fin N)) (X : Mat N D K) :
    TapkeeVerif.pcaPre (permRows π X) = TapkeeVerif.pcaPre X := by
  have hmean : TapkeeVerif.computeMean (permRows π X) = TapkeeVerif.computeMean X := by
    funext a
    unfold TapkeeVerif.computeMean permRows
    rw [sumFin_perm π (fun i => X i a)]
  have hup : ∀ μ : Vec D K, TapkeeVerif.covarianceUpper (permRows π X) μ = TapkeeVerif.covarianceUpper X μ := by
    intro μ
    funext a b
    unfold TapkeeVerif.covarianceUpper permRows
    rw [sumFin_perm π (fun i => (X i a - μ a) * (X i b - μ b))]
  unfold TapkeeVerif.pcaPre TapkeeVerif.covarianceMatrix
  rw [hmean, hup]

/-- C06: PCA subtracts the mean — translating every sample leaves the covariance matrix unchanged -/
theorem pcaPre_c06_translation [CharZero K] (X : Mat N D K) (t : Vec D K) (hN : 0 < N) :
    TapkeeVerif.pcaPre (translate X t) = TapkeeVerif.pcaPre X := by
  have hn : (N : K) ≠ 0 := Nat.cast_ne_zero.mpr (Nat.pos_iff_ne_zero.mp hN)
  have hmean : ∀ a, TapkeeVerif.computeMean (translate X t) a = TapkeeVerif.computeMean X a + t a := by
    intro a
    unfold TapkeeVerif.computeMean translate
    rw [sumFin_add, sumFin_const]
    field_simp
  have hup : TapkeeVerif.covarianceUpper (translate X t) (TapkeeVerif.computeMean (translate X t))
      = TapkeeVerif.covarianceUpper X (TapkeeVerif.computeMean X) := by
    funext a b
    unfold TapkeeVerif.covarianceUpper
    by_cases hab : a ≤ b
    · simp only [hab, if_true, hmean]
      congr 1
      exact sumFin_congr fun i => by unfold translate; ring
    · simp only [hab, if_false]
  unfold TapkeeVerif.pcaPre TapkeeVerif.covarianceMatrix
  rw [hup]

/-- C04: every generated statement of `IsomapImplementation::embed` commutes with relabelling … -/
theorem isomapStep_perm (π : Equiv.Perm (Fin n)) (A : Mat n n K) (s : Gen.Isomap.Step) :
    IsomapPre.applyStep (relabel π A) s = relabel π (IsomapPre.applyStep A s) := by
  cases s with
  | square => rfl
  | symmetrise => rfl
  | scale num den => rfl
  | center =>
    have hc : ∀ B : Mat n n K, IsomapPre.centerMatrixIso B = Equivariance.centerMatrix B := by
      intro B
      funext i j
      simp only [IsomapPre.centerMatrixIso, IsomapPre.colMeans, IsomapPre.grandMean, Equivariance.centerMatrix,
        Equivariance.centerWith, Equivariance.colMean, Equivariance.grandMean, Nat.cast_mul]
    show IsomapPre.centerMatrixIso (relabel π A) = relabel π (IsomapPre.centerMatrixIso A)
    rw [hc, hc, centerMatrix_relabel]

/-- … hence so does the matrix Isomap hands to the eigensolver, *whatever* the regenerated statement list is:
    together with `dijkstra_perm` the whole Isomap pipeline after the neighbour search is order independent -/
theorem isomapPre_perm (π : Equiv.Perm (Fin n)) (G : Mat n n K) :
    IsomapPre.isomapPre (relabel π G) = relabel π (IsomapPre.isomapPre G) := by
  unfold IsomapPre.isomapPre
  generalize Gen.Isomap.isomapSteps = steps
  induction steps generalizing G with
  | nil => rfl
  | cons s steps ih =>
    rw [List.foldl_cons, List.foldl_cons, isomapStep_perm, ih]

/-- C06: scaling the data by `c` scales the covariance matrix by `c²` -/
theorem pcaPre_c06_scale (c : K) (X : Mat N D K) :
    TapkeeVerif.pcaPre (scaleData c X) = fun a b => c ^ 2 * TapkeeVerif.pcaPre X a b := by
  have hmean : ∀ a, TapkeeVerif.computeMean (scaleData c X) a = c * TapkeeVerif.computeMean X a := by
    intro a
    unfold TapkeeVerif.computeMean scaleData
    rw [sumFin_mul_left, mul_div_assoc]
  have hup : ∀ a b, TapkeeVerif.covarianceUpper (scaleData c X) (TapkeeVerif.computeMean (scaleData c X)) a b
      = c ^ 2 * TapkeeVerif.covarianceUpper X (TapkeeVerif.computeMean X) a b := by
    intro a b
    unfold TapkeeVerif.covarianceUpper
    by_cases hab : a ≤ b
    · simp only [hab, if_true, hmean]
      have : (sumFin N fun i => (scaleData c X i a - c * TapkeeVerif.computeMean X a) *
            (scaleData c X i b - c * TapkeeVerif.computeMean X b))
          = c ^ 2 * sumFin N fun i => (X i a - TapkeeVerif.computeMean X a) * (X i b - TapkeeVerif.computeMean X b) := by
        unfold scaleData
        rw [← sumFin_mul_left]
        exact sumFin_congr fun i => by ring
      rw [this, mul_div_assoc]
    · simp only [hab, if_false, mul_zero]
  funext a b
  unfold TapkeeVerif.pcaPre TapkeeVerif.covarianceMatrix TapkeeVerif.mirrorLower
  by_cases hba : b < a
  · simp only [hba, if_true, hup]
  · simp only [hba, if_false, hup]

/-- how a factor on the input propagates through one generated statement: `.array().square()` squares it, the
    other statements are linear -/
def stepDegree (a : K) : Gen.Isomap.Step → K
  | .square => a * a
  | _ => a

theorem isomapStep_scale (a : K) (A : Mat n n K) (s : Gen.Isomap.Step) :
    IsomapPre.applyStep (fun i j => a * A i j) s = fun i j => stepDegree a s * IsomapPre.applyStep A s i j := by
  cases s with
  | square =>
    funext i j
    simp only [IsomapPre.applyStep, IsomapPre.squareEntries, stepDegree]
    ring
  | symmetrise =>
    funext i j
    simp only [IsomapPre.applyStep, IsomapPre.denseSym, stepDegree]
    ring
  | scale num den =>
    funext i j
    simp only [IsomapPre.applyStep, stepDegree]
    ring
  | center =>
    have hc : ∀ B : Mat n n K, IsomapPre.centerMatrixIso B = Equivariance.centerMatrix B := by
      intro B
      funext i j
      simp only [IsomapPre.centerMatrixIso, IsomapPre.colMeans, IsomapPre.grandMean, Equivariance.centerMatrix,
        Equivariance.centerWith, Equivariance.colMean, Equivariance.grandMean, Nat.cast_mul]
    show IsomapPre.centerMatrixIso (fun i j => a * A i j) = fun i j => a * IsomapPre.centerMatrixIso A i j
    rw [hc, hc, centerMatrix_smul]

theorem isomapFold_scale (steps : List Gen.Isomap.Step) (a : K) (G : Mat n n K) :
    steps.foldl IsomapPre.applyStep (fun i j => a * G i j)
      = fun i j => steps.foldl stepDegree a * steps.foldl IsomapPre.applyStep G i j := by
  induction steps generalizing a G with
  | nil => rfl
  | cons s steps ih =>
    rw [List.foldl_cons, List.foldl_cons, List.foldl_cons, isomapStep_scale, ih]

/-- C04: scaling the geodesic matrix by `c` scales the matrix Isomap hands to the eigensolver by `c²` (stated over
    the regenerated statement list: a change of the list re-states — and may break — this theorem) -/
theorem isomapPre_scale (c : K) (G : Mat n n K) :
    IsomapPre.isomapPre (fun i j => c * G i j) = fun i j => c ^ 2 * IsomapPre.isomapPre G i j := by
  unfold IsomapPre.isomapPre
  rw [isomapFold_scale]
  have : Gen.Isomap.isomapSteps.foldl stepDegree c = c ^ 2 := by
    simp [Gen.Isomap.isomapSteps, stepDegree]
    ring
  rw [this]

end stages

/-! ## C04: geodesics scale with the edge weights -/

section dijkstraScale
open TapkeeVerif.Dijkstra
variable {K : Type} [Field K] [LinearOrder K] [IsStrictOrderedRing K]

/-- `P'` is `P` with every edge weight (every value of the distance callback) multiplied by `c` -/
structure IsScaled (c : K) (P P' : Problem K) : Prop where
  N_eq : P'.N = P.N
  nbrs_eq : P'.nbrs = P.nbrs
  w : ∀ a b, P'.w a b = c * P.w a b

variable {c : K} {P P' : Problem K} {k : Nat}

theorem edge_scaled (hs : IsScaled c P P') {u x : Nat} : Edge P' k u x ↔ Edge P k u x := by
  unfold Edge Problem.nbr
  rw [hs.N_eq, hs.nbrs_eq]

theorem walk_scaled (hs : IsScaled c P P') {s v : Nat} {d : K} (h : Walk P k s v d) : Walk P' k s v (c * d) := by
  induction h with
  | nil h0 =>
    rw [mul_zero]
    exact Walk.nil (hs.N_eq ▸ h0)
  | snoc _ he ih =>
    have := Walk.snoc ih ((edge_scaled hs).mpr he)
    rwa [hs.w, ← mul_add] at this

theorem walk_unscaled (hs : IsScaled c P P') {s v : Nat} {d' : K} (h : Walk P' k s v d') :
    ∃ d, d' = c * d ∧ Walk P k s v d := by
  induction h with
  | nil h0 => exact ⟨0, (mul_zero c).symm, Walk.nil (hs.N_eq ▸ h0)⟩
  | snoc _ he ih =>
    obtain ⟨d, hd, hw⟩ := ih
    exact ⟨_, by rw [hd, hs.w, ← mul_add], Walk.snoc hw ((edge_scaled hs).mp he)⟩

/-- geodesic distances scale with the weights (`c ≥ 0`; unreachable stays unreachable) -/
theorem geodesic_scale (hs : IsScaled c P P') (hc : 0 ≤ c) {s v : Nat} {o : Option K}
    (h : IsGeodesic P k s v o) : IsGeodesic P' k s v (o.map (c * ·)) := by
  cases o with
  | none =>
    intro d' hw
    obtain ⟨d, -, hw0⟩ := walk_unscaled hs hw
    exact h d hw0
  | some d =>
    refine ⟨walk_scaled hs h.1, fun d' hw => ?_⟩
    obtain ⟨d0, rfl, hw0⟩ := walk_unscaled hs hw
    exact mul_le_mul_of_nonneg_left (h.2 d0 hw0) hc

/-- **dijkstra_scale.**  Scale every value of the distance callback by `c ≥ 0`: for both queue disciplines and every
    tie-breaking stream on either side the computed row is the scaled row (`dblmax` entries stay `dblmax`) -/
theorem dijkstra_scale (hs : IsScaled c P P') (hc : 0 ≤ c) (hwf : WF P k) (hw : ∀ a b, 0 ≤ P.w a b)
    (disc disc' : Disc) (ch ch' : Nat → Nat) {s : Nat} (hsN : s < P.N) :
    ∃ r r', row P disc k ch s s = .ok r ∧ row P' disc' k ch' s s = .ok r' ∧
      ∀ v (hv : v < P.N), r'[v]'(hs.N_eq ▸ hv) = (r[v]).map (c * ·) := by
  have hwf' : WF P' k := by
    intro u hu i hi
    rw [hs.N_eq] at hu
    obtain ⟨y, hy, hyN⟩ := hwf u hu i hi
    exact ⟨y, by unfold Problem.nbr at hy ⊢; rw [hs.nbrs_eq]; exact hy, hs.N_eq ▸ hyN⟩
  have hw' : ∀ a b, 0 ≤ P'.w a b := fun a b => by rw [hs.w]; exact mul_nonneg hc (hw a b)
  obtain ⟨r, hrow, hg⟩ := dijkstra_exact hwf hw disc ch hsN
  obtain ⟨r', hrow', hg'⟩ := dijkstra_exact hwf' hw' disc' ch' (hs.N_eq ▸ hsN : s < P'.N)
  refine ⟨r, r', hrow, hrow', fun v hv => ?_⟩
  exact (hg' v (hs.N_eq ▸ hv)).unique (geodesic_scale hs hc (hg v hv))

/-- non-vacuity -/
example : IsScaled (K := ℚ) 4 ⟨3, #[#[1], #[2], #[0]], fun a b => (a : ℚ) + b⟩
    ⟨3, #[#[1], #[2], #[0]], fun a b => 4 * ((a : ℚ) + b)⟩ := ⟨rfl, rfl, fun _ _ => rfl⟩

end dijkstraScale

/-! ## the variational eigen-system contract of C05 / C06 (`Spectral.IsTopEig`) -/

section spectralTop
open Matrix TapkeeVerif.Spectral
variable {K : Type} [Field K] [LinearOrder K] [IsStrictOrderedRing K]
variable {n d : Type} [Fintype n] [DecidableEq n] [Fintype d] [DecidableEq d]

theorem perm_mulVec_zero (π : Equiv.Perm n) (V : Matrix n d K) (x : n → K)
    (h : (V.submatrix π id)ᵀ *ᵥ x = 0) : Vᵀ *ᵥ (fun i => x (π.symm i)) = 0 := by
  funext j
  have := congrFun h j
  simp only [mulVec, dotProduct, transpose_apply, submatrix_apply, id_eq, Pi.zero_apply] at this ⊢
  rw [← this, ← Equiv.sum_comp π]
  simp

theorem perm_quadratic (π : Equiv.Perm n) (A : Matrix n n K) (x : n → K) :
    x ⬝ᵥ (A.submatrix π π *ᵥ x) = (fun i => x (π.symm i)) ⬝ᵥ (A *ᵥ fun i => x (π.symm i)) := by
  simp only [mulVec, dotProduct, submatrix_apply]
  rw [← Equiv.sum_comp π (fun i => x (π.symm i) * ∑ j, A i j * x (π.symm j))]
  refine Finset.sum_congr rfl fun i _ => ?_
  rw [← Equiv.sum_comp π (fun j => A (π i) j * x (π.symm j))]
  simp

theorem perm_self (π : Equiv.Perm n) (x : n → K) :
    x ⬝ᵥ x = (fun i => x (π.symm i)) ⬝ᵥ fun i => x (π.symm i) := by
  simp only [dotProduct]
  rw [← Equiv.sum_comp π (fun i => x (π.symm i) * x (π.symm i))]
  simp

/-- C05/C06's variational top eigen-system is stable under `A ↦ ΠAΠᵀ`, `V ↦ ΠV` -/
theorem spectralTopEig_perm (π : Equiv.Perm n) {A : Matrix n n K} {V : Matrix n d K} {lam : d → K}
    (h : Spectral.IsTopEig A V lam) : Spectral.IsTopEig (A.submatrix π π) (V.submatrix π id) lam := by
  refine ⟨isEigSystem_perm π h.toIsEigSystem, fun x hx j => ?_⟩
  rw [perm_quadratic, perm_self π x]
  exact h.top _ (perm_mulVec_zero π V x hx) j

theorem spectralBottomEig_perm (π : Equiv.Perm n) {A : Matrix n n K} {V : Matrix n d K} {lam : d → K}
    (h : Spectral.IsBottomEig A V lam) : Spectral.IsBottomEig (A.submatrix π π) (V.submatrix π id) lam := by
  refine ⟨isEigSystem_perm π h.toIsEigSystem, fun x hx j => ?_⟩
  rw [perm_quadratic, perm_self π x]
  exact h.bottom _ (perm_mulVec_zero π V x hx) j

/-- … and under a non-negative scaling `A ↦ aA`, `λ ↦ aλ` (`a = c²`) -/
theorem spectralTopEig_scale (a : K) (ha : 0 ≤ a) {A : Matrix n n K} {V : Matrix n d K} {lam : d → K}
    (h : Spectral.IsTopEig A V lam) : Spectral.IsTopEig (a • A) V (fun j => a * lam j) := by
  refine ⟨⟨?_, h.ortho⟩, fun x hx j => ?_⟩
  · rw [Matrix.smul_mul, h.eig, ← Matrix.mul_smul]
    congr 1
    ext i j
    simp only [Matrix.smul_apply, diagonal_apply, smul_eq_mul]
    split_ifs <;> simp
  · have := h.top x hx j
    rw [smul_mulVec, dotProduct_smul, smul_eq_mul]
    calc a * (x ⬝ᵥ (A *ᵥ x)) ≤ a * (lam j * (x ⬝ᵥ x)) := mul_le_mul_of_nonneg_left this ha
      _ = a * lam j * (x ⬝ᵥ x) := by ring

end spectralTop

section spectralBridge
open Matrix TapkeeVerif.Spectral TapkeeVerif.Equivariance
variable {K : Type} [Field K] [LinearOrder K] [IsStrictOrderedRing K] {n d : Nat}

/-- the eigenvector-based `IsTopEig` of `Props/C12` is implied by the variational `Spectral.IsTopEig` of C05/C06
    (the converse needs a full eigen-system of `B` in `K`) -/
theorem isTopEig_of_spectral {B : Mat n n K} {V : Mat n d K} {lam : Vec d K}
    (h : Spectral.IsTopEig (Mat.toM B) (Mat.toM V) lam) : Equivariance.IsTopEig B V lam := by
  refine ⟨(isEigSys_iff_isEigSystem B V lam).mpr h.toIsEigSystem, fun μ w hw hev horth c => ?_⟩
  have hVw : (Mat.toM V)ᵀ *ᵥ w = 0 := by
    funext j
    have := horth j
    rw [sumFin_eq_sum] at this
    simp only [mulVec, dotProduct, transpose_apply, Mat.toM_apply, Pi.zero_apply]
    rw [← this]
    exact Finset.sum_congr rfl fun i _ => mul_comm _ _
  have hq : w ⬝ᵥ (Mat.toM B *ᵥ w) = μ * (w ⬝ᵥ w) := by
    simp only [mulVec, dotProduct, Mat.toM_apply]
    rw [Finset.mul_sum]
    refine Finset.sum_congr rfl fun i _ => ?_
    have := hev i
    rw [sumFin_eq_sum] at this
    rw [this]
    ring
  have hpos : 0 < w ⬝ᵥ w := by
    obtain ⟨i, hi⟩ := hw
    simp only [dotProduct]
    exact Finset.sum_pos' (fun j _ => mul_self_nonneg (w j)) ⟨i, Finset.mem_univ i, mul_self_pos.mpr hi⟩
  have := h.top w hVw c
  rw [hq] at this
  exact le_of_mul_le_mul_right this hpos

end spectralBridge

end TapkeeVerif.C12b
