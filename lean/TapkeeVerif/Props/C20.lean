/-
C20 — the CLI writes exactly what the library computes for the options given.

Part 1 of this file is the hand-written SPEC: what each option is for according to its help text and the property
text (`specOptions`), which names select which method (`specNames`), which bad inputs must stop the program
(`specGuards`), which library keywords are deliberately not reachable from the command line (`specUnreachable`,
`specConstants`).  checks/c20.py reads the same rows (one row per line — keep that layout).

Part 2 are the theorems.  Those over `Gen.Cli.*` are re-stated whenever `src/cli/main.cpp` / `util.hpp` change,
because `Gen/Cli.lean` is regenerated before every build.
-/
import TapkeeVerif.Proofs.CliSpec
import TapkeeVerif.Proofs.CliText
import TapkeeVerif.Proofs.CliRun

namespace TapkeeVerif.Cli
open TapkeeVerif.Gen.Cli

/-! ## Part 1 — SPEC (hand-written; trusted) -/

def specOptions : List SpecRow := [
  { option := "input-file", role := .inFile },
  { option := "transpose-input", role := .transposeIn },
  { option := "transpose-output", role := .transposeOut },
  { option := "output-file", role := .outFile },
  { option := "output-projection-matrix-file", role := .projMatrixFile },
  { option := "output-projection-mean-file", role := .projMeanFile },
  { option := "delimiter", role := .delimiter },
  { option := "help", role := .help },
  { option := "benchmark", role := .logging "enable_benchmark" },
  { option := "verbose", role := .logging "enable_info" },
  { option := "debug", role := .logging "enable_debug" },
  { option := "method", role := .param "method" (.named "DIMENSION_REDUCTION_METHODS") },
  { option := "neighbors-method", role := .param "neighbors_method" (.named "NEIGHBORS_METHODS") },
  { option := "eigen-method", role := .param "eigen_method" (.named "EIGEN_METHODS") },
  { option := "computation-strategy", role := .param "computation_strategy" (.named "COMPUTATION_STRATEGIES") },
  { option := "target-dimension", role := .param "target_dimension" (.value .int) },
  { option := "num-neighbors", role := .param "num_neighbors" (.value .int) },
  { option := "gaussian-width", role := .param "gaussian_kernel_width" (.value .dbl) },
  { option := "timesteps", role := .param "diffusion_map_timesteps" (.value .int) },
  { option := "eigenshift", role := .param "nullspace_shift" (.value .dbl) },
  { option := "landmark-ratio", role := .param "landmark_ratio" (.value .dbl) },
  { option := "spe-local", role := .param "spe_global_strategy" .flagFalse },
  { option := "spe-tolerance", role := .param "spe_tolerance" (.value .dbl) },
  { option := "spe-num-updates", role := .param "spe_num_updates" (.value .int) },
  { option := "max-iters", role := .param "max_iteration" (.value .int) },
  { option := "fa-epsilon", role := .param "fa_epsilon" (.value .dbl) },
  { option := "sne-perplexity", role := .param "sne_perplexity" (.value .dbl) },
  { option := "sne-theta", role := .param "sne_theta" (.value .dbl) },
  { option := "squishing-rate", role := .param "squishing_rate" (.value .dbl) },
  { option := "precompute", role := .noKeyword }
]

/-- keywords the CLI fixes to a constant -/
def specConstants : List (String × Expr) := [
  ("check_connectivity", .lit .flag "true")
]

/-- library keywords that have no command-line option (left at the library default) -/
def specUnreachable : List String := ["klle_shift", "progress_function", "cancel_function"]

/-- (map, name on the command line, library constant) -/
def specNames : List (String × String × String) := [
  ("DIMENSION_REDUCTION_METHODS", "local_tangent_space_alignment", "KernelLocalTangentSpaceAlignment"),
  ("DIMENSION_REDUCTION_METHODS", "ltsa", "KernelLocalTangentSpaceAlignment"),
  ("DIMENSION_REDUCTION_METHODS", "locally_linear_embedding", "KernelLocallyLinearEmbedding"),
  ("DIMENSION_REDUCTION_METHODS", "lle", "KernelLocallyLinearEmbedding"),
  ("DIMENSION_REDUCTION_METHODS", "hessian_locally_linear_embedding", "HessianLocallyLinearEmbedding"),
  ("DIMENSION_REDUCTION_METHODS", "hlle", "HessianLocallyLinearEmbedding"),
  ("DIMENSION_REDUCTION_METHODS", "multidimensional_scaling", "MultidimensionalScaling"),
  ("DIMENSION_REDUCTION_METHODS", "mds", "MultidimensionalScaling"),
  ("DIMENSION_REDUCTION_METHODS", "landmark_multidimensional_scaling", "LandmarkMultidimensionalScaling"),
  ("DIMENSION_REDUCTION_METHODS", "l-mds", "LandmarkMultidimensionalScaling"),
  ("DIMENSION_REDUCTION_METHODS", "isomap", "Isomap"),
  ("DIMENSION_REDUCTION_METHODS", "landmark_isomap", "LandmarkIsomap"),
  ("DIMENSION_REDUCTION_METHODS", "l-isomap", "LandmarkIsomap"),
  ("DIMENSION_REDUCTION_METHODS", "diffusion_map", "DiffusionMap"),
  ("DIMENSION_REDUCTION_METHODS", "dm", "DiffusionMap"),
  ("DIMENSION_REDUCTION_METHODS", "kernel_pca", "KernelPrincipalComponentAnalysis"),
  ("DIMENSION_REDUCTION_METHODS", "kpca", "KernelPrincipalComponentAnalysis"),
  ("DIMENSION_REDUCTION_METHODS", "pca", "PrincipalComponentAnalysis"),
  ("DIMENSION_REDUCTION_METHODS", "random_projection", "RandomProjection"),
  ("DIMENSION_REDUCTION_METHODS", "ra", "RandomProjection"),
  ("DIMENSION_REDUCTION_METHODS", "laplacian_eigenmaps", "LaplacianEigenmaps"),
  ("DIMENSION_REDUCTION_METHODS", "la", "LaplacianEigenmaps"),
  ("DIMENSION_REDUCTION_METHODS", "locality_preserving_projections", "LocalityPreservingProjections"),
  ("DIMENSION_REDUCTION_METHODS", "lpp", "LocalityPreservingProjections"),
  ("DIMENSION_REDUCTION_METHODS", "neighborhood_preserving_embedding", "NeighborhoodPreservingEmbedding"),
  ("DIMENSION_REDUCTION_METHODS", "npe", "NeighborhoodPreservingEmbedding"),
  ("DIMENSION_REDUCTION_METHODS", "linear_local_tangent_space_alignment", "LinearLocalTangentSpaceAlignment"),
  ("DIMENSION_REDUCTION_METHODS", "lltsa", "LinearLocalTangentSpaceAlignment"),
  ("DIMENSION_REDUCTION_METHODS", "stochastic_proximity_embedding", "StochasticProximityEmbedding"),
  ("DIMENSION_REDUCTION_METHODS", "spe", "StochasticProximityEmbedding"),
  ("DIMENSION_REDUCTION_METHODS", "passthru", "PassThru"),
  ("DIMENSION_REDUCTION_METHODS", "factor_analysis", "FactorAnalysis"),
  ("DIMENSION_REDUCTION_METHODS", "fa", "FactorAnalysis"),
  ("DIMENSION_REDUCTION_METHODS", "t-stochastic_proximity_embedding", "tDistributedStochasticNeighborEmbedding"),
  ("DIMENSION_REDUCTION_METHODS", "t-sne", "tDistributedStochasticNeighborEmbedding"),
  ("DIMENSION_REDUCTION_METHODS", "manifold_sculpting", "ManifoldSculpting"),
  ("NEIGHBORS_METHODS", "brute", "Brute"),
  ("NEIGHBORS_METHODS", "vptree", "VpTree"),
  ("NEIGHBORS_METHODS", "covertree", "CoverTree"),
  ("EIGEN_METHODS", "dense", "Dense"),
  ("EIGEN_METHODS", "randomized", "Randomized"),
  ("COMPUTATION_STRATEGIES", "cpu", "HomogeneousCPUStrategy")
]

/-- Options whose default is meant to be the LIBRARY's documented default of the keyword they set (the doc comment of
    the keyword in defines/keywords.hpp, extracted as `Gen.Cli.libDocDefaults`).  The other value options
    (--num-neighbors 10, --timesteps 1, --max-iters 1000, --spe-tolerance 1e-5, --landmark-ratio 0.2, --fa-epsilon 1e-5,
    file names, delimiter, method names) are choices of the CLI that differ from the library's or have no library
    counterpart: their only documentation is `tapkee --help`, which cxxopts prints from the very literal in
    `with_default(…)`; they carry NO spec row here (changing one is not a violation) — checks/c20.py compares what the
    library receives without the option with what `--help` of the same binary promises. -/
def specMirrorsLibrary : List String := [
  "target-dimension", "gaussian-width", "eigenshift", "spe-num-updates", "sne-perplexity", "sne-theta",
  "squishing-rate"
]

/-- the bad-input predicates that must make the program exit non-zero before it touches any data (property text:
    "Unknown method, neighbour-method or eigensolver names, a non-positive target dimension, fewer than 3 neighbours, a
    negative width or timestep count").  These are PREDICATES on option values; how the source spells the test
    (`k < 3`, `k <= 2`, `!(k >= 3)`, `3 > k`, two tests joined by `||` …) does not matter. -/
def specGuards : List Atom := [
  .unknownName "DIMENSION_REDUCTION_METHODS" "method",
  .unknownName "NEIGHBORS_METHODS" "neighbors-method",
  .unknownName "EIGEN_METHODS" "eigen-method",
  .unknownName "COMPUTATION_STRATEGIES" "computation-strategy",
  .intLt "target-dimension" 1,
  .intLt "num-neighbors" 3,
  .dblLt "gaussian-width" 0,
  .intLt "timesteps" 0
]

/-! ## Part 2 — theorems over the generated tables (`decide`: re-checked against every regeneration) -/

/-- every `tapkee::kw = expr` row depends on exactly the option whose help text names `kw`, with the polarity the help
    text states -/
def WiringCorrect (wiring : List WireRow) : Prop :=
  ∀ w ∈ wiring, rowOk specOptions specConstants w = true

instance (wiring : List WireRow) : Decidable (WiringCorrect wiring) := by
  unfold WiringCorrect; infer_instance

/-- `wiring_correct`, over the GENERATED table.  (Until /repo 168701f this was false: `tapkee::spe_global_strategy =
    opt.count("spe-local")` had the polarity inverted — F-CLI-SPE; the witness is kept as corpus/C20/f-cli-spe.case and as
    the `example` below.) -/
theorem wiring_correct : WiringCorrect cliWiring := by decide +kernel

/-- the old row is rejected by the statement (so a regression to it breaks `wiring_correct`) -/
example : rowOk specOptions specConstants { keyword := "spe_global_strategy", expr := .count "spe-local" } = false := by
  decide +kernel

/-- every option whose help text names a library parameter has its wiring row, with the documented polarity -/
theorem every_param_option_wired : ∀ r ∈ specOptions, specRowWired cliWiring r = true := by decide +kernel

/-- the option table and the spec talk about the same options, and flags are flags -/
theorem options_match_spec :
    (∀ r ∈ cliOptions, (roleOf specOptions r.canonical).isSome = true) ∧
    (∀ r ∈ specOptions, (optRow? cliOptions r.option).isSome = true) ∧
    (∀ r ∈ cliOptions, r.hasValue = (r.ty != .flag)) ∧
    (∀ r ∈ cliOptions, (r.ty == .flag) =
      (match roleOf specOptions r.canonical with
       | some (.param _ .flagTrue) | some (.param _ .flagFalse) | some .transposeIn | some .transposeOut
       | some (.logging _) | some .help | some .noKeyword => true
       | _ => false)) := by decide +kernel

/-- every keyword of the library is set from an option, fixed to a listed constant, or listed as unreachable; and the
    CLI sets nothing that is not a library keyword, nor any keyword twice -/
theorem every_library_keyword_reachable_or_listed :
    (∀ k ∈ libKeywords,
        (cliWiring.any (fun w => w.keyword == k.ident && (classify w.expr).isSome)
          || specConstants.any (fun c => c.1 == k.ident && cliWiring.contains { keyword := c.1, expr := c.2 })
          || specUnreachable.contains k.ident) = true) ∧
    (∀ w ∈ cliWiring, (keywordRow? w.keyword).isSome = true) ∧
    (cliWiring.map (·.keyword)).Nodup ∧
    (∀ k ∈ specUnreachable, libDefaults.contains k = true) := by decide +kernel

/-- every name the code accepts selects the constant the spec says, and every name of the spec is accepted -/
theorem name_maps_correct :
    (∀ m ∈ nameMaps, ∀ e ∈ m.entries, specNames.contains (m.name, e.1, e.2) = true) ∧
    (∀ s ∈ specNames, (lookupName nameMaps s.1 s.2.1 == some s.2.2) = true) ∧
    (∀ m ∈ nameMaps, (m.entries.map (·.1)).Nodup) := by decide +kernel

/-- the documented defaults: a name given as default is one the map accepts -/
theorem named_defaults_are_valid : ∀ r ∈ specOptions, namedDefaultOk r = true := by decide +kernel

/-- each bad-input predicate of the property text is tested by a guard with non-zero exit code that is reached before
    any data is read (only other such guards, logging switches and stream openings precede it); the test is matched by
    MEANING (`atomsOf?`, sound by `atom_fires`), not by spelling -/
theorem guards_present : ∀ a ∈ specGuards, reachesAtom a cliSteps = true := by decide +kernel

/-- … and nothing else stops the program before the data is read: every early guard is `--help` or a disjunction of
    exactly these predicates (a guard tightened to `k < 4` or `td <= 1` is rejected here) -/
theorem guards_exact : ∀ s ∈ cliSteps.takeWhile Step.isPre, preGuardOk specGuards s = true := by decide +kernel

/-- spellings with the same meaning are the same atom; a weakened test is a different one -/
example : atomsOf? (.bin .le (.value "num-neighbors" .int) (.lit .int "2")) = some [.intLt "num-neighbors" 3] := by
  decide +kernel
example : atomsOf? (.not (.bin .ge (.value "num-neighbors" .int) (.lit .int "3"))) = some [.intLt "num-neighbors" 3] := by
  decide +kernel
example : atomsOf? (.bin .gt (.lit .int "3") (.value "num-neighbors" .int)) = some [.intLt "num-neighbors" 3] := by
  decide +kernel
example : atomsOf? (.bin .ge (.lit .int "0") (.value "target-dimension" .int)) = some [.intLt "target-dimension" 1] := by
  decide +kernel
example : atomsOf? (.bin .lt (.value "target-dimension" .int) (.lit .int "0")) ≠ some [.intLt "target-dimension" 1] := by
  decide +kernel

/-- main() turns every escaping exception into a non-zero exit code -/
theorem main_catches_everything :
    catchExit cliMainCatch ≠ 0 ∧ (cliMainCatch.any (fun c => c.1 == "...")) = true ∧
    (∀ c ∈ cliMainCatch, c.2 ≠ 0) := by decide +kernel

/-- for the options that mirror the library: the default written in `with_default(…)` is the default the keyword's
    documentation states -/
theorem defaults_follow_library_doc : ∀ opt ∈ specMirrorsLibrary, mirrorsLibraryDoc specOptions opt = true := by
  decide +kernel

/-- the default an option really has (the text cxxopts stores, as `with_default` formats it) is the literal written in
    `with_default(…)` -/
def DefaultsFaithful (via : String) (rows : List OptRow) : Prop :=
  ∀ r ∈ rows, r.ty = .dbl → parseNum (defaultTextVia via r).toList = parseNum r.default.toList

instance (via : String) (rows : List OptRow) : Decidable (DefaultsFaithful via rows) := by
  unfold DefaultsFaithful; infer_instance

/-- `defaults_faithful`, over the generated option table and the generated formatting of `with_default`.  (Until /repo
    e383806 this was false: `std::to_string(1e-9)` = "0.000000" made the default eigenshift 0 — F-CLI-DEFAULT;
    corpus/C20/f-cli-default.case.) -/
theorem defaults_faithful : DefaultsFaithful doubleDefaultsVia cliOptions := by decide +kernel

/-- the old formatting is rejected by the statement -/
example : ¬ DefaultsFaithful "std::to_string" cliOptions := by decide +kernel

/-! ## Part 3 — the data path: what is read, what the library receives, what is written -/

/-- the condition under which the projection matrix and the mean are written -/
def projPred (a : Assign) : Bool := a.pmat && a.pmean && a.hasProj

/-- the expected data part of `run()` (hand-written from the property text), as SEMANTIC steps: what is done, to
    which object, through which option's stream / delimiter, and under which condition — the condition as a predicate on
    which flags are present (`tableOfPred`), so that `!opt.count(X)`, `opt.count(X) == 0`, an intermediate `bool`, or a
    `?:` all mean the same.  Read with the delimiter; transpose unless --transpose-input; embed with THE parameter set on
    either branch of --precompute (in any order); transpose the embedding iff --transpose-output; write it with the
    delimiter; then (in any order) iff both projection files were requested and the method returned a projection: write
    the projection matrix (with the delimiter) and the mean, or exit 1 if the projection is not a matrix projection. -/
def specRead : List SemStep := [
  .read "input-file" "delimiter" (tableOfPred fun _ => true),
  .transpose "input" (tableOfPred fun a => !a.tin)]

def specEmbed : List SemStep := [
  -- --precompute: the kernel slot receives the precomputed KERNEL matrix of the input (filled iff the method needs a
  -- kernel), the distance slot the precomputed DISTANCE matrix (iff needed), the features slot the input itself
  .embed false "parameters" "precomputed_kernel[needs_kernel ? kernel(input)]"
    "precomputed_distance[needs_distance ? distance(input)]" "features(input)" (tableOfPred fun a => a.pre),
  -- otherwise: embedUsing(input) = the three direct callbacks over the input
  .embed true "parameters" "kernel(input)" "distance(input)" "features(input)" (tableOfPred fun a => !a.pre)]

def specWrite : List SemStep := [
  .transpose "output.embedding" (tableOfPred fun a => a.tout),
  .writeMatrix "output.embedding" "output-file" "delimiter" (tableOfPred fun _ => true)]

def specProjection : List SemStep := [
  .guard 1 (tableOfPred fun a => projPred a && !a.castOk),
  .writeMatrix "projection.proj_mat" "output-projection-matrix-file" "delimiter" (tableOfPred projPred),
  .writeVector "projection.mean_vec" "output-projection-mean-file" (tableOfPred projPred)]

/-- the generated data part of run() MEANS the expected one (regenerated on every run: transposition on the wrong side, a
    dropped delimiter argument, a second parameter set, a write to the wrong stream, a changed projection condition …
    change the left-hand side; a different spelling of the same condition, swapped embed branches or swapped
    projection writes do not) -/
theorem data_path_is_spec :
    (semDataPart cliSteps).take 2 = specRead ∧
    sameSet (((semDataPart cliSteps).drop 2).take 2) specEmbed = true ∧
    ((semDataPart cliSteps).drop 4).take 2 = specWrite ∧
    sameSet (((semDataPart cliSteps).drop 6).dropLast) specProjection = true ∧
    (semDataPart cliSteps).getLast? = some (.ret 0) := by decide +kernel

/-- the semantic reading is faithful: a condition whose truth table is that of a predicate evaluates to that predicate
    for EVERY option set and run-time state (`table_spec`, from the sufficiency lemma `evalA_sound`) -/
theorem condition_tables_sound (e : Expr) (p : Assign → Bool) (h : tableOf e = tableOfPred p) (o : Opts)
    (rt : Runtime) : evalCond cliOptions nameMaps rt o e = some (p (assignOf o rt)) :=
  table_spec e p h cliOptions nameMaps rt o

/-- all four streams are opened before the data is read (so a projection file that is requested but not written is
    left EMPTY, not absent) -/
theorem streams_opened_first :
    (cliSteps.takeWhile Step.isPre).filter (fun s => match s with | .openIn _ | .openOut _ => true | _ => false) =
      [.openIn (.value "input-file" .str), .openOut (.value "output-file" .str),
       .openOut (.value "output-projection-matrix-file" .str), .openOut (.value "output-projection-mean-file" .str)] := by
  decide +kernel

/-- `shape`: the writer emits one line per row, each with exactly `cols` fields separated by the delimiter, every line
    terminated by a newline, no trailing delimiter (the last field is a printed number) — for ALL matrices with at
    least one column and every print/parse pair meeting the contract. -/
theorem shape {α} {print : α → Str} {parse : Str → Option α} {d : Char} {r : α → α}
    (hp : PrintParse print parse d r) (M : DMat α) (hwf : M.WF) (hc : 0 < M.cols) :
    writeMatrix print d M = joinLines (M.rows.map (writeLine print d)) ∧
    (M.rows.map (writeLine print d)).length = M.nrows ∧
    ∀ l ∈ M.rows.map (writeLine print d),
      '\n' ∉ l ∧ (splitOn d l).length = M.cols ∧ (splitOn d l).getLast? ≠ some [] := by
  refine ⟨writeMatrix_eq_joinLines print d M, by simp [DMat.nrows], ?_⟩
  intro l hl
  obtain ⟨row, hrow, rfl⟩ := List.mem_map.mp hl
  have hlen : row.length = M.cols := hwf row hrow
  have hne : row ≠ [] := by
    intro h
    rw [h] at hlen
    simp at hlen
    omega
  refine ⟨writeLine_no_newline hp row, ?_, ?_⟩
  · rw [splitOn_writeLine hp row hne, List.length_map, hlen]
  · rw [splitOn_writeLine hp row hne, List.getLast?_map]
    intro h
    cases hl : row.getLast? with
    | none => simp [hl] at h
    | some x =>
      simp [hl] at h
      exact hp.nonempty x h

/-- N × d becomes d × N under --transpose-output, and stays well-formed -/
theorem shape_transposed {α} (E : DMat α) (hwf : E.WF) (t : Bool) :
    (writtenOutput t E).WF ∧
    (writtenOutput t E).nrows = (if t then E.cols else E.nrows) ∧
    (writtenOutput t E).cols = (if t then E.nrows else E.cols) := by
  cases t
  · exact ⟨hwf, rfl, rfl⟩
  · exact ⟨transpose_WF E hwf, transpose_nrows E, transpose_cols E⟩

/-- `read_write_roundtrip`: reading back what the writer wrote gives the same matrix, entry by entry up to the print
    contract (`r` = one print/parse trip), for ALL matrices with at least one row and one column, all delimiters other
    than newline, all print/parse pairs meeting the contract. -/
theorem read_write_roundtrip {α} {print : α → Str} {parse : Str → Option α} {d : Char} {r : α → α}
    (hp : PrintParse print parse d r) (M : DMat α) (hwf : M.WF) (hc : 0 < M.cols) (hn : M.rows ≠ []) :
    readData parse d (writeMatrix print d M) = .ok { cols := M.cols, rows := M.rows.map (·.map r) } := by
  have hrow_ne : ∀ row ∈ M.rows, row ≠ [] := by
    intro row hrow h
    have := hwf row hrow
    rw [h] at this
    simp at this
    omega
  have hlines : ∀ l ∈ M.rows.map (writeLine print d), '\n' ∉ l := by
    intro l hl
    obtain ⟨row, _, rfl⟩ := List.mem_map.mp hl
    exact writeLine_no_newline hp row
  have hfilter : (M.rows.map (writeLine print d)).filter (fun l => !l.isEmpty) = M.rows.map (writeLine print d) := by
    rw [List.filter_eq_self]
    intro l hl
    obtain ⟨row, hrow, rfl⟩ := List.mem_map.mp hl
    have := writeLine_ne_nil hp row (hrow_ne row hrow)
    cases hw : writeLine print d row with
    | nil => exact absurd hw this
    | cons c cs => rfl
  have hrows : readRows parse d (writeMatrix print d M) = M.rows.map (·.map r) := by
    rw [writeMatrix_eq_joinLines, readRows_joinLines parse d _ hlines, hfilter, List.map_map]
    apply List.map_congr_left
    intro row hrow
    exact lineValues_writeLine hp row (hrow_ne row hrow)
  unfold readData
  rw [hrows]
  cases hM : M.rows with
  | nil => exact absurd hM hn
  | cons r0 rs =>
    have h0 : r0.length = M.cols := hwf r0 (by simp [hM])
    have hrs : ∀ x ∈ rs.map (·.map r), x.length = (r0.map r).length := by
      intro x hx
      obtain ⟨y, hy, rfl⟩ := List.mem_map.mp hx
      have := hwf y (by simp [hM, hy])
      simp [this, h0]
    have := matrixOfRows_uniform (r0.map r) (rs.map (·.map r)) hrs
    simpa [h0] using this

/-- the same for the reader with either form of the outer loop (in particular the generated one) -/
theorem read_write_roundtrip_gen {α} {print : α → Str} {parse : Str → Option α} {d : Char} {r : α → α}
    (hp : PrintParse print parse d r) (M : DMat α) (hwf : M.WF) (hc : 0 < M.cols) (hn : M.rows ≠ []) (b : Bool) :
    matrixOfRows (readRowsWith b parse d (writeMatrix print d M)) =
      .ok { cols := M.cols, rows := M.rows.map (·.map r) } := by
  have h := read_write_roundtrip hp M hwf hc hn
  unfold readData at h
  have hlines : ∀ l ∈ M.rows.map (writeLine print d), '\n' ∉ l := by
    intro l hl
    obtain ⟨row, _, rfl⟩ := List.mem_map.mp hl
    exact writeLine_no_newline hp row
  have : readRowsWith b parse d (writeMatrix print d M) = readRows parse d (writeMatrix print d M) := by
    rw [writeMatrix_eq_joinLines, readRowsWith_joinLines parse d _ hlines b, readRows_joinLines parse d _ hlines]
  rw [this]
  exact h

/-- an empty matrix is written as the empty file and read back as the 0 × 0 matrix -/
theorem read_write_empty {α} (print : α → Str) (parse : Str → Option α) (d : Char) (c : Nat) :
    readData parse d (writeMatrix print d { cols := c, rows := [] }) = .ok { cols := 0, rows := [] } := by
  simp [readData, writeMatrix, readRows, observedLines, splitOn, matrixOfRows]

/-- ragged rows are an error of the reader (for ALL texts: whenever two collected rows differ in length) -/
theorem ragged_rows_rejected {α} (parse : Str → Option α) (d : Char) (s : Str)
    (h : ∃ r0 rs, readRows parse d s = r0 :: rs ∧ ∃ x ∈ rs, x.length ≠ r0.length) :
    ∃ i, readData parse d s = .error (.ragged i) := by
  obtain ⟨r0, rs, hr, hx⟩ := h
  unfold readData
  rw [hr]
  exact matrixOfRows_ragged r0 rs hx

/-- `transpose_input_semantics`: with F the matrix whose rows are the lines of the file, the library receives
    `libraryInput given F` (columns are samples).  Without --transpose-input, coordinate k of sample s is field k of
    line s; with it, coordinate k of sample s is field s of line k.  (`data_path_is_spec` says that exactly this
    step, with this polarity, is what the code does; `runSteps_transpose_input` that the model interprets it so.) -/
theorem transpose_input_semantics {α} (F : DMat α) (hwf : F.WF) (k s : Nat) (hk : k < F.cols) :
    (libraryInput false F).get? k s = F.get? s k ∧ (libraryInput true F).get? k s = F.get? k s ∧
    (libraryInput false F).cols = F.nrows ∧ (libraryInput false F).nrows = F.cols := by
  refine ⟨?_, rfl, rfl, transpose_nrows F⟩
  simp only [libraryInput]
  exact transpose_get F hwf k s hk

/-- "one sample per line": the rows `read_data` collects (with the outer loop as it is written in util.hpp:
    `readLoopRereadsLastLine` is regenerated) are the values of the non-empty lines of the text, for ALL texts —
    terminated by a final newline or not. -/
def OneSamplePerLine (rereads : Bool) : Prop :=
  ∀ (s : Str), readRowsWith rereads parseNum ',' s =
    ((splitOn '\n' s).filter (fun l => !l.isEmpty)).map (lineValues parseNum ',')

/-- `one_sample_per_line`, for the loop form found in the source.  (Until /repo 05f6b6f the loop was `while (ifs) {
    getline(ifs, str); …` and the statement false — F-CLI-EOF; corpus/C20/f-cli-eof.case.) -/
theorem one_sample_per_line : OneSamplePerLine readLoopRereadsLastLine := by
  intro s
  have h : readLoopRereadsLastLine = false := by decide
  rw [h]
  exact readRowsWith_false parseNum ',' s

/-- the old loop form is rejected by the statement: the one-line file `1` without a newline gave two samples -/
example : ¬ OneSamplePerLine true := by
  intro h
  have := h ['1']
  revert this
  decide +kernel

/-- what the old loop form did, for every file whose last line is not terminated (kept: it is the precise content of
    F-CLI-EOF) -/
theorem unterminated_last_line_duplicated {α} (parse : Str → Option α) (d : Char) (ls : List Str) (last : Str)
    (h : ∀ l ∈ ls, '\n' ∉ l) (hl : '\n' ∉ last) (hne : last ≠ []) :
    readRowsWith true parse d (joinLines ls ++ last) =
      (ls.filter (fun l => !l.isEmpty)).map (lineValues parse d) ++ [lineValues parse d last, lineValues parse d last] :=
  readRows_unterminated parse d ls last h hl hne

/-- one sample per non-empty line holds for every text in which each line is terminated -/
theorem one_sample_per_line_terminated {α} (parse : Str → Option α) (d : Char) (ls : List Str)
    (h : ∀ l ∈ ls, '\n' ∉ l) (b : Bool) :
    readRowsWith b parse d (joinLines ls) = (ls.filter (fun l => !l.isEmpty)).map (lineValues parse d) :=
  readRowsWith_joinLines parse d ls h b

/-! ## Part 4 — exit status -/

theorem nameMaps_distinct : ∀ m ∈ nameMaps, nameMaps.find? (fun x => x.name == m.name) = some m := by decide +kernel

/-- `bad_inputs_exit_nonzero`: for ALL option sets, input files and library behaviours —
    * a method / neighbours-method / eigensolver / strategy name that is not a key of the generated map (∀ strings),
    * a target dimension ≤ 0, fewer than 3 neighbours, a negative width, a negative timestep count,
    * an option value cxxopts cannot parse, an unknown option,
    * rows of unequal length in the input file
    make `main()` return a non-zero status. -/
theorem bad_inputs_exit_nonzero (readFile : String → Option Str) (lib : Lib) (o : Opts) :
    (∀ m ∈ nameMaps, ∀ opt, Atom.unknownName m.name opt ∈ specGuards →
        textOf cliOptions o opt ∉ m.entries.map (·.1) → (cliMain readFile lib o).exit ≠ 0) ∧
    (∀ n : Int, parseIntCxx (textOf cliOptions o "target-dimension").toList = some n → n ≤ 0 →
        (cliMain readFile lib o).exit ≠ 0) ∧
    (∀ n : Int, parseIntCxx (textOf cliOptions o "num-neighbors").toList = some n → n < 3 →
        (cliMain readFile lib o).exit ≠ 0) ∧
    (∀ x : Rat, parseNum (textOf cliOptions o "gaussian-width").toList = some x → x < 0 →
        (cliMain readFile lib o).exit ≠ 0) ∧
    (∀ n : Int, parseIntCxx (textOf cliOptions o "timesteps").toList = some n → n < 0 →
        (cliMain readFile lib o).exit ≠ 0) ∧
    (argvParses cliOptions o = false → (cliMain readFile lib o).exit ≠ 0) ∧
    ((∀ name dl, fileName cliOptions nameMaps o (.value "input-file" .str) = some name →
        delimOf cliOptions nameMaps o (.index0 (.value "delimiter" .str)) = some dl →
        ∃ content i, readFile name = some content ∧
          matrixOfRows (readRowsWith readLoopRereadsLastLine parseNum dl content) = .error (.ragged i)) →
      (cliMain readFile lib o).exit ≠ 0) := by
  have hcatch : catchExit cliMainCatch ≠ 0 := main_catches_everything.1
  refine ⟨?_, ?_, ?_, ?_, ?_, ?_, ?_⟩
  · intro m hm opt hg hk
    exact mainWith_atom_nonzero _ _ _ _ _ readFile lib o _ hcatch (guards_present _ hg)
      (lookupName_isNone_of_not_mem _ m _ (nameMaps_distinct m hm) hk)
  · intro n hn hle
    exact mainWith_atom_nonzero _ _ _ _ _ readFile lib o (.intLt "target-dimension" 1) hcatch
      (guards_present _ (by decide)) ⟨n, hn, by omega⟩
  · intro n hn hlt
    exact mainWith_atom_nonzero _ _ _ _ _ readFile lib o (.intLt "num-neighbors" 3) hcatch
      (guards_present _ (by decide)) ⟨n, hn, hlt⟩
  · intro x hx hlt
    exact mainWith_atom_nonzero _ _ _ _ _ readFile lib o (.dblLt "gaussian-width" 0) hcatch
      (guards_present _ (by decide)) ⟨x, hx, hlt⟩
  · intro n hn hlt
    exact mainWith_atom_nonzero _ _ _ _ _ readFile lib o (.intLt "timesteps" 0) hcatch
      (guards_present _ (by decide)) ⟨n, hn, hlt⟩
  · intro h
    simp [cliMain, mainWith, h, hcatch]
  · intro hrag
    unfold cliMain mainWith
    split
    · simpa using hcatch
    · exact runSteps_ragged_nonzero _ _ _ _ readFile lib o _ _ hcatch hrag cliSteps {} (by decide +kernel)

/-- non-vacuity: the hypotheses are met by concrete command lines -/
example : parseIntCxx (textOf cliOptions [⟨"target-dimension", 1, "0"⟩] "target-dimension").toList = some 0 := by
  decide +kernel
example : textOf cliOptions [⟨"method", 1, "foo"⟩] "method" ∉
    ((nameMaps.find? (·.name == "DIMENSION_REDUCTION_METHODS")).map (·.entries.map (·.1))).getD [] := by decide +kernel
example : (match matrixOfRows (readRowsWith readLoopRereadsLastLine parseNum ',' "1,2\n3\n".toList) with
    | .error (.ragged 1) => true
    | _ => false) = true := by decide +kernel

/-! ## Part 5 — projection files and --precompute -/

/-- `projection_files`: the projection matrix and the mean are written — to the files the two options name, the matrix
    with the delimiter and as it is (D × d, no transposition step touches it), the mean one value per line — exactly
    when BOTH options were given AND the method returned a projection; for ALL option sets.  Both streams are opened
    in any case (`streams_opened_first`), so otherwise the files are left empty.
    (1) every write step of the generated run() is one of the three expected ones, through the stream and delimiter of
    the right option, under a condition whose truth table is the expected predicate; (2) both projection writes exist;
    (3) no transposition touches the projection; (4) such a condition evaluates to "both given ∧ projection present"
    for every option set and run-time state. -/
theorem projection_files :
    (∀ s ∈ cliSteps, writeStepOk (tableOfPred projPred) s = true) ∧
    (cliSteps.any (fun s => match s with | .writeMatrix _ w _ _ => w == "projection.proj_mat" | _ => false) = true ∧
     cliSteps.any (fun s => match s with | .writeVector _ w _ => w == "projection.mean_vec" | _ => false) = true) ∧
    (∀ s ∈ cliSteps, transposeTargetOk s = true) ∧
    (∀ (c : Expr), tableOf c = tableOfPred projPred → ∀ (o : Opts) (rt : Runtime),
        evalCond cliOptions nameMaps rt o c =
          some (decide (0 < countOf o "output-projection-matrix-file") &&
                decide (0 < countOf o "output-projection-mean-file") && rt.hasProjection)) := by
  refine ⟨by decide +kernel, by decide +kernel, by decide +kernel, ?_⟩
  intro c hc o rt
  exact table_spec c projPred hc cliOptions nameMaps rt o

/-- `precompute_same_params`: no `tapkee::kw = expr` row mentions --precompute, both branches of `if (opt.count(
    "precompute"))` pass the SAME parameter set and the same data to the library, and therefore the parameter set is the
    same for any two command lines that differ in --precompute only.  Which matrix reaches which callback slot on the
    --precompute branch is part of `data_path_is_spec` (`specEmbed`).  (Equality of the RESULTS additionally needs the
    precomputed callbacks to agree with the direct ones on what the method declares to need — C13; until /repo 4cb36d9
    it failed for Manifold Sculpting, which called the distance callback although it declared `RequiresFeatures`:
    F-MS-TRAITS, corpus/C20/f-ms-traits.case.  The check compares the results of every --precompute pair on content.) -/
theorem precompute_same_params :
    (∀ w ∈ cliWiring, "precompute" ∉ w.expr.opts) ∧
    (∀ s ∈ cliSteps, embedParamsOk s = true) ∧
    (∀ o o' : Opts, (∀ n, n ≠ "precompute" → AgreeOn cliOptions o o' n) → cliParams o = cliParams o') := by
  have h1 : ∀ w ∈ cliWiring, "precompute" ∉ w.expr.opts := by decide +kernel
  refine ⟨h1, by decide +kernel, ?_⟩
  intro o o' h
  exact paramsOf_congr cliWiring cliOptions nameMaps o o' "precompute" h1 h

/-- non-vacuity of the print/parse contract: a (trivial) pair that meets it -/
example : PrintParse (α := Bool) (fun b => if b then ['1'] else ['0'])
    (fun s => if s = ['1'] then some true else if s = ['0'] then some false else none) ',' id where
  nonempty := by intro x; cases x <;> simp
  no_delim := by intro x; cases x <;> decide
  no_newline := by intro x; cases x <;> decide
  delim_ne_newline := by decide
  parse_print := by intro x; cases x <;> simp

/-- the driver's concrete pair on samples (the general statement `∀ x, parseNum (printG6 x) ≈₆ x` is the number
    contract validated by the correspondence, not proved) -/
example : parseNum (printG6 (1 / 3)) = some (333333 / 1000000) := by decide +kernel
example : parseNum (printG6 (-123456789 / 10)) = some (-12345700) := by decide +kernel

end TapkeeVerif.Cli
