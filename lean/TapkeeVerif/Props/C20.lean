/-
C20 — the CLI writes exactly what the library computes for the options given.

Part 1 of this file is the hand-written SPEC: what each option is for according to its help text and the property
text (`specOptions`), which names select which method (`specNames`), which bad inputs must stop the program
(`specGuards`), which library keywords are deliberately not reachable from the command line (`specUnreachable`,
`specConstants`).  checks/c20.py reads the same rows (one row per line — keep that layout).

Part 2 are the theorems.  Those over `Gen.Cli.*` are re-stated whenever `src/cli/main.cpp` / `util.hpp` change,
because `Gen/Cli.lean` is regenerated before every build.
-/
import TapkeeVerif.Proofs.CliSpec
import TapkeeVerif.Proofs.CliText
import TapkeeVerif.Proofs.CliRun

namespace TapkeeVerif.Cli
open TapkeeVerif.Gen.Cli

/-! ## Part 1 — SPEC (hand-written; trusted) -/

def specOptions : List SpecRow := [
  { option := "input-file", role := .inFile },
  { option := "transpose-input", role := .transposeIn },
  { option := "transpose-output", role := .transposeOut },
  { option := "output-file", role := .outFile },
  { option := "output-projection-matrix-file", role := .projMatrixFile },
  { option := "output-projection-mean-file", role := .projMeanFile },
  { option := "delimiter", role := .delimiter },
  { option := "help", role := .help },
  { option := "benchmark", role := .logging "enable_benchmark" },
  { option := "verbose", role := .logging "enable_info" },
  { option := "debug", role := .logging "enable_debug" },
  { option := "method", role := .param "method" (.named "DIMENSION_REDUCTION_METHODS") },
  { option := "neighbors-method", role := .param "neighbors_method" (.named "NEIGHBORS_METHODS") },
  { option := "eigen-method", role := .param "eigen_method" (.named "EIGEN_METHODS") },
  { option := "computation-strategy", role := .param "computation_strategy" (.named "COMPUTATION_STRATEGIES") },
  { option := "target-dimension", role := .param "target_dimension" (.value .int) },
  { option := "num-neighbors", role := .param "num_neighbors" (.value .int) },
  { option := "gaussian-width", role := .param "gaussian_kernel_width" (.value .dbl) },
  { option := "timesteps", role := .param "diffusion_map_timesteps" (.value .int) },
  { option := "eigenshift", role := .param "nullspace_shift" (.value .dbl) },
  { option := "landmark-ratio", role := .param "landmark_ratio" (.value .dbl) },
  { option := "spe-local", role := .param "spe_global_strategy" .flagFalse },
  { option := "spe-tolerance", role := .param "spe_tolerance" (.value .dbl) },
  { option := "spe-num-updates", role := .param "spe_num_updates" (.value .int) },
  { option := "max-iters", role := .param "max_iteration" (.value .int) },
  { option := "fa-epsilon", role := .param "fa_epsilon" (.value .dbl) },
  { option := "sne-perplexity", role := .param "sne_perplexity" (.value .dbl) },
  { option := "sne-theta", role := .param "sne_theta" (.value .dbl) },
  { option := "squishing-rate", role := .param "squishing_rate" (.value .dbl) },
  { option := "precompute", role := .noKeyword }
]

/-- keywords the CLI fixes to a constant -/
def specConstants : List (String × Expr) := [
  ("check_connectivity", .lit .flag "true")
]

/-- library keywords that have no command-line option (left at the library default) -/
def specUnreachable : List String := ["klle_shift", "progress_function", "cancel_function"]

/-- (map, name on the command line, library constant) -/
def specNames : List (String × String × String) := [
  ("DIMENSION_REDUCTION_METHODS", "local_tangent_space_alignment", "KernelLocalTangentSpaceAlignment"),
  ("DIMENSION_REDUCTION_METHODS", "ltsa", "KernelLocalTangentSpaceAlignment"),
  ("DIMENSION_REDUCTION_METHODS", "locally_linear_embedding", "KernelLocallyLinearEmbedding"),
  ("DIMENSION_REDUCTION_METHODS", "lle", "KernelLocallyLinearEmbedding"),
  ("DIMENSION_REDUCTION_METHODS", "hessian_locally_linear_embedding", "HessianLocallyLinearEmbedding"),
  ("DIMENSION_REDUCTION_METHODS", "hlle", "HessianLocallyLinearEmbedding"),
  ("DIMENSION_REDUCTION_METHODS", "multidimensional_scaling", "MultidimensionalScaling"),
  ("DIMENSION_REDUCTION_METHODS", "mds", "MultidimensionalScaling"),
  ("DIMENSION_REDUCTION_METHODS", "landmark_multidimensional_scaling", "LandmarkMultidimensionalScaling"),
  ("DIMENSION_REDUCTION_METHODS", "l-mds", "LandmarkMultidimensionalScaling"),
  ("DIMENSION_REDUCTION_METHODS", "isomap", "Isomap"),
  ("DIMENSION_REDUCTION_METHODS", "landmark_isomap", "LandmarkIsomap"),
  ("DIMENSION_REDUCTION_METHODS", "l-isomap", "LandmarkIsomap"),
  ("DIMENSION_REDUCTION_METHODS", "diffusion_map", "DiffusionMap"),
  ("DIMENSION_REDUCTION_METHODS", "dm", "DiffusionMap"),
  ("DIMENSION_REDUCTION_METHODS", "kernel_pca", "KernelPrincipalComponentAnalysis"),
  ("DIMENSION_REDUCTION_METHODS", "kpca", "KernelPrincipalComponentAnalysis"),
  ("DIMENSION_REDUCTION_METHODS", "pca", "PrincipalComponentAnalysis"),
  ("DIMENSION_REDUCTION_METHODS", "random_projection", "RandomProjection"),
  ("DIMENSION_REDUCTION_METHODS", "ra", "RandomProjection"),
  ("DIMENSION_REDUCTION_METHODS", "laplacian_eigenmaps", "LaplacianEigenmaps"),
  ("DIMENSION_REDUCTION_METHODS", "la", "LaplacianEigenmaps"),
  ("DIMENSION_REDUCTION_METHODS", "locality_preserving_projections", "LocalityPreservingProjections"),
  ("DIMENSION_REDUCTION_METHODS", "lpp", "LocalityPreservingProjections"),
  ("DIMENSION_REDUCTION_METHODS", "neighborhood_preserving_embedding", "NeighborhoodPreservingEmbedding"),
  ("DIMENSION_REDUCTION_METHODS", "npe", "NeighborhoodPreservingEmbedding"),
  ("DIMENSION_REDUCTION_METHODS", "linear_local_tangent_space_alignment", "LinearLocalTangentSpaceAlignment"),
  ("DIMENSION_REDUCTION_METHODS", "lltsa", "LinearLocalTangentSpaceAlignment"),
  ("DIMENSION_REDUCTION_METHODS", "stochastic_proximity_embedding", "StochasticProximityEmbedding"),
  ("DIMENSION_REDUCTION_METHODS", "spe", "StochasticProximityEmbedding"),
  ("DIMENSION_REDUCTION_METHODS", "passthru", "PassThru"),
  ("DIMENSION_REDUCTION_METHODS", "factor_analysis", "FactorAnalysis"),
  ("DIMENSION_REDUCTION_METHODS", "fa", "FactorAnalysis"),
  ("DIMENSION_REDUCTION_METHODS", "t-stochastic_proximity_embedding", "tDistributedStochasticNeighborEmbedding"),
  ("DIMENSION_REDUCTION_METHODS", "t-sne", "tDistributedStochasticNeighborEmbedding"),
  ("DIMENSION_REDUCTION_METHODS", "manifold_sculpting", "ManifoldSculpting"),
  ("NEIGHBORS_METHODS", "brute", "Brute"),
  ("NEIGHBORS_METHODS", "vptree", "VpTree"),
  ("NEIGHBORS_METHODS", "covertree", "CoverTree"),
  ("EIGEN_METHODS", "dense", "Dense"),
  ("EIGEN_METHODS", "randomized", "Randomized"),
  ("COMPUTATION_STRATEGIES", "cpu", "HomogeneousCPUStrategy")
]

/-- conditions that must make the program exit non-zero before it touches any data (property text: "Unknown method,
    neighbour-method or eigensolver names, a non-positive target dimension, fewer than 3 neighbours, a negative width
    or timestep count") -/
def specGuards : List Expr := [
  .lookupFails "DIMENSION_REDUCTION_METHODS" (.value "method" .str),
  .lookupFails "NEIGHBORS_METHODS" (.value "neighbors-method" .str),
  .lookupFails "EIGEN_METHODS" (.value "eigen-method" .str),
  .lookupFails "COMPUTATION_STRATEGIES" (.value "computation-strategy" .str),
  .bin .le (.value "target-dimension" .int) (.lit .int "0"),
  .bin .lt (.value "num-neighbors" .int) (.lit .int "3"),
  .bin .lt (.value "gaussian-width" .dbl) (.lit .dbl "0.0"),
  .bin .lt (.value "timesteps" .int) (.lit .int "0")
]

/-! ## Part 2 — theorems over the generated tables (`decide`: re-checked against every regeneration) -/

/-- FULL STATEMENT (false of the code as it stands, see `wiring_correct_refuted`):
    `∀ w ∈ cliWiring, rowOk specOptions specConstants w` — every `tapkee::kw = expr` row depends on exactly the option
    whose help text names `kw`, with the polarity the help text states. -/
def WiringCorrect (wiring : List WireRow) : Prop :=
  ∀ w ∈ wiring, rowOk specOptions specConstants w = true

instance (wiring : List WireRow) : Decidable (WiringCorrect wiring) := by
  unfold WiringCorrect; infer_instance

/-- F-CLI-SPE: `tapkee::spe_global_strategy = opt.count("spe-local")` has the polarity inverted (`--spe-local`
    selects the GLOBAL strategy, its absence the local one).  Witness row below. -/
theorem wiring_correct_refuted : ¬ WiringCorrect cliWiring := by decide +kernel

/-- the witness: the offending row is classified as "present ⇒ true" while the spec says "present ⇒ false" -/
theorem wiring_witness_spe_local :
    { keyword := "spe_global_strategy", expr := .count "spe-local" } ∈ cliWiring ∧
    classify (.count "spe-local") = some ("spe-local", .flagTrue) ∧
    roleOf specOptions "spe-local" = some (.param "spe_global_strategy" .flagFalse) := by decide +kernel

/-- every other row is wired as the help text says -/
theorem wiring_correct_partial :
    WiringCorrect (cliWiring.filter (fun w => w.keyword != "spe_global_strategy")) := by decide +kernel

/-- every option whose help text names a library parameter has a wiring row (for `spe-local`: a row for its keyword
    exists; its polarity is the finding above) -/
theorem every_param_option_wired_partial :
    ∀ r ∈ specOptions, r.option ≠ "spe-local" → specRowWired cliWiring r = true := by decide +kernel

/-- the option table and the spec talk about the same options, and flags are flags -/
theorem options_match_spec :
    (∀ r ∈ cliOptions, (roleOf specOptions r.canonical).isSome = true) ∧
    (∀ r ∈ specOptions, (optRow? cliOptions r.option).isSome = true) ∧
    (∀ r ∈ cliOptions, r.hasValue = (r.ty != .flag)) ∧
    (∀ r ∈ cliOptions, (r.ty == .flag) =
      (match roleOf specOptions r.canonical with
       | some (.param _ .flagTrue) | some (.param _ .flagFalse) | some .transposeIn | some .transposeOut
       | some (.logging _) | some .help | some .noKeyword => true
       | _ => false)) := by decide +kernel

/-- every keyword of the library is set from an option, fixed to a listed constant, or listed as unreachable; and the
    CLI sets nothing that is not a library keyword, nor any keyword twice -/
theorem every_library_keyword_reachable_or_listed :
    (∀ k ∈ libKeywords,
        (cliWiring.any (fun w => w.keyword == k.ident && (classify w.expr).isSome)
          || specConstants.any (fun c => c.1 == k.ident && cliWiring.contains { keyword := c.1, expr := c.2 })
          || specUnreachable.contains k.ident) = true) ∧
    (∀ w ∈ cliWiring, (keywordRow? w.keyword).isSome = true) ∧
    (cliWiring.map (·.keyword)).Nodup ∧
    (∀ k ∈ specUnreachable, libDefaults.contains k = true) := by decide +kernel

/-- every name the code accepts selects the constant the spec says, and every name of the spec is accepted -/
theorem name_maps_correct :
    (∀ m ∈ nameMaps, ∀ e ∈ m.entries, specNames.contains (m.name, e.1, e.2) = true) ∧
    (∀ s ∈ specNames, (lookupName nameMaps s.1 s.2.1 == some s.2.2) = true) ∧
    (∀ m ∈ nameMaps, (m.entries.map (·.1)).Nodup) := by decide +kernel

/-- the documented defaults: a name given as default is one the map accepts -/
theorem named_defaults_are_valid : ∀ r ∈ specOptions, namedDefaultOk r = true := by decide +kernel

/-- each bad-input condition of the property text is a guard with non-zero exit code that is reached before any data is
    read (only other such guards, logging switches and stream openings precede it) -/
theorem guards_present : ∀ c ∈ specGuards, reachesGuard c cliSteps = true := by decide +kernel

/-- main() turns every escaping exception into a non-zero exit code -/
theorem main_catches_everything :
    catchExit cliMainCatch ≠ 0 ∧ (cliMainCatch.any (fun c => c.1 == "...")) = true ∧
    (∀ c ∈ cliMainCatch, c.2 ≠ 0) := by decide +kernel

/-- FULL STATEMENT (false as it stands, see `defaults_faithful_refuted`): the default an option really has (the text
    cxxopts stores: `std::to_string(literal)`) is the literal written in `with_default(…)`. -/
def DefaultsFaithful (rows : List OptRow) : Prop :=
  ∀ r ∈ rows, r.ty = .dbl → parseNum (defaultText r).toList = parseNum r.default.toList

instance (rows : List OptRow) : Decidable (DefaultsFaithful rows) := by
  unfold DefaultsFaithful; infer_instance

/-- F-CLI-DEFAULT: `with_default(1e-9)` stores `std::to_string(1e-9)` = "0.000000": the default eigenshift is 0 -/
theorem defaults_faithful_refuted : ¬ DefaultsFaithful cliOptions := by decide +kernel

theorem defaults_witness_eigenshift :
    (optRow? cliOptions "eigenshift").map defaultText = some "0.000000" ∧
    (optRow? cliOptions "eigenshift").map (·.default) = some "1e-9" := by decide +kernel

theorem defaults_faithful_partial :
    DefaultsFaithful (cliOptions.filter (fun r => r.canonical != "eigenshift")) := by decide +kernel

end TapkeeVerif.Cli
