import TapkeeVerif.Proofs.LleCompose
import Mathlib.Tactic.NormNum
/-!
# Property C08 (composition) — Kernel LLE and Kernel LTSA end to end: the stage models composed into one `embed` model each

`klleEmbedModel` is `KernelLocallyLinearEmbeddingImplementation::embed`
(include/tapkee/methods/kernel_locally_linear_embedding.hpp) as ONE function, defined by composing the stage models that are
proved (and tied to the code) separately:

    find_neighbors_with(kernel_distance)            Connected.findNeighbors (search = C02 model)           C02 / C03
    k = neighbors[0].size(), neighbors[i][j]        Connected.forwardOf (bounds) + LleCompose.nbOf         glue
    gram, += klle_shift*trace, selfadjointView      LocallyLinear.lleSystem                                C08
    .ldlt().solve(ones)                             parameter `solve` (contract `G w = 1`)                 oracle
    weights /= sum, triplets, setFromTriplets       LocallyLinear.lleM  (lleWeights, lleTriplets)          C08
    eigendecomposition_via(SmallestEigenvalues)     parameter `solver` (contract SpectralLocal.GenEigSystem) C08
    leftCols(d + 1).rightCols(d)                    SpectralLocal.cols V (shiftIdx 1 _)                    C08

Nothing is re-defined here; the only new definitions are the glue of `Proofs/LleCompose.lean`.  `klle_end_to_end` obtains
every conjunct by instantiating the stage theorem of that stage.

Interfaces that needed an explicit statement to meet:
* the search enters as `search : k ↦ graph` with C02's conclusion (`IsExactKnn` w.r.t. the kernel-induced distance
  `kernelDist sqrtO κ`, `N` lists) as hypothesis — met by all three searches (C02); `klle_end_to_end_brute` discharges it
  for the brute-force model from "no sample is nearer to a sample than the sample itself";
* C03 returns lists whose length `k'` is a run-time value, C08's matrices are indexed by `Fin k'`: the output structure is
  dependent (`Out.k`, `Out.nb : Fin N → Fin k → Fin N`), conjunct 3 ties `nb` back to the lists entry by entry;
* the local solve `ldlt().solve(ones)` may have no exact answer (singular Gram matrix), so its contract `G w = 1` is a
  hypothesis *at the system actually handed over*, sample by sample, and so is `weights.sum() ≠ 0`;
* the eigensolver contract (`GenEigSystem`, full ascending orthonormal eigensystem: the dense solver) and simplicity of the
  trivial eigenvalue `nullspace_shift` are hypotheses *at the matrix actually handed over* (`o.M`);
* no symmetry or positive-semidefiniteness of `κ` is needed by any conjunct.
-/
namespace TapkeeVerif.LleCompose
open TapkeeVerif TapkeeVerif.Connected TapkeeVerif.Knn TapkeeVerif.LocallyLinear TapkeeVerif.SpectralLocal
open TapkeeVerif.IsomapCompose (uniform_of_exact bruteSearch bruteSearch_length bruteSearch_exact)
open Matrix

variable {K : Type} [Field K] [LinearOrder K] [IsStrictOrderedRing K]

/-- everything `embed` computes on the way, so that the theorem can speak about every stage -/
structure Out (N d : Nat) (K : Type) where
  /-- result of `find_neighbors`: lists, final k, every k tried -/
  found : Found
  /-- `neighbors[0].size()` as read by the weight-matrix routine -/
  k : Nat
  /-- `neighbors[i][a]` -/
  nb : Fin N → Fin k → Fin N
  /-- the vectors returned by `ldlt().solve(ones)`, one per sample -/
  wraw : Fin N → Vec k K
  /-- the matrix handed to `eigendecomposition_via` -/
  M : Mat N N K
  /-- eigenvectors / eigenvalues of the solver (all `N`, ascending) -/
  V : Mat N N K
  lam : Vec N K
  /-- the embedding -/
  Y : Mat N d K

/-- **`KernelLocallyLinearEmbeddingImplementation::embed`, composed.**  `κ` kernel callback on sample ids `0..N-1`, `k`
    requested `num_neighbors`, `check` = `check_connectivity`, `d` target dimension, `shift` = `nullspace_shift`, `tshift` =
    `klle_shift`; `search k` the neighbour search (C02, run with `kernel_distance`), `solve k G` the outcome of
    `G.selfadjointView<Upper>().ldlt().solve(ones)`, `solver` the eigensolver outcome on the matrix it is handed. -/
def klleEmbedModel (κ : Nat → Nat → K) (N k : Nat) (check : Bool) (d : Nat) (shift tshift : K) (search : Nat → Graph)
    (solve : (k : Nat) → Mat k k K → Vec k K) (solver : Mat N N K → Mat N N K × Vec N K) :
    Except Err (Out N d K) :=
  match findNeighbors search N check (findFuel N) k [] with
  | .oob => .error .knnOob
  | .fuelOut => .error .knnFuel
  | .ok f =>
    match forwardOf N (degree f.graph) f.graph with
    | none => .error .nbOob
    | some fwd =>
      if hd : 1 + d ≤ N then
        .ok { found := f, k := degree f.graph, nb := nbOf fwd N (degree f.graph),
              wraw := fun i => solve _ (lleSystem (kMat κ N) i (nbOf fwd N (degree f.graph) i) tshift),
              M := lleM (nbOf fwd N (degree f.graph))
                    (fun i => solve _ (lleSystem (kMat κ N) i (nbOf fwd N (degree f.graph) i) tshift)) shift,
              V := (solver (lleM (nbOf fwd N (degree f.graph))
                    (fun i => solve _ (lleSystem (kMat κ N) i (nbOf fwd N (degree f.graph) i) tshift)) shift)).1,
              lam := (solver (lleM (nbOf fwd N (degree f.graph))
                    (fun i => solve _ (lleSystem (kMat κ N) i (nbOf fwd N (degree f.graph) i) tshift)) shift)).2,
              Y := fun i c => (solver (lleM (nbOf fwd N (degree f.graph))
                    (fun i => solve _ (lleSystem (kMat κ N) i (nbOf fwd N (degree f.graph) i) tshift)) shift)).1 i
                      (shiftIdx 1 hd c) }
      else .error .colsOob

/-- **klle_end_to_end.**  For every `N`, every kernel callback `κ`, every requested `1 ≤ k ≤ N-1` (the validated range),
    `check_connectivity` on, every `1 + d ≤ N`, every exact search w.r.t. the kernel-induced distance (C02), every local
    solve outcome and every eigensolver outcome:

    the composed model returns (no error state of any stage), and
    1. the final `k' = min (k·2^j) (N-1) ≥ k` for the LEAST `j` of the doubling sequence whose k-NN graph passes
       `is_connected`; every earlier level fails (C03);
    2. the returned lists are the search's lists for `k'`, `N` of them, each the exact `k'`-NN list of its sample w.r.t.
       `sqrt(κ(l,l) − 2κ(l,r) + κ(r,r))` (C02);
    3. the weight-matrix routine reads `k = k'` and `nb i a` = entry `a` of list `i`; the `k'` neighbours of a sample are
       pairwise distinct and none is the sample itself;
    4. `wraw i` is the local solve on the symmetric system `G_i + klle_shift·tr(G_i)·I`, `G_i` the local Gram matrix of THOSE
       neighbours (`C08.lle_system_symm`, `C08.lle_system_eq`); whenever `weights.sum() ≠ 0` row `i` of `W` sums to one
       (`C08.lle_rows_sum_one`) and, under the local solve contract `G w = 1`, solves `G w = (1/s)·1`;
    5. the matrix handed to the solver IS `(I − W)ᵀ(I − W) + nullspace_shift·I` for the reconstruction weights `W` of those
       neighbourhoods (`C08.lle_M_eq`);
    6. `Y` = columns `1 … d` of the solver's `V`; and whenever `(V, λ)` meets the solver contract `GenEigSystem` on that
       matrix, all raw sums are non-zero and the trivial eigenvalue is simple: `YᵀY = 1`, every column of `Y` sums to zero,
       `tr(YᵀMY) = Σ λ_{1+c}` and `Y` minimises `tr(ZᵀMZ)` over all orthonormal `Z ⟂ 1` (`C08.klle_end_to_end`). -/
theorem klle_end_to_end (κ : Nat → Nat → K) (sqrtO : K → K) {N : Nat} (hN : 0 < N) {k : Nat} (hk : 1 ≤ k)
    (hkN : k ≤ N - 1) {d : Nat} (hd : 1 + d ≤ N) (shift tshift : K)
    (search : Nat → Graph) (hlen : ∀ k, (search k).length = N)
    (hexact : ∀ k, k ≤ N - 1 → ∀ u (hu : u < (search k).length),
      IsExactKnn (kernelDist sqrtO κ) (List.range N) k u (search k)[u])
    (solve : (k : Nat) → Mat k k K → Vec k K) (solver : Mat N N K → Mat N N K × Vec N K) :
    ∃ o, klleEmbedModel κ N k true d shift tshift search solve solver = .ok o ∧
      -- 1. k doubling
      (∃ j, o.found.k = min (k * 2 ^ j) (N - 1) ∧ k ≤ o.found.k ∧
        isConnected N o.found.graph = .ok true ∧ StronglyConnected o.found.graph N ∧
        (∀ j', j' < j → ¬ StronglyConnected (search (min (k * 2 ^ j') (N - 1))) N) ∧
        o.found.tried = (List.range (j + 1)).map fun j' => min (k * 2 ^ j') (N - 1)) ∧
      -- 2. exact k'-NN lists w.r.t. the kernel-induced distance
      (o.found.graph = search o.found.k ∧ o.found.graph.length = N ∧
        ∀ u (hu : u < o.found.graph.length),
          IsExactKnn (kernelDist sqrtO κ) (List.range N) o.found.k u o.found.graph[u]) ∧
      -- 3. the neighbourhoods read by `linear_weight_matrix`
      (o.k = o.found.k ∧
        (∀ (i : Fin N) (a : Fin o.k), ∃ l, o.found.graph[i.1]? = some l ∧ l[a.1]? = some (o.nb i a).1) ∧
        (∀ i, Function.Injective (o.nb i)) ∧ ∀ (i : Fin N) (a : Fin o.k), o.nb i a ≠ i) ∧
      -- 4. local regularised Gram systems and reconstruction weights
      ((∀ i, o.wraw i = solve o.k (lleSystem (kMat κ N) i (o.nb i) tshift)) ∧
        (∀ (i : Fin N) (a b : Fin o.k),
          lleSystem (kMat κ N) i (o.nb i) tshift a b = lleSystem (kMat κ N) i (o.nb i) tshift b a) ∧
        (∀ (i : Fin N) (a b : Fin o.k), a ≤ b → lleSystem (kMat κ N) i (o.nb i) tshift a b
          = κ i.1 i.1 - κ i.1 (o.nb i a).1 - κ i.1 (o.nb i b).1 + κ (o.nb i a).1 (o.nb i b).1
            + (if a = b then tshift * ∑ c : Fin o.k,
                (κ i.1 i.1 - κ i.1 (o.nb i c).1 - κ i.1 (o.nb i c).1 + κ (o.nb i c).1 (o.nb i c).1) else 0)) ∧
        (∀ i, sumFin o.k (o.wraw i) ≠ 0 →
          (∑ j, lleW o.nb (fun i => lleWeights (o.wraw i)) i j = 1) ∧
          ((∀ a, ∑ b, lleSystem (kMat κ N) i (o.nb i) tshift a b * o.wraw i b = 1) →
            ∀ a, ∑ b, lleSystem (kMat κ N) i (o.nb i) tshift a b * lleWeights (o.wraw i) b
              = 1 / ∑ b, o.wraw i b))) ∧
      -- 5. the alignment matrix
      (o.M = lleM o.nb o.wraw shift ∧
        Mat.toM o.M = (1 - lleW o.nb (fun i => lleWeights (o.wraw i)))ᵀ * (1 - lleW o.nb (fun i => lleWeights (o.wraw i)))
          + shift • (1 : Matrix (Fin N) (Fin N) K)) ∧
      -- 6. spectral part
      ((o.V, o.lam) = solver o.M ∧ Mat.toM o.Y = cols (Mat.toM o.V) (shiftIdx 1 hd) ∧
        (GenEigSystem (Mat.toM o.M) 1 (Mat.toM o.V) o.lam → (∀ i, sumFin o.k (o.wraw i) ≠ 0) →
          (∀ j : Fin N, j.1 ≠ 0 → o.lam j ≠ shift) →
          (Mat.toM o.Y)ᵀ * Mat.toM o.Y = 1 ∧ (∀ c, ∑ i, Mat.toM o.Y i c = 0) ∧
          Matrix.trace ((Mat.toM o.Y)ᵀ * Mat.toM o.M * Mat.toM o.Y) = ∑ c, o.lam (shiftIdx 1 hd c) ∧
          ∀ Z : Matrix (Fin N) (Fin d) K, Zᵀ * Z = 1 → (∀ c, ∑ i, Z i c = 0) →
            Matrix.trace ((Mat.toM o.Y)ᵀ * Mat.toM o.M * Mat.toM o.Y) ≤ Matrix.trace (Zᵀ * Mat.toM o.M * Z))) := by
  -- C03: the recursion ends, with the least level that passes
  obtain ⟨f, hf⟩ := findNeighbors_terminates (kernelDist sqrtO κ) search hN hk hlen hexact
  obtain ⟨j, hkj, hgraph, hsc, hmin, htried⟩ := k_raised_only_if_needed search hN _ k f hf
  have hk'le : f.k ≤ N - 1 := by rw [hkj]; exact Nat.min_le_right _ _
  -- C02 → uniform lists
  have hex' : ∀ u (hu : u < f.graph.length), IsExactKnn (kernelDist sqrtO κ) (List.range N) f.k u f.graph[u] := by
    rw [hgraph]; exact hexact _ hk'le
  have hglen : f.graph.length = N := by rw [hgraph]; exact hlen _
  have huni : Uniform f.graph N f.k := uniform_of_exact hglen hex'
  have hdeg : degree f.graph = f.k := huni.degree hN
  have huni' : Uniform f.graph N (degree f.graph) := by rw [hdeg]; exact huni
  have hex'' : ∀ u (hu : u < f.graph.length),
      IsExactKnn (kernelDist sqrtO κ) (List.range N) (degree f.graph) u f.graph[u] := by rw [hdeg]; exact hex'
  have hconn : isConnected N f.graph = .ok true := by
    obtain ⟨b, hb, hiff⟩ := isConnected_iff hN (huni.not_oob hN)
    rw [hb, hiff.2 hsc]
  have hfwd := forwardOf_uniform huni hN
  refine ⟨{ found := f, k := degree f.graph, nb := nbOf f.graph N (degree f.graph),
            wraw := fun i => solve _ (lleSystem (kMat κ N) i (nbOf f.graph N (degree f.graph) i) tshift),
            M := lleM (nbOf f.graph N (degree f.graph))
                  (fun i => solve _ (lleSystem (kMat κ N) i (nbOf f.graph N (degree f.graph) i) tshift)) shift,
            V := (solver (lleM (nbOf f.graph N (degree f.graph))
                  (fun i => solve _ (lleSystem (kMat κ N) i (nbOf f.graph N (degree f.graph) i) tshift)) shift)).1,
            lam := (solver (lleM (nbOf f.graph N (degree f.graph))
                  (fun i => solve _ (lleSystem (kMat κ N) i (nbOf f.graph N (degree f.graph) i) tshift)) shift)).2,
            Y := fun i c => (solver (lleM (nbOf f.graph N (degree f.graph))
                  (fun i => solve _ (lleSystem (kMat κ N) i (nbOf f.graph N (degree f.graph) i) tshift)) shift)).1 i
                    (shiftIdx 1 hd c) }, ?_, ?_, ?_, ?_, ?_, ?_, ?_⟩
  · unfold klleEmbedModel
    simp only [hf, hfwd, dif_pos hd]
  · exact ⟨j, hkj, by rw [hkj]; exact Nat.le_min.2 ⟨Nat.le_mul_of_pos_right k (Nat.pow_pos (by omega)), hkN⟩,
      hconn, hsc, hmin, htried⟩
  · exact ⟨hgraph, hglen, hex'⟩
  · exact ⟨hdeg, fun i a => nbOf_spec huni' i a, fun i => (nbOf_exact huni' hex'' i).1,
      fun i a => (nbOf_exact huni' hex'' i).2 a⟩
  · refine ⟨fun _ => rfl, fun i a b => C08.lle_system_symm _ i _ tshift a b,
      fun i a b hab => C08.lle_system_eq (kMat κ N) i _ tshift a b hab, fun i hs => ⟨?_, fun hsolve => ?_⟩⟩
    · exact C08.lle_rows_sum_one _ _ i hs
    · exact (lleWeights_solves _ _ hs hsolve).2
  · exact ⟨rfl, C08.lle_M_eq _ _ shift⟩
  · refine ⟨rfl, by ext i c; rfl, ?_⟩
    intro hsys hw hsimple
    exact C08.klle_end_to_end _ _ shift hw _ _ hsys hd hsimple

/-- the same with C02's brute-force model as the search: its exactness hypothesis is discharged by `brute_exact` from
    "no sample is nearer to a sample than the sample itself" in the kernel-induced distance (every positive semidefinite
    kernel with a monotone `sqrt`) -/
theorem klle_end_to_end_brute (κ : Nat → Nat → K) (sqrtO : K → K) {N : Nat} (hN : 0 < N) {k : Nat} (hk : 1 ≤ k)
    (hkN : k ≤ N - 1) {d : Nat} (hd : 1 + d ≤ N) (shift tshift : K)
    (hself : ∀ i j, i < N → j < N → kernelDist sqrtO κ i i ≤ kernelDist sqrtO κ i j)
    (solve : (k : Nat) → Mat k k K → Vec k K) (solver : Mat N N K → Mat N N K × Vec N K) :
    ∃ o, klleEmbedModel κ N k true d shift tshift (bruteSearch (kernelDist sqrtO κ) N) solve solver = .ok o ∧
      o.found.graph = bruteSearch (kernelDist sqrtO κ) N o.found.k ∧ k ≤ o.found.k ∧ o.k = o.found.k ∧
      StronglyConnected o.found.graph N ∧
      (∀ u (hu : u < o.found.graph.length),
        IsExactKnn (kernelDist sqrtO κ) (List.range N) o.found.k u o.found.graph[u]) ∧
      Mat.toM o.M = (1 - lleW o.nb (fun i => lleWeights (o.wraw i)))ᵀ * (1 - lleW o.nb (fun i => lleWeights (o.wraw i)))
          + shift • (1 : Matrix (Fin N) (Fin N) K) ∧
      Mat.toM o.Y = cols (Mat.toM o.V) (shiftIdx 1 hd) := by
  obtain ⟨o, ho, ⟨j, _, h1, _, h2, _⟩, ⟨h3, _, h4⟩, ⟨h5, _⟩, _, ⟨_, h6⟩, ⟨_, h7, _⟩⟩ :=
    klle_end_to_end κ sqrtO hN hk hkN hd shift tshift (bruteSearch (kernelDist sqrtO κ) N) (bruteSearch_length _ N)
      (fun k hk' => bruteSearch_exact hN hself k hk') solve solver
  exact ⟨o, ho, h3, h1, h5, h2, h4, h6, h7⟩

/-! ### Non-vacuity: a concrete instance meets every hypothesis, including the local-solve and eigensolver contracts

Four samples over `ℚ` at the corners of a `4 × 3` rectangle (`x_i = (4·bit₀ i, 3·bit₁ i)`, linear kernel): the kernel distances
are `3`, `4`, `5` (a `sqrt` exact on `0, 9, 16, 25`).  Requested `k = 1`, `d = 1`, brute-force search, `klle_shift = 1/25`,
`nullspace_shift = 1/10`.  At `k = 1` every sample only sees its partner across the short side (not connected), so `k` is
doubled once: `k' = 2`, tried `[1, 2]`, neighbours `(i xor 2, i xor 1)`.  Every local system is `diag(9, 16) + (1/25)·25·I =
diag(10, 17)`, solved exactly by `w = (1/10, 1/17)`; `W = (17/27)·P₂ + (10/27)·P₁` is diagonalised by the normalised Hadamard
basis `C08.exV` (constant first column), `M` has the eigenvalues `1/10 + (0, 400/729, 1156/729, 4)`. -/

def exκ (a b : Nat) : ℚ := 16 * ((a % 2 * (b % 2) : Nat) : ℚ) + 9 * ((a / 2 % 2 * (b / 2 % 2) : Nat) : ℚ)
def exSqrt : ℚ → ℚ := fun x => if x = 9 then 3 else if x = 16 then 4 else if x = 25 then 5 else 0
def exSolve : (k : Nat) → Mat k k ℚ → Vec k ℚ := fun _ G a => 1 / G a a
def exLamK : Fin 4 → ℚ := ![1 / 10, 1 / 10 + 400 / 729, 1 / 10 + 1156 / 729, 1 / 10 + 4]
def exSolver : Mat 4 4 ℚ → Mat 4 4 ℚ × Vec 4 ℚ := fun _ => (fun i j => C08.exV i j, exLamK)

theorem ex_self : ∀ i j, i < 4 → j < 4 → kernelDist exSqrt exκ i i ≤ kernelDist exSqrt exκ i j := by
  have h : ∀ i j : Fin 4, kernelDist exSqrt exκ i.1 i.1 ≤ kernelDist exSqrt exκ i.1 j.1 := by decide +kernel
  exact fun i j hi hj => h ⟨i, hi⟩ ⟨j, hj⟩

theorem exB1 : bruteSearch (kernelDist exSqrt exκ) 4 1 = [[2], [3], [0], [1]] := by
  norm_num [bruteSearch, bruteKnn, bruteSelect, bruteLoop, popIfLonger, bruteRecords, kernelDist, exSqrt, exκ, List.range,
    List.range.loop, nthElementExec, recLt, List.mergeSort, List.MergeSort.Internal.splitInTwo]

theorem exB2 : bruteSearch (kernelDist exSqrt exκ) 4 2 = [[2, 1], [3, 0], [0, 3], [1, 2]] := by
  norm_num [bruteSearch, bruteKnn, bruteSelect, bruteLoop, popIfLonger, bruteRecords, kernelDist, exSqrt, exκ, List.range,
    List.range.loop, nthElementExec, recLt, List.mergeSort, List.MergeSort.Internal.splitInTwo]

theorem ex_find : findNeighbors (bruteSearch (kernelDist exSqrt exκ) 4) 4 true (findFuel 4) 1 [] =
    .ok ⟨[[2, 1], [3, 0], [0, 3], [1, 2]], 2, [1, 2]⟩ := by
  have c1 : isConnected 4 [[2], [3], [0], [1]] = .ok false := by decide
  have c2 : isConnected 4 [[2, 1], [3, 0], [0, 3], [1, 2]] = .ok true := by decide
  simp [findNeighbors, findFuel, exB1, exB2, c1, c2]

theorem ex_fwd : forwardOf 4 (degree [[2, 1], [3, 0], [0, 3], [1, 2]]) [[2, 1], [3, 0], [0, 3], [1, 2]] =
    some [[2, 1], [3, 0], [0, 3], [1, 2]] := by decide

example : ∃ o, klleEmbedModel exκ 4 1 true 1 (1 / 10) (1 / 25) (bruteSearch (kernelDist exSqrt exκ) 4) exSolve exSolver
      = .ok o ∧
    o.found.k = 2 ∧ o.found.tried = [1, 2] ∧
    (∀ i, sumFin o.k (o.wraw i) ≠ 0) ∧
    (∀ i a, ∑ b, lleSystem (kMat exκ 4) i (o.nb i) (1 / 25) a b * o.wraw i b = 1) ∧
    GenEigSystem (Mat.toM o.M) 1 (Mat.toM o.V) o.lam ∧ (∀ j : Fin 4, j.1 ≠ 0 → o.lam j ≠ 1 / 10) ∧
    (Mat.toM o.Y)ᵀ * Mat.toM o.Y = 1 ∧ (∀ c, ∑ i, Mat.toM o.Y i c = 0) := by
  obtain ⟨o, ho, _, _, _, _, _, _, _, hopt⟩ :=
    klle_end_to_end exκ exSqrt (N := 4) (by decide) (k := 1) (by decide) (by decide) (d := 1) (by decide) (1 / 10) (1 / 25)
      (bruteSearch (kernelDist exSqrt exκ) 4) (bruteSearch_length _ 4)
      (fun k hk => bruteSearch_exact (by decide) ex_self k hk) exSolve exSolver
  have ho' := ho
  unfold klleEmbedModel at ho'
  simp only [ex_find, ex_fwd] at ho'
  rw [dif_pos (by decide)] at ho'
  injection ho' with ho'
  subst ho'
  have hw : ∀ i : Fin 4, sumFin _ ((fun i => exSolve _ (lleSystem (kMat exκ 4) i
      (nbOf [[2, 1], [3, 0], [0, 3], [1, 2]] 4 (degree [[2, 1], [3, 0], [0, 3], [1, 2]]) i) (1 / 25))) i) ≠ 0 := by
    decide +kernel
  have hsys : GenEigSystem (Mat.toM (lleM (nbOf [[2, 1], [3, 0], [0, 3], [1, 2]] 4 (degree [[2, 1], [3, 0], [0, 3], [1, 2]]))
      (fun i => exSolve _ (lleSystem (kMat exκ 4) i
        (nbOf [[2, 1], [3, 0], [0, 3], [1, 2]] 4 (degree [[2, 1], [3, 0], [0, 3], [1, 2]]) i) (1 / 25))) (1 / 10)))
      1 C08.exV exLamK := by
    refine ⟨?_, by decide +kernel, ?_⟩
    · rw [Matrix.mul_one, C08.exV_orth]
    · unfold Monotone
      decide +kernel
  have hsimple : ∀ j : Fin 4, j.1 ≠ 0 → exLamK j ≠ 1 / 10 := by decide +kernel
  have h := hopt hsys hw hsimple
  exact ⟨_, ho, rfl, rfl, hw, by decide +kernel, hsys, hsimple, h.1, h.2.1⟩

/-! ## Kernel LTSA

`kltsaEmbedModel` is `KernelLocalTangentSpaceAlignmentImplementation::embed`
(include/tapkee/methods/kernel_local_tangent_space_alignment.hpp), composed the same way:

    find_neighbors_with(kernel_distance)            Connected.findNeighbors (search = C02 model)           C02 / C03
    k = neighbors[0].size(), neighbors[i][j]        Connected.forwardOf (bounds) + LleCompose.nbOf         glue
    gram(i,j) = gram(j,i) = κ(n_i, n_j), centerMatrix   LocallyLinear.localCentered                         C08
    solver.compute(gram).eigenvectors().rightCols(d)    parameter `localEig` (contract Spectral.IsTopEig)  oracle
    1/sqrt(k)                                       parameter `rskO` (contract `rsk² k = 1`)               oracle
    G Gᵀ, triplets, setFromTriplets                 LocallyLinear.ltsaM                                    C08
    eigendecomposition_via(SmallestEigenvalues), leftCols(d + 1).rightCols(d)   as for KLLE                C08 -/

/-- everything KLTSA's `embed` computes on the way -/
structure OutT (N d : Nat) (K : Type) where
  found : Found
  /-- `neighbors[0].size()` as read by `tangent_weight_matrix` -/
  k : Nat
  nb : Fin N → Fin k → Fin N
  /-- `solver.eigenvectors().rightCols(d)` of the centred local Gram matrix, one per sample -/
  U : Fin N → Mat k d K
  /-- the value of `1 / sqrt(k)` -/
  rsk : K
  /-- the matrix handed to `eigendecomposition_via` -/
  M : Mat N N K
  V : Mat N N K
  lam : Vec N K
  Y : Mat N d K

/-- **`KernelLocalTangentSpaceAlignmentImplementation::embed`, composed.**  `localEig k A` is the outcome of the local dense
    eigensolver on the `k × k` centred Gram matrix `A` (its `d` last eigenvectors), `rskO k` the value of `1/sqrt(k)`. -/
def kltsaEmbedModel (κ : Nat → Nat → K) (N k : Nat) (check : Bool) (d : Nat) (shift : K) (search : Nat → Graph)
    (localEig : (k : Nat) → Mat k k K → Mat k d K) (rskO : Nat → K) (solver : Mat N N K → Mat N N K × Vec N K) :
    Except Err (OutT N d K) :=
  match findNeighbors search N check (findFuel N) k [] with
  | .oob => .error .knnOob
  | .fuelOut => .error .knnFuel
  | .ok f =>
    match forwardOf N (degree f.graph) f.graph with
    | none => .error .nbOob
    | some fwd =>
      if d ≤ degree f.graph then
        if hd : 1 + d ≤ N then
          .ok { found := f, k := degree f.graph, nb := nbOf fwd N (degree f.graph),
                U := fun i => localEig _ (localCentered (kMat κ N) (nbOf fwd N (degree f.graph) i)),
                rsk := rskO (degree f.graph),
                M := ltsaM (nbOf fwd N (degree f.graph)) (rskO (degree f.graph))
                      (fun i => localEig _ (localCentered (kMat κ N) (nbOf fwd N (degree f.graph) i))) shift,
                V := (solver (ltsaM (nbOf fwd N (degree f.graph)) (rskO (degree f.graph))
                      (fun i => localEig _ (localCentered (kMat κ N) (nbOf fwd N (degree f.graph) i))) shift)).1,
                lam := (solver (ltsaM (nbOf fwd N (degree f.graph)) (rskO (degree f.graph))
                      (fun i => localEig _ (localCentered (kMat κ N) (nbOf fwd N (degree f.graph) i))) shift)).2,
                Y := fun i c => (solver (ltsaM (nbOf fwd N (degree f.graph)) (rskO (degree f.graph))
                      (fun i => localEig _ (localCentered (kMat κ N) (nbOf fwd N (degree f.graph) i))) shift)).1 i
                        (shiftIdx 1 hd c) }
        else .error .colsOob
      else .error .localColsOob

/-- **kltsa_end_to_end.**  As `klle_end_to_end`, with `1 ≤ d ≤ k` (the range `validate()` lets through):

    the composed model returns (no error state of any stage), and
    1.–3. as for KLLE (least passing `k'` of the doubling sequence; exact `k'`-NN lists w.r.t. the kernel-induced distance;
       `tangent_weight_matrix` reads `k = k'` and `nb i a` = entry `a` of list `i`, distinct, none the sample itself);
    4. `U i` is the local eigensolver's outcome on `centerMatrix` of the (by construction symmetric) Gram matrix of THOSE
       neighbours, given entry by entry (`C08.centerMatrix_eq`), whose rows sum to zero (`C08.centerMatrix_rows_sum_zero`);
       `d ≤ k'` (the `rightCols(d)` is in range); `G_i G_iᵀ = rsk² + U_i U_iᵀ` (`C08.ltsa_proj_eq`);
    5. the matrix handed to the solver IS `Σ_i S_i (I − G_i G_iᵀ) S_iᵀ + nullspace_shift·I` (`C08.ltsa_M_eq`);
    6. `Y` = columns `1 … d` of the solver's `V`; and whenever `(V, λ)` meets the solver contract `GenEigSystem` on that
       matrix, `rsk²·k' = 1`, every column of every `U i` sums to zero (a consequence of the local eigensolver contract on
       the centred Gram matrix for eigenvectors of non-zero eigenvalues — stated as a hypothesis, as in
       `C08.kltsa_end_to_end`) and the trivial eigenvalue is simple: `YᵀY = 1`, every column of `Y` sums to zero,
       `tr(YᵀMY) = Σ λ_{1+c}` and `Y` minimises `tr(ZᵀMZ)` over all orthonormal `Z ⟂ 1` (`C08.kltsa_end_to_end`). -/
theorem kltsa_end_to_end (κ : Nat → Nat → K) (sqrtO : K → K) {N : Nat} (hN : 0 < N) {k : Nat} (hk : 1 ≤ k)
    (hkN : k ≤ N - 1) {d : Nat} (hdk : d ≤ k) (hd : 1 + d ≤ N) (shift : K)
    (search : Nat → Graph) (hlen : ∀ k, (search k).length = N)
    (hexact : ∀ k, k ≤ N - 1 → ∀ u (hu : u < (search k).length),
      IsExactKnn (kernelDist sqrtO κ) (List.range N) k u (search k)[u])
    (localEig : (k : Nat) → Mat k k K → Mat k d K) (rskO : Nat → K) (solver : Mat N N K → Mat N N K × Vec N K) :
    ∃ o, kltsaEmbedModel κ N k true d shift search localEig rskO solver = .ok o ∧
      -- 1. k doubling
      (∃ j, o.found.k = min (k * 2 ^ j) (N - 1) ∧ k ≤ o.found.k ∧
        isConnected N o.found.graph = .ok true ∧ StronglyConnected o.found.graph N ∧
        (∀ j', j' < j → ¬ StronglyConnected (search (min (k * 2 ^ j') (N - 1))) N) ∧
        o.found.tried = (List.range (j + 1)).map fun j' => min (k * 2 ^ j') (N - 1)) ∧
      -- 2. exact k'-NN lists w.r.t. the kernel-induced distance
      (o.found.graph = search o.found.k ∧ o.found.graph.length = N ∧
        ∀ u (hu : u < o.found.graph.length),
          IsExactKnn (kernelDist sqrtO κ) (List.range N) o.found.k u o.found.graph[u]) ∧
      -- 3. the neighbourhoods read by `tangent_weight_matrix`
      (o.k = o.found.k ∧
        (∀ (i : Fin N) (a : Fin o.k), ∃ l, o.found.graph[i.1]? = some l ∧ l[a.1]? = some (o.nb i a).1) ∧
        (∀ i, Function.Injective (o.nb i)) ∧ ∀ (i : Fin N) (a : Fin o.k), o.nb i a ≠ i) ∧
      -- 4. local centred Gram matrices, local bases, projectors
      ((∀ i, o.U i = localEig o.k (localCentered (kMat κ N) (o.nb i))) ∧ o.rsk = rskO o.k ∧ d ≤ o.k ∧
        (∀ (i : Fin N) (a b : Fin o.k), localGramSym (kMat κ N) (o.nb i) a b
          = if a ≤ b then κ (o.nb i a).1 (o.nb i b).1 else κ (o.nb i b).1 (o.nb i a).1) ∧
        (∀ (i : Fin N) (a b : Fin o.k), localCentered (kMat κ N) (o.nb i) a b
          = localGramSym (kMat κ N) (o.nb i) a b
            + (∑ a', ∑ b', localGramSym (kMat κ N) (o.nb i) a' b') / ((o.k * o.k : Nat) : K)
            - (∑ a', localGramSym (kMat κ N) (o.nb i) a' b) / (o.k : K)
            - (∑ a', localGramSym (kMat κ N) (o.nb i) a' a) / (o.k : K)) ∧
        (∀ (i : Fin N) (a : Fin o.k), ∑ b, localCentered (kMat κ N) (o.nb i) a b = 0) ∧
        (∀ (i : Fin N) (a b : Fin o.k),
          ltsaProj o.rsk (o.U i) a b = o.rsk * o.rsk + ∑ c, o.U i a c * o.U i b c)) ∧
      -- 5. the alignment matrix
      (o.M = ltsaM o.nb o.rsk o.U shift ∧
        Mat.toM o.M = (∑ i, S (o.nb i) * (1 - Mat.toM (ltsaProj o.rsk (o.U i))) * (S (o.nb i))ᵀ)
          + shift • (1 : Matrix (Fin N) (Fin N) K)) ∧
      -- 6. spectral part
      ((o.V, o.lam) = solver o.M ∧ Mat.toM o.Y = cols (Mat.toM o.V) (shiftIdx 1 hd) ∧
        (GenEigSystem (Mat.toM o.M) 1 (Mat.toM o.V) o.lam → o.rsk * o.rsk * (o.k : K) = 1 →
          (∀ i c, ∑ a, o.U i a c = 0) → (∀ j : Fin N, j.1 ≠ 0 → o.lam j ≠ shift) →
          (Mat.toM o.Y)ᵀ * Mat.toM o.Y = 1 ∧ (∀ c, ∑ i, Mat.toM o.Y i c = 0) ∧
          Matrix.trace ((Mat.toM o.Y)ᵀ * Mat.toM o.M * Mat.toM o.Y) = ∑ c, o.lam (shiftIdx 1 hd c) ∧
          ∀ Z : Matrix (Fin N) (Fin d) K, Zᵀ * Z = 1 → (∀ c, ∑ i, Z i c = 0) →
            Matrix.trace ((Mat.toM o.Y)ᵀ * Mat.toM o.M * Mat.toM o.Y) ≤ Matrix.trace (Zᵀ * Mat.toM o.M * Z))) := by
  obtain ⟨f, hf⟩ := findNeighbors_terminates (kernelDist sqrtO κ) search hN hk hlen hexact
  obtain ⟨j, hkj, hgraph, hsc, hmin, htried⟩ := k_raised_only_if_needed search hN _ k f hf
  have hk'le : f.k ≤ N - 1 := by rw [hkj]; exact Nat.min_le_right _ _
  have hkle : k ≤ f.k := by
    rw [hkj]; exact Nat.le_min.2 ⟨Nat.le_mul_of_pos_right k (Nat.pow_pos (by omega)), hkN⟩
  have hex' : ∀ u (hu : u < f.graph.length), IsExactKnn (kernelDist sqrtO κ) (List.range N) f.k u f.graph[u] := by
    rw [hgraph]; exact hexact _ hk'le
  have hglen : f.graph.length = N := by rw [hgraph]; exact hlen _
  have huni : Uniform f.graph N f.k := uniform_of_exact hglen hex'
  have hdeg : degree f.graph = f.k := huni.degree hN
  have huni' : Uniform f.graph N (degree f.graph) := by rw [hdeg]; exact huni
  have hex'' : ∀ u (hu : u < f.graph.length),
      IsExactKnn (kernelDist sqrtO κ) (List.range N) (degree f.graph) u f.graph[u] := by rw [hdeg]; exact hex'
  have hconn : isConnected N f.graph = .ok true := by
    obtain ⟨b, hb, hiff⟩ := isConnected_iff hN (huni.not_oob hN)
    rw [hb, hiff.2 hsc]
  have hfwd := forwardOf_uniform huni hN
  have hdk' : d ≤ degree f.graph := by rw [hdeg]; omega
  have hk0 : ((degree f.graph : Nat) : K) ≠ 0 := Nat.cast_ne_zero.2 (by rw [hdeg]; omega)
  refine ⟨{ found := f, k := degree f.graph, nb := nbOf f.graph N (degree f.graph),
            U := fun i => localEig _ (localCentered (kMat κ N) (nbOf f.graph N (degree f.graph) i)),
            rsk := rskO (degree f.graph),
            M := ltsaM (nbOf f.graph N (degree f.graph)) (rskO (degree f.graph))
                  (fun i => localEig _ (localCentered (kMat κ N) (nbOf f.graph N (degree f.graph) i))) shift,
            V := (solver (ltsaM (nbOf f.graph N (degree f.graph)) (rskO (degree f.graph))
                  (fun i => localEig _ (localCentered (kMat κ N) (nbOf f.graph N (degree f.graph) i))) shift)).1,
            lam := (solver (ltsaM (nbOf f.graph N (degree f.graph)) (rskO (degree f.graph))
                  (fun i => localEig _ (localCentered (kMat κ N) (nbOf f.graph N (degree f.graph) i))) shift)).2,
            Y := fun i c => (solver (ltsaM (nbOf f.graph N (degree f.graph)) (rskO (degree f.graph))
                  (fun i => localEig _ (localCentered (kMat κ N) (nbOf f.graph N (degree f.graph) i))) shift)).1 i
                    (shiftIdx 1 hd c) }, ?_, ?_, ?_, ?_, ?_, ?_, ?_⟩
  · unfold kltsaEmbedModel
    simp only [hf, hfwd, if_pos hdk', dif_pos hd]
  · exact ⟨j, hkj, hkle, hconn, hsc, hmin, htried⟩
  · exact ⟨hgraph, hglen, hex'⟩
  · exact ⟨hdeg, fun i a => nbOf_spec huni' i a, fun i => (nbOf_exact huni' hex'' i).1,
      fun i a => (nbOf_exact huni' hex'' i).2 a⟩
  · refine ⟨fun _ => rfl, rfl, hdk', fun i a b => rfl, fun i a b => C08.centerMatrix_eq _ a b,
      fun i a => C08.centerMatrix_rows_sum_zero _ (localGramSym_symm _ _) hk0 a,
      fun i a b => C08.ltsa_proj_eq _ _ a b⟩
  · exact ⟨rfl, C08.ltsa_M_eq _ _ _ shift⟩
  · refine ⟨rfl, by ext i c; rfl, ?_⟩
    intro hsys h1 hU hsimple
    exact C08.kltsa_end_to_end _ _ _ shift h1 hU _ _ hsys hd hsimple

/-- non-vacuity of the composition (conjuncts 1–5 have no hypothesis beyond the search's exactness): on the KLLE instance
    above (`N = 4`, requested `k = 1`, `d = 1`) the composed KLTSA model runs, `k` is doubled once, and
    `tangent_weight_matrix` reads `k' = 2 ≥ d`.  The hypotheses of conjunct 6 are those of `C08.kltsa_end_to_end`
    (`rsk²·k = 1`, zero column sums: instance in `Props/C08.lean` at `k = 4`); together with a rational orthonormal
    eigensystem with a constant first column they need `√k'` and `√N` rational at once (`k' = 4`, `N ≥ 9`); no such instance
    with an exact search was constructed — the joint satisfiability of the hypotheses of conjunct 6 is NOT machine-checked. -/
example : ∃ o, kltsaEmbedModel exκ 4 1 true 1 (1 / 10) (bruteSearch (kernelDist exSqrt exκ) 4)
      (fun _ _ _ _ => (0 : ℚ)) (fun _ => 1 / 2) exSolver = .ok o ∧
    o.found.k = 2 ∧ o.found.tried = [1, 2] ∧ o.k = 2 ∧ (∀ i c, ∑ a, o.U i a c = 0) := by
  obtain ⟨o, ho, _, _, ⟨h3, _⟩, _, _, _⟩ :=
    kltsa_end_to_end exκ exSqrt (N := 4) (by decide) (k := 1) (by decide) (by decide) (d := 1) (by decide) (by decide)
      (1 / 10) (bruteSearch (kernelDist exSqrt exκ) 4) (bruteSearch_length _ 4)
      (fun k hk => bruteSearch_exact (by decide) ex_self k hk) (fun _ _ _ _ => (0 : ℚ)) (fun _ => 1 / 2) exSolver
  have ho' := ho
  unfold kltsaEmbedModel at ho'
  simp only [ex_find, ex_fwd] at ho'
  rw [if_pos (by decide), dif_pos (by decide)] at ho'
  injection ho' with ho'
  subst ho'
  exact ⟨_, ho, rfl, rfl, by decide, fun i c => by simp⟩

/-! ## Hessian LLE

`hlleEmbedModel` is `HessianLocallyLinearEmbeddingImplementation::embed`
(include/tapkee/methods/hessian_locally_linear_embedding.hpp), composed the same way:

    find_neighbors_with(kernel_distance)            Connected.findNeighbors (search = C02 model)           C02 / C03
    k = neighbors[0].size(), neighbors[i][j]        Connected.forwardOf (bounds) + LleCompose.nbOf         glue
    gram(i,j) = gram(j,i) = κ(n_i, n_j), centerMatrix   LocallyLinear.localCentered                         C08
    sae_solver.compute(gram).eigenvectors().rightCols(d)   parameter `localEig` (contract Spectral.IsTopEig)  oracle
    Yi = [1 | U | products], Gram–Schmidt, colsum, rightCols(dp), triplets   LocallyLinear.hlleM (`sqrtO`, `thr = 1e-4`)   C08
    eigendecomposition_via(SmallestEigenvalues), leftCols(d + 1).rightCols(d)   as for KLLE                C08 -/

/-- everything HLLE's `embed` computes on the way -/
structure OutH (N d : Nat) (K : Type) where
  found : Found
  /-- `neighbors[0].size()` as read by `hessian_weight_matrix` -/
  k : Nat
  nb : Fin N → Fin k → Fin N
  /-- `sae_solver.eigenvectors().rightCols(d)` of the centred local Gram matrix, one per sample -/
  U : Fin N → Mat k d K
  /-- the matrix handed to `eigendecomposition_via` -/
  M : Mat N N K
  V : Mat N N K
  lam : Vec N K
  Y : Mat N d K

/-- **`HessianLocallyLinearEmbeddingImplementation::embed`, composed.**  `sqrtO` is libm's `sqrt` (column norms of the
    Gram–Schmidt sweep), `thr` the constant `1e-4` of the column-sum step. -/
def hlleEmbedModel (κ : Nat → Nat → K) (N k : Nat) (check : Bool) (d : Nat) (search : Nat → Graph)
    (localEig : (k : Nat) → Mat k k K → Mat k d K) (sqrtO : K → K) (thr : K)
    (solver : Mat N N K → Mat N N K × Vec N K) : Except Err (OutH N d K) :=
  match findNeighbors search N check (findFuel N) k [] with
  | .oob => .error .knnOob
  | .fuelOut => .error .knnFuel
  | .ok f =>
    match forwardOf N (degree f.graph) f.graph with
    | none => .error .nbOob
    | some fwd =>
      if d ≤ degree f.graph then
        match hlleM (nbOf fwd N (degree f.graph)) sqrtO thr
            (fun i => localEig _ (localCentered (kMat κ N) (nbOf fwd N (degree f.graph) i))) with
        | .error e => .error (.hlle e)
        | .ok M =>
          if hd : 1 + d ≤ N then
            .ok { found := f, k := degree f.graph, nb := nbOf fwd N (degree f.graph),
                  U := fun i => localEig _ (localCentered (kMat κ N) (nbOf fwd N (degree f.graph) i)),
                  M := M, V := (solver M).1, lam := (solver M).2,
                  Y := fun i c => (solver M).1 i (shiftIdx 1 hd c) }
          else .error .colsOob
      else .error .localColsOob

/-- **hlle_end_to_end.**  As `kltsa_end_to_end` (`1 ≤ d ≤ k`), for every `sqrtO` and `thr`:

    the composed model returns (no error state of any stage — in particular the column bookkeeping of
    `hessian_weight_matrix` reaches no out-of-range / clobbered / unwritten column, `C08.hlle_index_ok`), and
    1.–3. as for KLLE;
    4. `U i` is the local eigensolver's outcome on `centerMatrix` of the symmetric Gram matrix of THOSE neighbours (entry by
       entry, rows summing to zero), `d ≤ k'`, and the local block is `H_i H_iᵀ`, `H_i = Yi.rightCols(dp)` (`C08.hlle_proj_eq`);
    5. the matrix handed to the solver IS `Σ_i S_i (H_i H_iᵀ) S_iᵀ` (`C08.hlle_M_eq`);
    6. `Y` = columns `1 … d` of the solver's `V`; and whenever `(V, λ)` meets the solver contract `GenEigSystem` on that
       matrix, the threshold is non-negative, `sqrtO` is exact on the squared norms that occur with no vanishing remainder
       (`GsExact`: the Gram–Schmidt contract is then a theorem about the as-written sweep, `C08.hlle_gs_contract`) and the
       trivial eigenvalue `0` is simple: `YᵀY = 1`, every column of `Y` sums to zero, `tr(YᵀMY) = Σ λ_{1+c}` and `Y`
       minimises `tr(ZᵀMZ)` over all orthonormal `Z ⟂ 1` (`C08.hlle_end_to_end`). -/
theorem hlle_end_to_end (κ : Nat → Nat → K) (sqrtD : K → K) {N : Nat} (hN : 0 < N) {k : Nat} (hk : 1 ≤ k)
    (hkN : k ≤ N - 1) {d : Nat} (hdk : d ≤ k) (hd : 1 + d ≤ N)
    (search : Nat → Graph) (hlen : ∀ k, (search k).length = N)
    (hexact : ∀ k, k ≤ N - 1 → ∀ u (hu : u < (search k).length),
      IsExactKnn (kernelDist sqrtD κ) (List.range N) k u (search k)[u])
    (localEig : (k : Nat) → Mat k k K → Mat k d K) (sqrtO : K → K) (thr : K)
    (solver : Mat N N K → Mat N N K × Vec N K) :
    ∃ o, hlleEmbedModel κ N k true d search localEig sqrtO thr solver = .ok o ∧
      -- 1. k doubling
      (∃ j, o.found.k = min (k * 2 ^ j) (N - 1) ∧ k ≤ o.found.k ∧
        isConnected N o.found.graph = .ok true ∧ StronglyConnected o.found.graph N ∧
        (∀ j', j' < j → ¬ StronglyConnected (search (min (k * 2 ^ j') (N - 1))) N) ∧
        o.found.tried = (List.range (j + 1)).map fun j' => min (k * 2 ^ j') (N - 1)) ∧
      -- 2. exact k'-NN lists w.r.t. the kernel-induced distance
      (o.found.graph = search o.found.k ∧ o.found.graph.length = N ∧
        ∀ u (hu : u < o.found.graph.length),
          IsExactKnn (kernelDist sqrtD κ) (List.range N) o.found.k u o.found.graph[u]) ∧
      -- 3. the neighbourhoods read by `hessian_weight_matrix`
      (o.k = o.found.k ∧
        (∀ (i : Fin N) (a : Fin o.k), ∃ l, o.found.graph[i.1]? = some l ∧ l[a.1]? = some (o.nb i a).1) ∧
        (∀ i, Function.Injective (o.nb i)) ∧ ∀ (i : Fin N) (a : Fin o.k), o.nb i a ≠ i) ∧
      -- 4. local centred Gram matrices, local bases, local Hessian blocks
      ((∀ i, o.U i = localEig o.k (localCentered (kMat κ N) (o.nb i))) ∧ d ≤ o.k ∧
        (∀ (i : Fin N) (a b : Fin o.k), localGramSym (kMat κ N) (o.nb i) a b
          = if a ≤ b then κ (o.nb i a).1 (o.nb i b).1 else κ (o.nb i b).1 (o.nb i a).1) ∧
        (∀ (i : Fin N) (a b : Fin o.k), localCentered (kMat κ N) (o.nb i) a b
          = localGramSym (kMat κ N) (o.nb i) a b
            + (∑ a', ∑ b', localGramSym (kMat κ N) (o.nb i) a' b') / ((o.k * o.k : Nat) : K)
            - (∑ a', localGramSym (kMat κ N) (o.nb i) a' b) / (o.k : K)
            - (∑ a', localGramSym (kMat κ N) (o.nb i) a' a) / (o.k : K)) ∧
        (∀ (i : Fin N) (a : Fin o.k), ∑ b, localCentered (kMat κ N) (o.nb i) a b = 0) ∧
        (∀ (i : Fin N) (a b : Fin o.k),
          hlleProj sqrtO thr (o.U i) a b = ((hlleH sqrtO thr (o.U i)).map fun h => h.get a * h.get b).sum)) ∧
      -- 5. the alignment matrix
      (hlleM o.nb sqrtO thr o.U = .ok o.M ∧
        Mat.toM o.M = ∑ i, S (o.nb i) * Mat.toM (hlleProj sqrtO thr (o.U i)) * (S (o.nb i))ᵀ) ∧
      -- 6. spectral part
      ((o.V, o.lam) = solver o.M ∧ Mat.toM o.Y = cols (Mat.toM o.V) (shiftIdx 1 hd) ∧
        (GenEigSystem (Mat.toM o.M) 1 (Mat.toM o.V) o.lam → 0 ≤ thr →
          (∀ i, GsExact sqrtO [] (hlleYi0 (o.U i))) → (∀ j : Fin N, j.1 ≠ 0 → o.lam j ≠ 0) →
          (Mat.toM o.Y)ᵀ * Mat.toM o.Y = 1 ∧ (∀ c, ∑ i, Mat.toM o.Y i c = 0) ∧
          Matrix.trace ((Mat.toM o.Y)ᵀ * Mat.toM o.M * Mat.toM o.Y) = ∑ c, o.lam (shiftIdx 1 hd c) ∧
          ∀ Z : Matrix (Fin N) (Fin d) K, Zᵀ * Z = 1 → (∀ c, ∑ i, Z i c = 0) →
            Matrix.trace ((Mat.toM o.Y)ᵀ * Mat.toM o.M * Mat.toM o.Y) ≤ Matrix.trace (Zᵀ * Mat.toM o.M * Z))) := by
  obtain ⟨f, hf⟩ := findNeighbors_terminates (kernelDist sqrtD κ) search hN hk hlen hexact
  obtain ⟨j, hkj, hgraph, hsc, hmin, htried⟩ := k_raised_only_if_needed search hN _ k f hf
  have hk'le : f.k ≤ N - 1 := by rw [hkj]; exact Nat.min_le_right _ _
  have hkle : k ≤ f.k := by
    rw [hkj]; exact Nat.le_min.2 ⟨Nat.le_mul_of_pos_right k (Nat.pow_pos (by omega)), hkN⟩
  have hex' : ∀ u (hu : u < f.graph.length), IsExactKnn (kernelDist sqrtD κ) (List.range N) f.k u f.graph[u] := by
    rw [hgraph]; exact hexact _ hk'le
  have hglen : f.graph.length = N := by rw [hgraph]; exact hlen _
  have huni : Uniform f.graph N f.k := uniform_of_exact hglen hex'
  have hdeg : degree f.graph = f.k := huni.degree hN
  have huni' : Uniform f.graph N (degree f.graph) := by rw [hdeg]; exact huni
  have hex'' : ∀ u (hu : u < f.graph.length),
      IsExactKnn (kernelDist sqrtD κ) (List.range N) (degree f.graph) u f.graph[u] := by rw [hdeg]; exact hex'
  have hconn : isConnected N f.graph = .ok true := by
    obtain ⟨b, hb, hiff⟩ := isConnected_iff hN (huni.not_oob hN)
    rw [hb, hiff.2 hsc]
  have hfwd := forwardOf_uniform huni hN
  have hdk' : d ≤ degree f.graph := by rw [hdeg]; omega
  have hk0 : ((degree f.graph : Nat) : K) ≠ 0 := Nat.cast_ne_zero.2 (by rw [hdeg]; omega)
  obtain ⟨M', hM', hMeq⟩ := C08.hlle_M_eq (nbOf f.graph N (degree f.graph)) sqrtO thr
    (fun i => localEig _ (localCentered (kMat κ N) (nbOf f.graph N (degree f.graph) i)))
  refine ⟨{ found := f, k := degree f.graph, nb := nbOf f.graph N (degree f.graph),
            U := fun i => localEig _ (localCentered (kMat κ N) (nbOf f.graph N (degree f.graph) i)),
            M := M', V := (solver M').1, lam := (solver M').2,
            Y := fun i c => (solver M').1 i (shiftIdx 1 hd c) }, ?_, ?_, ?_, ?_, ?_, ?_, ?_⟩
  · unfold hlleEmbedModel
    simp only [hf, hfwd, if_pos hdk', hM', dif_pos hd]
  · exact ⟨j, hkj, hkle, hconn, hsc, hmin, htried⟩
  · exact ⟨hgraph, hglen, hex'⟩
  · exact ⟨hdeg, fun i a => nbOf_spec huni' i a, fun i => (nbOf_exact huni' hex'' i).1,
      fun i a => (nbOf_exact huni' hex'' i).2 a⟩
  · refine ⟨fun _ => rfl, hdk', fun i a b => rfl, fun i a b => C08.centerMatrix_eq _ a b,
      fun i a => C08.centerMatrix_rows_sum_zero _ (localGramSym_symm _ _) hk0 a,
      fun i a b => C08.hlle_proj_eq sqrtO thr _ a b⟩
  · exact ⟨hM', hMeq⟩
  · refine ⟨rfl, by ext i c; rfl, ?_⟩
    intro hsys hthr hE hsimple
    exact C08.hlle_end_to_end _ sqrtO thr _
      (fun i => (C08.hlle_gs_contract sqrtO thr (not_lt.2 hthr) _ (hE i)).2) M' hM' _ _ hsys hd hsimple

/-- non-vacuity of the composition: on the rectangle instance with requested `k = 3 = 1 + d + dp` (the minimum HLLE
    neighbourhood size at `d = 1`) the composed HLLE model runs and `hessian_weight_matrix` reads `k' = 3`.  The
    hypotheses of conjunct 6 are those of `C08.hlle_end_to_end` / `C08.hlle_gs_contract`; `GsExact` normalises the
    constant column by `√k'`, so it has no instance over `ℚ` at `k' = 3` (see `C08.hlle_nullspace_exact_min_k`) — the
    joint satisfiability of the hypotheses of conjunct 6 is NOT machine-checked. -/
example : ∃ o, hlleEmbedModel exκ 4 3 true 1 (bruteSearch (kernelDist exSqrt exκ) 4)
      (fun _ _ _ _ => (0 : ℚ)) exSqrt (1 / 10000) exSolver = .ok o ∧ o.found.k = 3 ∧ o.k = 3 := by
  obtain ⟨o, ho, ⟨j, hkj, hle, _⟩, _, ⟨h3, _⟩, _, _, _⟩ :=
    hlle_end_to_end exκ exSqrt (N := 4) (by decide) (k := 3) (by decide) (by decide) (d := 1) (by decide) (by decide)
      (bruteSearch (kernelDist exSqrt exκ) 4) (bruteSearch_length _ 4)
      (fun k hk => bruteSearch_exact (by decide) ex_self k hk) (fun _ _ _ _ => (0 : ℚ)) exSqrt (1 / 10000) exSolver
  have hle' : o.found.k ≤ 3 := by rw [hkj]; exact Nat.min_le_right _ _
  have hk3 : o.found.k = 3 := by omega
  exact ⟨o, ho, hk3, by rw [h3, hk3]⟩

end TapkeeVerif.LleCompose
