import TapkeeVerif.Proofs.FibHeapOob
/-!
Property C16 — the Fibonacci heap (`include/tapkee/utils/fibonacci_heap.hpp`) is a correct indexed
min-priority queue under every history.  Statements about the executable model
`Model/FibHeap.lean` (validated byte-for-byte against the real class by `checks/c16.py`);
all quantify over every capacity and every operation list (induction over the history, no bounds).
-/
namespace TapkeeVerif.FibHeap

/-- Every reachable heap satisfies the invariant `Inv` (heap order and degree discipline in every
    tree, `rank` = number of children, `min_root` minimal among the roots, stored indices distinct
    and `< capacity`, `num_nodes` = number of stored nodes). -/
theorem inv_reachable (cap dn : Nat) (ops : List Op) (h : Heap) (outs : List Out)
    (hrun : run (Heap.init cap dn) ops = .ok (h, outs)) : Inv h :=
  (run_ok ops (inv_init cap dn) (List.Perm.refl _) hrun).1

/-- In every reachable heap `min_root` carries a key ≤ every stored key. -/
theorem min_root_minimal (cap dn : Nat) (ops : List Op) (h : Heap) (outs : List Out)
    (hrun : run (Heap.init cap dn) ops = .ok (h, outs)) (m : Tr) (rs : List Tr)
    (hr : h.roots = m :: rs) : ∀ e ∈ h.forest.entries, m.key ≤ e.2 := by
  have := (inv_reachable cap dn ops h outs hrun).head_le_all hr
  simpa [Heap.forest] using this

/-- Every output sequence of the model is one the finite-map specification allows: `extract_min`
    returns an index whose key is minimal among the stored ones together with that key and removes
    it (`-1` on empty), reported sizes equal the number of stored indices, guarded calls change
    nothing, `get_key` reads the map. -/
theorem refines_map (cap dn : Nat) (ops : List Op) (h : Heap) (outs : List Out)
    (hrun : run (Heap.init cap dn) ops = .ok (h, outs)) : Spec.accepts cap [] ops outs = true :=
  (run_ok ops (inv_init cap dn) (List.Perm.refl _) hrun).2

/-- `decrease_key` never makes `min_root` point to a non-root node (the model's `corrupt` state is
    unreachable), whatever the size of the consolidation array. -/
theorem no_corrupt (cap dn : Nat) (ops : List Op) : run (Heap.init cap dn) ops ≠ .error .corrupt := by
  intro h
  have := (run_error ops (inv_init cap dn) h).1
  cases this

/-- `consolidate` never indexes `A` at or beyond `Dn` when `Dn` is the constructor's value
    (`dnOf cap`, the first `Dn ≥ 1` with `fib (Dn + 2) > capacity`): the classical degree bound. -/
theorem no_oob (cap : Nat) (ops : List Op) : run (Heap.init cap (dnOf cap)) ops ≠ .error .oob :=
  run_no_oob cap (dnOf cap) (dnOf_spec cap) ops

/-- the same for any array size `dn` with `fib (dn + 2) > capacity` -/
theorem no_oob_of_fib (cap dn : Nat) (hdn : cap < fib (dn + 2)) (ops : List Op) :
    run (Heap.init cap dn) ops ≠ .error .oob :=
  run_no_oob cap dn hdn ops

/-- consequently every history runs to completion in the model -/
theorem run_total (cap : Nat) (ops : List Op) :
    ∃ h outs, run (Heap.init cap (dnOf cap)) ops = .ok (h, outs) := by
  cases hr : run (Heap.init cap (dnOf cap)) ops with
  | ok p => exact ⟨p.1, p.2, rfl⟩
  | error e =>
    cases e with
    | oob => exact absurd hr (no_oob cap ops)
    | corrupt => exact absurd hr (no_corrupt cap (dnOf cap) ops)

/-- Fuel adequacy of `carry` (the model calls it with fuel `a.length + 1`): the result is `none`
    exactly when every slot from `d` to the end of the array is occupied, i.e. when the C++ loop
    `while (A[d] != NULL) … d++` reads `A[Dn]`.  Fuel exhaustion is never the reason. -/
theorem carry_fuel_adequate (a : Slots) (x : Tr) (d : Nat) :
    carry (a.length + 1) a x d = none ↔ ∀ j, d ≤ j → j < a.length → ∃ y, a[j]? = some (some y) :=
  carry_none_iff_oob (a.length + 1) a x d (by omega)

/-- Fuel adequacy of `dnOf`: the constructor's loop stopped because `fib > capacity` (not because
    the fuel `cap + 1` ran out), and at the first such value. -/
theorem dnOf_fuel_adequate (cap : Nat) :
    cap < fib (dnOf cap + 2) ∧ (dnOf cap = 1 ∨ fib (dnOf cap + 1) ≤ cap) :=
  ⟨dnOf_spec cap, dnOf_min cap⟩

/-! ### non-vacuity: a concrete history with a cascading cut and several `extract_min`s -/

/-- nine inserts, an `extract_min` that consolidates eight nodes into one tree of rank 3
    (`1 → {2, 5 → {6, 7 → {8}}, 3 → {4}}`), a `decrease_key` that cuts 6 (marks 5), a second one
    that cuts 7 and, 5 being marked, cascades to cut 5 as well, two `extract_min`s, then guards. -/
def demoOps : List Op :=
  [.insert 0 0, .insert 1 11, .insert 2 12, .insert 3 13, .insert 4 14, .insert 5 15, .insert 6 16,
   .insert 7 17, .insert 8 18, .extract, .decrease 6 2, .decrease 7 3, .extract, .extract,
   .getKey 5, .decrease 4 99, .insert 1 5, .insert 10 1, .decrease 0 (-1), .extract, .clear, .extract]

def demoOuts : List Out :=
  [.size 1, .size 2, .size 3, .size 4, .size 5, .size 6, .size 7, .size 8, .size 9,
   .extracted 8 (some (0, 0)), .size 8, .size 8, .extracted 7 (some (6, 2)),
   .extracted 6 (some (7, 3)), .key (some 15), .size 6, .size 6, .size 6, .size 6,
   .extracted 5 (some (1, 11)), .size 0, .extracted 0 none]

/-- outputs of a finished run -/
def outsOf (r : Except Err (Heap × List Out)) : Option (List Out) :=
  match r with
  | .ok (_, outs) => some outs
  | .error _ => none

/-- the hypothesis `run … = .ok …` of the theorems above is met, with the expected outputs -/
example : outsOf (run (Heap.init 10) demoOps) = some demoOuts := by decide

/-- the second `decrease_key` really cascades: three trees (6, 7 and the marked 5) were cut -/
example : (match run (Heap.init 10) (demoOps.take 12) with
    | .ok (h, _) => some (h.numTrees, h.roots.map (·.idx))
    | .error _ => none) = some (4, [6, 5, 7, 1]) := by decide

/-- the specification accepts these outputs and rejects a wrong extracted index -/
example : Spec.accepts 10 [] demoOps demoOuts = true := by decide
example : Spec.accepts 10 [] (demoOps.take 13)
    ((demoOuts.take 12) ++ [.extracted 7 (some (7, 3))]) = false := by decide

/-- the error states are real: with a too small array the model does report `oob`
    (capacity 8, `Dn = 2`: the third carry reaches `A[2]`) -/
example : (match run (Heap.init 8 2) (demoOps.take 10) with
    | .error .oob => true
    | _ => false) = true := by decide

/-- `dnOf` on small capacities (the C++ loop gives the same values; checked for every capacity up to
    2049 by `checks/c16.py`) -/
example : (List.range 14).map dnOf = [1, 1, 2, 3, 3, 4, 4, 4, 5, 5, 5, 5, 5, 6] := by decide

end TapkeeVerif.FibHeap
