import TapkeeVerif.Proofs.FibHeapRefine
/-!
Property C16 — the Fibonacci heap (`include/tapkee/utils/fibonacci_heap.hpp`) is a correct indexed
min-priority queue under every history.  Statements about the executable model
`Model/FibHeap.lean` (validated byte-for-byte against the real class by `checks/c16.py`);
all quantify over every capacity and every operation list.
-/
namespace TapkeeVerif.FibHeap

/-- Every reachable heap satisfies the invariant `Inv` (heap order and degree discipline in every
    tree, `rank` = number of children, `min_root` minimal among the roots, stored indices distinct
    and `< capacity`, `num_nodes` = number of stored nodes). -/
theorem inv_reachable (cap dn : Nat) (ops : List Op) (h : Heap) (outs : List Out)
    (hrun : run (Heap.init cap dn) ops = .ok (h, outs)) : Inv h :=
  (run_ok ops (inv_init cap dn) (List.Perm.refl _) hrun).1

/-- Every output sequence of the model is one the finite-map specification allows. -/
theorem refines_map (cap dn : Nat) (ops : List Op) (h : Heap) (outs : List Out)
    (hrun : run (Heap.init cap dn) ops = .ok (h, outs)) : Spec.accepts cap [] ops outs = true :=
  (run_ok ops (inv_init cap dn) (List.Perm.refl _) hrun).2

/-- `decrease_key` never makes `min_root` point to a non-root node (the model's `corrupt` state is
    unreachable). -/
theorem no_corrupt (cap dn : Nat) (ops : List Op) : run (Heap.init cap dn) ops ≠ .error .corrupt := by
  intro h
  have := (run_error ops (inv_init cap dn) h).1
  cases this

end TapkeeVerif.FibHeap
