import TapkeeVerif.Model.FibHeap
import TapkeeVerif.Model.FibHeapSpec
namespace TapkeeVerif.FibHeap
theorem placeholder_size_nil : F.size .nil = 0 := rfl
end TapkeeVerif.FibHeap
