import Mathlib.Algebra.Order.Field.Rat
import Mathlib.Tactic.NormNum.Basic
import Mathlib.Tactic.Positivity
import TapkeeVerif.Model.Laplacian
import TapkeeVerif.Model.Diffusion
import TapkeeVerif.Proofs.MatBridge
import TapkeeVerif.Proofs.Laplacian
/-!
# C09 — Laplacian Eigenmaps and Diffusion Map solve their stated spectral problems

Subjects: the executable models `Model/Laplacian.lean` (`routines/laplacian_eigenmaps.hpp: compute_laplacian`) and
`Model/Diffusion.lean` (`routines/diffusion_maps.hpp: compute_diffusion_matrix`, `methods/diffusion_map.hpp`
post-processing).  All statements hold for every `N k d : Nat` and every field `K` (an order is assumed only where a
sign is claimed); `exp` and `sqrt` are oracles `heat`, `sqrtO` constrained only by the hypotheses written out.

## A. Laplacian
`h i a` is the heat value of sample `i` and its `a`-th neighbour `nb i a`; the neighbour lists are arbitrary
(duplicates and self-neighbours allowed).  `Laplacian.adj nb h i j = Σ_{a : nb i a = j} h i a` is the *directed* heat
adjacency, `W = adj + adjᵀ`: a mutual neighbour pair is counted **twice** (the sum, as written; the `max` of the header
comment is not what the code does).
-/
namespace TapkeeVerif.C09
open TapkeeVerif TapkeeVerif.Laplacian Matrix

section laplacian
variable {K : Type} [Field K] {N k : Nat}

/-- both routines evaluate `exp` at `−d²/width`: the width **divides** -/
theorem heat_argument (dist w : K) :
    Laplacian.heatArg dist w = -(dist ^ 2) / w ∧ Diffusion.heatArg dist w = -(dist ^ 2) / w := by
  constructor
  · simp only [Laplacian.heatArg]; ring
  · simp only [Diffusion.heatArg]; ring

/-- the heat value of sample `i` and its `a`-th neighbour -/
theorem heats_eq (heat : K → K) (dist : Mat N N K) (w : K) (nb : Fin N → Fin k → Fin N) (i : Fin N) (a : Fin k) :
    heats heat dist w nb i a = heat (-(dist i (nb i a)) ^ 2 / w) := by
  simp only [heats, heatsD, DMat.get_ofFn, (heat_argument _ _).1]

/-- `L = D − W` with `W = A + Aᵀ`, `A` the directed heat adjacency -/
theorem laplacian_eq (nb : Fin N → Fin k → Fin N) (h : Mat N k K) :
    Mat.toM (laplacianL nb h) = Matrix.diagonal (degrees nb h) - (adj nb h + (adj nb h)ᵀ) :=
  laplacianL_eq nb h

/-- `D` = the row sums of `W = A + Aᵀ` (mutual neighbours are counted twice) -/
theorem degrees_eq (nb : Fin N → Fin k → Fin N) (h : Mat N k K) (i : Fin N) :
    degrees nb h i = ∑ j, (adj nb h + (adj nb h)ᵀ) i j :=
  degrees_eq_rowsum nb h i

/-- the one-pass `+=` assembly the driver runs (and the C++ does) is the model matrix -/
theorem laplacianLD_get (nb : Fin N → Fin k → Fin N) (h : Mat N k K) : (laplacianLD nb h).get = laplacianL nb h :=
  Laplacian.laplacianLD_get nb h

theorem degreesD_get (nb : Fin N → Fin k → Fin N) (h : Mat N k K) : (degreesD nb h).get = degrees nb h :=
  Laplacian.degreesD_get nb h

/-- what `compute_laplacian` returns -/
theorem computeLaplacian_eq (heat : K → K) (dist : Mat N N K) (w : K) (nb : Fin N → Fin k → Fin N) :
    computeLaplacian heat dist w nb
      = (laplacianL nb (fun i a => heat (-(dist i (nb i a)) ^ 2 / w)),
         degrees nb (fun i a => heat (-(dist i (nb i a)) ^ 2 / w))) := by
  have : heats heat dist w nb = fun i a => heat (-(dist i (nb i a)) ^ 2 / w) := by
    funext i a; exact heats_eq heat dist w nb i a
  simp only [computeLaplacian, this]

theorem laplacian_symm (nb : Fin N → Fin k → Fin N) (h : Mat N k K) :
    (Mat.toM (laplacianL nb h))ᵀ = Mat.toM (laplacianL nb h) :=
  laplacianL_symm nb h

/-- the constant vector is in the kernel: `L 1 = 0` -/
theorem laplacian_mulVec_one (nb : Fin N → Fin k → Fin N) (h : Mat N k K) :
    (Mat.toM (laplacianL nb h)).mulVec (fun _ => 1) = 0 :=
  laplacianL_mulVec_one nb h

/-- `xᵀ L x = Σ_i Σ_a h_{i,a} (x_i − x_{nb i a})²` -/
theorem laplacian_quadratic_form (nb : Fin N → Fin k → Fin N) (h : Mat N k K) (x : Fin N → K) :
    x ⬝ᵥ ((Mat.toM (laplacianL nb h)).mulVec x) = ∑ i, ∑ a, h i a * (x i - x (nb i a)) ^ 2 :=
  laplacianL_quadratic nb h x

end laplacian

section laplacianOrdered
variable {K : Type} [Field K] [LinearOrder K] [IsStrictOrderedRing K] {N k : Nat}

/-- non-negative heat values ⇒ `L` is positive semidefinite -/
theorem laplacian_psd (nb : Fin N → Fin k → Fin N) (h : Mat N k K) (hh : ∀ i a, 0 ≤ h i a) (x : Fin N → K) :
    0 ≤ x ⬝ᵥ ((Mat.toM (laplacianL nb h)).mulVec x) :=
  laplacianL_psd nb h hh x

/-- positive heat values and at least one neighbour ⇒ every degree is positive (`D` is a valid right-hand side) -/
theorem degrees_pos (nb : Fin N → Fin k → Fin N) (h : Mat N k K) (hk : 0 < k) (hh : ∀ i a, 0 < h i a) (i : Fin N) :
    0 < degrees nb h i :=
  degrees_pos' nb h hk hh i

end laplacianOrdered

/-! Non-vacuity (A): three samples, two neighbours each; `0 ↔ 1` are mutual neighbours, sample `2` lists `0` twice. -/

/-- example neighbour lists -/
def exNb : Fin 3 → Fin 2 → Fin 3 := fun i a =>
  if i = 0 then (if a = 0 then 1 else 2) else if i = 1 then (if a = 0 then 0 else 2) else 0

/-- example heat values (all positive) -/
def exH : Mat 3 2 ℚ := fun i a => 1 / ((i.1 : ℚ) + (a.1 : ℚ) + 1)

example : ∀ i a, 0 < exH i a := fun i a => by unfold exH; positivity
example : ∀ i a, 0 ≤ exH i a := fun i a => by unfold exH; positivity
example : (0 : Nat) < 2 := by decide
/-- the mutual pair `0 ↔ 1` is counted twice (sum, not max): `L 0 1 = −(h 0 0 + h 1 0)` -/
example : laplacianL exNb exH 0 1 = -(1 + 1 / 2) := by decide +kernel

-- SPECTRAL THEOREMS (appended by the spectral owner)

end TapkeeVerif.C09
