import Mathlib.Algebra.Order.Field.Rat
import Mathlib.Tactic.NormNum.Basic
import Mathlib.Tactic.Positivity
import TapkeeVerif.Model.Laplacian
import TapkeeVerif.Model.Diffusion
import TapkeeVerif.Proofs.MatBridge
import TapkeeVerif.Proofs.Laplacian
import TapkeeVerif.Proofs.LaplacianDiffusion
import TapkeeVerif.Proofs.SpectralLocal
import Mathlib.Tactic.NormNum
import Mathlib.Tactic.FinCases
import Mathlib.LinearAlgebra.Matrix.Notation
import TapkeeVerif.Proofs.CertGenSound
/-!
# C09 — Laplacian Eigenmaps and Diffusion Map solve their stated spectral problems

Subjects: the executable models `Model/Laplacian.lean` (`routines/laplacian_eigenmaps.hpp: compute_laplacian`) and
`Model/Diffusion.lean` (`routines/diffusion_maps.hpp: compute_diffusion_matrix`, `methods/diffusion_map.hpp`
post-processing).  All statements hold for every `N k d : Nat` and every field `K` (an order is assumed only where a
sign is claimed); `exp` and `sqrt` are oracles `heat`, `sqrtO` constrained only by the hypotheses written out.

## A. Laplacian
`h i a` is the heat value of sample `i` and its `a`-th neighbour `nb i a`; the neighbour lists are arbitrary
(duplicates and self-neighbours allowed).  `Laplacian.adj nb h i j = Σ_{a : nb i a = j} h i a` is the *directed* heat
adjacency, `W = adj + adjᵀ`: a mutual neighbour pair is counted **twice** (the sum, as written; the `max` of the header
comment is not what the code does).
-/
namespace TapkeeVerif.C09
open TapkeeVerif TapkeeVerif.Laplacian TapkeeVerif.Diffusion Matrix

section laplacian
variable {K : Type} [Field K] {N k : Nat}

/-- (definitional: holds by unfolding the transcribed model)
    both routines evaluate `exp` at `−d²/width`: the width **divides** -/
theorem heat_argument (dist w : K) :
    Laplacian.heatArg dist w = -(dist ^ 2) / w ∧ Diffusion.heatArg dist w = -(dist ^ 2) / w := by
  constructor
  · simp only [Laplacian.heatArg]; ring
  · simp only [Diffusion.heatArg]; ring

/-- (definitional: holds by unfolding the transcribed model)
    the heat value of sample `i` and its `a`-th neighbour -/
theorem heats_eq (heat : K → K) (dist : Mat N N K) (w : K) (nb : Fin N → Fin k → Fin N) (i : Fin N) (a : Fin k) :
    heats heat dist w nb i a = heat (-(dist i (nb i a)) ^ 2 / w) := by
  simp only [heats, heatsD, DMat.get_ofFn, (heat_argument _ _).1]

/-- `L = D − W` with `W = A + Aᵀ`, `A` the directed heat adjacency -/
theorem laplacian_eq (nb : Fin N → Fin k → Fin N) (h : Mat N k K) :
    Mat.toM (laplacianL nb h) = Matrix.diagonal (degrees nb h) - (adj nb h + (adj nb h)ᵀ) :=
  laplacianL_eq nb h

/-- `D` = the row sums of `W = A + Aᵀ` (mutual neighbours are counted twice) -/
theorem degrees_eq (nb : Fin N → Fin k → Fin N) (h : Mat N k K) (i : Fin N) :
    degrees nb h i = ∑ j, (adj nb h + (adj nb h)ᵀ) i j :=
  degrees_eq_rowsum nb h i

/-- the one-pass `+=` assembly the driver runs (and the C++ does) is the model matrix -/
theorem laplacianLD_get (nb : Fin N → Fin k → Fin N) (h : Mat N k K) : (laplacianLD nb h).get = laplacianL nb h :=
  Laplacian.laplacianLD_get nb h

theorem degreesD_get (nb : Fin N → Fin k → Fin N) (h : Mat N k K) : (degreesD nb h).get = degrees nb h :=
  Laplacian.degreesD_get nb h

/-- (definitional: holds by unfolding the transcribed model)
    what `compute_laplacian` returns -/
theorem computeLaplacian_eq (heat : K → K) (dist : Mat N N K) (w : K) (nb : Fin N → Fin k → Fin N) :
    computeLaplacian heat dist w nb
      = (laplacianL nb (fun i a => heat (-(dist i (nb i a)) ^ 2 / w)),
         degrees nb (fun i a => heat (-(dist i (nb i a)) ^ 2 / w))) := by
  have : heats heat dist w nb = fun i a => heat (-(dist i (nb i a)) ^ 2 / w) := by
    funext i a; exact heats_eq heat dist w nb i a
  simp only [computeLaplacian, this]

theorem laplacian_symm (nb : Fin N → Fin k → Fin N) (h : Mat N k K) :
    (Mat.toM (laplacianL nb h))ᵀ = Mat.toM (laplacianL nb h) :=
  laplacianL_symm nb h

/-- the constant vector is in the kernel: `L 1 = 0` -/
theorem laplacian_mulVec_one (nb : Fin N → Fin k → Fin N) (h : Mat N k K) :
    (Mat.toM (laplacianL nb h)).mulVec (fun _ => 1) = 0 :=
  laplacianL_mulVec_one nb h

/-- `xᵀ L x = Σ_i Σ_a h_{i,a} (x_i − x_{nb i a})²` -/
theorem laplacian_quadratic_form (nb : Fin N → Fin k → Fin N) (h : Mat N k K) (x : Fin N → K) :
    x ⬝ᵥ ((Mat.toM (laplacianL nb h)).mulVec x) = ∑ i, ∑ a, h i a * (x i - x (nb i a)) ^ 2 :=
  laplacianL_quadratic nb h x

end laplacian

section laplacianOrdered
variable {K : Type} [Field K] [LinearOrder K] [IsStrictOrderedRing K] {N k : Nat}

/-- non-negative heat values ⇒ `L` is positive semidefinite -/
theorem laplacian_psd (nb : Fin N → Fin k → Fin N) (h : Mat N k K) (hh : ∀ i a, 0 ≤ h i a) (x : Fin N → K) :
    0 ≤ x ⬝ᵥ ((Mat.toM (laplacianL nb h)).mulVec x) :=
  laplacianL_psd nb h hh x

/-- positive heat values and at least one neighbour ⇒ every degree is positive (`D` is a valid right-hand side) -/
theorem degrees_pos (nb : Fin N → Fin k → Fin N) (h : Mat N k K) (hk : 0 < k) (hh : ∀ i a, 0 < h i a) (i : Fin N) :
    0 < degrees nb h i :=
  degrees_pos' nb h hk hh i

end laplacianOrdered

/-! Non-vacuity (A): three samples, two neighbours each; `0 ↔ 1` are mutual neighbours, sample `2` lists `0` twice. -/

/-- example neighbour lists -/
def exNb : Fin 3 → Fin 2 → Fin 3 := fun i a =>
  if i = 0 then (if a = 0 then 1 else 2) else if i = 1 then (if a = 0 then 0 else 2) else 0

/-- example heat values (all positive) -/
def exH : Mat 3 2 ℚ := fun i a => 1 / ((i.1 : ℚ) + (a.1 : ℚ) + 1)

example : ∀ i a, 0 < exH i a := fun i a => by unfold exH; positivity
example : ∀ i a, 0 ≤ exH i a := fun i a => by unfold exH; positivity
example : (0 : Nat) < 2 := by decide
/-- the mutual pair `0 ↔ 1` is counted twice (sum, not max): `L 0 1 = −(h 0 0 + h 1 0)` -/
example : laplacianL exNb exH 0 1 = -(1 + 1 / 2) := by decide +kernel
/-- a neighbour listed twice is counted twice, plus the reverse edge `0 → 2`: `L 2 0 = −((h 2 0 + h 2 1) + h 0 1)` -/
example : laplacianL exNb exH 2 0 = -((1 / 3 + 1 / 4) + 1 / 2) := by decide +kernel
/-- a one-directional edge `1 → 2` still appears in both `L 1 2` and `L 2 1` -/
example : laplacianL exNb exH 1 2 = -(1 / 3) ∧ laplacianL exNb exH 2 1 = -(1 / 3) := by decide +kernel
example : degrees exNb exH 0 = (1 + 1 / 2) + (1 / 2 + 1 / 3 + 1 / 4) := by decide +kernel
example : (laplacianLD exNb exH).get 0 0 = 31 / 12 := by decide +kernel

/-!
## B. Diffusion matrix
`K0 = kernel0 heat dist w`, `p = colSums K0`, `K1 = kernel1 heat dist w = normBy K0 p` (`= P⁻¹ K0 P⁻¹`),
`q = qVec heat dist w = colSums K1`, `s = sVec heat sqrtO dist w = fun i => sqrtO (q i)`,
`markov heat dist w i j = K1 i j / q i` (definitions: `Proofs/LaplacianDiffusion.lean`, unfolded by `rfl` below).
-/
section diffusion
variable {K : Type} [Field K] {N : Nat}

/-- (definitional: holds by unfolding the transcribed model)
    the abbreviations used below are exactly these model terms -/
theorem diffusion_abbreviations (heat sqrtO : K → K) (dist : Mat N N K) (w : K) :
    kernel1 heat dist w = normBy (kernel0 heat dist w) (colSums (kernel0 heat dist w))
    ∧ qVec heat dist w = colSums (kernel1 heat dist w)
    ∧ sVec heat sqrtO dist w = (fun i => sqrtO (qVec heat dist w i))
    ∧ markov heat dist w = (fun i j => kernel1 heat dist w i j / qVec heat dist w i) :=
  ⟨rfl, rfl, rfl, rfl⟩

/-- (definitional: holds by unfolding the transcribed model)
    `compute_diffusion_matrix` returns `Q^{-1/2} (P⁻¹ K0 P⁻¹) Q^{-1/2}` -/
theorem diffusion_is_normalised_operator (heat sqrtO : K → K) (dist : Mat N N K) (w : K) :
    diffusionMatrix heat sqrtO dist w
      = normBy (normBy (kernel0 heat dist w) (colSums (kernel0 heat dist w)))
          (fun i => sqrtO (colSums (normBy (kernel0 heat dist w) (colSums (kernel0 heat dist w))) i)) :=
  diffusionMatrix_unfold heat sqrtO dist w

/-- entrywise: `T i j = K0 i j / (p i p j) / (s i s j)` -/
theorem diffusion_entry (heat sqrtO : K → K) (dist : Mat N N K) (w : K) (i j : Fin N) :
    diffusionMatrix heat sqrtO dist w i j
      = kernel0 heat dist w i j / (colSums (kernel0 heat dist w) i * colSums (kernel0 heat dist w) j)
          / (sVec heat sqrtO dist w i * sVec heat sqrtO dist w j) := by
  rw [diffusionMatrix_eq]; rfl

theorem sqrtQD_get (heat sqrtO : K → K) (dist : Mat N N K) (w : K) :
    (sqrtQD heat sqrtO dist w).get = sVec heat sqrtO dist w :=
  sqrtQD_get' heat sqrtO dist w

/-- no hypothesis on `dist`: only the upper-triangle callback values are used, and mirrored -/
theorem kernel0_symm (heat : K → K) (dist : Mat N N K) (w : K) (i j : Fin N) :
    kernel0 heat dist w i j = kernel0 heat dist w j i :=
  kernel0_symm' heat dist w i j

/-- only the callback values `dist i j` with `i ≤ j` are read -/
theorem kernel0_upper_only (heat : K → K) (dist dist' : Mat N N K) (w : K)
    (h : ∀ i j, i ≤ j → dist i j = dist' i j) : kernel0 heat dist w = kernel0 heat dist' w := by
  funext i j
  unfold kernel0
  by_cases hij : i ≤ j
  · simp only [hij, if_true, h i j hij]
  · simp only [hij, if_false, h j i (le_of_not_ge hij)]

theorem diffusionMatrix_symm (heat sqrtO : K → K) (dist : Mat N N K) (w : K) (i j : Fin N) :
    diffusionMatrix heat sqrtO dist w i j = diffusionMatrix heat sqrtO dist w j i :=
  diffusionMatrix_symm' heat sqrtO dist w i j

/-- the top eigenpair of the returned matrix is `(1, √q)` -/
theorem diffusion_top_eigenpair (heat sqrtO : K → K) (dist : Mat N N K) (w : K)
    (hs : ∀ i, sqrtO (qVec heat dist w i) * sqrtO (qVec heat dist w i) = qVec heat dist w i)
    (hs0 : ∀ i, sqrtO (qVec heat dist w i) ≠ 0) :
    (Mat.toM (diffusionMatrix heat sqrtO dist w)).mulVec (sVec heat sqrtO dist w) = sVec heat sqrtO dist w :=
  diffusion_top heat sqrtO dist w hs hs0

/-- `P = Q⁻¹ K1` is row-stochastic -/
theorem diffusion_markov (heat : K → K) (dist : Mat N N K) (w : K) (i : Fin N) (hq : qVec heat dist w i ≠ 0) :
    ∑ j, markov heat dist w i j = 1 :=
  markov_row_sum heat dist w i hq

/-- eigenvectors `φ` of the returned symmetric matrix give the right eigenvectors `ψ = Q^{-1/2} φ` of the diffusion
    operator `P`, same eigenvalue -/
theorem diffusion_conjugate (heat sqrtO : K → K) (dist : Mat N N K) (w : K)
    (hs : ∀ i, sqrtO (qVec heat dist w i) * sqrtO (qVec heat dist w i) = qVec heat dist w i)
    (hs0 : ∀ i, sqrtO (qVec heat dist w i) ≠ 0)
    (φ : Fin N → K) (lam : K)
    (hT : (Mat.toM (diffusionMatrix heat sqrtO dist w)).mulVec φ = lam • φ) :
    (markov heat dist w).mulVec (fun i => φ i / sVec heat sqrtO dist w i)
      = lam • (fun i => φ i / sVec heat sqrtO dist w i) :=
  diffusion_conj heat sqrtO dist w hs hs0 φ lam hT

end diffusion

/-! Non-vacuity (B): three equidistant samples, `heat x = 1/(1 − 3x/5)` (positive and increasing on `x ≤ 0`,
`heat 0 = 1`), width 1: `K0 = [[1, 5/8, 5/8], …]`, `p = 9/4`, `q = 4/9`, `s = 2/3`. -/

def exHeat : ℚ → ℚ := fun x => 1 / (1 - 3 * x / 5)
def exDist : Mat 3 3 ℚ := fun i j => if i = j then 0 else 1
def exSqrt : ℚ → ℚ := fun x => if x = 4 / 9 then 2 / 3 else 0

example : ∀ i, qVec exHeat exDist 1 i = 4 / 9 := by decide +kernel
example : ∀ i, qVec exHeat exDist 1 i ≠ 0 := by decide +kernel
example : ∀ i, exSqrt (qVec exHeat exDist 1 i) * exSqrt (qVec exHeat exDist 1 i) = qVec exHeat exDist 1 i := by
  decide +kernel
example : ∀ i, exSqrt (qVec exHeat exDist 1 i) ≠ 0 := by decide +kernel
example : ∀ i j, diffusionMatrix exHeat exSqrt exDist 1 i j = if i = j then 4 / 9 else 5 / 18 := by decide +kernel
/-- a non-trivial eigenpair meeting the hypothesis of `diffusion_conjugate` -/
example : (Mat.toM (diffusionMatrix exHeat exSqrt exDist 1)).mulVec ![1, -1, 0] = (1 / 6 : ℚ) • ![1, -1, 0] := by
  decide +kernel

/-!
## C. Diffusion-map coordinates
`V` holds the `d+1` eigenvectors of the largest eigenvalues in ascending order (column `d` = the largest), `lam` their
eigenvalues, `t` = `timesteps`.
-/
section coordinates
variable {K : Type} [Field K] {N d : Nat}

theorem npowK_eq_pow (x : K) (t : Nat) : npowK x t = x ^ t := npowK_eq_pow' x t

/-- (definitional: holds by unfolding the transcribed model)
    `dmPost = λ_c^t ψ_c(i) / ψ_0(i)` with `ψ = V / s` (for `s = √q`: the right eigenvectors of the diffusion operator) -/
theorem dm_coordinates (V : Mat N (d + 1) K) (lam : Vec (d + 1) K) (t : Nat) (s : Vec N K) (hs : ∀ i, s i ≠ 0)
    (i : Fin N) (c : Fin d) :
    dmPost V lam t i c = lam c.castSucc ^ t * ((V i c.castSucc / s i) / (V i (Fin.last d) / s i)) :=
  dmPost_coordinates V lam t s hs i c

/-- (definitional: holds by unfolding the transcribed model)
    `timesteps` enters only as the exponent of the eigenvalue of the same column -/
theorem dm_timesteps_only_exponent (V : Mat N (d + 1) K) (lam : Vec (d + 1) K) (t : Nat) (i : Fin N) (c : Fin d) :
    dmPost V lam t i c = dmPost V lam 0 i c * lam c.castSucc ^ t :=
  dmPost_timesteps V lam t i c

/-- if the last column is the trivial eigenvector `κ √q`, then `ψ_0` is the constant `κ` and the coordinates are
    `λ_c^t ψ_c(i) / κ` (`κ ≠ 0` is not needed for the identity: both sides are `0` when `κ = 0`) -/
theorem dm_coordinates_trivial (V : Mat N (d + 1) K) (lam : Vec (d + 1) K) (t : Nat) (s : Vec N K) (κ : K)
    (hs : ∀ i, s i ≠ 0) (hκ : ∀ i, V i (Fin.last d) = κ * s i) (i : Fin N) (c : Fin d) :
    V i (Fin.last d) / s i = κ ∧ dmPost V lam t i c = lam c.castSucc ^ t * (V i c.castSucc / s i) / κ :=
  ⟨by rw [hκ i, mul_div_assoc, div_self (hs i), mul_one], dmPost_trivial V lam t s κ hκ i c⟩

end coordinates

/-! Non-vacuity (C): two samples, `d = 1`; the last column is `3 · s`. -/
def exV : Mat 2 2 ℚ := fun i c => if c = 1 then 3 * ((i.1 : ℚ) + 1) else (if i = 0 then 5 else -7)
def exS : Vec 2 ℚ := fun i => (i.1 : ℚ) + 1

example : ∀ i, exS i ≠ 0 := by decide +kernel
example : ∀ i, exV i (Fin.last 1) = 3 * exS i := by decide +kernel
example : (3 : ℚ) ≠ 0 := by decide +kernel
example : dmPost exV (fun _ => 1 / 2) 3 1 0 = (1 / 2) ^ 3 * (-7 / 2) / 3 := by decide +kernel

/-! ## Spectral part (eigensolver contract `GenEigSystem` as hypothesis; `Proofs/SpectralLocal.lean`) -/

section Spectral
open TapkeeVerif.SpectralLocal
variable {K : Type} [Field K] [LinearOrder K] [IsStrictOrderedRing K]


/-- **Laplacian Eigenmaps solves its generalised eigenproblem** (`generalized_eigendecomposition(SmallestEigenvalues)`
    on `(L, D)`, skip = 1).  If `(V, lam)` is a full `D`-orthonormal eigensystem of the pencil `(L, D)` with ascending
    eigenvalues (contract of `Eigen::GeneralizedSelfAdjointEigenSolver`) whose first eigenvector is constant
    (`laplacian_mulVec_one`: `L 1 = 0`), then the returned columns `Y` = eigenvectors `1 … d` satisfy
    `L y = lam D y`, `Yᵀ D Y = 1`, `Yᵀ D 1 = 0`, and they **minimise `tr(Zᵀ L Z)` among all `Z` with `Zᵀ D Z = 1`,
    `Zᵀ D 1 = 0`** — the `d` smallest non-trivial generalised eigenvalues (`kyFan_min` in the `D`-inner product). -/
theorem le_solution {n d : Nat} (L V : Matrix (Fin n) (Fin n) K) (dg lam : Fin n → K)
    (h : GenEigSystem L (Matrix.diagonal dg) V lam) (hd : 1 + d ≤ n) (κ : K) (hκ : κ ≠ 0)
    (hconst : ∀ i, V i ⟨0, by omega⟩ = κ) :
    (∀ c, L.mulVec (fun i => cols V (shiftIdx 1 hd) i c)
        = lam (shiftIdx 1 hd c) • (Matrix.diagonal dg).mulVec (fun i => cols V (shiftIdx 1 hd) i c)) ∧
    (cols V (shiftIdx 1 hd))ᵀ * Matrix.diagonal dg * cols V (shiftIdx 1 hd) = 1 ∧
    (∀ c, ∑ i, dg i * cols V (shiftIdx 1 hd) i c = 0) ∧
    Matrix.trace ((cols V (shiftIdx 1 hd))ᵀ * L * cols V (shiftIdx 1 hd)) = ∑ c, lam (shiftIdx 1 hd c) ∧
    ∀ Z : Matrix (Fin n) (Fin d) K, Zᵀ * Matrix.diagonal dg * Z = 1 → (∀ c, ∑ i, dg i * Z i c = 0) →
      Matrix.trace ((cols V (shiftIdx 1 hd))ᵀ * L * cols V (shiftIdx 1 hd)) ≤ Matrix.trace (Zᵀ * L * Z) := by
  have hinj := shiftIdx_injective (d := d) (n := n) 1 hd
  have hrow0 : ∀ (Z : Matrix (Fin n) (Fin d) K) (c : Fin d),
      (Vᵀ * Matrix.diagonal dg * Z) ⟨0, by omega⟩ c = κ * ∑ i, dg i * Z i c := by
    intro Z c
    rw [Matrix.mul_assoc, Matrix.mul_apply, Finset.mul_sum]
    apply Finset.sum_congr rfl
    intro i _
    rw [Matrix.transpose_apply, hconst, Matrix.diagonal_mul]
  refine ⟨fun c => eigen_equation_col h _, cols_orthonormal h _ hinj, ?_, cols_trace h _ hinj, ?_⟩
  · intro c
    have h0 := congrFun (congrFun h.orth ⟨0, by omega⟩) (shiftIdx 1 hd c)
    have hne : (⟨0, by omega⟩ : Fin n) ≠ shiftIdx 1 hd c := by
      intro hh
      have := congrArg Fin.val hh
      simp only [shiftIdx] at this
      omega
    rw [Matrix.one_apply, if_neg hne] at h0
    have h1 : (Vᵀ * Matrix.diagonal dg * V) ⟨0, by omega⟩ (shiftIdx 1 hd c)
        = κ * ∑ i, dg i * V i (shiftIdx 1 hd c) := by
      rw [Matrix.mul_assoc, Matrix.mul_apply, Finset.mul_sum]
      apply Finset.sum_congr rfl
      intro i _
      rw [Matrix.transpose_apply, hconst, Matrix.diagonal_mul]
    rw [h1] at h0
    rcases mul_eq_zero.mp h0 with h2 | h2
    · exact absurd h2 hκ
    · exact h2
  · intro Z hZ hZ1
    apply bottom_after_skip h 1 hd Z hZ
    intro j hj c
    have hj0 : j = ⟨0, by omega⟩ := Fin.ext (by show j.1 = 0; omega)
    rw [hj0, hrow0 Z c, hZ1 c, mul_zero]

/-- non-vacuity of `le_solution`: the 2-vertex graph `L = !![1,-1;-1,1]` with degrees `D = diag(2,2)` has the
    `D`-orthonormal eigensystem `V = ½ !![1,1;1,-1]`, `lam = (0, 1)`, constant first eigenvector (`κ = ½`), `d = 1` -/
example : GenEigSystem (!![1, -1; -1, 1] : Matrix (Fin 2) (Fin 2) ℚ) (Matrix.diagonal ![2, 2])
      ((1 / 2 : ℚ) • !![1, 1; 1, -1]) ![0, 1]
    ∧ (∀ i, ((1 / 2 : ℚ) • (!![1, 1; 1, -1] : Matrix (Fin 2) (Fin 2) ℚ)) i ⟨0, by omega⟩ = 1 / 2) := by
  refine ⟨⟨?_, ?_, ?_⟩, ?_⟩
  · ext i j
    fin_cases i <;> fin_cases j <;> simp [Matrix.mul_apply, Fin.sum_univ_two] <;> norm_num
  · ext i j
    fin_cases i <;> fin_cases j <;> simp [Matrix.mul_apply, Fin.sum_univ_two] <;> norm_num
  · intro a b hab
    fin_cases a <;> fin_cases b <;> simp_all
  · intro i
    fin_cases i <;> simp


/-- **The skipped generalised eigenvector is the constant vector whenever the eigenvalue 0 is simple** (connected
    neighbourhood graph).  `L 1 = 0` (`laplacian_mulVec_one`) and `0` occurs among the eigenvalues only at index 0
    ⇒ column 0 of `V` is a non-zero constant: the hypothesis `hconst` of `le_solution`. -/
theorem skipped_eigenvector_is_constant {n : Nat} (hn : 0 < n) (L V : Matrix (Fin n) (Fin n) K) (dg lam : Fin n → K)
    (h : GenEigSystem L (Matrix.diagonal dg) V lam) (hL1 : L.mulVec (fun _ => (1 : K)) = 0)
    (hsimple : ∀ j : Fin n, j.1 ≠ 0 → lam j ≠ 0) :
    ∃ κ : K, κ ≠ 0 ∧ ∀ i, V i ⟨0, hn⟩ = κ := by
  have hx : L.mulVec (fun _ => (1 : K)) = (0 : K) • (Matrix.diagonal dg).mulVec (fun _ => (1 : K)) := by
    rw [hL1, zero_smul]
  have hx0 : (fun _ : Fin n => (1 : K)) ≠ 0 := by
    intro h0
    have := congrFun h0 ⟨0, hn⟩
    simp at this
  obtain ⟨κ, hκ, hV⟩ := col_of_simple_eigenvalue h (fun _ => (1 : K)) 0 hx hx0 ⟨0, hn⟩
    (fun j hj => hsimple j (fun hj0 => hj (Fin.ext hj0)))
  exact ⟨κ, hκ, fun i => by rw [hV i, mul_one]⟩

/-! ### soundness of the inertia count every spectral verdict of the run-time certificate rests on
(`Model/CertGen.lean: belowCount` = the exact rational LDLᵀ `Cert.inertiaPos` of `Model/Cert.lean` on `σ·B − A`;
proofs: `Proofs/CertGenSound.lean` on top of `Proofs/Inertia.inertiaPos_sound`) -/

/-- if the elimination of `S` closes with `p` positive pivots, `S` is positive definite on no family of more than `p`
    independent directions -/
theorem belowCount_sound {n : Nat} (S : Mat n n ℚ) (p : Nat) (h : TapkeeVerif.Cert.belowCount S = some p)
    {m : Type} [Fintype m] (W : Matrix (Fin n) m ℚ)
    (hpos : ∀ c : m → ℚ, c ≠ 0 → 0 < (W *ᵥ c) ⬝ᵥ (Mat.toM S *ᵥ (W *ᵥ c))) :
    Fintype.card m ≤ p :=
  TapkeeVerif.Cert.belowCount_sound S p h W hpos

/-- `belowCount (σ·B − A) = some p` ⇒ the pencil `(A, B)` has at most `p` eigenvalues below `σ` -/
theorem belowCount_bounds_eigenvalues {n : Nat} {A B V : Matrix (Fin n) (Fin n) ℚ} {lam : Fin n → ℚ}
    (h : GenEigSystem A B V lam) (σ : ℚ) (p : Nat)
    (hc : TapkeeVerif.Cert.belowCount (fun i j => σ * B i j - A i j) = some p) :
    (Finset.univ.filter fun j => lam j < σ).card ≤ p :=
  TapkeeVerif.Cert.belowCount_bounds_eigenvalues h σ p hc

/-- the form the certificate uses: with `p ≤ m`, every eigenvalue of index `≥ m` is `≥ σ` — so `m` approximate
    eigenvectors with Rayleigh quotients below `σ` account for ALL eigenvalues below `σ`: they are the `m` smallest -/
theorem bottom_certified {n : Nat} {A B V : Matrix (Fin n) (Fin n) ℚ} {lam : Fin n → ℚ}
    (h : GenEigSystem A B V lam) (σ : ℚ) (p m : Nat)
    (hc : TapkeeVerif.Cert.belowCount (fun i j => σ * B i j - A i j) = some p) (hpm : p ≤ m) :
    ∀ j : Fin n, m ≤ j.1 → σ ≤ lam j :=
  TapkeeVerif.Cert.bottom_certified h σ p m hc hpm

end Spectral

/-! ## Diffusion Map solves its spectral problem (analogue of `le_solution`)

`T = diffusionMatrix heat sqrtO dist w` (the model matrix), the sqrt contract `s i * s i = q i`, `s i ≠ 0`, and the
eigensolver contract: `(Vf, lam)` a full orthonormal ascending eigensystem of `T` (`GenEigSystem T 1 Vf lam`).
`topIdx hd c = N−d−1+c` are the indices of the `d+1` largest eigenvalues, i.e. the columns
`eigendecomposition(LargestEigenvalues, d+1)` returns (ascending, so the trivial pair is last). -/
section DiffusionSolution
open TapkeeVerif.SpectralLocal
variable {K : Type} [Field K] [LinearOrder K] [IsStrictOrderedRing K] {N d : Nat}

/-- **Diffusion Map returns `λ_c^t ψ_c / ψ_0` for the `d` leading non-trivial eigenpairs of the diffusion operator.**
    If the top eigenvalue `1` of `T` is simple, then there is `κ ≠ 0` with
    (i)   the last column of `Vf` is `κ √q` (the trivial eigenvector) and its eigenvalue is `1`;
    (ii)  the returned coordinates are `dmPost V lamV t i c = lamV_c^t · ψ_c(i) / κ` with `ψ_c = V_c / √q` and `ψ_0 = κ`;
    (iii) every `ψ_c` is a right eigenvector of the row-stochastic operator `P = Q⁻¹ K1` (`markov`) for `lamV_c`;
    (iv)  the selected eigenvalues are the `d` largest below the trivial one: every eigenvalue outside the selected
          block is `≤` every selected one, and all eigenvalues are `≤ 1`. -/
theorem dm_solution (heat sqrtO : K → K) (dist : Mat N N K) (w : K)
    (hs : ∀ i, sqrtO (qVec heat dist w i) * sqrtO (qVec heat dist w i) = qVec heat dist w i)
    (hs0 : ∀ i, sqrtO (qVec heat dist w i) ≠ 0)
    (hd : d + 1 ≤ N) (Vf : Matrix (Fin N) (Fin N) K) (lam : Fin N → K)
    (h : GenEigSystem (Mat.toM (diffusionMatrix heat sqrtO dist w)) 1 Vf lam)
    (hsimple : ∀ j : Fin N, j.1 ≠ N - 1 → lam j ≠ 1) (t : Nat) :
    ∃ κ : K, κ ≠ 0 ∧
      (∀ i, Vf i (topIdx hd (Fin.last d)) = κ * sVec heat sqrtO dist w i) ∧
      lam (topIdx hd (Fin.last d)) = 1 ∧
      (∀ (i : Fin N) (c : Fin d),
        dmPost (cols Vf (topIdx hd)) (fun c => lam (topIdx hd c)) t i c
          = lam (topIdx hd c.castSucc) ^ t * (Vf i (topIdx hd c.castSucc) / sVec heat sqrtO dist w i) / κ) ∧
      (∀ c : Fin d,
        (markov heat dist w).mulVec (fun i => Vf i (topIdx hd c.castSucc) / sVec heat sqrtO dist w i)
          = lam (topIdx hd c.castSucc) • (fun i => Vf i (topIdx hd c.castSucc) / sVec heat sqrtO dist w i)) ∧
      (∀ j : Fin N, j.1 < N - (d + 1) → ∀ c, lam j ≤ lam (topIdx hd c)) ∧
      (∀ j : Fin N, lam j ≤ 1) :=
  dm_solution' heat sqrtO dist w hs hs0 hd Vf lam h hsimple t

/-- the selected indices are `N−d−1, …, N−1` -/
theorem dm_solution_indices (hd : d + 1 ≤ N) (c : Fin (d + 1)) : (topIdx hd c).1 = N - (d + 1) + c.1 :=
  topIdx_val hd c

end DiffusionSolution

/-! Non-vacuity of `dm_solution`: two samples, oracle values tabulated so that everything is rational:
`K0 = [[8, 1/2], [1/2, 15/4]]`, `p = (17/2, 17/4)`, `q = (36/289, 64/289)`, `s = (6/17, 8/17)`,
`T = [[8/9, 1/12], [1/12, 15/16]]` with the orthonormal eigensystem `(4/5, −3/5) ↦ 119/144`, `(3/5, 4/5) ↦ 1`
(`κ = 17/10`), `d = 1`. -/
def exHeat2 : ℚ → ℚ := fun x => if x = -1 then 8 else if x = -4 then 1 / 2 else 15 / 4
def exDist2 : Mat 2 2 ℚ := fun i j => (i.1 : ℚ) + (j.1 : ℚ) + 1
def exSqrt2 : ℚ → ℚ := fun x => if x = 36 / 289 then 6 / 17 else if x = 64 / 289 then 8 / 17 else 0
def exVf : Matrix (Fin 2) (Fin 2) ℚ := fun i j => if i = j then 4 / 5 else if i = 0 then 3 / 5 else -3 / 5

example : ∀ i j, diffusionMatrix exHeat2 exSqrt2 exDist2 1 i j
    = if i = j then (if i = 0 then 8 / 9 else 15 / 16) else 1 / 12 := by decide +kernel
example : ∀ i, exSqrt2 (qVec exHeat2 exDist2 1 i) * exSqrt2 (qVec exHeat2 exDist2 1 i) = qVec exHeat2 exDist2 1 i := by
  decide +kernel
example : ∀ i, exSqrt2 (qVec exHeat2 exDist2 1 i) ≠ 0 := by decide +kernel
example : (1 : Nat) + 1 ≤ 2 := by decide
example : SpectralLocal.GenEigSystem (Mat.toM (diffusionMatrix exHeat2 exSqrt2 exDist2 1)) 1 exVf ![119 / 144, 1] :=
  ⟨by decide +kernel, by decide +kernel, by decide +kernel⟩
example : ∀ j : Fin 2, j.1 ≠ 2 - 1 → (![119 / 144, 1] : Fin 2 → ℚ) j ≠ 1 := by decide +kernel



end TapkeeVerif.C09
