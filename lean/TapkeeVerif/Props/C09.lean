import TapkeeVerif.Model.Laplacian
import TapkeeVerif.Model.Diffusion
/-! C09 property theorems (skeleton; filled in as the proofs land). -/
namespace TapkeeVerif.C09

theorem heatArg_agree (d w : Int) : (-d) * d / w = (-(d * d)) / w := by
  rw [Int.neg_mul]

end TapkeeVerif.C09
