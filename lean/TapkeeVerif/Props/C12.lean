import TapkeeVerif.Proofs.Equivariance
import TapkeeVerif.Gen.Statics
/-!
# C12 — embeddings are equivariant to sample order, rigid motion, scale, and independent of call history

Subjects: the stage definitions of `Model/Equivariance.lean` (transcribed from `utils/matrix.hpp`,
`routines/multidimensional_scaling.hpp`, `routines/pca.hpp`, `utils/sparse.hpp`, `neighbors/connected.hpp`; tied to
the code on every run by `checks/c12.py`: exact-mode pre-matrices and the internal stages are compared with the
running implementation) and the generated table `Gen/Statics.lean`.

All theorems hold for every number of samples `n`, every permutation `π : Equiv.Perm (Fin n)` (new sample `i` is old
sample `π i`) and every ordered field `K` (in particular ℚ, where the driver evaluates the same terms, and ℝ).
The eigensolver and `sqrt` enter as parameters with contracts (`IsTopEig`, `s ≥ 0 ∧ s² = λ`).

## Which clause of the property is proved at which level (and which is covered by tests only)

| clause | proved here / in `Props/C12b.lean` | tests only (`checks/c12.py` pairs) |
|---|---|---|
| sample order | pre-matrices of MDS, KPCA (here), PCA, Isomap after Dijkstra (C12b `pcaPre_c06_perm`, `isomapPre_perm`), k-NN lists (`brute_perm`), geodesics (`dijkstra_perm`), triplet assembly, connectivity decision, eigen-system contract (`topEig_perm`, `bottomEig_perm`, C12b `spectralTopEig_perm`) | weight / Laplacian / diffusion matrices of KLLE, KLTSA, HLLE, LE, DM and the feature-space assembly of NPE, LLTSA, LPP (their models belong to C08–C10); cover-tree and VP-tree searches (C02 proves exactness, from which order independence of the *distance lists* follows; the lists themselves only by tests) |
| rotation / reflection | every kernel value and every distance is unchanged (`gram_rigid`, `sqEuclid_rigid`): MDS, Isomap, LE, DM, KPCA, KLLE, KLTSA, HLLE see the data through these callbacks only, so their whole computation is unchanged | PCA, NPE, LLTSA, LPP (feature-space eigenproblems transform by `R · Rᵀ`; not stated) |
| translation | distances (`sqEuclid_rigid`): MDS, Isomap, LE, DM; centred kernel matrix (`center_translation`): KPCA; covariance (C12b `pcaPre_c06_translation`): PCA; for KLLE, KLTSA, HLLE, LLTSA the three expressions through which they read the kernel — neighbour-search distance, KLLE local Gram, centred local Gram — (`kernelDistance_translation`, `lleLocalGram_translation`, `localCenteredGram_translation`) | LLTSA's feature-space assembly `X H W H Xᵀ` (F-LLTSA-SHIFT was found by the tests, not by a theorem); NPE, LPP are excluded by the property |
| scale | MDS (`mdsPre_scale`), linear KPCA (`kpcaPre_scale`), PCA (C12b `pcaPre_c06_scale`), Isomap (C12b `dijkstra_scale`, `isomapPre_scale`), eigen-system and embedding (`topEig_scale`, `embedding_scale`) | — |
| call history | `statics_constant_or_accepted` (every static object of tapkee / stichwort / src/cli headers is a constant with a call-independent initialiser or in the hand-kept `acceptedStatics`), `no_hidden_state`: a **lint** — `decide` over a table produced by a trusted token-level scanner (`tools/translate_statics.py`, with its own regression snippets run on every check); the theorem says no more than "the scanner found nothing it cannot place" | the history differential (bit-identical to a fresh process) |

`IsTopEig` / `IsBottomEig` of `Model/Equivariance.lean` quantify over *eigenvectors* orthogonal to the returned ones;
C05/C06 use the stronger variational `Spectral.IsTopEig` (quadratic form on the orthogonal complement).  C12b proves
that the variational notion implies this one (`isTopEig_of_spectral`) and transports the variational notion along
permutations and non-negative scalings too (`spectralTopEig_perm`, `spectralTopEig_scale`, `spectralBottomEig_perm`).

F-CONN-DIR (the decision of `is_connected` was reachability from sample 0 along the edges only and depended on which
sample comes first; shared with C03) has been repaired in /repo: `connectivityDecision_perm` is the full statement
about the code as it now stands, `reachFromFirst_perm_refuted` keeps the Lean-checked witness against the old
decision as a regression anchor.
-/
set_option linter.unusedSectionVars false

namespace TapkeeVerif.C12
open TapkeeVerif TapkeeVerif.Equivariance

variable {K : Type} [Field K] [LinearOrder K] [IsStrictOrderedRing K] {n d D : Nat}

/-! ## sample order -/

/-- the squared-distance matrix of the re-ordered samples is the relabelled squared-distance matrix
    (`compute_distance_matrix` evaluates the callback for `j ≥ i` only, hence the symmetry hypothesis) -/
theorem sqDist_perm (π : Equiv.Perm (Fin n)) (δ : Fin n → Fin n → K) (hsym : ∀ i j, δ i j = δ j i) :
    sqDistMatrix (relabelFn π δ) = relabel π (sqDistMatrix δ) :=
  sqDistMatrix_relabel π δ hsym

/-- the symmetry hypothesis is met by a concrete non-trivial callback, and cannot be dropped -/
example : ∀ i j : Fin 3, (fun a b : Fin 3 => |(a.1 : ℚ) - b.1|) i j = (fun a b : Fin 3 => |(a.1 : ℚ) - b.1|) j i :=
  fun _ _ => abs_sub_comm _ _
example : ∃ (π : Equiv.Perm (Fin 2)) (δ : Fin 2 → Fin 2 → ℚ),
    sqDistMatrix (relabelFn π δ) ≠ relabel π (sqDistMatrix δ) := by
  refine ⟨Equiv.swap 0 1, fun a b => if a.1 < b.1 then 1 else 2, fun h => ?_⟩
  have := congrFun (congrFun h 0) 1
  simp [sqDistMatrix, relabelFn, relabel] at this
  norm_num at this

/-- `centerMatrix` (utils/matrix.hpp) commutes with a simultaneous permutation of rows and columns -/
theorem center_perm (π : Equiv.Perm (Fin n)) (A : Mat n n K) :
    centerMatrix (relabel π A) = relabel π (centerMatrix A) :=
  centerMatrix_relabel π A

/-- MDS: the matrix handed to the eigensolver for the re-ordered samples is the relabelled one -/
theorem mdsPre_perm (π : Equiv.Perm (Fin n)) (δ : Fin n → Fin n → K) (hsym : ∀ i j, δ i j = δ j i) :
    mdsPre (sqDistMatrix (relabelFn π δ)) = relabel π (mdsPre (sqDistMatrix δ)) := by
  funext i j
  unfold mdsPre
  rw [sqDist_perm π δ hsym, center_perm]
  rfl

/-- Kernel PCA: same for the centred kernel matrix -/
theorem kpcaPre_perm (π : Equiv.Perm (Fin n)) (κ : Fin n → Fin n → K) (hsym : ∀ i j, κ i j = κ j i) :
    kpcaPre (relabelFn π κ) = relabel π (kpcaPre κ) := by
  unfold kpcaPre
  rw [kernelMatrix_relabel π κ hsym, center_perm]

/-- if `(V, λ)` is a top eigen-system of `B` then `(ΠV, λ)` is one of `ΠBΠᵀ` -/
theorem topEig_perm (π : Equiv.Perm (Fin n)) {B : Mat n n K} {V : Mat n d K} {lam : Vec d K}
    (h : IsTopEig B V lam) : IsTopEig (relabel π B) (permRows π V) lam :=
  isTopEig_relabel π h

/-- the same for the methods that select the smallest eigenvalues (KLLE, KLTSA, HLLE, Laplacian eigenmaps, NPE,
    LLTSA, LPP): `(V, λ)` bottom eigen-system of `B` ⇒ `(ΠV, λ)` bottom eigen-system of `ΠBΠᵀ` -/
theorem bottomEig_perm (π : Equiv.Perm (Fin n)) {B : Mat n n K} {V : Mat n d K} {lam : Vec d K}
    (h : IsBottomEig B V lam) : IsBottomEig (relabel π B) (permRows π V) lam :=
  isBottomEig_relabel π h

/-- non-vacuity: a concrete top eigen-system (B = diag(2,1), V = e₀, λ = 2) -/
example : IsTopEig (K := ℚ) (n := 2) (d := 1) (fun i j => if i = j then (if i = 0 then 2 else 1) else 0)
    (fun i _ => if i = 0 then 1 else 0) (fun _ => 2) := by
  refine ⟨⟨fun i c => ?_, fun c c' => ?_⟩, fun μ w hw hev horth c => ?_⟩
  · fin_cases i <;> simp [sumFin, List.finRange]
  · have : c = c' := Subsingleton.elim _ _
    simp [sumFin, List.finRange, this]
  · have h0 : w 0 = 0 := by simpa [sumFin, List.finRange] using horth 0
    have h1 : w 1 = μ * w 1 := by simpa [sumFin, List.finRange] using hev 1
    obtain ⟨i, hi⟩ := hw
    have hw1 : w 1 ≠ 0 := by
      fin_cases i
      · exact absurd h0 hi
      · exact hi
    have h2 : (μ - 1) * w 1 = 0 := by linarith [h1]
    have : μ = 1 := by
      rcases mul_eq_zero.mp h2 with h | h
      · linarith
      · exact absurd h hw1
    rw [this]
    norm_num

/-- hence the embedding `V·diag(s)` of the re-ordered samples can be taken to be the re-ordered embedding, and
    its pairwise distances are the relabelled pairwise distances (this is the level the check compares at) -/
theorem embedding_perm (π : Equiv.Perm (Fin n)) (V : Mat n d K) (s : Vec d K) :
    embedOf (permRows π V) s = permRows π (embedOf V s) ∧
    rowSqDist (embedOf (permRows π V) s) = relabel π (rowSqDist (embedOf V s)) :=
  ⟨rfl, rfl⟩

/-- triplet assembly (`sparse_matrix_from_triplets`) commutes with renaming the samples
    (`q` renames: old index `a` is now called `q a`) … -/
theorem fromTriplets_perm (q : Equiv.Perm (Fin n)) (ts : List (Triplet n K)) :
    fromTriplets (ts.map (renameTriplet q)) = relabel q.symm (fromTriplets ts) := by
  funext i j
  exact fromTriplets_rename q ts i j

/-- … and does not depend on the order in which the triplets were produced (duplicates are summed) -/
theorem fromTriplets_order {ts ts' : List (Triplet n K)} (h : ts.Perm ts') : fromTriplets ts = fromTriplets ts' :=
  fromTriplets_perm_order h

/-! ## rigid motion and translation -/

/-- rotations / reflections leave every value of the linear kernel unchanged (`R Rᵀ = 1`) -/
theorem gram_rigid (X : Mat n D K) (R : Mat D D K)
    (hR : ∀ a b, (sumFin D fun t => R a t * R b t) = if a = b then 1 else 0) :
    gram (rotate X R) = gram X :=
  gram_rotate X R hR

/-- … and therefore every squared Euclidean distance; translations leave distances unchanged as well -/
theorem sqEuclid_rigid (X : Mat n D K) (R : Mat D D K)
    (hR : ∀ a b, (sumFin D fun t => R a t * R b t) = if a = b then 1 else 0) (t : Vec D K) :
    sqEuclid (translate (rotate X R) t) = sqEuclid X := by
  rw [sqEuclid_translate]
  funext i j
  rw [sqEuclid_eq_gram, sqEuclid_eq_gram, gram_rigid X R hR]

/-- the 3-4-5 Givens rotation used by the check is orthogonal (non-vacuity of `hR`) -/
example : ∀ a b : Fin 2, (sumFin 2 fun t => (fun (i j : Fin 2) =>
      if i = 0 then (if j = 0 then (3 / 5 : ℚ) else -4 / 5) else (if j = 0 then 4 / 5 else 3 / 5)) a t *
    (fun (i j : Fin 2) => if i = 0 then (if j = 0 then (3 / 5 : ℚ) else -4 / 5) else (if j = 0 then 4 / 5 else 3 / 5)) b t)
    = if a = b then 1 else 0 := by
  intro a b
  fin_cases a <;> fin_cases b <;> norm_num [sumFin, List.finRange]

/-- the kernel matrix of translated data differs from the original one, but centring removes the shift:
    Kernel PCA with the linear kernel hands the same matrix to the eigensolver -/
theorem center_translation (X : Mat n D K) (t : Vec D K) :
    kpcaPre (gram (translate X t)) = kpcaPre (gram X) := by
  unfold kpcaPre
  rw [kernelMatrix_of_symm _ (gram_symm (translate X t)), kernelMatrix_of_symm _ (gram_symm X)]
  have h : gram (translate X t)
      = fun i j => gram X i j + (sumFin D fun c => X i c * t c) + (sumFin D fun c => X j c * t c)
          + sumFin D fun c => t c * t c := by
    funext i j
    exact gram_translate X t i j
  rw [h]
  exact centerMatrix_add_rank (gram X) (fun i => sumFin D fun c => X i c * t c) (sumFin D fun c => t c * t c)

/-- KLLE, KLTSA, HLLE, NPE, LLTSA search their neighbours with the kernel-induced distance
    `κ(l,l) − 2κ(l,r) + κ(r,r)`: for the linear kernel it is the squared Euclidean distance, unchanged by a translation -/
theorem kernelDistance_translation (X : Mat n D K) (t : Vec D K) (l r : Fin n) :
    kernelSqDist (gram (translate X t)) l r = kernelSqDist (gram X) l r ∧
    kernelSqDist (gram X) l r = sqEuclid X l r :=
  ⟨kernelSqDist_translate X t l r, kernelSqDist_gram X l r⟩

/-- KLLE / NPE: the local Gram matrix `κ(q,q) − κ(q,a) − κ(q,b) + κ(a,b)` from which the reconstruction weights are
    solved does not see a translation (any query `q`, any neighbour list) -/
theorem lleLocalGram_translation {k : Nat} (X : Mat n D K) (t : Vec D K) (q : Fin n) (nb : Fin k → Fin n) :
    lleLocalGram (gram (translate X t)) q nb = lleLocalGram (gram X) q nb :=
  lleLocalGram_translate X t q nb

/-- KLTSA / LLTSA / HLLE: the centred local Gram matrix whose eigenvectors span the local tangent space does not see
    a translation (any neighbour list) -/
theorem localCenteredGram_translation {k : Nat} (X : Mat n D K) (t : Vec D K) (nb : Fin k → Fin n) :
    localCenteredGram (gram (translate X t)) nb = localCenteredGram (gram X) nb :=
  localCenteredGram_translate X t nb

/-! ## scale -/

/-- MDS: scaling every distance by `c` scales the matrix handed to the eigensolver by `c²` -/
theorem mdsPre_scale (c : K) (δ : Fin n → Fin n → K) :
    mdsPre (sqDistMatrix fun i j => c * δ i j) = fun i j => c ^ 2 * mdsPre (sqDistMatrix δ) i j := by
  funext i j
  unfold mdsPre
  rw [sqDistMatrix_scale, centerMatrix_smul]
  ring

/-- linear Kernel PCA: scaling the data by `c` scales the centred kernel matrix by `c²` -/
theorem kpcaPre_scale (c : K) (X : Mat n D K) :
    kpcaPre (gram (scaleData c X)) = fun i j => c ^ 2 * kpcaPre (gram X) i j := by
  unfold kpcaPre
  rw [kernelMatrix_of_symm _ (gram_symm (scaleData c X)), kernelMatrix_of_symm _ (gram_symm X), gram_scale,
    centerMatrix_smul]
  funext i j
  ring

/-- if `(V, λ)` is a top eigen-system of `B` then `(V, c²λ)` is one of `c²B` -/
theorem topEig_scale (c : K) {B : Mat n n K} {V : Mat n d K} {lam : Vec d K} (h : IsTopEig B V lam) :
    IsTopEig (fun i j => c ^ 2 * B i j) V (fun k => c ^ 2 * lam k) :=
  isTopEig_scale (c ^ 2) (sq_nonneg c) h

/-- hence `Y ↦ |c|·Y`: with the same eigenvectors and the (unique) non-negative square roots of the scaled
    eigenvalues the embedding is `|c|` times the original one and its squared distances are `c²` times the
    original ones -/
theorem embedding_scale (c : K) (V : Mat n d K) (lam s s' : Vec d K)
    (hs : ∀ k, 0 ≤ s k ∧ s k * s k = lam k) (hs' : ∀ k, 0 ≤ s' k ∧ s' k * s' k = c ^ 2 * lam k) :
    embedOf V s' = (fun i k => |c| * embedOf V s i k) ∧
    rowSqDist (embedOf V s') = fun i j => c ^ 2 * rowSqDist (embedOf V s) i j := by
  have hY : embedOf V s' = fun i k => |c| * embedOf V s i k := by
    funext i k
    unfold embedOf
    have : s' k = |c| * s k :=
      sqrt_scale_unique (hs k).1 (hs' k).1 (hs k).2 (by rw [(hs' k).2]; ring)
    rw [this]
    ring
  refine ⟨hY, ?_⟩
  rw [hY, rowSqDist_scale]
  funext i j
  rw [abs_mul_abs_self]
  ring

/-! ## connectivity: what is invariant and what is not -/

/-- strong connectivity (what Dijkstra over the neighbour lists needs) does not depend on the sample order -/
theorem stronglyConnected_perm (π : Equiv.Perm (Fin n)) (G : Graph n) :
    StronglyConnected (relabelGraph π π.symm G) ↔ StronglyConnected G := by
  constructor
  · intro h a b
    have := reach_relabel π.symm (relabelGraph π π.symm G) (h (π.symm a) (π.symm b))
    rw [Equiv.symm_symm, relabelGraph_inv] at this
    simpa using this
  · intro h a b
    have := reach_relabel π G (h (π a) (π b))
    simpa using this

/-- the witness: samples 1..4 list each other, sample 0 lists 1, 2, 3 and is listed by nobody (an outlier, k = 3) -/
def outlierFirst : Graph 5 := fun i =>
  match i.1 with
  | 0 => [1, 2, 3]
  | 1 => [2, 3, 4]
  | 2 => [1, 3, 4]
  | 3 => [1, 2, 4]
  | _ => [1, 2, 3]

/-- the decision of `is_connected` (sample 0 reaches every sample along the edges and along the reversed edges —
    the code after the repair of F-CONN-DIR) does not depend on the sample order -/
theorem connectivityDecision_perm (π : Equiv.Perm (Fin n)) (G : Graph n) :
    ConnectedDecision (relabelGraph π π.symm G) ↔ ConnectedDecision G := by
  rcases Nat.eq_zero_or_pos n with h0 | hn
  · subst h0
    exact ⟨fun _ => ⟨fun h => absurd h (Nat.lt_irrefl 0), fun h => absurd h (Nat.lt_irrefl 0)⟩,
      fun _ => ⟨fun h => absurd h (Nat.lt_irrefl 0), fun h => absurd h (Nat.lt_irrefl 0)⟩⟩
  · rw [connectedDecision_iff_strong _ hn, connectedDecision_iff_strong _ hn]
    exact stronglyConnected_perm π G

/-- … and is exactly what Dijkstra over the lists needs -/
theorem connectivityDecision_strong (G : Graph n) (hn : 0 < n) : ConnectedDecision G ↔ StronglyConnected G :=
  connectedDecision_iff_strong G hn

/-- REGRESSION WITNESS (F-CONN-DIR, repaired in /repo by "connectivity check tests reachability in both edge
    directions"): reachability from sample 0 along the edges ALONE — the decision of `is_connected` before the
    repair — is not invariant under re-ordering.  With the outlier first everything is reachable from sample 0;
    after exchanging samples 0 and 4 the same graph is "not connected".  `checks/c12.py` replays this graph on the
    real `is_connected` (corpus/C12) and finds the defect again on a tree where the repair is reverted. -/
theorem reachFromFirst_perm_refuted :
    ¬ ∀ (π : Equiv.Perm (Fin 5)) (G : Graph 5), ReachFromFirst (relabelGraph π π.symm G) ↔ ReachFromFirst G := by
  intro h
  have hyes : ReachFromFirst outlierFirst := by
    intro _ b
    have hc : (reachSet outlierFirst 0).2 = true := by decide
    have hb : b ∈ (reachSet outlierFirst 0).1 := by revert b; decide
    exact (reachSet_spec outlierFirst 0 b hc).mp hb
  have hno : ¬ ReachFromFirst (relabelGraph (Equiv.swap 0 4) (Equiv.swap 0 4).symm outlierFirst) := by
    intro hr
    have hc : (reachSet (relabelGraph (Equiv.swap (0 : Fin 5) 4) (Equiv.swap (0 : Fin 5) 4).symm outlierFirst) 0).2 = true := by
      decide
    have := (reachSet_spec _ 0 4 hc).mpr (hr (by decide) 4)
    revert this
    decide
  exact hno ((h (Equiv.swap 0 4) outlierFirst).mpr hyes)

/-- the witness graph is not strongly connected (nothing reaches the outlier), in either order: the repaired
    decision answers "not connected" both times -/
example : connectedCode outlierFirst = some false ∧
    connectedCode (relabelGraph (Equiv.swap (0 : Fin 5) 4) (Equiv.swap (0 : Fin 5) 4).symm outlierFirst) = some false := by
  decide

/-- the executable decisions used by the driver are the specifications whenever their certificates hold -/
theorem reachCode_spec (G : Graph n) (b : Bool) (h : reachCode G = some b) (hn : 0 < n) :
    b = true ↔ ReachFromFirst G := by
  unfold reachCode at h
  simp only [hn, dif_pos] at h
  by_cases hc : (reachSet G ⟨0, hn⟩).2 = true
  · simp only [hc, if_true, Option.some.injEq] at h
    rw [← h, List.all_eq_true]
    constructor
    · intro hall _ x
      have := hall x (List.mem_finRange x)
      exact (reachSet_spec G ⟨0, hn⟩ x hc).mp (by simpa using this)
    · intro hr x _
      have := (reachSet_spec G ⟨0, hn⟩ x hc).mpr (hr hn x)
      simpa using this
  · simp [hc] at h

theorem connectedCode_spec (G : Graph n) (b : Bool) (h : connectedCode G = some b) (hn : 0 < n) :
    b = true ↔ ConnectedDecision G := by
  unfold connectedCode at h
  cases h1 : reachCode G with
  | none => simp [h1] at h
  | some b1 =>
    cases h2 : reachCode (reverseGraph G) with
    | none => simp [h1, h2] at h
    | some b2 =>
      simp only [h1, h2, Option.some.injEq] at h
      rw [← h, Bool.and_eq_true, reachCode_spec G b1 h1 hn, reachCode_spec (reverseGraph G) b2 h2 hn]
      rfl

/-! ## call history -/

/-- every object of static storage duration in `include/tapkee`, and every use of the C library's hidden
    generator state, is accounted for: it is immutable, or never named in a function body, or output-only (logger),
    or a verification hook, or a returned literal, or a random stream that only randomised stages consume (the VP-tree
    owns its vantage generator since F-VP-RAND; only its `CUSTOM_UNIFORM_RANDOM_FUNCTION` override branch may read the
    global stream — a rand() call anywhere else in it is not accounted for).  The table is regenerated from the source on every run: a new `static` cache gets the
    role `unknown` (or a random stream becomes reachable from a deterministic method) and this proof fails. -/
theorem no_hidden_state : ∀ o ∈ Gen.Statics.table, Statics.accounted o = true := by
  have h : Gen.Statics.table.all Statics.accounted = true := by decide
  exact List.all_eq_true.mp h

/-- non-vacuity: the table is not empty and contains mutable objects on deterministic paths -/
example : (Gen.Statics.table.filter fun o => o.isMutable && o.onDeterministicPath).length ≥ 1 := by decide

/-- a hypothetical `static` cache in a deterministic stage would not be accounted for -/
example : Statics.accounted {
    name := "cache", file := "routines/multidimensional_scaling.hpp", line := 1,
    scope := "compute_distance_matrix", decl := "static DenseMatrix cache ;", isMutable := true, role := .unknown,
    onDeterministicPath := true } = false := by decide

/-- HAND-KEPT: the objects of static storage duration that are not constants and are accepted, identified by
    (file, enclosing function, name).  `checks/c12.py` reads this list from the source text of this file (the lines
    between the two markers) to name the offending object when the theorem below breaks.

    * `config` — documented process-wide settings: the logger singleton, the three `-DTAPKEE_VERIF` observer slots,
      the seedable shuffle generator (also `-DTAPKEE_VERIF`);
    * benign `state` — each with the role the translator establishes mechanically (`no_hidden_state`): the mutable
      default selectors of `defines/methods.hpp` that only load-time initialisers read (`initOnly`), the returned
      `"SM"`/`"LM"` string literals of the ARPACK operation classes and stichwort's stateless type-policy singleton
      (`readOnlyLiteral`), the two never-defined reference members of stichwort's SFINAE probe (`initOnly`). -/
def acceptedStatics : List (String × String × String) := [
  -- BEGIN accepted
  ("utils/logging.hpp", "Logging::instance", "s"),
  ("routines/eigendecomposition.hpp", "verif_eigen_observer::get", "observer"),
  ("routines/eigendecomposition.hpp", "verif_eigen_observer::busy", "flag"),
  ("external/barnes_hut_sne/tsne.hpp", "verif_iteration_observer", "observer"),
  ("defines/random.hpp", "verif_shuffle_generator", "generator"),
  ("defines/methods.hpp", "", "default_neighbors_method"),
  ("defines/methods.hpp", "", "default_eigen_method"),
  ("defines/methods.hpp", "", "default_computation_strategy"),
  ("routines/matrix_operations.hpp", "SparseInverseMatrixOperation::ARPACK_CODE", "foo"),
  ("routines/matrix_operations.hpp", "DenseInverseMatrixOperation::ARPACK_CODE", "foo"),
  ("routines/matrix_operations.hpp", "DenseMatrixOperation::ARPACK_CODE", "foo"),
  ("routines/matrix_operations.hpp", "DenseImplicitSquareSymmetricMatrixOperation::ARPACK_CODE", "foo"),
  ("routines/matrix_operations.hpp", "DenseImplicitSquareMatrixOperation::ARPACK_CODE", "foo"),
  ("routines/matrix_operations.hpp", "GPUDenseImplicitSquareMatrixOperation::ARPACK_CODE", "foo"),
  ("routines/matrix_operations.hpp", "GPUDenseMatrixOperation::ARPACK_CODE", "foo"),
  ("stichwort:policy.hpp", "", "s"),
  ("stichwort:policy.hpp", "", "x"),
  ("stichwort:policy.hpp", "getPolicy", "policy")
  -- END accepted
]

/-- what the theorem below demands of one table row -/
def constantOrAccepted (o : Statics.Obj) : Bool :=
  !o.isObject || Statics.cls o == .constant || acceptedStatics.contains (Statics.key o)

/-- every object of static storage duration declared in `include/tapkee/**`, `include/stichwort/**`, `src/cli/*.hpp`
    (namespace-scope variables, static data members, function-local `static` / `thread_local`, singletons) is a
    `constant` — immutable AND initialised by an expression no call can influence — or is one of the hand-accepted
    entries above.  The table is regenerated from the source on every run: a new function-local static whose value
    depends on an argument (`static const T inv = 1 / width;`), a new cache, a new singleton is class `state`, is not
    in the list, and this proof fails (`checks/c12.py` then names the object and runs the targeted history search on
    the methods that include its header).  `static const double k = 0.5;` stays `constant`. -/
theorem statics_constant_or_accepted : ∀ o ∈ Gen.Statics.table, constantOrAccepted o = true := by
  have h : Gen.Statics.table.all constantOrAccepted = true := by decide
  exact List.all_eq_true.mp h

/-- the accepted list has no stale entries: each one names an object of the current table -/
theorem acceptedStatics_all_present :
    ∀ k ∈ acceptedStatics, (Gen.Statics.table.any fun o => o.isObject && Statics.key o == k) = true := by
  have h : (acceptedStatics.all fun k => Gen.Statics.table.any fun o => o.isObject && Statics.key o == k) = true := by
    decide
  exact List.all_eq_true.mp h

/-- non-vacuity: the table has constants, accepted `config` objects and accepted `state` objects -/
example : (Gen.Statics.table.filter fun o => o.isObject && Statics.cls o == .constant).length ≥ 1 ∧
    (Gen.Statics.table.filter fun o => o.isObject && Statics.cls o == .config).length ≥ 1 ∧
    (Gen.Statics.table.filter fun o => o.isObject && Statics.cls o == .state).length ≥ 1 := by decide

/-- the seeded change C12-w6 (`static const ScalarType inv_width = 1.0 / width;` in `compute_laplacian`): const, but
    its initialiser is a run-time value — class `state`, not accepted, and not accounted for either -/
example :
    let o : Statics.Obj := {
      name := "inv_width", file := "routines/laplacian_eigenmaps.hpp", line := 44,
      scope := "compute_laplacian", decl := "static const ScalarType inv_width = 1.0 / width ;",
      type := "const ScalarType", isConst := true, rtInit := true, isMutable := false, role := .unknown,
      onDeterministicPath := true }
    Statics.cls o = .state ∧ constantOrAccepted o = false ∧ Statics.accounted o = false := by decide

/-- … while a compile-time `static const ScalarType half = 0.5;` in the same place is a constant -/
example : constantOrAccepted {
    name := "half", file := "routines/laplacian_eigenmaps.hpp", line := 44,
    scope := "compute_laplacian", decl := "static const ScalarType half = 0.5 ;", type := "const ScalarType",
    isConst := true, rtInit := false, isMutable := false, role := .constant, onDeterministicPath := false } = true := by
  decide

end TapkeeVerif.C12
