import TapkeeVerif.Proofs.Spectral
import TapkeeVerif.Proofs.Centering
import TapkeeVerif.Proofs.Covariance
import TapkeeVerif.Proofs.EckartYoung
import TapkeeVerif.Proofs.Inertia
import TapkeeVerif.Proofs.DijkstraLoop
import TapkeeVerif.Proofs.DijkstraMain
import TapkeeVerif.Proofs.DijkstraTerm
import TapkeeVerif.Proofs.RankBridge
/-!
# C05 — MDS and Kernel PCA return the optimal rank-`d` factor of the centred Gram matrix

Model (`Model/Center.lean`, `Model/Mds.lean`): `sqDistMatrix δ` (callback evaluated for `j ≥ i`, squared, mirrored),
`centerMatrix` (the three in-place updates of `utils/matrix.hpp`), `scale negHalf`, `mdsPre`, `kernelMatrix`, `kpcaPre`,
`isomapPreOfGeodesics`, `post V s` (`col j *= s j`), `clamp0` (`std::max(·, 0.0)`).
The eigensolver enters as the contract `IsTopEig` / `IsEigSystem` (certificate-checked on every run by `model_c05`),
`sqrt` as the contract `s j * s j = clamp0 (lam j)`.
All theorems hold over every linearly ordered field (`ℝ`, `ℚ`), every `N`, `d`.
-/
namespace TapkeeVerif.C05
open TapkeeVerif TapkeeVerif.Spectral Matrix Finset

variable {K : Type} [Field K] [LinearOrder K] [IsStrictOrderedRing K]
variable {N D d : Nat}

/-- **`centerMatrix A = J·A·J`** for symmetric `A` (`J = 1 − (1/N)·11ᵀ`); the hypothesis is necessary because the code
    subtracts column means on both sides. -/
theorem center_eq_JAJ (A : Mat N N K) (hA : ∀ i j, A i j = A j i) :
    Mat.toM (centerMatrix A) = Mat.toM (centering (K := K) N) * Mat.toM A * Mat.toM (centering (K := K) N) :=
  TapkeeVerif.center_eq_JAJ A hA

omit [LinearOrder K] [IsStrictOrderedRing K] in
theorem sqDistMatrix_symm (δ : Fin N → Fin N → K) (i j : Fin N) : sqDistMatrix δ i j = sqDistMatrix δ j i := by
  unfold sqDistMatrix
  rcases lt_trichotomy i j with h | h | h
  · rw [if_pos h.le, if_neg (not_le.2 h)]
  · subst h; rfl
  · rw [if_neg (not_le.2 h), if_pos h.le]

omit [LinearOrder K] [IsStrictOrderedRing K] in
theorem kernelMatrix_symm (κ : Fin N → Fin N → K) (i j : Fin N) : kernelMatrix κ i j = kernelMatrix κ j i := by
  unfold kernelMatrix
  rcases lt_trichotomy i j with h | h | h
  · rw [if_pos h.le, if_neg (not_le.2 h)]
  · subst h; rfl
  · rw [if_neg (not_le.2 h), if_pos h.le]

/-- what MDS hands to the eigensolver is `−½·J·D²·J` for EVERY distance callback (the code mirrors the upper triangle,
    so no symmetry assumption on the callback is needed) -/
theorem mdsPre_eq_JDJ (δ : Fin N → Fin N → K) (i j : Fin N) :
    mdsPre δ i j = (Mat.toM (centering (K := K) N) * Mat.toM (sqDistMatrix δ) * Mat.toM (centering (K := K) N)) i j
      * (-(1 / 2)) := by
  have := congrFun (congrFun (TapkeeVerif.center_eq_JAJ (sqDistMatrix δ) (sqDistMatrix_symm δ)) i) j
  simp only [Mat.toM_apply] at this
  simp [mdsPre, scale, negHalf, this]

/-- what Kernel PCA hands to the eigensolver is `J·K·J` for every kernel callback -/
theorem kpcaPre_eq_JKJ (κ : Fin N → Fin N → K) :
    Mat.toM (kpcaPre κ) = Mat.toM (centering (K := K) N) * Mat.toM (kernelMatrix κ) * Mat.toM (centering (K := K) N) :=
  TapkeeVerif.center_eq_JAJ (kernelMatrix κ) (kernelMatrix_symm κ)

/-- **classical MDS identity**: Euclidean distances ⇒ the matrix handed to the solver is the centred Gram matrix -/
theorem mdsPre_eq_gram (X : Mat N D K) (δ : Fin N → Fin N → K)
    (hδ : ∀ i j, δ i j * δ i j = ∑ a, (X i a - X j a) * (X i a - X j a)) :
    Mat.toM (mdsPre δ) = Mat.toM (centred X) * (Mat.toM (centred X))ᵀ :=
  TapkeeVerif.mdsPre_eq_gram X δ hδ

omit [LinearOrder K] [IsStrictOrderedRing K] in
/-- the post-processing `col j *= s j` is right multiplication by `diag s` -/
theorem post_eq_mul_diagonal (V : Mat N d K) (s : Vec d K) : Mat.toM (post V s) = Mat.toM V * diagonal s := by
  ext i j
  simp [post, Matrix.mul_diagonal]

/-- **the factor facts.**  `(V, lam)` any eigensystem of the matrix `B` handed to the solver, `s j ² = max (lam j) 0`
    (the clamped square root): the returned `Y = V·diag s` has mutually orthogonal columns, column `j` has squared norm
    `lam j⁺`, and `Y·Yᵀ = V·diag(lam⁺)·Vᵀ` — the spectral truncation of `B` to the retained non-negative eigenvalues. -/
theorem mds_gram (B : Matrix (Fin N) (Fin N) K) (V : Mat N d K) (lam s : Vec d K)
    (h : IsEigSystem B (Mat.toM V) lam) (hs : ∀ j, s j * s j = clamp0 (lam j)) :
    (Mat.toM (post V s))ᵀ * Mat.toM (post V s) = diagonal (fun j => clamp0 (lam j)) ∧
    Mat.toM (post V s) * (Mat.toM (post V s))ᵀ = Mat.toM V * diagonal (fun j => clamp0 (lam j)) * (Mat.toM V)ᵀ := by
  rw [post_eq_mul_diagonal]
  exact gram_of_scaled (Mat.toM V) s _ h.ortho hs

omit [Field K] [IsStrictOrderedRing K] in
theorem clamp0_of_nonneg [Zero K] {x : K} (hx : 0 ≤ x) : clamp0 x = x := by
  simp [clamp0, not_lt.2 hx]

/-- **Isomap with `k = N − 1` is MDS** (Gram level), given what property C04 proves about the geodesics: when every
    sample has all others as neighbours and `δ` is a metric, the geodesic matrix is the matrix of direct distances
    (`ge_direct` / `le_edge`, `Props/C04`).  Under that hypothesis Isomap hands the solver exactly `mdsPre δ`.
    (Full statement: `k = N − 1 → Metric δ → isomapPre = mdsPre`; the Dijkstra model is C04's, so the geodesic identity
    enters here as the hypothesis `hG`.) -/
theorem isomap_full_k_eq_mds_partial (δ : Fin N → Fin N → K) (G : Mat N N K)
    (hG : ∀ i j, G i j = if i ≤ j then δ i j else δ j i) :
    isomapPreOfGeodesics G = mdsPre δ := by
  funext i j
  have h2 : ((2 : Nat) : K) ≠ 0 := by norm_num
  have hS : (fun i j => (G i j * G i j + G j i * G j i) / ((2 : Nat) : K)) = sqDistMatrix δ := by
    funext i j
    unfold sqDistMatrix
    rw [hG i j, hG j i]
    rcases lt_trichotomy i j with h | h | h
    · simp only [if_pos h.le, if_neg (not_le.2 h)]; field_simp; ring
    · subst h; simp only [le_refl, if_true]; field_simp; ring
    · simp only [if_neg (not_le.2 h), if_pos h.le]; field_simp; ring
  simp only [isomapPreOfGeodesics, mdsPre, hS]

/-- **Isomap with `k = N − 1` is MDS — in full**, on top of property C04's model of
    `compute_shortest_distances_matrix` (`Model/Dijkstra.lean`) and its exactness theorem (`row_geodesic`, used
    read-only): if every other sample is a neighbour of every sample (`hfull`: this is `k = N − 1` for neighbour lists
    without repetitions) and the distance callback is a symmetric metric, then whatever the queue discipline `disc` and
    the tie-breaking streams `ch`, the geodesic matrix `G` computed by Dijkstra is the matrix of direct distances, and
    Isomap hands the eigensolver exactly what MDS hands it. -/
theorem isomap_full_k_eq_mds {P : Dijkstra.Problem K} {k : Nat} (hw : ∀ a b, 0 ≤ P.w a b) (hm : Dijkstra.Metric P)
    (hsym : ∀ a b, P.w a b = P.w b a)
    (hfull : ∀ s v, s < P.N → v < P.N → s ≠ v → Dijkstra.Edge P k s v)
    {disc : Dijkstra.Disc} {ch : Nat → Nat → Nat} (r : Fin P.N → Vector (Option K) P.N)
    (hr : ∀ s : Fin P.N, Dijkstra.row P disc k (ch s.1) s.1 s.1 = .ok (r s))
    (G : Mat P.N P.N K) (hG : ∀ i j : Fin P.N, (r i)[j.1] = some (G i j)) :
    isomapPreOfGeodesics G = mdsPre (fun i j : Fin P.N => P.w i.1 j.1) := by
  apply isomap_full_k_eq_mds_partial
  intro i j
  have hgeo := Dijkstra.row_geodesic hw (Or.inr rfl) (hr i) j.1 j.2
  rw [hG i j] at hgeo
  have hEq : G i j = P.w i.1 j.1 := by
    by_cases hij : i.1 = j.1
    · have hd := Dijkstra.IsGeodesic.diag_zero hw i.2 (by rw [← hij] at hgeo; exact hgeo)
      have : G i j = 0 := Option.some.inj hd
      rw [this, ← hij, hm.1]
    · obtain ⟨d', hd', hle⟩ := Dijkstra.IsGeodesic.le_edge (hfull i.1 j.1 i.2 j.2 hij) hgeo
      have hd : G i j = d' := Option.some.inj hd'
      exact le_antisymm (hd ▸ hle) (Dijkstra.IsGeodesic.ge_direct hm hgeo)
  rw [hEq]
  split_ifs with h
  · rfl
  · exact hsym _ _

/-- the hypotheses of `isomap_full_k_eq_mds` are satisfiable whenever the lists are well formed: C04's termination
    theorem (`row_ok`) supplies the rows, and on a complete neighbour relation every geodesic is finite -/
theorem isomap_full_k_rows_exist {P : Dijkstra.Problem K} {k : Nat} (hwf : Dijkstra.WF P k) (hw : ∀ a b, 0 ≤ P.w a b)
    (hfull : ∀ s v, s < P.N → v < P.N → s ≠ v → Dijkstra.Edge P k s v)
    (disc : Dijkstra.Disc) (ch : Nat → Nat → Nat) :
    ∃ (r : Fin P.N → Vector (Option K) P.N) (G : Mat P.N P.N K),
      (∀ s : Fin P.N, Dijkstra.row P disc k (ch s.1) s.1 s.1 = .ok (r s)) ∧
      ∀ i j : Fin P.N, (r i)[j.1] = some (G i j) := by
  classical
  have hex : ∀ s : Fin P.N, ∃ r, Dijkstra.row P disc k (ch s.1) s.1 s.1 = .ok r :=
    fun s => Dijkstra.row_ok (ch s.1) hwf hw (Or.inr rfl) s.2 s.2
  choose r hr using hex
  refine ⟨r, fun i j => ((r i)[j.1]).getD 0, hr, fun i j => ?_⟩
  have hgeo := Dijkstra.row_geodesic hw (Or.inr rfl) (hr i) j.1 j.2
  have hsome : ∃ d, (r i)[j.1] = some d := by
    by_cases hij : i.1 = j.1
    · have hij' : i = j := Fin.ext hij
      subst hij'
      exact ⟨0, Dijkstra.IsGeodesic.diag_zero hw i.2 hgeo⟩
    · obtain ⟨d', hd', -⟩ := Dijkstra.IsGeodesic.le_edge (hfull i.1 j.1 i.2 j.2 hij) hgeo
      exact ⟨d', hd'⟩
  obtain ⟨d', hd'⟩ := hsome
  show (r i)[j.1] = some (((r i)[j.1]).getD 0)
  rw [hd']
  rfl

/-- **the randomized solver is exact on inputs of rank ≤ d.**  Model of `eigendecomposition_impl_randomized`:
    `Q` = the orthonormalised range sample `orth(A'·Ω)` (`QᵀQ = 1`), where `A' = upperView A` is what
    `DenseMatrixOperation` reads (only the upper triangle of the argument — always a symmetric matrix); `(W, lam)` = a full
    eigensystem of the small matrix `Qᵀ A' Q`.  If the range sample captures the range of `A'` (`Q·Qᵀ·A' = A'`: this is
    `rank A' ≤ d` and `range(A'Ω) = range A'`), the returned `(Q·W, lam)` is an exact eigensystem of `A'` and everything
    orthogonal to it lies in the kernel of `A'` — all non-zero eigenvalues are found. -/
theorem randomized_exact_on_low_rank (A : Mat N N K) (Q : Matrix (Fin N) (Fin d) K) (W : Matrix (Fin d) (Fin d) K)
    (lam : Fin d → K) (hQ : Qᵀ * Q = 1) (hrange : Q * Qᵀ * Mat.toM (upperView A) = Mat.toM (upperView A))
    (hW : IsFullEigSystem (Qᵀ * Mat.toM (upperView A) * Q) W lam) :
    IsEigSystem (Mat.toM (upperView A)) (Q * W) lam ∧
    ∀ x : Fin N → K, (Q * W)ᵀ *ᵥ x = 0 → Mat.toM (upperView A) *ᵥ x = 0 := by
  set A' := Mat.toM (upperView A) with hA'
  have hsymm : A'ᵀ = A' := by
    ext i j
    simp only [transpose_apply, hA', Mat.toM_apply, upperView]
    rcases lt_trichotomy i j with h | h | h
    · rw [if_pos h.le, if_neg (not_le.2 h)]
    · subst h; rfl
    · rw [if_neg (not_le.2 h), if_pos h.le]
  refine ⟨⟨?_, ?_⟩, ?_⟩
  · calc A' * (Q * W) = (Q * Qᵀ * A') * (Q * W) := by rw [hrange]
      _ = Q * ((Qᵀ * A' * Q) * W) := by simp only [Matrix.mul_assoc]
      _ = Q * W * diagonal lam := by rw [hW.eig, Matrix.mul_assoc]
  · rw [transpose_mul, Matrix.mul_assoc, ← Matrix.mul_assoc Qᵀ, hQ, Matrix.one_mul, hW.ortho]
  · intro x hx
    -- W is square with orthonormal columns, so Qᵀ x = 0
    have hQx : Qᵀ *ᵥ x = 0 := by
      have : W * Wᵀ = 1 := hW.mul_transpose_self
      have h2 : Wᵀ *ᵥ (Qᵀ *ᵥ x) = 0 := by rw [mulVec_mulVec, ← transpose_mul]; exact hx
      calc Qᵀ *ᵥ x = (W * Wᵀ) *ᵥ (Qᵀ *ᵥ x) := by rw [this, one_mulVec]
        _ = W *ᵥ (Wᵀ *ᵥ (Qᵀ *ᵥ x)) := by simp only [mulVec_mulVec, Matrix.mul_assoc]
        _ = 0 := by rw [h2, mulVec_zero]
    -- A' = A' Q Qᵀ (transpose of the range condition)
    have hr' : A' * (Q * Qᵀ) = A' := by
      have := congrArg transpose hrange
      rwa [transpose_mul, transpose_mul, transpose_transpose, hsymm] at this
    calc A' *ᵥ x = (A' * (Q * Qᵀ)) *ᵥ x := by rw [hr']
      _ = A' *ᵥ (Q *ᵥ (Qᵀ *ᵥ x)) := by simp only [mulVec_mulVec, Matrix.mul_assoc]
      _ = 0 := by rw [hQx, mulVec_zero, mulVec_zero]

/-! ### Exact recovery of the distances -/

omit [LinearOrder K] [IsStrictOrderedRing K] in
/-- squared distance between two rows in terms of the Gram matrix of the rows -/
theorem rowSqDist_eq_gram (Y : Mat N d K) (i j : Fin N) :
    rowSqDist Y i j = (Mat.toM Y * (Mat.toM Y)ᵀ) i i + (Mat.toM Y * (Mat.toM Y)ᵀ) j j
      - 2 * (Mat.toM Y * (Mat.toM Y)ᵀ) i j := by
  simp only [rowSqDist, sumFin_eq_sum, Matrix.mul_apply, transpose_apply, Mat.toM_apply, Finset.mul_sum,
    ← Finset.sum_add_distrib, ← Finset.sum_sub_distrib]
  exact Finset.sum_congr rfl fun a _ => by ring

/-- Exact recovery, kernel form (the hypothesis `hrank` speaks about the solver's answer: everything orthogonal to the
    returned eigenvectors is in the kernel of the matrix; `mds_exact_recovery` below derives it from the DATA-side
    hypothesis `rank Xc ≤ d` through `Spectral.kernel_of_rank_le`). -/
theorem mds_exact_recovery_of_hrank (X : Mat N D K) (δ : Fin N → Fin N → K)
    (hδ : ∀ i j, δ i j * δ i j = ∑ a, (X i a - X j a) * (X i a - X j a))
    (V : Mat N d K) (lam s : Vec d K) (h : IsEigSystem (Mat.toM (mdsPre δ)) (Mat.toM V) lam)
    (hrank : ∀ x : Fin N → K, (Mat.toM V)ᵀ *ᵥ x = 0 → Mat.toM (mdsPre δ) *ᵥ x = 0)
    (hs : ∀ j, s j * s j = clamp0 (lam j)) :
    ∀ i j, rowSqDist (post V s) i j = δ i j * δ i j := by
  set B := Mat.toM (mdsPre δ) with hB
  set Vm := Mat.toM V with hVm
  set Xc := Mat.toM (centred X) with hXc
  have hBG : B = Xc * Xcᵀ := mdsPre_eq_gram X δ hδ
  -- 1. the retained eigenvalues are non-negative (B is a Gram matrix)
  have hlam : ∀ j, 0 ≤ lam j := by
    intro j
    have h1 : (Vmᵀ * B * Vm) j j = lam j := by
      rw [Matrix.mul_assoc, h.eig, ← Matrix.mul_assoc, h.ortho, Matrix.one_mul, diagonal_apply_eq]
    have h2 : Vmᵀ * B * Vm = (Xcᵀ * Vm)ᵀ * (Xcᵀ * Vm) := by
      rw [hBG, transpose_mul, transpose_transpose]; simp only [Matrix.mul_assoc]
    rw [← h1, h2, Matrix.mul_apply]
    exact Finset.sum_nonneg fun a _ => by rw [transpose_apply]; exact mul_self_nonneg _
  -- 2. B equals its spectral truncation
  have hBV : B = Vm * diagonal lam * Vmᵀ := by
    rw [ext_iff_mulVec]
    intro x
    have hperp : Vmᵀ *ᵥ (x - Vm *ᵥ (Vmᵀ *ᵥ x)) = 0 := by
      rw [mulVec_sub, mulVec_mulVec, h.ortho, one_mulVec, sub_self]
    have h0 := hrank _ hperp
    rw [mulVec_sub, sub_eq_zero] at h0
    rw [h0, mulVec_mulVec, h.eig]
    simp only [mulVec_mulVec, Matrix.mul_assoc]
  -- 3. Y Yᵀ = B
  have hYY : Mat.toM (post V s) * (Mat.toM (post V s))ᵀ = B := by
    have hc : (fun j => clamp0 (lam j)) = lam := funext fun j => clamp0_of_nonneg (hlam j)
    rw [(mds_gram B V lam s h hs).2, hc, ← hBV]
  intro i j
  rw [rowSqDist_eq_gram, hYY, hBG, hδ i j]
  simp only [Matrix.mul_apply, transpose_apply, hXc, Mat.toM_apply, centred, Finset.mul_sum,
    ← Finset.sum_add_distrib, ← Finset.sum_sub_distrib]
  exact Finset.sum_congr rfl fun a _ => by ring

/-- **Exact recovery.**  Distances Euclidean (`δ i j ² = ‖x_i − x_j‖²`), the centred points span at most `d` dimensions
    (`rank Xc ≤ d` — a hypothesis on the DATA only), `(V, lam)` a top-`d` eigensystem of the matrix handed to the solver
    (the solver's contract), `s` the clamped square roots: every pairwise squared distance of the embedding equals the
    squared input distance, **exactly**. -/
theorem mds_exact_recovery (X : Mat N D K) (δ : Fin N → Fin N → K)
    (hδ : ∀ i j, δ i j * δ i j = ∑ a, (X i a - X j a) * (X i a - X j a))
    (hrk : (Mat.toM (centred X)).rank ≤ d)
    (V : Mat N d K) (lam s : Vec d K) (h : IsTopEig (Mat.toM (mdsPre δ)) (Mat.toM V) lam)
    (hs : ∀ j, s j * s j = clamp0 (lam j)) :
    ∀ i j, rowSqDist (post V s) i j = δ i j * δ i j := by
  have hBG := mdsPre_eq_gram X δ hδ
  have hrank : ∀ x : Fin N → K, (Mat.toM V)ᵀ *ᵥ x = 0 → Mat.toM (mdsPre δ) *ᵥ x = 0 := by
    rw [hBG] at h ⊢
    exact kernel_of_rank_le _ _ lam h (by simpa using hrk)
  exact mds_exact_recovery_of_hrank X δ hδ V lam s h.toIsEigSystem hrank hs

/-! ### Optimality (Eckart–Young) -/

omit [IsStrictOrderedRing K] in
theorem clamp0_eq_max (x : K) : clamp0 x = max x 0 := by
  unfold clamp0
  split_ifs with h
  · exact (max_eq_right h.le).symm
  · exact (max_eq_left (not_lt.1 h)).symm

omit [LinearOrder K] [IsStrictOrderedRing K] in
theorem centerMatrix_symm (A : Mat N N K) (hA : ∀ i j, A i j = A j i) (i j : Fin N) :
    centerMatrix A i j = centerMatrix A j i := by
  simp only [centerMatrix, centerWith, hA i j]
  ring

omit [LinearOrder K] [IsStrictOrderedRing K] in
theorem mdsPre_symm (δ : Fin N → Fin N → K) : (Mat.toM (mdsPre δ))ᵀ = Mat.toM (mdsPre δ) := by
  ext i j
  simp only [transpose_apply, Mat.toM_apply, mdsPre, scale, centerMatrix_symm _ (sqDistMatrix_symm δ) j i]

omit [LinearOrder K] [IsStrictOrderedRing K] in
theorem kpcaPre_symm (κ : Fin N → Fin N → K) : (Mat.toM (kpcaPre κ))ᵀ = Mat.toM (kpcaPre κ) := by
  ext i j
  simp only [transpose_apply, Mat.toM_apply, kpcaPre, centerMatrix_symm _ (kernelMatrix_symm κ) j i]

/-- **the returned factor is optimal.**  `B` symmetric, `(V, lam)` a top-`d` eigensystem of `B`, `s` the clamped square
    roots, `Y = V·diag s`: `Y·Yᵀ` is the best positive semi-definite approximation of rank `≤ d` of `B` in Frobenius norm —
    for every `G = Q·diag(mu)·Qᵀ` with `QᵀQ = 1`, `mu ≥ 0`:  `‖B − Y·Yᵀ‖_F ≤ ‖B − G‖_F`  (Eckart–Young, proved in
    `Proofs/EckartYoung.lean` from the variational top-`d` property). -/
theorem factor_optimal (B : Matrix (Fin N) (Fin N) K) (hB : Bᵀ = B) (V : Mat N d K) (lam s : Vec d K)
    (h : IsTopEig B (Mat.toM V) lam) (hs : ∀ j, s j * s j = clamp0 (lam j))
    (Q : Matrix (Fin N) (Fin d) K) (hQ : Qᵀ * Q = 1) (mu : Fin d → K) (hmu : ∀ k, 0 ≤ mu k) :
    frobSq (B - Mat.toM (post V s) * (Mat.toM (post V s))ᵀ) ≤ frobSq (B - Q * diagonal mu * Qᵀ) := by
  rw [(mds_gram B V lam s h.toIsEigSystem hs).2]
  have : (fun j => clamp0 (lam j)) = fun j => max (lam j) 0 := funext fun j => clamp0_eq_max _
  rw [this]
  exact h.eckartYoung_psd hB Q hQ mu hmu

/-- **MDS returns the optimal rank-`d` factor of `−½·J·D²·J`** -/
theorem mds_optimal (δ : Fin N → Fin N → K) (V : Mat N d K) (lam s : Vec d K)
    (h : IsTopEig (Mat.toM (mdsPre δ)) (Mat.toM V) lam) (hs : ∀ j, s j * s j = clamp0 (lam j))
    (Q : Matrix (Fin N) (Fin d) K) (hQ : Qᵀ * Q = 1) (mu : Fin d → K) (hmu : ∀ k, 0 ≤ mu k) :
    frobSq (Mat.toM (mdsPre δ) - Mat.toM (post V s) * (Mat.toM (post V s))ᵀ)
      ≤ frobSq (Mat.toM (mdsPre δ) - Q * diagonal mu * Qᵀ) :=
  factor_optimal _ (mdsPre_symm δ) V lam s h hs Q hQ mu hmu

/-- **Kernel PCA returns the optimal rank-`d` factor of `J·K·J`** -/
theorem kpca_optimal (κ : Fin N → Fin N → K) (V : Mat N d K) (lam s : Vec d K)
    (h : IsTopEig (Mat.toM (kpcaPre κ)) (Mat.toM V) lam) (hs : ∀ j, s j * s j = clamp0 (lam j))
    (Q : Matrix (Fin N) (Fin d) K) (hQ : Qᵀ * Q = 1) (mu : Fin d → K) (hmu : ∀ k, 0 ≤ mu k) :
    frobSq (Mat.toM (kpcaPre κ) - Mat.toM (post V s) * (Mat.toM (post V s))ᵀ)
      ≤ frobSq (Mat.toM (kpcaPre κ) - Q * diagonal mu * Qᵀ) :=
  factor_optimal _ (kpcaPre_symm κ) V lam s h hs Q hQ mu hmu

/-- the retained "energy" is maximal as well (Ky Fan): no `d` orthonormal directions capture more of `B` -/
theorem mds_kyFan (δ : Fin N → Fin N → K) (V : Mat N d K) (lam : Vec d K)
    (h : IsTopEig (Mat.toM (mdsPre δ)) (Mat.toM V) lam) (Z : Matrix (Fin N) (Fin d) K) (hZ : Zᵀ * Z = 1) :
    trace (Zᵀ * Mat.toM (mdsPre δ) * Z) ≤ ∑ j, lam j :=
  h.kyFan (mdsPre_symm δ) Z hZ

/-! ### The per-run certificate is sound -/

/-- **soundness of the exact-rational certificate run by `model_c05` / `model_c06`** (`Model/Cert.lean`): at zero
    tolerance, a passing `certTopEig` on a symmetric matrix proves the eigensolver's contract `IsTopEig` — residual and
    orthonormality exactly, extremality by Sylvester's law of inertia on the exact `LDLᵀ` elimination
    (`Proofs/Inertia.lean`).  With tolerances `ε > 0` (what the drivers use on `double` output) the statement becomes a
    perturbation bound; that part is not proved and is named in the level note. -/
theorem certificate_sound (B : Mat N N K) (hB : ∀ i j, B i j = B j i) (V : Mat N d K) (lam : Vec d K)
    (hc : Cert.certTopEig B V lam 0 0 0 = true) : IsTopEig (Mat.toM B) (Mat.toM V) lam :=
  Cert.certTopEig_sound_zero B hB V lam hc

/-- … and with an extremality slack `εs` it still proves exact eigenpairs and "nothing above `min lam + εs` was missed" -/
theorem certificate_sound_slack (B : Mat N N K) (hB : ∀ i j, B i j = B j i) (V : Mat N d K) (lam : Vec d K) (εs : K)
    (hc : Cert.certTopEig B V lam 0 0 εs = true) :
    IsEigSystem (Mat.toM B) (Mat.toM V) lam ∧
    ∀ x : Fin N → K, (Mat.toM V)ᵀ *ᵥ x = 0 → x ⬝ᵥ (Mat.toM B *ᵥ x) ≤ (Cert.minVec lam + εs) * (x ⬝ᵥ x) :=
  Cert.certTopEig_sound B hB V lam εs hc

/-- **the certificate as it is run on `double` output is sound** (perturbation-proof part): for ANY `V`, any weights `c`
    and any shift `σ` — no exactness of the eigenpairs, no symmetry — a passing `Cert.extremalDeflated B V c σ` (exact
    `LDLᵀ` of `σ·1 − B + Σ_j c_j v_j v_jᵀ` closes without a negative pivot) proves that the quadratic form of `B` is at most
    `σ` on the orthogonal complement of the returned columns: no direction outside their span carries more than
    `σ = min lam + 2⁻³⁰·scale`.  The drivers run it on every trace up to `N = 16` (thorough: 32); together with the
    *measured* residual and orthonormality defects this is everything the oracle uses about the eigensolver's output. -/
theorem certificate_sound_robust (B : Mat N N K) (V : Mat N d K) (c : Vec d K) (σ : K)
    (h : Cert.extremalDeflated B V c σ = true) :
    ∀ x : Fin N → K, (Mat.toM V)ᵀ *ᵥ x = 0 → x ⬝ᵥ (Mat.toM B *ᵥ x) ≤ σ * (x ⬝ᵥ x) :=
  Cert.extremalDeflated_sound B V c σ h

/-! ### Non-vacuity: a concrete non-trivial instance meets the hypotheses of the theorems above

Four points `1, 1, −1, −1` on a line (`δ = 0` inside the two pairs, `2` across), `d = 1`, over `ℚ`:
`mdsPre δ = x xᵀ` with `x = (1,1,−1,−1)`, top eigenpair `lam = 4`, `v = (½,½,−½,−½)`, `s = 2`.
The eigensolver contract `IsTopEig` is obtained from the certificate itself (`certificate_sound` + `decide`). -/

def exX : Mat 4 1 Rat := fun i _ => if i.1 < 2 then 1 else -1
def exδ : Fin 4 → Fin 4 → Rat := fun i j => if decide (i.1 < 2) = decide (j.1 < 2) then 0 else 2
def exV : Mat 4 1 Rat := fun i _ => if i.1 < 2 then 1 / 2 else -(1 / 2)
def exLam : Vec 1 Rat := fun _ => 4
def exS : Vec 1 Rat := fun _ => 2

theorem ex_isTopEig : IsTopEig (Mat.toM (mdsPre exδ)) (Mat.toM exV) exLam :=
  certificate_sound (mdsPre exδ) (by decide +kernel) exV exLam (by decide +kernel)

/-- the tolerance-proof certificate passes on the instance with an inexact eigenvector (`0.4999` for `½`) -/
def exVapprox : Mat 4 1 Rat := fun i _ => if i.1 < 2 then 4999 / 10000 else -(4999 / 10000)

example : Cert.extremalDeflated (mdsPre exδ) exVapprox (fun _ => 9) (1 / 100) = true := by decide +kernel

theorem ex_euclidean : ∀ i j, exδ i j * exδ i j = ∑ a, (exX i a - exX j a) * (exX i a - exX j a) := by
  decide +kernel

theorem ex_sqrt : ∀ j, exS j * exS j = clamp0 (exLam j) := by decide +kernel

theorem ex_range : ∀ x : Fin 4 → Rat, (Mat.toM exV)ᵀ *ᵥ x = 0 → Mat.toM (mdsPre exδ) *ᵥ x = 0 := by
  intro x hx
  have hB : ∀ i j, mdsPre exδ i j = 4 * exV i 0 * exV j 0 := by decide +kernel
  have h0 : ∑ j, exV j 0 * x j = 0 := by
    have := congrFun hx 0
    simpa [mulVec, dotProduct] using this
  funext i
  simp only [mulVec, dotProduct, Mat.toM_apply, hB, Pi.zero_apply]
  rw [show (∑ j, 4 * exV i 0 * exV j 0 * x j) = 4 * exV i 0 * ∑ j, exV j 0 * x j by
    rw [Finset.mul_sum]; exact Finset.sum_congr rfl fun j _ => by ring]
  rw [h0, mul_zero]

theorem ex_rank : (Mat.toM (centred exX)).rank ≤ 1 := by
  simpa using Matrix.rank_le_width (Mat.toM (centred exX))

/-- the instance goes through `mds_exact_recovery` (data-side rank hypothesis) and through the kernel form: the embedding
    `(1,1,−1,−1)` reproduces every distance -/
example : ∀ i j, rowSqDist (post exV exS) i j = exδ i j * exδ i j :=
  mds_exact_recovery exX exδ ex_euclidean ex_rank exV exLam exS ex_isTopEig ex_sqrt

example : ∀ i j, rowSqDist (post exV exS) i j = exδ i j * exδ i j :=
  mds_exact_recovery_of_hrank exX exδ ex_euclidean exV exLam exS ex_isTopEig.toIsEigSystem ex_range ex_sqrt

/-- the instance meets the hypotheses of `randomized_exact_on_low_rank`: `Q = v` (one column), range sample exact
    (`Q Qᵀ A = A` because `A = 4·v vᵀ`), small problem `Qᵀ A Q = [4]` with eigensystem `W = [1]`, `lam = 4` -/
example : IsEigSystem (Mat.toM (upperView (mdsPre exδ))) (Mat.toM exV * (1 : Matrix (Fin 1) (Fin 1) Rat)) exLam := by
  have hQ : (Mat.toM exV)ᵀ * Mat.toM exV = 1 := ex_isTopEig.ortho
  have h1 : ∀ i j, Mat.mul (Mat.mul exV (Mat.transpose exV)) (upperView (mdsPre exδ)) i j
      = upperView (mdsPre exδ) i j := by decide +kernel
  have h2 : ∀ a b, Mat.mul (Mat.mul (Mat.transpose exV) (upperView (mdsPre exδ))) exV a b
      = Mat.diag exLam a b := by decide +kernel
  have hrange : Mat.toM exV * (Mat.toM exV)ᵀ * Mat.toM (upperView (mdsPre exδ)) = Mat.toM (upperView (mdsPre exδ)) := by
    rw [← Mat.transpose_eq, ← Mat.mul_eq, ← Mat.mul_eq]
    ext i j; exact h1 i j
  have hsmall : (Mat.toM exV)ᵀ * Mat.toM (upperView (mdsPre exδ)) * Mat.toM exV = diagonal exLam := by
    rw [← Mat.transpose_eq, ← Mat.mul_eq, ← Mat.mul_eq, ← Mat.diag_eq]
    ext a b; exact h2 a b
  exact (randomized_exact_on_low_rank (mdsPre exδ) (Mat.toM exV) 1 exLam hQ hrange
    ⟨by rw [hsmall, Matrix.mul_one, Matrix.one_mul], by simp⟩).1

/-- a concrete instance of `isomap_full_k_eq_mds`: two samples at distance 1, each the other's only neighbour (`k = N − 1 = 1`) -/
def exP : Dijkstra.Problem Rat := { N := 2, nbrs := #[#[1], #[0]], w := fun a b => if a = b then 0 else 1 }

theorem exP_nonneg : ∀ a b, 0 ≤ exP.w a b := by
  intro a b; simp only [exP]; split_ifs <;> norm_num

theorem exP_metric : Dijkstra.Metric exP := by
  refine ⟨fun i => by simp [exP], fun i j l => ?_⟩
  simp only [exP]
  split_ifs <;> first | (exfalso; omega) | norm_num

theorem exP_wf : Dijkstra.WF exP 1 := by
  intro u hu i hi
  have hi0 : i = 0 := by omega
  subst hi0
  have hu' : u = 0 ∨ u = 1 := by simp only [exP] at hu; omega
  rcases hu' with rfl | rfl
  · exact ⟨1, rfl, by decide⟩
  · exact ⟨0, rfl, by decide⟩

theorem exP_full : ∀ s v, s < exP.N → v < exP.N → s ≠ v → Dijkstra.Edge exP 1 s v := by
  intro s v hs hv hsv
  have hs' : s = 0 ∨ s = 1 := by simp only [exP] at hs; omega
  have hv' : v = 0 ∨ v = 1 := by simp only [exP] at hv; omega
  refine ⟨hs, hv, 0, by omega, ?_⟩
  rcases hs' with rfl | rfl <;> rcases hv' with rfl | rfl <;> first | exact absurd rfl hsv | rfl

example (disc : Dijkstra.Disc) (ch : Nat → Nat → Nat) :
    ∃ G : Mat exP.N exP.N Rat, isomapPreOfGeodesics G = mdsPre (fun i j : Fin exP.N => exP.w i.1 j.1) := by
  obtain ⟨r, G, hr, hG⟩ := isomap_full_k_rows_exist exP_wf exP_nonneg exP_full disc ch
  exact ⟨G, isomap_full_k_eq_mds exP_nonneg exP_metric (fun a b => by simp [exP, eq_comm]) exP_full r hr G hG⟩

/-- … and through `mds_optimal` against a competitor (`Q = e₁`, `mu = 3`) -/
example : frobSq (Mat.toM (mdsPre exδ) - Mat.toM (post exV exS) * (Mat.toM (post exV exS))ᵀ)
    ≤ frobSq (Mat.toM (mdsPre exδ) - (Matrix.of fun (i : Fin 4) (_ : Fin 1) => if i = 0 then (1 : Rat) else 0)
        * diagonal (fun _ : Fin 1 => (3 : Rat)) * (Matrix.of fun (i : Fin 4) (_ : Fin 1) => if i = 0 then (1 : Rat) else 0)ᵀ) :=
  mds_optimal exδ exV exLam exS ex_isTopEig ex_sqrt _ (by decide +kernel) _ (by decide +kernel)

example : mdsPre (K := Rat) (n := 3) (fun i j => ((i.1 : Rat) - (j.1 : Rat))) 0 2 = -1 := by decide +kernel

end TapkeeVerif.C05
