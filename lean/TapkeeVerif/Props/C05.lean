import TapkeeVerif.Model.Mds
/-! C05 property theorems (under construction: the statements are being added; see Proofs/Spectral.lean). -/
namespace TapkeeVerif.C05

/-- the staged evaluation run by the driver is the model term -/
theorem driver_runs_mdsPre {n : Nat} (δ : DMat n n Rat) : (mdsPreD δ).get = mdsPre δ.get := mdsPreD_eq δ

end TapkeeVerif.C05
