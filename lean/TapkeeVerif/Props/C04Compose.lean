import TapkeeVerif.Proofs.IsomapCompose
/-!
# Property C04 (composition) — Isomap end to end: the stage models composed into one `embed` model

`isomapEmbedModel` is `IsomapImplementation::embed` (include/tapkee/methods/isomap.hpp) as ONE function, defined by
composing the stage models that are proved (and tied to the code) separately:

    find_neighbors(.., k, check_connectivity)     Connected.findNeighbors (search = C02 model)      C02 / C03
    compute_shortest_distances_matrix             Dijkstra.allPairs ∘ Connected.problemOf             C04
    square, (S+Sᵀ)/2, centerMatrix, *= -0.5       IsomapPre.isomapPre  (generated statement list)     C04
    eigendecomposition_via                        parameter `solver` (contract Spectral.IsTopEig)     C05
    col(i) *= sqrt(max(λ_i, 0))                   post / clamp0, parameter `sqrtO` (contract s² = x)  C05

Nothing is re-defined here; the only new definitions are the glue of `Proofs/IsomapCompose.lean`
(`Option`-rows ↦ function matrix, error type).  `isomap_end_to_end` obtains every conjunct by instantiating the stage
theorem of that stage.  The composed behaviour is tied to the code by the public-API Isomap leg of `checks/c04.py`.

Interfaces that needed an explicit statement to meet:
* the search enters as `search : k ↦ graph` with C02's conclusion (`IsExactKnn` for every list, `N` lists) as hypothesis —
  met by all three searches (C02: `brute_exact`, `vptree_search_exact`, `cover_tree_end_to_end`);
  `isomap_end_to_end_brute` discharges it for the brute-force model from a hypothesis on `δ` alone;
* the eigensolver may have no exact answer in the scalar field (ℚ), so its contract is a hypothesis *at the matrix
  actually handed over* (`o.B`), not a universally quantified property of `solver`; the same for `sqrtO`
  (only at the clamped returned eigenvalues);
* no symmetry, no triangle inequality, no tie-freeness of `δ` is needed by any conjunct: non-negativity is all the
  Dijkstra stage needs, and `isomap_is_cmds` holds for asymmetric geodesics.
-/
namespace TapkeeVerif.IsomapCompose
open TapkeeVerif TapkeeVerif.Connected TapkeeVerif.Knn TapkeeVerif.IsomapPre TapkeeVerif.Spectral Matrix

variable {K : Type} [Field K] [LinearOrder K] [IsStrictOrderedRing K]

/-- everything `embed` computes on the way, so that the theorem can speak about every stage -/
structure Out (N d : Nat) (K : Type) where
  /-- result of `find_neighbors`: lists, final k, every k tried -/
  found : Found
  /-- rows returned by `compute_shortest_distances_matrix` (`none` = `dblmax`) -/
  geo : List (Vector (Option K) N)
  /-- the same as a matrix -/
  G : Mat N N K
  /-- the matrix handed to `eigendecomposition_via` -/
  B : Mat N N K
  /-- eigenvectors / eigenvalues returned by the solver -/
  V : Mat N d K
  lam : Vec d K
  /-- the embedding -/
  Y : Mat N d K

/-- **`IsomapImplementation::embed`, composed.**  `δ` distance callback on sample ids `0..N-1`, `k` requested
    `num_neighbors`, `check` = `check_connectivity`, `d` target dimension; `search k` the neighbour search (C02),
    `disc`/`ch` the queue discipline and tie-breaking streams of the Dijkstra (C04), `solver` the eigensolver outcome
    on the matrix it is handed, `sqrtO` the `sqrt` of libm. -/
def isomapEmbedModel (δ : Nat → Nat → K) (N k : Nat) (check : Bool) (d : Nat) (search : Nat → Graph)
    (disc : Dijkstra.Disc) (ch : Nat → Nat → Nat) (solver : Mat N N K → Mat N d K × Vec d K) (sqrtO : K → K) :
    Except Err (Out N d K) :=
  match findNeighbors search N check (findFuel N) k [] with
  | .oob => .error .knnOob
  | .fuelOut => .error .knnFuel
  | .ok f =>
    match Dijkstra.allPairs (problemOf f.graph N δ) disc ch with
    | .error e => .error (.dijkstra e)
    | .ok F =>
      if geoFinite F then
        .ok { found := f, geo := F, G := geoMat F, B := isomapPre (geoMat F),
              V := (solver (isomapPre (geoMat F))).1, lam := (solver (isomapPre (geoMat F))).2,
              Y := post (solver (isomapPre (geoMat F))).1
                    (fun j => sqrtO (clamp0 ((solver (isomapPre (geoMat F))).2 j))) }
      else .error .infiniteGeodesic

/-- **the two transcriptions of the statements before the eigensolver agree**: C04's `isomapPre` (generated statement
    list, `Model/IsomapPre.lean`) and C05's `isomapPreOfGeodesics` (`Model/Mds.lean`) are the same function — so C05's
    theorems about the latter (`isomap_full_k_eq_mds`) apply to the composed model. -/
theorem isomapPre_eq_isomapPreOfGeodesics {n : Nat} (G : Mat n n K) : isomapPre G = isomapPreOfGeodesics G := by
  unfold isomapPre
  rw [isomapSteps_as_written]
  funext i j
  simp only [List.foldl, applyStep, isomapPreOfGeodesics, scale, negHalf]
  change TapkeeVerif.centerMatrix (fun i j => (G i j * G i j + G j i * G j i) / ((2 : Nat) : K)) i j * _ = _
  generalize TapkeeVerif.centerMatrix (fun i j => (G i j * G i j + G j i * G j i) / ((2 : Nat) : K)) i j = c
  push_cast
  ring

/-- C04 `backends_agree`, for any two queue disciplines and tie-breaking streams -/
theorem allPairs_queue_independent {P : Dijkstra.Problem K} {k : Nat} (hwf : Dijkstra.WF P k)
    (hw : ∀ a b, 0 ≤ P.w a b) (hk : P.k? = some k) (disc disc' : Dijkstra.Disc) (ch ch' : Nat → Nat → Nat) :
    Dijkstra.allPairs P disc ch = Dijkstra.allPairs P disc' ch' := by
  cases disc <;> cases disc'
  · exact (Dijkstra.backends_agree hwf hw hk ch ch').trans (Dijkstra.backends_agree hwf hw hk ch' ch').symm
  · exact Dijkstra.backends_agree hwf hw hk ch ch'
  · exact (Dijkstra.backends_agree hwf hw hk ch' ch).symm
  · exact (Dijkstra.backends_agree hwf hw hk ch ch).symm.trans (Dijkstra.backends_agree hwf hw hk ch ch')

/-- **isomap_end_to_end.**  For every `N`, every non-negative callback `δ`, every requested `1 ≤ k ≤ N-1` (the
    validated range), `check_connectivity` on, every exact search (C02), both queue disciplines, every tie-breaking
    stream, every solver outcome and every `sqrt`:

    the composed model returns (no error state of any stage), and
    1. the final `k' = min (k·2^j) (N-1) ≥ k` for the LEAST `j` of the doubling sequence whose k-NN graph passes
       `is_connected` (= is strongly connected along the followed edges); every earlier level fails;
    2. the returned lists are the search's lists for `k'`, `N` of them, each the exact `k'`-NN list of its sample;
    3. Dijkstra returned `o.geo`, every entry is finite, and `o.G i j` is the length of a shortest directed walk
       `i → j` in that graph (`Dijkstra.IsGeodesic`, the all-pairs shortest-path specification);
    4. the matrix handed to the solver — and what the dense solver decomposes after its own symmetrisation — is
       `−½·J·avg(G²)·J` (`cmds (avgSquares G)`); it is also C05's model `isomapPreOfGeodesics G` of the same statements;
    5. `Y = V·diag (sqrt (max λ 0))` for the solver's `(V, λ)`; and whenever `(V, λ)` meets the solver contract
       `IsTopEig` on that matrix and `sqrtO` squares back on the clamped eigenvalues, the columns of `Y` are
       orthogonal with squared norms `max λ_j 0` and `Y·Yᵀ` is the best PSD approximation of rank `≤ d` of
       `−½·J·avg(G²)·J` in Frobenius norm (C05 `mds_gram`, `factor_optimal`). -/
theorem isomap_end_to_end (δ : Nat → Nat → K) {N : Nat} (hN : 0 < N) {k : Nat} (hk : 1 ≤ k) (hkN : k ≤ N - 1)
    (d : Nat) (hw : ∀ a b, 0 ≤ δ a b)
    (search : Nat → Graph) (hlen : ∀ k, (search k).length = N)
    (hexact : ∀ k, k ≤ N - 1 → ∀ u (hu : u < (search k).length), IsExactKnn δ (List.range N) k u (search k)[u])
    (disc : Dijkstra.Disc) (ch : Nat → Nat → Nat) (solver : Mat N N K → Mat N d K × Vec d K) (sqrtO : K → K) :
    ∃ o, isomapEmbedModel δ N k true d search disc ch solver sqrtO = .ok o ∧
      -- 1. k doubling
      (∃ j, o.found.k = min (k * 2 ^ j) (N - 1) ∧ k ≤ o.found.k ∧
        isConnected N o.found.graph = .ok true ∧ StronglyConnected o.found.graph N ∧
        (∀ j', j' < j → ¬ StronglyConnected (search (min (k * 2 ^ j') (N - 1))) N) ∧
        o.found.tried = (List.range (j + 1)).map fun j' => min (k * 2 ^ j') (N - 1)) ∧
      -- 2. exact k'-NN lists
      (o.found.graph = search o.found.k ∧ o.found.graph.length = N ∧
        ∀ u (hu : u < o.found.graph.length), IsExactKnn δ (List.range N) o.found.k u o.found.graph[u]) ∧
      -- 3. geodesics: finite, exact shortest paths
      (Dijkstra.allPairs (problemOf o.found.graph N δ) disc ch = .ok o.geo ∧
        ∀ i j : Fin N, (∃ hi : i.1 < o.geo.length, (o.geo[i.1])[j.1] = some (o.G i j)) ∧
          Dijkstra.IsGeodesic (problemOf o.found.graph N δ) o.found.k i.1 j.1 (some (o.G i j))) ∧
      -- 4. classical MDS matrix
      (o.B = cmds (avgSquares o.G) ∧ denseSolverInput o.B = cmds (avgSquares o.G) ∧
        o.B = isomapPreOfGeodesics o.G) ∧
      -- 5. spectral post-processing
      ((o.V, o.lam) = solver o.B ∧ o.Y = post o.V (fun j => sqrtO (clamp0 (o.lam j))) ∧
        (IsTopEig (Mat.toM o.B) (Mat.toM o.V) o.lam →
          (∀ j, sqrtO (clamp0 (o.lam j)) * sqrtO (clamp0 (o.lam j)) = clamp0 (o.lam j)) →
          (Mat.toM o.Y)ᵀ * Mat.toM o.Y = diagonal (fun j => clamp0 (o.lam j)) ∧
          ∀ (Q : Matrix (Fin N) (Fin d) K), Qᵀ * Q = 1 → ∀ mu : Fin d → K, (∀ a, 0 ≤ mu a) →
            frobSq (Mat.toM o.B - Mat.toM o.Y * (Mat.toM o.Y)ᵀ) ≤ frobSq (Mat.toM o.B - Q * diagonal mu * Qᵀ))) := by
  have hn : ((N : Nat) : K) ≠ 0 := Nat.cast_ne_zero.2 (by omega)
  -- C03: the recursion ends, with the least level that passes
  obtain ⟨f, hf⟩ := findNeighbors_terminates δ search hN hk hlen hexact
  obtain ⟨j, hkj, hgraph, hsc, hmin, htried⟩ := k_raised_only_if_needed search hN _ k f hf
  have hk'le : f.k ≤ N - 1 := by rw [hkj]; exact Nat.min_le_right _ _
  -- C02 → uniform lists
  have hex' : ∀ u (hu : u < f.graph.length), IsExactKnn δ (List.range N) f.k u f.graph[u] := by
    rw [hgraph]; exact hexact _ hk'le
  have hglen : f.graph.length = N := by rw [hgraph]; exact hlen _
  have huni : Uniform f.graph N f.k := uniform_of_exact hglen hex'
  have hconn : isConnected N f.graph = .ok true := by
    obtain ⟨b, hb, hiff⟩ := isConnected_iff hN (huni.not_oob hN)
    rw [hb, hiff.2 hsc]
  -- C04: Dijkstra is total and exact
  have hkq := problemOf_k? huni hN δ
  obtain ⟨F, hF, hFlen, hFgeo⟩ :=
    Dijkstra.allPairs_is_geodesic_matrix (problemOf_wf huni δ) hw hkq disc ch
  have hrows := (Dijkstra.allPairs_rows hkq hF).2
  -- C03 ∘ C04: no `dblmax`
  have hfin : ∀ s v (hs : s < F.length) (hv : v < N), (F[s])[v] ≠ none := by
    intro s v hs hv
    have hsN : s < N := by rw [hFlen] at hs; exact hs
    obtain ⟨r, hr, hne⟩ := C03_geodesic_matrix_finite huni hN hsc δ hw disc (ch s) hsN
    have hrow := hrows s hsN hs
    rw [hr] at hrow
    cases hrow
    exact hne v hv
  have hfinB : geoFinite F = true := geoFinite_of hFlen hfin
  have hsymB : (Mat.toM (isomapPre (geoMat F)))ᵀ = Mat.toM (isomapPre (geoMat F)) := by
    ext a b
    simp only [transpose_apply, Mat.toM_apply]
    exact isomapPre_symm hn _ b a
  refine ⟨{ found := f, geo := F, G := geoMat F, B := isomapPre (geoMat F),
            V := (solver (isomapPre (geoMat F))).1, lam := (solver (isomapPre (geoMat F))).2,
            Y := post (solver (isomapPre (geoMat F))).1
                  (fun j => sqrtO (clamp0 ((solver (isomapPre (geoMat F))).2 j))) }, ?_, ?_, ?_, ?_, ?_, ?_⟩
  · unfold isomapEmbedModel
    simp only [hf, hF, hfinB, if_true]
  · exact ⟨j, hkj, by rw [hkj]; exact Nat.le_min.2 ⟨Nat.le_mul_of_pos_right k (Nat.pow_pos (by omega)), hkN⟩,
      hconn, hsc, hmin, htried⟩
  · exact ⟨hgraph, hglen, hex'⟩
  · refine ⟨hF, fun i j => ?_⟩
    obtain ⟨hi, hEq⟩ := geoMat_spec hfinB i j
    refine ⟨⟨hi, hEq⟩, ?_⟩
    exact (congrArg (Dijkstra.IsGeodesic (problemOf f.graph N δ) f.k i.1 j.1) hEq).mp (hFgeo i.1 j.1 hi j.2)
  · exact ⟨isomapPre_eq_cmds hn _, isomap_is_cmds hn _, isomapPre_eq_isomapPreOfGeodesics _⟩
  · refine ⟨rfl, rfl, ?_⟩
    intro htop hs
    exact ⟨(C05.mds_gram _ _ _ _ htop.toIsEigSystem hs).1,
      fun Q hQ mu hmu => C05.factor_optimal _ hsymB _ _ _ htop hs Q hQ mu hmu⟩

/-- the same with C02's brute-force model as the search: its exactness hypothesis is discharged by `brute_exact` from
    "no sample is nearer to a sample than the sample itself" (every metric, every kernel-induced distance) -/
theorem isomap_end_to_end_brute (δ : Nat → Nat → K) {N : Nat} (hN : 0 < N) {k : Nat} (hk : 1 ≤ k) (hkN : k ≤ N - 1)
    (d : Nat) (hw : ∀ a b, 0 ≤ δ a b) (hself : ∀ i j, i < N → j < N → δ i i ≤ δ i j)
    (disc : Dijkstra.Disc) (ch : Nat → Nat → Nat) (solver : Mat N N K → Mat N d K × Vec d K) (sqrtO : K → K) :
    ∃ o, isomapEmbedModel δ N k true d (bruteSearch δ N) disc ch solver sqrtO = .ok o ∧
      o.found.graph = bruteSearch δ N o.found.k ∧ k ≤ o.found.k ∧ StronglyConnected o.found.graph N ∧
      (∀ u (hu : u < o.found.graph.length), IsExactKnn δ (List.range N) o.found.k u o.found.graph[u]) ∧
      (∀ i j : Fin N, Dijkstra.IsGeodesic (problemOf o.found.graph N δ) o.found.k i.1 j.1 (some (o.G i j))) ∧
      o.B = cmds (avgSquares o.G) ∧ o.Y = post o.V (fun j => sqrtO (clamp0 (o.lam j))) := by
  obtain ⟨o, ho, ⟨j, _, h1, _, h2, _⟩, ⟨h3, _, h4⟩, ⟨_, h5⟩, ⟨h6, _⟩, ⟨_, h7, _⟩⟩ :=
    isomap_end_to_end δ hN hk hkN d hw (bruteSearch δ N) (bruteSearch_length δ N)
      (fun k hk' => bruteSearch_exact hN hself k hk') disc ch solver sqrtO
  exact ⟨o, ho, h3, h1, h2, h4, fun i j => (h5 i j).2, h6, h7⟩

/-- **the embedding does not depend on the priority queue**: the composed model returns the same value for both queue
    disciplines and all tie-breaking streams (C04 `backends_agree` lifted through the composition). -/
theorem isomap_queue_independent (δ : Nat → Nat → K) {N : Nat} (hN : 0 < N) {k : Nat} (hk : 1 ≤ k)
    (d : Nat) (hw : ∀ a b, 0 ≤ δ a b)
    (search : Nat → Graph) (hlen : ∀ k, (search k).length = N)
    (hexact : ∀ k, k ≤ N - 1 → ∀ u (hu : u < (search k).length), IsExactKnn δ (List.range N) k u (search k)[u])
    (disc disc' : Dijkstra.Disc) (ch ch' : Nat → Nat → Nat) (solver : Mat N N K → Mat N d K × Vec d K)
    (sqrtO : K → K) :
    isomapEmbedModel δ N k true d search disc ch solver sqrtO
      = isomapEmbedModel δ N k true d search disc' ch' solver sqrtO := by
  obtain ⟨f, hf⟩ := findNeighbors_terminates δ search hN hk hlen hexact
  obtain ⟨j, hkj, hgraph, -⟩ := k_raised_only_if_needed search hN _ k f hf
  have hk'le : f.k ≤ N - 1 := by rw [hkj]; exact Nat.min_le_right _ _
  have huni : Uniform f.graph N f.k :=
    uniform_of_exact (by rw [hgraph]; exact hlen _) (by rw [hgraph]; exact hexact _ hk'le)
  unfold isomapEmbedModel
  simp only [hf]
  rw [allPairs_queue_independent (problemOf_wf huni δ) hw (problemOf_k? huni hN δ) disc disc' ch ch']

/-- **Isomap with `k = N − 1` is MDS, end to end** (C05 `isomap_full_k_eq_mds` through the composition): requested
    `k = N − 1`, `δ` a symmetric metric (zero diagonal, triangle inequality): the composed model hands the eigensolver
    exactly the matrix `mdsPre δ` that the MDS model hands it.  The interface that had to meet: C05 wants "every other
    sample is a neighbour" as `Dijkstra.Edge`s; C02 gives `N − 1` distinct other samples — a counting argument. -/
theorem isomap_full_k_is_mds_end_to_end (δ : Nat → Nat → K) {N : Nat} (hN2 : 2 ≤ N) (d : Nat)
    (hw : ∀ a b, 0 ≤ δ a b) (hdiag : ∀ i, δ i i = 0) (htri : ∀ i j l, δ i l ≤ δ i j + δ j l)
    (hsym : ∀ a b, δ a b = δ b a)
    (search : Nat → Graph) (hlen : ∀ k, (search k).length = N)
    (hexact : ∀ k, k ≤ N - 1 → ∀ u (hu : u < (search k).length), IsExactKnn δ (List.range N) k u (search k)[u])
    (disc : Dijkstra.Disc) (ch : Nat → Nat → Nat) (solver : Mat N N K → Mat N d K × Vec d K) (sqrtO : K → K) :
    ∃ o, isomapEmbedModel δ N (N - 1) true d search disc ch solver sqrtO = .ok o ∧ o.found.k = N - 1 ∧
      o.B = mdsPre (fun i j : Fin N => δ i.1 j.1) := by
  have hN : 0 < N := by omega
  obtain ⟨o, ho, ⟨j, hkj, hkle, -⟩, ⟨-, hglen, hex⟩, ⟨hF, hG⟩, ⟨-, -, hB⟩, -⟩ :=
    isomap_end_to_end δ hN (k := N - 1) (by omega) (Nat.le_refl _) d hw search hlen hexact disc ch solver sqrtO
  have hk' : o.found.k = N - 1 := le_antisymm (by rw [hkj]; exact Nat.min_le_right _ _) hkle
  have huni : Uniform o.found.graph N o.found.k := uniform_of_exact hglen hex
  have hfull : ∀ s v, s < N → v < N → s ≠ v → Dijkstra.Edge (problemOf o.found.graph N δ) o.found.k s v := by
    intro s v hs hv hsv
    have hsl : s < o.found.graph.length := by rw [hglen]; exact hs
    obtain ⟨h1, h2, h3, h4, -⟩ := hex s hsl
    have hsub : o.found.graph[s] ⊆ (List.range N).erase s := fun w hw =>
      (List.mem_erase_of_ne (by rintro rfl; exact h3 hw)).2 (h4 w hw)
    have hperm := (List.subperm_of_subset h2 hsub).perm_of_length_le
      (by rw [List.length_erase_of_mem (List.mem_range.2 hs), List.length_range, h1, hk'])
    have hmem : v ∈ o.found.graph[s] :=
      hperm.mem_iff.2 ((List.mem_erase_of_ne (Ne.symm hsv)).2 (List.mem_range.2 hv))
    exact dijkstraEdge_of_edge huni δ ⟨_, List.getElem?_eq_getElem hsl, hmem⟩
  have hkq := problemOf_k? huni hN δ
  obtain ⟨hFlen, hrows⟩ := Dijkstra.allPairs_rows hkq hF
  refine ⟨o, ho, hk', ?_⟩
  rw [hB]
  exact C05.isomap_full_k_eq_mds (P := problemOf o.found.graph N δ) hw ⟨hdiag, htri⟩ hsym hfull
    (disc := disc) (ch := ch) (fun s => o.geo[s.1]'(lt_of_lt_of_eq s.2 hFlen.symm))
    (fun s => hrows s.1 s.2 _) o.G (fun i j => (hG i j).1.2)

/-! ### Non-vacuity: a concrete instance meets every hypothesis, including the solver and `sqrt` contracts of conjunct 5

Four samples over `ℚ`: two coinciding pairs `{0,1}`, `{2,3}` at distance 2 from each other (the points `1,1,−1,−1` of
C05's example), requested `k = 1`, `d = 1`, brute-force search.  At `k = 1` each pair only sees itself (not connected),
so `k` is doubled once: `k' = 2`, tried `[1, 2]`.  The geodesics equal the direct distances, the matrix handed to the
solver is C05's `mdsPre exδ`, whose top eigenpair `(exV, 4)` with `sqrt 4 = 2` meets the contracts (`C05.ex_isTopEig`). -/

def exδN (a b : Nat) : ℚ := if decide (a < 2) = decide (b < 2) then 0 else 2
def exSolver : Mat 4 4 ℚ → Mat 4 1 ℚ × Vec 1 ℚ := fun _ => (C05.exV, C05.exLam)
def exSqrt : ℚ → ℚ := fun _ => 2

theorem exB1 : bruteSearch exδN 4 1 = [[1], [0], [3], [2]] := by
  simp [bruteSearch, bruteKnn, bruteSelect, bruteLoop, popIfLonger, bruteRecords, exδN, List.range, List.range.loop,
    nthElementExec, recLt, List.mergeSort, List.MergeSort.Internal.splitInTwo]

theorem exB2 : bruteSearch exδN 4 2 = [[1, 2], [0, 2], [3, 0], [2, 0]] := by
  simp [bruteSearch, bruteKnn, bruteSelect, bruteLoop, popIfLonger, bruteRecords, exδN, List.range, List.range.loop,
    nthElementExec, recLt, List.mergeSort, List.MergeSort.Internal.splitInTwo]

theorem ex_find : findNeighbors (bruteSearch exδN 4) 4 true (findFuel 4) 1 [] =
    .ok ⟨[[1, 2], [0, 2], [3, 0], [2, 0]], 2, [1, 2]⟩ := by
  have c1 : isConnected 4 [[1], [0], [3], [2]] = .ok false := by decide
  have c2 : isConnected 4 [[1, 2], [0, 2], [3, 0], [2, 0]] = .ok true := by decide
  simp [findNeighbors, findFuel, exB1, exB2, c1, c2]

def exF : List (Vector (Option ℚ) 4) :=
  [#v[some 0, some 0, some 2, some 2], #v[some 0, some 0, some 2, some 2],
   #v[some 2, some 2, some 0, some 0], #v[some 2, some 2, some 0, some 0]]

theorem ex_allPairs : Dijkstra.allPairs (problemOf [[1, 2], [0, 2], [3, 0], [2, 0]] 4 exδN) .lazy (fun _ _ => 0) =
    .ok exF := by decide +kernel

theorem ex_B : ∀ i j, isomapPre (geoMat exF) i j = mdsPre C05.exδ i j := by decide +kernel

theorem exδN_nonneg : ∀ a b, 0 ≤ exδN a b := by
  intro a b; unfold exδN; split <;> norm_num

theorem exδN_self : ∀ i j, i < 4 → j < 4 → exδN i i ≤ exδN i j := by
  intro i j _ _
  have : exδN i i = 0 := by simp [exδN]
  rw [this]; exact exδN_nonneg i j

example : ∃ o, isomapEmbedModel exδN 4 1 true 1 (bruteSearch exδN 4) .lazy (fun _ _ => 0) exSolver exSqrt = .ok o ∧
    o.found.k = 2 ∧ o.found.tried = [1, 2] ∧
    IsTopEig (Mat.toM o.B) (Mat.toM o.V) o.lam ∧
    (∀ j, exSqrt (clamp0 (o.lam j)) * exSqrt (clamp0 (o.lam j)) = clamp0 (o.lam j)) ∧
    (Mat.toM o.Y)ᵀ * Mat.toM o.Y = diagonal (fun _ => (4 : ℚ)) := by
  obtain ⟨o, ho, _, _, _, _, hV, hY, hopt⟩ :=
    isomap_end_to_end exδN (N := 4) (by decide) (k := 1) (by decide) (by decide) 1 exδN_nonneg (bruteSearch exδN 4)
      (bruteSearch_length exδN 4) (fun k hk => bruteSearch_exact (by decide) exδN_self k hk) .lazy (fun _ _ => 0)
      exSolver exSqrt
  have ho' := ho
  unfold isomapEmbedModel at ho'
  simp only [ex_find, ex_allPairs] at ho'
  injection ho' with ho'
  subst ho'
  have hB : Mat.toM (isomapPre (geoMat exF)) = Mat.toM (mdsPre C05.exδ) :=
    congrArg Mat.toM (funext fun i => funext fun j => ex_B i j)
  have htop : IsTopEig (Mat.toM (isomapPre (geoMat exF))) (Mat.toM C05.exV) C05.exLam := by
    rw [hB]; exact C05.ex_isTopEig
  have hs : ∀ j : Fin 1, exSqrt (clamp0 (C05.exLam j)) * exSqrt (clamp0 (C05.exLam j)) = clamp0 (C05.exLam j) := by
    decide +kernel
  refine ⟨_, ho, rfl, rfl, htop, hs, ?_⟩
  have := (hopt htop hs).1
  rw [this]
  congr 1
theorem exδN_metric : (∀ i, exδN i i = 0) ∧ (∀ i j l, exδN i l ≤ exδN i j + exδN j l) ∧ ∀ a b, exδN a b = exδN b a := by
  refine ⟨fun i => by simp [exδN], fun i j l => ?_, fun a b => ?_⟩
  · unfold exδN
    by_cases hi : i < 2 <;> by_cases hj : j < 2 <;> by_cases hl : l < 2 <;> simp [hi, hj, hl]
  · unfold exδN
    by_cases ha : a < 2 <;> by_cases hb : b < 2 <;> simp [ha, hb]

/-- the instance meets the hypotheses of `isomap_full_k_is_mds_end_to_end` (requested `k = 3 = N − 1`) -/
example : ∃ o, isomapEmbedModel exδN 4 (4 - 1) true 1 (bruteSearch exδN 4) .indexed (fun _ _ => 0) exSolver exSqrt = .ok o ∧
    o.found.k = 4 - 1 ∧ o.B = mdsPre (fun i j : Fin 4 => exδN i.1 j.1) :=
  isomap_full_k_is_mds_end_to_end exδN (by decide) 1 exδN_nonneg exδN_metric.1 exδN_metric.2.1 exδN_metric.2.2
    (bruteSearch exδN 4) (bruteSearch_length exδN 4) (fun k hk => bruteSearch_exact (by decide) exδN_self k hk)
    .indexed (fun _ _ => 0) exSolver exSqrt

end TapkeeVerif.IsomapCompose
