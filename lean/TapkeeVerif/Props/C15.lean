import TapkeeVerif.Gen.OmpRegions
import TapkeeVerif.Proofs.OmpTactic
/-!
Property C15 — OpenMP regions are race-free; results do not depend on the thread count.

Per-region statements are about `Gen/OmpRegions.lean`, the access table that `tools/translate_omp.py` regenerates from
the `#pragma omp` regions of the working tree on every run: editing a region's body re-states them.
-/
namespace TapkeeVerif.Omp
open TapkeeVerif.Gen.OmpRegions

/-- the table covers exactly these regions (a new `#pragma omp parallel` in the source needs a theorem here) -/
theorem regions_covered : regionNames =
    ["compute_diffusion_matrix", "compute_distance_matrix_1", "compute_distance_matrix_2",
     "compute_shortest_distances_matrix_1", "compute_shortest_distances_matrix_2",
     "compute_shortest_distances_matrix_1_fib", "compute_shortest_distances_matrix_2_fib",
     "hessian_weight_matrix", "linear_weight_matrix", "matrix_from_callback", "tangent_weight_matrix",
     "triangulate"] := by decide

theorem disjoint_compute_diffusion_matrix : compute_diffusion_matrix.RaceFree := by
  race_free compute_diffusion_matrix
theorem disjoint_compute_distance_matrix_1 : compute_distance_matrix_1.RaceFree := by
  race_free compute_distance_matrix_1
theorem disjoint_compute_distance_matrix_2 : compute_distance_matrix_2.RaceFree := by
  race_free compute_distance_matrix_2
theorem disjoint_compute_shortest_distances_matrix_1 : compute_shortest_distances_matrix_1.RaceFree := by
  race_free compute_shortest_distances_matrix_1
theorem disjoint_compute_shortest_distances_matrix_2 : compute_shortest_distances_matrix_2.RaceFree := by
  race_free compute_shortest_distances_matrix_2
theorem disjoint_compute_shortest_distances_matrix_1_fib : compute_shortest_distances_matrix_1_fib.RaceFree := by
  race_free compute_shortest_distances_matrix_1_fib
theorem disjoint_compute_shortest_distances_matrix_2_fib : compute_shortest_distances_matrix_2_fib.RaceFree := by
  race_free compute_shortest_distances_matrix_2_fib
theorem disjoint_hessian_weight_matrix : hessian_weight_matrix.RaceFree := by
  race_free hessian_weight_matrix
theorem disjoint_linear_weight_matrix : linear_weight_matrix.RaceFree := by
  race_free linear_weight_matrix
theorem disjoint_tangent_weight_matrix : tangent_weight_matrix.RaceFree := by
  race_free tangent_weight_matrix
theorem disjoint_matrix_from_callback : matrix_from_callback.RaceFree := by
  race_free matrix_from_callback
theorem disjoint_triangulate : triangulate.RaceFree := by
  race_free triangulate

end TapkeeVerif.Omp
