import TapkeeVerif.Gen.OmpRegions
import TapkeeVerif.Gen.OmpRegionProofs
import TapkeeVerif.Proofs.OmpTactic
import TapkeeVerif.Proofs.OmpRegion
import Mathlib.Data.Set.Basic
import Mathlib.Algebra.BigOperators.Group.List.Basic
/-!
Property C15 — OpenMP regions are race-free; results do not depend on the thread count.

* generic, once (`Model/Omp.lean`): a race-free parallel loop ends, under EVERY schedule (= every interleaving of
  the per-iteration effect sequences; a `critical` section is one atomic step), in the memory of the single-threaded
  loop, and the container appended to under `critical` holds a permutation of the sequential appends;
  a triplet list determines the assembled sparse matrix up to permutation (exactly, over any commutative monoid —
  in `double` this is the re-association of floating-point sums the property allows);
* per region, over `Gen/OmpRegions.lean` — the access table that `tools/translate_omp.py` regenerates from the
  `#pragma omp` regions of the working tree on every run, so editing a region's body re-states these theorems:
  no two different iterations touch the same shared location, one of them writing, outside `critical`.

Partial by nature (named in the evidence): the theorems speak about the access sets extracted from the source; that
the compiled program performs exactly those accesses is reached only by the differential runs and ThreadSanitizer.
-/
namespace TapkeeVerif.Omp
open TapkeeVerif.Gen.OmpRegions

/-! ### generic theorems -/

variable {V E : Type}

/-- **Schedule independence (interaction-tree form).**  `p.RaceFree` is `∀ i ≠ j, W i ∩ (W j ∪ R j) = ∅` with
    `W`, `R` the locations an iteration may write / read on any control path. -/
theorem race_free_deterministic_prog (p : ParLoop V E) (m0 : Loc → V) (h : p.RaceFree) :
    ∀ σ : List (Fin p.n), p.Complete m0 σ →
      (p.runSched m0 σ).st.mem = (p.sequential m0).mem ∧
      ((p.runSched m0 σ).st.log.map Prod.snd).Perm ((p.sequential m0).log.map Prod.snd) := fun σ hσ =>
  let ⟨hm, hl⟩ := race_free_deterministic' p m0 h σ hσ
  ⟨hm, hl.map _⟩

/-- **Schedule independence** for a loop given as `(n, body : Fin n → List Eff)`,
    `Eff = read loc | write loc val | criticalAppend x`:
    `(∀ i ≠ j, W i ∩ (W j ∪ R j) = ∅) → ∀ σ, finalState (run σ) = finalState sequential`, and the result of the
    critical appends is a permutation of the sequential result. -/
theorem race_free_deterministic (n : Nat) (body : Fin n → List (Eff V E)) (m0 : Loc → V)
    (h : ∀ i j : Fin n, i ≠ j →
      ({l | effW (body i) l} ∩ ({l | effW (body j) l} ∪ {l | effR (body j) l}) : Set Loc) = ∅) :
    ∀ σ : List (Fin n), (ParLoop.ofEffs n body).Complete m0 σ →
      ((ParLoop.ofEffs n body).runSched m0 σ).st.mem = ((ParLoop.ofEffs n body).sequential m0).mem ∧
      (((ParLoop.ofEffs n body).runSched m0 σ).st.log.map Prod.snd).Perm
        (((ParLoop.ofEffs n body).sequential m0).log.map Prod.snd) := by
  refine race_free_deterministic_prog (ParLoop.ofEffs n body) m0 ?_
  intro i j hij l hw
  have hl : l ∉ ({l | effW (body i) l} ∩ ({l | effW (body j) l} ∪ {l | effR (body j) l}) : Set Loc) := by
    rw [h i j hij]; exact fun x => x
  have hwi : effW (body i) l := ofEffs_writes _ _ _ hw
  exact ⟨fun hwj => hl ⟨hwi, .inl (ofEffs_writes _ _ _ hwj)⟩, fun hrj => hl ⟨hwi, .inr (ofEffs_reads _ _ _ hrj)⟩⟩

/-- The hypothesis is needed: two iterations writing the same location end differently under two schedules. -/
example : ∃ (p : ParLoop Nat Unit) (σ₁ σ₂ : List (Fin p.n)), p.Complete (fun _ => 0) σ₁ ∧ p.Complete (fun _ => 0) σ₂ ∧
    (p.runSched (fun _ => 0) σ₁).st.mem ⟨0, 0, 0⟩ ≠ (p.runSched (fun _ => 0) σ₂).st.mem ⟨0, 0, 0⟩ :=
  ⟨⟨2, fun i => .write ⟨0, 0, 0⟩ (i.val + 1) .done⟩, [0, 1], [1, 0],
    fun i => match i with | ⟨0, _⟩ => rfl | ⟨1, _⟩ => rfl,
    fun i => match i with | ⟨0, _⟩ => rfl | ⟨1, _⟩ => rfl, by decide⟩

/-- … and it is satisfiable: every iteration writes its own row. -/
example : (ParLoop.ofEffs 3 (fun i => [Eff.read ⟨0, i.val, 0⟩, Eff.write ⟨0, i.val, 1⟩ (fun h => h.sum + 1),
      Eff.criticalAppend (fun h => h.sum)] : Fin 3 → List (Eff Nat Nat))).RaceFree := by
  intro i j hij l hw
  have hwi := ofEffs_writes _ _ _ hw
  have hne : i.val ≠ j.val := fun e => hij (Fin.ext e)
  obtain ⟨f, hf⟩ := hwi
  simp only [List.mem_cons, List.mem_nil_iff, or_false, reduceCtorEq, false_or, Eff.write.injEq] at hf
  obtain ⟨rfl, -⟩ := hf
  constructor
  · intro hwj
    obtain ⟨g, hg⟩ := ofEffs_writes _ _ _ hwj
    simp only [List.mem_cons, List.mem_nil_iff, or_false, reduceCtorEq, false_or, Eff.write.injEq, Loc.mk.injEq] at hg
    exact hne hg.1.2.1
  · intro hrj
    have hg := ofEffs_reads _ _ _ hrj
    simp only [effR, List.mem_cons, List.mem_nil_iff, or_false, reduceCtorEq, or_false, Eff.read.injEq,
      Loc.mk.injEq] at hg
    omega

/-- The assembled sparse matrix does not depend on the order of the triplets
    (`l₁.Perm l₂ → fromTriplets l₁ = fromTriplets l₂` over a commutative monoid). -/
theorem triplet_sum_perm_invariant {K : Type} [AddCommMonoid K] {l₁ l₂ : List (Nat × Nat × K)}
    (h : l₁.Perm l₂) : fromTriplets l₁ = fromTriplets l₂ := by
  funext r c
  show ((l₁.filter _).map _).sum = ((l₂.filter _).map _).sum
  exact ((h.filter _).map _).sum_eq

/-- non-vacuity: duplicates are summed, order is irrelevant -/
example : fromTriplets [(0, 1, (2 : Int)), (1, 1, 5), (0, 1, 3)] 0 1 = 5 ∧
    fromTriplets [(0, 1, (3 : Int)), (0, 1, 2), (1, 1, 5)] 0 1 = 5 := by decide

/-- **Table ⇒ schedule independence.**  Any loop whose iterations perform only the accesses listed in a race-free
    region table (`Conforms`: writes inside the table's write footprint of that iteration, reads of written locations
    inside its read/write footprint; appends under `critical` are the model's `crit` steps) has a schedule-independent
    final memory and, up to permutation, critical log. -/
theorem region_deterministic (r : Region) (hr : r.RaceFree) (p : ParLoop V E) (s : Nat → Nat)
    (hc : p.Conforms r s) (m0 : Loc → V) :
    ∀ σ : List (Fin p.n), p.Complete m0 σ →
      (p.runSched m0 σ).st.mem = (p.sequential m0).mem ∧
      ((p.runSched m0 σ).st.log.map Prod.snd).Perm ((p.sequential m0).log.map Prod.snd) :=
  race_free_deterministic_prog p m0 (raceFree_of_conforms r hr p s hc)

/-- non-vacuity of `region_deterministic`: a row-owner table (the shape of the triangulation / geodesic regions) and a
    concrete three-iteration loop that conforms to it -/
def demoRegion : Region where
  name := "demo"; file := ""; func := ""; config := ""; loopVar := "i"; loopLo := "0"; loopHi := "n"
  syms := ["n"]; lo := fun _ => 0; hi := fun s => s 0
  arrays := ["M"]; privateVars := []; sharedReadOnly := []; reentrantCalls := []; clauses := []
  accesses := [{ arr := 0, arrName := "M", kind := .write, critical := false, inLoop := true, vars := [],
                 guard := fun _ _ _ => true, row := fun _ _ i => some i, col := fun _ _ _ => none, src := "M.row(i) = …" }]

example : demoRegion.RaceFree ∧
    (⟨3, fun k => .write ⟨0, k.val, 1⟩ (k.val + 7) .done⟩ : ParLoop Nat Unit).Conforms demoRegion (fun _ => 3) := by
  refine ⟨by race_free demoRegion, ⟨by decide, ?_, ?_⟩⟩
  · intro k l hw
    cases hw with
    | here =>
      exact ⟨_, List.mem_cons_self .., rfl, rfl, rfl, rfl, fun _ => 0, rfl, by simp [demoRegion], by simp⟩
    | write_k h => cases h
  · intro k l hr
    cases hr with
    | write_k h => cases h

/-! ### per region, over the generated table

`Gen/OmpRegionProofs.lean` (regenerated together with the table) states `disjoint_<region> : <region>.RaceFree` for
EVERY region of the table and closes each with the one generic tactic `race_free` (enumerate the pairs of table rows,
unfold the index functions, `omega`): a region whose accesses are not disjoint breaks the build of this module, a new
or renamed parallel function needs no hand-written statement.  The theorems below name the regions of the current
tree by the function they live in. -/

open TapkeeVerif.Gen.OmpRegionProofs

/-- every region of the table is race free: no two different iterations touch the same shared location, one of them
    writing, unless both accesses are inside `critical` (or both are `atomic`) -/
theorem all_regions_race_free : ∀ r ∈ allRegions, r.RaceFree := all_race_free

/-- the table is not trivially race free: every region has a write to a shared variable, there are regions, and the
    list of names is the list of regions -/
theorem regions_covered :
    (∀ r ∈ allRegions, r.hasWrite = true) ∧ allRegions ≠ [] ∧ regionNames = allRegions.map (·.name) := by decide

/-- Gaussian kernel matrix: iteration `i` writes `{(i,j),(j,i) | j ≥ i}`; `(i,j) = (j',i')`, `j' ≥ i' ≠ i` is contradictory -/
theorem disjoint_compute_diffusion_matrix :
    ∀ r ∈ allRegions, r.func = "compute_diffusion_matrix" → r.RaceFree := fun r hr _ => all_race_free r hr
/-- distance matrices (all samples / landmarks): the same symmetric pair pattern -/
theorem disjoint_compute_distance_matrix :
    ∀ r ∈ allRegions, r.func = "compute_distance_matrix" → r.RaceFree := fun r hr _ => all_race_free r hr
/-- Isomap and landmark Isomap geodesics, priority-queue and Fibonacci-heap builds: iteration `k` writes and reads row
    `k` only; heap, `s`, `f` are private -/
theorem disjoint_compute_shortest_distances_matrix :
    ∀ r ∈ allRegions, r.func = "compute_shortest_distances_matrix" → r.RaceFree := fun r hr _ => all_race_free r hr
/-- weight matrices: the only shared access is the append under `critical` -/
theorem disjoint_weight_matrices :
    ∀ r ∈ allRegions, r.func ∈ ["linear_weight_matrix", "tangent_weight_matrix", "hessian_weight_matrix"] → r.RaceFree :=
  fun r hr _ => all_race_free r hr
/-- CLI `matrix_from_callback`: symmetric pair pattern; `j` is `private(j)`, `i` the loop variable -/
theorem disjoint_matrix_from_callback :
    ∀ r ∈ allRegions, r.func = "matrix_from_callback" → r.RaceFree := fun r hr _ => all_race_free r hr
/-- landmark triangulation: iteration `index_iter` writes row `index_iter` only -/
theorem disjoint_triangulate :
    ∀ r ∈ allRegions, r.func = "triangulate" → r.RaceFree := fun r hr _ => all_race_free r hr

/-- the per-function statements above are not vacuous on the current tree: each of these functions has a region -/
theorem known_regions_present :
    ∀ f ∈ ["compute_diffusion_matrix", "compute_distance_matrix", "compute_shortest_distances_matrix",
           "linear_weight_matrix", "tangent_weight_matrix", "hessian_weight_matrix", "matrix_from_callback", "triangulate"],
      (allRegions.any fun r => r.func == f) = true := by decide

/-- distance / geodesic / diffusion / triangulation / CLI regions have no critical section at all: by
    `region_deterministic` their result is schedule independent bit for bit -/
theorem exact_regions_no_critical :
    ∀ r ∈ allRegions, r.func ∈ ["compute_diffusion_matrix", "compute_distance_matrix",
      "compute_shortest_distances_matrix", "matrix_from_callback", "triangulate"] → r.noCritical = true := by decide

/-- in the three weight-matrix regions everything shared happens under `critical` and is an append to one container:
    the triplet list is schedule independent up to permutation, hence (`triplet_sum_perm_invariant`) so is the matrix -/
theorem weight_regions_critical_append_only :
    ∀ r ∈ allRegions, r.func ∈ ["linear_weight_matrix", "tangent_weight_matrix", "hessian_weight_matrix"] →
      r.criticalAppendOnly = true ∧ r.arrays = ["sparse_triplets"] ∧ r.accesses.all (·.critical) = true := by decide

end TapkeeVerif.Omp
