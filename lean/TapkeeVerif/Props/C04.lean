import Mathlib.Algebra.Order.Ring.Rat
import Mathlib.Algebra.Order.Group.Nat
import TapkeeVerif.Proofs.DijkstraMain
import TapkeeVerif.Proofs.IsomapPreAlgebra
import TapkeeVerif.Proofs.DijkstraFib
/-!
# Property C04 — Isomap geodesics are exact shortest paths; Isomap is classical MDS of them

Subjects: the executable model of `compute_shortest_distances_matrix` (`Model/Dijkstra.lean`: both overloads,
both queue disciplines, explicit tie-breaking streams, thread schedules in `Model/DijkstraSched.lean`) and of the
statements of `IsomapImplementation::embed` before the eigensolver (`Model/IsomapPre.lean`, statement list and flag
index regenerated from the source into `Gen/IsomapSteps.lean`).  The model is tied to the code by
`checks/c04.py` on every run.

All theorems hold for every number of samples, every `k`, every neighbour-list content satisfying `WF`, every
non-negative weight function into any linearly ordered additive monoid (`ℚ`, `ℝ`, `ℕ`, …), every tie-breaking
stream and every schedule.

History.  Two full statements were false of the code at the pinned commit; each was first represented here by a
refutation with a concrete, kernel-checked witness (reproduced on the real code by the check) next to a `_partial`
theorem, and is now proved in full for the repaired source (the generated `Gen/IsomapSteps.lean` follows the source;
undoing a repair makes the corresponding theorem below fail to compile):

* `landmark_row_eq_full_row` for the Fibonacci build — F-LISOMAP-FLAG (`f[k]` instead of `f[landmarks[k]]`;
  witness: `flagWitness`, landmarks `[1]`: landmark row `[1, 0, dblmax]`, full row `[1, 0, 2]`);
* `isomap_is_cmds` for asymmetric directed geodesics — F-ISOMAP-ASYM (`centerMatrix` subtracts column means on
  both sides; witness: `asymD`: `5/16` instead of `19/16` at `(0,0)`).
-/
namespace TapkeeVerif.Dijkstra
set_option linter.unusedSectionVars false

variable {K : Type} [AddCommMonoid K] [LinearOrder K] [IsOrderedAddMonoid K]

/-! ## The queue's non-determinism -/

/-- `popMin` always removes exactly one entry and that entry has minimal key, whatever the choice `c`. -/
theorem popMin_removes_a_minimum {c : Nat} {q q' : List (Nat × K)} {e : Nat × K} (h : popMin c q = some (e, q')) :
    ∃ l₁ l₂, q = l₁ ++ e :: l₂ ∧ q' = l₁ ++ l₂ ∧ ∀ x ∈ q, e.2 ≤ x.2 := popMin_spec h

/-- Conversely every entry of minimal key is removed by some choice: quantifying over choice streams is
    quantifying over every tie-breaking behaviour of `std::priority_queue` / `fibonacci_heap`. -/
theorem choice_covers_every_minimum {l₁ l₂ : List (Nat × K)} {e : Nat × K}
    (hmin : ∀ x ∈ l₁ ++ e :: l₂, e.2 ≤ x.2) : ∃ c, popMin c (l₁ ++ e :: l₂) = some (e, l₁ ++ l₂) :=
  popMin_complete hmin

/-! ## Exactness -/

/-- **dijkstra_exact.**  On uniform lists with non-negative weights, for both queue disciplines and *every*
    tie-breaking stream, the row computed for source `s` exists (no undefined behaviour, fuel not exhausted) and
    holds, for every `v`, the length of a shortest directed walk from `s` to `v`, and `none` (`dblmax`) exactly
    when `v` is unreachable. -/
theorem dijkstra_exact {P : Problem K} {k : Nat} (hwf : WF P k) (hw : ∀ a b, 0 ≤ P.w a b)
    (disc : Disc) (ch : Nat → Nat) {s : Nat} (hs : s < P.N) :
    ∃ r, row P disc k ch s s = .ok r ∧ ∀ v (hv : v < P.N), IsGeodesic P k s v r[v] := by
  obtain ⟨r, hr⟩ := row_ok ch hwf hw (Or.inr rfl) hs hs
  exact ⟨r, hr, fun v hv => row_geodesic hw (Or.inr rfl) hr v hv⟩

/-- the same for the whole matrix of the first overload -/
theorem allPairs_is_geodesic_matrix {P : Problem K} {k : Nat} (hwf : WF P k) (hw : ∀ a b, 0 ≤ P.w a b)
    (hk : P.k? = some k) (disc : Disc) (ch : Nat → Nat → Nat) :
    ∃ F, allPairs P disc ch = .ok F ∧ F.length = P.N ∧
      ∀ s v (hs : s < F.length) (hv : v < P.N), IsGeodesic P k s v (F[s])[v] :=
  allPairs_exact hwf hw hk disc ch

/-- **backends_agree.**  The priority-queue build and the Fibonacci-heap build return the same matrix, whatever
    ties each of them breaks in whatever way. -/
theorem backends_agree {P : Problem K} {k : Nat} (hwf : WF P k) (hw : ∀ a b, 0 ≤ P.w a b) (hk : P.k? = some k)
    (ch ch' : Nat → Nat → Nat) : allPairs P .lazy ch = allPairs P .indexed ch' := by
  obtain ⟨F, hF, hlen, hg⟩ := allPairs_exact hwf hw hk .lazy ch
  obtain ⟨F', hF', hlen', hg'⟩ := allPairs_exact hwf hw hk .indexed ch'
  rw [hF, hF']
  congr 1
  apply List.ext_getElem (by rw [hlen, hlen'])
  intro s h1 h2
  apply Vector.ext
  intro v hv
  exact (hg s v h1 hv).unique (hg' s v h2 hv)

/-- **diag_zero.** -/
theorem diag_zero {P : Problem K} {k : Nat} (hw : ∀ a b, 0 ≤ P.w a b) {disc : Disc} {ch : Nat → Nat} {s : Nat}
    (hs : s < P.N) {r : Vector (Option K) P.N} (hr : row P disc k ch s s = .ok r) : r[s] = some 0 :=
  (row_geodesic hw (Or.inr rfl) hr s hs).diag_zero hw hs

/-- **ge_direct.**  For metric weights no geodesic is below the direct distance. -/
theorem ge_direct {P : Problem K} {k : Nat} (hw : ∀ a b, 0 ≤ P.w a b) (hm : Metric P) {disc : Disc}
    {ch : Nat → Nat} {s v : Nat} (hv : v < P.N) {r : Vector (Option K) P.N}
    (hr : row P disc k ch s s = .ok r) {d : K} (hd : r[v] = some d) : P.w s v ≤ d := by
  have := row_geodesic hw (Or.inr rfl) hr v hv
  rw [hd] at this
  exact this.ge_direct hm

/-- **le_edge.**  A neighbour is never farther than its edge. -/
theorem le_edge {P : Problem K} {k : Nat} (hw : ∀ a b, 0 ≤ P.w a b) {disc : Disc} {ch : Nat → Nat} {s v : Nat}
    (he : Edge P k s v) {r : Vector (Option K) P.N} (hr : row P disc k ch s s = .ok r) :
    ∃ d, r[v]'he.2.1 = some d ∧ d ≤ P.w s v :=
  (row_geodesic hw (Or.inr rfl) hr v he.2.1).le_edge he

/-- **fuel_suffices** (termination of the relax loop, absence of undefined behaviour): with the fuel
    `fuelFor N k = (k+1)·N + 2` that the driver passes, `row` never ends in an error — neither `fuel` nor `oob`. -/
theorem fuel_suffices {P : Problem K} {k : Nat} (hwf : WF P k) (hw : ∀ a b, 0 ≤ P.w a b) (disc : Disc)
    (ch : Nat → Nat) {src flag : Nat} (hflag : disc = .lazy ∨ flag = src) (hs : src < P.N) (hf : flag < P.N)
    (e : Err) : row P disc k ch src flag ≠ .error e := by
  obtain ⟨r, hr⟩ := row_ok ch hwf hw hflag hs hf
  rw [hr]
  exact fun h => by cases h

/-! ## Landmark rows -/

/-- landmark rows, priority-queue build: every landmark row is the corresponding row of the full matrix (of either
    build) — the frontier flag is write-only in this build, so this holds whatever index the flag statement uses. -/
theorem landmark_row_eq_full_row_any_lazy {P : Problem K} {k : Nat} (hw : ∀ a b, 0 ≤ P.w a b) (hk : P.k? = some k)
    {disc' : Disc} {ch ch' : Nat → Nat → Nat} {lm : List Nat} {L F : List (Vector (Option K) P.N)}
    (hL : landmarkRows P .lazy ch lm = .ok L) (hF : allPairs P disc' ch' = .ok F)
    {r : Nat} (hr : r < lm.length) (hlr : lm[r] < P.N) :
    L[r]? = F[lm[r]]? := by
  obtain ⟨hlenL, hrowL⟩ := landmarkRows_rows hk hL
  obtain ⟨hlenF, hrowF⟩ := allPairs_rows hk hF
  have h1 : r < L.length := by omega
  have h2 : lm[r] < F.length := by omega
  rw [List.getElem?_eq_getElem h1, List.getElem?_eq_getElem h2]
  congr 1
  apply Vector.ext
  intro v hv
  exact (row_geodesic hw (Or.inl rfl) (hrowL r hr h1) v hv).unique
    (row_geodesic hw (Or.inr rfl) (hrowF _ hlr h2) v hv)

/-- landmark rows, Fibonacci build, conditional form: a landmark row equals the row of the full matrix whenever the
    frontier flag set before the loop is the landmark vertex's own flag (the hypothesis the generated flag index must
    meet; while F-LISOMAP-FLAG was open this was all that could be proved). -/
theorem landmark_row_eq_full_row_of_flag {P : Problem K} {k : Nat} (hw : ∀ a b, 0 ≤ P.w a b) (hk : P.k? = some k)
    {disc : Disc} {ch ch' : Nat → Nat → Nat} {lm : List Nat} {L F : List (Vector (Option K) P.N)}
    (hL : landmarkRows P .indexed ch lm = .ok L) (hF : allPairs P disc ch' = .ok F)
    {r : Nat} (hr : r < lm.length) (hlr : lm[r] < P.N) (hflag : Gen.Isomap.landmarkFlag r lm[r] = lm[r]) :
    L[r]? = F[lm[r]]? := by
  obtain ⟨hlenL, hrowL⟩ := landmarkRows_rows hk hL
  obtain ⟨hlenF, hrowF⟩ := allPairs_rows hk hF
  have h1 : r < L.length := by omega
  have h2 : lm[r] < F.length := by omega
  rw [List.getElem?_eq_getElem h1, List.getElem?_eq_getElem h2]
  congr 1
  apply Vector.ext
  intro v hv
  exact (row_geodesic hw (Or.inr hflag) (hrowL r hr h1) v hv).unique
    (row_geodesic hw (Or.inr rfl) (hrowF _ hlr h2) v hv)

/-- the witness of F-LISOMAP-FLAG: three samples, one neighbour each (`1 → 0 → 2 → 2`), unit weights,
    the single landmark `1` stored at position `0` -/
def flagWitness : Problem Nat := { N := 3, nbrs := #[#[2], #[0], #[2]], w := fun _ _ => 1 }

example : WF flagWitness 1 := by
  intro u hu i hi
  have hi0 : i = 0 := by omega
  subst hi0
  have : u = 0 ∨ u = 1 ∨ u = 2 := by
    have : u < 3 := hu
    omega
  rcases this with rfl | rfl | rfl <;> exact ⟨_, rfl, by decide⟩

/-- **landmark_row_eq_full_row** (full statement, Fibonacci build; F-LISOMAP-FLAG repaired): every landmark row
    equals the corresponding row of the full matrix of either build, for every landmark list (any order, repeats
    allowed) and all tie-breaking streams.  Stated over the generated flag index: it compiles only while the source
    sets the frontier flag of the landmark *vertex*. -/
theorem landmark_row_eq_full_row {P : Problem K} {k : Nat} (hw : ∀ a b, 0 ≤ P.w a b) (hk : P.k? = some k)
    {disc disc' : Disc} {ch ch' : Nat → Nat → Nat} {lm : List Nat} {L F : List (Vector (Option K) P.N)}
    (hL : landmarkRows P disc ch lm = .ok L) (hF : allPairs P disc' ch' = .ok F)
    {r : Nat} (hr : r < lm.length) (hlr : lm[r] < P.N) :
    L[r]? = F[lm[r]]? := by
  cases disc with
  | lazy => exact landmark_row_eq_full_row_any_lazy hw hk hL hF hr hlr
  | indexed => exact landmark_row_eq_full_row_of_flag hw hk hL hF hr hlr rfl

/-- on the former witness of F-LISOMAP-FLAG the Fibonacci build now returns the row of the full matrix -/
example : landmarkRows flagWitness .indexed (fun _ _ => 0) [1] = .ok [#v[some 1, some 0, some 2]] := by decide

/-- the landmark overload never fails on valid landmarks (no out-of-bounds flag write, whatever the number of
    landmarks): every landmark row exists -/
theorem landmarkRows_ok {P : Problem K} {k : Nat} (hwf : WF P k) (hw : ∀ a b, 0 ≤ P.w a b) (hk : P.k? = some k)
    (disc : Disc) (ch : Nat → Nat → Nat) {lm : List Nat} (hlm : ∀ l ∈ lm, l < P.N) :
    ∃ L, landmarkRows P disc ch lm = .ok L := by
  have hrow : ∀ r (hr : r < lm.length), ∃ row', row P disc k (ch r) lm[r] (Gen.Isomap.landmarkFlag r lm[r]) = .ok row' :=
    fun r hr => row_ok (ch r) hwf hw (Or.inr rfl) (hlm _ (List.getElem_mem hr)) (hlm _ (List.getElem_mem hr))
  classical
  let res : Nat → Vector (Option K) P.N := fun r =>
    if hr : r < lm.length then Classical.choose (hrow r hr) else Vector.replicate P.N none
  refine ⟨_, landmarkRows_ok_of_rows hk lm res ?_⟩
  intro r hr
  simp only [res, hr, dite_true]
  exact Classical.choose_spec (hrow r hr)

/-- non-vacuity of the hypotheses used above: `flagWitness` has uniform lists and non-negative weights, and the
    discrete metric on it is a `Metric` -/
example : WF flagWitness 1 ∧ (∀ a b, 0 ≤ flagWitness.w a b) ∧ flagWitness.k? = some 1 := by
  refine ⟨?_, fun _ _ => Nat.zero_le _, rfl⟩
  intro u hu i hi
  have hi0 : i = 0 := by omega
  subst hi0
  have : u = 0 ∨ u = 1 ∨ u = 2 := by
    have : u < 3 := hu
    omega
  rcases this with rfl | rfl | rfl <;> exact ⟨_, rfl, by decide⟩

example : Metric ({ flagWitness with w := fun i j => if i = j then 0 else 1 } : Problem Nat) := by
  refine ⟨fun i => by simp, ?_⟩
  intro i j l
  simp only
  by_cases h1 : i = l <;> by_cases h2 : i = j <;> by_cases h3 : j = l <;> simp_all

/-- the exactness theorems are not vacuous on it either: the model returns the geodesic matrix -/
example : allPairs flagWitness .lazy (fun _ _ => 0) =
    .ok [#v[some 0, none, some 1], #v[some 1, some 0, some 2], #v[none, none, some 0]] := by decide

/-! ## The Fibonacci build on top of property C16 -/

/-- **fib_build_refines_indexed.**  `Model/DijkstraFib.lean` runs the relax loop of the Fibonacci build with the
    *concrete* heap model of property C16 (`Model/FibHeap.lean`: rings, `consolidate`, cascading cuts).  By C16's
    one-step refinement theorem (`FibHeap.step_ok`: every heap operation is an operation of the finite-map
    specification, `extract_min` returns an arg-min) every run of it is a run of the abstract `indexed` discipline
    for some tie-breaking stream … -/
theorem fib_build_refines_indexed {P : Problem Int} {k : Nat} (hw : ∀ a b, 0 ≤ P.w a b) {src : Nat}
    {r : Vector (Option Int) P.N} (h : fibRow P k src src = .ok r) :
    ∃ ch, row P .indexed k ch src src = .ok r := fibRow_refines hw h

/-- … hence the Fibonacci build with the real heap's own tie-breaking returns the geodesic distances. -/
theorem fib_build_exact {P : Problem Int} {k : Nat} (hw : ∀ a b, 0 ≤ P.w a b) {src : Nat}
    {r : Vector (Option Int) P.N} (h : fibRow P k src src = .ok r) (v : Nat) (hv : v < P.N) :
    IsGeodesic P k src v r[v] := by
  obtain ⟨ch, hch⟩ := fibRow_refines hw h
  exact row_geodesic hw (Or.inr rfl) hch v hv

/-- **fib_build_total**: and it always returns — on uniform lists with non-negative weights the concrete-heap build
    never reaches an error state of the heap model (C16 `no_oob` / `no_corrupt`, used per operation), never indexes out
    of bounds and never exhausts `fuelFor`. -/
theorem fib_build_total {P : Problem Int} {k : Nat} (hwf : WF P k) (hw : ∀ a b, 0 ≤ P.w a b) {src : Nat}
    (hs : src < P.N) : ∃ r, fibRow P k src src = .ok r := fibRow_ok hwf hw hs

/-- not vacuous: on the 3-sample example the concrete-heap model returns the geodesic rows -/
example : fibAllPairs { flagWitness with w := fun _ _ => (1 : Int) } =
    .ok [#v[some 0, none, some 1], #v[some 1, some 0, some 2], #v[none, none, some 0]] := by decide

/-! ## Threads -/

/-- **rows_independent.**  Let every loop index `r < R` of the `omp for` loop succeed sequentially with result
    `res r` (`row` depends on `(P, k, r)` and the tie-breaking stream only).  Then *every* schedule — any number of
    threads, any assignment of loop indices to threads, any global order of the iterations, arbitrary initial
    contents of the result matrix and of every thread's `f`/`s` arrays — that executes each loop index exactly once
    ends with row `r` of the shared matrix equal to `res r`: the write set of iteration `r` is row `r`, and nothing
    an iteration reads survives from another iteration. -/
theorem rows_independent {K : Type} [LinearOrder K] [Add K] [Zero K]
    (P : Problem K) (disc : Disc) (k : Nat) (ch : Nat → Nat → Nat) (srcOf flagOf : Nat → Nat)
    (res : Nat → Vector (Option K) P.N) (R : Nat)
    (hres : ∀ r, r < R → row P disc k (ch r) (srcOf r) (flagOf r) = .ok (res r))
    (sched : List (Nat × Nat)) (W₀ : World K P.N)
    (hthreads : ∀ e ∈ sched, e.1 < W₀.scr.length) (honce : (sched.map Prod.snd).Perm (List.range R))
    (hrows : W₀.rows.length = R) (hheaps : ∀ scr ∈ W₀.scr, scr.heap = []) :
    ∃ W, runSchedule P disc k ch srcOf flagOf sched W₀ = .ok W ∧ W.rows = (List.range R).map res := by
  have hmem : ∀ e ∈ sched, e.2 < R := by
    intro e he
    have : e.2 ∈ sched.map Prod.snd := List.mem_map_of_mem (f := Prod.snd) he
    exact List.mem_range.mp (honce.mem_iff.mp this)
  obtain ⟨W, hrun, hlen, hdone, _⟩ := runSchedule_rows P disc k ch srcOf flagOf res sched W₀
    (fun e he => ⟨hthreads e he, by rw [hrows]; exact hmem e he⟩)
    (fun e he => hres e.2 (hmem e he))
    (honce.nodup_iff.mpr List.nodup_range)
    hheaps
  refine ⟨W, hrun, ?_⟩
  apply List.ext_getElem?
  intro r
  by_cases hr : r < R
  · rw [hdone r (honce.mem_iff.mpr (List.mem_range.mpr hr))]
    simp [hr]
  · rw [List.getElem?_eq_none (by omega), List.getElem?_eq_none (by simp; omega)]

/-- `rows_independent` for the first overload: every schedule computes the matrix `allPairs` returns. -/
theorem allPairs_schedule_independent {K : Type} [LinearOrder K] [Add K] [Zero K]
    {P : Problem K} {k : Nat} {disc : Disc} {ch : Nat → Nat → Nat} (hk : P.k? = some k)
    {F : List (Vector (Option K) P.N)} (hF : allPairs P disc ch = .ok F)
    (sched : List (Nat × Nat)) (W₀ : World K P.N)
    (hthreads : ∀ e ∈ sched, e.1 < W₀.scr.length) (honce : (sched.map Prod.snd).Perm (List.range P.N))
    (hrows : W₀.rows.length = P.N) (hheaps : ∀ scr ∈ W₀.scr, scr.heap = []) :
    ∃ W, runSchedule P disc k ch id id sched W₀ = .ok W ∧ W.rows = F := by
  unfold allPairs at hF
  simp only [hk] at hF
  obtain ⟨hlen, hget⟩ := mapM_except_getElem hF
  simp only [List.length_range] at hlen
  let res : Nat → Vector (Option K) P.N := fun s => if hs : s < F.length then F[s] else Vector.replicate P.N none
  have hres : ∀ r, r < P.N → row P disc k (ch r) (id r) (id r) = .ok (res r) := by
    intro r hr
    have hr' : r < F.length := by omega
    have := hget r (by simpa using hr) hr'
    simp only [res, hr', dite_true, id]
    simpa using this
  obtain ⟨W, hrun, hW⟩ := rows_independent P disc k ch id id res P.N hres sched W₀ hthreads honce hrows hheaps
  refine ⟨W, hrun, ?_⟩
  rw [hW]
  apply List.ext_getElem (by simp [hlen])
  intro i h1 h2
  simp only [List.getElem_map, List.getElem_range, res, h2, dite_true]

/-! ## The oracle run on the implementation's output -/

/-- **isShortestPathMatrix_sound.**  The decidable oracle (Floyd–Warshall over `Option K` plus a certificate check
    of its result) accepts only the matrix of geodesic distances — for any weights, no sign assumption. -/
theorem isShortestPathMatrix_sound {P : Problem K} {k : Nat} {D : Tab K} (h : isShortestPathMatrix P k D = true)
    {s v : Nat} (hs : s < P.N) (hv : v < P.N) : IsGeodesic P k s v (D.get s v) := oracle_sound h hs hv

/-- hence an accepted table coincides with what the model computes -/
theorem oracle_agrees_with_model {P : Problem K} {k : Nat} (hw : ∀ a b, 0 ≤ P.w a b) {D : Tab K}
    (h : isShortestPathMatrix P k D = true) {disc : Disc} {ch : Nat → Nat} {s v : Nat} (hs : s < P.N) (hv : v < P.N)
    {r : Vector (Option K) P.N} (hr : row P disc k ch s s = .ok r) : D.get s v = r[v] :=
  (oracle_sound h hs hv).unique (row_geodesic hw (Or.inr rfl) hr v hv)

end TapkeeVerif.Dijkstra

/-! ## Isomap is classical MDS of the geodesics -/
namespace TapkeeVerif.IsomapPre
open TapkeeVerif
set_option linter.unusedSectionVars false

variable {K : Type} [Field K] [CharZero K] {n : Nat}

/-- **center_eq_JAJ.**  `centerMatrix` (utils/matrix.hpp) is double centring `J·A·J` — for symmetric `A`. -/
theorem center_eq_JAJ (hn : (n : K) ≠ 0) {A : Mat n n K} (hA : ∀ i j, A i j = A j i) :
    centerMatrixIso A = Mat.mul (Mat.mul centering A) centering := by
  funext i j
  have h1 := center_scale_eq_cmds hn hA i j
  unfold cmds at h1
  have h2 : (((-1 : Int) : K) / ((2 : Nat) : K)) = -(((1 : Nat) : K) / ((2 : Nat) : K)) := by
    push_cast
    ring
  rw [h2, mul_comm] at h1
  have h3 : -(((1 : Nat) : K) / ((2 : Nat) : K)) ≠ 0 := by
    push_cast
    norm_num
  exact mul_left_cancel₀ h3 h1

/-- the generated statement list is the one the theorems below are about (fails to compile when the statements of
    `IsomapImplementation::embed` change in substance: they must then be re-proved for the new list; spelling
    variants are normalised by the translator).  Whether the dense solver symmetrises its input is NOT fixed here:
    `isomap_is_cmds` holds for both shapes. -/
theorem isomapSteps_as_written :
    Gen.Isomap.isomapSteps = [.square, .symmetrise, .center, .scale (-1) 2] := rfl

/-- the matrix handed to the eigensolver is `−½ J S J`, `S` the squared geodesics with the two directions averaged -/
theorem isomapPre_eq_cmds (hn : (n : K) ≠ 0) (D : Mat n n K) : isomapPre D = cmds (avgSquares D) := by
  unfold isomapPre
  rw [isomapSteps_as_written]
  exact steps_fixed hn D

/-- **isomap_is_cmds** (full statement; F-ISOMAP-ASYM repaired): for *every* geodesic matrix — symmetric or not —
    what the dense eigensolver decomposes (after its own `(A + Aᵀ)/2`, if it has one) is the classical-MDS matrix `−½ J S J` of the
    squared geodesics with the two directions averaged. -/
theorem isomap_is_cmds (hn : (n : K) ≠ 0) (D : Mat n n K) :
    denseSolverInput (isomapPre D) = cmds (avgSquares D) := by
  unfold denseSolverInput
  rw [isomapPre_eq_cmds hn]
  -- with or without the dense solver's own `(A + Aᵀ)/2`: the matrix is symmetric already
  split
  · exact denseSym_of_symm (cmds_symm hn (avgSquares_symm D))
  · rfl

/-- the same statement for either shape of the dense solver's preamble, spelled out -/
theorem isomap_is_cmds_either_dense_preamble (hn : (n : K) ≠ 0) (D : Mat n n K) :
    denseSym (isomapPre D) = cmds (avgSquares D) ∧ isomapPre D = cmds (avgSquares D) := by
  rw [isomapPre_eq_cmds hn]
  exact ⟨denseSym_of_symm (cmds_symm hn (avgSquares_symm D)), rfl⟩

/-- the matrix handed to the solver is symmetric, so every solver path (dense; randomized, which reads the upper
    triangle only) sees the same matrix — F-RAND-UPPER cannot arise for Isomap -/
theorem isomapPre_symm (hn : (n : K) ≠ 0) (D : Mat n n K) (i j : Fin n) : isomapPre D i j = isomapPre D j i := by
  rw [isomapPre_eq_cmds hn]
  exact cmds_symm hn (avgSquares_symm D) i j

/-- the statements as they were before the repair (`square, center, scale`) give classical MDS only for symmetric
    geodesics (this was `isomap_is_cmds_partial`) … -/
theorem isomap_is_cmds_unrepaired_symm (hn : (n : K) ≠ 0) {D : Mat n n K} (hD : ∀ i j, D i j = D j i) :
    denseSym ([Gen.Isomap.Step.square, .center, .scale (-1) 2].foldl applyStep D) = cmds (avgSquares D) :=
  steps_current_symm hn hD

/-- geodesic matrix of the 4 samples with symmetric metric distances
    `[[0,1,2,3],[1,0,3,4],[2,3,0,2],[3,4,2,0]]` and their (unambiguous) 2-nearest-neighbour lists
    `[[1,2],[0,2],[0,3],[2,0]]`: `3 → 0` is an edge, `0 → 3` is not, so `d(0,3) = 4 ≠ 3 = d(3,0)` -/
def asymD : Mat 4 4 ℚ := fun i j =>
  (([[0, 1, 2, 4], [1, 0, 3, 5], [2, 3, 0, 2], [3, 4, 2, 0]] : List (List ℚ)).getD i.1 []).getD j.1 0

/-- the graph of `asymD` -/
def asymP : Dijkstra.Problem ℚ :=
  { N := 4, nbrs := #[#[1, 2], #[0, 2], #[0, 3], #[2, 0]],
    w := fun i j => (([[0, 1, 2, 3], [1, 0, 3, 4], [2, 3, 0, 2], [3, 4, 2, 0]] : List (List ℚ)).getD i []).getD j 0 }

/-- `asymD` is what the model computes on `asymP`: directed geodesics are asymmetric although the distances are
    symmetric -/
theorem asymD_is_geodesic_matrix :
    Dijkstra.allPairs asymP .lazy (fun _ _ => 0) =
      .ok [#v[some 0, some 1, some 2, some 4], #v[some 1, some 0, some 3, some 5],
           #v[some 2, some 3, some 0, some 2], #v[some 3, some 4, some 2, some 0]] := by
  decide +kernel

/-- … and not otherwise (this was `isomap_is_cmds_refuted`, the Lean witness of F-ISOMAP-ASYM): on `asymD` the
    unrepaired statements put `5/16` at `(0,0)` where classical MDS of the averaged squares has `19/16`. -/
theorem isomap_is_cmds_unrepaired_refuted :
    ¬ ∀ (n : Nat) (D : Mat n n ℚ),
        denseSym ([Gen.Isomap.Step.square, .center, .scale (-1) 2].foldl applyStep D) = cmds (avgSquares D) := by
  intro h
  have h00 := congrFun (congrFun (h 4 asymD) 0) 0
  have h1 : denseSym ([Gen.Isomap.Step.square, .center, .scale (-1) 2].foldl applyStep asymD) 0 0 = 5 / 16 := by
    simp only [List.foldl, applyStep, denseSym, centerMatrixIso_apply, colMeans_apply, grandMean_eq, squareEntries,
      Fin.sum_univ_four]
    simp [asymD]
    norm_num
  have h2 : cmds (avgSquares asymD) 0 0 = 19 / 16 := by
    rw [cmds_apply (by norm_num)]
    simp only [rowMean, colMeans_apply, grandMean_eq, avgSquares, Fin.sum_univ_four]
    simp [asymD]
    norm_num
  rw [h1, h2] at h00
  have hne : (5 : ℚ) / 16 ≠ 19 / 16 := by decide +kernel
  exact hne h00

end TapkeeVerif.IsomapPre
