import TapkeeVerif.Model.Dijkstra
import TapkeeVerif.Model.DijkstraSpec
import TapkeeVerif.Model.IsomapPre
/-! Property C04 — theorems (under construction: the first statement is a sanity fact about the queue). -/
namespace TapkeeVerif.Dijkstra

theorem popMin_nil (c : Nat) : popMin (K := Int) c [] = none := by
  simp [popMin, minEntries, keyMin]

end TapkeeVerif.Dijkstra
