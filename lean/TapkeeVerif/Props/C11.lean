import TapkeeVerif.Model.Landmarks
/-! C11 property theorems (under construction: see Proofs/Landmarks*.lean) -/
namespace TapkeeVerif.Landmarks

/-- `rightCols(d)` of an `n`-column matrix stays inside it exactly when `d ≤ n` -/
theorem rightCols_inbounds_iff (n d : Nat) : rightColsInBounds n d = true ↔ d ≤ n := by
  simp [rightColsInBounds]

end TapkeeVerif.Landmarks
