import TapkeeVerif.Proofs.LandmarksEuclid
/-!
# C11 — landmark methods embed landmarks exactly and triangulate the rest consistently

Subjects: the executable model `Model/Landmarks.lean` (run at `Rat` by `model_c11`, tied to the code by
`checks/c11.py`).  `K` is any field of characteristic zero (in particular every ordered field: ℚ, ℝ); `N`, the number of
landmarks `nl`, `d`, the ambient dimension `m` are arbitrary naturals; the eigensolver, `sqrt` and the shuffle are
universally quantified parameters constrained only by their contracts (`IsEig`, `IsFactored`, `IsSqrt`, permutation).
-/
namespace TapkeeVerif.Landmarks
open TapkeeVerif Finset

/-! ## landmark selection -/

/-- The landmarks are a prefix of the shuffled index list: distinct, inside `0..N-1`, exactly `⌊N·ratio⌋` of them,
    and at least three whenever `ratio ≥ 3/N` **in exact arithmetic** (what `validate()` is meant to ensure). -/
theorem landmarks_distinct_and_counted (perm l : List Nat) (ratio : Rat)
    (hperm : perm.Perm (List.range perm.length)) (h : selectLandmarks perm ratio = some l) :
    l.Nodup ∧ l.length = landmarkCount perm.length ratio ∧ (∀ x ∈ l, x < perm.length) ∧ l <+: perm ∧
      (0 < perm.length → ratioValid perm.length ratio → 3 ≤ l.length) := by
  obtain ⟨_, hc, rfl⟩ := selectLandmarksWith_some h
  have hnd : perm.Nodup := hperm.nodup_iff.mpr List.nodup_range
  refine ⟨hnd.sublist (List.take_sublist _ _), ?_, ?_, List.take_prefix _ _, ?_⟩
  · rw [List.length_take]; omega
  · intro x hx
    have : x ∈ perm := List.mem_of_mem_take hx
    exact List.mem_range.mp (hperm.mem_iff.mp this)
  · intro hN hv
    rw [List.length_take]
    have := three_le_landmarkCount _ _ hN hv
    omega

/-- for every validated ratio the selection is defined (no iterator arithmetic outside the vector) -/
theorem selectLandmarks_defined (perm : List Nat) (ratio : Rat) (hN : 0 < perm.length)
    (hv : ratioValid perm.length ratio) : ∃ l, selectLandmarks perm ratio = some l := by
  have hN' : (0 : Rat) < ((perm.length : Nat) : Rat) := by exact_mod_cast hN
  have h0 : 0 ≤ ratio := le_trans (div_nonneg (by norm_num) hN'.le) hv.1
  have hc := landmarkCount_le perm.length ratio hv.2
  refine ⟨perm.take (landmarkCount perm.length ratio), ?_⟩
  unfold selectLandmarks selectLandmarksWith
  have h1 : ¬ ratio < 0 := not_lt.mpr h0
  have h2 : ¬ perm.length < landmarkCount perm.length ratio := not_lt.mpr hc
  simp [h1, h2]

example : ratioValid 8 (1 / 2) := by unfold ratioValid; norm_num

end TapkeeVerif.Landmarks
