import TapkeeVerif.Proofs.LandmarksEuclid
import TapkeeVerif.Proofs.LandmarksRatioOne
import TapkeeVerif.Proofs.LandmarksWitness
import TapkeeVerif.Proofs.LandmarksNegEig
/-!
# C11 — landmark methods embed landmarks exactly and triangulate the rest consistently

Subjects: the executable model `Model/Landmarks.lean` (run at `Rat` by `model_c11`, tied to the code by
`checks/c11.py`).  `K` is any field of characteristic zero (in particular every ordered field: ℚ, ℝ); `N`, the number of
landmarks `nl`, `d`, the ambient dimension `m` are arbitrary naturals; the eigensolver, `sqrt` and the shuffle are
universally quantified parameters constrained only by their contracts (`IsEig`, `IsFactored`, `IsSqrt`, permutation).
-/
set_option linter.unusedSectionVars false
namespace TapkeeVerif.Landmarks
open TapkeeVerif Finset

/-! ## landmark selection -/

/-- The landmarks are a prefix of the shuffled index list: distinct, inside `0..N-1`, exactly `⌊N·ratio⌋` of them,
    and at least three whenever `ratio ≥ 3/N` **in exact arithmetic** (what `validate()` is meant to ensure). -/
theorem landmarks_distinct_and_counted (perm l : List Nat) (ratio : Rat)
    (hperm : perm.Perm (List.range perm.length)) (h : selectLandmarks perm ratio = some l) :
    l.Nodup ∧ l.length = landmarkCount perm.length ratio ∧ (∀ x ∈ l, x < perm.length) ∧ l <+: perm ∧
      (0 < perm.length → ratioValid perm.length ratio → 3 ≤ l.length) := by
  obtain ⟨_, hc, rfl⟩ := selectLandmarksWith_some h
  have hnd : perm.Nodup := hperm.nodup_iff.mpr List.nodup_range
  refine ⟨hnd.sublist (List.take_sublist _ _), ?_, ?_, List.take_prefix _ _, ?_⟩
  · rw [List.length_take]; omega
  · intro x hx
    have : x ∈ perm := List.mem_of_mem_take hx
    exact List.mem_range.mp (hperm.mem_iff.mp this)
  · intro hN hv
    rw [List.length_take]
    have := three_le_landmarkCount _ _ hN hv
    omega

/-- for every validated ratio the selection is defined (no iterator arithmetic outside the vector) -/
theorem selectLandmarks_defined (perm : List Nat) (ratio : Rat) (hN : 0 < perm.length)
    (hv : ratioValid perm.length ratio) : ∃ l, selectLandmarks perm ratio = some l := by
  have hN' : (0 : Rat) < ((perm.length : Nat) : Rat) := by exact_mod_cast hN
  have h0 : 0 ≤ ratio := le_trans (div_nonneg (by norm_num) hN'.le) hv.1
  have hc := landmarkCount_le perm.length ratio hv.2
  refine ⟨perm.take (landmarkCount perm.length ratio), ?_⟩
  unfold selectLandmarks selectLandmarksWith
  have h1 : ¬ ratio < 0 := not_lt.mpr h0
  have h2 : ¬ perm.length < landmarkCount perm.length ratio := not_lt.mpr hc
  simp [h1, h2]

example : ratioValid 8 (1 / 2) := by unfold ratioValid; norm_num

/-! ## Landmark MDS -/
section lmds
variable {K : Type} [Field K] [CharZero K] [DecidableEq K] {N nl d m : Nat}

theorem lmdsEmbed_ok_iff (δ : Mat N N K) (lm : Fin nl → Fin N) (V : Mat nl d K) (lam s : Vec d K) (Y : Mat N d K) :
    lmdsEmbed δ lm V lam s = .ok Y ↔
      d ≤ nl ∧ (∀ i, lam i ≠ 0) ∧ Y = triangulateRows δ lm (lmdsMu δ lm) (post V s) (divCols (post V s) lam) := by
  unfold lmdsEmbed triangulate rightColsInBounds anyZero
  by_cases hd : d ≤ nl
  · by_cases hz : ∃ i, lam i = 0
    · have : (List.finRange d).any (fun i => decide (lam i = 0)) = true := by
        simpa [List.any_eq_true] using hz
      simp only [hd, decide_true, Bool.not_true, Bool.false_eq_true, if_false, this, if_true]
      constructor
      · intro h; cases h
      · rintro ⟨_, hne, _⟩; obtain ⟨i, hi⟩ := hz; exact absurd hi (hne i)
    · have hz' : ∀ i, lam i ≠ 0 := fun i hi => hz ⟨i, hi⟩
      have : (List.finRange d).any (fun i => decide (lam i = 0)) = false := by
        simpa [List.any_eq_false] using hz'
      simp only [hd, decide_true, Bool.not_true, Bool.false_eq_true, if_false, this]
      constructor
      · intro h; injection h with h; exact ⟨trivial, hz', h.symm⟩
      · rintro ⟨_, _, rfl⟩; rfl
  · simp only [hd, decide_false, Bool.not_false, if_true]
    constructor
    · intro h; cases h
    · rintro ⟨h, _⟩; exact h.elim

/-- **Landmark MDS embeds the landmarks exactly as MDS embeds that subset**: the matrix handed to the eigensolver is
    the MDS matrix `mdsPre` (Model/Mds.lean, C05) of the callback restricted to the landmarks, and row `lm a` of the
    result is row `a` of MDS's post-processing `post V s` of the same solver answer. -/
theorem lmds_landmarks_eq_mds_of_subset (δ : Mat N N K) (lm : Fin nl → Fin N) (hinj : Function.Injective lm)
    (V : Mat nl d K) (lam s : Vec d K) (Y : Mat N d K) (h : lmdsEmbed δ lm V lam s = .ok Y) :
    lmdsB δ lm = mdsPre (subCallback δ lm) ∧ mdsEmbed V s = .ok (post V s) ∧ ∀ a, Y (lm a) = post V s a := by
  obtain ⟨hd, _, rfl⟩ := (lmdsEmbed_ok_iff δ lm V lam s Y).mp h
  refine ⟨rfl, ?_, ?_⟩
  · simp [mdsEmbed, rightColsInBounds, hd]
  · intro a
    unfold triangulateRows
    rw [landmarkPos_of_injective lm hinj a]

/-- **Triangulation is consistent with the landmark embedding**: for every eigen-system `(V, lam)` of the landmark
    matrix with nonzero eigenvalues (in particular whenever `B = Y Yᵀ` with `Y = V diag √lam`), the expression the
    second loop of `triangulate` evaluates — `-½ (V diag(s/lam))ᵀ (δ² − μ)` with `μ` the column means taken BEFORE
    centring — returns, on the distances of a landmark, exactly that landmark's row `V_a diag s`. -/
theorem triangulate_fixes_landmarks (δ : Mat N N K) (lm : Fin nl → Fin N) (hnl : 0 < nl)
    (hsym : ∀ a b, δ (lm a) (lm b) = δ (lm b) (lm a))
    (V : Mat nl d K) (lam s : Vec d K) (heig : IsEig (lmdsB δ lm) V lam) (hl : ∀ i, lam i ≠ 0) (a : Fin nl) :
    triangulateRow δ lm (lmdsMu δ lm) (divCols (post V s) lam) (lm a) = post V s a := by
  have hn : (nl : K) ≠ 0 := by exact_mod_cast (Nat.pos_iff_ne_zero.mp hnl)
  funext i
  have hD : ∀ b, δ (lm a) (lm b) * δ (lm a) (lm b) = landmarkSqDist δ lm a b := by
    intro b
    unfold landmarkSqDist sqDistMatrix subCallback
    by_cases hab : a ≤ b
    · simp [hab]
    · simp [hab, hsym a b]
  unfold triangulateRow
  rw [sumFin_eq_sum]
  simp only [hD]
  rw [triangulation_of_landmark_column δ lm hn V lam s heig hl a i]
  rfl

example : IsEig (lmdsB (fun i j : Fin 2 => if i = j then (0 : ℚ) else 2) id) (fun a _ => if a = 0 then 1 else -1 : Mat 2 1 ℚ)
    (fun _ => 2) := by
  intro a i
  fin_cases a <;> simp [sumFin, List.finRange, lmdsB, scale, negHalf, centerMatrix, centerWith, colMeans, grandMean,
    landmarkSqDist, sqDistMatrix, subCallback] <;> norm_num

/-- **Exact recovery** (`_partial`: all `d` selected eigenvalues nonzero, i.e. the data have affine dimension exactly
    `d`).  Euclidean input (`IsEuclidean`), the solver's answer is an eigen-system of the landmark matrix that carries
    all of it (`IsFactored`: `rank ≤ d`), `sqrt` is exact, and every sample lies in the affine span of the landmarks
    (`hspan`).  Then Landmark MDS returns an embedding and ALL pairwise squared distances — landmark/landmark,
    landmark/other, other/other — equal the input's.  No bound on `N`, `nl`, `d`, `m`; `lm` need not be injective.

    Full statement (FALSE of the code as it stands, see `lmds_exact_recovery_refuted`): the same with `hl` dropped
    (affine dimension `≤ d`, some selected eigenvalues zero). -/
theorem lmds_exact_recovery_partial (δ : Mat N N K) (X : Mat N m K) (lm : Fin nl → Fin N) (hnl : 0 < nl) (hd : d ≤ nl)
    (hE : IsEuclidean δ X) (V : Mat nl d K) (lam s : Vec d K)
    (heig : IsEig (lmdsB δ lm) V lam) (hfac : IsFactored (lmdsB δ lm) V lam) (hs : IsSqrt s lam)
    (hl : ∀ i, lam i ≠ 0)
    (hspan : ∀ x, ∃ w : Fin nl → K, ∀ k, X x k - centroid X lm k = ∑ a, w a * Zc X lm a k) :
    ∃ Y, lmdsEmbed δ lm V lam s = .ok Y ∧ ∀ x y, sqDistRows Y x y = δ x y * δ x y := by
  have hn : (nl : K) ≠ 0 := by exact_mod_cast (Nat.pos_iff_ne_zero.mp hnl)
  refine ⟨_, (lmdsEmbed_ok_iff δ lm V lam s _).mpr ⟨hd, hl, rfl⟩, ?_⟩
  -- every row is the linear map `Mmap` applied to `x − centroid`
  have hrow : ∀ x i, triangulateRows δ lm (lmdsMu δ lm) (post V s) (divCols (post V s) lam) x i
      = ∑ k, Mmap V lam s X lm i k * (X x k - centroid X lm k) := by
    intro x i
    unfold triangulateRows
    cases hpos : landmarkPos? lm x with
    | none => exact triangulateRow_eq δ X lm hn hE V lam s heig hl x i
    | some a =>
      have hax := landmarkPos_some lm x a hpos
      have := landmark_row_eq δ X lm hn hE V lam s heig hl a i
      simp only [post]
      rw [← this]
      apply Finset.sum_congr rfl; intro k _
      unfold Zc; rw [hax]
  intro x y
  obtain ⟨wx, hwx⟩ := hspan x
  obtain ⟨wy, hwy⟩ := hspan y
  rw [hE x y, sqDistRows_eq, sqDistRows_eq]
  have hdiff : ∀ k, X x k - X y k = ∑ a, (wx a - wy a) * Zc X lm a k := by
    intro k
    have : X x k - X y k = (X x k - centroid X lm k) - (X y k - centroid X lm k) := by ring
    rw [this, hwx, hwy, ← Finset.sum_sub_distrib]
    apply Finset.sum_congr rfl; intro a _; ring
  have hY : ∀ i, triangulateRows δ lm (lmdsMu δ lm) (post V s) (divCols (post V s) lam) x i
      - triangulateRows δ lm (lmdsMu δ lm) (post V s) (divCols (post V s) lam) y i
      = ∑ k, Mmap V lam s X lm i k * ∑ a, (wx a - wy a) * Zc X lm a k := by
    intro i
    rw [hrow, hrow, ← Finset.sum_sub_distrib]
    apply Finset.sum_congr rfl; intro k _
    rw [← hdiff]; ring
  simp only [hY, hdiff]
  exact Mmap_isometry δ X lm hn hE V lam s heig hfac hs hl (fun a => wx a - wy a)

/-- non-vacuity of `lmds_exact_recovery_partial`: five collinear samples `1, 1, −1, −1, 3`, the first four are the
    landmarks, `d = 1`, the solver's exact answer `V = (½, ½, −½, −½)ᵀ`, `λ = 4`, `√λ = 2` -/
example : ∃ Y, lmdsEmbed Witness.δ Witness.lm Witness.V1 Witness.lam1 Witness.s1 = .ok Y ∧
    ∀ x y, sqDistRows Y x y = Witness.δ x y * Witness.δ x y :=
  lmds_exact_recovery_partial Witness.δ Witness.X Witness.lm (by norm_num) (by norm_num) Witness.euclid
    Witness.V1 Witness.lam1 Witness.s1 Witness.eig1 Witness.fac1 Witness.sqrt1
    (by intro i; simp [Witness.lam1]) Witness.span

/-- **The full exact-recovery statement is false of the code as it stands** (F-LMDS-RANKDEF).  Same five collinear
    samples, `target_dimension = 2`: the data have affine dimension `1 ≤ d`, the landmarks affinely span them, and the
    solver's answer is an exact, orthonormal, complete eigen-system of the landmark matrix — with second eigenvalue
    `0`.  `triangulate` divides the eigenvectors by the eigenvalues, so the model reaches `divZero`; on the real code the
    same input yields NaN rows (corpus/C11/f-lmds-rankdef.case). -/
theorem lmds_exact_recovery_refuted :
    ¬ ∀ (N nl d m : Nat) (δ : Mat N N ℚ) (X : Mat N m ℚ) (lm : Fin nl → Fin N) (V : Mat nl d ℚ) (lam s : Vec d ℚ),
        0 < nl → d ≤ nl → IsEuclidean δ X → IsEig (lmdsB δ lm) V lam → IsOrthonormal V →
        IsFactored (lmdsB δ lm) V lam → IsSqrt s lam →
        (∀ x, ∃ w : Fin nl → ℚ, ∀ k, X x k - centroid X lm k = ∑ a, w a * Zc X lm a k) →
        ∃ Y, lmdsEmbed δ lm V lam s = .ok Y ∧ ∀ x y, sqDistRows Y x y = δ x y * δ x y := by
  intro h
  obtain ⟨Y, hY, _⟩ := h 5 4 2 1 Witness.δ Witness.X Witness.lm Witness.V2 Witness.lam2 Witness.s2
    (by norm_num) (by norm_num) Witness.euclid Witness.eig2 Witness.orth2 Witness.fac2 Witness.sqrt2 Witness.span
  have := ((lmdsEmbed_ok_iff _ _ _ _ _ Y).mp hY).2.1 1
  exact this (by simp [Witness.lam2])

/-- the model's verdict on the witness, spelled out -/
theorem lmds_witness_divZero :
    lmdsEmbed Witness.δ Witness.lm Witness.V2 Witness.lam2 Witness.s2 = .error .divZero := by
  unfold lmdsEmbed triangulate
  have h1 : rightColsInBounds 4 2 = true := by decide
  have h2 : anyZero Witness.lam2 = true := by
    unfold anyZero
    rw [List.any_eq_true]
    exact ⟨1, List.mem_finRange _, by simp [Witness.lam2]⟩
  simp [h1, h2]

/-- **`landmark_ratio = 1`, Landmark MDS = MDS.**  When every sample is a landmark (`lm` a permutation) and the
    distance is symmetric, the matrix Landmark MDS decomposes is the MDS matrix `mdsPre δ` relabelled by `lm`; reading
    the solver's answer `V'` through the relabelling gives an answer `V` for plain MDS that satisfies the same contract
    (eigen-relation, orthonormality, same eigenvalues), and Landmark MDS returns exactly what MDS returns for it —
    hence the same Gram matrix, and the same embedding up to the solver's own freedom (column signs). -/
theorem ratio_one_eq_nonlandmark (δ : Mat N N K) (lm : Fin N → Fin N) (hbij : Function.Bijective lm)
    (hsym : ∀ x y, δ x y = δ y x) (V' : Mat N d K) (lam s : Vec d K) (Y : Mat N d K)
    (h : lmdsEmbed δ lm V' lam s = .ok Y) :
    ∃ V : Mat N d K, (∀ a, V (lm a) = V' a) ∧
      (∀ a b, lmdsB δ lm a b = mdsPre δ (lm a) (lm b)) ∧
      (IsEig (lmdsB δ lm) V' lam → IsEig (mdsPre δ) V lam) ∧
      (IsOrthonormal V' → IsOrthonormal V) ∧
      mdsEmbed V s = .ok Y ∧ gramRows Y = gramRows (post V s) := by
  let e := Equiv.ofBijective lm hbij
  have hV : ∀ a, (fun x => V' (e.symm x)) (lm a) = V' a := by
    intro a
    have : e.symm (lm a) = a := e.symm_apply_apply a
    simp only [this]
  obtain ⟨hd, _, rfl⟩ := (lmdsEmbed_ok_iff δ lm V' lam s Y).mp h
  have hY : triangulateRows δ lm (lmdsMu δ lm) (post V' s) (divCols (post V' s) lam) = post (fun x => V' (e.symm x)) s := by
    funext x
    obtain ⟨a, rfl⟩ := hbij.2 x
    unfold triangulateRows
    rw [landmarkPos_of_injective lm hbij.1 a]
    funext i
    simp only [post, hV]
  refine ⟨fun x => V' (e.symm x), hV, lmdsB_relabel δ hsym lm hbij, ?_, ?_, ?_, ?_⟩
  · exact isEig_relabel _ _ lm hbij (lmdsB_relabel δ hsym lm hbij) V' _ hV lam
  · exact isOrthonormal_relabel lm hbij V' _ hV
  · rw [hY]; simp [mdsEmbed, rightColsInBounds, hd]
  · rw [hY]

/-! ### in-bounds -/

/-- `rightCols(d)` of an `n`-column matrix stays inside it exactly when `d ≤ n` -/
theorem rightCols_inbounds_iff (n d : Nat) : rightColsInBounds n d = true ↔ d ≤ n := by
  simp [rightColsInBounds]

/-- Landmark MDS reaches the out-of-bounds state exactly when `target_dimension` exceeds the number of landmarks -/
theorem lmds_oob_iff (δ : Mat N N K) (lm : Fin nl → Fin N) (V : Mat nl d K) (lam s : Vec d K) :
    lmdsEmbed δ lm V lam s = .error .oob ↔ nl < d := by
  unfold lmdsEmbed triangulate rightColsInBounds
  by_cases hd : d ≤ nl
  · simp only [hd, decide_true, Bool.not_true, Bool.false_eq_true, if_false]
    constructor
    · intro h; split at h <;> cases h
    · intro h; omega
  · simp only [hd, decide_false, Bool.not_false, if_true, true_iff]
    omega

end lmds

/-! ## Landmark Isomap with every sample a landmark -/
section lisomap
variable {K : Type} [Field K] [LinearOrder K] [IsStrictOrderedRing K] [DecidableEq K] {N nl d : Nat}

theorem lisomapPost_ok_iff (B : Mat nl N K) (V : Mat nl d K) (q : Vec d K) (E : Mat N d K) :
    lisomapPost B V q = .ok E ↔ d ≤ nl ∧ (∀ i, q i ≠ 0) ∧ E = lisomapRows B V q := by
  unfold lisomapPost rightColsInBounds anyZero
  by_cases hd : d ≤ nl
  · by_cases hz : ∃ i, q i = 0
    · have : (List.finRange d).any (fun i => decide (q i = 0)) = true := by
        simpa [List.any_eq_true] using hz
      simp only [hd, decide_true, Bool.not_true, Bool.false_eq_true, if_false, this, if_true]
      constructor
      · intro h; cases h
      · rintro ⟨_, hne, _⟩; obtain ⟨i, hi⟩ := hz; exact absurd hi (hne i)
    · have hz' : ∀ i, q i ≠ 0 := fun i hi => hz ⟨i, hi⟩
      have : (List.finRange d).any (fun i => decide (q i = 0)) = false := by
        simpa [List.any_eq_false] using hz'
      simp only [hd, decide_true, Bool.not_true, Bool.false_eq_true, if_false, this]
      constructor
      · intro h; injection h with h; exact ⟨trivial, hz', h.symm⟩
      · rintro ⟨_, _, rfl⟩; rfl
  · simp only [hd, decide_false, Bool.not_false, if_true]
    constructor
    · intro h; cases h
    · rintro ⟨h, _⟩; exact h.elim

/-- **`landmark_ratio = 1`, Landmark Isomap = Isomap** (`_partial`).  `G` is the (symmetric) geodesic matrix, `lm` the
    permutation the shuffle produced, so Landmark Isomap starts from the rows `G (lm k) ·`.  If the directions its solver
    selected (`V'`, read through the relabelling as `V`) are eigenvectors of the Isomap matrix
    `isomapPreOfGeodesics G` (Model/Mds.lean) with POSITIVE eigenvalues `μ` (whose squares are the eigenvalues `q⁴` of
    `B Bᵀ` that were divided out), then Landmark Isomap returns exactly the Isomap embedding `post V s` for that
    eigen-system, `s = √μ`.

    Full statement (FALSE of the code, F-LISOMAP-NEGEIG): the same without `hpos` — the solver of `B Bᵀ` ranks by `μ²`,
    so a negative `μ` of large magnitude is selected and embedded as `−√|μ| v`, a direction Isomap discards
    (replayed on the real code by corpus/C11/f-lisomap-negeig.case). -/
theorem lisomap_ratio_one_partial (G : Mat N N K) (hsym : ∀ x y, G x y = G y x) (lm : Fin N → Fin N)
    (hbij : Function.Bijective lm) (V' : Mat N d K) (q μ : Vec d K) (E : Mat N d K)
    (h : lisomapPost (lisomapPre (fun k j => G (lm k) j)) V' q = .ok E)
    (V : Mat N d K) (hV : ∀ a, V (lm a) = V' a)
    (hB : IsEig (isomapPreOfGeodesics G) V μ) (hpos : ∀ i, 0 < μ i)
    (hq : IsFourthRoot q (fun i => μ i * μ i)) :
    ∃ s, IsSqrt s μ ∧ E = post V s ∧ mdsEmbed V s = .ok E := by
  obtain ⟨hd, hq0, rfl⟩ := (lisomapPost_ok_iff _ V' q E).mp h
  have hq2 : ∀ i, q i * q i = μ i := by
    intro i
    have h1 := hq i
    have h2 : (q i * q i - μ i) * (q i * q i + μ i) = 0 := by ring_nf; ring_nf at h1; linarith
    have h3 : q i * q i + μ i ≠ 0 := by
      have : 0 ≤ q i * q i := mul_self_nonneg _
      have := hpos i
      intro h0; linarith
    have := (mul_eq_zero.mp h2).resolve_right h3
    linarith
  refine ⟨fun i => μ i / q i, ?_, ?_, ?_⟩
  · intro i
    have : q i ≠ 0 := hq0 i
    rw [div_mul_div_comm, hq2 i]
    have hμ : μ i ≠ 0 := ne_of_gt (hpos i)
    field_simp
  · funext x i
    unfold lisomapRows post
    rw [sumFin_eq_sum]
    have : ∑ a, lisomapPre (fun k j => G (lm k) j) a x * V' a i = μ i * V x i := by
      simp only [lisomapPre_relabel G hsym lm hbij, ← hV]
      rw [sum_comp_bij lm hbij (fun y => isomapPreOfGeodesics G y x * V y i)]
      simp only [isomapPre_symm G hsym _ x]
      exact isEig_apply hB x i
    rw [this]
    ring
  · have : lisomapRows (lisomapPre fun k j => G (lm k) j) V' q = post V (fun i => μ i / q i) := by
      funext x i
      unfold lisomapRows post
      rw [sumFin_eq_sum]
      have : ∑ a, lisomapPre (fun k j => G (lm k) j) a x * V' a i = μ i * V x i := by
        simp only [lisomapPre_relabel G hsym lm hbij, ← hV]
        rw [sum_comp_bij lm hbij (fun y => isomapPreOfGeodesics G y x * V y i)]
        simp only [isomapPre_symm G hsym _ x]
        exact isEig_apply hB x i
      rw [this]
      ring
    rw [this]
    simp [mdsEmbed, rightColsInBounds, hd]

/-- non-vacuity: four collinear samples `1, 1, −1, −1` (geodesic = distance), `lm = id`, `d = 1`, `V = (1,1,−1,−1)ᵀ`,
    `μ = 4`, `q = 2` (Proofs/LandmarksWitness.lean) -/
example : ∃ s : Vec 1 ℚ, IsSqrt s Witness.mu4 ∧
    lisomapRows (lisomapPre fun k j => Witness.G4 (id k) j) Witness.V4 Witness.q4 = post Witness.V4 s ∧
    mdsEmbed Witness.V4 s = .ok (lisomapRows (lisomapPre fun k j => Witness.G4 (id k) j) Witness.V4 Witness.q4) :=
  lisomap_ratio_one_partial Witness.G4 Witness.G4_symm id Function.bijective_id Witness.V4 Witness.q4 Witness.mu4 _
    ((lisomapPost_ok_iff _ _ _ _).mpr ⟨by norm_num, by intro i; simp [Witness.q4], rfl⟩)
    Witness.V4 (fun _ => rfl) Witness.eig4 (by intro i; simp [Witness.mu4])
    (by intro i; simp [Witness.q4, Witness.mu4]; norm_num)

/-- **The full `ratio = 1` statement for Landmark Isomap is false of the code** (F-LISOMAP-NEGEIG).  Four samples
    with the metric `d(0,1)=d(2,3)=16, d(0,2)=d(1,3)=25, d(0,3)=d(1,2)=9` (its own geodesic matrix for `k = 3`),
    `lm = id`, `d = 3`.  The solver's answer for `B Bᵀ` is exact, orthonormal and complete (its eigenvalues sum to the
    trace, so it is the top-3 answer): `400², 225², 144²`.  The third direction belongs to the eigenvalue `−144` of the
    centred geodesic matrix; Landmark Isomap embeds along it (`−12·v`), whereas NO Isomap-type embedding
    (`B V = V diag μ`, `s² = μ`) has a Gram matrix with a component along it. -/
theorem lisomap_ratio_one_refuted :
    ¬ ∀ (N d : Nat) (G : Mat N N ℚ) (lm : Fin N → Fin N) (V' : Mat N d ℚ) (lam' q : Vec d ℚ) (E : Mat N d ℚ),
        (∀ x y, G x y = G y x) → Function.Bijective lm →
        IsEig (lisomapSym (lisomapPre fun k j => G (lm k) j)) V' lam' → IsOrthonormal V' →
        (∑ x, lisomapSym (lisomapPre fun k j => G (lm k) j) x x = ∑ i, lam' i) →
        IsFourthRoot q lam' →
        lisomapPost (lisomapPre fun k j => G (lm k) j) V' q = .ok E →
        ∃ (V : Mat N d ℚ) (μ s : Vec d ℚ),
          IsEig (isomapPreOfGeodesics G) V μ ∧ IsSqrt s μ ∧ gramRows (post V s) = gramRows E := by
  intro h
  have hpre : (lisomapPre fun k j => Witness.G9 (id k) j) = Witness.B9 := by
    funext k j; exact Witness.lisomapPre9 k j
  have hB : isomapPreOfGeodesics Witness.G9 = Witness.B9 := by
    funext x y; exact Witness.isomapPre9 x y
  obtain ⟨V, μ, s, heig, hs, hgram⟩ := h 4 3 Witness.G9 id Witness.V9 Witness.lam9 Witness.q9
    (lisomapRows Witness.B9 Witness.V9 Witness.q9) Witness.G9_symm Function.bijective_id
    (by rw [hpre]; exact isEig_sym_of_isEig _ Witness.B9_symm _ _ Witness.eigB9) Witness.orth9
    (by rw [hpre]; exact Witness.trace9) Witness.root9
    (by
      rw [hpre]
      exact (lisomapPost_ok_iff _ _ _ _).mpr ⟨by norm_num, by intro i; fin_cases i <;> simp [Witness.q9], rfl⟩)
  rw [hB] at heig
  -- Isomap-type embeddings have no component along hB ...
  have h0 := isomap_gram_vanishes_on_negative_direction Witness.B9 Witness.B9_symm Witness.hB 144 (by norm_num)
    Witness.hB_eig V μ s heig hs
  -- ... Landmark Isomap's third column is −12·hB
  have hcol : ∑ x, Witness.hB x * lisomapRows Witness.B9 Witness.V9 Witness.q9 x 2 ≠ 0 := by
    have : ∀ x, lisomapRows Witness.B9 Witness.V9 Witness.q9 x 2 = -12 * Witness.hB x := by
      intro x
      unfold lisomapRows
      rw [sumFin_eq_sum]
      have : ∑ a, Witness.B9 a x * Witness.V9 a 2 = -144 * Witness.hB x := by
        rw [← Witness.hB_eig x]
        apply Finset.sum_congr rfl; intro a _
        rw [Witness.B9_symm a x]
        simp [Witness.V9]
      rw [this]
      simp [Witness.q9]
      ring
    simp only [this, Fin.sum_univ_four]
    simp [Witness.hB]
    norm_num
  have hpos := gram_pos_of_column (lisomapRows Witness.B9 Witness.V9 Witness.q9) Witness.hB 2 hcol
  rw [hgram] at h0
  linarith

end lisomap

/-- **The validation of both landmark methods does not ensure `d ≤ n_landmarks`** (F-LANDMARK-DIM): `N = 8`,
    `landmark_ratio = 1/2`, `target_dimension = 5` passes `InClosedRange(3/N, 1)` and `InRange(1, N)`, selects
    `4` landmarks, and `rightCols(5)` of the `4 × 4` eigenvector matrix is out of bounds. -/
theorem validation_does_not_bound_dimension :
    ∃ (N d : Nat) (ratio : Rat), ratioValid N ratio ∧ dimValid N d ∧
      rightColsInBounds (landmarkCount N ratio) d = false := by
  refine ⟨8, 5, 1 / 2, ?_, ?_, ?_⟩
  · unfold ratioValid; norm_num
  · unfold dimValid; omega
  · have : landmarkCount 8 (1 / 2) = 4 := by
      unfold landmarkCount
      have : (((8 : Nat) : Rat) * (1 / 2)) = ((4 : Int) : Rat) := by norm_num
      rw [this, Rat.floor_intCast]
      rfl
    rw [this]
    rfl

end TapkeeVerif.Landmarks
