import TapkeeVerif.Proofs.LandmarksEuclid
import TapkeeVerif.Proofs.LandmarksCount
import TapkeeVerif.Proofs.LandmarksRatioOne
import TapkeeVerif.Proofs.LandmarksWitness
import TapkeeVerif.Proofs.LandmarksNegEig
/-!
# C11 — landmark methods embed landmarks exactly and triangulate the rest consistently

Subjects: the executable model `Model/Landmarks.lean` (run at `Rat` by `model_c11`, tied to the code by
`checks/c11.py`).  `K` is any ordered field (ℚ, ℝ, …); `N`, the number of
landmarks `nl`, `d`, the ambient dimension `m` are arbitrary naturals; the eigensolver, `sqrt` and the shuffle are
universally quantified parameters constrained only by their contracts (`IsEig`, `IsFactored`, `IsSqrtClamped`,
permutation); machine epsilon is any `eps ≥ 0`.  The model is the tree after the fixes F-LANDMARK-DIM (c5e886d),
F-LMDS-RANKDEF (745a460), F-SQRT-NEG (c99fb7c), F-ISOMAP-ASYM (2c74a55); the statements that those defects refuted
(`lmds_exact_recovery_refuted`, `validation_does_not_bound_dimension`) are replaced by the full theorems and their
witnesses live on as corpus cases.
-/
set_option linter.unusedSectionVars false
namespace TapkeeVerif.Landmarks
open TapkeeVerif Finset

/-! ## landmark selection -/

/-- The landmarks are a prefix of the shuffled index list: distinct, inside `0..N-1`, exactly `⌊N·ratio⌋` of them,
    and at least three whenever `ratio ≥ 3/N` **in exact arithmetic** (what `validate()` is meant to ensure). -/
theorem landmarks_distinct_and_counted (perm l : List Nat) (ratio : Rat)
    (hperm : perm.Perm (List.range perm.length)) (h : selectLandmarks perm ratio = some l) :
    l.Nodup ∧ l.length = landmarkCount perm.length ratio ∧ (∀ x ∈ l, x < perm.length) ∧ l <+: perm ∧
      (0 < perm.length → ratioValid perm.length ratio → 3 ≤ l.length) := by
  obtain ⟨_, hc, rfl⟩ := selectLandmarksWith_some h
  have hnd : perm.Nodup := hperm.nodup_iff.mpr List.nodup_range
  refine ⟨hnd.sublist (List.take_sublist _ _), ?_, ?_, List.take_prefix _ _, ?_⟩
  · rw [List.length_take]; omega
  · intro x hx
    have : x ∈ perm := List.mem_of_mem_take hx
    exact List.mem_range.mp (hperm.mem_iff.mp this)
  · intro hN hv
    rw [List.length_take]
    have := three_le_landmarkCount _ _ hN hv
    omega

/-- **The same for the function that is tied to the code.**  `selectLandmarksFl` uses the count the COMPILED expression
    yields — the integer part of the IEEE `double` product `N * r` (`r` the exact value of the `double` ratio), modelled
    by `landmarkCountFl N r = ⌊rne53 (N·r)⌋`.  Its landmarks are distinct, in range, a prefix of the shuffle, exactly
    `landmarkCountFl` many; and that count equals the exact-arithmetic `⌊N·r⌋` unless an integer lies within one unit in
    the last place `u = 2^(rneExp (N·r))` of the product (the 49 472 values `N ≤ 10⁶` with `r = fl(3/N)` that select 2
    landmarks are such cases: `N·r` is just below 3). -/
theorem landmarks_distinct_and_counted_compiled (perm l : List Nat) (r : Rat)
    (hperm : perm.Perm (List.range perm.length)) (h : selectLandmarksFl perm r = some l) :
    l.Nodup ∧ l.length = landmarkCountFl perm.length r ∧ (∀ x ∈ l, x < perm.length) ∧ l <+: perm ∧
      landmarkCountFl perm.length r = (rne53 (((perm.length : Nat) : Rat) * r)).floor.toNat ∧
      (0 < ((perm.length : Nat) : Rat) * r →
        (∀ k : Int, ¬ (((perm.length : Nat) : Rat) * r - pow2 (rneExp (((perm.length : Nat) : Rat) * r)) < (k : Rat) ∧
          (k : Rat) ≤ ((perm.length : Nat) : Rat) * r + pow2 (rneExp (((perm.length : Nat) : Rat) * r)))) →
        l.length = landmarkCount perm.length r) := by
  obtain ⟨_, hc, rfl⟩ := selectLandmarksWith_some h
  have hnd : perm.Nodup := hperm.nodup_iff.mpr List.nodup_range
  have hlen : (perm.take (landmarkCountFl perm.length r)).length = landmarkCountFl perm.length r := by
    rw [List.length_take]; omega
  refine ⟨hnd.sublist (List.take_sublist _ _), hlen, ?_, List.take_prefix _ _, rfl, ?_⟩
  · intro x hx
    have : x ∈ perm := List.mem_of_mem_take hx
    exact List.mem_range.mp (hperm.mem_iff.mp this)
  · intro hpos hno
    rw [hlen, landmarkCountFl_eq_landmarkCount _ _ hpos hno]

/-- for every validated ratio the selection is defined (no iterator arithmetic outside the vector) -/
theorem selectLandmarks_defined (perm : List Nat) (ratio : Rat) (hN : 0 < perm.length)
    (hv : ratioValid perm.length ratio) : ∃ l, selectLandmarks perm ratio = some l := by
  have hN' : (0 : Rat) < ((perm.length : Nat) : Rat) := by exact_mod_cast hN
  have h0 : 0 ≤ ratio := le_trans (div_nonneg (by norm_num) hN'.le) hv.1
  have hc := landmarkCount_le perm.length ratio hv.2
  refine ⟨perm.take (landmarkCount perm.length ratio), ?_⟩
  unfold selectLandmarks selectLandmarksWith
  have h1 : ¬ ratio < 0 := not_lt.mpr h0
  have h2 : ¬ perm.length < landmarkCount perm.length ratio := not_lt.mpr hc
  simp [h1, h2]

example : ratioValid 8 (1 / 2) := by unfold ratioValid; norm_num

/-! ## Landmark MDS -/
section lmds
variable {K : Type} [Field K] [LinearOrder K] [IsStrictOrderedRing K] {N nl d m : Nat}

theorem lmdsEmbed_ok_iff (eps : K) (δ : Mat N N K) (lm : Fin nl → Fin N) (V : Mat nl d K) (lam s : Vec d K)
    (Y : Mat N d K) :
    lmdsEmbed eps δ lm V lam s = .ok Y ↔ d ≤ nl ∧ Y = triangulate eps δ lm (lmdsMu δ lm) (post V s) lam := by
  unfold lmdsEmbed rightColsInBounds
  by_cases hd : d ≤ nl
  · simp only [hd, decide_true, Bool.not_true, Bool.false_eq_true, if_false, true_and]
    constructor
    · intro h; injection h with h; exact h.symm
    · rintro rfl; rfl
  · simp only [hd, decide_false, Bool.not_false, if_true, false_and, iff_false]
    intro h; cases h

/-- **Landmark MDS embeds the landmarks exactly as MDS embeds that subset**: the matrix handed to the eigensolver is
    the MDS matrix `mdsPre` (Model/Mds.lean, C05) of the callback restricted to the landmarks, and row `lm a` of the
    result is row `a` of MDS's post-processing `post V s` of the same solver answer (`s = sqrt(max(λ,0))` in both). -/
theorem lmds_landmarks_eq_mds_of_subset (eps : K) (δ : Mat N N K) (lm : Fin nl → Fin N) (hinj : Function.Injective lm)
    (V : Mat nl d K) (lam s : Vec d K) (Y : Mat N d K) (h : lmdsEmbed eps δ lm V lam s = .ok Y) :
    lmdsB δ lm = mdsPre (subCallback δ lm) ∧ mdsEmbed V s = .ok (post V s) ∧ ∀ a, Y (lm a) = post V s a := by
  obtain ⟨hd, rfl⟩ := (lmdsEmbed_ok_iff eps δ lm V lam s Y).mp h
  refine ⟨rfl, ?_, ?_⟩
  · simp [mdsEmbed, rightColsInBounds, hd]
  · intro a
    unfold triangulate triangulateRows
    rw [landmarkPos_of_injective lm hinj a]

/-- **Index discipline of the landmark code** (the defect class of the seeded change C11-v3: a POSITION in the range
    used where the ELEMENT at that position is meant).  The library is handed an iterator range `ids x = begin[x]` over
    an arbitrary id space and a callback `cb` on ids; the `δ` of every routine is `rangeCallback cb ids`.
    (1) The landmark distance matrix — hence the matrix handed to the eigensolver and the mean vector kept for
    triangulation — depends on the data only through `cb (begin[lm a]) (begin[lm b])`: any two presentations (other id
    space, other range, other callback, arbitrary values at decoy ids) that agree on those values give the same
    `landmarkSqDist`, `lmdsB`, `lmdsMu`.
    (2) Relabelling invariance: for any id map `σ` and any callback `cb'` on the new ids with
    `cb' (σ i) (σ j) = cb i j` on the elements of the range, `triangulate` and the whole of Landmark MDS return on
    `(cb', σ ∘ ids)` exactly what they return on `(cb, ids)`, for every solver answer.
    (3) For every INJECTIVE `σ` such a `cb'` exists (so (2) speaks about every injective relabelling of every callback).
    The variant that asks for `cb (lm a) (lm b)` fails (2): `Witness.position_variant_not_invariant`. -/
theorem landmark_index_discipline {M M' : Nat} (eps : K) (cb : Mat M M K) (ids : Fin N → Fin M) (lm : Fin nl → Fin N) :
    (∀ (cb' : Mat M' M' K) (ids' : Fin N → Fin M'),
        (∀ a b, cb' (ids' (lm a)) (ids' (lm b)) = cb (ids (lm a)) (ids (lm b))) →
        landmarkSqDist (rangeCallback cb' ids') lm = landmarkSqDist (rangeCallback cb ids) lm ∧
        lmdsB (rangeCallback cb' ids') lm = lmdsB (rangeCallback cb ids) lm ∧
        lmdsMu (rangeCallback cb' ids') lm = lmdsMu (rangeCallback cb ids) lm) ∧
    (∀ (σ : Fin M → Fin M') (cb' : Mat M' M' K),
        (∀ x y, cb' (σ (ids x)) (σ (ids y)) = cb (ids x) (ids y)) →
        ∀ (V Y : Mat nl d K) (lam s : Vec d K) (mu : Vec nl K),
          triangulate eps (rangeCallback cb' (σ ∘ ids)) lm mu Y lam = triangulate eps (rangeCallback cb ids) lm mu Y lam ∧
          lmdsEmbed eps (rangeCallback cb' (σ ∘ ids)) lm V lam s = lmdsEmbed eps (rangeCallback cb ids) lm V lam s) ∧
    (∀ σ : Fin M → Fin M', Function.Injective σ → ∃ cb' : Mat M' M' K, ∀ i j, cb' (σ i) (σ j) = cb i j) := by
  refine ⟨?_, ?_, ?_⟩
  · intro cb' ids' h
    have hD : landmarkSqDist (rangeCallback cb' ids') lm = landmarkSqDist (rangeCallback cb ids) lm := by
      funext a b
      simp only [landmarkSqDist, sqDistMatrix, subCallback, rangeCallback, h]
    exact ⟨hD, by simp only [lmdsB, hD], by simp only [lmdsMu, hD]⟩
  · intro σ cb' h V Y lam s mu
    have hδ : rangeCallback cb' (σ ∘ ids) = rangeCallback cb ids := by
      funext x y; exact h x y
    rw [hδ]; exact ⟨rfl, rfl⟩
  · intro σ hσ
    classical
    refine ⟨fun i' j' => if h : ∃ p : Fin M × Fin M, σ p.1 = i' ∧ σ p.2 = j' then cb h.choose.1 h.choose.2 else 0, ?_⟩
    intro i j
    have hex : ∃ p : Fin M × Fin M, σ p.1 = σ i ∧ σ p.2 = σ j := ⟨(i, j), rfl, rfl⟩
    obtain ⟨h1, h2⟩ := hex.choose_spec
    simp only [dif_pos hex, hσ h1, hσ h2]

/-- non-vacuity: the samples are the ids `4, 2, 5` of a six-id space, landmarks at positions `2, 0`, the ids relabelled
    by the injective `i ↦ 5 - i`: Landmark MDS returns the same on both presentations, for every solver answer -/
example (V : Mat 2 1 ℚ) (lam s : Vec 1 ℚ) :
    lmdsEmbed 0 (rangeCallback Witness.cb6' (Witness.flip6 ∘ Witness.ids3)) Witness.lm2 V lam s =
      lmdsEmbed 0 (rangeCallback Witness.cb6 Witness.ids3) Witness.lm2 V lam s :=
  (((landmark_index_discipline (M' := 6) (0 : ℚ) Witness.cb6 Witness.ids3 Witness.lm2).2.1 Witness.flip6 Witness.cb6'
    (fun _ _ => Witness.cb6'_relabels _ _)) V V lam s (fun _ => 0)).2

/-- **Triangulation is consistent with the landmark embedding**: for every eigen-system `(V, lam)` of the landmark
    matrix (in particular whenever `B = Y Yᵀ` with `Y = V diag √lam`), the expression the second loop of `triangulate`
    evaluates — `-½ Wᵀ (δ² − μ)` with `W` the pseudo-inverse columns (`V diag(s/lam)` where `lam i` exceeds the
    tolerance, zero otherwise) and `μ` the column means taken BEFORE centring — returns, on the distances of a landmark,
    exactly that landmark's row `V_a diag s`, provided every selected eigenvalue is either above the tolerance or
    non-positive (where `s i = sqrt(max(lam i, 0)) = 0`). -/
theorem triangulate_fixes_landmarks (eps : K) (heps : 0 ≤ eps) (δ : Mat N N K) (lm : Fin nl → Fin N) (hnl : 0 < nl)
    (hsym : ∀ a b, δ (lm a) (lm b) = δ (lm b) (lm a))
    (V : Mat nl d K) (lam s : Vec d K) (heig : IsEig (lmdsB δ lm) V lam) (hs : IsSqrtClamped s lam)
    (hdich : ∀ i, lam i ≤ 0 ∨ eigTol nl eps lam < lam i) (a : Fin nl) :
    triangulateRow δ lm (lmdsMu δ lm) (pinvCols (eigTol nl eps lam) (post V s) lam) (lm a) = post V s a := by
  have hn : (nl : K) ≠ 0 := by exact_mod_cast (Nat.pos_iff_ne_zero.mp hnl)
  have htol := eigTol_nonneg nl eps heps lam
  funext i
  have hD : ∀ b, δ (lm a) (lm b) * δ (lm a) (lm b) = landmarkSqDist δ lm a b := by
    intro b
    unfold landmarkSqDist sqDistMatrix subCallback
    by_cases hab : a ≤ b
    · simp [hab]
    · simp [hab, hsym a b]
  unfold triangulateRow
  rw [sumFin_eq_sum]
  simp only [hD, pinvCols_post]
  rw [triangulation_of_landmark_column δ lm hn V lam heig a i _ (coef_zero_or _ htol lam s i)]
  unfold coef post
  by_cases ht : eigTol nl eps lam < lam i
  · have hl : lam i ≠ 0 := ne_of_gt (lt_of_le_of_lt htol ht)
    simp only [ht, if_true]
    field_simp
  · have hle : lam i ≤ 0 := (hdich i).resolve_right ht
    have hs0 : s i = 0 := by
      have := hs i
      rw [clamp0_of_nonpos hle] at this
      exact mul_self_eq_zero.mp this
    simp [ht, hs0]

/-- **Exact recovery** for affine dimension `≤ d`, UNDER THE FACTORISATION CONTRACT of the solver's answer: the rank
    condition enters as `IsFactored (lmdsB δ lm) V lam` (`B = V diag λ Vᵀ`: the selected eigenpairs carry all of the
    landmark matrix) and the dichotomy `hdich` — both are statements about `(V, λ)`, not about the data.  For an exact
    orthonormal TOP-`d` eigen-system of the Gram matrix of data of affine dimension `≤ d` they hold (spectral theorem +
    dimension count), but that bridge is NOT proved here (the same lemma is missing in C05's `mds_exact_recovery`); the
    residual/orthonormality contract is checked on the observed values in every run and the distance oracle is run on the
    implementation independently of it.
    Euclidean input (`IsEuclidean`); the solver's answer is an eigen-system of the landmark matrix (eigenvalues may vanish);
    `s = sqrt(max(λ, 0))` exactly; every selected eigenvalue is either `0` or above the pseudo-inverse tolerance
    `n_l · ε · max|λ|` (the exact-arithmetic dichotomy; `ε ≥ 0` arbitrary); every sample lies in the affine span of the
    landmarks (`hspan`).  Then Landmark MDS returns an embedding and ALL pairwise squared distances — landmark/landmark,
    landmark/other, other/other — equal the input's.  No bound on `N`, `nl`, `d`, `m`; `lm` need not be injective.
    (Before fix 745a460 this was false for affine dimension `< d`: `triangulate` divided by the zero eigenvalue.) -/
theorem lmds_exact_recovery (eps : K) (heps : 0 ≤ eps) (δ : Mat N N K) (X : Mat N m K) (lm : Fin nl → Fin N)
    (hnl : 0 < nl) (hd : d ≤ nl) (hE : IsEuclidean δ X) (V : Mat nl d K) (lam s : Vec d K)
    (heig : IsEig (lmdsB δ lm) V lam) (hfac : IsFactored (lmdsB δ lm) V lam) (hs : IsSqrtClamped s lam)
    (hdich : ∀ i, lam i = 0 ∨ eigTol nl eps lam < lam i)
    (hspan : ∀ x, ∃ w : Fin nl → K, ∀ k, X x k - centroid X lm k = ∑ a, w a * Zc X lm a k) :
    ∃ Y, lmdsEmbed eps δ lm V lam s = .ok Y ∧ ∀ x y, sqDistRows Y x y = δ x y * δ x y := by
  have hn : (nl : K) ≠ 0 := by exact_mod_cast (Nat.pos_iff_ne_zero.mp hnl)
  have htol := eigTol_nonneg nl eps heps lam
  set tol := eigTol nl eps lam with htoldef
  have hlam0 : ∀ i, 0 ≤ lam i := by
    intro i
    rcases hdich i with h | h
    · rw [h]
    · exact le_of_lt (lt_of_le_of_lt htol h)
  have hs' : IsSqrt s lam := by
    intro i; rw [hs i, clamp0_of_nonneg (hlam0 i)]
  have hcs : ∀ i, coef tol lam s i * lam i = s i := by
    intro i
    unfold coef
    by_cases ht : tol < lam i
    · have hl : lam i ≠ 0 := ne_of_gt (lt_of_le_of_lt htol ht)
      simp only [ht, if_true]; field_simp
    · have hl0 : lam i = 0 := (hdich i).resolve_right ht
      have hs0 : s i = 0 := by
        have := hs' i; rw [hl0] at this; exact mul_self_eq_zero.mp this
      simp [ht, hs0]
  refine ⟨_, (lmdsEmbed_ok_iff eps δ lm V lam s _).mpr ⟨hd, rfl⟩, ?_⟩
  -- every row is the linear map `Mmap` applied to `x − centroid`
  have hrow : ∀ x i, triangulate eps δ lm (lmdsMu δ lm) (post V s) lam x i
      = ∑ k, Mmap V (coef tol lam s) X lm i k * (X x k - centroid X lm k) := by
    intro x i
    unfold triangulate triangulateRows
    cases hpos : landmarkPos? lm x with
    | none =>
      exact triangulateRow_eq δ X lm hn hE V lam (coef tol lam s) heig (coef_zero_or tol htol lam s) _
        (pinvCols_post tol V lam s) x i
    | some a =>
      have hax := landmarkPos_some lm x a hpos
      have := landmark_row_eq δ X lm hn hE V lam (coef tol lam s) heig a i
      simp only [post]
      have h2 : V a i * s i = ∑ k, Mmap V (coef tol lam s) X lm i k * Zc X lm a k := by
        rw [this, ← hcs i]; ring
      rw [h2]
      apply Finset.sum_congr rfl; intro k _
      unfold Zc; rw [hax]
  intro x y
  obtain ⟨wx, hwx⟩ := hspan x
  obtain ⟨wy, hwy⟩ := hspan y
  rw [hE x y, sqDistRows_eq, sqDistRows_eq]
  have hdiff : ∀ k, X x k - X y k = ∑ a, (wx a - wy a) * Zc X lm a k := by
    intro k
    have : X x k - X y k = (X x k - centroid X lm k) - (X y k - centroid X lm k) := by ring
    rw [this, hwx, hwy, ← Finset.sum_sub_distrib]
    apply Finset.sum_congr rfl; intro a _; ring
  have hY : ∀ i, triangulate eps δ lm (lmdsMu δ lm) (post V s) lam x i
      - triangulate eps δ lm (lmdsMu δ lm) (post V s) lam y i
      = ∑ k, Mmap V (coef tol lam s) X lm i k * ∑ a, (wx a - wy a) * Zc X lm a k := by
    intro i
    rw [hrow, hrow, ← Finset.sum_sub_distrib]
    apply Finset.sum_congr rfl; intro k _
    rw [← hdiff]; ring
  simp only [hY, hdiff]
  exact Mmap_isometry δ X lm hn hE V lam s (coef tol lam s) heig hfac hs' hcs (fun a => wx a - wy a)

/-- non-vacuity, affine dimension `= d`: five collinear samples `1, 1, −1, −1, 3`, the first four are the landmarks,
    `d = 1`, the solver's exact answer `V = (½, ½, −½, −½)ᵀ`, `λ = 4`, `√λ = 2` -/
example : ∃ Y, lmdsEmbed (0 : ℚ) Witness.δ Witness.lm Witness.V1 Witness.lam1 Witness.s1 = .ok Y ∧
    ∀ x y, sqDistRows Y x y = Witness.δ x y * Witness.δ x y :=
  lmds_exact_recovery 0 le_rfl Witness.δ Witness.X Witness.lm (by norm_num) (by norm_num) Witness.euclid
    Witness.V1 Witness.lam1 Witness.s1 Witness.eig1 Witness.fac1 Witness.sqrtc1
    (by intro i; right; simp [Witness.lam1]) Witness.span

/-- non-vacuity, affine dimension `< d` (the former refutation witness, F-LMDS-RANKDEF): the same samples with
    `d = 2`; the second selected eigenvalue is `0` and the pseudo-inverse zeroes its column -/
example : ∃ Y, lmdsEmbed (0 : ℚ) Witness.δ Witness.lm Witness.V2 Witness.lam2 Witness.s2 = .ok Y ∧
    ∀ x y, sqDistRows Y x y = Witness.δ x y * Witness.δ x y :=
  lmds_exact_recovery 0 le_rfl Witness.δ Witness.X Witness.lm (by norm_num) (by norm_num) Witness.euclid
    Witness.V2 Witness.lam2 Witness.s2 Witness.eig2 Witness.fac2 Witness.sqrtc2
    (by intro i; fin_cases i <;> simp [Witness.lam2]) Witness.span

/-- **`landmark_ratio = 1`, Landmark MDS = MDS.**  When every sample is a landmark (`lm` a permutation) and the
    distance is symmetric, the matrix Landmark MDS decomposes is the MDS matrix `mdsPre δ` relabelled by `lm`; reading
    the solver's answer `V'` through the relabelling gives an answer `V` for plain MDS that satisfies the same contract
    (eigen-relation, orthonormality, same eigenvalues), and Landmark MDS returns exactly what MDS returns for it —
    hence the same Gram matrix, and the same embedding up to the solver's own freedom (column signs). -/
theorem ratio_one_eq_nonlandmark (eps : K) (δ : Mat N N K) (lm : Fin N → Fin N) (hbij : Function.Bijective lm)
    (hsym : ∀ x y, δ x y = δ y x) (V' : Mat N d K) (lam s : Vec d K) (Y : Mat N d K)
    (h : lmdsEmbed eps δ lm V' lam s = .ok Y) :
    ∃ V : Mat N d K, (∀ a, V (lm a) = V' a) ∧
      (∀ a b, lmdsB δ lm a b = mdsPre δ (lm a) (lm b)) ∧
      (IsEig (lmdsB δ lm) V' lam → IsEig (mdsPre δ) V lam) ∧
      (IsOrthonormal V' → IsOrthonormal V) ∧
      mdsEmbed V s = .ok Y ∧ gramRows Y = gramRows (post V s) := by
  let e := Equiv.ofBijective lm hbij
  have hV : ∀ a, (fun x => V' (e.symm x)) (lm a) = V' a := by
    intro a
    have : e.symm (lm a) = a := e.symm_apply_apply a
    simp only [this]
  obtain ⟨hd, rfl⟩ := (lmdsEmbed_ok_iff eps δ lm V' lam s Y).mp h
  have hY : triangulate eps δ lm (lmdsMu δ lm) (post V' s) lam = post (fun x => V' (e.symm x)) s := by
    funext x
    obtain ⟨a, rfl⟩ := hbij.2 x
    unfold triangulate triangulateRows
    rw [landmarkPos_of_injective lm hbij.1 a]
    funext i
    simp only [post, hV]
  refine ⟨fun x => V' (e.symm x), hV, lmdsB_relabel δ hsym lm hbij, ?_, ?_, ?_, ?_⟩
  · exact isEig_relabel _ _ lm hbij (lmdsB_relabel δ hsym lm hbij) V' _ hV lam
  · exact isOrthonormal_relabel lm hbij V' _ hV
  · rw [hY]; simp [mdsEmbed, rightColsInBounds, hd]
  · rw [hY]

/-! ### in-bounds -/

/-- `rightCols(d)` of an `n`-column matrix stays inside it exactly when `d ≤ n` -/
theorem rightCols_inbounds_iff (n d : Nat) : rightColsInBounds n d = true ↔ d ≤ n := by
  simp [rightColsInBounds]

/-- Landmark MDS reaches the out-of-bounds state exactly when `target_dimension` exceeds the number of landmarks -/
theorem lmds_oob_iff (eps : K) (δ : Mat N N K) (lm : Fin nl → Fin N) (V : Mat nl d K) (lam s : Vec d K) :
    lmdsEmbed eps δ lm V lam s = .error .oob ↔ nl < d := by
  unfold lmdsEmbed rightColsInBounds
  by_cases hd : d ≤ nl
  · simp only [hd, decide_true, Bool.not_true, Bool.false_eq_true, if_false]
    constructor
    · intro h; cases h
    · intro h; omega
  · simp only [hd, decide_false, Bool.not_false, if_true, true_iff]
    omega

/-- **Validated configurations stay in bounds** (since fix F-LANDMARK-DIM, c5e886d): `validate()` of both landmark
    methods requires `1 ≤ d < count + 1` with `count` the very number of landmarks `select_landmarks_random` keeps, so
    `rightCols(d)` / `tail(d)` of the `count × count` problem are inside the matrix and Landmark MDS never reaches `oob`.
    (Before the fix `N = 8, ratio = 1/2, d = 5` was validated and read past a `4 × 4` matrix:
    corpus/C11/f-landmark-dim.case.) -/
theorem validated_inbounds (count d : Nat) (h : dimValidLandmark count d) : rightColsInBounds count d = true := by
  unfold dimValidLandmark at h
  simp [rightColsInBounds]; omega

theorem lmds_validated_not_oob (eps : K) (δ : Mat N N K) (lm : Fin nl → Fin N) (V : Mat nl d K) (lam s : Vec d K)
    (h : dimValidLandmark nl d) : lmdsEmbed eps δ lm V lam s ≠ .error .oob := by
  rw [Ne, lmds_oob_iff]
  unfold dimValidLandmark at h
  omega

end lmds

/-! ## Landmark Isomap with every sample a landmark -/
section lisomap
variable {K : Type} [Field K] [LinearOrder K] [IsStrictOrderedRing K] {N nl d : Nat}

theorem lisomapPost_ok_iff (eps : K) (B : Mat nl N K) (V : Mat nl d K) (lam q : Vec d K) (E : Mat N d K) :
    lisomapPost eps B V lam q = .ok E ↔ d ≤ nl ∧ E = lisomapRows (eigTol nl eps lam) B V lam q := by
  unfold lisomapPost rightColsInBounds
  by_cases hd : d ≤ nl
  · simp only [hd, decide_true, Bool.not_true, Bool.false_eq_true, if_false, true_and]
    constructor
    · intro h; injection h with h; exact h.symm
    · rintro rfl; rfl
  · simp only [hd, decide_false, Bool.not_false, if_true, false_and, iff_false]
    intro h; cases h

/-- **`landmark_ratio = 1`, Landmark Isomap = Isomap** (`_partial`).  `G` is the (symmetric) geodesic matrix, `lm` the
    permutation the shuffle produced, so Landmark Isomap starts from the rows `G (lm k) ·`.  If the directions its solver
    selected (`V'`, read through the relabelling as `V`) are eigenvectors of the Isomap matrix
    `isomapPreOfGeodesics G` (Model/Mds.lean) with POSITIVE eigenvalues `μ`, whose squares are the eigenvalues `lam'` of
    `B Bᵀ` (all above the tolerance of the zero-guard), then Landmark Isomap returns exactly the Isomap embedding
    `post V s` for that eigen-system, `s = √μ`.

    Full statement (FALSE of the code, F-LISOMAP-NEGEIG, `lisomap_ratio_one_refuted`): the same without `hpos` — the
    solver of `B Bᵀ` ranks by `μ²`, so a negative `μ` of large magnitude is selected and embedded as `−√|μ| v`, a
    direction Isomap discards (replayed on the real code by corpus/C11/f-lisomap-negeig.case). -/
theorem lisomap_ratio_one_partial (eps : K) (G : Mat N N K) (hsym : ∀ x y, G x y = G y x) (lm : Fin N → Fin N)
    (hbij : Function.Bijective lm) (V' : Mat N d K) (lam' q μ : Vec d K) (E : Mat N d K)
    (h : lisomapPost eps (lisomapPre (fun k j => G (lm k) j)) V' lam' q = .ok E)
    (V : Mat N d K) (hV : ∀ a, V (lm a) = V' a)
    (hB : IsEig (isomapPreOfGeodesics G) V μ) (hpos : ∀ i, 0 < μ i)
    (hlam : ∀ i, lam' i = μ i * μ i) (htol : ∀ i, eigTol N eps lam' < lam' i)
    (hq : IsFourthRoot q lam') :
    ∃ s, IsSqrt s μ ∧ E = post V s ∧ mdsEmbed V s = .ok E := by
  obtain ⟨hd, rfl⟩ := (lisomapPost_ok_iff eps _ V' lam' q E).mp h
  have hq2 : ∀ i, q i * q i = μ i := by
    intro i
    have h1 := hq i
    rw [hlam i] at h1
    have h2 : (q i * q i - μ i) * (q i * q i + μ i) = 0 := by ring_nf; ring_nf at h1; linarith
    have h3 : q i * q i + μ i ≠ 0 := by
      have : 0 ≤ q i * q i := mul_self_nonneg _
      have := hpos i
      intro h0; linarith
    have := (mul_eq_zero.mp h2).resolve_right h3
    linarith
  have hq0 : ∀ i, q i ≠ 0 := by
    intro i h0
    have := hq2 i
    rw [h0, mul_zero] at this
    exact absurd this.symm (ne_of_gt (hpos i))
  have hrows : lisomapRows (eigTol N eps lam') (lisomapPre fun k j => G (lm k) j) V' lam' q
      = post V (fun i => μ i / q i) := by
    funext x i
    unfold lisomapRows post
    simp only [htol i, if_true]
    rw [sumFin_eq_sum]
    have : ∑ a, lisomapPre (fun k j => G (lm k) j) a x * V' a i = μ i * V x i := by
      simp only [lisomapPre_relabel G hsym lm hbij, ← hV]
      rw [sum_comp_bij lm hbij (fun y => isomapPreOfGeodesics G y x * V y i)]
      simp only [isomapPre_symm G hsym _ x]
      exact isEig_apply hB x i
    rw [this]
    ring
  refine ⟨fun i => μ i / q i, ?_, hrows, ?_⟩
  · intro i
    have := hq0 i
    rw [div_mul_div_comm, hq2 i]
    have hμ : μ i ≠ 0 := ne_of_gt (hpos i)
    field_simp
  · rw [hrows]
    simp [mdsEmbed, rightColsInBounds, hd]

/-- non-vacuity: four collinear samples `1, 1, −1, −1` (geodesic = distance), `lm = id`, `d = 1`, `V = (1,1,−1,−1)ᵀ`,
    `μ = 4`, `λ' = 16`, `q = 2` (Proofs/LandmarksWitness.lean) -/
example : ∃ s : Vec 1 ℚ, IsSqrt s Witness.mu4 ∧
    lisomapRows (eigTol 4 0 Witness.lam4) (lisomapPre fun k j => Witness.G4 (id k) j) Witness.V4 Witness.lam4 Witness.q4
      = post Witness.V4 s ∧
    mdsEmbed Witness.V4 s = .ok (lisomapRows (eigTol 4 0 Witness.lam4) (lisomapPre fun k j => Witness.G4 (id k) j)
      Witness.V4 Witness.lam4 Witness.q4) :=
  lisomap_ratio_one_partial 0 Witness.G4 Witness.G4_symm id Function.bijective_id Witness.V4 Witness.lam4 Witness.q4
    Witness.mu4 _ ((lisomapPost_ok_iff _ _ _ _ _ _).mpr ⟨by norm_num, rfl⟩)
    Witness.V4 (fun _ => rfl) Witness.eig4 (by intro i; simp [Witness.mu4])
    (by intro i; simp [Witness.mu4, Witness.lam4]; norm_num) (by intro i; simp [Witness.lam4])
    (by intro i; simp [Witness.q4, Witness.lam4]; norm_num)

/-- **The full `ratio = 1` statement for Landmark Isomap is false of the code** (F-LISOMAP-NEGEIG).  Four samples
    with the metric `d(0,1)=d(2,3)=16, d(0,2)=d(1,3)=25, d(0,3)=d(1,2)=9` (its own geodesic matrix for `k = 3`),
    `lm = id`, `d = 3`.  The solver's answer for `B Bᵀ` is exact, orthonormal and complete (its eigenvalues sum to the
    trace, so it is the top-3 answer): `400², 225², 144²`.  The third direction belongs to the eigenvalue `−144` of the
    centred geodesic matrix; Landmark Isomap embeds along it (`−12·v`), whereas NO Isomap-type embedding
    (`B V = V diag μ`, `s² = μ`) has a Gram matrix with a component along it. -/
theorem lisomap_ratio_one_refuted :
    ¬ ∀ (N d : Nat) (eps : ℚ) (G : Mat N N ℚ) (lm : Fin N → Fin N) (V' : Mat N d ℚ) (lam' q : Vec d ℚ) (E : Mat N d ℚ),
        0 ≤ eps → (∀ x y, G x y = G y x) → Function.Bijective lm →
        IsEig (lisomapSym (lisomapPre fun k j => G (lm k) j)) V' lam' → IsOrthonormal V' →
        (∑ x, lisomapSym (lisomapPre fun k j => G (lm k) j) x x = ∑ i, lam' i) →
        IsFourthRoot q lam' →
        lisomapPost eps (lisomapPre fun k j => G (lm k) j) V' lam' q = .ok E →
        ∃ (V : Mat N d ℚ) (μ s : Vec d ℚ),
          IsEig (isomapPreOfGeodesics G) V μ ∧ IsSqrt s μ ∧ gramRows (post V s) = gramRows E := by
  intro h
  have hpre : (lisomapPre fun k j => Witness.G9 (id k) j) = Witness.B9 := by
    funext k j; exact Witness.lisomapPre9 k j
  have hB : isomapPreOfGeodesics Witness.G9 = Witness.B9 := by
    funext x y; exact Witness.isomapPre9 x y
  obtain ⟨V, μ, s, heig, hs, hgram⟩ := h 4 3 0 Witness.G9 id Witness.V9 Witness.lam9 Witness.q9
    (lisomapRows 0 Witness.B9 Witness.V9 Witness.lam9 Witness.q9) le_rfl Witness.G9_symm Function.bijective_id
    (by rw [hpre]; exact isEig_sym_of_isEig _ Witness.B9_symm _ _ Witness.eigB9) Witness.orth9
    (by rw [hpre]; exact Witness.trace9) Witness.root9
    (by
      rw [hpre]
      exact (lisomapPost_ok_iff _ _ _ _ _ _).mpr ⟨by norm_num, by simp⟩)
  rw [hB] at heig
  -- Isomap-type embeddings have no component along hB ...
  have h0 := isomap_gram_vanishes_on_negative_direction Witness.B9 Witness.B9_symm Witness.hB 144 (by norm_num)
    Witness.hB_eig V μ s heig hs
  -- ... Landmark Isomap's third column is −12·hB
  have hcol : ∑ x, Witness.hB x * lisomapRows 0 Witness.B9 Witness.V9 Witness.lam9 Witness.q9 x 2 ≠ 0 := by
    have : ∀ x, lisomapRows 0 Witness.B9 Witness.V9 Witness.lam9 Witness.q9 x 2 = -12 * Witness.hB x := by
      intro x
      unfold lisomapRows
      have hl : (0 : ℚ) < Witness.lam9 2 := by simp [Witness.lam9, Witness.mu9]
      simp only [hl, if_true]
      rw [sumFin_eq_sum]
      have : ∑ a, Witness.B9 a x * Witness.V9 a 2 = -144 * Witness.hB x := by
        rw [← Witness.hB_eig x]
        apply Finset.sum_congr rfl; intro a _
        rw [Witness.B9_symm a x]
        simp [Witness.V9]
      rw [this]
      simp [Witness.q9]
      ring
    simp only [this, Fin.sum_univ_four]
    simp [Witness.hB]
    norm_num
  have hpos := gram_pos_of_column (lisomapRows 0 Witness.B9 Witness.V9 Witness.lam9 Witness.q9) Witness.hB 2 hcol
  rw [hgram] at h0
  linarith

end lisomap

end TapkeeVerif.Landmarks
