import Mathlib.Tactic.Ring
import Mathlib.Algebra.BigOperators.Ring.Finset
import TapkeeVerif.Model.Project
import TapkeeVerif.Model.Pca
import TapkeeVerif.Gen.Projections
import TapkeeVerif.Proofs.MatBridge
/-!
# C07 — a returned projection function reproduces the embedding and is affine

`Gen/Projections.lean` is regenerated from `include/tapkee/methods/*.hpp` on every run: per method, what `embed()`
returns as `TapkeeOutput(<embedding>, <projection>)`.  The theorems below are stated over that generated table, so a
source change that passes a different matrix or mean to the projection object than to `project(...)`, or that returns a
projection object from a method without out-of-sample support, re-states them and the build fails.

Model: `project P μ x = Pᵀ (x − μ)` (`Model/Project.lean`) is both `routines/pca.hpp: project` (one embedding row per
sample, `embedRows`) and `MatrixProjectionImplementation::project`.
-/
namespace TapkeeVerif.C07
open TapkeeVerif TapkeeVerif.Gen

variable {K : Type} {N D d : Nat}

/-- values of the C++ expressions that `embed()` passes around: matrices and vectors by source text -/
structure Env (D d : Nat) (K : Type) where
  mat : String → Mat D d K
  vec : String → Vec D K

/-- what a method returns, read off its generated row: the embedding (for projecting methods) and the projection function -/
def returnedEmbedding [Add K] [Sub K] [Mul K] [Zero K] (env : Env D d K) (X : Mat N D K) : ProjReturn → Option (Mat N d K)
  | .unimplemented => none            -- embedding built otherwise (not the subject of C07)
  | .matrix em ev _ _ _ => some (embedRows (env.mat em) (env.vec ev) X)

def returnedProjection [Add K] [Sub K] [Mul K] [Zero K] (env : Env D d K) : ProjReturn → Option (Vec D K → Vec d K)
  | .unimplemented => none
  | .matrix _ _ pm pv _ => some (project (env.mat pm) (env.vec pv))

/-- the only initialiser of a mean variable that the model understands -/
def meanOfInit [Add K] [Zero K] [Div K] [NatCast K] (X : Mat N D K) (init : String) : Option (Vec D K) :=
  if init = "compute_mean(begin,end,features,current_dimension)" then some (computeMean X) else none

/-- decidable form of "the same pair is passed, and the mean is the training mean" for one generated row -/
def consistent : ProjReturn → Bool
  | .unimplemented => true
  | .matrix em ev pm pv init =>
    em == pm && ev == pv && init == "compute_mean(begin,end,features,current_dimension)"

theorem table_consistent : ∀ r ∈ projectionTable, consistent r.2.2 = true := by decide

/-- generated-table fact: every method that returns a projection object passes it the SAME `(matrix, mean)` identifiers
    that it passes to `project(...)` for the embedding, and the mean is initialised by `compute_mean` of the training data -/
theorem same_pair_passed :
    ∀ r ∈ projectionTable, ∀ em ev pm pv init, r.2.2 = .matrix em ev pm pv init →
      em = pm ∧ ev = pv ∧ init = "compute_mean(begin,end,features,current_dimension)" := by
  intro r hr em ev pm pv init hk
  have h := table_consistent r hr
  rw [hk] at h
  simpa [consistent, and_assoc] using h

/-- **row i of the embedding is the projection of training sample i** — for every method of the generated table that
    returns a projection, every value of the program variables, every data set and every sample -/
theorem embedding_row_eq_projection [Add K] [Sub K] [Mul K] [Zero K]
    (r : String × String × ProjReturn) (hr : r ∈ projectionTable) (env : Env D d K) (X : Mat N D K)
    (f : Vec D K → Vec d K) (hf : returnedProjection env r.2.2 = some f) :
    ∃ Y, returnedEmbedding env X r.2.2 = some Y ∧ ∀ i, Y i = f (X i) := by
  cases hk : r.2.2 with
  | unimplemented => simp [hk, returnedProjection] at hf
  | matrix em ev pm pv init =>
    obtain ⟨h1, h2, -⟩ := same_pair_passed r hr em ev pm pv init hk
    subst h1 h2
    simp only [hk, returnedProjection, Option.some.injEq] at hf
    subst hf
    exact ⟨_, rfl, fun i => rfl⟩

/-- **the projection is affine**: it commutes with affine combinations (in particular convex ones), over any commutative ring -/
theorem projection_affine [CommRing K] (P : Mat D d K) (μ x y : Vec D K) (a : K) :
    project P μ (fun k => a * x k + (1 - a) * y k) =
      fun j => a * project P μ x j + (1 - a) * project P μ y j := by
  funext j
  simp only [project, sumFin_eq_sum, Finset.mul_sum, ← Finset.sum_add_distrib]
  refine Finset.sum_congr rfl fun k _ => ?_
  ring

/-- the projection is `x ↦ Pᵀ x − Pᵀ μ`: a linear map plus a constant -/
theorem projection_linear_plus_const [CommRing K] (P : Mat D d K) (μ x : Vec D K) :
    project P μ x = fun j => (∑ k, P k j * x k) - ∑ k, P k j * μ k := by
  funext j
  simp only [project, sumFin_eq_sum, ← Finset.sum_sub_distrib]
  refine Finset.sum_congr rfl fun k _ => ?_
  ring

/-- **the mean vector of the projection is the mean of the training samples** (generated initialiser + model of
    `compute_mean`), and that mean is `(Σ_i x_i) / N` -/
theorem mean_is_training_mean [Field K] (X : Mat N D K)
    (r : String × String × ProjReturn) (hr : r ∈ projectionTable) (em ev pm pv init : String)
    (hk : r.2.2 = .matrix em ev pm pv init) :
    meanOfInit X init = some (computeMean X) ∧ ∀ a, computeMean X a = (∑ i, X i a) / (N : K) := by
  obtain ⟨-, -, h3⟩ := same_pair_passed r hr em ev pm pv init hk
  subst h3
  exact ⟨by simp [meanOfInit], fun a => by simp [computeMean, sumFin_eq_sum]⟩

/-- the mean of the training samples is projected to the origin -/
theorem projection_of_mean_zero [CommRing K] (P : Mat D d K) (μ : Vec D K) : project P μ μ = fun _ => 0 := by
  funext j
  simp [project, sumFin_eq_sum]

/-- **methods without out-of-sample support return an empty projection**: of the 20 dispatched methods exactly the five
    projecting ones build a projection object; the 15 others return `unimplementedProjectingFunction()` -/
theorem non_projecting_methods_return_empty :
    projectionTable.length = 20 ∧
    (projectionTable.filter (fun r => decide (r.2.2 ≠ .unimplemented))).map (·.1) =
      ["NeighborhoodPreservingEmbedding", "LinearLocalTangentSpaceAlignment", "LocalityPreservingProjections",
       "PrincipalComponentAnalysis", "RandomProjection"] ∧
    ∀ r ∈ projectionTable,
      r.1 ∉ ["NeighborhoodPreservingEmbedding", "LinearLocalTangentSpaceAlignment", "LocalityPreservingProjections",
             "PrincipalComponentAnalysis", "RandomProjection"] →
      ∀ (env : Env 1 1 Int), (returnedProjection env r.2.2).isNone := by
  refine ⟨by decide, by decide, ?_⟩
  intro r hr hn env
  have : r.2.2 = .unimplemented := by
    revert r
    decide
  simp [this, returnedProjection]

/-! Non-vacuity: a concrete table row, environment and data set meeting the hypotheses. -/
example : ("PrincipalComponentAnalysis", "pca.hpp",
    ProjReturn.matrix "projection_result.first" "mean_vector" "projection_result.first" "mean_vector"
      "compute_mean(begin,end,features,current_dimension)") ∈ projectionTable := by decide

example : project (K := Int) (D := 2) (d := 1) (fun a _ => if a = 0 then 2 else 3) (fun _ => 1) (fun a => if a = 0 then 4 else 0)
    0 = 3 := by decide

end TapkeeVerif.C07
