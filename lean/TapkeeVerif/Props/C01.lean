/-
Property C01 — every embed call returns N x target_dimension finite rows or a documented error; it never reads or
writes outside its buffers, never hangs and never terminates the process.

Every statement below is about the GENERATED expressions of `Gen/IndexExprs.lean` (regenerated from the source on every
run by tools/translate_index.py) and the configuration model `Model/Pipeline.lean`; editing the source re-states them.

Reading guide
  §1  shape / documented errors of the prediction set
  §2  in-bounds theorems over a FIXED LIST of index sites (DESIGN C01 item 3 + a few added ones; about 90 generated
      expressions out of the several hundred index / slice expressions of the library — every other access is covered
      by the sanitizer sweep only)
  §3  exception tables: catch/rethrow map, foreign throws, exit()
  §4  termination of the loops that are bounded by parameters

Kinds of statements (marked [S] / [M] / [R] at each theorem)
  [S] substantive: connects the GENERATED validation bounds to GENERATED index / size expressions (or generated tables to
      each other); fails to compile when the source drifts — these are the property theorems
  [M] model sanity: a fact about the hand-written `prediction` / `validated` of Model/Pipeline.lean, true by construction
      of that function; its only tie to `embed` is the sweep (observation ∈ prediction)
  [R] restatement: the conclusion is (a rearrangement of) a hypothesis, or a bounded combinator runs within its bound;
      kept so that the generated constant / expression is pinned (a change of the literal or of the expression's shape
      still re-states it), not because the proof has content

A finding that is open on the current tree appears as `*_refuted` (with the witness the sweep replays) + `*_partial`
inside an `OPEN <F-ID>` block, the full theorem waits in a `CLOSED <F-ID>` comment; tools/c01_close_finding.py switches.
-/
import TapkeeVerif.Proofs.InBounds

namespace TapkeeVerif.C01
open TapkeeVerif.Pipeline TapkeeVerif.Gen.IndexExprs

/-! ## §1 prediction set -/

/-- a permitted successful result has exactly N rows and target_dimension columns (PassThru: the D features) -/
-- [M]
theorem prediction_shape (c : Config) (r k : Int) (h : (prediction c).ok = some (r, k)) :
    r = c.N ∧ k = (if c.method = .passthru then c.D else c.d) := by
  unfold prediction at h
  split_ifs at h <;> simp_all [okShape] <;> (split_ifs at h <;> simp_all)

/-- every exception class the model permits is documented in embed.hpp's `@throw` block, or is the empty-input
    error of the base constructor -/
-- [M]
theorem prediction_errors_documented (c : Config) (e : Err) (h : e ∈ (prediction c).throws) :
    e.name ∈ documentedThrows ∨ e.name = emptyInputThrows := by
  unfold prediction at h
  split_ifs at h <;> simp_all <;> decide

/-- a configuration that fails validation can only be answered by an exception -/
-- [M]
theorem unvalidated_only_throws (c : Config) (h : validated c = false) : (prediction c).ok = none := by
  unfold prediction
  split_ifs <;> simp_all

/-- a validated configuration of a method without eigensolver and without index site outside its container is
    predicted to succeed, with no exception permitted -/
-- [M]
theorem validated_plain_method_must_succeed (c : Config) (h : validated c = true) (he : usesEig c.method = false) :
    (prediction c).ok = some (okShape c) ∧ (prediction c).throws = [] := by
  have hN := validated_pos h
  have hg : usesGeneralizedEig c.method = false := by
    simp only [usesEig, Bool.or_eq_false_iff] at he; exact he.2
  unfold prediction
  simp [h, he, hg, not_le.mpr hN]

/-- in general position (generic data class, d within the rank of the method's problem, interior parameters, no index
    site out of range) the only permitted observation is the `N x d` embedding: no exception class -/
-- [M]
theorem general_position_must_succeed (c : Config) (data : DataClass) (h : mustBeFinite c data = true) :
    (predictionOn c data).throws = [] ∧ (predictionOn c data).ok = some (okShape c) := by
  have hv : validated c = true := by
    simp only [mustBeFinite, Bool.and_eq_true] at h; exact h.1.1.1.1.2
  have hok : (prediction c).ok.isSome = true := by
    simp only [mustBeFinite, Bool.and_eq_true] at h; exact h.2
  have hN := validated_pos hv
  refine ⟨by simp [predictionOn, h], ?_⟩
  simp only [predictionOn, h, if_true]
  unfold prediction at hok ⊢
  split_ifs at hok ⊢ <;> simp_all

/-- outside general position `predictionOn` is `prediction`; its classes are documented in every case -/
-- [M]
theorem predictionOn_errors_documented (c : Config) (data : DataClass) (e : Err) (h : e ∈ (predictionOn c data).throws) :
    e.name ∈ documentedThrows ∨ e.name = emptyInputThrows := by
  unfold predictionOn at h
  split_ifs at h
  · simp at h
  · exact prediction_errors_documented c e h

example : mustBeFinite { defaultConfig .klle .brute .dense 17 3 with k := 6 } .generic = true := by decide +kernel

example : validated (defaultConfig .hlle .brute .dense 17 3) = true := by decide +kernel
example : (prediction (defaultConfig .mds .brute .dense 17 3)).ok = some (17, 2) := by decide +kernel
example : (prediction (defaultConfig .le .brute .randomized 17 3)).throws = [.unsupported_method_error] := by decide +kernel

/-! ## §2 in-bounds theorems over the generated index expressions -/

/-- facts every validated configuration carries: `1 ≤ d < N` -/
-- [S]
theorem validated_d {c : Config} (h : validated c = true) : 1 ≤ c.d ∧ c.d < c.N := by
  have := validated_base h
  simpa [validateBase] using this

/-- … and `3 ≤ k < N` when the method searches for neighbours -/
-- [S]
theorem validated_k {c : Config} (h : validated c = true) (hu : usesNeighbors c.method c = true) :
    3 ≤ c.k ∧ c.k < c.N := by
  have := validated_neighbors h hu
  simpa [validateNeighbors] using this

example : validated (defaultConfig .klle .brute .dense 8 3) = true ∧
    usesNeighbors .klle (defaultConfig .klle .brute .dense 8 3) = true := by decide +kernel

/-! ### neighbors.hpp -/

/-- `nth_element(begin, begin + k + 1, end)` and the copy loop `[0, k+1)` stay inside the N distance records for the
    clamped k of EVERY round of the k-doubling recursion (any requested k ≥ 0) -/
-- [S]
theorem inb_nth_element (N k : Int) (hN : 1 ≤ N) (hk : 0 ≤ k) :
    InCount (brute_nth_pos (clampK N k)) (brute_distances_size N) ∧
    InCount (brute_take_end (clampK N k)) (brute_distances_size N) := by
  simp only [InCount, brute_nth_pos, brute_take_end, brute_distances_size, clampK, knn_clamp_bound]
  split_ifs <;> omega

/-- brute force and VP-tree return lists of length exactly k whether or not the query is among the k+1 closest
    records (F-KNN-DUP repaired: the surplus entry is dropped) -/
-- [S]
theorem neighbor_lists_have_length_k (found : Bool) (k : Int) :
    bruteLen found k = k ∧ vptreeLen found k = k := by
  cases found <;> simp [bruteLen, vptreeLen, brute_take_end, vptree_requested, brute_trims_to_k, vptree_trims_to_k]

/-- every consumer indexes list i with `j < neighbors[0].size()`: in bounds when the lists have a common length -/
-- [R]
theorem inb_neighbor_lists (len : Nat → Int) (huni : ∀ i, len i = len 0) (i : Nat) (j : Int)
    (hj0 : 0 ≤ j) (hj : j < consumer_loop_bound (len 0)) : InIdx j (len i) := by
  simp only [InIdx, consumer_loop_bound] at *
  rw [huni i]; omega

/-- … and that hypothesis is necessary: with lists of unequal length the access leaves the shorter one -/
-- [S]
theorem inb_neighbor_lists_needs_uniform :
    ¬ (∀ (len : Nat → Int) (i : Nat) (j : Int), 0 ≤ j → j < consumer_loop_bound (len 0) → InIdx j (len i)) := by
  intro h
  have := h (fun i => if i = 0 then 4 else 3) 1 3 (by decide) (by decide)
  simp [InIdx] at this

/-- the OUTER vector: `neighbors[0]` (every consumer starts with `k = neighbors[0].size()`) and `neighbors[i]` for a
    counted `i < end - begin` — each search returns one list per sample (`neighbors_outer_size`, regenerated from the
    three searches) and a validated configuration has `N ≥ 2`, so list 0 exists -/
-- [S]
theorem inb_neighbors_outer {c : Config} (h : validated c = true) :
    InIdx 0 (neighbors_outer_size c.N) ∧ ∀ i : Int, 0 ≤ i → i < c.N → InIdx i (neighbors_outer_size c.N) := by
  have hd := validated_d h
  simp only [InIdx, neighbors_outer_size]
  constructor
  · omega
  · intro i h0 h1; omega

example : validated (defaultConfig .klle .brute .dense 8 3) = true ∧
    InIdx 0 (neighbors_outer_size (defaultConfig .klle .brute .dense 8 3).N) := by decide +kernel

/-! ### cover tree: `cover_sets[chi->scale]` -/

/-- after `if (leaf_scale <= n.scale) leaf_scale = n.scale + 1` the scale just assigned indexes inside a table of
    `leaf_scale + 1` slots, and the table never shrinks (so earlier scales stay in range) -/
-- [S]
theorem inb_cover_sets (leaf scale : Int) (hs : 0 ≤ scale) :
    InIdx scale (cover_sets_size (cover_leaf_update leaf scale)) ∧ leaf ≤ cover_leaf_update leaf scale := by
  simp only [InIdx, cover_sets_size, cover_leaf_update]
  split_ifs <;> omega

/-- all scales assigned during construction index inside the final table -/
-- [S]
theorem inb_cover_sets_all (scales : List Int) (leaf0 : Int) :
    ∀ s ∈ scales, 0 ≤ s → InIdx s (cover_sets_size (scales.foldl cover_leaf_update leaf0)) := by
  have mono : ∀ (l : List Int) (a : Int), a ≤ l.foldl cover_leaf_update a := by
    intro l
    induction l with
    | nil => intro a; simp
    | cons x xs ih =>
      intro a
      simp only [List.foldl_cons]
      have h1 : a ≤ cover_leaf_update a x := by
        simp only [cover_leaf_update]; split_ifs <;> omega
      exact le_trans h1 (ih _)
  induction scales generalizing leaf0 with
  | nil => intro s hs; cases hs
  | cons x xs ih =>
    intro s hs h0
    simp only [List.foldl_cons]
    rcases List.mem_cons.mp hs with rfl | hmem
    · have h1 := (inb_cover_sets leaf0 s h0).1
      have h2 := mono xs (cover_leaf_update leaf0 s)
      simp only [InIdx, cover_sets_size] at *
      omega
    · exact ih _ s hmem h0

/-- the scale given to leaves / coinciding points is itself a valid slot, and node scales are non-negative -/
-- [R]
theorem inb_cover_leaf_and_node_scale (top mx : Int) (h : mx ≤ top) :
    InIdx cover_leaf_scale_init (cover_sets_size cover_leaf_scale_init) ∧ 0 ≤ cover_node_scale top mx := by
  simp only [InIdx, cover_sets_size, cover_leaf_scale_init, cover_node_scale]; omega

/-! ### HLLE (`hessian_weight_matrix`) -/

/-- FULL STATEMENT (false on the current tree, F-HLLE-CT): every written column `Yi.col(ct + p + 1 + d)` of the loop
    nest lies inside the `1 + d + dp` columns of `Yi`. -/
def InbHlleCol : Prop :=
  ∀ (d : Int) (j p : Nat), 1 ≤ d → (j : Int) < hlle_j_hi d → (p : Int) < hlle_p_hi d j →
    InIdx (hlle_col_idx (hlleCt d j) p d) (hlle_yi_cols d (hlle_dp d))

-- (closed F-HLLE-CT)
-- every written column `Yi.col(ct + p + 1 + d)` of the loop nest lies inside the `1 + d + dp` columns of `Yi`
-- (F-HLLE-CT repaired: `ct += target_dimension - j`)
-- [S]
theorem inb_hlle_col : InbHlleCol := by
  intro d j p _ hj hp
  have hstep : ∀ ct d j, hlle_ct_step ct d j = ct + (d - j) := by
    intro ct d j; unfold hlle_ct_step; omega
  have h := hlle_col_in_bounds_of_fixed_step hlle_ct_step hstep d j p
    (by simpa [hlle_j_hi] using hj) (by simpa [hlle_p_hi] using hp)
  have e : hlleCt d j = ctOf 0 hlle_ct_step d j := by rw [hlleCt_eq_ctOf]; rfl
  simp only [InIdx, hlle_col_idx, hlle_yi_cols, hlle_dp, e]
  omega

example : violatedSites { defaultConfig .hlle .brute .dense 17 3 with d := 3, k := 12 } = [] := by decide +kernel

/-- the same statement for the repaired step function, independent of the current tree -/
-- [S]
theorem inb_hlle_col_after_fix (d : Int) (j p : Nat) (hj : (j : Int) < hlle_j_hi d) (hp : (p : Int) < hlle_p_hi d j) :
    InIdx (hlle_col_idx (ctOf hlle_ct_init (fun ct d j => ct + (d - j)) d j) p d) (hlle_yi_cols d (hlle_dp d)) := by
  have := hlle_col_in_bounds_of_fixed_step (fun ct d j => ct + (d - j)) (fun _ _ _ => rfl) d j p
    (by simpa [hlle_j_hi] using hj) (by simpa [hlle_p_hi] using hp)
  simp only [InIdx, hlle_col_idx, hlle_yi_cols, hlle_dp, hlle_ct_init]
  omega

/-- the other column selections of `Yi` (block of eigenvectors, normalisation loop, `rightCols(dp)`, the two columns
    read by the product loop) are inside its `1 + d + dp` columns for any `dp ≥ 0` -/
-- [S]
theorem inb_hlle_blocks (d dp : Int) (hd : 0 ≤ d) (hdp : 0 ≤ dp) :
    InBlock (hlle_block_start d) (hlle_block_cols d) (hlle_yi_cols d dp) ∧
    InCount (hlle_yi_rightCols dp) (hlle_yi_cols d dp) ∧
    (∀ i, 0 ≤ i → i < hlle_norm_hi dp → InIdx (hlle_norm_col d i) (hlle_yi_cols d dp)) ∧
    (∀ j p : Int, 0 ≤ j → j < hlle_j_hi d → 0 ≤ p → p < hlle_p_hi d j →
      InIdx (hlle_src_a j) (hlle_yi_cols d dp) ∧ InIdx (hlle_src_b j p) (hlle_yi_cols d dp)) := by
  simp only [InBlock, InCount, InIdx, hlle_block_start, hlle_block_cols, hlle_yi_cols, hlle_yi_rightCols,
    hlle_norm_hi, hlle_norm_col, hlle_j_hi, hlle_p_hi, hlle_src_a, hlle_src_b]
  refine ⟨by omega, by omega, ?_, ?_⟩
  · intro i h0 h1; omega
  · intro j p h0 h1 h2 h3; omega

-- [S]
theorem hlle_dp_nonneg (d : Int) (hd : 0 ≤ d) : 0 ≤ hlle_dp d := by
  simp only [hlle_dp]
  exact Int.ediv_nonneg (mul_nonneg hd (by omega)) (by decide)

/-- FULL STATEMENT (false, F-DIM-RANK): the d leading local eigenvectors exist, i.e. `rightCols(d)` of the k x k
    eigenvector matrix.  Only `d < N` and `k < N` are validated. -/
def InbHlleEigvec : Prop :=
  ∀ c : Config, validated c = true → c.method = .hlle → InCount (hlle_eigvec_rightCols c.d) c.k

-- (closed F-DIM-RANK-LOCAL)
-- validate() now bounds target_dimension by num_neighbors
-- [S]
theorem inb_hlle_eigvec_rightCols : InbHlleEigvec := by
  intro c h hm
  have hv := validated_method h
  rw [hm] at hv
  have : 1 ≤ c.d ∧ c.d < c.k + 1 := by simpa [validateMethod] using hv
  simp only [InCount, hlle_eigvec_rightCols]; omega

/-! ### LTSA (`tangent_weight_matrix`) -/

-- [S]
theorem inb_ltsa_g (d : Int) (hd : 0 ≤ d) : InCount (ltsa_g_rightCols d) (ltsa_g_cols d) := by
  simp only [InCount, ltsa_g_rightCols, ltsa_g_cols]; omega

/-- FULL STATEMENT (false, F-DIM-RANK): `eigenvectors().rightCols(d)` of the k x k local Gram matrix -/
def InbLtsaEigvec : Prop :=
  ∀ c : Config, validated c = true → (c.method = .kltsa ∨ c.method = .lltsa) → InCount (ltsa_eigvec_rightCols c.d) c.k

-- (closed F-DIM-RANK-LOCAL)
-- validate() now bounds target_dimension by num_neighbors
-- [S]
theorem inb_ltsa_eigvec_rightCols : InbLtsaEigvec := by
  intro c h hm
  have hv := validated_method h
  have : 1 ≤ c.d ∧ c.d < c.k + 1 := by
    rcases hm with hm | hm <;> rw [hm] at hv <;>
      (simp only [validateMethod, Bool.and_eq_true, decide_eq_true_eq] at hv; first | exact hv | exact hv.2)
  simp only [InCount, ltsa_eigvec_rightCols]; omega

/-! ### dense / randomized / generalized solvers -/

/-- largest eigenvalues of an N x N problem (MDS, Isomap, kernel PCA; diffusion map asks for d + 1):
    `rightCols(want)` and `tail(want)` are inside -/
-- [S]
theorem inb_dense_largest_N (c : Config) (p : EigProblem) (h : validated c = true)
    (hm : c.method = .mds ∨ c.method = .isomap ∨ c.method = .kpca ∨ c.method = .dm)
    (hp : eigProblem c = some p) :
    InCount (dense_largest_rightCols p.want) p.n ∧ InCount (dense_largest_tail p.want) p.n := by
  have hd := validated_d h
  rcases hm with hm | hm | hm | hm <;> simp only [eigProblem, hm, Option.some.injEq] at hp <;> subst hp <;>
    simp only [InCount, dense_largest_rightCols, dense_largest_tail, dm_requested] <;> omega

/-- diffusion map: `leftCols(d)`, `col(d)` and the eigenvalues `second(i), i < d` of the `d + 1` returned pairs -/
-- [S]
theorem inb_dm (c : Config) (h : validated c = true) :
    InCount (dm_requested c.d) c.N ∧ InCount (dm_leftCols c.d) (dm_requested c.d) ∧
    InIdx (dm_norm_col c.d) (dm_requested c.d) ∧ InCount (dm_eigval_hi c.d) (dm_requested c.d) := by
  have hd := validated_d h
  simp only [InCount, InIdx, dm_requested, dm_leftCols, dm_norm_col, dm_eigval_hi]; omega

/-- FULL STATEMENT (false, F-DIM-RANK): PCA takes `rightCols(d)` / `tail(d)` of the D x D covariance problem -/
def InbPcaCols : Prop :=
  ∀ c : Config, validated c = true → c.method = .pca →
    InCount (dense_largest_rightCols c.d) c.D ∧ InCount (dense_largest_tail c.d) c.D

-- (closed F-DIM-RANK-LINEAR)
-- validate() now bounds target_dimension by the feature dimension
-- [S]
theorem inb_pca_rightCols : InbPcaCols := by
  intro c h hm
  have hv := validated_method h
  rw [hm] at hv
  have : 1 ≤ c.d ∧ c.d < c.D + 1 := by simpa [validateMethod] using hv
  simp only [InCount, dense_largest_rightCols, dense_largest_tail]; omega

/-- landmark selection: `erase(begin + ⌊N·ratio⌋, end)` is inside the N-vector and keeps at least 3 landmarks
    (exact rational product; the `double` product is part of the partial label) -/
-- [S]
theorem inb_landmark_erase (c : Config) (h : validated c = true) (hm : c.method = .lmds ∨ c.method = .lisomap) :
    InCount (landmark_count c.N c.ratio) (landmark_vector_size c.N) ∧ 3 ≤ landmark_count c.N c.ratio := by
  have hN := validated_pos h
  have hv := validated_method h
  have hr : (3 : Rat) / ((c.N : Int) : Rat) ≤ c.ratio ∧ c.ratio ≤ 1 := by
    rcases hm with hm | hm <;> rw [hm] at hv <;>
      (simp only [validateMethod, Bool.and_eq_true, decide_eq_true_eq] at hv; first | exact hv | exact hv.1)
  have hb := landmark_count_bounds hN hr.1 hr.2
  simp only [InCount, landmark_vector_size]
  omega

/-- FULL STATEMENT (false, F-LANDMARK-DIM): the landmark methods take `rightCols(d)` of the n_landmarks-sized problem -/
def InbLandmarkCols : Prop :=
  ∀ c : Config, validated c = true → (c.method = .lmds ∨ c.method = .lisomap) →
    InCount (dense_largest_rightCols c.d) (nLandmarks c)

-- (closed F-LANDMARK-DIM)
-- validate() now bounds target_dimension by the number of landmarks
-- [S]
theorem inb_landmark_rightCols : InbLandmarkCols := by
  intro c h hm
  have hv := validated_method h
  have : 1 ≤ c.d ∧ c.d < landmark_count c.N c.ratio + 1 := by
    rcases hm with hm | hm <;> rw [hm] at hv <;>
      (have hh := hv; simp only [validateMethod, Bool.and_eq_true, decide_eq_true_eq] at hh; exact hh.2)
  simp only [InCount, dense_largest_rightCols, nLandmarks]; omega

/-- triangulation: rows `i < n_landmarks` of the n_landmarks x d landmark embedding and columns `i < d` -/
-- [R]
theorem inb_triangulate (nl d i : Int) (h0 : 0 ≤ i) :
    (i < tri_row_hi nl → InIdx i nl) ∧ (i < tri_col_hi d → InIdx i d) := by
  simp only [tri_row_hi, tri_col_hi, InIdx]; constructor <;> intro <;> omega

/-- smallest eigenvalues of an N x N problem (KLLE, KLTSA, HLLE: skip = 1): `leftCols(d + skip).rightCols(d)` -/
-- [S]
theorem inb_dense_smallest_cols (c : Config) (h : validated c = true) :
    InCount (dense_smallest_leftCols c.d skip_SmallestEigenvalues) c.N ∧
    InCount (dense_smallest_rightCols c.d skip_SmallestEigenvalues) (dense_smallest_leftCols c.d skip_SmallestEigenvalues) := by
  have := validated_d h
  simp only [InCount, dense_smallest_leftCols, dense_smallest_rightCols, skip_SmallestEigenvalues]; omega

/-- FULL STATEMENT (false, F-EIG-SEGMENT): the eigenvalue slice `segment(start, len)` lies inside the N eigenvalues -/
def InbDenseSegment : Prop :=
  ∀ c : Config, validated c = true →
    InBlock (dense_segment_start c.d skip_SmallestEigenvalues) (dense_segment_len c.d skip_SmallestEigenvalues c.N) c.N

-- (closed F-EIG-SEGMENT)
-- the eigenvalue slice `segment(skip, target_dimension)` lies inside the N eigenvalues
-- [S]
theorem inb_dense_segment : InbDenseSegment := by
  intro c h
  have := validated_d h
  simp only [InBlock, dense_segment_start, dense_segment_len, skip_SmallestEigenvalues]; omega

/-- generalized problem of Laplacian eigenmaps (N x N, skip from the strategy): columns are fine … -/
-- [S]
theorem inb_gen_le_cols (c : Config) (h : validated c = true) :
    InCount (gen_smallest_leftCols c.d gen_sparse_diag_skip) c.N ∧
    InCount (gen_smallest_rightCols c.d gen_sparse_diag_skip) (gen_smallest_leftCols c.d gen_sparse_diag_skip) := by
  have := validated_d h
  simp only [InCount, gen_smallest_leftCols, gen_smallest_rightCols, gen_sparse_diag_skip, skip_SmallestEigenvalues]; omega

/-- … FULL STATEMENT (false, F-EIG-SEGMENT, generalized file): the eigenvalue slice -/
def InbGenSegmentLE : Prop :=
  ∀ c : Config, validated c = true →
    InBlock (gen_segment_start c.d gen_sparse_diag_skip) (gen_segment_len c.d gen_sparse_diag_skip c.N) c.N

-- (closed F-EIG-SEGMENT)
-- [S]
theorem inb_gen_segment : InbGenSegmentLE := by
  intro c h
  have := validated_d h
  simp only [InBlock, gen_segment_start, gen_segment_len, gen_sparse_diag_skip, skip_SmallestEigenvalues]; omega

/-- FULL STATEMENT (false, F-DIM-RANK): NPE / LPP / LLTSA solve a D x D generalized problem (skip = 0) -/
def InbGenLinearCols : Prop :=
  ∀ c : Config, validated c = true → (c.method = .npe ∨ c.method = .lpp ∨ c.method = .lltsa) →
    InCount (gen_smallest_leftCols c.d gen_dense_dense_skip) c.D ∧
    InBlock (gen_segment_start c.d gen_dense_dense_skip) (gen_segment_len c.d gen_dense_dense_skip c.D) c.D

-- (closed F-DIM-RANK-LINEAR)
-- validate() of NPE / LPP / LLTSA now bounds target_dimension by the feature dimension
-- [S]
theorem inb_gen_linear_cols : InbGenLinearCols := by
  intro c h hm
  have hv := validated_method h
  have : 1 ≤ c.d ∧ c.d < c.D + 1 := by
    rcases hm with hm | hm | hm <;> rw [hm] at hv <;>
      (have hh := hv; simp only [validateMethod, Bool.and_eq_true, decide_eq_true_eq] at hh; first | exact hh | exact hh.1 | exact hh.2)
  simp only [InCount, InBlock, gen_smallest_leftCols, gen_segment_start, gen_segment_len, gen_dense_dense_skip]; omega

/-- randomized solver: every column selection is inside the sketch of `d + skip` columns, for any d, skip ≥ 0 -/
-- [S]
theorem inb_randomized (d skip : Int) (hd : 0 ≤ d) (hs : 0 ≤ skip) :
    InCount (rand_largest_rightCols d) (rand_sketch_cols d skip) ∧
    InCount (rand_smallest_leftCols d skip) (rand_sketch_cols d skip) ∧
    InCount (rand_smallest_rightCols d skip) (rand_smallest_leftCols d skip) := by
  simp only [InCount, rand_largest_rightCols, rand_sketch_cols, rand_smallest_leftCols, rand_smallest_rightCols]; omega

/-! ### SPE -/

/-- `ind1Neighbors[kk + j*k]` and `ind1Neighbors[r]`, `r = ⌊u (k-1)⌋ + k j`, inside its `k * nupdates` entries -/
-- [S]
theorem inb_spe_ind1 (k nu kk j f : Int) (hkk0 : 0 ≤ kk) (hkk : kk < k) (hj0 : 0 ≤ j) (hj : j < nu)
    (hf0 : 0 ≤ f) (hf : f < k) :
    InIdx (spe_ind1_write kk j k) (spe_ind1_size k nu) ∧ InIdx (spe_r f k j) (spe_ind1_size k nu) := by
  simp only [InIdx, spe_ind1_write, spe_r, spe_ind1_size]
  have h1 := stride_lt hj0 hj hkk0 hkk
  have h2 := stride_lt hj0 hj hf0 hf
  have e1 : kk + j * k = j * k + kk := by ring
  have e2 : f + k * j = j * k + f := by ring
  have e3 : k * nu = nu * k := by ring
  rw [e1, e2, e3]
  exact ⟨h1, h2⟩

/-- the floor term of `r`: for `u ∈ [0,1)` and `k ≥ 1`, `⌊u (k-1)⌋ ∈ [0, k)` -/
-- [S]
theorem spe_floor_term (k : Int) (u : Rat) (hk : 1 ≤ k) (hu0 : 0 ≤ u) (hu1 : u < 1) :
    0 ≤ (u * ((spe_rand_span k : Int) : Rat)).floor ∧ (u * ((spe_rand_span k : Int) : Rat)).floor < k := by
  have hs : (0 : Rat) ≤ ((spe_rand_span k : Int) : Rat) := by
    simp only [spe_rand_span]; exact_mod_cast (by omega : (0 : Int) ≤ k - 1)
  constructor
  · rw [Rat.le_floor_iff]; push_cast; exact mul_nonneg hu0 hs
  · have h1 : u * ((spe_rand_span k : Int) : Rat) ≤ ((spe_rand_span k : Int) : Rat) := by
      have := mul_le_mul_of_nonneg_right hu1.le hs
      simpa using this
    have h2 : (((u * ((spe_rand_span k : Int) : Rat)).floor : Int) : Rat) ≤ u * ((spe_rand_span k : Int) : Rat) :=
      Rat.le_floor_iff.mp le_rfl
    have h3 : (((u * ((spe_rand_span k : Int) : Rat)).floor : Int) : Rat) ≤ ((k - 1 : Int) : Rat) := by
      have : ((spe_rand_span k : Int) : Rat) = ((k - 1 : Int) : Rat) := by simp [spe_rand_span]
      rw [← this]; exact le_trans h2 h1
    have : (u * ((spe_rand_span k : Int) : Rat)).floor ≤ k - 1 := by exact_mod_cast h3
    omega

/-- the slot that receives the chosen partner, and the second half `[nupdates, 2 nupdates)` of the N indices, once
    `nupdates ≤ N/2` -/
-- [S]
theorem inb_spe_indices (N nu j : Int) (hnu0 : 0 ≤ nu) (hnu : nu ≤ spe_nupdates_max N) (hj0 : 0 ≤ j) (hj : j < nu) :
    InIdx (spe_indices_write nu j) (spe_partner_size N nu) ∧ InBlock (spe_ind2_start nu) nu (spe_indices_size N) := by
  simp only [InIdx, InBlock, spe_indices_write, spe_indices_size, spe_partner_size, spe_ind2_start, spe_nupdates_max] at *
  omega

/-! ### t-SNE -/

/-- the map buffer `Y` (`N * no_dims` doubles) is traversed by `i < N * no_dims` -/
-- [R]
theorem inb_tsne_y (N nd i : Int) (h0 : 0 ≤ i) (h : i < N * nd) : InIdx i (tsne_y_size N nd) := by
  simp only [InIdx, tsne_y_size]
  have : nd * N = N * nd := by ring
  omega

/-- FULL STATEMENT (false, F-TSNE-DIMS): the quadtree reads `Y[n*QT_NO_DIMS + d]`, the edge forces write
    `pos_f[n*QT_NO_DIMS + d]`, the non-edge forces write `neg_f[n*D + d]`, `d < QT_NO_DIMS`, inside `N * no_dims` -/
def InbTsneBH : Prop :=
  ∀ c : Config, validated c = true → c.method = .tsne → c.theta ≠ 0 →
    ∀ n dd : Int, 0 ≤ n → n < c.N → 0 ≤ dd → dd < qt_no_dims →
      InIdx (qt_read_idx n dd) (tsne_y_size c.N c.d) ∧ InIdx (qt_posf_idx n dd) (tsne_force_size c.N c.d) ∧
      InIdx (tsne_negf_offset n c.d + dd) (tsne_force_size c.N c.d)

-- [S]
theorem inb_tsne_posf_partial (c : Config) (hdims : qt_no_dims ≤ c.d)
    (n dd : Int) (hn0 : 0 ≤ n) (hn : n < c.N) (hd0 : 0 ≤ dd) (hd : dd < qt_no_dims) :
    InIdx (qt_read_idx n dd) (tsne_y_size c.N c.d) ∧ InIdx (qt_posf_idx n dd) (tsne_force_size c.N c.d) ∧
    InIdx (tsne_negf_offset n c.d + dd) (tsne_force_size c.N c.d) := by
  simp only [InIdx, qt_read_idx, qt_posf_idx, tsne_y_size, tsne_force_size, tsne_negf_offset]
  have h1 := narrow_stride_lt hn0 hn hd0 hd hdims
  have h2 := stride_lt hn0 hn hd0 (lt_of_lt_of_le hd hdims)
  have e : c.d * c.N = c.N * c.d := by ring
  rw [e]
  exact ⟨h1, h1, h2⟩

-- (closed F-TSNE-DIMS)
-- validate() now requires target_dimension = 2 when θ > 0
-- [S]
theorem inb_tsne_posf : InbTsneBH := by
  intro c h hm hth n dd hn0 hn hd0 hd
  have hv := validated_method h
  rw [hm] at hv
  have hh := hv
  simp only [validateMethod, Bool.and_eq_true, Bool.or_eq_true, Bool.not_eq_true', decide_eq_true_eq,
    decide_eq_false_iff_not] at hh
  have hth0 : 0 ≤ c.theta := hh.1.2
  have hd2 : 2 ≤ c.d := by
    rcases hh.2 with h1 | h1
    · exact absurd (lt_of_le_of_ne hth0 (Ne.symm hth)) h1
    · exact h1.1
  exact inb_tsne_posf_partial c (by simpa [qt_no_dims] using hd2) n dd hn0 hn hd0 hd

/-- FULL STATEMENT (false, new — also hit with θ = 0): the exact error evaluation reads `Y` as N x 2 -/
def InbTsneExactError : Prop :=
  ∀ c : Config, validated c = true → c.method = .tsne → c.theta = 0 →
    ∀ n dd : Int, 0 ≤ n → n < c.N → 0 ≤ dd → dd < tsne_exact_error_dims c.d →
      InIdx (tsne_sqdist_idx n dd (tsne_exact_error_dims c.d)) (tsne_y_size c.N c.d)

-- [S]
theorem inb_tsne_exact_error_partial (c : Config) (hdims : tsne_exact_error_dims c.d ≤ c.d)
    (n dd : Int) (hn0 : 0 ≤ n) (hn : n < c.N) (hd0 : 0 ≤ dd) (hd : dd < tsne_exact_error_dims c.d) :
    InIdx (tsne_sqdist_idx n dd (tsne_exact_error_dims c.d)) (tsne_y_size c.N c.d) := by
  simp only [InIdx, tsne_sqdist_idx, tsne_y_size]
  have h1 := narrow_stride_lt hn0 hn hd0 hd hdims
  have e : c.d * c.N = c.N * c.d := by ring
  rw [e]; exact h1

-- (closed F-TSNE-DIMS)
-- the exact error evaluation now reads `Y` with its own width
-- [S]
theorem inb_tsne_exact_error : InbTsneExactError := by
  intro c _ _ _ n dd hn0 hn hd0 hd
  exact inb_tsne_exact_error_partial c (by simp [tsne_exact_error_dims]) n dd hn0 hn hd0 hd

/-- sparse similarities: `K = ⌊3·perplexity⌋ ≤ N - 1` neighbours are requested (+ the point itself), so
    `distances[m+1]`, `cur_P[m]`, `col_P[n*K + m]` are in range for `m < K` -/
-- [S]
theorem inb_tsne_knn (c : Config) (h : validated c = true) (hm : c.method = .tsne) :
    let K := tsne_K c.perp
    InCount (tsne_knn_requested K) c.N ∧
    (∀ m, 0 ≤ m → m < K → InIdx (tsne_dist_idx m) (tsne_knn_requested K) ∧ InIdx m (tsne_curP_size c.N)) ∧
    (∀ n m, 0 ≤ n → n < c.N → 0 ≤ m → m < K → InIdx (n * tsne_rowP_stride K + m) (tsne_colP_size c.N K)) := by
  have hv := validated_method h
  rw [hm] at hv
  have hp : 0 ≤ c.perp ∧ c.perp ≤ (((c.N : Int) : Rat) - 1) / 3 := by
    simp only [validateMethod, Bool.and_eq_true, decide_eq_true_eq] at hv
    first | exact hv.1 | exact hv.1.1
  have hK := tsne_K_bounds hp.1 hp.2
  intro K
  simp only [InCount, InIdx, tsne_knn_requested, tsne_dist_idx, tsne_curP_size, tsne_rowP_stride, tsne_colP_size]
  refine ⟨by omega, ?_, ?_⟩
  · intro m h0 h1; omega
  · intro n m hn0 hn hm0 hm1
    exact stride_lt hn0 hn hm0 hm1

/-! ### manifold sculpting -/

/-- FULL STATEMENT (false, F-DIM-RANK): `data(i, index), i < d`, `topRows(d)`, `bottomRows(D - d)` of the D x N data -/
def InbMsRows : Prop :=
  ∀ c : Config, validated c = true → c.method = .ms →
    InCount (ms_row_hi c.d) c.D ∧ InCount (ms_topRows c.d) c.D ∧ InCount (ms_bottomRows c.D c.d) c.D

-- (closed F-DIM-RANK-LOCAL)
-- validate() now bounds target_dimension by the feature dimension
-- [S]
theorem inb_ms_rows : InbMsRows := by
  intro c h hm
  have hv := validated_method h
  rw [hm] at hv
  have hh := hv
  simp only [validateMethod, Bool.and_eq_true, decide_eq_true_eq] at hh
  have := hh.2
  simp only [InCount, ms_row_hi, ms_topRows, ms_bottomRows]; omega

/-! ### the executable site evaluator agrees with the statements above on the witnesses -/

-- (closed F-EIG-SEGMENT)
example : violatedSites { defaultConfig .klle .brute .dense 5 3 with d := 4, k := 3 } = [] := by decide +kernel
example : violatedSites { defaultConfig .mds .brute .dense 17 3 with d := 16 } = [] := by decide +kernel

/-! ## §3 exceptions, foreign throws, process-terminating calls -/

/-- FULL STATEMENT (false): every class embed.hpp rethrows is in its documented `@throw` list (or is the
    empty-input error) -/
def FrontEndErrorsDocumented : Prop :=
  ∀ p ∈ rethrowMap, p.2 ∈ documentedThrows ∨ p.2 = emptyInputThrows

-- (closed F-DOC-WPTE)
-- every class embed.hpp rethrows is in its documented `@throw` list
-- [S]
theorem front_end_errors_documented : FrontEndErrorsDocumented := by
  unfold FrontEndErrorsDocumented; decide

/-- every `throw` under include/tapkee raises a documented class or the empty-input error, except exactly one
    foreign throw: `std::runtime_error("Wrong size")` in manifold sculpting, guarded by `(end - begin) != n` -/
-- [S]
theorem foreign_throws_listed :
    throwSites.filter (fun s => !(documentedThrows.contains s.2.1 || s.2.1 == emptyInputThrows)) =
      [("tapkee/routines/manifold_sculpting.hpp", "std::runtime_error", "(end - begin) != n")] := by
  decide

/-- … whose guard is unreachable: each search returns one list per sample (`neighbors.size() = N`) -/
-- [R]
theorem no_foreign_throw_reachable (N : Int) : ms_wrong_size_guard N (neighbors_outer_size N) = false := by
  simp [ms_wrong_size_guard, neighbors_outer_size]

/-- every process-terminating call is guarded by nothing but `x == NULL` tests of pointers that come straight from
    `malloc` / `calloc`: only an allocation failure reaches `exit(1)` -/
-- [S]
theorem never_exits_unless_alloc_fails :
    ∀ s ∈ exitSites, s.2.2.2.2 = true ∧ s.2.2.2.1 ≠ [] ∧ ∀ v ∈ s.2.2.2.1, v.2 = "malloc" ∨ v.2 = "calloc" := by
  decide

/-- every size handed to `malloc` / `calloc` in the t-SNE code and to `reserve` in routines/ multiplies run-time integers in
    `size_t` / `ptrdiff_t` (the first factor is cast or already wide): no `int` product can wrap before the allocation.
    (Index arithmetic itself is over unbounded `Int` in this file: 32-bit wrap-around of `int` indices for huge N is
    NOT modelled, see the PARTIAL list.) -/
-- [S]
theorem alloc_sizes_computed_wide : ∀ s ∈ allocSites, s.2.2 = true := by decide

/-- the `assert`s of the library (active unless NDEBUG) are exactly these … -/
-- [S]
theorem assert_sites_listed :
    assertSites = [("tapkee/neighbors/covertree.hpp", "size(points) > 0"),
                   ("tapkee/neighbors/neighbors.hpp", "end - begin == res.index"),
                   ("tapkee/routines/eigendecomposition.hpp", "skip == 0"),
                   ("tapkee/routines/eigendecomposition.hpp", "skip == 0"),
                   ("tapkee/routines/generalized_eigendecomposition.hpp", "skip == 0")] := by
  decide

/-- … and `skip == 0` holds wherever a "largest" operation is instantiated -/
-- [S]
theorem largest_strategies_skip_zero : skip_LargestEigenvalues = 0 ∧ skip_SquaredLargestEigenvalues = 0 := by
  decide

/-! ## §4 termination of the loops bounded by parameters -/

/-- k-doubling: from any validated k the sequence `k, 2k, 4k, …` (clamped) reaches `N - 1` within
    `⌊log₂((N-1)/k)⌋ + 1` enlargements and stays there -/
-- [S]
theorem kSeq_reaches_complete_graph (N k : Int) (hk : 1 ≤ k) (hkN : k < N) :
    kSeq N k (Nat.log 2 ((N - 1) / k).toNat + 1) = N - 1 := by
  have hb : knn_clamp_bound N = N - 1 := by simp [knn_clamp_bound]
  rw [kSeq_closed N k (by omega) (by omega), hb]
  apply min_eq_right
  set q := ((N - 1) / k).toNat with hq
  have hqpos : (0 : Int) ≤ (N - 1) / k := Int.ediv_nonneg (by omega) (by omega)
  have hlt : q < 2 ^ (Nat.log 2 q + 1) := Nat.lt_pow_succ_log_self (by decide) q
  have hqi : ((N - 1) / k) < (2 : Int) ^ (Nat.log 2 q + 1) := by
    have : (q : Int) < ((2 ^ (Nat.log 2 q + 1) : Nat) : Int) := by exact_mod_cast hlt
    have hq' : (q : Int) = (N - 1) / k := by rw [hq]; exact Int.toNat_of_nonneg hqpos
    rw [hq'] at this
    simpa using this
  -- N - 1 < k * ((N-1)/k + 1) ≤ k * 2^r
  have h1 : N - 1 < k * ((N - 1) / k + 1) := by
    have := Int.lt_ediv_add_one_mul_self (N - 1) (by omega : 0 < k)
    linarith [mul_comm k ((N - 1) / k + 1)]
  have h2 : k * ((N - 1) / k + 1) ≤ k * 2 ^ (Nat.log 2 q + 1) :=
    mul_le_mul_of_nonneg_left (by omega) (by omega)
  omega

/-- `find_neighbors` terminates: if the complete graph passes the connectivity test (C02 + C03) the recursion
    stops after at most `⌊log₂((N-1)/k)⌋ + 1` enlargements -/
-- [S]
theorem findNeighbors_terminates (conn : Int → Bool) (N k : Int) (hk : 1 ≤ k) (hkN : k < N)
    (hcomplete : conn (N - 1) = true) :
    ∃ r, r ≤ Nat.log 2 ((N - 1) / k).toNat + 1 ∧
      findNeighborsRounds conn N (Nat.log 2 ((N - 1) / k).toNat + 2) k = some r := by
  -- generalised: from round i with value kSeq i and enough fuel
  have key : ∀ (m i : Nat), i + m = Nat.log 2 ((N - 1) / k).toNat + 1 → ∀ k', clampK N k' = kSeq N k i →
      ∃ r, r ≤ m ∧ findNeighborsRounds conn N (m + 1) k' = some r := by
    intro m
    induction m with
    | zero =>
      intro i hi k' hk'
      refine ⟨0, le_refl _, ?_⟩
      have : kSeq N k i = N - 1 := by
        have := kSeq_reaches_complete_graph N k hk hkN
        rw [← hi] at this; simpa using this
      simp [findNeighborsRounds, hk', this, hcomplete]
    | succ m ih =>
      intro i hi k' hk'
      by_cases hc : conn (clampK N k') = true
      · exact ⟨0, Nat.zero_le _, by simp [findNeighborsRounds, hc]⟩
      · obtain ⟨r, hr, hrun⟩ := ih (i + 1) (by omega) (knn_next_k (clampK N k')) (by simp [kSeq, hk'])
        refine ⟨r + 1, by omega, ?_⟩
        have hc' : conn (clampK N k') = false := by simpa using hc
        have hunf : findNeighborsRounds conn N (m + 1 + 1) k' =
            (if conn (clampK N k') then some 0
             else (findNeighborsRounds conn N (m + 1) (knn_next_k (clampK N k'))).map (· + 1)) := rfl
        rw [hunf, hc', hrun]; simp
  obtain ⟨r, hr, hrun⟩ := key (Nat.log 2 ((N - 1) / k).toNat + 1) 0 (by omega) k (by simp [kSeq])
  exact ⟨r, hr, hrun⟩

example : findNeighborsRounds (fun k => decide (k = 39)) 40 6 3 = some 4 := by decide

/-- the perplexity bisection (`while (!found && iter < 200)`, `iter++` each round) runs at most the generated bound -/
-- [R]
theorem perplexity_bisection_bounded {σ : Type} (body : σ → σ × Bool) (s : σ) :
    (boundedLoop body tsne_bisection_max.toNat s).1 ≤ 200 := by
  have := boundedLoop_rounds_le body tsne_bisection_max.toNat s
  have h : tsne_bisection_max.toNat = 200 := by decide
  omega

/-- the t-SNE main loop runs `max_iter` rounds; the main loops of SPE, factor analysis and manifold sculpting run at
    most `max_iteration` rounds (`found` = convergence / no-improvement exit) -/
-- [R]
theorem iteration_counts_bounded {σ : Type} (body : σ → σ × Bool) (s : σ) (maxIter : Int) :
    (boundedLoop body tsne_max_iter.toNat s).1 ≤ 1000 ∧
    (boundedLoop body (param_loop_rounds maxIter).toNat s).1 ≤ maxIter.toNat := by
  constructor
  · have := boundedLoop_rounds_le body tsne_max_iter.toNat s
    have h : tsne_max_iter.toNat = 1000 := by decide
    omega
  · simpa [param_loop_rounds] using boundedLoop_rounds_le body maxIter.toNat s

/-- SPE with `max_iteration = 0`: the default iteration count is a finite, explicit function of N -/
-- [S]
theorem spe_default_iterations (N : Int) (g : Bool) (hN : 0 ≤ N) :
    2000 ≤ spe_default_iters N g ∧ spe_default_iters N g ≤ 3 * (2000 + N * N) := by
  simp only [spe_default_iters]
  have hsq : 0 ≤ N * N := mul_nonneg hN hN
  rw [show (1 * N * N) = N * N by ring]
  generalize N * N = a at *
  cases g <;> simp <;> omega

end TapkeeVerif.C01
