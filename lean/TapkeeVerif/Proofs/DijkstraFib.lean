import TapkeeVerif.Model.DijkstraFib
import TapkeeVerif.Proofs.DijkstraLoop
import TapkeeVerif.Proofs.FibHeapRefine
import TapkeeVerif.Proofs.FibHeapOob
import TapkeeVerif.Proofs.DijkstraTerm
import Mathlib.Algebra.Order.Ring.Int
/-!
Forward simulation: the Fibonacci-heap build driven by the *concrete* heap model of property C16
(`Model/DijkstraFib.lean`) is, step by step, a run of the abstract `indexed` discipline of `Model/Dijkstra.lean` for
some choice stream.  The heap operations are related through C16's one-step refinement theorem
`FibHeap.step_ok` (`Inv`, `Abs`: the abstract queue is a permutation of the heap's stored entries).
-/
namespace TapkeeVerif.Dijkstra
set_option linter.unusedSectionVars false
open FibHeap (Heap Spec Op Out entriesL fsts)

/-- the choice stream is only consulted from the current iteration on -/
theorem loop_congr {K : Type} [Add K] [Zero K] [LT K] [DecidableLT K] (P : Problem K) (disc : Disc) (k : Nat)
    (ch ch' : Nat → Nat) :
    ∀ (fuel t : Nat) (σ : St K P.N), (∀ n, t ≤ n → ch n = ch' n) →
      loop P disc k ch fuel t σ = loop P disc k ch' fuel t σ := by
  intro fuel
  induction fuel with
  | zero => intro t σ _; rfl
  | succ fuel ih =>
    intro t σ h
    simp only [loop]
    rw [h t (Nat.le_refl _)]
    cases popMin (ch' t) σ.q with
    | none => rfl
    | some r =>
      obtain ⟨⟨u, key⟩, q'⟩ := r
      simp only
      have h' : ∀ n, t + 1 ≤ n → ch n = ch' n := fun n hn => h n (by omega)
      by_cases hu : u < P.N
      · simp only [hu, dite_true]
        split
        · exact ih _ _ h'
        · cases edges P disc u hu (List.range k) _ with
          | error e => rfl
          | ok σ' => exact ih _ _ h'
      · simp [hu]

/-! ### the abstract queue operations against C16's specification -/

theorem stepCheck_insert_fresh {cap : Nat} {q : Spec} {x : Nat} {d : Int} {n : Nat} {s' : Spec} (hx : x < cap)
    (hget : Spec.get q x = none)
    (hsc : Spec.stepCheck cap q (.insert (x : Int) d) (.size n) = some s') : s' = Spec.set q x d := by
  have hc : ¬ ((x : Int) < 0 ∨ (x : Int) ≥ (cap : Int) ∨ (Spec.get q x).isSome = true) := by
    rw [hget]
    simp
    omega
  simp only [Spec.stepCheck, if_neg hc, Int.toNat_natCast] at hsc
  split at hsc
  · exact (Option.some.inj hsc).symm
  · cases hsc

theorem stepCheck_decrease_present {cap : Nat} {q : Spec} {x : Nat} {d kx : Int} {n : Nat} {s' : Spec} (hx : x < cap)
    (hget : Spec.get q x = some kx) (hle : d ≤ kx)
    (hsc : Spec.stepCheck cap q (.decrease (x : Int) d) (.size n) = some s') : s' = Spec.set q x d := by
  have hc : ¬ ((x : Int) < 0 ∨ (x : Int) ≥ (cap : Int)) := by omega
  have hgt : ¬ d > kx := by omega
  simp only [Spec.stepCheck, if_neg hc, Int.toNat_natCast, hget, if_neg hgt] at hsc
  split at hsc
  · exact (Option.some.inj hsc).symm
  · cases hsc

theorem stepCheck_extract_some {cap : Nat} {q : Spec} {u : Nat} {key : Int} {n : Nat} {s' : Spec}
    (hsc : Spec.stepCheck cap q .extract (.extracted n (some (u, key))) = some s') :
    Spec.get q u = some key ∧ Spec.isMin q key = true ∧ s' = Spec.erase q u := by
  simp only [Spec.stepCheck] at hsc
  split at hsc
  · rename_i hc
    exact ⟨hc.1, hc.2.1, (Option.some.inj hsc).symm⟩
  · cases hsc

theorem stepCheck_extract_none {cap : Nat} {q : Spec} {n : Nat} {s' : Spec}
    (hsc : Spec.stepCheck cap q .extract (.extracted n none) = some s') : q = [] := by
  simp only [Spec.stepCheck] at hsc
  split at hsc
  · rename_i hc
    simpa using hc.1
  · cases hsc


theorem perm_idxInsert_set {N : Nat} {q : List (Nat × Int)} {x : Nat} {d : Int} (hx : x < N)
    (hfresh : ∀ e ∈ q, e.1 ≠ x) : (idxInsert N q x d).Perm (Spec.set q x d) := by
  rw [idxInsert_fresh hx hfresh]
  have : Spec.erase q x = q := FibHeap.Spec.erase_absent (by
    intro hmem
    obtain ⟨e, he, hex⟩ := List.mem_map.mp hmem
    exact hfresh e he hex)
  simp only [Spec.set, this]
  exact List.perm_append_singleton _ _

theorem idxDecrease_split {N : Nat} {l₁ l₂ : List (Nat × Int)} {x : Nat} {kx d : Int} (hx : x < N)
    (h1 : ∀ e ∈ l₁, e.1 ≠ x) (h2 : ∀ e ∈ l₂, e.1 ≠ x) (hle : d ≤ kx) :
    idxDecrease N (l₁ ++ (x, kx) :: l₂) x d = l₁ ++ (x, d) :: l₂ := by
  unfold idxDecrease
  rw [if_pos hx, List.map_append, List.map_cons]
  have m1 : l₁.map (fun e => if e.1 = x then (if e.2 < d then e else (x, d)) else e) = l₁ := by
    conv => rhs; rw [← List.map_id l₁]
    apply List.map_congr_left
    intro e he
    simp [h1 e he]
  have m2 : l₂.map (fun e => if e.1 = x then (if e.2 < d then e else (x, d)) else e) = l₂ := by
    conv => rhs; rw [← List.map_id l₂]
    apply List.map_congr_left
    intro e he
    simp [h2 e he]
  rw [m1, m2]
  simp [Int.not_lt.mpr hle]

theorem erase_split {l₁ l₂ : List (Nat × Int)} {x : Nat} {kx : Int}
    (h1 : ∀ e ∈ l₁, e.1 ≠ x) (h2 : ∀ e ∈ l₂, e.1 ≠ x) :
    Spec.erase (l₁ ++ (x, kx) :: l₂) x = l₁ ++ l₂ := by
  unfold Spec.erase
  rw [List.filter_append, List.filter_cons]
  have f1 : l₁.filter (fun e => e.1 != x) = l₁ := by
    rw [List.filter_eq_self]
    intro e he
    simpa using h1 e he
  have f2 : l₂.filter (fun e => e.1 != x) = l₂ := by
    rw [List.filter_eq_self]
    intro e he
    simpa using h2 e he
  rw [f1, f2]
  simp

/-- splitting a queue with distinct indices at an entry -/
theorem split_of_mem_nodup {q : List (Nat × Int)} {x : Nat} {kx : Int} (hmem : (x, kx) ∈ q)
    (hnd : (q.map Prod.fst).Nodup) :
    ∃ l₁ l₂, q = l₁ ++ (x, kx) :: l₂ ∧ (∀ e ∈ l₁, e.1 ≠ x) ∧ (∀ e ∈ l₂, e.1 ≠ x) := by
  obtain ⟨l₁, l₂, rfl⟩ := List.append_of_mem hmem
  refine ⟨l₁, l₂, rfl, ?_, ?_⟩
  · intro e he hex
    rw [List.map_append, List.map_cons] at hnd
    have := (List.nodup_append.mp hnd).2.2 e.1 (List.mem_map_of_mem (f := Prod.fst) (a := e) he) x
      List.mem_cons_self
    exact this hex
  · intro e he hex
    rw [List.map_append, List.map_cons] at hnd
    have := (List.nodup_cons.mp (List.nodup_append.mp hnd).2.1).1
    exact this (hex ▸ List.mem_map_of_mem (f := Prod.fst) (a := e) he)

/-! ### the simulation relation -/

structure Sim {N : Nat} (σF : FSt N) (σA : St Int N) : Prop where
  dist : σF.dist = σA.dist
  s : σF.s = σA.s
  f : σF.f = σA.f
  inv : FibHeap.Inv σF.h
  abs : FibHeap.Abs σA.q σF.h
  cap : σF.h.cap = N

theorem Sim.nodup {N : Nat} {σF : FSt N} {σA : St Int N} (h : Sim σF σA) : (σA.q.map Prod.fst).Nodup :=
  (h.abs.map Prod.fst).nodup_iff.mpr h.inv.nodup

theorem fibEdge_sim {P : Problem Int} {u x : Nat} (hu : u < P.N) (hx : x < P.N)
    {σF σF' : FSt P.N} {σA : St Int P.N} (hsim : Sim σF σA) (hi : IdxInv σA)
    (he : fibEdge P.w u hu x hx σF = .ok σF') : Sim σF' (edgeIdx P.w u hu x hx σA) := by
  obtain ⟨hd, hs, hf, hinv, habs, hcap⟩ := hsim
  unfold fibEdge at he
  unfold edgeIdx
  rw [hd, hs, hf] at he
  by_cases hsx : σA.s[x] = false
  · simp only [hsx, if_true] at he ⊢
    cases hdu : σA.dist[u] with
    | none =>
      simp only [hdu, Except.ok.injEq] at he
      subst he
      exact ⟨hd, hs, hf, hinv, habs, hcap⟩
    | some du =>
      simp only [hdu] at he ⊢
      by_cases hlt : ltDist (du + P.w u x) σA.dist[x] = true
      · simp only [hlt, if_true] at he ⊢
        have hSx : σA.S x = false := by rw [St.S_of_lt σA hx]; exact hsx
        by_cases hfx : σA.f[x] = true
        · -- decrease_key
          simp only [hfx, if_true] at he ⊢
          have hFx : σA.Fl x = true := by rw [St.Fl_of_lt σA hx]; exact hfx
          obtain ⟨kx, hkx⟩ := hi.flagged x hFx hSx
          have hDx : σA.D x = some kx := hi.keyEq x kx hkx
          have hltk : du + P.w u x < kx := by
            rw [St.D_of_lt σA hx] at hDx
            rw [hDx] at hlt
            simpa [ltDist] using hlt
          cases hdk : σF.h.decreaseKey (x : Int) (du + P.w u x) with
          | error e => simp [hdk] at he
          | ok h' =>
            simp only [hdk, Except.ok.injEq] at he
            subst he
            have hstep : FibHeap.step σF.h (.decrease (x : Int) (du + P.w u x)) = .ok (h', .size h'.numNodes) := by
              simp [FibHeap.step, hdk, bind, Except.bind, pure, Except.pure]
            obtain ⟨hinv', hcap', _, s', hsc, habs'⟩ := FibHeap.step_ok hinv habs hstep
            have hnd : (σA.q.map Prod.fst).Nodup := (habs.map Prod.fst).nodup_iff.mpr hinv.nodup
            obtain ⟨l₁, l₂, hq, h1, h2⟩ := split_of_mem_nodup hkx hnd
            have hget : Spec.get σA.q x = some kx := FibHeap.Spec.get_of_mem hnd hkx
            have hs' : s' = Spec.set σA.q x (du + P.w u x) :=
              stepCheck_decrease_present (by rw [hcap]; exact hx) hget (le_of_lt hltk) hsc
            refine ⟨rfl, rfl, rfl, hinv', ?_, by rw [hcap', hcap]⟩
            show FibHeap.Abs (idxDecrease P.N σA.q x (du + P.w u x)) h'
            have hperm : (idxDecrease P.N σA.q x (du + P.w u x)).Perm s' := by
              rw [hs', hq, idxDecrease_split hx h1 h2 (le_of_lt hltk)]
              simp only [Spec.set, erase_split h1 h2]
              exact List.perm_middle
            exact hperm.trans habs'
        · -- insert
          simp only [hfx, Bool.false_eq_true, if_false, Except.ok.injEq] at he ⊢
          subst he
          have hFx : σA.Fl x = false := by rw [St.Fl_of_lt σA hx]; simpa using hfx
          have hfresh : ∀ e ∈ σA.q, e.1 ≠ x := by
            rintro ⟨v, key⟩ he rfl
            have := (hi.inq v key he).1
            rw [hFx] at this
            exact Bool.noConfusion this
          have hstep : FibHeap.step σF.h (.insert (x : Int) (du + P.w u x))
              = .ok (σF.h.insert (x : Int) (du + P.w u x), .size (σF.h.insert (x : Int) (du + P.w u x)).numNodes) := rfl
          obtain ⟨hinv', hcap', _, s', hsc, habs'⟩ := FibHeap.step_ok hinv habs hstep
          have hget : Spec.get σA.q x = none := (FibHeap.Spec.get_eq_none_iff σA.q x).mpr (by
            intro hmem
            obtain ⟨e, he, hex⟩ := List.mem_map.mp hmem
            exact hfresh e he hex)
          have hs' : s' = Spec.set σA.q x (du + P.w u x) :=
            stepCheck_insert_fresh (by rw [hcap]; exact hx) hget hsc
          refine ⟨rfl, rfl, rfl, hinv', ?_, by rw [hcap', hcap]⟩
          show FibHeap.Abs (idxInsert P.N σA.q x (du + P.w u x)) _
          exact (hs' ▸ perm_idxInsert_set hx hfresh).trans habs'
      · simp only [hlt, Bool.false_eq_true, if_false, Except.ok.injEq] at he ⊢
        subst he
        exact ⟨hd, hs, hf, hinv, habs, hcap⟩
  · rw [if_neg hsx] at he ⊢
    simp only [Except.ok.injEq] at he
    subst he
    exact ⟨hd, hs, hf, hinv, habs, hcap⟩

theorem fibEdges_sim {P : Problem Int} {k s₀ u : Nat} (hu : u < P.N) :
    ∀ (is : List Nat) (σF σF' : FSt P.N) (σA : St Int P.N), (∀ i ∈ is, i < k) → Sim σF σA →
      Good P k s₀ .indexed (pendOf P u is) σA → σA.S u = true → fibEdges P u hu is σF = .ok σF' →
      ∃ σA', edges P .indexed u hu is σA = .ok σA' ∧ Sim σF' σA' := by
  intro is
  induction is with
  | nil =>
    intro σF σF' σA _ hsim _ _ he
    simp only [fibEdges, Except.ok.injEq] at he
    subst he
    exact ⟨σA, rfl, hsim⟩
  | cons i is ih =>
    intro σF σF' σA hk hsim hg hSu he
    simp only [fibEdges] at he
    cases hn : P.nbr u i with
    | none => simp [hn] at he
    | some x =>
      simp only [hn] at he
      by_cases hx : x < P.N
      · simp only [hx, dite_true] at he
        cases hfe : fibEdge P.w u hu x hx σF with
        | error e => simp [hfe] at he
        | ok σF₁ =>
          simp only [hfe] at he
          have hsim₁ := fibEdge_sim hu hx hsim (hg.2 rfl) hfe
          have hedge : Edge P k u x := ⟨hu, hx, i, hk i List.mem_cons_self, hn⟩
          have hg₁ := edge_good hu hx hg (pendOf_step hn) hedge hSu
          have hS := edge_S .indexed P.w hu hx σA
          obtain ⟨σA', hed, hsim'⟩ := ih σF₁ σF' _ (fun j hj => hk j (List.mem_cons_of_mem _ hj)) hsim₁ hg₁
            (by have := hS u; simp only [edge] at this; rw [this]; exact hSu) he
          refine ⟨σA', ?_, hsim'⟩
          simp only [edges, hn, hx, dite_true]
          exact hed
      · simp [hx] at he

/-- **Simulation of the while loop.** -/
theorem fibLoop_sim {P : Problem Int} {k s₀ : Nat} (hw : ∀ a b, 0 ≤ P.w a b) :
    ∀ (fuel t : Nat) (σF σF' : FSt P.N) (σA : St Int P.N), Sim σF σA →
      Good P k s₀ .indexed (fun _ _ => False) σA → fibLoop P k fuel σF = .ok σF' →
      ∃ (ch : Nat → Nat) (σA' : St Int P.N), loop P .indexed k ch fuel t σA = .ok σA' ∧ σF'.dist = σA'.dist := by
  intro fuel
  induction fuel with
  | zero => intro t σF σF' σA _ _ he; simp [fibLoop] at he
  | succ fuel ih =>
    intro t σF σF' σA hsim hg he
    simp only [fibLoop] at he
    have hlen : σA.q.length = σF.h.numNodes := by rw [hsim.inv.numNodes]; exact hsim.abs.length_eq
    by_cases hempty : σF.h.numNodes = 0
    · simp only [hempty, if_true, Except.ok.injEq] at he
      subst he
      have hq : σA.q = [] := List.length_eq_zero_iff.mp (by omega)
      refine ⟨fun _ => 0, σA, ?_, hsim.dist⟩
      simp [loop, hq, popMin_eq_none.mpr rfl]
    · simp only [hempty, if_false] at he
      cases hex : σF.h.extractMin with
      | error e => simp [hex] at he
      | ok pr =>
        obtain ⟨h', r⟩ := pr
        have hstep : FibHeap.step σF.h .extract = .ok (h', .extracted h'.numNodes r) := by
          simp [FibHeap.step, hex, bind, Except.bind, pure, Except.pure]
        obtain ⟨hinv', hcap', _, s', hsc, habs'⟩ := FibHeap.step_ok hsim.inv hsim.abs hstep
        cases r with
        | none =>
          -- `-1` on a non-empty heap is not allowed by the specification
          have : σA.q = [] := stepCheck_extract_none hsc
          rw [this] at hlen
          simp at hlen
          omega
        | some uk =>
          obtain ⟨u, key⟩ := uk
          simp only [hex] at he
          obtain ⟨hget, hmin, rfl⟩ := stepCheck_extract_some hsc
          · have hmem : (u, key) ∈ σA.q := FibHeap.Spec.get_some_mem hget
            have hmin' : ∀ e ∈ σA.q, key ≤ e.2 := (FibHeap.Spec.isMin_iff σA.q key).mp hmin
            obtain ⟨l₁, l₂, hq, h1, h2⟩ := split_of_mem_nodup hmem hsim.nodup
            obtain ⟨c, hc⟩ := popMin_complete' hq (fun e he => hmin' e he)
            have hDu : σA.D u = some key := (hg.2 rfl).keyEq u key hmem
            have hu : u < P.N := St.lt_of_D_some hDu
            simp only [hu, dite_true] at he
            cases hfe : fibEdges P u hu (List.range k)
                { σF with h := h', s := σF.s.set u true hu, f := σF.f.set u false hu } with
            | error e => simp [hfe] at he
            | ok σF₁ =>
              simp only [hfe] at he
              -- the abstract state after settling `u`
              have hsim₁ : Sim { σF with h := h', s := σF.s.set u true hu, f := σF.f.set u false hu }
                  { σA with q := l₁ ++ l₂, s := σA.s.set u true hu, f := σA.f.set u false hu } :=
                ⟨hsim.dist, by simp [hsim.s], by simp [hsim.f], hinv',
                  by
                    have : Spec.erase σA.q u = l₁ ++ l₂ := by rw [hq]; exact erase_split h1 h2
                    show FibHeap.Abs (l₁ ++ l₂) h'
                    rw [← this]
                    exact habs',
                  by rw [hcap']; exact hsim.cap⟩
              have hinv₁ := hg.1.settle hw hu hq (fun e he => hmin' e he) hDu (σA.f.set u false hu)
              have hinv₁' : Inv P k s₀ (pendOf P u (List.range k))
                  { σA with q := l₁ ++ l₂, s := σA.s.set u true hu, f := σA.f.set u false hu } :=
                { hinv₁ with
                  relaxed := by
                    intro a b hSa hedge hnp
                    apply hinv₁.relaxed a b hSa hedge
                    intro hau
                    apply hnp
                    obtain ⟨_, _, i, hi, hnb⟩ := hedge
                    subst hau
                    exact ⟨rfl, i, List.mem_range.mpr hi, hnb⟩ }
              have hSu : St.S { σA with q := l₁ ++ l₂, s := σA.s.set u true hu, f := σA.f.set u false hu } u = true := by
                rw [St.S_set_s { σA with q := l₁ ++ l₂, f := σA.f.set u false hu } hu true u]
                simp
              have hg₁ : Good P k s₀ .indexed (pendOf P u (List.range k))
                  { σA with q := l₁ ++ l₂, s := σA.s.set u true hu, f := σA.f.set u false hu } :=
                ⟨hinv₁', fun _ => settle_idx (hg.2 rfl) hu hq⟩
              obtain ⟨σA₁, hed, hsim'⟩ := fibEdges_sim (s₀ := s₀) hu (List.range k) _ σF₁ _
                (fun i hi => List.mem_range.mp hi) hsim₁ hg₁ hSu hfe
              obtain ⟨hg₁', _⟩ := edges_good (s₀ := s₀) hu (List.range k) _ σA₁ (fun i hi => List.mem_range.mp hi)
                hg₁ hSu hed
              obtain ⟨ch', σA', hloop, hdist⟩ := ih (t + 1) σF₁ σF' σA₁ hsim' hg₁' he
              refine ⟨fun n => if n = t then c else ch' n, σA', ?_, hdist⟩
              simp only [loop, if_true, hc, hu, dite_true]
              have hns : ¬ (Disc.indexed = Disc.lazy ∧ gtDist key σA.dist[u] = true) := fun h => Disc.noConfusion h.1
              rw [if_neg hns, hed]
              simp only
              rw [loop_congr P .indexed k (fun n => if n = t then c else ch' n) ch' fuel (t + 1) σA₁
                (fun n hn => by simp; intro h; omega)]
              exact hloop

/-- the initial states are related -/
theorem fibInit_sim {N : Nat} {src flag : Nat} (hs : src < N) (hf : flag < N) :
    Sim (fibInit src hs flag hf) (initSt (K := Int) src hs flag hf) := by
  have hstep : FibHeap.step (Heap.init N) (.insert (src : Int) 0)
      = .ok ((Heap.init N).insert (src : Int) 0, .size ((Heap.init N).insert (src : Int) 0).numNodes) := rfl
  have habs0 : FibHeap.Abs [] (Heap.init N) := by simp [FibHeap.Abs, Heap.init, entriesL]
  obtain ⟨hinv', hcap', _, s', hsc, habs'⟩ := FibHeap.step_ok (FibHeap.inv_init N (FibHeap.dnOf N)) habs0 hstep
  have hs' : s' = [((src : Nat), (0 : Int))] := by
    have := stepCheck_insert_fresh (q := []) (cap := (Heap.init N).cap) (by simp [Heap.init]; exact hs)
      (by simp [Spec.get]) hsc
    simpa [Spec.set, Spec.erase] using this
  refine ⟨rfl, rfl, rfl, hinv', ?_, ?_⟩
  · show FibHeap.Abs [(src, (0 : Int))] _
    rw [← hs']
    exact habs'
  · show ((Heap.init N).insert (src : Int) 0).cap = N
    rw [hcap']
    rfl

/-- **The Fibonacci build with the concrete heap refines the abstract indexed discipline**: whatever row it returns
    is the row of `row … .indexed` for some tie-breaking stream. -/
theorem fibRow_refines {P : Problem Int} {k : Nat} (hw : ∀ a b, 0 ≤ P.w a b) {src : Nat}
    {r : Vector (Option Int) P.N} (h : fibRow P k src src = .ok r) :
    ∃ ch, row P .indexed k ch src src = .ok r := by
  unfold fibRow at h
  by_cases hs : src < P.N
  · simp only [hs, dite_true] at h
    cases hl : fibLoop P k (fuelFor P.N k) (fibInit src hs src hs) with
    | error e => simp [hl] at h
    | ok σF' =>
      simp only [hl, Except.ok.injEq] at h
      subst h
      have hg : Good P k src .indexed (fun _ _ => False) (initSt src hs src hs) :=
        ⟨initSt_inv hs hs, fun _ => initSt_idx hs⟩
      obtain ⟨ch, σA', hloop, hdist⟩ := fibLoop_sim hw (fuelFor P.N k) 0 _ σF' _ (fibInit_sim hs hs) hg hl
      exact ⟨ch, by simp [row, hs, hloop, hdist]⟩
  · simp [hs] at h

/-! ### progress: the concrete-heap build never fails -/

/-- the consolidation array is large enough for the heap's capacity (true of the constructor's `Dn`: C16 `dnOf_spec`);
    preserved by every heap operation -/
def DnOk (h : Heap) : Prop := h.cap < FibHeap.fib (h.dn + 2)

/-- C16 `no_oob`, for one `extract_min` on an invariant heap -/
theorem extractMin_ok {h : Heap} (hinv : FibHeap.Inv h) (hdn : DnOk h) : ∃ pr, h.extractMin = .ok pr := by
  cases hex : h.extractMin with
  | ok pr => exact ⟨pr, rfl⟩
  | error e =>
    exfalso
    obtain ⟨_, m, rs, hr, hc⟩ := FibHeap.extractMin_error hinv hex
    have hsz := hinv.size_le_cap
    have hE := (FibHeap.extractRest_entries hr).length_eq
    simp only [List.length_cons] at hE
    exact FibHeap.consolidate_ne_none h.cap h.dn _ (FibHeap.extractRest_good hinv hr) (by omega) hdn hc

theorem fibEdge_total {P : Problem Int} {u x : Nat} (hu : u < P.N) (hx : x < P.N) {σF : FSt P.N}
    (hinv : FibHeap.Inv σF.h) (hdn : DnOk σF.h) :
    ∃ σF', fibEdge P.w u hu x hx σF = .ok σF' ∧ DnOk σF'.h := by
  unfold fibEdge
  by_cases hsx : σF.s[x] = false
  · rw [if_pos hsx]
    cases hdu : σF.dist[u] with
    | none => exact ⟨σF, rfl, hdn⟩
    | some du =>
      dsimp only
      by_cases hlt : ltDist (du + P.w u x) σF.dist[x] = true
      · rw [if_pos hlt]
        by_cases hfx : σF.f[x] = true
        · rw [if_pos hfx]
          obtain ⟨h', hd, _, hcap, hdn', _⟩ := FibHeap.decreaseKey_spec hinv (x : Int) (du + P.w u x)
          refine ⟨{ σF with dist := σF.dist.set x (some (du + P.w u x)), h := h' }, by simp only [hd], ?_⟩
          show DnOk h'
          unfold DnOk
          rw [hcap, hdn']
          exact hdn
        · rw [if_neg hfx]
          refine ⟨_, rfl, ?_⟩
          show DnOk (σF.h.insert _ _)
          unfold DnOk Heap.insert
          dsimp only
          split
          · exact hdn
          · split <;> exact hdn
      · rw [if_neg hlt]
        exact ⟨σF, rfl, hdn⟩
  · rw [if_neg hsx]
    exact ⟨σF, rfl, hdn⟩

theorem fibEdges_total {P : Problem Int} {k s₀ u : Nat} (hwf : WF P k) (hu : u < P.N) :
    ∀ (is : List Nat) (σF : FSt P.N) (σA : St Int P.N), (∀ i ∈ is, i < k) → Sim σF σA → DnOk σF.h →
      Good P k s₀ .indexed (pendOf P u is) σA → σA.S u = true →
      ∃ σF' σA', fibEdges P u hu is σF = .ok σF' ∧ edges P .indexed u hu is σA = .ok σA' ∧ Sim σF' σA' ∧ DnOk σF'.h := by
  intro is
  induction is with
  | nil => intro σF σA _ hsim hdn _ _; exact ⟨σF, σA, rfl, rfl, hsim, hdn⟩
  | cons i is ih =>
    intro σF σA hk hsim hdn hg hSu
    obtain ⟨x, hn, hx⟩ := hwf u hu i (hk i List.mem_cons_self)
    obtain ⟨σF₁, hfe, hdn₁⟩ := fibEdge_total (P := P) hu hx hsim.inv hdn
    have hsim₁ := fibEdge_sim hu hx hsim (hg.2 rfl) hfe
    have hedge : Edge P k u x := ⟨hu, hx, i, hk i List.mem_cons_self, hn⟩
    have hg₁ := edge_good hu hx hg (pendOf_step hn) hedge hSu
    have hS := edge_S .indexed P.w hu hx σA u
    obtain ⟨σF', σA', hF, hA, hsim', hdn'⟩ := ih σF₁ _ (fun j hj => hk j (List.mem_cons_of_mem _ hj)) hsim₁ hdn₁ hg₁
      (by simp only [edge] at hS; rw [hS]; exact hSu)
    refine ⟨σF', σA', ?_, ?_, hsim', hdn'⟩
    · simp only [fibEdges, hn, hx, dite_true, hfe]
      exact hF
    · simp only [edges, hn, hx, dite_true]
      exact hA

/-- if the abstract loop succeeds for every choice stream, the concrete-heap loop succeeds -/
theorem fibLoop_total {P : Problem Int} {k s₀ : Nat} (hwf : WF P k) (hw : ∀ a b, 0 ≤ P.w a b) :
    ∀ (fuel t : Nat) (σF : FSt P.N) (σA : St Int P.N), Sim σF σA → DnOk σF.h →
      Good P k s₀ .indexed (fun _ _ => False) σA →
      (∀ ch : Nat → Nat, ∃ σA', loop P .indexed k ch fuel t σA = .ok σA') →
      ∃ σF', fibLoop P k fuel σF = .ok σF' := by
  intro fuel
  induction fuel with
  | zero =>
    intro t σF σA _ _ _ hall
    obtain ⟨_, h⟩ := hall (fun _ => 0)
    simp [loop] at h
  | succ fuel ih =>
    intro t σF σA hsim hdn hg hall
    simp only [fibLoop]
    have hlen : σA.q.length = σF.h.numNodes := by rw [hsim.inv.numNodes]; exact hsim.abs.length_eq
    by_cases hempty : σF.h.numNodes = 0
    · exact ⟨σF, by simp [hempty]⟩
    · simp only [hempty, if_false]
      obtain ⟨⟨h', r⟩, hex⟩ := extractMin_ok hsim.inv hdn
      have hstep : FibHeap.step σF.h .extract = .ok (h', .extracted h'.numNodes r) := by
        simp [FibHeap.step, hex, bind, Except.bind, pure, Except.pure]
      obtain ⟨hinv', hcap', hdn', s', hsc, habs'⟩ := FibHeap.step_ok hsim.inv hsim.abs hstep
      cases r with
      | none =>
        exfalso
        have : σA.q = [] := stepCheck_extract_none hsc
        rw [this] at hlen
        simp at hlen
        omega
      | some uk =>
        obtain ⟨u, key⟩ := uk
        simp only [hex]
        obtain ⟨hget, hmin, rfl⟩ := stepCheck_extract_some hsc
        have hmem : (u, key) ∈ σA.q := FibHeap.Spec.get_some_mem hget
        have hmin' : ∀ e ∈ σA.q, key ≤ e.2 := (FibHeap.Spec.isMin_iff σA.q key).mp hmin
        obtain ⟨l₁, l₂, hq, h1, h2⟩ := split_of_mem_nodup hmem hsim.nodup
        obtain ⟨c, hc⟩ := popMin_complete' hq (fun e he => hmin' e he)
        have hDu : σA.D u = some key := (hg.2 rfl).keyEq u key hmem
        have hu : u < P.N := St.lt_of_D_some hDu
        simp only [hu, dite_true]
        have hsim₁ : Sim { σF with h := h', s := σF.s.set u true hu, f := σF.f.set u false hu }
            { σA with q := l₁ ++ l₂, s := σA.s.set u true hu, f := σA.f.set u false hu } :=
          ⟨hsim.dist, by simp [hsim.s], by simp [hsim.f], hinv',
            by
              have : Spec.erase σA.q u = l₁ ++ l₂ := by rw [hq]; exact erase_split h1 h2
              show FibHeap.Abs (l₁ ++ l₂) h'
              rw [← this]
              exact habs',
            by rw [hcap']; exact hsim.cap⟩
        have hdn₁ : DnOk h' := by unfold DnOk; rw [hcap', hdn']; exact hdn
        have hinv₁ := hg.1.settle hw hu hq (fun e he => hmin' e he) hDu (σA.f.set u false hu)
        have hinv₁' : Inv P k s₀ (pendOf P u (List.range k))
            { σA with q := l₁ ++ l₂, s := σA.s.set u true hu, f := σA.f.set u false hu } :=
          { hinv₁ with
            relaxed := by
              intro a b hSa hedge hnp
              apply hinv₁.relaxed a b hSa hedge
              intro hau
              apply hnp
              obtain ⟨_, _, i, hi, hnb⟩ := hedge
              subst hau
              exact ⟨rfl, i, List.mem_range.mpr hi, hnb⟩ }
        have hSu : St.S { σA with q := l₁ ++ l₂, s := σA.s.set u true hu, f := σA.f.set u false hu } u = true := by
          rw [St.S_set_s { σA with q := l₁ ++ l₂, f := σA.f.set u false hu } hu true u]
          simp
        have hg₁ : Good P k s₀ .indexed (pendOf P u (List.range k))
            { σA with q := l₁ ++ l₂, s := σA.s.set u true hu, f := σA.f.set u false hu } :=
          ⟨hinv₁', fun _ => settle_idx (hg.2 rfl) hu hq⟩
        obtain ⟨σF₁, σA₁, hF, hA, hsim', hdn'⟩ := fibEdges_total (s₀ := s₀) hwf hu (List.range k) _ _
          (fun i hi => List.mem_range.mp hi) hsim₁ hdn₁ hg₁ hSu
        obtain ⟨hg₁', _⟩ := edges_good (s₀ := s₀) hu (List.range k) _ σA₁ (fun i hi => List.mem_range.mp hi)
          hg₁ hSu hA
        simp only [hF]
        apply ih (t + 1) σF₁ σA₁ hsim' hdn' hg₁'
        intro ch'
        obtain ⟨σA', hl⟩ := hall (fun n => if n = t then c else ch' n)
        simp only [loop, if_true, hc, hu, dite_true] at hl
        have hns : ¬ (Disc.indexed = Disc.lazy ∧ gtDist key σA.dist[u] = true) := fun h => Disc.noConfusion h.1
        rw [if_neg hns, hA] at hl
        simp only at hl
        rw [loop_congr P .indexed k (fun n => if n = t then c else ch' n) ch' fuel (t + 1) σA₁
          (fun n hn => by simp; intro h; omega)] at hl
        exact ⟨σA', hl⟩

/-- **The concrete-heap build runs to completion** on well-formed lists with non-negative weights: no error of the
    heap model (C16 `no_oob`, `no_corrupt` per operation), no out-of-bounds index, fuel not exhausted. -/
theorem fibRow_ok {P : Problem Int} {k : Nat} (hwf : WF P k) (hw : ∀ a b, 0 ≤ P.w a b) {src : Nat} (hs : src < P.N) :
    ∃ r, fibRow P k src src = .ok r := by
  have hg : Good P k src .indexed (fun _ _ => False) (initSt src hs src hs) :=
    ⟨initSt_inv hs hs, fun _ => initSt_idx hs⟩
  have hdn : DnOk (fibInit src hs src hs).h := by
    show DnOk ((Heap.init P.N).insert (src : Int) 0)
    unfold DnOk Heap.insert
    dsimp only
    split
    · exact FibHeap.dnOf_spec P.N
    · split <;> exact FibHeap.dnOf_spec P.N
  obtain ⟨σF', hl⟩ := fibLoop_total hwf hw (fuelFor P.N k) 0 _ _ (fibInit_sim hs hs) hdn hg (fun ch =>
    loop_ok hwf hw ch (fuelFor P.N k) 0 _ hg (by rw [initSt_phi]; unfold fuelFor; omega))
  exact ⟨σF'.dist, by simp [fibRow, hs, hl]⟩

end TapkeeVerif.Dijkstra
