import TapkeeVerif.Proofs.CoverBatch
/-!
C02, cover tree batch query, part 9: **the fuel of the query model suffices and the answer does not depend on it**.

`internalBatch` (the model of `internal_batch_nearest_neighbor`) returns `none` in exactly two situations: the fuel
ran out, or a query node without children is to be split (`scale <= current_scale && scale != leaf_scale` on a
childless node: the C++ then reads `children[0]` of a leaf — undefined behaviour).  Here:

* the second situation does not arise on a query tree whose childless nodes all carry the scale `leafScale`
  (`CNode.leavesAt`, what `set_leaf_scale` establishes — `Proofs/CoverBuildLeaf.lean`);
* the recursion depth is bounded: `max_scale` never exceeds the largest scale of a node with children of the reference
  tree (`CNode.innerScale`; only such nodes are filed into `cover_sets`), every frame either descends one scale, or
  moves one level down the query tree, or hands over to `brute_nearest`, which moves one level down per frame.  Hence
  `fuel ≥ height Q + (M + 1 - current_scale)` suffices (`internalBatch_total`), at the top
  `CNode.queryFuel top = height + innerScale + 1`;
* an answer obtained with some fuel is the answer with every larger fuel (`internalBatch_fuel_mono`).

No hypothesis on the callback, on `hsort` only that it returns entries of its argument.
-/
set_option linter.unusedSectionVars false
namespace TapkeeVerif.CoverTree
open List

variable {K : Type} [LinearOrder K] [AddCommGroup K] [IsOrderedAddMonoid K]
variable {δ : Nat → Nat → K} {K0 : Nat}

/-! ### `height`, `innerScale`, `leavesAt` one level -/

theorem heightL_le {c : CNode K} : ∀ (cs : List (CNode K)), c ∈ cs → c.height ≤ CNode.heightL cs
  | [], h => by simp at h
  | c' :: rest, h => by
    simp only [CNode.heightL]
    rcases mem_cons.1 h with rfl | h
    · exact Nat.le_max_left _ _
    · exact le_trans (heightL_le rest h) (Nat.le_max_right _ _)

theorem height_pos (Q : CNode K) : 1 ≤ Q.height := by
  cases Q
  simp only [CNode.height]
  omega

theorem height_child {Q c : CNode K} (h : c ∈ Q.children) : c.height + 1 ≤ Q.height := by
  cases Q with
  | mk p m d s cs =>
    simp only [CNode.children] at h
    simp only [CNode.height]
    have := heightL_le cs h
    omega

theorem innerScaleL_le {c : CNode K} : ∀ (cs : List (CNode K)), c ∈ cs → c.innerScale ≤ CNode.innerScaleL cs
  | [], h => by simp at h
  | c' :: rest, h => by
    simp only [CNode.innerScaleL]
    rcases mem_cons.1 h with rfl | h
    · exact Nat.le_max_left _ _
    · exact le_trans (innerScaleL_le rest h) (Nat.le_max_right _ _)

theorem innerScale_child {Q c : CNode K} (h : c ∈ Q.children) : c.innerScale ≤ Q.innerScale := by
  cases Q with
  | mk p m d s cs =>
    simp only [CNode.children] at h
    simp only [CNode.innerScale]
    exact le_trans (innerScaleL_le cs h) (Nat.le_max_right _ _)

theorem scale_le_innerScale {Q : CNode K} (h : Q.children ≠ []) : Q.scale ≤ Q.innerScale := by
  cases Q with
  | mk p m d s cs =>
    simp only [CNode.children] at h
    have he : cs.isEmpty = false := by
      cases cs with
      | nil => exact absurd rfl h
      | cons _ _ => rfl
    simp only [CNode.innerScale, CNode.scale, he]
    exact Nat.le_max_left _ _

theorem leavesAtL_iff (ls : Nat) : ∀ (cs : List (CNode K)),
    CNode.leavesAtL ls cs = true ↔ ∀ c ∈ cs, CNode.leavesAt ls c = true
  | [] => by simp [CNode.leavesAtL]
  | c :: rest => by simp [CNode.leavesAtL, leavesAtL_iff ls rest]

theorem leavesAt_child {ls : Nat} {Q c : CNode K} (h : CNode.leavesAt ls Q = true) (hc : c ∈ Q.children) :
    CNode.leavesAt ls c = true := by
  cases Q with
  | mk p m d s cs =>
    simp only [CNode.children] at hc
    simp only [CNode.leavesAt, Bool.and_eq_true] at h
    exact (leavesAtL_iff ls cs).1 h.2 c hc

theorem leavesAt_leaf {ls : Nat} {Q : CNode K} (h : CNode.leavesAt ls Q = true) (hc : Q.children = []) :
    Q.scale = ls := by
  cases Q with
  | mk p m d s cs =>
    simp only [CNode.children] at hc
    subst hc
    simpa [CNode.leavesAt, CNode.leavesAtL, CNode.scale] using h

/-! ### the loops over the non-first children of a query node -/

/-- "append the results of child `C`, fail if it fails" -/
def optStep {β γ : Type} (f : β → Option (List γ)) (acc : Option (List γ)) (C : β) : Option (List γ) :=
  match acc with
  | none => none
  | some rs =>
    match f C with
    | none => none
    | some r => some (rs ++ r)

theorem foldl_optStep_none {β γ : Type} (f : β → Option (List γ)) : ∀ (l : List β), l.foldl (optStep f) none = none
  | [] => rfl
  | _ :: l => by simp only [foldl_cons, optStep]; exact foldl_optStep_none f l

theorem foldl_optStep_total {β γ : Type} (f : β → Option (List γ)) : ∀ (l : List β) (a : List γ),
    (∀ C ∈ l, ∃ r, f C = some r) → ∃ res, l.foldl (optStep f) (some a) = some res
  | [], a, _ => ⟨a, rfl⟩
  | C :: l, a, h => by
    obtain ⟨r, hr⟩ := h C mem_cons_self
    simp only [foldl_cons, optStep, hr]
    exact foldl_optStep_total f l (a ++ r) (fun C' hC' => h C' (mem_cons_of_mem _ hC'))

theorem foldl_optStep_mono {β γ : Type} (f f' : β → Option (List γ)) : ∀ (l : List β) (a res : List γ),
    (∀ C ∈ l, ∀ r, f C = some r → f' C = some r) → l.foldl (optStep f) (some a) = some res →
    l.foldl (optStep f') (some a) = some res
  | [], a, res, _, h => h
  | C :: l, a, res, hf, h => by
    simp only [foldl_cons] at h ⊢
    cases hC : f C with
    | none =>
      have : optStep f (some a) C = none := by simp only [optStep, hC]
      rw [this, foldl_optStep_none] at h
      cases h
    | some r =>
      have e1 : optStep f (some a) C = some (a ++ r) := by simp only [optStep, hC]
      have e2 : optStep f' (some a) C = some (a ++ r) := by simp only [optStep, hf C mem_cons_self r hC]
      rw [e1] at h
      rw [e2]
      exact foldl_optStep_mono f f' l (a ++ r) res (fun C' hC' => hf C' (mem_cons_of_mem _ hC')) h

/-! ### one frame of `brute_nearest` / `internal_batch_nearest_neighbor` -/

/-- the call of `brute_nearest` for a non-first child `C` of the query node -/
def bruteCall (δ : Nat → Nat → K) (K0 fuel : Nat) (zero : List (DN K)) (ub : List K) (C : CNode K) :
    Option (List (List Nat)) :=
  bruteNearest δ K0 fuel C (copyZero δ K0 C (fill K0 (addInf (ub0 K0 ub) C.parentDist)) zero).2
    (copyZero δ K0 C (fill K0 (addInf (ub0 K0 ub) C.parentDist)) zero).1

theorem bruteNearest_succ (fuel : Nat) (Q : CNode K) (zero : List (DN K)) (ub : List K) :
    bruteNearest δ K0 (fuel + 1) Q zero ub =
      match Q.children with
      | [] => some [Q.p :: (zero.filter (fun e => leInf e.dist (ub0 K0 ub))).map (·.node.p)]
      | c0 :: rest =>
        match bruteNearest δ K0 fuel c0 zero ub with
        | none => none
        | some r0 => rest.foldl (optStep (bruteCall δ K0 fuel zero ub)) (some r0) := by
  rw [bruteNearest]
  cases Q.children with
  | nil => rfl
  | cons c0 rest =>
    dsimp only
    cases bruteNearest δ K0 fuel c0 zero ub with
    | none => rfl
    | some r0 =>
      dsimp only
      congr 1
      funext acc C
      cases acc with
      | none => rfl
      | some a =>
        simp only [optStep, bruteCall]
        generalize bruteNearest δ K0 fuel C _ _ = x
        cases x <;> rfl

/-- the recursive call of `internal_batch_nearest_neighbor` for a non-first child `C` of the query node -/
def splitCall (δ : Nat → Nat → K) (hsort : List (DN K) → List (DN K)) (K0 leafScale fuel : Nat) (cover : Cover K)
    (zero : List (DN K)) (cur maxScale : Nat) (ub : List K) (C : CNode K) : Option (List (List Nat)) :=
  internalBatch δ hsort K0 leafScale fuel C
    (copyCover δ K0 C cover (maxScale + 1 - cur) cur
      ((copyZero δ K0 C (fill K0 (addInf (ub0 K0 ub) C.parentDist)) zero).1, Cover.empty)).2
    (copyZero δ K0 C (fill K0 (addInf (ub0 K0 ub) C.parentDist)) zero).2 cur maxScale
    (copyCover δ K0 C cover (maxScale + 1 - cur) cur
      ((copyZero δ K0 C (fill K0 (addInf (ub0 K0 ub) C.parentDist)) zero).1, Cover.empty)).1

theorem internalBatch_succ (hsort : List (DN K) → List (DN K)) (leafScale fuel : Nat) (Q : CNode K) (cover : Cover K)
    (zero : List (DN K)) (cur maxScale : Nat) (ub : List K) :
    internalBatch δ hsort K0 leafScale (fuel + 1) Q cover zero cur maxScale ub =
      if cur > maxScale then bruteNearest δ K0 (fuel + 1) Q zero ub
      else if Q.scale ≤ cur ∧ Q.scale ≠ leafScale then
        match Q.children with
        | [] => none
        | c0 :: rest =>
          match rest.foldl (optStep (splitCall δ hsort K0 leafScale fuel cover zero cur maxScale ub)) (some []) with
          | none => none
          | some rs =>
            match internalBatch δ hsort K0 leafScale fuel c0 cover zero cur maxScale ub with
            | none => none
            | some r0 => some (rs ++ r0)
      else
        internalBatch δ hsort K0 leafScale fuel Q
          (((hsort (cover cur)).foldl (descendParent δ K0 Q) ⟨ub, maxScale, cover, zero⟩).cover.clear cur)
          ((hsort (cover cur)).foldl (descendParent δ K0 Q) ⟨ub, maxScale, cover, zero⟩).zero (cur + 1)
          ((hsort (cover cur)).foldl (descendParent δ K0 Q) ⟨ub, maxScale, cover, zero⟩).maxScale
          ((hsort (cover cur)).foldl (descendParent δ K0 Q) ⟨ub, maxScale, cover, zero⟩).ub := by
  have hlam : ∀ rest : List (CNode K), rest.foldl (fun acc C =>
          match acc with
          | none => none
          | some rs =>
            match splitCall δ hsort K0 leafScale fuel cover zero cur maxScale ub C with
            | none => none
            | some r => some (rs ++ r)) (some []) =
        rest.foldl (optStep (splitCall δ hsort K0 leafScale fuel cover zero cur maxScale ub)) (some []) := by
    intro rest
    congr 1
    funext acc C
    cases acc with
    | none => rfl
    | some a =>
      simp only [optStep]
      generalize splitCall δ hsort K0 leafScale fuel cover zero cur maxScale ub C = x
      cases x <;> rfl
  rw [internalBatch]
  by_cases hA : cur > maxScale
  · rw [if_pos hA, if_pos hA]
  · rw [if_neg hA, if_neg hA]
    by_cases hB : Q.scale ≤ cur ∧ Q.scale ≠ leafScale
    · rw [if_pos hB, if_pos hB]
      cases Q.children with
      | nil => rfl
      | cons c0 rest =>
        dsimp only
        rw [← hlam rest]
        simp only [splitCall]
        congr 2
    · rw [if_neg hB, if_neg hB]

/-! ### `brute_nearest`: one level of the query tree per frame -/

theorem bruteNearest_total : ∀ (fuel : Nat) (Q : CNode K) (zero : List (DN K)) (ub : List K), Q.height ≤ fuel →
    ∃ r, bruteNearest δ K0 fuel Q zero ub = some r := by
  intro fuel
  induction fuel with
  | zero =>
    intro Q _ _ h
    have := height_pos Q
    omega
  | succ fuel ih =>
    intro Q zero ub h
    rw [bruteNearest_succ]
    cases hc : Q.children with
    | nil => exact ⟨_, rfl⟩
    | cons c0 rest =>
      dsimp only
      have hmem : ∀ C ∈ c0 :: rest, C.height ≤ fuel := fun C hC => by
        have := height_child (hc ▸ hC)
        omega
      obtain ⟨r0, h0⟩ := ih c0 zero ub (hmem c0 mem_cons_self)
      rw [h0]
      exact foldl_optStep_total _ rest r0 (fun C hC => ih C _ _ (hmem C (mem_cons_of_mem _ hC)))

theorem bruteNearest_succ_mono : ∀ (fuel : Nat) (Q : CNode K) (zero : List (DN K)) (ub : List K) (r : List (List Nat)),
    bruteNearest δ K0 fuel Q zero ub = some r → bruteNearest δ K0 (fuel + 1) Q zero ub = some r := by
  intro fuel
  induction fuel with
  | zero =>
    intro Q zero ub r h
    simp [bruteNearest] at h
  | succ fuel ih =>
    intro Q zero ub r h
    rw [bruteNearest_succ] at h ⊢
    cases hc : Q.children with
    | nil => rw [hc] at h; exact h
    | cons c0 rest =>
      rw [hc] at h
      dsimp only at h ⊢
      cases h0 : bruteNearest δ K0 fuel c0 zero ub with
      | none => rw [h0] at h; cases h
      | some r0 =>
        rw [h0] at h
        rw [ih c0 zero ub r0 h0]
        dsimp only at h ⊢
        exact foldl_optStep_mono _ _ rest r0 r (fun C _ r' hr' => ih C _ _ r' hr') h

/-! ### the reference nodes filed into the cover sets come from the cover sets -/

theorem copyElem_nodes (P : CNode K → Prop) (C : CNode K) (extra : Option K) (acc : List K × List (DN K)) (e : DN K)
    (hacc : ∀ x ∈ acc.2, P x.node) (he : P e.node) : ∀ x ∈ (copyElem δ K0 C extra acc e).2, P x.node := by
  rw [copyElem_eq]
  split
  · split
    · intro x hx
      simp only [mem_append, mem_singleton] at hx
      rcases hx with hx | rfl
      · exact hacc x hx
      · exact he
    · exact hacc
  · exact hacc

theorem copyFold_nodes (P : CNode K → Prop) (C : CNode K) (ex : DN K → Option K) :
    ∀ (els : List (DN K)) (acc : List K × List (DN K)), (∀ x ∈ acc.2, P x.node) → (∀ e ∈ els, P e.node) →
      ∀ x ∈ (els.foldl (fun a e => copyElem δ K0 C (ex e) a e) acc).2, P x.node
  | [], acc, ha, _ => by simpa using ha
  | e :: els, acc, ha, he => by
    simp only [foldl_cons]
    exact copyFold_nodes P C ex els _ (copyElem_nodes P C (ex e) acc e ha (he e mem_cons_self))
      (fun e' h' => he e' (mem_cons_of_mem _ h'))

theorem copyCover_nodes (P : CNode K → Prop) (C : CNode K) (cover : Cover K) (hc : ∀ s, ∀ e ∈ cover s, P e.node) :
    ∀ (cnt s : Nat) (acc : List K × Cover K), (∀ t, ∀ x ∈ acc.2 t, P x.node) →
      ∀ t, ∀ x ∈ (copyCover δ K0 C cover cnt s acc).2 t, P x.node
  | 0, s, acc, ha => by simpa [copyCover] using ha
  | cnt + 1, s, acc, ha => by
    simp only [copyCover]
    apply copyCover_nodes P C cover hc cnt (s + 1)
    intro t x hx
    dsimp only at hx
    split at hx
    · exact copyFold_nodes P C (fun e => some e.node.maxDist) (cover s) (acc.1, []) (by simp) (hc s) x hx
    · exact ha t x hx

/-! ### `descend` files only nodes with children, whose scale is bounded by `innerScale` -/

/-- `max_scale` and the scales of the reference nodes in the cover sets are bounded by `M` -/
structure DB (M : Nat) (st : DState K) : Prop where
  ms : st.maxScale ≤ M
  cov : ∀ s, ∀ e ∈ st.cover s, e.node.innerScale ≤ M

theorem DB.push {M : Nat} {st : DState K} (h : DB M st) {chi : CNode K} (hnl : (!chi.isLeaf) = true)
    (hi : chi.innerScale ≤ M) (d : K) (ub' : List K) (zero' : List (DN K)) :
    DB M { ub := ub', maxScale := max st.maxScale chi.scale, cover := st.cover.push chi.scale ⟨d, chi⟩, zero := zero' } := by
  have hne : chi.children ≠ [] := by
    intro h0
    simp [CNode.isLeaf, h0] at hnl
  refine ⟨Nat.max_le.2 ⟨h.ms, le_trans (scale_le_innerScale hne) hi⟩, ?_⟩
  intro s e he
  simp only [Cover.push] at he
  split at he
  · rcases mem_append.1 he with he | he
    · exact h.cov s e he
    · simp only [mem_singleton] at he
      subst he
      exact hi
  · exact h.cov s e he

theorem descendChild_DB {M : Nat} (Q : CNode K) (pd : K) {st : DState K} {chi : CNode K} (h : DB M st)
    (hc : chi.innerScale ≤ M) : DB M (descendChild δ K0 Q pd st chi) := by
  unfold descendChild
  dsimp only
  split
  · split
    · split
      · rename_i hnl
        exact h.push hnl hc _ _ _
      · split
        · exact ⟨h.ms, h.cov⟩
        · exact ⟨h.ms, h.cov⟩
    · exact h
  · exact h

theorem foldl_descendChild_DB {M : Nat} (Q : CNode K) (pd : K) : ∀ (rest : List (CNode K)) (st : DState K), DB M st →
    (∀ c ∈ rest, c.innerScale ≤ M) → DB M (rest.foldl (descendChild δ K0 Q pd) st)
  | [], st, h, _ => h
  | c :: rest, st, h, hc => by
    simp only [foldl_cons]
    exact foldl_descendChild_DB Q pd rest _ (descendChild_DB Q pd h (hc c mem_cons_self))
      (fun c' hc' => hc c' (mem_cons_of_mem _ hc'))

theorem descendParent_DB {M : Nat} (Q : CNode K) {st : DState K} {par : DN K} (h : DB M st)
    (hp : par.node.innerScale ≤ M) : DB M (descendParent δ K0 Q st par) := by
  unfold descendParent
  dsimp only
  split
  · cases hc : par.node.children with
    | nil => exact h
    | cons chi rest =>
      dsimp only
      have hch : ∀ c ∈ chi :: rest, c.innerScale ≤ M := fun c hcm => le_trans (innerScale_child (hc ▸ hcm)) hp
      apply foldl_descendChild_DB Q par.dist rest _ _ (fun c hc' => hch c (mem_cons_of_mem _ hc'))
      split
      · split
        · rename_i hnl
          exact h.push hnl (hch chi mem_cons_self) _ _ _
        · split
          · exact ⟨h.ms, h.cov⟩
          · exact h
      · exact h
  · exact h

theorem foldl_descendParent_DB {M : Nat} (Q : CNode K) : ∀ (pars : List (DN K)) (st : DState K), DB M st →
    (∀ e ∈ pars, e.node.innerScale ≤ M) → DB M (pars.foldl (descendParent δ K0 Q) st)
  | [], st, h, _ => h
  | e :: pars, st, h, hp => by
    simp only [foldl_cons]
    exact foldl_descendParent_DB Q pars _ (descendParent_DB Q h (hp e mem_cons_self))
      (fun e' he' => hp e' (mem_cons_of_mem _ he'))

/-! ### `internal_batch_nearest_neighbor` answers -/

/-- **the fuel suffices**: with `max_scale` and the cover sets bounded by `M`, a query node whose childless
    descendants carry `leafScale`, and `height Q + (M + 1 - current_scale)` units of fuel, the model answers -/
theorem internalBatch_total (leafScale M : Nat) {hsort : List (DN K) → List (DN K)}
    (hsub : ∀ l, ∀ e ∈ hsort l, e ∈ l) :
    ∀ (fuel : Nat) (Q : CNode K) (cover : Cover K) (zero : List (DN K)) (cur maxScale : Nat) (ub : List K),
      maxScale ≤ M → (∀ s, ∀ e ∈ cover s, e.node.innerScale ≤ M) → CNode.leavesAt leafScale Q = true →
      Q.height + (M + 1 - cur) ≤ fuel →
      ∃ r, internalBatch δ hsort K0 leafScale fuel Q cover zero cur maxScale ub = some r := by
  intro fuel
  induction fuel with
  | zero =>
    intro Q _ _ _ _ _ _ _ _ h
    have := height_pos Q
    omega
  | succ fuel ih =>
    intro Q cover zero cur ms ub hms hcov hleaf hfuel
    rw [internalBatch_succ]
    by_cases hA : cur > ms
    · rw [if_pos hA]
      exact bruteNearest_total _ _ _ _ (by omega)
    · rw [if_neg hA]
      by_cases hB : Q.scale ≤ cur ∧ Q.scale ≠ leafScale
      · rw [if_pos hB]
        cases hc : Q.children with
        | nil => exact absurd (leavesAt_leaf hleaf hc) hB.2
        | cons c0 rest =>
          dsimp only
          have hh : ∀ C ∈ c0 :: rest, C.height + (M + 1 - cur) ≤ fuel := fun C hC => by
            have := height_child (hc ▸ hC)
            omega
          have hl : ∀ C ∈ c0 :: rest, CNode.leavesAt leafScale C = true := fun C hC =>
            leavesAt_child hleaf (hc ▸ hC)
          obtain ⟨rs, hrs⟩ := foldl_optStep_total (splitCall δ hsort K0 leafScale fuel cover zero cur ms ub) rest []
            (fun C hC => ih C _ _ cur ms _ hms
              (copyCover_nodes (fun n => n.innerScale ≤ M) C cover hcov _ _ _ (fun t x hx => by
                simp [Cover.empty] at hx))
              (hl C (mem_cons_of_mem _ hC)) (hh C (mem_cons_of_mem _ hC)))
          rw [hrs]
          dsimp only
          obtain ⟨r0, h0⟩ := ih c0 cover zero cur ms ub hms hcov (hl c0 mem_cons_self) (hh c0 mem_cons_self)
          rw [h0]
          exact ⟨_, rfl⟩
      · rw [if_neg hB]
        have hDB : DB M ((hsort (cover cur)).foldl (descendParent δ K0 Q) ⟨ub, ms, cover, zero⟩) :=
          foldl_descendParent_DB Q _ _ ⟨hms, hcov⟩ (fun e he => hcov cur e (hsub _ e he))
        apply ih Q _ _ (cur + 1) _ _ hDB.ms ?_ hleaf (by omega)
        intro s e he
        simp only [Cover.clear] at he
        split at he
        · simp at he
        · exact hDB.cov s e he

/-- **the answer does not depend on the fuel** (one more unit) -/
theorem internalBatch_succ_mono (leafScale : Nat) {hsort : List (DN K) → List (DN K)} :
    ∀ (fuel : Nat) (Q : CNode K) (cover : Cover K) (zero : List (DN K)) (cur maxScale : Nat) (ub : List K)
      (r : List (List Nat)), internalBatch δ hsort K0 leafScale fuel Q cover zero cur maxScale ub = some r →
      internalBatch δ hsort K0 leafScale (fuel + 1) Q cover zero cur maxScale ub = some r := by
  intro fuel
  induction fuel with
  | zero =>
    intro Q cover zero cur ms ub r h
    simp [internalBatch] at h
  | succ fuel ih =>
    intro Q cover zero cur ms ub r h
    rw [internalBatch_succ] at h ⊢
    by_cases hA : cur > ms
    · rw [if_pos hA] at h ⊢
      exact bruteNearest_succ_mono _ _ _ _ _ h
    · rw [if_neg hA] at h ⊢
      by_cases hB : Q.scale ≤ cur ∧ Q.scale ≠ leafScale
      · rw [if_pos hB] at h ⊢
        cases hc : Q.children with
        | nil => rw [hc] at h; cases h
        | cons c0 rest =>
          rw [hc] at h
          dsimp only at h ⊢
          cases hrs : rest.foldl (optStep (splitCall δ hsort K0 leafScale fuel cover zero cur ms ub)) (some []) with
          | none => rw [hrs] at h; cases h
          | some rs =>
            rw [hrs] at h
            rw [foldl_optStep_mono _ (splitCall δ hsort K0 leafScale (fuel + 1) cover zero cur ms ub) rest [] rs
              (fun C _ r' hr' => ih C _ _ cur ms _ r' hr') hrs]
            dsimp only at h ⊢
            cases h0 : internalBatch δ hsort K0 leafScale fuel c0 cover zero cur ms ub with
            | none => rw [h0] at h; cases h
            | some r0 =>
              rw [h0] at h
              rw [ih c0 cover zero cur ms ub r0 h0]
              exact h
      · rw [if_neg hB] at h ⊢
        exact ih Q _ _ _ _ _ r h

theorem internalBatch_fuel_mono (leafScale : Nat) {hsort : List (DN K) → List (DN K)} {fuel fuel' : Nat}
    (hle : fuel ≤ fuel') {Q : CNode K} {cover : Cover K} {zero : List (DN K)} {cur maxScale : Nat} {ub : List K}
    {r : List (List Nat)} (h : internalBatch δ hsort K0 leafScale fuel Q cover zero cur maxScale ub = some r) :
    internalBatch δ hsort K0 leafScale fuel' Q cover zero cur maxScale ub = some r := by
  induction hle with
  | refl => exact h
  | step _ ih => exact internalBatch_succ_mono leafScale _ _ _ _ _ _ _ _ ih

/-! ### the batch query -/

/-- **`cover_query_fuel_suffices`** : on a tree whose childless nodes all carry `leafScale` the batch query answers
    with the fuel `top.queryFuel` the model passes, and with every larger fuel it returns that same answer — the model
    never reports "out of fuel", and never reaches the undefined `children[0]` of a childless query node. -/
theorem batchQuery_total (K0 leafScale : Nat) {hsort : List (DN K) → List (DN K)} (hsub : ∀ l, ∀ e ∈ hsort l, e ∈ l)
    {top : CNode K} (hleaf : CNode.leavesAt leafScale top = true) :
    ∃ res, batchQuery δ hsort K0 leafScale top = some res ∧
      ∀ fuel, top.queryFuel ≤ fuel → batchQueryFuel δ hsort K0 leafScale fuel top = some res := by
  have htot := internalBatch_total (δ := δ) (K0 := K0) leafScale top.innerScale hsub top.queryFuel top
    (Cover.empty.push 0 ⟨δ top.p top.p, top⟩) [] 0 0 (update K0 [] (δ top.p top.p)) (Nat.zero_le _)
    (fun s e he => by
      simp only [Cover.push, Cover.empty] at he
      split at he
      · simp only [nil_append, mem_singleton] at he
        subst he
        exact Nat.le_refl _
      · simp at he)
    hleaf (by unfold CNode.queryFuel; omega)
  obtain ⟨res, hres⟩ := htot
  refine ⟨res, hres, fun fuel hf => ?_⟩
  exact internalBatch_fuel_mono leafScale hf hres

end TapkeeVerif.CoverTree
