import TapkeeVerif.Proofs.CoverBuildBasic
/-!
C02, cover tree construction, part 2: the contract `InsOk` of one `batch_insert` call and the invariant `LoopInv` of
its loop `while (size(point_set) != 0)` (one new child per iteration), given the contract of the recursive calls.

A tree returned by `batch_insert` is described *after* the relabelling `set_leaf_scale` with any sufficiently large
leaf scale `L` (`InsOk.wf`: `wfNode δ (setLeafScale L node)` for every `L ≥ leaf_scale`), and is a fixed point of the
relabelling with 100 (`InsOk.fix`) — so both exits of `batch_create` (`leaf_scale > 100`: relabel; `= 100`: as is)
give a well-formed tree.
-/
set_option linter.unusedSectionVars false
namespace TapkeeVerif.CoverBuild
open List TapkeeVerif.CoverTree

variable {K : Type} [LinearOrder K] [AddCommGroup K] [IsOrderedAddMonoid K]
variable {δ : Nat → Nat → K} {distOfScale : Int → K}

/-- what `batch_insert(dcb, p, maxScale, topScale, ps, cs, stack)` with `leaf_scale = ls` guarantees about its result
    `r` when its arrays are chained by `p :: chain` -/
structure InsOk (δ : Nat → Nat → K) (distOfScale : Int → K) (chain : List Nat) (p : Nat) (maxScale topScale : Int)
    (ps cs : List (DS K)) (ls : Nat) (r : BRes K) : Prop where
  ps_ch : ∀ e ∈ r.pointSet, Chained δ (p :: chain) e
  cons : ∃ new, r.consumed = cs ++ new ∧ (∀ e ∈ new, Chained δ (p :: chain) e) ∧
      r.node.leaves.Perm (p :: pts new) ∧ (pts new ++ pts r.pointSet).Perm (pts ps)
  stack : ∀ a ∈ r.stack, a = []
  left : ∀ e ∈ r.pointSet, distOfScale maxScale < δ p e.p
  ls_mono : ls ≤ r.leafScale
  wf : ∀ L, r.leafScale ≤ L → wfNode δ (setLeafScale L r.node) = true
  fix : setLeafScale 100 r.node = r.node
  np : r.node.p = p
  sc : r.node.children = [] ∨ r.node.maxDist = 0 ∨ topScale - maxScale ≤ (r.node.scale : Int)

/-- the contract of the recursive calls made by the loop of the frame with point `p` -/
def InsSpec (δ : Nat → Nat → K) (distOfScale : Int → K) (chain : List Nat) (p : Nat) (nextScale topScale : Int)
    (ins : Nat → List (DS K) → List (DS K) → List (List (DS K)) → Nat → Option (BRes K)) : Prop :=
  ∀ q nps ncs stack ls r, (∀ e ∈ nps, Chained δ (q :: p :: chain) e) → (∀ e ∈ ncs, Chained δ (q :: p :: chain) e) →
    (∀ a ∈ stack, a = []) → ins q nps ncs stack ls = some r →
    InsOk δ distOfScale (p :: chain) q nextScale topScale nps ncs ls r

/-- what a child of the frame's node looks like -/
def ChildOk (δ : Nat → Nat → K) (nextScale topScale : Int) (ls : Nat) (c : CNode K) : Prop :=
  (∀ L, ls ≤ L → wfNode δ (setLeafScale L c) = true) ∧ setLeafScale 100 c = c ∧
    (c.children = [] ∨ c.maxDist = 0 ∨ topScale - nextScale ≤ (c.scale : Int))

theorem ChildOk.mono {nextScale topScale : Int} {ls ls' : Nat} {c : CNode K} (h : ChildOk δ nextScale topScale ls c)
    (hl : ls ≤ ls') : ChildOk δ nextScale topScale ls' c :=
  ⟨fun L hL => h.1 L (le_trans hl hL), h.2⟩

/-- invariant of the loop of the frame `batch_insert(p, maxScale, ..)` entered with consumed set `cs0`, leaf scale `ls0`
    and the samples `P0` in its point set -/
structure LoopInv (δ : Nat → Nat → K) (distOfScale : Int → K) (chain : List Nat) (p : Nat)
    (maxScale nextScale topScale : Int) (cs0 : List (DS K)) (P0 : List Nat) (ls0 : Nat) (st : LoopSt K) : Prop where
  ps_ch : ∀ e ∈ st.pointSet, Chained δ (p :: chain) e
  far_ch : ∀ e ∈ st.far, Chained δ (p :: chain) e
  far_left : ∀ e ∈ st.far, distOfScale maxScale < δ p e.p
  new_nil : st.newPS = [] ∧ st.newCS = []
  stack : ∀ a ∈ st.stack, a = []
  cons : ∃ new, st.consumed = cs0 ++ new ∧ (∀ e ∈ new, Chained δ (p :: chain) e) ∧
      (st.children.flatMap CNode.leaves).Perm (p :: pts new) ∧
      (pts new ++ pts st.pointSet ++ pts st.far).Perm P0
  ls_mono : ls0 ≤ st.leafScale
  ch : ∃ c0 rest, st.children = c0 :: rest ∧ c0.p = p ∧ ∀ c ∈ rest, c.parentDist = δ p c.p
  ch_ok : ∀ c ∈ st.children, ChildOk δ nextScale topScale st.leafScale c
  pos : (∃ e ∈ st.consumed, 0 < δ p e.p) ∨ (st.pointSet ≠ [] ∧ ∀ e ∈ st.pointSet, 0 < δ p e.p)

theorem wfNode_setParentDist (d : K) (n : CNode K) : wfNode δ (setParentDist d n) = wfNode δ n := by
  cases n with
  | mk p m pd s cs => simp [setParentDist, wfNode]

/-- counting form of a permutation of sample lists, for `omega` -/
theorem count_cons_split (a x : Nat) (l : List Nat) : count a (x :: l) = count a [x] + count a l := by
  rw [← singleton_append, count_append]

theorem loopStep_inv {chain : List Nat} {p : Nat} {maxScale nextScale topScale : Int} {cs0 : List (DS K)}
    {P0 : List Nat} {ls0 : Nat} {ins : Nat → List (DS K) → List (DS K) → List (List (DS K)) → Nat → Option (BRes K)}
    (hins : InsSpec δ distOfScale chain p nextScale topScale ins) {st st' : LoopSt K} {init : List (DS K)} {e : DS K}
    (h : LoopInv δ distOfScale chain p maxScale nextScale topScale cs0 P0 ls0 st)
    (hl : st.pointSet = init ++ [e]) (hs : loopStep δ (distOfScale maxScale) ins st e = some st') :
    LoopInv δ distOfScale chain p maxScale nextScale topScale cs0 P0 ls0 st' := by
  have hemem : e ∈ st.pointSet := by rw [hl]; simp
  have hech := h.ps_ch e hemem
  have hed := hech.head
  have hinit : ∀ x ∈ init, Chained δ (p :: chain) x := fun x hx => h.ps_ch x (by rw [hl]; simp [hx])
  obtain ⟨hnp, hnc⟩ := h.new_nil
  unfold loopStep at hs
  rw [hed] at hs
  simp only [hl, dropLast_concat, hnp, hnc, nil_append] at hs
  obtain ⟨k1, m1ch, p1⟩ := distSplit_spec (δ := δ) (distOfScale maxScale) e.p init hinit
  obtain ⟨k2, m2ch, p2⟩ := distSplit_spec (δ := δ) (distOfScale maxScale) e.p st.far h.far_ch
  generalize distSplit δ (distOfScale maxScale) e.p init = s1 at hs k1 m1ch p1
  generalize distSplit δ (distOfScale maxScale) e.p st.far = s2 at hs k2 m2ch p2
  cases hr : ins e.p (s1.1 ++ s2.1) [] st.stack st.leafScale with
  | none => simp [hr] at hs
  | some r =>
    simp only [hr] at hs
    have hok := hins e.p (s1.1 ++ s2.1) [] st.stack st.leafScale r
      (fun x hx => by
        rcases mem_append.1 hx with hx | hx
        · exact m1ch x hx
        · exact m2ch x hx)
      (by simp) h.stack hr
    obtain ⟨newq, hrc, hnewq, hleaves, hperm⟩ := hok.cons
    cases hu : unsplit (distOfScale maxScale) r.pointSet with
    | none => simp [hu] at hs
    | some ab =>
      obtain ⟨toPS, toFar⟩ := ab
      cases hd : decrAll r.consumed with
      | none => simp [hu, hd] at hs
      | some cs =>
        simp only [hu, hd, Option.some.injEq] at hs
        obtain ⟨u1, u2, u3⟩ := unsplit_spec r.pointSet toPS toFar hok.ps_ch hu
        rw [hrc, nil_append] at hd
        obtain ⟨d1, d2⟩ := decrAll_spec newq cs hnewq hd
        obtain ⟨new, hcons, hnewch, hlv, hconsv⟩ := h.cons
        obtain ⟨c0, rest, hch, hc0, hrest⟩ := h.ch
        subst hs
        refine ⟨?_, ?_, ?_, ⟨rfl, rfl⟩, hok.stack, ⟨new ++ [e] ++ cs, ?_, ?_, ?_, ?_⟩, le_trans h.ls_mono hok.ls_mono,
          ⟨c0, rest ++ [setParentDist (δ p e.p) r.node], ?_, hc0, ?_⟩, ?_, ?_⟩
        · intro x hx
          rcases mem_append.1 hx with hx | hx
          · exact hinit x (k1 x hx)
          · exact u1 x hx
        · intro x hx
          rcases mem_append.1 hx with hx | hx
          · exact h.far_ch x (k2 x hx)
          · exact (u2 x hx).1
        · intro x hx
          rcases mem_append.1 hx with hx | hx
          · exact h.far_left x (k2 x hx)
          · exact (u2 x hx).2
        · simp [hcons]
        · intro x hx
          simp only [mem_append, mem_singleton] at hx
          rcases hx with (hx | rfl) | hx
          · exact hnewch x hx
          · exact hech
          · exact d1 x hx
        · -- leaves of the children
          simp only [flatMap_append, flatMap_cons, flatMap_nil, append_nil, setParentDist_leaves]
          rw [perm_iff_count]
          intro a
          have e1 := hlv.count_eq a
          have e2 := hleaves.count_eq a
          rw [count_cons_split] at e1 e2
          rw [count_cons_split]
          simp only [count_append, pts_append, pts_cons, pts_nil, d2] at e1 e2 ⊢
          omega
        · -- conservation of the samples
          rw [perm_iff_count]
          intro a
          have e1 := hconsv.count_eq a
          have e2 := hperm.count_eq a
          have e3 := p1.count_eq a
          have e4 := p2.count_eq a
          have e5 := u3.count_eq a
          rw [hl] at e1
          simp only [count_append, pts_append, pts_cons, pts_nil, d2] at e1 e2 e3 e4 e5 ⊢
          omega
        · simp [hch]
        · intro c hc
          rcases mem_append.1 hc with hc | hc
          · exact hrest c hc
          · simp only [mem_singleton] at hc
            subst hc
            simp [hok.np]
        · intro c hc
          rw [hch] at hc
          have hc' : c ∈ st.children ∨ c = setParentDist (δ p e.p) r.node := by
            rw [hch]
            simpa [or_assoc] using hc
          rcases hc' with hc' | rfl
          · exact (h.ch_ok c hc').mono hok.ls_mono
          · refine ⟨fun L hL => ?_, ?_, ?_⟩
            · rw [setLeafScale_setParentDist, wfNode_setParentDist]
              exact hok.wf L hL
            · rw [setLeafScale_setParentDist, hok.fix]
            · simpa using hok.sc
        · left
          rcases h.pos with ⟨x, hx, hpos⟩ | ⟨_, hall⟩
          · exact ⟨x, by simp [hx], hpos⟩
          · exact ⟨e, by simp, hall e hemem⟩

theorem childLoop_inv {chain : List Nat} {p : Nat} {maxScale nextScale topScale : Int} {cs0 : List (DS K)}
    {P0 : List Nat} {ls0 : Nat} {ins : Nat → List (DS K) → List (DS K) → List (List (DS K)) → Nat → Option (BRes K)}
    (hins : InsSpec δ distOfScale chain p nextScale topScale ins) :
    ∀ (cnt : Nat) (st st' : LoopSt K),
      LoopInv δ distOfScale chain p maxScale nextScale topScale cs0 P0 ls0 st →
      childLoop δ (distOfScale maxScale) ins cnt st = some st' →
      LoopInv δ distOfScale chain p maxScale nextScale topScale cs0 P0 ls0 st' ∧ st'.pointSet = [] := by
  intro cnt
  induction cnt with
  | zero =>
    intro st st' h hs
    unfold childLoop at hs
    cases hg : st.pointSet.getLast? with
    | none =>
      simp only [hg, Option.some.injEq] at hs
      subst hs
      exact ⟨h, getLast?_eq_none_iff.1 hg⟩
    | some e => simp [hg] at hs
  | succ cnt ih =>
    intro st st' h hs
    unfold childLoop at hs
    cases hg : st.pointSet.getLast? with
    | none =>
      simp only [hg, Option.some.injEq] at hs
      subst hs
      exact ⟨h, getLast?_eq_none_iff.1 hg⟩
    | some e =>
      simp only [hg] at hs
      cases hstep : loopStep δ (distOfScale maxScale) ins st e with
      | none => simp [hstep] at hs
      | some st1 =>
        simp only [hstep] at hs
        have hl : st.pointSet = st.pointSet.dropLast ++ [e] :=
          (dropLast_append_getLast? e (by simp [hg])).symm
        exact ih st1 st' (loopStep_inv hins h hl hstep) hs

end TapkeeVerif.CoverBuild
