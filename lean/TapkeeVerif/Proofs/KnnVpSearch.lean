import Mathlib.Algebra.Order.Group.Defs
import Mathlib.Algebra.Order.Monoid.Unbundled.Basic
import Mathlib.Data.List.Nodup
import TapkeeVerif.Proofs.KnnSpec
import TapkeeVerif.Model.VpTree
/-!
C02, VP-tree search: the invariant of `search` and pruning soundness from the triangle inequality.

`SInv s P` — state `s = (tau, heap)` is correct with respect to the set `P` of samples already
*accounted for* (visited, or pruned): the heap holds at most `k` distinct samples of `P` with their true
distances, `tau` is `none` while the heap is not full and the largest heap distance afterwards, and every
sample of `P` outside the heap is at distance ≥ `tau`.
-/
namespace TapkeeVerif.VpTree
open List TapkeeVerif.Knn

variable {α K : Type} [DecidableEq α] [LinearOrder K] [AddCommGroup K] [IsOrderedAddMonoid K]

/-- the callback is a (pseudo-)metric: repeated samples (`δ x y = 0`, `x ≠ y`) are allowed -/
structure IsMetric (δ : α → α → K) : Prop where
  self : ∀ x, δ x x = 0
  symm : ∀ x y, δ x y = δ y x
  tri : ∀ x y z, δ x z ≤ δ x y + δ y z

theorem IsMetric.nonneg {δ : α → α → K} (h : IsMetric δ) (x y : α) : 0 ≤ δ x y := by
  by_contra hneg
  have hlt : δ x y < 0 := lt_of_not_ge hneg
  have h1 := h.tri x y x
  rw [h.self, h.symm y x] at h1
  have h2 : δ x y + δ x y < 0 + 0 := add_lt_add hlt hlt
  rw [add_zero] at h2
  exact absurd h1 (not_le_of_gt h2)

/-- the comparator handed to `nth_element` orders by the callback's distance from the pivot -/
def CbOk (cb : Cb α K) : Prop := ∀ v a b, cb.lt v a b = true ↔ cb.dist v a < cb.dist v b

/-- `pop` removes one item of maximal distance (`std::priority_queue::pop`, any tie-break) -/
def PopSpec (pop : List (α × K) → List (α × K)) : Prop :=
  ∀ h, h ≠ [] → ∃ x ∈ h, (∀ y ∈ h, y.2 ≤ x.2) ∧ (pop h).Perm (h.erase x)

/-! ### `maxDist`, `popMaxFirst` -/

theorem maxDist_spec : ∀ (h : List (α × K)), h ≠ [] →
    ∃ m, maxDist h = some m ∧ (∀ y ∈ h, y.2 ≤ m) ∧ ∃ y ∈ h, y.2 = m
  | [], hne => absurd rfl hne
  | x :: t, _ => by
    by_cases ht : t = []
    · subst ht
      exact ⟨x.2, by simp [maxDist], by simp, ⟨x, by simp, rfl⟩⟩
    · obtain ⟨m, hm, hb, y, hy, hym⟩ := maxDist_spec t ht
      by_cases hlt : m < x.2
      · refine ⟨x.2, by simp [maxDist, hm, hlt], ?_, ⟨x, by simp, rfl⟩⟩
        intro z hz
        rcases mem_cons.1 hz with rfl | hz
        · exact le_refl _
        · exact le_trans (hb z hz) (le_of_lt hlt)
      · refine ⟨m, by simp [maxDist, hm, hlt], ?_, ⟨y, mem_cons_of_mem _ hy, hym⟩⟩
        intro z hz
        rcases mem_cons.1 hz with rfl | hz
        · exact le_of_not_gt hlt
        · exact hb z hz

theorem maxDist_nil_iff (h : List (α × K)) : maxDist h = none ↔ h = [] := by
  constructor
  · intro hn
    by_contra hne
    obtain ⟨m, hm, _⟩ := maxDist_spec h hne
    rw [hn] at hm
    cases hm
  · rintro rfl
    rfl

theorem popMaxFirst_spec : PopSpec (popMaxFirst : List (α × K) → List (α × K))
  | [], hne => absurd rfl hne
  | x :: t, _ => by
    by_cases ht : t = []
    · subst ht
      exact ⟨x, by simp, by simp, by simp [popMaxFirst, maxDist]⟩
    · obtain ⟨m, hm, hb, y, hy, hym⟩ := maxDist_spec t ht
      by_cases hlt : m < x.2
      · refine ⟨x, by simp, ?_, by simp [popMaxFirst, hm, hlt]⟩
        intro z hz
        rcases mem_cons.1 hz with rfl | hz
        · exact le_refl _
        · exact le_trans (hb z hz) (le_of_lt hlt)
      · obtain ⟨w, hw, hwmax, hwperm⟩ := popMaxFirst_spec t ht
        have hwm : w.2 = m := le_antisymm (hb w hw) (hym ▸ hwmax y hy)
        refine ⟨w, mem_cons_of_mem _ hw, ?_, ?_⟩
        · intro z hz
          rcases mem_cons.1 hz with rfl | hz
          · rw [hwm]; exact le_of_not_gt hlt
          · exact hwmax z hz
        · have hpm : popMaxFirst (x :: t) = x :: popMaxFirst t := by simp [popMaxFirst, hm, hlt]
          rw [hpm]
          by_cases hxw : x = w
          · subst hxw
            rw [erase_cons_head]
            -- erasing the head `x`, which also occurs in `t`
            exact (hwperm.cons x).trans (perm_cons_erase hw).symm
          · rw [erase_cons_tail (by simpa using hxw)]
            exact hwperm.cons x

/-! ### the search invariant -/

variable (δ : α → α → K) (q : α) (k : Nat)

structure SInv (s : SState α K) (P : α → Prop) : Prop where
  len_le : s.heap.length ≤ k
  tau_none : s.heap.length < k → s.tau = none
  tau_some : s.heap.length = k → ∃ m, s.tau = some m ∧ (∀ y ∈ s.heap, y.2 ≤ m) ∧ ∃ y ∈ s.heap, y.2 = m
  heap_ok : ∀ y ∈ s.heap, P y.1 ∧ y.2 = δ y.1 q
  nodup : (s.heap.map (·.1)).Nodup
  out : ∀ x, P x → x ∉ s.heap.map (·.1) → ∃ m, s.tau = some m ∧ m ≤ δ x q

variable {δ q k}

theorem SInv.congr {s : SState α K} {P P' : α → Prop} (h : SInv δ q k s P) (hP : ∀ x, P x ↔ P' x) :
    SInv δ q k s P' :=
  ⟨h.len_le, h.tau_none, h.tau_some, fun y hy => ⟨(hP _).1 (h.heap_ok y hy).1, (h.heap_ok y hy).2⟩, h.nodup,
    fun x hx hxn => h.out x ((hP x).2 hx) hxn⟩

/-- samples known to be at distance ≥ tau can be added to the accounted set (pruning) -/
theorem SInv.extend {s : SState α K} {P : α → Prop} (h : SInv δ q k s P) (X : α → Prop)
    (hX : ∀ x, X x → ∃ m, s.tau = some m ∧ m ≤ δ x q) : SInv δ q k s (fun x => P x ∨ X x) :=
  ⟨h.len_le, h.tau_none, h.tau_some, fun y hy => ⟨Or.inl (h.heap_ok y hy).1, (h.heap_ok y hy).2⟩, h.nodup,
    fun x hx hxn => hx.elim (fun hp => h.out x hp hxn) (fun hx' => hX x hx')⟩

theorem mem_keys_of_mem {h : List (α × K)} {y : α × K} (hy : y ∈ h) : y.1 ∈ h.map (·.1) :=
  mem_map.2 ⟨y, hy, rfl⟩

theorem ltTau_false {d : K} {t : Option K} (h : ltTau d t = false) : ∃ m, t = some m ∧ m ≤ d := by
  cases t with
  | none => simp [ltTau] at h
  | some m => exact ⟨m, rfl, by simpa [ltTau] using h⟩

theorem ltTau_true_some {d m : K} (h : ltTau d (some m) = true) : d < m := by
  simpa [ltTau] using h

/-- the admission block keeps the invariant and accounts for the visited vantage point -/
theorem admission_inv {pop : List (α × K) → List (α × K)} (hk : 1 ≤ k) (hpop : PopSpec pop)
    {s : SState α K} {P : α → Prop} {vp : α} (hs : SInv δ q k s P) (hvp : ¬ P vp) :
    SInv δ q k (admission pop k vp (δ vp q) s) (fun x => P x ∨ x = vp) := by
  have hvpk : vp ∉ s.heap.map (·.1) := by
    intro hmem
    obtain ⟨y, hy, hy1⟩ := mem_map.1 hmem
    exact hvp (hy1 ▸ (hs.heap_ok y hy).1)
  unfold admission
  by_cases hlt : ltTau (δ vp q) s.tau = true
  · rw [if_pos hlt]
    by_cases hfull : s.heap.length = k
    · -- full heap: pop a maximal item, push the vantage point
      simp only [hfull, if_true]
      have hne : s.heap ≠ [] := by
        intro h0
        rw [h0] at hfull
        simp at hfull
        omega
      obtain ⟨xm, hxm, hxmax, hperm⟩ := hpop s.heap hne
      obtain ⟨mo, hmo, hbound, ya, hya, hyam⟩ := hs.tau_some hfull
      have hxmo : xm.2 = mo := le_antisymm (hbound xm hxm) (hyam ▸ hxmax ya hya)
      have hdlt : δ vp q < mo := by
        rw [hmo] at hlt
        exact ltTau_true_some hlt
      have hnd_heap : s.heap.Nodup := Nodup.of_map _ hs.nodup
      have hmem1 : ∀ y, y ∈ pop s.heap ↔ (y ∈ s.heap ∧ y ≠ xm) := by
        intro y
        rw [hperm.mem_iff, hnd_heap.mem_erase_iff]
        exact and_comm
      have hlen1 : (pop s.heap).length = k - 1 := by
        rw [hperm.length_eq, length_erase_of_mem hxm, hfull]
      have hlen2 : ((vp, δ vp q) :: pop s.heap).length = k := by
        simp only [length_cons, hlen1]
        omega
      simp only [hlen2, if_true]
      obtain ⟨mn, hmn, hnb, yn, hyn, hynm⟩ := maxDist_spec ((vp, δ vp q) :: pop s.heap) (by simp)
      have hmn_le : mn ≤ mo := by
        rw [← hynm]
        rcases mem_cons.1 hyn with rfl | h1
        · exact le_of_lt hdlt
        · exact hbound yn ((hmem1 yn).1 h1).1
      refine ⟨by dsimp only; omega, ?_, ?_, ?_, ?_, ?_⟩
      · intro hcon
        dsimp only at hcon
        omega
      · intro _
        exact ⟨mn, hmn, hnb, yn, hyn, hynm⟩
      · intro y hy
        rcases mem_cons.1 hy with rfl | h1
        · exact ⟨Or.inr rfl, rfl⟩
        · have := hs.heap_ok y ((hmem1 y).1 h1).1
          exact ⟨Or.inl this.1, this.2⟩
      · simp only [map_cons, nodup_cons]
        constructor
        · intro hmem
          obtain ⟨y, hy, hy1⟩ := mem_map.1 hmem
          exact hvpk (mem_map.2 ⟨y, ((hmem1 y).1 hy).1, hy1⟩)
        · exact (hperm.map (·.1)).nodup_iff.2 (hs.nodup.sublist ((erase_sublist).map _))
      · intro x hx hxn
        simp only [map_cons, mem_cons, not_or] at hxn
        rcases hx with hx | hx
        · by_cases hxk : x ∈ s.heap.map (·.1)
          · -- `x` is the popped sample
            obtain ⟨y, hy, hy1⟩ := mem_map.1 hxk
            have hyx : y = xm := by
              by_contra hne'
              exact hxn.2 (mem_map.2 ⟨y, (hmem1 y).2 ⟨hy, hne'⟩, hy1⟩)
            refine ⟨mn, hmn, ?_⟩
            rw [← hy1, ← (hs.heap_ok y hy).2, hyx, hxmo]
            exact hmn_le
          · obtain ⟨m', hm', hle⟩ := hs.out x hx hxk
            rw [hmo] at hm'
            cases hm'
            exact ⟨mn, hmn, le_trans hmn_le hle⟩
        · exact absurd hx hxn.1
    · -- heap not yet full: push
      have hlt' : s.heap.length < k := lt_of_le_of_ne hs.len_le hfull
      simp only [hfull, if_false]
      have htn := hs.tau_none hlt'
      refine ⟨by dsimp only; simp only [length_cons]; omega, ?_, ?_, ?_, ?_, ?_⟩
      · intro hcon
        dsimp only at hcon ⊢
        have : ¬ ((vp, δ vp q) :: s.heap).length = k := by omega
        simp only [this, if_false]
        exact htn
      · intro hcon
        dsimp only at hcon ⊢
        simp only [hcon, if_true]
        exact maxDist_spec _ (by simp)
      · intro y hy
        rcases mem_cons.1 hy with rfl | h1
        · exact ⟨Or.inr rfl, rfl⟩
        · have := hs.heap_ok y h1
          exact ⟨Or.inl this.1, this.2⟩
      · simp only [map_cons, nodup_cons]
        exact ⟨hvpk, hs.nodup⟩
      · intro x hx hxn
        simp only [map_cons, mem_cons, not_or] at hxn
        rcases hx with hx | hx
        · obtain ⟨m', hm', _⟩ := hs.out x hx hxn.2
          rw [htn] at hm'
          cases hm'
        · exact absurd hx hxn.1
  · -- not admitted: the vantage point is at distance ≥ tau
    rw [if_neg hlt]
    have hf : ltTau (δ vp q) s.tau = false := by simpa using hlt
    obtain ⟨m, hm, hle⟩ := ltTau_false hf
    exact hs.extend (fun x => x = vp) (fun x hx => hx ▸ ⟨m, hm, hle⟩)

/-! ### pruning soundness (triangle inequality) and the tree induction -/

/-- tree invariant established by `buildFromPoints`: inside / outside the vantage point's ball -/
def TInv (δ : α → α → K) : Tree α K → Prop
  | .nil => True
  | .node vp thr l r =>
    (∀ x ∈ l.points, δ vp x ≤ thr) ∧ (∀ x ∈ r.points, thr ≤ δ vp x) ∧ TInv δ l ∧ TInv δ r

theorem leftTest_false {d thr : K} {t : Option K} (h : leftTest d thr t = false) :
    ∃ m, t = some m ∧ thr + m < d := by
  cases t with
  | none => simp [leftTest] at h
  | some m => exact ⟨m, rfl, by simpa [leftTest] using h⟩

theorem rightTest_false {d thr : K} {t : Option K} (h : rightTest d thr t = false) :
    ∃ m, t = some m ∧ d + m < thr := by
  cases t with
  | none => simp [rightTest] at h
  | some m => exact ⟨m, rfl, by simpa [rightTest] using h⟩

/-- every point of the inner subtree is farther than `m` from the query when `d - m > thr` (i.e. `thr + m < d`) -/
theorem prune_left (hm : IsMetric δ) {vp x : α} {thr m : K} (hx : δ vp x ≤ thr) (h1 : thr + m < δ vp q) :
    m ≤ δ x q := by
  have h2 : δ vp x + m ≤ thr + m := add_le_add_left hx m
  have h3 : δ vp x + m < δ vp x + δ x q := lt_of_lt_of_le (lt_of_le_of_lt h2 h1) (hm.tri vp x q)
  exact le_of_lt (lt_of_add_lt_add_left h3)

/-- every point of the outer subtree is farther than `m` from the query when `d + m < thr` -/
theorem prune_right (hm : IsMetric δ) {vp x : α} {thr m : K} (hx : thr ≤ δ vp x) (h : δ vp q + m < thr) :
    m ≤ δ x q := by
  have h1 : δ vp x ≤ δ vp q + δ x q := by
    have := hm.tri vp q x
    rwa [hm.symm q x] at this
  have h2 : δ vp q + m < δ vp q + δ x q := lt_of_lt_of_le (lt_of_lt_of_le h hx) h1
  exact le_of_lt (lt_of_add_lt_add_left h2)

theorem isNil_iff (t : Tree α K) : t.isNil = true ↔ t = .nil := by
  cases t <;> simp [Tree.isNil]

/-- **the search invariant is preserved by `search`**: after searching subtree `t`, all its points are
    accounted for — by induction on the tree, pruning justified by the triangle inequality -/
theorem search_inv {cb : Cb α K} {pop : List (α × K) → List (α × K)} (hm : IsMetric cb.dist) (hk : 1 ≤ k)
    (hpop : PopSpec pop) :
    ∀ (t : Tree α K) (s : SState α K) (P : α → Prop), TInv cb.dist t → t.points.Nodup →
      (∀ x ∈ t.points, ¬ P x) → SInv cb.dist q k s P →
      SInv cb.dist q k (search cb pop q k t s) (fun x => P x ∨ x ∈ t.points)
  | .nil, s, P, _, _, _, hs => by
    simp only [search]
    exact hs.congr (fun x => by simp [Tree.points])
  | .node vp thr l r, s, P, hT, hnd, hdisj, hs => by
    obtain ⟨hl, hr, hTl, hTr⟩ := hT
    simp only [Tree.points, nodup_cons, mem_append, not_or, nodup_append] at hnd
    obtain ⟨⟨hvl, hvr⟩, hndl, hndr, hlr⟩ := hnd
    have hvp : ¬ P vp := hdisj vp (by simp [Tree.points])
    have hs1 := admission_inv (δ := cb.dist) (q := q) hk hpop hs hvp
    -- one conditional descent into the inner subtree
    have stepL : ∀ (s' : SState α K) (P' : α → Prop), SInv cb.dist q k s' P' → (∀ x ∈ l.points, ¬ P' x) →
        SInv cb.dist q k (if leftTest (cb.dist vp q) thr s'.tau = true then search cb pop q k l s' else s')
          (fun x => P' x ∨ x ∈ l.points) := by
      intro s' P' hs' hd'
      by_cases ht : leftTest (cb.dist vp q) thr s'.tau = true
      · rw [if_pos ht]
        exact search_inv hm hk hpop l s' P' hTl hndl hd' hs'
      · rw [if_neg ht]
        have hf : leftTest (cb.dist vp q) thr s'.tau = false := by simpa using ht
        obtain ⟨m, hm', hlt⟩ := leftTest_false hf
        exact hs'.extend _ (fun x hx => ⟨m, hm', prune_left hm (hl x hx) hlt⟩)
    have stepR : ∀ (s' : SState α K) (P' : α → Prop), SInv cb.dist q k s' P' → (∀ x ∈ r.points, ¬ P' x) →
        SInv cb.dist q k (if rightTest (cb.dist vp q) thr s'.tau = true then search cb pop q k r s' else s')
          (fun x => P' x ∨ x ∈ r.points) := by
      intro s' P' hs' hd'
      by_cases ht : rightTest (cb.dist vp q) thr s'.tau = true
      · rw [if_pos ht]
        exact search_inv hm hk hpop r s' P' hTr hndr hd' hs'
      · rw [if_neg ht]
        have hf : rightTest (cb.dist vp q) thr s'.tau = false := by simpa using ht
        obtain ⟨m, hm', hlt⟩ := rightTest_false hf
        exact hs'.extend _ (fun x hx => ⟨m, hm', prune_right hm (hr x hx) hlt⟩)
    have hdl : ∀ x ∈ l.points, ¬ (P x ∨ x = vp) := by
      intro x hx hc
      rcases hc with hc | hc
      · exact hdisj x (by simp [Tree.points, hx]) hc
      · exact hvl (hc ▸ hx)
    have hdr : ∀ x ∈ r.points, ¬ (P x ∨ x = vp) := by
      intro x hx hc
      rcases hc with hc | hc
      · exact hdisj x (by simp [Tree.points, hx]) hc
      · exact hvr (hc ▸ hx)
    simp only [search]
    by_cases hnil : (l.isNil && r.isNil) = true
    · rw [if_pos hnil]
      simp only [Bool.and_eq_true, isNil_iff] at hnil
      obtain ⟨rfl, rfl⟩ := hnil
      exact hs1.congr (fun x => by simp [Tree.points])
    · rw [if_neg hnil]
      by_cases hdt : cb.dist vp q < thr
      · rw [if_pos hdt]
        have h2 := stepL _ _ hs1 hdl
        have h3 := stepR _ _ h2 (by
          intro x hx hc
          rcases hc with hc | hc
          · exact hdr x hx hc
          · exact hlr x hc x hx rfl)
        exact h3.congr (fun x => by simp only [Tree.points, mem_cons, mem_append]; tauto)
      · rw [if_neg hdt]
        have h2 := stepR _ _ hs1 hdr
        have h3 := stepL _ _ h2 (by
          intro x hx hc
          rcases hc with hc | hc
          · exact hdl x hx hc
          · exact hlr x hx x hc rfl)
        exact h3.congr (fun x => by simp only [Tree.points, mem_cons, mem_append]; tauto)

/-- the initial state satisfies the invariant for the empty set -/
theorem sinv_init (hk : 1 ≤ k) : SInv δ q k (⟨none, []⟩ : SState α K) (fun _ => False) :=
  ⟨by simp, fun _ => rfl, fun h => by simp at h; omega, by simp, by simp, fun _ hx _ => hx.elim⟩

/-- **the heap after a complete search holds `k` nearest samples of the query** -/
theorem search_nearest {cb : Cb α K} {pop : List (α × K) → List (α × K)} (hm : IsMetric cb.dist) (hk : 1 ≤ k)
    (hpop : PopSpec pop) {t : Tree α K} (hT : TInv cb.dist t) (hnd : t.points.Nodup)
    (hkN : k ≤ t.points.length) :
    IsKNearest cb.dist q t.points k ((search cb pop q k t ⟨none, []⟩).heap.map (·.1)) := by
  have h := search_inv (q := q) hm hk hpop t ⟨none, []⟩ (fun _ => False) hT hnd (fun _ _ h => h) (sinv_init hk)
  have hP : ∀ x, (False ∨ x ∈ t.points) ↔ x ∈ t.points := fun x => by simp
  have h' := h.congr hP
  set s := search cb pop q k t ⟨none, []⟩ with hs
  have hlen : s.heap.length = k := by
    by_contra hne
    have hlt : s.heap.length < k := lt_of_le_of_ne h'.len_le hne
    have htn := h'.tau_none hlt
    have hsub : ∀ x ∈ t.points, x ∈ s.heap.map (·.1) := by
      intro x hx
      by_contra hxn
      obtain ⟨m, hm', _⟩ := h'.out x hx hxn
      rw [htn] at hm'
      cases hm'
    have := length_le_of_nodup_subset hnd hsub
    rw [length_map] at this
    omega
  refine ⟨h'.nodup, by rw [length_map, hlen], ?_, ?_⟩
  · intro a ha
    obtain ⟨y, hy, rfl⟩ := mem_map.1 ha
    exact (h'.heap_ok y hy).1
  · intro a ha b hb hbn
    obtain ⟨y, hy, rfl⟩ := mem_map.1 ha
    obtain ⟨m, hm1, hbound, _⟩ := h'.tau_some hlen
    obtain ⟨m', hm2, hle⟩ := h'.out b hb hbn
    rw [hm1] at hm2
    cases hm2
    rw [hm.symm q y.1, hm.symm q b, ← (h'.heap_ok y hy).2]
    exact le_trans (hbound y hy) hle

end TapkeeVerif.VpTree
