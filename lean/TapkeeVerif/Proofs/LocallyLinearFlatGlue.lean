import Mathlib.Logic.Relation
import Mathlib.Tactic.LinearCombination
import Mathlib.LinearAlgebra.FiniteDimensional.Lemmas
import Mathlib.LinearAlgebra.Matrix.ToLin
import TapkeeVerif.Proofs.SpectralLocal
/-!
C08, flat-manifold clause, part 3 — two generic ingredients of the EXACTNESS direction.

* `affine_of_locally_affine` (combinatorial): a function that is affine in the intrinsic coordinates on every neighbourhood
  is globally affine when the neighbourhoods cover the samples and are connected through overlaps that affinely span
  (`Overlap`: the samples shared by two neighbourhoods contain `d+1` affinely independent ones).
* `bottom_eigs_of_null` (spectral): if `M − s·1` is PSD on the eigenvalues (`s ≤ lam j`) and `m` linearly independent vectors
  are annihilated by it, the first `m` eigenvalues of any full ascending orthonormal eigensystem equal `s` — so the first `m`
  returned columns are null vectors of `M − s·1`.
-/
set_option linter.unusedSectionVars false
namespace TapkeeVerif.LocallyLinear
open Matrix TapkeeVerif.SpectralLocal

variable {K : Type} [Field K] {N k d : Nat}

/-! ### gluing local affine functions -/

/-- **overlap condition**: the samples common to the neighbourhoods of `i` and `i'` affinely span `K^d` — the only affine
    function of the intrinsic coordinates vanishing on all of them is zero (they contain `d+1` affinely independent samples) -/
def Overlap (nb : Fin N → Fin k → Fin N) (T : Fin N → Fin d → K) (i i' : Fin N) : Prop :=
  ∀ (c0 : K) (w : Fin d → K),
    (∀ a a', nb i a = nb i' a' → c0 + ∑ c, T (nb i a) c * w c = 0) → c0 = 0 ∧ w = 0

/-- `v` restricted to every neighbourhood is an affine function of the intrinsic coordinates -/
def LocallyAffine (nb : Fin N → Fin k → Fin N) (T : Fin N → Fin d → K) (v : Fin N → K) : Prop :=
  ∀ i, ∃ (c0 : K) (w : Fin d → K), ∀ a, v (nb i a) = c0 + ∑ c, T (nb i a) c * w c

/-- `v` is an affine function of the intrinsic coordinates -/
def IsAffine (T : Fin N → Fin d → K) (v : Fin N → K) : Prop :=
  ∃ (c0 : K) (w : Fin d → K), ∀ j, v j = c0 + ∑ c, T j c * w c

/-- `d = 1`: two shared samples with different intrinsic coordinate are enough -/
theorem overlap_of_two (nb : Fin N → Fin k → Fin N) (T : Fin N → Fin 1 → K) (i i' : Fin N)
    (a1 a1' a2 a2' : Fin k) (e1 : nb i a1 = nb i' a1') (e2 : nb i a2 = nb i' a2')
    (h : T (nb i a1) 0 ≠ T (nb i a2) 0) : Overlap nb T i i' := by
  intro c0 w hw
  have h1 := hw a1 a1' e1
  have h2 := hw a2 a2' e2
  simp only [Fin.sum_univ_one] at h1 h2
  have h3 : (T (nb i a1) 0 - T (nb i a2) 0) * w 0 = 0 := by linear_combination h1 - h2
  have hw0 : w 0 = 0 := by
    rcases mul_eq_zero.1 h3 with h4 | h4
    · exact absurd (sub_eq_zero.1 h4) h
    · exact h4
  refine ⟨?_, ?_⟩
  · rw [hw0, mul_zero, add_zero] at h1
    exact h1
  · funext c
    rw [Subsingleton.elim c 0]
    exact hw0

theorem affine_of_locally_affine (nb : Fin N → Fin k → Fin N) (T : Fin N → Fin d → K) (v : Fin N → K)
    (hloc : LocallyAffine nb T v)
    (hconn : ∀ i i', Relation.ReflTransGen (Overlap nb T) i i')
    (hcover : ∀ j, ∃ i a, nb i a = j) : IsAffine T v := by
  choose c0 w hw using hloc
  have hstep : ∀ i i', Overlap nb T i i' → c0 i = c0 i' ∧ w i = w i' := by
    intro i i' hov
    have := hov (c0 i - c0 i') (w i - w i') (by
      intro a a' haa
      have h1 := hw i a
      have h2 := hw i' a'
      rw [← haa] at h2
      have e : ∑ c, T (nb i a) c * (w i - w i') c
          = ∑ c, T (nb i a) c * w i c - ∑ c, T (nb i a) c * w i' c := by
        simp only [Pi.sub_apply, mul_sub, Finset.sum_sub_distrib]
      rw [e]
      linear_combination h2 - h1)
    exact ⟨sub_eq_zero.1 this.1, sub_eq_zero.1 this.2⟩
  have hall : ∀ i i', Relation.ReflTransGen (Overlap nb T) i i' → c0 i = c0 i' ∧ w i = w i' := by
    intro i i' h
    induction h with
    | refl => exact ⟨rfl, rfl⟩
    | tail _ hbc ih =>
      obtain ⟨e1, e2⟩ := hstep _ _ hbc
      exact ⟨ih.1.trans e1, ih.2.trans e2⟩
  rcases Nat.eq_zero_or_pos N with hN | hN
  · subst hN
    exact ⟨0, 0, fun j => j.elim0⟩
  · refine ⟨c0 ⟨0, hN⟩, w ⟨0, hN⟩, fun j => ?_⟩
    obtain ⟨i, a, rfl⟩ := hcover j
    obtain ⟨e1, e2⟩ := hall ⟨0, hN⟩ i (hconn _ _)
    rw [e1, e2]
    exact hw i a

/-! ### the bottom of the spectrum -/

section Ordered
variable [LinearOrder K] [IsStrictOrderedRing K]

/-- **multiplicity of the bottom eigenvalue.**  `(V, lam)` a full ascending orthonormal eigensystem of `M`, every eigenvalue
    `≥ s`, and the `m` columns of `F` are linearly independent solutions of `M x = s x`: then `lam j = s` for every `j < m`. -/
theorem bottom_eigs_of_null {n m : Nat} (M V : Matrix (Fin n) (Fin n) K) (lam : Fin n → K)
    (h : GenEigSystem M 1 V lam) (s : K) (hge : ∀ j, s ≤ lam j)
    (F : Matrix (Fin n) (Fin m) K) (hF : ∀ w, M *ᵥ (F *ᵥ w) = s • (F *ᵥ w))
    (hinj : ∀ w, F *ᵥ w = 0 → w = 0) :
    ∀ j : Fin n, j.1 < m → lam j = s := by
  classical
  have horth : Vᵀ * V = 1 := by have := h.orth; rwa [Matrix.mul_one] at this
  have hVV : V * Vᵀ = 1 := mul_eq_one_comm.mp horth
  have hVM : Vᵀ * M = diagonal lam * Vᵀ := by
    calc Vᵀ * M = Vᵀ * M * (V * Vᵀ) := by rw [hVV, Matrix.mul_one]
      _ = (Vᵀ * M * V) * Vᵀ := by simp only [Matrix.mul_assoc]
      _ = diagonal lam * Vᵀ := by rw [h.diag]
  -- coefficients of a null vector vanish off the `s`-eigenvalues
  have hcoef : ∀ w j, lam j ≠ s → (Vᵀ *ᵥ (F *ᵥ w)) j = 0 := by
    intro w j hj
    have e : Vᵀ *ᵥ (M *ᵥ (F *ᵥ w)) = diagonal lam *ᵥ (Vᵀ *ᵥ (F *ᵥ w)) := by
      rw [mulVec_mulVec, hVM, ← mulVec_mulVec]
    rw [hF w, mulVec_smul] at e
    have := congrFun e j
    simp only [Pi.smul_apply, smul_eq_mul, mulVec_diagonal] at this
    have h2 : (lam j - s) * (Vᵀ *ᵥ (F *ᵥ w)) j = 0 := by linear_combination -this
    rcases mul_eq_zero.1 h2 with h3 | h3
    · exact absurd (sub_eq_zero.1 h3) hj
    · exact h3
  -- at least `m` indices carry the eigenvalue `s`
  have hcard : m ≤ Fintype.card {j : Fin n // lam j = s} := by
    by_contra hlt
    rw [not_le] at hlt
    let φ : (Fin m → K) →ₗ[K] ({j : Fin n // lam j = s} → K) :=
      (Matrix.of fun (j : {j : Fin n // lam j = s}) (c : Fin m) => (Vᵀ * F) j.1 c).mulVecLin
    have hker : LinearMap.ker φ ≠ ⊥ := by
      apply LinearMap.ker_ne_bot_of_finrank_lt
      simpa [Module.finrank_fintype_fun_eq_card] using hlt
    obtain ⟨w, hw, hw0⟩ := (Submodule.ne_bot_iff _).1 hker
    apply hw0
    apply hinj
    have hz : Vᵀ *ᵥ (F *ᵥ w) = 0 := by
      funext j
      by_cases hj : lam j = s
      · have := congrFun (LinearMap.mem_ker.1 hw) ⟨j, hj⟩
        simp only [φ, Matrix.mulVecLin_apply, Pi.zero_apply] at this
        rw [mulVec_mulVec]
        exact this
      · exact hcoef w j hj
    calc F *ᵥ w = (V * Vᵀ) *ᵥ (F *ᵥ w) := by rw [hVV, one_mulVec]
      _ = V *ᵥ (Vᵀ *ᵥ (F *ᵥ w)) := (mulVec_mulVec _ _ _).symm
      _ = 0 := by rw [hz, mulVec_zero]
  intro j0 hj0
  by_contra hne
  have hlt : s < lam j0 := lt_of_le_of_ne (hge j0) (Ne.symm hne)
  have hbelow : ∀ j : {j : Fin n // lam j = s}, j.1.1 < j0.1 := by
    intro j
    by_contra hnot
    have : j0 ≤ j.1 := by
      rw [Fin.le_def]
      omega
    have := h.sorted this
    rw [j.2] at this
    exact absurd hlt (not_lt.2 this)
  have hc2 : Fintype.card {j : Fin n // lam j = s} ≤ Fintype.card (Fin j0.1) :=
    Fintype.card_le_of_injective (fun j => (⟨j.1.1, hbelow j⟩ : Fin j0.1)) (by
      intro a b hab
      have := congrArg Fin.val hab
      exact Subtype.ext (Fin.ext this))
  rw [Fintype.card_fin] at hc2
  omega

end Ordered

end TapkeeVerif.LocallyLinear
