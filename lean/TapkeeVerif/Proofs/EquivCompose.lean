import TapkeeVerif.Props.C04Compose
import TapkeeVerif.Props.C12b
/-!
Helpers for `Props/C12Compose.lean` (end-to-end equivariance of the composed Isomap model): how the per-stage
equivariance lemmas of `Props/C12b.lean` / `Props/C03.lean` meet the interfaces of `IsomapCompose.isomapEmbedModel`.
-/
namespace TapkeeVerif.EquivCompose
open TapkeeVerif TapkeeVerif.Connected TapkeeVerif.Knn TapkeeVerif.IsomapCompose TapkeeVerif.IsomapPre

section scale
variable {K : Type} [Field K] [LinearOrder K] [IsStrictOrderedRing K]

/-- sorting commutes with multiplication by a positive constant -/
theorem sortK_scale {c : K} (hc : 0 < c) (l : List K) : sortK (l.map (c * ·)) = (sortK l).map (c * ·) := by
  unfold sortK
  rw [List.map_mergeSort (s := fun a b => decide (a ≤ b))]
  intro a _ b _
  simp only [decide_eq_decide]
  exact (mul_le_mul_iff_right₀ hc).symm

/-- an exact k-NN list stays exact when every distance is multiplied by `c > 0` -/
theorem isExactKnn_scale {c : K} (hc : 0 < c) {δ : Nat → Nat → K} {pts : List Nat} {k i : Nat} {l : List Nat}
    (h : IsExactKnn δ pts k i l) : IsExactKnn (fun a b => c * δ a b) pts k i l := by
  obtain ⟨h1, h2, h3, h4, h5⟩ := h
  refine ⟨h1, h2, h3, h4, ?_⟩
  have e : ∀ m : List Nat, m.map (fun j => c * δ i j) = (m.map (δ i)).map (c * ·) := fun m => by
    rw [List.map_map]; rfl
  rw [e, e, sortK_scale hc, sortK_scale hc, h5, List.map_take]


omit [IsStrictOrderedRing K] in
/-- the `found` component of a successful run is what `findNeighbors` returned -/
theorem model_found {δ : Nat → Nat → K} {N k : Nat} {check : Bool} {d : Nat} {search : Nat → Graph}
    {disc : Dijkstra.Disc} {ch : Nat → Nat → Nat} {solver : Mat N N K → Mat N d K × Vec d K} {sqrtO : K → K}
    {o : Out N d K} (h : isomapEmbedModel δ N k check d search disc ch solver sqrtO = .ok o) :
    findNeighbors search N check (findFuel N) k [] = .ok o.found := by
  unfold isomapEmbedModel at h
  split at h
  · cases h
  · cases h
  · rename_i f hf
    split at h
    · cases h
    · split at h
      · injection h with h
        subst h
        exact hf
      · cases h

theorem clamp0_scale {a : K} (ha : 0 ≤ a) (x : K) : clamp0 (a * x) = a * clamp0 x := by
  rw [C05.clamp0_eq_max, C05.clamp0_eq_max, mul_max_of_nonneg _ _ ha, mul_zero]


end scale
end TapkeeVerif.EquivCompose
