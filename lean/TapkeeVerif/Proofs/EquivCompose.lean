import TapkeeVerif.Props.C04Compose
import TapkeeVerif.Props.C12b
import TapkeeVerif.Props.C09Compose
/-!
Helpers for `Props/C12Compose.lean` (end-to-end equivariance of the composed Isomap model): how the per-stage
equivariance lemmas of `Props/C12b.lean` / `Props/C03.lean` meet the interfaces of `IsomapCompose.isomapEmbedModel`.
-/
namespace TapkeeVerif.EquivCompose
open TapkeeVerif TapkeeVerif.Connected TapkeeVerif.Knn TapkeeVerif.IsomapCompose TapkeeVerif.IsomapPre

section scale
variable {K : Type} [Field K] [LinearOrder K] [IsStrictOrderedRing K]

/-- sorting commutes with multiplication by a positive constant -/
theorem sortK_scale {c : K} (hc : 0 < c) (l : List K) : sortK (l.map (c * ·)) = (sortK l).map (c * ·) := by
  unfold sortK
  rw [List.map_mergeSort (s := fun a b => decide (a ≤ b))]
  intro a _ b _
  simp only [decide_eq_decide]
  exact (mul_le_mul_iff_right₀ hc).symm

/-- an exact k-NN list stays exact when every distance is multiplied by `c > 0` -/
theorem isExactKnn_scale {c : K} (hc : 0 < c) {δ : Nat → Nat → K} {pts : List Nat} {k i : Nat} {l : List Nat}
    (h : IsExactKnn δ pts k i l) : IsExactKnn (fun a b => c * δ a b) pts k i l := by
  obtain ⟨h1, h2, h3, h4, h5⟩ := h
  refine ⟨h1, h2, h3, h4, ?_⟩
  have e : ∀ m : List Nat, m.map (fun j => c * δ i j) = (m.map (δ i)).map (c * ·) := fun m => by
    rw [List.map_map]; rfl
  rw [e, e, sortK_scale hc, sortK_scale hc, h5, List.map_take]


omit [IsStrictOrderedRing K] in
/-- the `found` component of a successful run is what `findNeighbors` returned -/
theorem model_found {δ : Nat → Nat → K} {N k : Nat} {check : Bool} {d : Nat} {search : Nat → Graph}
    {disc : Dijkstra.Disc} {ch : Nat → Nat → Nat} {solver : Mat N N K → Mat N d K × Vec d K} {sqrtO : K → K}
    {o : Out N d K} (h : isomapEmbedModel δ N k check d search disc ch solver sqrtO = .ok o) :
    findNeighbors search N check (findFuel N) k [] = .ok o.found := by
  unfold isomapEmbedModel at h
  split at h
  · cases h
  · cases h
  · rename_i f hf
    split at h
    · cases h
    · split at h
      · injection h with h
        subst h
        exact hf
      · cases h

theorem clamp0_scale {a : K} (ha : 0 ≤ a) (x : K) : clamp0 (a * x) = a * clamp0 x := by
  rw [C05.clamp0_eq_max, C05.clamp0_eq_max, mul_max_of_nonneg _ _ ha, mul_zero]


end scale
section perm
variable {N : Nat}

/-- a permutation of `Fin N` as a function on sample ids (identity outside `0..N-1`): new sample `a` is old sample `pOf π a` -/
def pOf (π : Equiv.Perm (Fin N)) (a : Nat) : Nat := if h : a < N then (π ⟨a, h⟩).1 else a

theorem pOf_lt (π : Equiv.Perm (Fin N)) {a : Nat} (h : a < N) : pOf π a < N := by
  simp only [pOf, h, dite_true]; exact (π ⟨a, h⟩).2

theorem pOf_fin (π : Equiv.Perm (Fin N)) (i : Fin N) : pOf π i.1 = (π i).1 := by
  simp only [pOf, i.2, dite_true]

theorem pOf_symm (π : Equiv.Perm (Fin N)) (a : Nat) : pOf π.symm (pOf π a) = a := by
  by_cases h : a < N
  · have h2 := pOf_lt π h
    have e : pOf π a = (π ⟨a, h⟩).1 := by simp only [pOf, h, dite_true]
    have e2 : (⟨pOf π a, h2⟩ : Fin N) = π ⟨a, h⟩ := Fin.ext e
    show (if h' : pOf π a < N then (π.symm ⟨pOf π a, h'⟩).1 else pOf π a) = a
    rw [dif_pos h2, e2, Equiv.symm_apply_apply]
  · simp only [pOf, h, dite_false]

theorem pOf_symm' (π : Equiv.Perm (Fin N)) (a : Nat) : pOf π (pOf π.symm a) = a := by
  have := pOf_symm π.symm a
  rwa [Equiv.symm_symm] at this

theorem pOf_injective (π : Equiv.Perm (Fin N)) : Function.Injective (pOf π) :=
  Function.LeftInverse.injective (pOf_symm π)

/-- the permutation as the list `new index ↦ old index` that C03's `relabel` takes -/
def permList (π : Equiv.Perm (Fin N)) : List Nat := (List.range N).map (pOf π)

theorem permList_getD (π : Equiv.Perm (Fin N)) {a : Nat} (h : a < N) : (permList π).getD a 0 = pOf π a := by
  simp [permList, List.getD, h]

theorem isPermPair (π : Equiv.Perm (Fin N)) : IsPermPair (permList π) (permList π.symm) N := by
  refine ⟨by simp [permList], by simp [permList], fun i hi => ?_, fun i hi => ?_⟩
  · rw [permList_getD π hi, permList_getD π.symm (pOf_lt π hi)]
    exact ⟨pOf_lt π hi, pOf_symm π i⟩
  · rw [permList_getD π.symm hi, permList_getD π (pOf_lt π.symm hi)]
    exact ⟨pOf_lt π.symm hi, pOf_symm' π i⟩

end perm

section knn
variable {K : Type} [LinearOrder K] {N : Nat}

/-- `IsExactKnn` depends on the list of samples only up to its order -/
theorem isExactKnn_of_perm {δ : Nat → Nat → K} {pts pts' : List Nat} (hp : pts.Perm pts') {k i : Nat} {l : List Nat}
    (h : IsExactKnn δ pts k i l) : IsExactKnn δ pts' k i l := by
  obtain ⟨h1, h2, h3, h4, h5⟩ := h
  refine ⟨h1, h2, h3, fun j hj => hp.mem_iff.1 (h4 j hj), ?_⟩
  rw [h5]
  congr 1
  apply sortK_eq_of_perm
  unfold others
  exact (hp.filter _).map _

theorem range_map_pOf_perm (π : Equiv.Perm (Fin N)) : ((List.range N).map (pOf π)).Perm (List.range N) := by
  rw [List.perm_ext_iff_of_nodup ((List.nodup_map_iff (pOf_injective π)).2 List.nodup_range) List.nodup_range]
  intro a
  simp only [List.mem_map, List.mem_range]
  constructor
  · rintro ⟨b, hb, rfl⟩; exact pOf_lt π hb
  · intro ha; exact ⟨pOf π.symm a, pOf_lt π.symm ha, pOf_symm' π a⟩

/-- **C02 + C03 on re-ordered data**: for tie-free data the exact search on the re-ordered callback returns, list by
    list and up to the order inside each list, the relabelled lists of the exact search on the original callback -/
theorem sameEdges_of_exact (π : Equiv.Perm (Fin N)) {δ : Nat → Nat → K} {g g' : Graph} {k : Nat}
    (htf : ∀ i, i < N → ∀ a ∈ List.range N, ∀ b ∈ List.range N, δ i a = δ i b → a = b)
    (hlen : g.length = N) (hex : ∀ u (hu : u < g.length), IsExactKnn δ (List.range N) k u g[u])
    (hlen' : g'.length = N)
    (hex' : ∀ u (hu : u < g'.length),
      IsExactKnn (fun a b => δ (pOf π a) (pOf π b)) (List.range N) k u g'[u]) :
    SameEdges (relabel g (permList π) (permList π.symm)) g' N := by
  intro a ha b
  have hp := isPermPair π
  have hpa : pOf π a < g.length := by rw [hlen]; exact pOf_lt π ha
  have hrel : (relabel g (permList π) (permList π.symm))[a]? = some (g[pOf π a].map (pOf π.symm)) := by
    rw [relabel_getElem? hp ha, permList_getD π ha, List.getElem?_eq_getElem hpa]
    simp only [Option.getD_some, Option.some.injEq]
    apply List.map_congr_left
    intro w hw
    exact permList_getD π.symm (List.mem_range.1 ((hex _ hpa).2.2.2.1 w hw))
  -- the relabelled list is an exact k-NN list of the re-ordered callback
  have h1 : IsExactKnn (fun a b => δ (pOf π a) (pOf π b)) (List.range N) k a (g[pOf π a].map (pOf π.symm)) := by
    have := (C12b.isExactKnn_transport (pOf π.symm) (pOf_injective π.symm) δ (fun a b => δ (pOf π a) (pOf π b))
      (fun x y => by simp only [pOf_symm']) (List.range N) k (pOf π a) g[pOf π a]).2 (hex _ hpa)
    rw [pOf_symm] at this
    exact isExactKnn_of_perm (range_map_pOf_perm π.symm) this
  have ha' : a < g'.length := by rw [hlen']; exact ha
  have hperm := exactKnn_unique_of_tieFree h1 (hex' a ha') (by
    intro x hx y hy hxy
    have := htf (pOf π a) (pOf_lt π ha) _ (List.mem_range.2 (pOf_lt π (List.mem_range.1 hx))) _
      (List.mem_range.2 (pOf_lt π (List.mem_range.1 hy))) hxy
    exact pOf_injective π this)
  unfold Edge
  rw [hrel, List.getElem?_eq_getElem ha']
  constructor
  · rintro ⟨nb, hnb, hb⟩; cases hnb; exact ⟨_, rfl, hperm.mem_iff.1 hb⟩
  · rintro ⟨nb, hnb, hb⟩; cases hnb; exact ⟨_, rfl, hperm.mem_iff.2 hb⟩

end knn
section geo
set_option linter.unusedSectionVars false
variable {K : Type} [AddCommMonoid K] [LinearOrder K] [IsOrderedAddMonoid K] {N : Nat}

/-- an edge of the C04 problem of a graph is an edge of the graph (converse of `dijkstraEdge_of_edge`) -/
theorem edge_of_dijkstraEdge {g : Graph} {k : Nat} (w : Nat → Nat → K) {a b : Nat}
    (he : Dijkstra.Edge (problemOf g N w) k a b) : Edge g a b := by
  obtain ⟨-, -, i, -, hi⟩ := he
  rw [problemOf_nbr] at hi
  cases hg : g[a]? with
  | none => rw [hg] at hi; cases hi
  | some nb =>
    rw [hg] at hi
    exact ⟨nb, hg, List.mem_of_getElem? hi⟩

variable (π : Equiv.Perm (Fin N)) {δ : Nat → Nat → K} {g g' : Graph} {k : Nat}

theorem walk_perm (hu : Uniform g N k) (hu' : Uniform g' N k)
    (hse : SameEdges (relabel g (permList π) (permList π.symm)) g' N) {s v : Nat} {d : K}
    (h : Dijkstra.Walk (problemOf g N δ) k s v d) :
    Dijkstra.Walk (problemOf g' N (fun a b => δ (pOf π a) (pOf π b))) k (pOf π.symm s) (pOf π.symm v) d := by
  induction h with
  | nil hs => exact Dijkstra.Walk.nil (pOf_lt π.symm hs)
  | @snoc u x d _ he ih =>
    have hux := he.1
    have hxN := he.2.1
    have e1 := relabel_edge hu (isPermPair π) (edge_of_dijkstraEdge δ he)
    rw [permList_getD π.symm hux, permList_getD π.symm hxN] at e1
    have e2 := (hse _ (pOf_lt π.symm hux) _).1 e1
    have e3 := dijkstraEdge_of_edge hu' (fun a b => δ (pOf π a) (pOf π b)) e2
    have := Dijkstra.Walk.snoc ih e3
    simpa only [problemOf, pOf_symm'] using this

theorem walk_unperm (hu : Uniform g N k) (_hu' : Uniform g' N k)
    (hse : SameEdges (relabel g (permList π) (permList π.symm)) g' N) {s v : Nat} {d : K}
    (h : Dijkstra.Walk (problemOf g' N (fun a b => δ (pOf π a) (pOf π b))) k s v d) :
    Dijkstra.Walk (problemOf g N δ) k (pOf π s) (pOf π v) d := by
  induction h with
  | nil hs => exact Dijkstra.Walk.nil (pOf_lt π hs)
  | @snoc u x d _ he ih =>
    have hux : u < N := he.1
    have hxN : x < N := he.2.1
    have e1 := (hse u hux x).2 (edge_of_dijkstraEdge _ he)
    have e2 := (edge_relabel hu (isPermPair π) hux e1).1
    rw [permList_getD π hux, permList_getD π hxN] at e2
    exact Dijkstra.Walk.snoc ih (dijkstraEdge_of_edge hu δ e2)

/-- geodesics between re-ordered samples in the graph of the re-ordered search -/
theorem geodesic_perm_edges (hu : Uniform g N k) (hu' : Uniform g' N k)
    (hse : SameEdges (relabel g (permList π) (permList π.symm)) g' N) {s v : Nat} {o : Option K}
    (h : Dijkstra.IsGeodesic (problemOf g N δ) k s v o) :
    Dijkstra.IsGeodesic (problemOf g' N (fun a b => δ (pOf π a) (pOf π b))) k (pOf π.symm s) (pOf π.symm v) o := by
  cases o with
  | none =>
    intro d' hw
    have := walk_unperm π hu hu' hse hw
    rw [pOf_symm', pOf_symm'] at this
    exact h d' this
  | some d =>
    refine ⟨walk_perm π hu hu' hse h.1, fun d' hw => ?_⟩
    have := walk_unperm π hu hu' hse hw
    rw [pOf_symm', pOf_symm'] at this
    exact h.2 d' this

end geo
section le
open TapkeeVerif.LeCompose TapkeeVerif.Laplacian
variable {K : Type} [Field K] [LinearOrder K] [IsStrictOrderedRing K]

omit [LinearOrder K] [IsStrictOrderedRing K] in
/-- the `found` component of a successful run of the composed Laplacian Eigenmaps model -/
theorem le_model_found {δ : Nat → Nat → K} {N k : Nat} {check : Bool} {d : Nat} {hd : 1 + d ≤ N} {width : K}
    {heat : K → K} {search : Nat → Graph} {solver : Mat N N K → Vec N K → Mat N N K × Vec N K}
    {o : LeOut N d K} (h : leEmbedModel δ N k check d hd width heat search solver = .ok o) :
    findNeighbors search N check (findFuel N) k [] = .ok o.found := by
  unfold leEmbedModel at h
  split at h
  · cases h
  · cases h
  · rename_i f hf
    split at h
    · injection h with h
      subst h
      exact hf
    · cases h

omit [LinearOrder K] [IsStrictOrderedRing K] in
/-- the heat values do not change when the distances are scaled by `c ≠ 0` and the width by `c²` -/
theorem computeLaplacian_scale {N : Nat} {c : K} (hc : c ≠ 0) (heat : K → K) (δ : Nat → Nat → K) (width : K)
    (f f' : Found) (e : f' = f) (hu : Uniform f.graph N f.k) (hu' : Uniform f'.graph N f'.k) :
    computeLaplacian heat (fun i j : Fin N => c * δ i.1 j.1) (c ^ 2 * width) (nbOf hu')
      = computeLaplacian heat (fun i j : Fin N => δ i.1 j.1) width (nbOf hu) := by
  subst e
  rw [C09.computeLaplacian_eq, C09.computeLaplacian_eq]
  have : ∀ i a, heat (-(c * δ i.1 (nbOf hu i a).1) ^ 2 / (c ^ 2 * width))
      = heat (-(δ i.1 (nbOf hu i a).1) ^ 2 / width) := by
    intro i a
    congr 1
    rw [show -(c * δ i.1 (nbOf hu i a).1) ^ 2 = c ^ 2 * (-(δ i.1 (nbOf hu i a).1) ^ 2) by ring,
      mul_div_mul_left _ _ (pow_ne_zero 2 hc)]
  simp only [this]

end le
section leperm
set_option linter.unusedSectionVars false
open TapkeeVerif.LeCompose TapkeeVerif.Laplacian TapkeeVerif.SpectralLocal Matrix
variable {K : Type} [Field K] {N : Nat}

theorem nbOf_injective {g : Graph} {k : Nat} (hu : Uniform g N k) (hnd : ∀ l ∈ g, l.Nodup) (i : Fin N) :
    Function.Injective (nbOf hu i) := by
  intro a b hab
  have hi : i.1 < g.length := by rw [hu.1]; exact i.2
  have h := congrArg Fin.val hab
  simp only [nbOf] at h
  exact Fin.ext ((List.Nodup.getElem_inj_iff (hnd _ (List.getElem_mem hi))).1 h)

/-- on duplicate-free lists the directed heat adjacency is the indicator of the edge relation times the heat value -/
theorem adj_of_nodup {g : Graph} {k : Nat} (hu : Uniform g N k) (hnd : ∀ l ∈ g, l.Nodup) (H : Fin N → Fin N → K)
    (i j : Fin N) [Decidable (Edge g i.1 j.1)] :
    adj (nbOf hu) (fun i a => H i (nbOf hu i a)) i j = if Edge g i.1 j.1 then H i j else 0 := by
  unfold adj
  by_cases he : Edge g i.1 j.1
  · rw [if_pos he]
    obtain ⟨i', a, hi', hw⟩ := edge_nbOf hu he
    have hii : i' = i := Fin.ext hi'
    subst hii
    have hja : nbOf hu i' a = j := Fin.ext hw
    rw [Finset.sum_eq_single a]
    · rw [if_pos hja]
      show H i' (nbOf hu i' a) = H i' j
      rw [hja]
    · intro b _ hba
      rw [if_neg]
      intro hb
      exact hba (nbOf_injective hu hnd i' (hb.trans hja.symm))
    · intro h; exact absurd (Finset.mem_univ a) h
  · rw [if_neg he]
    apply Finset.sum_eq_zero
    intro a _
    rw [if_neg]
    intro ha
    exact he (ha ▸ nbOf_edge hu i a)

theorem edge_perm_iff (π : Equiv.Perm (Fin N)) {g g' : Graph} {k : Nat} (hu : Uniform g N k)
    (hse : SameEdges (relabel g (permList π) (permList π.symm)) g' N) (i j : Fin N) :
    Edge g' i.1 j.1 ↔ Edge g (π i).1 (π j).1 := by
  have hp := isPermPair π
  constructor
  · intro he
    have h1 := (edge_relabel hu hp i.2 ((hse i.1 i.2 j.1).2 he)).1
    rwa [permList_getD π i.2, permList_getD π j.2, pOf_fin, pOf_fin] at h1
  · intro he
    have h1 := relabel_edge hu hp he
    rw [permList_getD π.symm (π i).2, permList_getD π.symm (π j).2, pOf_fin, pOf_fin,
      Equiv.symm_apply_apply, Equiv.symm_apply_apply] at h1
    exact (hse i.1 i.2 j.1).1 h1

/-- **compute_laplacian on re-ordered data**: `L' = Π L Πᵀ`, `D' = Π D` -/
theorem computeLaplacian_perm (π : Equiv.Perm (Fin N)) {g g' : Graph} {k : Nat} (hu : Uniform g N k)
    (hu' : Uniform g' N k) (hnd : ∀ l ∈ g, l.Nodup) (hnd' : ∀ l ∈ g', l.Nodup)
    (hse : SameEdges (relabel g (permList π) (permList π.symm)) g' N) (heat : K → K) (δ : Nat → Nat → K) (w : K) :
    (∀ i j, (computeLaplacian heat (fun i j : Fin N => δ (pOf π i.1) (pOf π j.1)) w (nbOf hu')).1 i j
        = (computeLaplacian heat (fun i j : Fin N => δ i.1 j.1) w (nbOf hu)).1 (π i) (π j)) ∧
    (∀ i, (computeLaplacian heat (fun i j : Fin N => δ (pOf π i.1) (pOf π j.1)) w (nbOf hu')).2 i
        = (computeLaplacian heat (fun i j : Fin N => δ i.1 j.1) w (nbOf hu)).2 (π i)) := by
  classical
  rw [C09.computeLaplacian_eq, C09.computeLaplacian_eq]
  set H : Fin N → Fin N → K := fun i j => heat (-(δ i.1 j.1) ^ 2 / w) with hH
  set H' : Fin N → Fin N → K := fun i j => heat (-(δ (pOf π i.1) (pOf π j.1)) ^ 2 / w) with hH'
  have hHH : ∀ i j, H' i j = H (π i) (π j) := fun i j => by simp only [hH, hH', pOf_fin]
  have hA : ∀ i j, adj (nbOf hu') (fun i a => H' i (nbOf hu' i a)) i j
      = adj (nbOf hu) (fun i a => H i (nbOf hu i a)) (π i) (π j) := by
    intro i j
    rw [adj_of_nodup hu' hnd' H', adj_of_nodup hu hnd H, hHH]
    exact if_congr (edge_perm_iff π hu hse i j) rfl rfl
  have hD : ∀ i, degrees (nbOf hu') (fun i a => H' i (nbOf hu' i a)) i
      = degrees (nbOf hu) (fun i a => H i (nbOf hu i a)) (π i) := by
    intro i
    rw [C09.degrees_eq, C09.degrees_eq]
    refine Eq.trans ?_ (Equiv.sum_comp π (fun j' => (adj (nbOf hu) (fun i a => H i (nbOf hu i a))
      + (adj (nbOf hu) (fun i a => H i (nbOf hu i a)))ᵀ) (π i) j'))
    apply Finset.sum_congr rfl
    intro j _
    simp only [Matrix.add_apply, Matrix.transpose_apply, hA]
  refine ⟨fun i j => ?_, fun i => hD i⟩
  show laplacianL (nbOf hu') (fun i a => H' i (nbOf hu' i a)) i j
    = laplacianL (nbOf hu) (fun i a => H i (nbOf hu i a)) (π i) (π j)
  have e1 := congrFun (congrFun (C09.laplacian_eq (nbOf hu') (fun i a => H' i (nbOf hu' i a))) i) j
  have e2 := congrFun (congrFun (C09.laplacian_eq (nbOf hu) (fun i a => H i (nbOf hu i a))) (π i)) (π j)
  simp only [Mat.toM_apply] at e1 e2
  rw [e1, e2]
  simp only [Matrix.sub_apply, Matrix.add_apply, Matrix.transpose_apply, Matrix.diagonal_apply, hA, hD,
    π.injective.eq_iff]

end leperm

section lemain
set_option linter.unusedSectionVars false
open TapkeeVerif.LeCompose TapkeeVerif.Laplacian TapkeeVerif.SpectralLocal Matrix
variable {K : Type} [Field K] [LinearOrder K] [IsStrictOrderedRing K] {N : Nat}

theorem genEigSystem_perm (π : Equiv.Perm (Fin N)) {A B V : Matrix (Fin N) (Fin N) K} {lam : Fin N → K}
    (h : GenEigSystem A B V lam) :
    GenEigSystem (A.submatrix π π) (B.submatrix π π) (V.submatrix π id) lam := by
  have key : ∀ M : Matrix (Fin N) (Fin N) K,
      (V.submatrix π id)ᵀ * M.submatrix π π * V.submatrix π id = Vᵀ * M * V := by
    intro M
    rw [Matrix.transpose_submatrix, Matrix.submatrix_mul_equiv Vᵀ M id π π,
      Matrix.submatrix_mul_equiv (Vᵀ * M) V id π id]
    simp
  exact ⟨by rw [key]; exact h.orth, by rw [key]; exact h.diag, h.sorted⟩

theorem nodup_of_exact {δ : Nat → Nat → K} {g : Graph} {k : Nat}
    (hex : ∀ u (hu : u < g.length), IsExactKnn δ (List.range N) k u g[u]) : ∀ l ∈ g, l.Nodup := by
  intro l hl
  obtain ⟨u, hu, rfl⟩ := List.getElem_of_mem hl
  exact (hex u hu).2.1

end lemain
end TapkeeVerif.EquivCompose
