import Mathlib.Data.Matrix.Basic
import Mathlib.Data.Matrix.Mul
import Mathlib.Algebra.BigOperators.Fin
import Mathlib.Algebra.BigOperators.Ring.Finset
import Mathlib.Algebra.BigOperators.Field
import Mathlib.Algebra.Field.Basic
import Mathlib.Tactic.Ring
import Mathlib.Tactic.FieldSimp
import TapkeeVerif.Model.LocallyLinear
import TapkeeVerif.Proofs.MatBridge
import TapkeeVerif.Proofs.Triplets
/-!
Helper lemmas for C08 (`routines/locally_linear.hpp`): the assembled sparse matrices of
`linear_weight_matrix` (LLE) and `tangent_weight_matrix` (LTSA) in closed matrix form.
The property theorems themselves are in `Props/C08.lean`.
-/
namespace TapkeeVerif.LocallyLinear
open TapkeeVerif Matrix

variable {K : Type} {N k d : Nat}

/-! ### generic sum lemmas -/

theorem sum_ite_mul_sum_ite [CommRing K] {ι κ : Type} [Fintype ι] [Fintype κ]
    (p : ι → Prop) [DecidablePred p] (q : κ → Prop) [DecidablePred q] (f : ι → K) (g : κ → K) :
    (∑ a, if p a then f a else 0) * (∑ b, if q b then g b else 0)
      = ∑ a, ∑ b, if p a ∧ q b then f a * g b else 0 := by
  rw [Finset.sum_mul_sum]
  refine Finset.sum_congr rfl fun a _ => Finset.sum_congr rfl fun b _ => ?_
  by_cases hp : p a <;> by_cases hq : q b <;> simp [hp, hq]

/-! ### LLE -/

/-- the (dense view of the) sparse weight matrix: row `i` carries `w i a` at column `nb i a`
    (duplicate neighbours accumulate) -/
def lleW [Field K] (nb : Fin N → Fin k → Fin N) (w : Fin N → Vec k K) : Matrix (Fin N) (Fin N) K :=
  fun i j => ∑ a, if nb i a = j then w i a else 0

/-- one row of `lleW` for a single neighbour list -/
def lleRow [Field K] (nb : Fin k → Fin N) (w : Vec k K) : Fin N → K :=
  fun j => ∑ a, if nb a = j then w a else 0

theorem lleW_apply [Field K] (nb : Fin N → Fin k → Fin N) (w : Fin N → Vec k K) (i j : Fin N) :
    lleW nb w i j = lleRow (nb i) (w i) j := rfl

/-- the triplets pushed for sample `s` assemble to the rank-one block
    `(e_s - W_s)ᵀ (e_s - W_s) + shift·e_s e_sᵀ` -/
theorem fromTriplets_lleTripletsAt [Field K] (s : Fin N) (nb : Fin k → Fin N) (w : Vec k K) (shift : K)
    (i j : Fin N) :
    fromTriplets (lleTripletsAt s nb w shift) i j
      = ((if s = i then 1 else 0) - lleRow nb w i) * ((if s = j then 1 else 0) - lleRow nb w j)
        + (if s = i ∧ s = j then shift else 0) := by
  simp only [lleTripletsAt, fromTriplets_cons, fromTriplets_flatMap_finRange, fromTriplets_map_finRange,
    tripletAt, Finset.sum_add_distrib]
  have h1 : (∑ a, if nb a = i ∧ s = j then - w a else 0) = - lleRow nb w i * (if s = j then 1 else 0) := by
    by_cases h : s = j
    · simp only [h, and_true, if_true, mul_one, lleRow]
      rw [← Finset.sum_neg_distrib]
      refine Finset.sum_congr rfl fun a _ => ?_
      split_ifs <;> simp
    · simp [h]
  have h2 : (∑ a, if s = i ∧ nb a = j then - w a else 0) = - (if s = i then 1 else 0) * lleRow nb w j := by
    by_cases h : s = i
    · simp only [h, true_and, if_true, neg_mul, one_mul, lleRow]
      rw [← Finset.sum_neg_distrib]
      refine Finset.sum_congr rfl fun a _ => ?_
      split_ifs <;> simp
    · simp [h]
  have h3 : (∑ a, ∑ b, if nb a = i ∧ nb b = j then w a * w b else 0) = lleRow nb w i * lleRow nb w j := by
    rw [lleRow, lleRow, sum_ite_mul_sum_ite]
  rw [h1, h2, h3]
  by_cases hi : s = i
  · subst hi
    by_cases hj : s = j
    · subst hj
      simp
      ring
    · simp [hj]
      ring
  · by_cases hj : s = j
    · subst hj
      simp [hi]
      ring
    · simp [hi, hj]

theorem smul_one_apply_eq_sum [Field K] (shift : K) (i j : Fin N) :
    (shift • (1 : Matrix (Fin N) (Fin N) K)) i j = ∑ s : Fin N, if s = i ∧ s = j then shift else 0 := by
  rw [Matrix.smul_apply, Matrix.one_apply]
  by_cases h : i = j
  · subst h
    simp
  · have : ∀ s : Fin N, ¬ (s = i ∧ s = j) := fun s hs => h (hs.1.symm.trans hs.2)
    simp [h, this]

theorem lleM_apply [Field K] (nb : Fin N → Fin k → Fin N) (wraw : Fin N → Vec k K) (shift : K) (i j : Fin N) :
    lleM nb wraw shift i j
      = ∑ s, fromTriplets (lleTripletsAt s (nb s) (lleWeights (wraw s)) shift) i j := by
  simp only [lleM, lleTriplets, fromTriplets_overFin]
  rfl

theorem lleM_toM [Field K] (nb : Fin N → Fin k → Fin N) (wraw : Fin N → Vec k K) (shift : K) :
    Mat.toM (lleM nb wraw shift)
      = (1 - lleW nb (fun i => lleWeights (wraw i)))ᵀ * (1 - lleW nb (fun i => lleWeights (wraw i)))
        + shift • (1 : Matrix (Fin N) (Fin N) K) := by
  ext i j
  rw [Mat.toM_apply, lleM_apply, Matrix.add_apply, smul_one_apply_eq_sum, Matrix.mul_apply,
    ← Finset.sum_add_distrib]
  refine Finset.sum_congr rfl fun s _ => ?_
  rw [fromTriplets_lleTripletsAt, Matrix.transpose_apply, Matrix.sub_apply, Matrix.sub_apply,
    Matrix.one_apply, Matrix.one_apply, lleW_apply, lleW_apply]

theorem lleWeights_apply [Field K] (wraw : Vec k K) (a : Fin k) :
    lleWeights wraw a = wraw a / ∑ b, wraw b := by
  simp only [lleWeights, lleWeightsD, DVec.get_ofFn, sumFin_eq_sum]

theorem lleWeights_sum [Field K] (wraw : Vec k K) (h : sumFin k wraw ≠ 0) :
    ∑ a, lleWeights wraw a = 1 := by
  rw [sumFin_eq_sum] at h
  simp only [lleWeights_apply]
  rw [← Finset.sum_div, div_self h]

theorem lleRow_sum [Field K] (nb : Fin k → Fin N) (w : Vec k K) : ∑ j, lleRow nb w j = ∑ a, w a := by
  simp only [lleRow]
  rw [Finset.sum_comm]
  simp

/-! ### the local system handed to `ldlt()` -/

theorem lleSystem_apply [Field K] (κ : Mat N N K) (i : Fin N) (nb : Fin k → Fin N) (tshift : K) (a b : Fin k) :
    lleSystem κ i nb tshift a b
      = Mat.upperView (addDiag (tshift * Mat.trace (lleLocalGram κ i nb)) (lleLocalGram κ i nb)) a b := by
  simp only [lleSystem, lleSystemD, DMat.get_ofFn]

theorem lleLocalGram_trace [Field K] (κ : Mat N N K) (i : Fin N) (nb : Fin k → Fin N) :
    Mat.trace (lleLocalGram κ i nb) = ∑ c, (κ i i - κ i (nb c) - κ i (nb c) + κ (nb c) (nb c)) := by
  rw [Mat.trace_eq]
  simp [lleLocalGram]

end TapkeeVerif.LocallyLinear
