import Mathlib.Data.Matrix.Basic
import Mathlib.Data.Matrix.Mul
import Mathlib.Algebra.BigOperators.Fin
import Mathlib.Algebra.BigOperators.Ring.Finset
import Mathlib.Algebra.BigOperators.Field
import Mathlib.Algebra.Field.Basic
import Mathlib.Tactic.Ring
import Mathlib.Tactic.LinearCombination
import Mathlib.Tactic.FieldSimp
import TapkeeVerif.Model.LocallyLinear
import TapkeeVerif.Proofs.MatBridge
import TapkeeVerif.Proofs.Triplets
/-!
Helper lemmas for C08 (`routines/locally_linear.hpp`): the assembled sparse matrices of
`linear_weight_matrix` (LLE) and `tangent_weight_matrix` (LTSA) in closed matrix form.
The property theorems themselves are in `Props/C08.lean`.
-/
namespace TapkeeVerif.LocallyLinear
open TapkeeVerif Matrix

variable {K : Type} {N k d : Nat}

/-! ### generic sum lemmas -/

theorem sum_ite_mul_sum_ite [CommRing K] {ι κ : Type} [Fintype ι] [Fintype κ]
    (p : ι → Prop) [DecidablePred p] (q : κ → Prop) [DecidablePred q] (f : ι → K) (g : κ → K) :
    (∑ a, if p a then f a else 0) * (∑ b, if q b then g b else 0)
      = ∑ a, ∑ b, if p a ∧ q b then f a * g b else 0 := by
  rw [Finset.sum_mul_sum]
  refine Finset.sum_congr rfl fun a _ => Finset.sum_congr rfl fun b _ => ?_
  by_cases hp : p a <;> by_cases hq : q b <;> simp [hp, hq]

/-! ### LLE -/

/-- the (dense view of the) sparse weight matrix: row `i` carries `w i a` at column `nb i a`
    (duplicate neighbours accumulate) -/
def lleW [Field K] (nb : Fin N → Fin k → Fin N) (w : Fin N → Vec k K) : Matrix (Fin N) (Fin N) K :=
  fun i j => ∑ a, if nb i a = j then w i a else 0

/-- one row of `lleW` for a single neighbour list -/
def lleRow [Field K] (nb : Fin k → Fin N) (w : Vec k K) : Fin N → K :=
  fun j => ∑ a, if nb a = j then w a else 0

theorem lleW_apply [Field K] (nb : Fin N → Fin k → Fin N) (w : Fin N → Vec k K) (i j : Fin N) :
    lleW nb w i j = lleRow (nb i) (w i) j := rfl

/-- the triplets pushed for sample `s` assemble to the rank-one block
    `(e_s - W_s)ᵀ (e_s - W_s) + shift·e_s e_sᵀ` -/
theorem fromTriplets_lleTripletsAt [Field K] (s : Fin N) (nb : Fin k → Fin N) (w : Vec k K) (shift : K)
    (i j : Fin N) :
    fromTriplets (lleTripletsAt s nb w shift) i j
      = ((if s = i then 1 else 0) - lleRow nb w i) * ((if s = j then 1 else 0) - lleRow nb w j)
        + (if s = i ∧ s = j then shift else 0) := by
  simp only [lleTripletsAt, fromTriplets_cons, fromTriplets_flatMap_finRange, fromTriplets_map_finRange,
    tripletAt, Finset.sum_add_distrib]
  have h1 : (∑ a, if nb a = i ∧ s = j then - w a else 0) = - lleRow nb w i * (if s = j then 1 else 0) := by
    by_cases h : s = j
    · simp only [h, and_true, if_true, mul_one, lleRow]
      rw [← Finset.sum_neg_distrib]
      refine Finset.sum_congr rfl fun a _ => ?_
      split_ifs <;> simp
    · simp [h]
  have h2 : (∑ a, if s = i ∧ nb a = j then - w a else 0) = - (if s = i then 1 else 0) * lleRow nb w j := by
    by_cases h : s = i
    · simp only [h, true_and, if_true, neg_mul, one_mul, lleRow]
      rw [← Finset.sum_neg_distrib]
      refine Finset.sum_congr rfl fun a _ => ?_
      split_ifs <;> simp
    · simp [h]
  have h3 : (∑ a, ∑ b, if nb a = i ∧ nb b = j then w a * w b else 0) = lleRow nb w i * lleRow nb w j := by
    rw [lleRow, lleRow, sum_ite_mul_sum_ite]
  rw [h1, h2, h3]
  by_cases hi : s = i
  · subst hi
    by_cases hj : s = j
    · subst hj
      simp
      ring
    · simp [hj]
      ring
  · by_cases hj : s = j
    · subst hj
      simp [hi]
      ring
    · simp [hi, hj]

theorem smul_one_apply_eq_sum [Field K] (shift : K) (i j : Fin N) :
    (shift • (1 : Matrix (Fin N) (Fin N) K)) i j = ∑ s : Fin N, if s = i ∧ s = j then shift else 0 := by
  rw [Matrix.smul_apply, Matrix.one_apply]
  by_cases h : i = j
  · subst h
    simp
  · have : ∀ s : Fin N, ¬ (s = i ∧ s = j) := fun s hs => h (hs.1.symm.trans hs.2)
    simp [h, this]

theorem lleM_apply [Field K] (nb : Fin N → Fin k → Fin N) (wraw : Fin N → Vec k K) (shift : K) (i j : Fin N) :
    lleM nb wraw shift i j
      = ∑ s, fromTriplets (lleTripletsAt s (nb s) (lleWeights (wraw s)) shift) i j := by
  simp only [lleM, lleTriplets, fromTriplets_overFin]
  rfl

theorem lleM_toM [Field K] (nb : Fin N → Fin k → Fin N) (wraw : Fin N → Vec k K) (shift : K) :
    Mat.toM (lleM nb wraw shift)
      = (1 - lleW nb (fun i => lleWeights (wraw i)))ᵀ * (1 - lleW nb (fun i => lleWeights (wraw i)))
        + shift • (1 : Matrix (Fin N) (Fin N) K) := by
  ext i j
  rw [Mat.toM_apply, lleM_apply, Matrix.add_apply, smul_one_apply_eq_sum, Matrix.mul_apply,
    ← Finset.sum_add_distrib]
  refine Finset.sum_congr rfl fun s _ => ?_
  rw [fromTriplets_lleTripletsAt, Matrix.transpose_apply, Matrix.sub_apply, Matrix.sub_apply,
    Matrix.one_apply, Matrix.one_apply, lleW_apply, lleW_apply]

theorem lleWeights_apply [Field K] (wraw : Vec k K) (a : Fin k) :
    lleWeights wraw a = wraw a / ∑ b, wraw b := by
  simp only [lleWeights, lleWeightsD, DVec.get_ofFn, sumFin_eq_sum]

theorem lleWeights_sum [Field K] (wraw : Vec k K) (h : sumFin k wraw ≠ 0) :
    ∑ a, lleWeights wraw a = 1 := by
  rw [sumFin_eq_sum] at h
  simp only [lleWeights_apply]
  rw [← Finset.sum_div, div_self h]

theorem lleRow_sum [Field K] (nb : Fin k → Fin N) (w : Vec k K) : ∑ j, lleRow nb w j = ∑ a, w a := by
  simp only [lleRow]
  rw [Finset.sum_comm]
  simp

/-! ### the local system handed to `ldlt()` -/

theorem lleSystem_apply [Field K] (κ : Mat N N K) (i : Fin N) (nb : Fin k → Fin N) (tshift : K) (a b : Fin k) :
    lleSystem κ i nb tshift a b
      = Mat.upperView (addDiag (tshift * Mat.trace (lleLocalGram κ i nb)) (lleLocalGram κ i nb)) a b := by
  simp only [lleSystem, lleSystemD, DMat.get_ofFn]

theorem lleLocalGram_trace [Field K] (κ : Mat N N K) (i : Fin N) (nb : Fin k → Fin N) :
    Mat.trace (lleLocalGram κ i nb) = ∑ c, (κ i i - κ i (nb c) - κ i (nb c) + κ (nb c) (nb c)) := by
  rw [Mat.trace_eq]
  simp [lleLocalGram]

/-! ### LTSA -/

/-- selection matrix of a neighbour list: column `a` is the unit vector `e_{nb a}` -/
def S [Field K] (nb : Fin k → Fin N) : Matrix (Fin N) (Fin k) K := fun j a => if nb a = j then 1 else 0

theorem S_mul_mul_transpose_apply [Field K] (nb : Fin k → Fin N) (Q : Matrix (Fin k) (Fin k) K) (i j : Fin N) :
    (S nb * Q * (S nb)ᵀ : Matrix (Fin N) (Fin N) K) i j = ∑ a, ∑ b, if nb a = i ∧ nb b = j then Q a b else 0 := by
  simp only [Matrix.mul_apply, Matrix.transpose_apply, S, Finset.sum_mul]
  rw [Finset.sum_comm]
  refine Finset.sum_congr rfl fun a _ => Finset.sum_congr rfl fun b _ => ?_
  by_cases h1 : nb a = i <;> by_cases h2 : nb b = j <;> simp [h1, h2]

theorem S_transpose_mulVec [Field K] (nb : Fin k → Fin N) (v : Fin N → K) :
    (S nb : Matrix (Fin N) (Fin k) K)ᵀ.mulVec v = fun a => v (nb a) := by
  funext a
  simp [Matrix.mulVec, dotProduct, S, Matrix.transpose_apply]

/-- the triplets pushed for sample `s` assemble to `S (I − P) Sᵀ + shift·e_s e_sᵀ` -/
theorem fromTriplets_ltsaTripletsAt [Field K] (s : Fin N) (nb : Fin k → Fin N) (P : Mat k k K) (shift : K)
    (i j : Fin N) :
    fromTriplets (ltsaTripletsAt s nb P shift) i j
      = (S nb * (1 - Mat.toM P) * (S nb)ᵀ : Matrix (Fin N) (Fin N) K) i j
        + (if s = i ∧ s = j then shift else 0) := by
  simp only [ltsaTripletsAt, fromTriplets_cons, fromTriplets_flatMap_finRange, fromTriplets_map_finRange,
    tripletAt]
  rw [S_mul_mul_transpose_apply, add_comm]
  congr 1
  refine Finset.sum_congr rfl fun a _ => ?_
  have key : ∀ b, (if nb a = i ∧ nb b = j then (1 - Mat.toM P) a b else 0)
      = (if a = b then (if nb a = i ∧ nb b = j then (1 : K) else 0) else 0)
        + (if nb a = i ∧ nb b = j then - P a b else 0) := by
    intro b
    rw [Matrix.sub_apply, Matrix.one_apply, Mat.toM_apply]
    split_ifs <;> ring
  simp only [key, Finset.sum_add_distrib, Finset.sum_ite_eq, Finset.mem_univ, if_true]

theorem ltsaM_apply [Field K] (nb : Fin N → Fin k → Fin N) (rsk : K) (U : Fin N → Mat k d K) (shift : K)
    (i j : Fin N) :
    ltsaM nb rsk U shift i j
      = ∑ s, fromTriplets (ltsaTripletsAt s (nb s) (ltsaProj rsk (U s)) shift) i j := by
  simp only [ltsaM, ltsaTriplets, fromTriplets_overFin]
  rfl

theorem ltsaM_toM [Field K] (nb : Fin N → Fin k → Fin N) (rsk : K) (U : Fin N → Mat k d K) (shift : K) :
    Mat.toM (ltsaM nb rsk U shift)
      = (∑ i, S (nb i) * (1 - Mat.toM (ltsaProj rsk (U i))) * (S (nb i))ᵀ)
        + shift • (1 : Matrix (Fin N) (Fin N) K) := by
  ext i j
  rw [Mat.toM_apply, ltsaM_apply, Matrix.add_apply, Matrix.sum_apply, smul_one_apply_eq_sum,
    ← Finset.sum_add_distrib]
  refine Finset.sum_congr rfl fun s _ => ?_
  rw [fromTriplets_ltsaTripletsAt]

theorem ltsaG_zero [Field K] (rsk : K) (U : Mat k d K) (a : Fin k) : ltsaG rsk U a 0 = rsk := by
  simp [ltsaG]

theorem ltsaG_succ [Field K] (rsk : K) (U : Mat k d K) (a : Fin k) (c : Fin d) :
    ltsaG rsk U a c.succ = U a c := by
  simp [ltsaG]

theorem ltsaProj_toM [Field K] (rsk : K) (U : Mat k d K) :
    Mat.toM (ltsaProj rsk U) = Mat.toM (ltsaG rsk U) * (Mat.toM (ltsaG rsk U))ᵀ := by
  simp only [ltsaProj, ltsaProjD, DMat.get_ofFn]
  rw [Mat.mul_eq, Mat.transpose_eq]

theorem ltsaProj_apply [Field K] (rsk : K) (U : Mat k d K) (a b : Fin k) :
    ltsaProj rsk U a b = rsk * rsk + ∑ c, U a c * U b c := by
  simp only [ltsaProj, ltsaProjD, DMat.get_ofFn, Mat.mul_apply', Mat.transpose]
  rw [Fin.sum_univ_succ]
  simp only [ltsaG_zero, ltsaG_succ]

/-- a vector whose restriction to every neighbourhood is annihilated by `I − P_s` is in the null space of
    the alignment matrix (before the diagonal shift) -/
theorem ltsa_null_of_local [Field K] (nb : Fin N → Fin k → Fin N) (rsk : K) (U : Fin N → Mat k d K) (shift : K)
    (v : Fin N → K)
    (h : ∀ s, (1 - Mat.toM (ltsaProj rsk (U s))).mulVec (fun a => v (nb s a)) = 0) :
    (Mat.toM (ltsaM nb rsk U shift) - shift • (1 : Matrix (Fin N) (Fin N) K)).mulVec v = 0 := by
  rw [ltsaM_toM, add_sub_cancel_right, Matrix.sum_mulVec]
  refine Finset.sum_eq_zero fun s _ => ?_
  rw [← Matrix.mulVec_mulVec, ← Matrix.mulVec_mulVec, S_transpose_mulVec, h s, Matrix.mulVec_zero]

theorem ltsa_local_const [Field K] (rsk : K) (U : Mat k d K)
    (h1 : rsk * rsk * (k : K) = 1) (hU : ∀ c, ∑ a, U a c = 0) :
    (1 - Mat.toM (ltsaProj rsk U)).mulVec (fun _ => (1 : K)) = 0 := by
  funext a
  rw [Matrix.sub_mulVec, Matrix.one_mulVec, Pi.sub_apply, Pi.zero_apply]
  simp only [Matrix.mulVec, dotProduct, mul_one, Mat.toM_apply, ltsaProj_apply]
  rw [Finset.sum_add_distrib, Finset.sum_comm]
  simp only [← Finset.mul_sum, hU, mul_zero, Finset.sum_const_zero, Finset.sum_const, Finset.card_univ,
    Fintype.card_fin, nsmul_eq_mul, add_zero]
  linear_combination -h1

/-! ### LTSA on a flat manifold: local affine functions are annihilated -/

theorem ltsa_rsk_ne_zero [Field K] (rsk : K) (U : Mat k d K)
    (horth : (Mat.toM (ltsaG rsk U))ᵀ * Mat.toM (ltsaG rsk U) = 1) : rsk ≠ 0 := by
  intro h0
  have := congrFun (congrFun horth 0) 0
  simp [Matrix.mul_apply, ltsaG_zero, h0] at this

theorem ltsa_local_range [Field K] (rsk : K) (U : Mat k d K)
    (horth : (Mat.toM (ltsaG rsk U))ᵀ * Mat.toM (ltsaG rsk U) = 1) (y : Fin (d + 1) → K) :
    (1 - Mat.toM (ltsaProj rsk U)).mulVec ((Mat.toM (ltsaG rsk U)).mulVec y) = 0 := by
  rw [Matrix.mulVec_mulVec, ltsaProj_toM, Matrix.sub_mul, Matrix.one_mul, Matrix.mul_assoc, horth,
    Matrix.mul_one, sub_self, Matrix.zero_mulVec]

theorem ltsa_local_affine [Field K] (rsk : K) (U : Mat k d K)
    (horth : (Mat.toM (ltsaG rsk U))ᵀ * Mat.toM (ltsaG rsk U) = 1) (t0 : K) (C : Fin d → K) :
    (1 - Mat.toM (ltsaProj rsk U)).mulVec (fun a => t0 + ∑ c, U a c * C c) = 0 := by
  have hr := ltsa_rsk_ne_zero rsk U horth
  have : (fun a => t0 + ∑ c, U a c * C c)
      = (Mat.toM (ltsaG rsk U)).mulVec (Fin.cons (t0 / rsk) C : Fin (d + 1) → K) := by
    funext a
    simp only [Matrix.mulVec, dotProduct, Mat.toM_apply]
    rw [Fin.sum_univ_succ]
    simp only [ltsaG_zero, ltsaG_succ, Fin.cons_zero, Fin.cons_succ]
    rw [mul_div_cancel₀ _ hr]
  rw [this]
  exact ltsa_local_range rsk U horth _

/-! ### centerMatrix -/

theorem centerMatrix_apply [Field K] (A : Mat k k K) (i j : Fin k) :
    centerMatrix A i j
      = A i j + (∑ i', ∑ j', A i' j') / ((k * k : Nat) : K) - (∑ i', A i' j) / (k : K) - (∑ i', A i' i) / (k : K) := by
  simp only [centerMatrix, centerMatrixD, DMat.get_ofFn, DVec.get_ofFn, sumFin_eq_sum]

theorem centerMatrix_row_sum [Field K] (A : Mat k k K) (hA : ∀ i j, A i j = A j i) (hk : (k : K) ≠ 0)
    (i : Fin k) : ∑ j, centerMatrix A i j = 0 := by
  simp only [centerMatrix_apply, Finset.sum_add_distrib, Finset.sum_sub_distrib, Finset.sum_const,
    Finset.card_univ, Fintype.card_fin, nsmul_eq_mul, ← Finset.sum_div]
  have hsym : (∑ i', A i' i) = ∑ j, A i j := Finset.sum_congr rfl fun j _ => hA j i
  have hcomm : (∑ j, ∑ i', A i' j) = ∑ i', ∑ j', A i' j' := Finset.sum_comm
  rw [hsym, hcomm]
  push_cast
  field_simp
  ring

end TapkeeVerif.LocallyLinear
