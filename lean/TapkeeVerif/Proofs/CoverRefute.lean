import TapkeeVerif.Proofs.CoverPrune
/-!
C02, F-COVER-COPY: the copy-step bound with `query_chi->max_dist` counted **once** is unsound.
Concrete witness (found on the real code, shrunk by the check): 7 samples in 3-D under L∞, `K0 = 3` (k = 2).
Query child `C` = the node of sample 4 (`max_dist = 137692`, samples 4 and 3 below it), its array justified with
`upper_bound[0] = 226927 = δ 4 6`; reference node `n` of sample 1 (`max_dist = 76184`, samples 1 and 2 below it):
`δ 4 1 = 464663 > 226927 + 137692 + 76184`, so the one-`max_dist` test discards `n` — although sample 2 is the
second nearest neighbour of query sample 3.
-/
namespace TapkeeVerif.CoverTree
open List TapkeeVerif.VpTree

/-- the 7 samples -/
def wPts : List (Int × Int × Int) :=
  [(129543, 607790, 800906), (416316, 871053, 692515), (491234, 794869, 659439), (401597, 535238, 915153),
   (263905, 406390, 852059), (56743, 596943, 1039675), (472197, 179463, 701020)]

def absI (x : Int) : Int := if x < 0 then -x else x
def maxI (a b : Int) : Int := if a < b then b else a
def linf3 (a b : Int × Int × Int) : Int := maxI (maxI (absI (a.1 - b.1)) (absI (a.2.1 - b.2.1))) (absI (a.2.2 - b.2.2))

/-- L∞ distance between samples (indices above 6 stand for sample 6, so that `wδ` is a pseudo-metric on all of ℕ) -/
def wδ (a b : Nat) : Int := linf3 (wPts.getD (min a 6) (0, 0, 0)) (wPts.getD (min b 6) (0, 0, 0))

theorem wδ_fin (a b : Nat) : wδ a b = wδ (min a 6) (min b 6) := by
  simp [wδ, Nat.min_assoc]

theorem wδ_metric : IsMetric wδ := by
  have hself : ∀ a : Fin 7, wδ a a = 0 := by decide
  have hsymm : ∀ a b : Fin 7, wδ a b = wδ b a := by decide
  have htri : ∀ a b c : Fin 7, wδ a c ≤ wδ a b + wδ b c := by decide
  have hlt : ∀ a : Nat, min a 6 < 7 := fun a => by omega
  refine ⟨fun x => ?_, fun x y => ?_, fun x y z => ?_⟩
  · rw [wδ_fin]; exact hself ⟨min x 6, hlt x⟩
  · rw [wδ_fin x y, wδ_fin y x]; exact hsymm ⟨min x 6, hlt x⟩ ⟨min y 6, hlt y⟩
  · rw [wδ_fin x z, wδ_fin x y, wδ_fin y z]
    exact htri ⟨min x 6, hlt x⟩ ⟨min y 6, hlt y⟩ ⟨min z 6, hlt z⟩

/-- the query child: sample 4 with samples 4 and 3 below it -/
def wC : CNode Int := .mk 4 137692 201400 4 [.mk 4 0 0 100 [], .mk 3 0 137692 100 []]
/-- the reference node: sample 1 with samples 1 and 2 below it -/
def wN : CNode Int := .mk 1 76184 286773 7 [.mk 1 0 0 100 [], .mk 2 0 76184 100 []]

/-- the array `[δ 4 6, δ 4 0, δ 4 3]` is justified for sample 4 -/
theorem wUb : UBOk wδ (List.range 7) 3 4 [226927, 201400, 137692] [6, 0, 3] := by
  refine ⟨[6, 0, 3], 0, 0, [], ⟨by decide, ?_, by decide, by decide, by decide, ?_, ?_, ?_⟩, by decide⟩
  · have : map (wδ 4) [6, 0, 3] = [226927, 201400, 137692] := by decide
    rw [this]
    exact Perm.refl _
  all_goals (intro h; omega)

/-- sample 2 is near query sample 3: only samples 3 and 4 are strictly closer -/
theorem wNear : Near wδ (List.range 7) 3 3 2 := by
  refine ⟨by decide, ?_⟩
  intro Y hnd hsub hlen
  by_contra hcon
  have hall : ∀ y ∈ Y, y = 3 ∨ y = 4 := by
    intro y hy
    have hlt : wδ 3 y < wδ 3 2 := by
      by_contra hge
      exact hcon ⟨y, hy, le_of_not_gt hge⟩
    have hy7 : y < 7 := List.mem_range.1 (hsub y hy)
    have key : ∀ z : Fin 7, wδ 3 z < wδ 3 2 → z.1 = 3 ∨ z.1 = 4 := by decide
    exact key ⟨y, hy7⟩ hlt
  have hsub2 : Y ⊆ [3, 4] := by
    intro y hy
    rcases hall y hy with rfl | rfl <;> simp
  have := (hnd.subperm hsub2).length_le
  simp at this
  omega

/-- **F-COVER-COPY, Lean-checked**: the soundness statement of the copy step with `query_chi->max_dist` counted
    once (the code before the repair) is false. -/
theorem copy_one_maxDist_refuted :
    ¬ (∀ (δ : Nat → Nat → Int) (pts : List Nat) (K0 : Nat) (C n : CNode Int) (L : List Nat) (ub : List Int)
        (Off : List Nat), IsMetric δ → UBOk δ pts K0 C.p ub Off → (∀ q' ∈ L, δ C.p q' ≤ C.maxDist) →
        (∀ c ∈ n.leaves, δ n.p c ≤ n.maxDist) →
        leInf (δ C.p n.p) (addInf (addInf (ub0 K0 ub) C.maxDist) n.maxDist) = false →
        ∀ q' ∈ L, ∀ c ∈ n.leaves, ¬ Near δ pts K0 q' c) := by
  intro h
  have := h wδ (List.range 7) 3 wC wN [4, 3] [226927, 201400, 137692] [6, 0, 3] wδ_metric wUb
    (by decide) (by decide) (by decide) 3 (by decide) 2 (by decide)
  exact this wNear

end TapkeeVerif.CoverTree
