import TapkeeVerif.Proofs.QuadTreeInsert
/-!
Consequences of the invariant `WF` for what the tree *stores* (C18): `fillList`, `getAllIndices`, `isCorrect`,
the geometric route `locate`.
-/
namespace TapkeeVerif.QuadTree

variable {K : Type} [Field K] [LinearOrder K] [IsStrictOrderedRing K]
set_option linter.unusedSectionVars false

/-- `fill` over any index list: the accepted points are those inside the node's closed cell, in order -/
theorem fillList_spec (data : Nat → K × K) (fuel : Nat) :
    ∀ (js : List Nat) (t : Tree K) (ps : List (K × K)) (t' : Tree K), WF data t ps →
      fillList data fuel t js = some t' →
      WF data t' (ps ++ (js.map data).filter fun p => t.cell.containsPoint p) ∧ t'.cell = t.cell := by
  intro js
  induction js with
  | nil =>
    intro t ps t' hwf h
    simp only [fillList, Option.some.injEq] at h
    subst h
    simpa using hwf
  | cons j js ih =>
    intro t ps t' hwf h
    simp only [fillList] at h
    cases hi : insert data fuel t j with
    | none => simp [hi] at h
    | some r =>
      obtain ⟨t1, ok⟩ := r
      simp only [hi] at h
      have S := insert_spec data fuel t ps j hwf _ hi
      cases hc : t.cell.containsPoint (data j) with
      | false =>
        have e := S.1 hc
        simp only [Prod.mk.injEq] at e
        obtain ⟨rfl, rfl⟩ := e
        have := ih _ _ _ hwf h
        simpa [List.filter, hc] using this
      | true =>
        obtain ⟨-, hwf1, hcell⟩ := S.2 hc
        simp only at hwf1 hcell
        obtain ⟨h1, h2⟩ := ih _ _ _ hwf1 h
        rw [hcell] at h1
        refine ⟨?_, h2.trans hcell⟩
        simpa [List.filter, hc, List.append_assoc] using h1

/-- the coordinates of the points the root accepts, in insertion order -/
def acceptedPts (data : Nat → K × K) (root : Cell K) (is : List Nat) : List (K × K) :=
  (is.map data).filter fun p => root.containsPoint p

/-- the tree built from an empty root over the index list `is` -/
theorem buildIn_WF (data : Nat → K × K) (fuel : Nat) (root : Cell K) (is : List Nat) (t : Tree K)
    (h : buildIn data fuel root is = some t) : WF data t (acceptedPts data root is) ∧ t.cell = root := by
  have := fillList_spec data fuel is (emptyLeaf root) [] t (WF_emptyLeaf data root) h
  simpa [acceptedPts] using this

/-! ### only inserted indices are stored -/

/-- every stored index satisfies `S` -/
def AllIn (S : Nat → Prop) (t : Tree K) : Prop := ∀ j ∈ allIndices t, S j

theorem AllIn_emptyLeaf (S : Nat → Prop) (b : Cell K) : AllIn S (emptyLeaf b) := by
  intro j hj; simp [emptyLeaf, allIndices] at hj

theorem AllIn_node (S : Nat → Prop) (b : Cell K) (cum : Nat) (com : K × K) (nw ne sw se : Tree K) :
    AllIn S (.node b cum com nw ne sw se) ↔ AllIn S nw ∧ AllIn S ne ∧ AllIn S sw ∧ AllIn S se := by
  simp only [AllIn, allIndices, List.mem_append]
  constructor
  · intro h
    exact ⟨fun j hj => h j (Or.inl (Or.inl (Or.inl hj))), fun j hj => h j (Or.inl (Or.inl (Or.inr hj))),
      fun j hj => h j (Or.inl (Or.inr hj)), fun j hj => h j (Or.inr hj)⟩
  · rintro ⟨h1, h2, h3, h4⟩ j (((hj | hj) | hj) | hj)
    · exact h1 j hj
    · exact h2 j hj
    · exact h3 j hj
    · exact h4 j hj

theorem tryChildren_allIn (S : Nat → Prop) (ins : Tree K → Option (Tree K × Bool))
    (hins : ∀ c r, AllIn S c → ins c = some r → AllIn S r.1) (nw ne sw se : Tree K)
    (h1 : AllIn S nw) (h2 : AllIn S ne) (h3 : AllIn S sw) (h4 : AllIn S se)
    (res : (Tree K × Tree K × Tree K × Tree K) × Bool) (h : tryChildren ins nw ne sw se = some res) :
    AllIn S res.1.1 ∧ AllIn S res.1.2.1 ∧ AllIn S res.1.2.2.1 ∧ AllIn S res.1.2.2.2 := by
  unfold tryChildren at h
  cases e1 : ins nw with
  | none => simp [e1] at h
  | some r1 =>
    have a1 := hins _ _ h1 e1
    obtain ⟨t1, b1⟩ := r1
    cases b1 with
    | true => simp only [e1, Option.some.injEq] at h; subst h; exact ⟨a1, h2, h3, h4⟩
    | false =>
      simp only [e1] at h
      cases e2 : ins ne with
      | none => simp [e2] at h
      | some r2 =>
        have a2 := hins _ _ h2 e2
        obtain ⟨t2, b2⟩ := r2
        cases b2 with
        | true => simp only [e2, Option.some.injEq] at h; subst h; exact ⟨a1, a2, h3, h4⟩
        | false =>
          simp only [e2] at h
          cases e3 : ins sw with
          | none => simp [e3] at h
          | some r3 =>
            have a3 := hins _ _ h3 e3
            obtain ⟨t3, b3⟩ := r3
            cases b3 with
            | true => simp only [e3, Option.some.injEq] at h; subst h; exact ⟨a1, a2, a3, h4⟩
            | false =>
              simp only [e3] at h
              cases e4 : ins se with
              | none => simp [e4] at h
              | some r4 =>
                have a4 := hins _ _ h4 e4
                simp only [e4, Option.some.injEq] at h; subst h; exact ⟨a1, a2, a3, a4⟩

theorem handDown_allIn (S : Nat → Prop) (ins : Tree K → Option (Tree K × Bool))
    (hins : ∀ c r, AllIn S c → ins c = some r → AllIn S r.1) :
    ∀ (n : Nat) (nw ne sw se : Tree K), AllIn S nw → AllIn S ne → AllIn S sw → AllIn S se →
      ∀ res, handDown ins n (nw, ne, sw, se) = some res →
        AllIn S res.1 ∧ AllIn S res.2.1 ∧ AllIn S res.2.2.1 ∧ AllIn S res.2.2.2 := by
  intro n
  induction n with
  | zero =>
    intro nw ne sw se h1 h2 h3 h4 res h
    simp only [handDown, Option.some.injEq] at h
    subst h; exact ⟨h1, h2, h3, h4⟩
  | succ n ih =>
    intro nw ne sw se h1 h2 h3 h4 res h
    simp only [handDown] at h
    cases e : tryChildren ins nw ne sw se with
    | none => simp [e] at h
    | some k =>
      obtain ⟨⟨a, b, c, d⟩, ok⟩ := k
      simp only [e] at h
      obtain ⟨a1, a2, a3, a4⟩ := tryChildren_allIn S ins hins nw ne sw se h1 h2 h3 h4 _ e
      exact ih a b c d a1 a2 a3 a4 res h

/-- `insert` stores nothing but residents it already had and the new index -/
theorem insert_allIn (data : Nat → K × K) (S : Nat → Prop) : ∀ (fuel : Nat) (t : Tree K) (i : Nat)
    (r : Tree K × Bool), AllIn S t → S i → insert data fuel t i = some r → AllIn S r.1 := by
  intro fuel
  induction fuel with
  | zero =>
    intro t i r ht hi h
    cases t with
    | leaf b cum com res =>
      by_cases hc : b.containsPoint (data i) = false
      · simp only [insert, hc, if_true, Option.some.injEq] at h; subst h; exact ht
      · have hc' : b.containsPoint (data i) = true := by simpa using hc
        cases res with
        | none =>
          simp only [insert, hc', Bool.true_eq_false, if_false, Option.some.injEq] at h; subst h
          intro j hj; simp [allIndices] at hj; subst hj; exact hi
        | some q =>
          by_cases hs : samePoint (data i) (data q) = true
          · simp only [insert, hc', Bool.true_eq_false, if_false, hs, if_true, Option.some.injEq] at h; subst h
            intro j hj; exact ht j (by simpa [allIndices] using hj)
          · have hs' : samePoint (data i) (data q) = false := by simpa using hs
            simp [insert, hc', hs'] at h
    | node b cum com nw ne sw se =>
      by_cases hc : b.containsPoint (data i) = false
      · simp only [insert, hc, if_true, Option.some.injEq] at h; subst h; exact ht
      · have hc' : b.containsPoint (data i) = true := by simpa using hc
        simp [insert, hc'] at h
  | succ f ih =>
    intro t i r ht hi h
    cases t with
    | leaf b cum com res =>
      by_cases hc : b.containsPoint (data i) = false
      · simp only [insert, hc, if_true, Option.some.injEq] at h; subst h; exact ht
      · have hc' : b.containsPoint (data i) = true := by simpa using hc
        cases res with
        | none =>
          simp only [insert, hc', Bool.true_eq_false, if_false, Option.some.injEq] at h; subst h
          intro j hj; simp [allIndices] at hj; subst hj; exact hi
        | some q =>
          by_cases hs : samePoint (data i) (data q) = true
          · simp only [insert, hc', Bool.true_eq_false, if_false, hs, if_true, Option.some.injEq] at h; subst h
            intro j hj; exact ht j (by simpa [allIndices] using hj)
          · have hs' : samePoint (data i) (data q) = false := by simpa using hs
            have hq : S q := ht q (by simp [allIndices])
            simp only [insert, hc', Bool.true_eq_false, if_false, hs', Bool.false_eq_true] at h
            cases h1 : handDown (fun c => insert data f c q) cum
                (emptyLeaf (cellNW b), emptyLeaf (cellNE b), emptyLeaf (cellSW b), emptyLeaf (cellSE b)) with
            | none => simp [h1] at h
            | some k1 =>
              obtain ⟨nw, ne, sw, se⟩ := k1
              obtain ⟨a1, a2, a3, a4⟩ := handDown_allIn S (fun c => insert data f c q)
                (fun c r hc hr => ih c q r hc hq hr) cum _ _ _ _ (AllIn_emptyLeaf S _) (AllIn_emptyLeaf S _)
                (AllIn_emptyLeaf S _) (AllIn_emptyLeaf S _) _ h1
              simp only [h1] at h
              cases h2 : tryChildren (fun c => insert data f c i) nw ne sw se with
              | none => simp [h2] at h
              | some k2 =>
                obtain ⟨⟨nw', ne', sw', se'⟩, ok2⟩ := k2
                obtain ⟨b1, b2, b3, b4⟩ := tryChildren_allIn S (fun c => insert data f c i)
                  (fun c r hc hr => ih c i r hc hi hr) nw ne sw se a1 a2 a3 a4 _ h2
                simp only [h2, Option.some.injEq] at h; subst h
                exact (AllIn_node S _ _ _ _ _ _ _).2 ⟨b1, b2, b3, b4⟩
    | node b cum com nw ne sw se =>
      by_cases hc : b.containsPoint (data i) = false
      · simp only [insert, hc, if_true, Option.some.injEq] at h; subst h; exact ht
      · have hc' : b.containsPoint (data i) = true := by simpa using hc
        obtain ⟨a1, a2, a3, a4⟩ := (AllIn_node S _ _ _ _ _ _ _).1 ht
        simp only [insert, hc', Bool.true_eq_false, if_false] at h
        cases h2 : tryChildren (fun c => insert data f c i) nw ne sw se with
        | none => simp [h2] at h
        | some k2 =>
          obtain ⟨⟨nw', ne', sw', se'⟩, ok2⟩ := k2
          obtain ⟨b1, b2, b3, b4⟩ := tryChildren_allIn S (fun c => insert data f c i)
            (fun c r hc hr => ih c i r hc hi hr) nw ne sw se a1 a2 a3 a4 _ h2
          simp only [h2, Option.some.injEq] at h; subst h
          exact (AllIn_node S _ _ _ _ _ _ _).2 ⟨b1, b2, b3, b4⟩

theorem fillList_allIn (data : Nat → K × K) (S : Nat → Prop) (fuel : Nat) : ∀ (js : List Nat) (t t' : Tree K),
    AllIn S t → (∀ j ∈ js, S j) → fillList data fuel t js = some t' → AllIn S t' := by
  intro js
  induction js with
  | nil => intro t t' ht _ h; simp only [fillList, Option.some.injEq] at h; subst h; exact ht
  | cons j js ih =>
    intro t t' ht hS h
    simp only [fillList] at h
    cases hi : insert data fuel t j with
    | none => simp [hi] at h
    | some r =>
      simp only [hi] at h
      exact ih _ _ (insert_allIn data S fuel t j r ht (hS j (by simp)) hi) (fun k hk => hS k (by simp [hk])) h

/-- every index stored in the built tree is one of the inserted indices -/
theorem buildIn_stored_sub (data : Nat → K × K) (fuel : Nat) (root : Cell K) (is : List Nat) (t : Tree K)
    (h : buildIn data fuel root is = some t) : ∀ j ∈ allIndices t, j ∈ is :=
  fillList_allIn data (fun j => j ∈ is) fuel is _ t (AllIn_emptyLeaf _ root) (fun _ hj => hj) h

/-! ### stored points and routes -/

/-- the coordinates of a stored index are among the node's accepted points -/
theorem stored_mem (data : Nat → K × K) : ∀ (t : Tree K) (ps : List (K × K)), WF data t ps →
    ∀ j ∈ allIndices t, data j ∈ ps := by
  intro t
  induction t with
  | leaf b cum com res =>
    intro ps hwf j hj
    cases res with
    | none => simp [allIndices] at hj
    | some r =>
      simp only [WF] at hwf
      obtain ⟨hne, -, -, hall⟩ := hwf
      simp only [allIndices, List.mem_singleton] at hj
      subst hj
      obtain ⟨q, hq⟩ := List.exists_mem_of_ne_nil ps hne
      rw [← (hall q hq).2]; exact hq
  | node b cum com nw ne sw se ih1 ih2 ih3 ih4 =>
    intro ps hwf j hj
    simp only [WF] at hwf
    obtain ⟨-, -, -, -, -, -, -, -, w1, w2, w3, w4⟩ := hwf
    simp only [allIndices, List.mem_append] at hj
    rcases hj with ((hj | hj) | hj) | hj
    · exact (List.mem_filter.1 (ih1 _ w1 j hj)).1
    · exact (List.mem_filter.1 (ih2 _ w2 j hj)).1
    · exact (List.mem_filter.1 (ih3 _ w3 j hj)).1
    · exact (List.mem_filter.1 (ih4 _ w4 j hj)).1

/-- a stored index satisfies the route predicate of the child it is stored under -/
theorem allIndices_route (data : Nat → K × K) (t : Tree K) (l : List (K × K)) (f : K × K → Bool)
    (h : WF data t (l.filter f)) : ∀ j ∈ allIndices t, f (data j) = true := by
  intro j hj
  exact (List.mem_filter.1 (stored_mem data t _ h j hj)).2

/-- stored points have pairwise different coordinates (in particular no index is stored twice) -/
theorem allIndices_pairwise (data : Nat → K × K) : ∀ (t : Tree K) (ps : List (K × K)), WF data t ps →
    (allIndices t).Pairwise fun a c => data a ≠ data c := by
  intro t
  induction t with
  | leaf b cum com res =>
    intro ps _
    cases res <;> simp [allIndices]
  | node b cum com nw ne sw se ih1 ih2 ih3 ih4 =>
    intro ps hwf
    simp only [WF] at hwf
    obtain ⟨-, -, -, -, -, -, -, -, w1, w2, w3, w4⟩ := hwf
    have r1 := allIndices_route data nw _ _ w1
    have r2 := allIndices_route data ne _ _ w2
    have r3 := allIndices_route data sw _ _ w3
    have r4 := allIndices_route data se _ _ w4
    simp only [allIndices, List.pairwise_append, List.mem_append]
    refine ⟨⟨⟨ih1 _ w1, ih2 _ w2, ?_⟩, ih3 _ w3, ?_⟩, ih4 _ w4, ?_⟩
    · intro a ha c hc heq
      have h1 := r1 a ha; have h2 := r2 c hc
      simp only [rNW, rNE, heq] at h1 h2
      simp [h1] at h2
    · intro a ha c hc heq
      have h3 := r3 c hc
      rcases ha with ha | ha
      · have h1 := r1 a ha
        simp only [rNW, rSW, heq] at h1 h3
        simp [h1] at h3
      · have h2 := r2 a ha
        simp only [rNE, rSW, heq] at h2 h3
        simp only [Bool.and_eq_true, Bool.not_eq_true'] at h2 h3
        rw [h2.2] at h3
        exact absurd h3.1.2 (by simp)
    · intro a ha c hc heq
      have h4 := r4 c hc
      simp only [rSE, Bool.and_eq_true, Bool.not_eq_true'] at h4
      rcases ha with (ha | ha) | ha
      · have h1 := r1 a ha
        simp only [rNW, heq] at h1
        rw [h1] at h4
        exact absurd h4.1.1.1 (by simp)
      · have h2 := r2 a ha
        simp only [rNE, heq, Bool.and_eq_true, Bool.not_eq_true'] at h2
        rw [h2.2] at h4
        exact absurd h4.1.1.2 (by simp)
      · have h3 := r3 a ha
        simp only [rSW, heq, Bool.and_eq_true, Bool.not_eq_true'] at h3
        rw [h3.2] at h4
        exact absurd h4.1.2 (by simp)

theorem allIndices_nodup (data : Nat → K × K) (t : Tree K) (ps : List (K × K)) (h : WF data t ps) :
    (allIndices t).Nodup :=
  (allIndices_pairwise data t ps h).imp fun hne heq => hne (by rw [heq])

/-- exactly one route predicate holds for a point of the parent's closed cell -/
theorem route_cases (b : Cell K) (p : K × K) (h : b.containsPoint p = true) :
    rNW b p = true ∨ rNE b p = true ∨ rSW b p = true ∨ rSE b p = true := by
  have hc := children_cover b p h
  simp only [rNW, rNE, rSW, rSE]
  cases h1 : (cellNW b).containsPoint p <;> cases h2 : (cellNE b).containsPoint p <;>
    cases h3 : (cellSW b).containsPoint p <;> cases h4 : (cellSE b).containsPoint p <;> simp_all

/-- every accepted point is represented: its geometric route ends in a leaf whose resident has exactly these
    coordinates (the point itself, or the one it coincides with) -/
theorem represented (data : Nat → K × K) : ∀ (t : Tree K) (ps : List (K × K)), WF data t ps →
    ∀ p ∈ ps, ∃ r ∈ allIndices t, data r = p ∧ locate p t = some r := by
  intro t
  induction t with
  | leaf b cum com res =>
    intro ps hwf p hp
    cases res with
    | none =>
      simp only [WF] at hwf
      simp [hwf.1] at hp
    | some r =>
      simp only [WF] at hwf
      obtain ⟨-, -, -, hall⟩ := hwf
      obtain ⟨hc, he⟩ := hall p hp
      exact ⟨r, by simp [allIndices], he.symm, by simp [locate, hc]⟩
  | node b cum com nw ne sw se ih1 ih2 ih3 ih4 =>
    intro ps hwf p hp
    simp only [WF] at hwf
    obtain ⟨-, -, hall, -, e1, e2, e3, e4, w1, w2, w3, w4⟩ := hwf
    have hcp := hall p hp
    rcases route_cases b p hcp with h | h | h | h
    · obtain ⟨s, hs, hd, hl⟩ := ih1 _ w1 p (List.mem_filter.2 ⟨hp, h⟩)
      refine ⟨s, by simp [allIndices, hs], hd, ?_⟩
      simp only [rNW] at h
      simp [locate, hcp, e1, h, hl]
    · obtain ⟨s, hs, hd, hl⟩ := ih2 _ w2 p (List.mem_filter.2 ⟨hp, h⟩)
      refine ⟨s, by simp [allIndices, hs], hd, ?_⟩
      simp only [rNE, Bool.and_eq_true, Bool.not_eq_true'] at h
      simp [locate, hcp, e1, e2, h.1, h.2, hl]
    · obtain ⟨s, hs, hd, hl⟩ := ih3 _ w3 p (List.mem_filter.2 ⟨hp, h⟩)
      refine ⟨s, by simp [allIndices, hs], hd, ?_⟩
      simp only [rSW, Bool.and_eq_true, Bool.not_eq_true'] at h
      simp [locate, hcp, e1, e2, e3, h.1.1, h.1.2, h.2, hl]
    · obtain ⟨s, hs, hd, hl⟩ := ih4 _ w4 p (List.mem_filter.2 ⟨hp, h⟩)
      refine ⟨s, by simp [allIndices, hs], hd, ?_⟩
      simp only [rSE, Bool.and_eq_true, Bool.not_eq_true'] at h
      simp [locate, hcp, e1, e2, e3, h.1.1.1, h.1.1.2, h.1.2, hl]

/-- `isCorrect()` holds on every reachable tree -/
theorem isCorrect_of_WF (data : Nat → K × K) : ∀ (t : Tree K) (ps : List (K × K)), WF data t ps →
    isCorrect data t = true := by
  intro t
  induction t with
  | leaf b cum com res =>
    intro ps hwf
    cases res with
    | none => simp [isCorrect]
    | some r =>
      simp only [WF] at hwf
      obtain ⟨hne, -, -, hall⟩ := hwf
      obtain ⟨q, hq⟩ := List.exists_mem_of_ne_nil ps hne
      have := hall q hq
      simpa [isCorrect, ← this.2] using this.1
  | node b cum com nw ne sw se ih1 ih2 ih3 ih4 =>
    intro ps hwf
    simp only [WF] at hwf
    obtain ⟨-, -, -, -, -, -, -, -, w1, w2, w3, w4⟩ := hwf
    simp [isCorrect, ih1 _ w1, ih2 _ w2, ih3 _ w3, ih4 _ w4]

end TapkeeVerif.QuadTree
