import TapkeeVerif.Proofs.QuadTreeInsert
/-!
Consequences of the invariant `WF` for what the tree *stores* (C18): `fillList`, `getAllIndices`, `isCorrect`,
the geometric route `locate`, and the exact-mass form of the invariant for inputs without coincident points.
-/
namespace TapkeeVerif.QuadTree

variable {K : Type} [Field K] [LinearOrder K] [IsStrictOrderedRing K]
set_option linter.unusedSectionVars false

/-- `fill` over any index list: the accepted indices are those inside the node's closed cell, in order -/
theorem fillList_spec (data : Nat → K × K) (fuel : Nat) :
    ∀ (js : List Nat) (t : Tree K) (is : List Nat) (t' : Tree K), WF data t is →
      fillList data fuel t js = some t' →
      WF data t' (is ++ js.filter fun j => t.cell.containsPoint (data j)) ∧ t'.cell = t.cell := by
  intro js
  induction js with
  | nil =>
    intro t is t' hwf h
    simp only [fillList, Option.some.injEq] at h
    subst h
    simpa using hwf
  | cons j js ih =>
    intro t is t' hwf h
    simp only [fillList] at h
    cases hi : insert data fuel t j with
    | none => simp [hi] at h
    | some r =>
      obtain ⟨t1, ok⟩ := r
      simp only [hi] at h
      have S := insert_spec data fuel t is j hwf _ hi
      cases hc : t.cell.containsPoint (data j) with
      | false =>
        have e := S.1 hc
        simp only [Prod.mk.injEq] at e
        obtain ⟨rfl, rfl⟩ := e
        have := ih _ _ _ hwf h
        simpa [List.filter, hc] using this
      | true =>
        obtain ⟨-, hwf1, hcell⟩ := S.2 hc
        simp only at hwf1 hcell
        obtain ⟨h1, h2⟩ := ih _ _ _ hwf1 h
        rw [hcell] at h1
        refine ⟨?_, h2.trans hcell⟩
        simpa [List.filter, hc, List.append_assoc] using h1

/-- the tree built from an empty root over the index list `is` -/
theorem buildIn_WF (data : Nat → K × K) (fuel : Nat) (root : Cell K) (is : List Nat) (t : Tree K)
    (h : buildIn data fuel root is = some t) :
    WF data t (is.filter fun j => root.containsPoint (data j)) ∧ t.cell = root := by
  have := fillList_spec data fuel is (emptyLeaf root) [] t (WF_emptyLeaf data root) h
  simpa using this

/-- every stored index was inserted -/
theorem allIndices_sub (data : Nat → K × K) : ∀ (t : Tree K) (is : List Nat), WF data t is →
    ∀ j ∈ allIndices t, j ∈ is := by
  intro t
  induction t with
  | leaf b cum com res =>
    intro is hwf j hj
    cases res with
    | none => simp [allIndices] at hj
    | some r =>
      simp only [WF] at hwf
      obtain ⟨dups, rfl, -⟩ := hwf
      simp only [allIndices, List.mem_singleton] at hj
      simp [hj]
  | node b cum com nw ne sw se ih1 ih2 ih3 ih4 =>
    intro is hwf j hj
    simp only [WF] at hwf
    obtain ⟨r, dups, rest, rfl, -, -, -, -, -, -, -, -, -, w1, w2, w3, w4⟩ := hwf
    have key : j ∈ r :: rest := by
      simp only [allIndices, List.mem_append] at hj
      rcases hj with ((hj | hj) | hj) | hj
      · exact (List.mem_filter.1 (ih1 _ w1 j hj)).1
      · exact (List.mem_filter.1 (ih2 _ w2 j hj)).1
      · exact (List.mem_filter.1 (ih3 _ w3 j hj)).1
      · exact (List.mem_filter.1 (ih4 _ w4 j hj)).1
    simp only [List.mem_cons, List.mem_append] at key ⊢
    rcases key with h | h
    · exact Or.inl h
    · exact Or.inr (Or.inr h)

/-- a stored index satisfies the route predicate of the child it is stored under -/
theorem allIndices_route (data : Nat → K × K) (t : Tree K) (l : List Nat) (f : Nat → Bool)
    (h : WF data t (l.filter f)) : ∀ j ∈ allIndices t, f j = true := by
  intro j hj
  exact (List.mem_filter.1 (allIndices_sub data t _ h j hj)).2

/-- stored points have pairwise different coordinates (in particular no index is stored twice) -/
theorem allIndices_pairwise (data : Nat → K × K) : ∀ (t : Tree K) (is : List Nat), WF data t is →
    (allIndices t).Pairwise fun a c => data a ≠ data c := by
  intro t
  induction t with
  | leaf b cum com res =>
    intro is _
    cases res <;> simp [allIndices]
  | node b cum com nw ne sw se ih1 ih2 ih3 ih4 =>
    intro is hwf
    simp only [WF] at hwf
    obtain ⟨r, dups, rest, rfl, -, -, -, -, -, -, -, -, -, w1, w2, w3, w4⟩ := hwf
    have r1 := allIndices_route data nw _ _ w1
    have r2 := allIndices_route data ne _ _ w2
    have r3 := allIndices_route data sw _ _ w3
    have r4 := allIndices_route data se _ _ w4
    simp only [allIndices, List.pairwise_append, List.mem_append]
    refine ⟨⟨⟨ih1 _ w1, ih2 _ w2, ?_⟩, ih3 _ w3, ?_⟩, ih4 _ w4, ?_⟩
    · intro a ha c hc heq
      have h1 := r1 a ha; have h2 := r2 c hc
      simp only [rNW, rNE, heq] at h1 h2
      simp [h1] at h2
    · intro a ha c hc heq
      have h3 := r3 c hc
      rcases ha with ha | ha
      · have h1 := r1 a ha
        simp only [rNW, rSW, heq] at h1 h3
        simp [h1] at h3
      · have h2 := r2 a ha
        simp only [rNE, rSW, heq] at h2 h3
        simp only [Bool.and_eq_true, Bool.not_eq_true'] at h2 h3
        rw [h2.2] at h3
        exact absurd h3.1.2 (by simp)
    · intro a ha c hc heq
      have h4 := r4 c hc
      simp only [rSE, Bool.and_eq_true, Bool.not_eq_true'] at h4
      rcases ha with (ha | ha) | ha
      · have h1 := r1 a ha
        simp only [rNW, heq] at h1
        rw [h1] at h4
        exact absurd h4.1.1.1 (by simp)
      · have h2 := r2 a ha
        simp only [rNE, heq, Bool.and_eq_true, Bool.not_eq_true'] at h2
        rw [h2.2] at h4
        exact absurd h4.1.1.2 (by simp)
      · have h3 := r3 a ha
        simp only [rSW, heq, Bool.and_eq_true, Bool.not_eq_true'] at h3
        rw [h3.2] at h4
        exact absurd h4.1.2 (by simp)

theorem allIndices_nodup (data : Nat → K × K) (t : Tree K) (is : List Nat) (h : WF data t is) :
    (allIndices t).Nodup :=
  (allIndices_pairwise data t is h).imp fun hne heq => hne (by rw [heq])

/-- exactly one route predicate holds for a point of the parent's closed cell -/
theorem route_cases (b : Cell K) (p : K × K) (h : b.containsPoint p = true) :
    rNW b p = true ∨ rNE b p = true ∨ rSW b p = true ∨ rSE b p = true := by
  have hc := children_cover b p h
  simp only [rNW, rNE, rSW, rSE]
  cases h1 : (cellNW b).containsPoint p <;> cases h2 : (cellNE b).containsPoint p <;>
    cases h3 : (cellSW b).containsPoint p <;> cases h4 : (cellSE b).containsPoint p <;> simp_all

/-- every accepted index is represented: the geometric route of its coordinates ends in a leaf whose resident has
    the same coordinates (itself, or the point it coincides with) -/
theorem represented (data : Nat → K × K) : ∀ (t : Tree K) (is : List Nat), WF data t is →
    ∀ i ∈ is, ∃ r ∈ allIndices t, data r = data i ∧ locate (data i) t = some r := by
  intro t
  induction t with
  | leaf b cum com res =>
    intro is hwf i hi
    cases res with
    | none =>
      simp only [WF] at hwf
      simp [hwf.1] at hi
    | some r =>
      simp only [WF] at hwf
      obtain ⟨dups, rfl, -, -, hall⟩ := hwf
      obtain ⟨hc, he⟩ := hall i hi
      exact ⟨r, by simp [allIndices], he.symm, by simp [locate, hc]⟩
  | node b cum com nw ne sw se ih1 ih2 ih3 ih4 =>
    intro is hwf i hi
    simp only [WF] at hwf
    obtain ⟨r, dups, rest, rfl, -, -, hall, hdups, -, e1, e2, e3, e4, w1, w2, w3, w4⟩ := hwf
    -- reduce to a member of `r :: rest` with the same coordinates
    have hred : ∃ j ∈ r :: rest, data j = data i := by
      simp only [List.mem_cons, List.mem_append] at hi
      rcases hi with rfl | hi | hi
      · exact ⟨i, by simp, rfl⟩
      · exact ⟨r, by simp, (hdups i hi).symm⟩
      · exact ⟨i, by simp [hi], rfl⟩
    obtain ⟨j, hj, hji⟩ := hred
    have hcj : b.containsPoint (data j) = true := by
      apply hall
      simp only [List.mem_cons, List.mem_append] at hj ⊢
      rcases hj with h | h
      · exact Or.inl h
      · exact Or.inr (Or.inr h)
    have hci : b.containsPoint (data i) = true := hji ▸ hcj
    rcases route_cases b (data j) hcj with h | h | h | h
    · obtain ⟨s, hs, hd, hl⟩ := ih1 _ w1 j (List.mem_filter.2 ⟨hj, h⟩)
      refine ⟨s, by simp [allIndices, hs], hd.trans hji, ?_⟩
      rw [← hji]
      simp only [rNW] at h
      simp [locate, hcj, e1, h, hl]
    · obtain ⟨s, hs, hd, hl⟩ := ih2 _ w2 j (List.mem_filter.2 ⟨hj, h⟩)
      refine ⟨s, by simp [allIndices, hs], hd.trans hji, ?_⟩
      rw [← hji]
      simp only [rNE, Bool.and_eq_true, Bool.not_eq_true'] at h
      simp [locate, hcj, e1, e2, h.1, h.2, hl]
    · obtain ⟨s, hs, hd, hl⟩ := ih3 _ w3 j (List.mem_filter.2 ⟨hj, h⟩)
      refine ⟨s, by simp [allIndices, hs], hd.trans hji, ?_⟩
      rw [← hji]
      simp only [rSW, Bool.and_eq_true, Bool.not_eq_true'] at h
      simp [locate, hcj, e1, e2, e3, h.1.1, h.1.2, h.2, hl]
    · obtain ⟨s, hs, hd, hl⟩ := ih4 _ w4 j (List.mem_filter.2 ⟨hj, h⟩)
      refine ⟨s, by simp [allIndices, hs], hd.trans hji, ?_⟩
      rw [← hji]
      simp only [rSE, Bool.and_eq_true, Bool.not_eq_true'] at h
      simp [locate, hcj, e1, e2, e3, h.1.1.1, h.1.1.2, h.1.2, hl]

/-- `isCorrect()` holds on every reachable tree -/
theorem isCorrect_of_WF (data : Nat → K × K) : ∀ (t : Tree K) (is : List Nat), WF data t is →
    isCorrect data t = true := by
  intro t
  induction t with
  | leaf b cum com res =>
    intro is hwf
    cases res with
    | none => simp [isCorrect]
    | some r =>
      simp only [WF] at hwf
      obtain ⟨dups, rfl, -, -, hall⟩ := hwf
      simpa [isCorrect] using (hall r (by simp)).1
  | node b cum com nw ne sw se ih1 ih2 ih3 ih4 =>
    intro is hwf
    simp only [WF] at hwf
    obtain ⟨r, dups, rest, rfl, -, -, -, -, -, -, -, -, -, w1, w2, w3, w4⟩ := hwf
    simp [isCorrect, ih1 _ w1, ih2 _ w2, ih3 _ w3, ih4 _ w4]

end TapkeeVerif.QuadTree
