import TapkeeVerif.Props.C03
import TapkeeVerif.Props.C05
/-!
Glue between the stage models of Isomap (used by `Props/C04Compose.lean`): the types do not meet by themselves —

* C02/C03 speak about `Connected.Graph = List (List Nat)`, C04 about `Dijkstra.Problem` (arrays) — bridged by the
  existing `Connected.problemOf`; here: the `k?` read by `allPairs` on a uniform graph (`problemOf_k?`);
* C04's Dijkstra returns `List (Vector (Option K) N)` (`none` = `dblmax`), C04's `isomapPre` and C05's `post` want a
  `Mat N N K = Fin N → Fin N → K`: `geoEntry` / `geoFinite` / `geoMat`;
* C03's `findNeighbors` takes the search as a function `k ↦ graph`: `bruteSearch` packages C02's `bruteKnn`.
-/
namespace TapkeeVerif.IsomapCompose
open TapkeeVerif TapkeeVerif.Connected TapkeeVerif.Knn

/-- error states of the composed model (each stage's explicit error, plus "a geodesic is `dblmax`") -/
inductive Err where
  /-- `find_neighbors` / `is_connected` indexed outside a vector -/
  | knnOob
  /-- the k-doubling recursion ran out of the model's fuel (never: `findNeighbors_terminates`) -/
  | knnFuel
  /-- an error state of the Dijkstra model -/
  | dijkstra (e : Dijkstra.Err)
  /-- an entry of the geodesic matrix is `numeric_limits<double>::max()`: the code would square it to `inf` and hand
      `inf`/`NaN` to the eigensolver — outside the field model (never with `check_connectivity`: `isomap_end_to_end`) -/
  | infiniteGeodesic
  deriving Repr, DecidableEq

section Geo
variable {K : Type} {N : Nat}

/-- entry `(i, j)` of the row list returned by `Dijkstra.allPairs` -/
def geoEntry (F : List (Vector (Option K) N)) (i j : Fin N) : Option K :=
  match F[i.1]? with
  | some r => r[j.1]
  | none => none

/-- `N` rows and no `dblmax` entry -/
def geoFinite (F : List (Vector (Option K) N)) : Bool :=
  F.length == N && (List.finRange N).all fun i => (List.finRange N).all fun j => (geoEntry F i j).isSome

/-- the geodesic matrix as a function matrix (only read when `geoFinite`) -/
def geoMat [Zero K] (F : List (Vector (Option K) N)) : Mat N N K := fun i j => (geoEntry F i j).getD 0

theorem geoEntry_eq {F : List (Vector (Option K) N)} (i j : Fin N) (h : i.1 < F.length) :
    geoEntry F i j = (F[i.1])[j.1] := by
  unfold geoEntry
  rw [List.getElem?_eq_getElem h]

theorem geoFinite_of {F : List (Vector (Option K) N)} (hlen : F.length = N)
    (h : ∀ s v (hs : s < F.length) (hv : v < N), (F[s])[v] ≠ none) : geoFinite F = true := by
  unfold geoFinite
  simp only [Bool.and_eq_true, beq_iff_eq, List.all_eq_true]
  refine ⟨hlen, fun i _ j _ => ?_⟩
  have hi : i.1 < F.length := by rw [hlen]; exact i.2
  rw [geoEntry_eq i j hi]
  exact Option.isSome_iff_ne_none.2 (h i.1 j.1 hi j.2)

theorem geoMat_spec [Zero K] {F : List (Vector (Option K) N)} (hfin : geoFinite F = true) (i j : Fin N) :
    ∃ hi : i.1 < F.length, (F[i.1])[j.1] = some (geoMat F i j) := by
  unfold geoFinite at hfin
  simp only [Bool.and_eq_true, beq_iff_eq, List.all_eq_true] at hfin
  have hi : i.1 < F.length := by rw [hfin.1]; exact i.2
  refine ⟨hi, ?_⟩
  have h := hfin.2 i (List.mem_finRange i) j (List.mem_finRange j)
  rw [geoEntry_eq i j hi] at h
  unfold geoMat
  rw [geoEntry_eq i j hi]
  obtain ⟨x, hx⟩ := Option.isSome_iff_exists.1 h
  rw [hx]
  rfl

end Geo

/-- the graph of exact `k`-NN lists is uniform (that much of `IsExactKnn` is what C03/C04 read) -/
theorem uniform_of_exact {K : Type} [LE K] [DecidableLE K] {δ : Nat → Nat → K} {g : Graph} {N k : Nat}
    (hlen : g.length = N) (hexact : ∀ u (hu : u < g.length), IsExactKnn δ (List.range N) k u g[u]) :
    Uniform g N k := by
  refine ⟨hlen, ?_⟩
  intro l hl
  obtain ⟨u, hu, rfl⟩ := List.getElem_of_mem hl
  obtain ⟨h1, _, _, h4, _⟩ := hexact u hu
  exact ⟨h1, fun w hw => List.mem_range.1 (h4 w hw)⟩

/-- `n_neighbors = neighbors[0].size()` as read by `compute_shortest_distances_matrix` on a uniform graph -/
theorem problemOf_k? {K : Type} {g : Graph} {N k : Nat} (hu : Uniform g N k) (hN : 0 < N) (w : Nat → Nat → K) :
    (problemOf g N w).k? = some k := by
  have h0 : 0 < g.length := by rw [hu.1]; exact hN
  have hk := (hu.2 _ (List.getElem_mem h0)).1
  unfold Dijkstra.Problem.k? problemOf
  simp [List.getElem?_eq_getElem h0, hk]

/-- C02's brute-force search as the `k ↦ graph` function that C03's `findNeighbors` takes -/
def bruteSearch {K : Type} [LT K] [DecidableLT K] (δ : Nat → Nat → K) (N k : Nat) : Graph :=
  (List.range N).map (bruteKnn δ (List.range N) k)

theorem bruteSearch_length {K : Type} [LT K] [DecidableLT K] (δ : Nat → Nat → K) (N k : Nat) :
    (bruteSearch δ N k).length = N := by
  simp [bruteSearch]

/-- `brute_exact` (C02) for every list of `bruteSearch` -/
theorem bruteSearch_exact {K : Type} [LinearOrder K] {δ : Nat → Nat → K} {N : Nat} (hN : 0 < N)
    (hself : ∀ i j, i < N → j < N → δ i i ≤ δ i j) (k : Nat) (hk : k ≤ N - 1) (u : Nat)
    (hu : u < (bruteSearch δ N k).length) :
    IsExactKnn δ (List.range N) k u (bruteSearch δ N k)[u] := by
  have huN : u < N := by simpa [bruteSearch] using hu
  simp only [bruteSearch, List.getElem_map, List.getElem_range]
  exact brute_exact List.nodup_range (List.mem_range.2 huN) (by simp only [List.length_range]; omega)
    (fun j hj => hself u j huN (List.mem_range.1 hj)) (bruteKnn_admissible δ (List.range N) k u)

end TapkeeVerif.IsomapCompose
