import TapkeeVerif.Proofs.IsomapCompose
import TapkeeVerif.Props.C09
/-!
Glue for `Props/C09Compose.lean`: C02/C03 return a neighbourhood graph as `List (List Nat)`, the model of
`compute_laplacian` (`Model/Laplacian.lean`) reads uniform lists as a function `nb : Fin N → Fin k → Fin N`.
`nbOf` is that reading on a `Uniform` graph (lists of length `k`, entries `< N`); a non-uniform graph is an explicit
error state of the composed model (an out-of-bounds read in the code).
-/
namespace TapkeeVerif.LeCompose
open TapkeeVerif TapkeeVerif.Connected

instance (g : Graph) (N k : Nat) : Decidable (Uniform g N k) := by
  unfold Uniform; exact inferInstance

/-- `neighbors[i][a]` as an index `< N` -/
def nbOf {g : Graph} {N k : Nat} (hu : Uniform g N k) (i : Fin N) (a : Fin k) : Fin N :=
  have hi : i.1 < g.length := by rw [hu.1]; exact i.2
  have hl := hu.2 g[i.1] (List.getElem_mem hi)
  ⟨(g[i.1])[a.1]'(by rw [hl.1]; exact a.2), hl.2 _ (List.getElem_mem _)⟩

theorem nbOf_spec {g : Graph} {N k : Nat} (hu : Uniform g N k) (i : Fin N) (a : Fin k) :
    (g[i.1]?).bind (·[a.1]?) = some (nbOf hu i a).1 := by
  have hi : i.1 < g.length := by rw [hu.1]; exact i.2
  have hl := hu.2 g[i.1] (List.getElem_mem hi)
  have ha : a.1 < g[i.1].length := by rw [hl.1]; exact a.2
  simp [nbOf, List.getElem?_eq_getElem hi, List.getElem?_eq_getElem ha]

/-- an edge of the graph in C03's sense -/
theorem nbOf_edge {g : Graph} {N k : Nat} (hu : Uniform g N k) (i : Fin N) (a : Fin k) :
    Edge g i.1 (nbOf hu i a).1 := by
  have hi : i.1 < g.length := by rw [hu.1]; exact i.2
  exact ⟨g[i.1], List.getElem?_eq_getElem hi, by simp [nbOf]⟩

/-- every edge of the graph is read by `nbOf` -/
theorem edge_nbOf {g : Graph} {N k : Nat} (hu : Uniform g N k) {u w : Nat} (he : Edge g u w) :
    ∃ (i : Fin N) (a : Fin k), i.1 = u ∧ (nbOf hu i a).1 = w := by
  obtain ⟨nb, hnb, hmem⟩ := he
  have hu' : u < g.length := by
    by_contra h
    rw [List.getElem?_eq_none (by omega)] at hnb
    cases hnb
  rw [List.getElem?_eq_getElem hu'] at hnb
  cases hnb
  obtain ⟨a, ha, hget⟩ := List.getElem_of_mem hmem
  have hl := hu.2 g[u] (List.getElem_mem hu')
  exact ⟨⟨u, by rw [← hu.1]; exact hu'⟩, ⟨a, by rw [← hl.1]; exact ha⟩, rfl, by simp [nbOf, hget]⟩

end TapkeeVerif.LeCompose
