import TapkeeVerif.Proofs.CoverBuildLoop
/-!
C02, cover tree construction, part 3: `batch_insert` meets its contract `InsOk` (induction on the recursion depth), and
`batch_create` returns a well-formed tree (`CoverTree.wfTree`, the hypothesis of `cover_query_exact`) that stores every
sample exactly once.

Hypotheses: the callback vanishes on the diagonal and is not negative (every metric; symmetry and the triangle
inequality are not needed here) and `dist_of_scale` is not negative.  That the top level covers the largest distance
from the first point follows from the loop raising the top scale (`Proofs/CoverBuildCreate.lean`, repair F-COVER-TOP).
-/
set_option linter.unusedSectionVars false
namespace TapkeeVerif.CoverBuild
open List TapkeeVerif.CoverTree

variable {K : Type} [LinearOrder K] [AddCommGroup K] [IsOrderedAddMonoid K]
variable {δ : Nat → Nat → K} {getScale : K → Int} {distOfScale : Int → K}

theorem pop_nil {α : Type} {stack : List (List α)} (h : ∀ a ∈ stack, a = []) :
    (pop stack).1 = [] ∧ ∀ a ∈ (pop stack).2, a = [] := by
  cases stack with
  | nil => simp [pop]
  | cons a r =>
    simp only [pop]
    exact ⟨h a mem_cons_self, fun b hb => h b (mem_cons_of_mem _ hb)⟩

theorem setLeafScale_newLeaf (L x : Nat) : setLeafScale L (newLeaf x : CNode K) = .mk x 0 0 L [] := by
  simp [newLeaf, setLeafScale_mk]

theorem wfNode_leaf (hself : ∀ x, δ x x = 0) (x L : Nat) : wfNode δ (.mk x 0 0 L [] : CNode K) = true := by
  rw [wfNode_mk_iff]
  simp [hself]

theorem flatMap_leaves_newLeaf : ∀ (l : List (DS K)),
    (l.map fun e => (newLeaf e.p : CNode K)).flatMap CNode.leaves = pts l
  | [] => rfl
  | e :: r => by
    rw [map_cons, flatMap_cons, flatMap_leaves_newLeaf r]
    simp [newLeaf, CNode.leaves]

/-- the node of coinciding points -/
theorem zeroNode_ok (hself : ∀ x, δ x x = 0) (hnn : ∀ x y, 0 ≤ δ x y) {chain : List Nat} {p : Nat}
    {maxScale topScale : Int} {ps cs : List (DS K)} {stack : List (List (DS K))} {ls : Nat}
    (hps : ∀ e ∈ ps, Chained δ (p :: chain) e) (hst : ∀ a ∈ stack, a = []) (hm : maxSet ps = some 0) :
    InsOk δ distOfScale chain p maxScale topScale ps cs ls
      ⟨.mk p 0 0 100 (newLeaf p :: ps.reverse.map fun e => newLeaf e.p), [], cs ++ ps.reverse, stack, ls⟩ := by
  have hzero : ∀ e ∈ ps, δ p e.p = 0 := fun e he =>
    le_antisymm ((maxSet_chained hps hm).2.1 e he) (hnn _ _)
  refine ⟨by simp, ⟨ps.reverse, rfl, fun e he => hps e (mem_reverse.1 he), ?_, ?_⟩, hst, by simp, le_refl _, ?_, ?_, rfl,
    Or.inr (Or.inl rfl)⟩
  · rw [leaves_node, flatMap_leaves_newLeaf]
    simp [newLeaf, CNode.leaves]
  · simp only [pts, map_nil, append_nil, map_reverse]
    exact reverse_perm _
  · intro L _
    rw [setLeafScale_mk, wfNode_mk_iff]
    simp only [map_cons, map_map, cons.injEq, and_imp]
    refine ⟨?_, by simp [hself], ?_, ?_, ?_⟩
    · rintro c0 rest rfl rfl
      refine ⟨by simp [setLeafScale_newLeaf, CNode.p], ?_⟩
      intro c hc
      simp only [mem_map, mem_reverse, Function.comp] at hc
      obtain ⟨e, he, rfl⟩ := hc
      simp [setLeafScale_newLeaf, CNode.p, CNode.parentDist, hzero e he]
    · intro x hx
      simp only [flatMap_cons, mem_append, mem_flatMap, mem_map, mem_reverse, Function.comp] at hx
      rcases hx with hx | ⟨c, ⟨e, he, rfl⟩, hx⟩
      · simp only [setLeafScale_newLeaf, CNode.leaves, mem_singleton] at hx
        subst hx
        simp [hself]
      · simp only [setLeafScale_newLeaf, CNode.leaves, mem_singleton] at hx
        subst hx
        exact le_of_eq (hzero e he)
    · intro c hc
      right
      simp only [mem_cons, mem_map, mem_reverse, Function.comp] at hc
      rcases hc with rfl | ⟨e, _, rfl⟩ <;> simp [setLeafScale_newLeaf, CNode.children]
    · intro c hc
      simp only [mem_cons, mem_map, mem_reverse, Function.comp] at hc
      rcases hc with rfl | ⟨e, _, rfl⟩ <;> rw [setLeafScale_newLeaf] <;> exact wfNode_leaf hself _ _
  · rw [setLeafScale_mk]
    simp only [map_cons, map_map, isEmpty_cons, Bool.false_or, decide_true, if_true]
    have h1 : setLeafScale 100 (newLeaf p : CNode K) = newLeaf p := by rw [setLeafScale_newLeaf]; rfl
    have h2 : (setLeafScale 100 ∘ fun e : DS K => (newLeaf e.p : CNode K)) = fun e => newLeaf e.p := by
      funext e
      simp only [Function.comp]
      rw [setLeafScale_newLeaf]; rfl
    rw [h1, h2]

/-- the node built after the loop -/
theorem finishNode_ok (hself : ∀ x, δ x x = 0) {chain : List Nat} {p : Nat} {maxScale nextScale topScale : Int}
    (hnext : nextScale ≤ maxScale - 1) {ps cs : List (DS K)} {ls : Nat} {st : LoopSt K} {r : BRes K}
    (hcs : ∀ e ∈ cs, Chained δ (p :: chain) e)
    (h : LoopInv δ distOfScale chain p maxScale nextScale topScale cs (pts ps) ls st) (hnil : st.pointSet = [])
    (hf : finishNode p maxScale topScale st = some r) :
    InsOk δ distOfScale chain p maxScale topScale ps cs ls r := by
  unfold finishNode at hf
  by_cases hsc : topScale - maxScale < 0
  · simp [hsc] at hf
  · simp only [hsc, if_false] at hf
    cases hmd : maxSet st.consumed with
    | none => simp [hmd] at hf
    | some md =>
      simp only [hmd, Option.some.injEq] at hf
      obtain ⟨new, hcons, hnewch, hlv, hconsv⟩ := h.cons
      obtain ⟨c0, rest, hch, hc0, hrest⟩ := h.ch
      have hconsch : ∀ e ∈ st.consumed, Chained δ (p :: chain) e := by
        intro e he
        rw [hcons] at he
        rcases mem_append.1 he with he | he
        · exact hcs e he
        · exact hnewch e he
      obtain ⟨hmd0, hmdle, _⟩ := maxSet_chained hconsch hmd
      have hmdpos : md ≠ 0 := by
        rcases h.pos with ⟨e, he, hpos⟩ | ⟨hne, _⟩
        · exact ne_of_gt (lt_of_lt_of_le hpos (hmdle e he))
        · exact absurd hnil hne
      have hscale : ((topScale - maxScale).toNat : Int) = topScale - maxScale :=
        Int.toNat_of_nonneg (not_lt.1 hsc)
      have hls : (topScale - maxScale).toNat <
          (if st.leafScale ≤ (topScale - maxScale).toNat then (topScale - maxScale).toNat + 1 else st.leafScale) := by
        split <;> omega
      have hls2 : st.leafScale ≤
          (if st.leafScale ≤ (topScale - maxScale).toNat then (topScale - maxScale).toNat + 1 else st.leafScale) := by
        split <;> omega
      obtain ⟨hnp, hnc⟩ := h.new_nil
      subst hf
      refine ⟨h.far_ch, ⟨new, hcons, hnewch, ?_, ?_⟩, ?_, h.far_left, le_trans h.ls_mono hls2, ?_, ?_, rfl,
        Or.inr (Or.inr (le_of_eq hscale.symm))⟩
      · simp only
        rw [hch, leaves_node, ← flatMap_cons, ← hch]
        exact hlv
      · rw [hnil] at hconsv
        simpa using hconsv
      · intro a ha
        simp only [hnil, hnp, hnc, mem_cons] at ha
        rcases ha with rfl | rfl | rfl | ha
        · rfl
        · rfl
        · rfl
        · exact h.stack a ha
      · intro L hL
        simp only at hL ⊢
        have hne : st.children.isEmpty = false := by simp [hch]
        rw [setLeafScale_mk, hne]
        simp only [Bool.false_or, decide_eq_true_eq, hmdpos, if_false]
        rw [wfNode_mk_iff]
        refine ⟨?_, by rw [hself]; exact hmd0, ?_, ?_, ?_⟩
        · intro c0' rest' heq
          rw [hch, map_cons, cons.injEq] at heq
          obtain ⟨rfl, rfl⟩ := heq
          refine ⟨by simp [hc0], ?_⟩
          intro c hc
          obtain ⟨c', hc', rfl⟩ := mem_map.1 hc
          simp [hrest c' hc']
        · intro x hx
          have hx' : x ∈ st.children.flatMap CNode.leaves := by
            rw [mem_flatMap] at hx ⊢
            obtain ⟨c, hc, hxc⟩ := hx
            obtain ⟨c', hc', rfl⟩ := mem_map.1 hc
            rw [setLeafScale_leaves] at hxc
            exact ⟨c', hc', hxc⟩
          rcases mem_cons.1 (hlv.mem_iff.1 hx') with rfl | hx''
          · rw [hself]; exact hmd0
          · obtain ⟨e, he, rfl⟩ := mem_map.1 hx''
            exact hmdle e (by rw [hcons]; exact mem_append_right _ he)
        · intro c hc
          obtain ⟨c', hc', rfl⟩ := mem_map.1 hc
          obtain ⟨_, _, hsc'⟩ := h.ch_ok c' hc'
          rcases hsc' with hleaf | hz | hge
          · right; simp [hleaf]
          · left
            cases c' with
            | mk p' m' d' s' cs' =>
              simp only [CNode.maxDist] at hz
              rw [setLeafScale_mk]
              simp only [hz, decide_true, Bool.or_true, if_true, CNode.scale]
              omega
          · cases c' with
            | mk p' m' d' s' cs' =>
              rw [setLeafScale_mk]
              simp only [CNode.scale] at hge ⊢
              by_cases hcond : (cs'.isEmpty || decide (m' = 0)) = true
              · left
                rw [if_pos hcond]
                omega
              · left
                rw [if_neg hcond]
                omega
        · intro c hc
          obtain ⟨c', hc', rfl⟩ := mem_map.1 hc
          exact (h.ch_ok c' hc').1 L (le_trans hls2 hL)
      · have hne : st.children.isEmpty = false := by simp [hch]
        rw [setLeafScale_mk, hne]
        simp only [Bool.false_or, decide_eq_true_eq, hmdpos, if_false]
        congr 1
        conv_rhs => rw [← map_id st.children]
        apply map_congr_left
        intro c hc
        exact (h.ch_ok c hc).2.1

/-- **`batch_insert` meets its contract** -/
theorem batchInsert_ok (hself : ∀ x, δ x x = 0) (hnn : ∀ x y, 0 ≤ δ x y) (hpos : ∀ s, 0 ≤ distOfScale s) :
    ∀ (fuel : Nat) (chain : List Nat) (p : Nat) (maxScale topScale : Int) (ps cs : List (DS K))
      (stack : List (List (DS K))) (ls : Nat) (r : BRes K),
      (∀ e ∈ ps, Chained δ (p :: chain) e) → (∀ e ∈ cs, Chained δ (p :: chain) e) → (∀ a ∈ stack, a = []) →
      batchInsert δ getScale distOfScale fuel p maxScale topScale ps cs stack ls = some r →
      InsOk δ distOfScale chain p maxScale topScale ps cs ls r := by
  intro fuel
  induction fuel with
  | zero => intro _ _ _ _ _ _ _ _ _ _ _ _ h; simp [batchInsert] at h
  | succ fuel ih =>
    intro chain p maxScale topScale ps cs stack ls r hps hcs hst h
    unfold batchInsert at h
    by_cases hemp : ps.isEmpty = true
    · -- a leaf
      simp only [hemp, if_true, Option.some.injEq] at h
      have hps0 : ps = [] := List.isEmpty_iff.1 hemp
      subst h
      subst hps0
      refine ⟨by simp, ⟨[], by simp, by simp, ?_, by simp⟩, hst, by simp, le_refl _, ?_, ?_, rfl, Or.inl rfl⟩
      · simp [newLeaf, CNode.leaves]
      · intro L _
        rw [setLeafScale_newLeaf]
        exact wfNode_leaf hself _ _
      · rw [setLeafScale_newLeaf]; rfl
    · simp only [hemp, Bool.false_eq_true, if_false] at h
      cases hmax : maxSet ps with
      | none => simp [hmax] at h
      | some maxDist =>
        simp only [hmax] at h
        by_cases hz : maxDist = 0
        · simp only [hz, if_true, Option.some.injEq] at h
          subst h
          exact zeroNode_ok hself hnn hps hst (by rw [hmax, hz])
        · simp only [hz, if_false] at h
          cases hsp : split (distOfScale maxScale) ps with
          | none => simp [hsp] at h
          | some kf =>
            obtain ⟨ps1, farNew⟩ := kf
            simp only [hsp] at h
            obtain ⟨hpop1, hpop2⟩ := pop_nil hst
            rw [hpop1, nil_append] at h
            obtain ⟨sk, sf, sperm, sleft⟩ := split_spec ps ps1 farNew hsp
            have hnext : min (maxScale - 1) (getScale maxDist) ≤ maxScale - 1 := min_le_left _ _
            generalize min (maxScale - 1) (getScale maxDist) = nextScale at h hnext
            have hfarch : ∀ e ∈ farNew, Chained δ (p :: chain) e := fun e he => hps e (sf e he)
            have hfarleft : ∀ e ∈ farNew, distOfScale maxScale < δ p e.p := by
              intro e he
              obtain ⟨d, t, hd, hlt⟩ := sleft e he
              rw [(hfarch e he).head] at hd
              simp only [cons.injEq] at hd
              rw [hd.1]; exact hlt
            cases hr1 : batchInsert δ getScale distOfScale fuel p nextScale topScale ps1 cs (pop stack).2 ls with
            | none => simp [hr1] at h
            | some r1 =>
              simp only [hr1] at h
              have hok1 := ih chain p nextScale topScale ps1 cs (pop stack).2 ls r1
                (fun e he => hps e (sk e he)) hcs hpop2 hr1
              obtain ⟨new1, hc1, hnew1, hlv1, hperm1⟩ := hok1.cons
              by_cases hemp1 : r1.pointSet.isEmpty = true
              · -- the child is returned as it is
                simp only [hemp1, if_true, Option.some.injEq] at h
                have hp0 : r1.pointSet = [] := List.isEmpty_iff.1 hemp1
                subst h
                refine ⟨hfarch, ⟨new1, hc1, hnew1, hlv1, ?_⟩, ?_, hfarleft, hok1.ls_mono, hok1.wf, hok1.fix, hok1.np, ?_⟩
                · rw [hp0] at hperm1
                  simp only [pts_nil, append_nil] at hperm1
                  exact (Perm.append_right _ hperm1).trans sperm
                · intro a ha
                  rcases mem_cons.1 ha with rfl | ha
                  · exact hp0
                  · exact hok1.stack a ha
                · rcases hok1.sc with h1 | h1 | h1
                  · exact Or.inl h1
                  · exact Or.inr (Or.inl h1)
                  · right; right
                    simp only at h1 ⊢
                    omega
              · -- a new node
                simp only [hemp1, Bool.false_eq_true, if_false] at h
                obtain ⟨hq1, hq2⟩ := pop_nil hok1.stack
                obtain ⟨hq3, hq4⟩ := pop_nil hq2
                rw [hq1, hq3] at h
                cases hloop : childLoop δ (distOfScale maxScale)
                    (fun q a b s l => batchInsert δ getScale distOfScale fuel q nextScale topScale a b s l)
                    (r1.pointSet.length + farNew.length)
                    ⟨r1.pointSet, farNew, r1.consumed, [], [], [r1.node], (pop (pop r1.stack).2).2, r1.leafScale⟩ with
                | none => simp [hloop] at h
                | some st =>
                  simp only [hloop] at h
                  have hins : InsSpec δ distOfScale chain p nextScale topScale
                      (fun q a b s l => batchInsert δ getScale distOfScale fuel q nextScale topScale a b s l) :=
                    fun q nps ncs stack' ls' r' h1 h2 h3 h4 => ih (p :: chain) q nextScale topScale nps ncs stack' ls' r' h1 h2 h3 h4
                  have hne1 : r1.pointSet ≠ [] := fun h0 => hemp1 (List.isEmpty_iff.2 h0)
                  have hinv0 : LoopInv δ distOfScale chain p maxScale nextScale topScale cs (pts ps) ls
                      ⟨r1.pointSet, farNew, r1.consumed, [], [], [r1.node], (pop (pop r1.stack).2).2, r1.leafScale⟩ := by
                    refine ⟨hok1.ps_ch, hfarch, hfarleft, ⟨rfl, rfl⟩, hq4, ⟨new1, hc1, hnew1, by simpa using hlv1, ?_⟩,
                      hok1.ls_mono, ⟨r1.node, [], rfl, hok1.np, by simp⟩, ?_, Or.inr ⟨hne1, ?_⟩⟩
                    · exact (Perm.append_right _ hperm1).trans sperm
                    · intro c hc
                      simp only [mem_singleton] at hc
                      subst hc
                      exact ⟨hok1.wf, hok1.fix, hok1.sc⟩
                    · intro e he
                      exact lt_of_le_of_lt (hpos nextScale) (hok1.left e he)
                  obtain ⟨hinv, hnil⟩ := childLoop_inv hins _ _ st hinv0 hloop
                  exact finishNode_ok hself hnext hcs hinv hnil h

end TapkeeVerif.CoverBuild
