import Mathlib.Algebra.Order.Field.Rat
import Mathlib.Order.Interval.Finset.Fin
import Mathlib.Data.Fintype.Card
import TapkeeVerif.Model.CertGen
import TapkeeVerif.Proofs.Inertia
import TapkeeVerif.Proofs.SpectralLocal
/-!
Soundness of the inertia count every spectral verdict of C08–C10 rests on (`Model/CertGen.lean: belowCount`, the exact
rational LDLᵀ elimination `Cert.inertiaPos` of `Model/Cert.lean` run on `S = σ·B − A`):

* `belowCount_sound`              : `belowCount S = some p` ⇒ `S` is positive definite on no family of more than `p`
                                    independent directions (Sylvester, from `Proofs/Inertia.inertiaPos_sound`);
* `belowCount_bounds_eigenvalues` : for a pencil `(A, B)` with a full `B`-orthonormal eigensystem `(V, lam)`, at most `p`
                                    eigenvalues lie strictly below `σ`;
* `bottom_certified`              : hence, the eigenvalues being ascending, `p ≤ m` ⇒ every eigenvalue of index `≥ m`
                                    is `≥ σ`.
-/
namespace TapkeeVerif.Cert
open Matrix TapkeeVerif TapkeeVerif.SpectralLocal

/-! ### (a) the count itself -/

theorem shifted_zero {n : Nat} (S : Mat n n ℚ) : shifted S 0 = S := by
  funext i j
  simp [shifted]

/-- **soundness of `belowCount`**: if the exact elimination of `S` closes with `p` positive pivots, `S` is positive
    definite on no family of more than `p` independent directions. -/
theorem belowCount_sound {n : Nat} (S : Mat n n ℚ) (p : Nat) (h : belowCount S = some p)
    {m : Type} [Fintype m] (W : Matrix (Fin n) m ℚ)
    (hpos : ∀ c : m → ℚ, c ≠ 0 → 0 < (W *ᵥ c) ⬝ᵥ (Mat.toM S *ᵥ (W *ᵥ c))) :
    Fintype.card m ≤ p := by
  refine inertiaPos_sound S 0 p h W ?_
  rw [shifted_zero]
  exact hpos

/-! ### (b) eigenvalues below the shift -/

section general
variable {K : Type} [Field K] [LinearOrder K] [IsStrictOrderedRing K] {n : Nat}

/-- on the span of the eigenvectors with `lam j < σ` the form `σ·B − A` is positive definite -/
theorem posdef_on_low_eigenvectors {A B V : Matrix (Fin n) (Fin n) K} {lam : Fin n → K}
    (h : GenEigSystem A B V lam) (σ : K) (c : {j : Fin n // lam j < σ} → K) (hc : c ≠ 0) :
    0 < ((fun i (a : {j : Fin n // lam j < σ}) => V i a.1 : Matrix (Fin n) _ K) *ᵥ c)
          ⬝ᵥ ((σ • B - A) *ᵥ ((fun i (a : {j : Fin n // lam j < σ}) => V i a.1 : Matrix (Fin n) _ K) *ᵥ c)) := by
  set W : Matrix (Fin n) {j : Fin n // lam j < σ} K := fun i a => V i a.1 with hW
  set M : Matrix (Fin n) (Fin n) K := σ • B - A with hM
  have hVMV : Vᵀ * M * V = σ • (1 : Matrix (Fin n) (Fin n) K) - Matrix.diagonal lam := by
    rw [hM, Matrix.mul_sub, Matrix.sub_mul, Matrix.mul_smul, Matrix.smul_mul, h.orth, h.diag]
  have hG : Wᵀ * M * W = Matrix.diagonal fun a => σ - lam a.1 := by
    ext a b
    have e : (Wᵀ * M * W) a b = (Vᵀ * M * V) a.1 b.1 := by
      simp only [Matrix.mul_apply, Matrix.transpose_apply]
      rfl
    rw [e, hVMV, Matrix.sub_apply, Matrix.smul_apply, Matrix.one_apply, Matrix.diagonal_apply, Matrix.diagonal_apply]
    by_cases hab : a = b
    · subst hab; simp
    · have : a.1 ≠ b.1 := fun e' => hab (Subtype.ext e')
      simp [hab, this]
  have e : (W *ᵥ c) ⬝ᵥ (M *ᵥ (W *ᵥ c)) = ∑ a, (σ - lam a.1) * (c a * c a) := by
    rw [dotProduct_comm, Spectral.dot_mulVec_eq, mulVec_mulVec, mulVec_mulVec, hG, dotProduct_comm]
    simp only [dotProduct, mulVec_diagonal]
    exact Finset.sum_congr rfl fun a _ => by ring
  rw [e]
  obtain ⟨a, ha⟩ : ∃ a, c a ≠ 0 := by
    by_contra hall
    exact hc (funext fun a => not_not.1 fun ha => hall ⟨a, ha⟩)
  exact Finset.sum_pos' (fun b _ => mul_nonneg (sub_pos.2 b.2).le (mul_self_nonneg _))
    ⟨a, Finset.mem_univ a, mul_pos (sub_pos.2 a.2) (mul_self_pos.2 ha)⟩

omit [Field K] [IsStrictOrderedRing K] in
/-- ascending eigenvalues: if at most `p ≤ m` of them lie below `σ`, every eigenvalue of index `≥ m` is `≥ σ` -/
theorem sorted_count_bound (lam : Fin n → K) (hsorted : Monotone lam) (σ : K) (p m : Nat)
    (hcount : (Finset.univ.filter fun j => lam j < σ).card ≤ p) (hpm : p ≤ m) (j : Fin n) (hj : m ≤ j.1) :
    σ ≤ lam j := by
  by_contra hlt
  rw [not_le] at hlt
  have hsub : Finset.Iic j ⊆ Finset.univ.filter fun i => lam i < σ := by
    intro i hi
    rw [Finset.mem_Iic] at hi
    simp only [Finset.mem_filter, Finset.mem_univ, true_and]
    exact lt_of_le_of_lt (hsorted hi) hlt
  have := Finset.card_le_card hsub
  rw [Fin.card_Iic] at this
  omega

end general

/-- **the pencil `(A, B)` has at most `p` eigenvalues below `σ`** when `belowCount (σ·B − A) = some p` -/
theorem belowCount_bounds_eigenvalues {n : Nat} {A B V : Matrix (Fin n) (Fin n) ℚ} {lam : Fin n → ℚ}
    (h : GenEigSystem A B V lam) (σ : ℚ) (p : Nat)
    (hc : belowCount (fun i j => σ * B i j - A i j) = some p) :
    (Finset.univ.filter fun j => lam j < σ).card ≤ p := by
  rw [← Fintype.card_subtype]
  have hS : Mat.toM (fun i j => σ * B i j - A i j) = σ • B - A := by
    ext i j
    simp [Matrix.sub_apply, Matrix.smul_apply]
  refine belowCount_sound _ p hc (fun i (a : {j : Fin n // lam j < σ}) => V i a.1) ?_
  intro c hc0
  rw [hS]
  exact posdef_on_low_eigenvectors h σ c hc0

/-! ### (c) what the certificate uses -/

/-- **bottom block certified**: at most `p ≤ m` eigenvalues below `σ`, ascending order ⇒ every eigenvalue of index
    `≥ m` is `≥ σ` -/
theorem bottom_certified {n : Nat} {A B V : Matrix (Fin n) (Fin n) ℚ} {lam : Fin n → ℚ}
    (h : GenEigSystem A B V lam) (σ : ℚ) (p m : Nat)
    (hc : belowCount (fun i j => σ * B i j - A i j) = some p) (hpm : p ≤ m) :
    ∀ j : Fin n, m ≤ j.1 → σ ≤ lam j :=
  fun j hj => sorted_count_bound lam h.sorted σ p m (belowCount_bounds_eigenvalues h σ p hc) hpm j hj

end TapkeeVerif.Cert
