import Mathlib.Algebra.BigOperators.Group.Finset.Basic
import TapkeeVerif.Proofs.TsneCsrWF
/-!
C17, CSR symmetriser, part 3b: `row_counts` counts exactly the writes.

`rc r` (first pass) = number of triples the second pass emits into row `r`: the elements `(n, i)` whose mirror `(col, m)`
is present are counted by the first pass in their own row only; the second pass writes both directions when it meets
the smaller-row element of the pair and nothing when it meets the other one — the mirror map pairs them up.
-/
namespace TapkeeVerif.Tsne
open Finset

variable {K : Type} [Field K]

theorem mirror_mirror (N : Nat) (c : Csr K) (h : WFc N c) (hd : DistinctCols N c) {e : Nat × Nat}
    (he : e ∈ csrEntries N c) (hp : (partner c e.1 e.2).isSome) : mirror c (mirror c e) = e := by
  obtain ⟨m, hm⟩ := Option.isSome_iff_exists.1 hp
  obtain ⟨-, h2, h3⟩ := mirror_spec N c h hd he hm
  have e1 : mirror c e = (c.C e.2, m) := by simp [mirror, hm]
  rw [e1]
  simp only [mirror, h2, h3]

theorem mirror_mem (N : Nat) (c : Csr K) (h : WFc N c) (hd : DistinctCols N c) {e : Nat × Nat}
    (he : e ∈ csrEntries N c) (hp : (partner c e.1 e.2).isSome) :
    mirror c e ∈ csrEntries N c ∧ (partner c (mirror c e).1 (mirror c e).2).isSome := by
  obtain ⟨m, hm⟩ := Option.isSome_iff_exists.1 hp
  obtain ⟨h1, h2, -⟩ := mirror_spec N c h hd he hm
  have e1 : mirror c e = (c.C e.2, m) := by simp [mirror, hm]
  rw [e1]
  exact ⟨h1, by simp [h2]⟩

/-- summing over the elements commutes with mirroring the present ones -/
theorem mirror_sum {M : Type} [AddCommMonoid M] (N : Nat) (c : Csr K) (h : WFc N c) (hd : DistinctCols N c)
    (f g : Nat × Nat → M)
    (hP : ∀ e ∈ csrEntries N c, (partner c e.1 e.2).isSome → f e = g (mirror c e))
    (h0 : ∀ e ∈ csrEntries N c, (partner c e.1 e.2).isSome = false → f e = 0 ∧ g e = 0) :
    ((csrEntries N c).map f).sum = ((csrEntries N c).map g).sum := by
  have hnd := entries_nodup N c h
  rw [← List.sum_toFinset f hnd, ← List.sum_toFinset g hnd]
  rw [← Finset.sum_filter_add_sum_filter_not _ (fun e => (partner c e.1 e.2).isSome = true) f,
      ← Finset.sum_filter_add_sum_filter_not _ (fun e => (partner c e.1 e.2).isSome = true) g]
  congr 1
  · apply Finset.sum_nbij' (mirror c) (mirror c)
    · intro e he
      simp only [Finset.mem_filter, List.mem_toFinset] at he ⊢
      exact mirror_mem N c h hd he.1 he.2
    · intro e he
      simp only [Finset.mem_filter, List.mem_toFinset] at he ⊢
      exact mirror_mem N c h hd he.1 he.2
    · intro e he
      simp only [Finset.mem_filter, List.mem_toFinset] at he
      exact mirror_mirror N c h hd he.1 he.2
    · intro e he
      simp only [Finset.mem_filter, List.mem_toFinset] at he
      exact mirror_mirror N c h hd he.1 he.2
    · intro e he
      simp only [Finset.mem_filter, List.mem_toFinset] at he
      exact hP e he.1 he.2
  · rw [Finset.sum_eq_zero, Finset.sum_eq_zero]
    · intro e he
      simp only [Finset.mem_filter, List.mem_toFinset, Bool.not_eq_true] at he
      exact (h0 e he.1 he.2).2
    · intro e he
      simp only [Finset.mem_filter, List.mem_toFinset, Bool.not_eq_true] at he
      exact (h0 e he.1 he.2).1

/-! ### the first pass as a sum -/

/-- what the first pass adds to `row_counts[r]` for the element `e` -/
def contrib (c : Csr K) (r : Nat) (e : Nat × Nat) : Nat :=
  (if e.1 = r then 1 else 0) + (if csrPresent c (c.C e.2) e.1 = false ∧ c.C e.2 = r then 1 else 0)

theorem countStep_apply (c : Csr K) (rc : Nat → Nat) (e : Nat × Nat) (r : Nat) :
    countStep c rc e r = rc r + contrib c r e := by
  unfold countStep contrib inc
  by_cases hp : csrPresent c (c.C e.2) e.1 = true
  · simp only [hp, if_true, Bool.true_eq_false, false_and, if_false, add_zero]
    by_cases h1 : r = e.1
    · subst h1; simp
    · simp [h1, Ne.symm h1]
  · have hp' : csrPresent c (c.C e.2) e.1 = false := by simpa using hp
    simp only [hp', Bool.false_eq_true, if_false, true_and]
    by_cases h1 : r = e.1 <;> by_cases h2 : r = c.C e.2
    · subst h1; simp [← h2]
    · subst h1; simp [h2, Ne.symm h2]
    · subst h2; simp [h1, Ne.symm h1]
    · simp [h1, h2, Ne.symm h1, Ne.symm h2]

theorem foldl_countStep (c : Csr K) (r : Nat) : ∀ (E : List (Nat × Nat)) (rc : Nat → Nat),
    (E.foldl (countStep c) rc) r = rc r + (E.map (contrib c r)).sum := by
  intro E
  induction E with
  | nil => intro rc; simp
  | cons e E ih =>
    intro rc
    rw [List.foldl_cons, ih, countStep_apply, List.map_cons, List.sum_cons]
    omega

/-- `row_counts` after the first pass -/
def rcOf (N : Nat) (c : Csr K) : Nat → Nat := (csrEntries N c).foldl (countStep c) (fun _ => 0)

/-! ### the second pass as a sum -/

/-- number of triples the element `e` emits into row `r` -/
def ecount (c : Csr K) (r : Nat) (e : Nat × Nat) : Nat := (rowList (emit c e) r).length

theorem rowList_flatMap_length (c : Csr K) (r : Nat) : ∀ E : List (Nat × Nat),
    (rowList (E.flatMap (emit c)) r).length = (E.map (ecount c r)).sum := by
  intro E
  induction E with
  | nil => rfl
  | cons e E ih =>
    rw [List.flatMap_cons, List.map_cons, List.sum_cons, ← ih]
    simp only [rowList, List.filter_append, List.map_append, List.length_append, ecount]

theorem rowList_len_nil (r : Nat) : (rowList ([] : List (Nat × Nat × K)) r).length = 0 := rfl

theorem rowList_len_one (x : Nat × Nat × K) (r : Nat) :
    (rowList [x] r).length = if x.1 = r then 1 else 0 := by
  by_cases h : x.1 = r <;> simp [rowList, h]

theorem rowList_len_two (x y : Nat × Nat × K) (r : Nat) :
    (rowList [x, y] r).length = (if x.1 = r then 1 else 0) + (if y.1 = r then 1 else 0) := by
  by_cases h : x.1 = r <;> by_cases h' : y.1 = r <;> simp [rowList, h, h']

theorem ecount_eq (c : Csr K) (r : Nat) (e : Nat × Nat) :
    ecount c r e + (if (partner c e.1 e.2).isSome ∧ c.C e.2 < e.1 ∧ e.1 = r then 1 else 0) =
      contrib c r e + (if (partner c e.1 e.2).isSome ∧ e.1 < c.C e.2 ∧ c.C e.2 = r then 1 else 0) := by
  unfold ecount contrib emit
  rw [present_iff_partner]
  cases hp : partner c e.1 e.2 with
  | none =>
    simp only [Option.isSome_none, Bool.false_eq_true, false_and, if_false, Nat.add_zero, true_and]
    rw [rowList_len_two]
  | some m =>
    simp only [Option.isSome_some, true_and, Bool.true_eq_false, false_and, if_false, Nat.add_zero]
    by_cases hle : e.1 ≤ c.C e.2
    · by_cases heq : c.C e.2 = e.1
      · rw [if_pos hle, if_pos heq, rowList_len_one]
        have h1 : ¬ (c.C e.2 < e.1 ∧ e.1 = r) := fun h => by omega
        have h2 : ¬ (e.1 < c.C e.2 ∧ c.C e.2 = r) := fun h => by omega
        rw [if_neg h1, if_neg h2]
      · rw [if_pos hle, if_neg heq, rowList_len_two]
        have h1 : ¬ (c.C e.2 < e.1 ∧ e.1 = r) := fun h => by omega
        rw [if_neg h1]
        by_cases h2 : c.C e.2 = r
        · have : e.1 < c.C e.2 ∧ c.C e.2 = r := ⟨by omega, h2⟩
          rw [if_pos this, if_pos h2]
        · have : ¬ (e.1 < c.C e.2 ∧ c.C e.2 = r) := fun h => h2 h.2
          rw [if_neg this, if_neg h2]
    · rw [if_neg hle, rowList_len_nil]
      have h2 : ¬ (e.1 < c.C e.2 ∧ c.C e.2 = r) := fun h => by omega
      rw [if_neg h2]
      by_cases h1 : e.1 = r
      · have : c.C e.2 < e.1 ∧ e.1 = r := ⟨by omega, h1⟩
        rw [if_pos this, if_pos h1]
      · have : ¬ (c.C e.2 < e.1 ∧ e.1 = r) := fun h => h1 h.2
        rw [if_neg this, if_neg h1]

/-- **`row_counts[r]` is exactly the number of writes into row `r`** -/
theorem rc_eq_emitted (N : Nat) (c : Csr K) (h : WFc N c) (hd : DistinctCols N c) (r : Nat) :
    (rowList ((csrEntries N c).flatMap (emit c)) r).length = rcOf N c r := by
  rw [rowList_flatMap_length, rcOf, foldl_countStep, Nat.zero_add]
  -- Σ ecount + Σ g = Σ contrib + Σ f, and Σ f = Σ g by mirroring
  have hsum : ((csrEntries N c).map (ecount c r)).sum +
      ((csrEntries N c).map fun e => if (partner c e.1 e.2).isSome ∧ c.C e.2 < e.1 ∧ e.1 = r then 1 else 0).sum =
      ((csrEntries N c).map (contrib c r)).sum +
      ((csrEntries N c).map fun e => if (partner c e.1 e.2).isSome ∧ e.1 < c.C e.2 ∧ c.C e.2 = r then 1 else 0).sum := by
    rw [← List.sum_map_add, ← List.sum_map_add]
    congr 1
    apply List.map_congr_left
    intro e _
    exact ecount_eq c r e
  have hmir := mirror_sum (M := Nat) N c h hd
    (fun e => if (partner c e.1 e.2).isSome ∧ e.1 < c.C e.2 ∧ c.C e.2 = r then 1 else 0)
    (fun e => if (partner c e.1 e.2).isSome ∧ c.C e.2 < e.1 ∧ e.1 = r then 1 else 0)
    (by
      intro e he hp
      obtain ⟨m, hm⟩ := Option.isSome_iff_exists.1 hp
      obtain ⟨-, h2, h3⟩ := mirror_spec N c h hd he hm
      have e1 : mirror c e = (c.C e.2, m) := by simp [mirror, hm]
      simp only [e1, hp, h2, h3, Option.isSome_some, true_and])
    (by
      intro e _ hp
      simp [hp])
  omega

end TapkeeVerif.Tsne
