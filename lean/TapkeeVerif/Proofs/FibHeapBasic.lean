import TapkeeVerif.Model.FibHeap
import TapkeeVerif.Model.FibHeapSpec
/-!
Definitions used by the proofs of property C16 (invariant of the Fibonacci-heap model) and the
elementary lemmas about forests, entries, `addToRoots`, `rotateTo`.
-/
namespace TapkeeVerif.FibHeap

/-- all `(index, key)` pairs of one tree -/
def Tr.entries (t : Tr) : List (Nat × Int) := (t.idx, t.key) :: t.kids.entries

/-- all `(index, key)` pairs of a list of trees -/
def entriesL (l : List Tr) : List (Nat × Int) := l.flatMap Tr.entries

/-- the multiset condition behind "the i-th child has rank ≥ i - 2": for every `j` at most `j`
    values are `< j` (equivalently: some ordering `v₀, v₁, …` of the values has `vᵢ ≥ i`). -/
def Thin (l : List Nat) : Prop := ∀ j, l.countP (· < j) ≤ j

namespace F

/-- number of top-level trees of a sibling list -/
def len : F → Nat
  | nil => 0
  | cons _ _ _ _ _ rest => len rest + 1

/-- per child: its rank, plus one if it is marked (= a lower bound of its rank when it was linked) -/
def vals : F → List Nat
  | nil => []
  | cons _ _ r m _ rest => (if m then r + 1 else r) :: vals rest

/-- every top-level key is `≥ p` -/
def keysGe (p : Int) : F → Prop
  | nil => True
  | cons _ k _ _ _ rest => p ≤ k ∧ keysGe p rest

/-- structural invariant of a sibling list: for every node `rank` = number of children,
    heap order towards the children, the degree discipline of the children, recursively -/
def WF : F → Prop
  | nil => True
  | cons _ k r _ kids rest => r = kids.len ∧ kids.keysGe k ∧ Thin kids.vals ∧ kids.WF ∧ rest.WF

end F

/-- structural invariant of one tree standing in the root ring (its own mark is irrelevant) -/
def Tr.Good (t : Tr) : Prop :=
  t.rank = t.kids.len ∧ t.kids.keysGe t.key ∧ Thin t.kids.vals ∧ t.kids.WF

/-- head of the ring (= `min_root`) has a key ≤ every other root key -/
def HeadMin : List Tr → Prop
  | [] => True
  | m :: rs => ∀ t ∈ rs, m.key ≤ t.key

/-! ### trees / ofTrees / entries -/

@[simp] theorem F.push_eq (t : Tr) (rest : F) :
    F.push t rest = .cons t.idx t.key t.rank t.marked t.kids rest := rfl

@[simp] theorem F.trees_ofTrees (l : List Tr) : (F.ofTrees l).trees = l := by
  induction l with
  | nil => rfl
  | cons t ts ih => simp [F.ofTrees, F.trees, ih]

@[simp] theorem F.ofTrees_trees (f : F) : F.ofTrees f.trees = f := by
  induction f with
  | nil => rfl
  | cons i k r m kids rest _ ih => simp [F.ofTrees, F.trees, ih]

@[simp] theorem entriesL_nil : entriesL [] = [] := rfl
@[simp] theorem entriesL_cons (t : Tr) (l : List Tr) :
    entriesL (t :: l) = (t.idx, t.key) :: (t.kids.entries ++ entriesL l) := by
  simp [entriesL, Tr.entries]
@[simp] theorem entriesL_append (l₁ l₂ : List Tr) :
    entriesL (l₁ ++ l₂) = entriesL l₁ ++ entriesL l₂ := by
  simp [entriesL]

theorem F.entries_eq (f : F) : f.entries = entriesL f.trees := by
  induction f with
  | nil => rfl
  | cons i k r m kids rest _ ih => simp [F.entries, F.trees, ih]

@[simp] theorem F.entries_ofTrees (l : List Tr) : (F.ofTrees l).entries = entriesL l := by
  rw [F.entries_eq, F.trees_ofTrees]

theorem F.size_eq (f : F) : f.size = f.entries.length := by
  induction f with
  | nil => rfl
  | cons i k r m kids rest ih1 ih2 => simp [F.size, F.entries, ih1, ih2]; omega

@[simp] theorem F.len_eq (f : F) : f.trees.length = f.len := by
  induction f with
  | nil => rfl
  | cons i k r m kids rest _ ih => simp [F.len, F.trees, ih]

theorem F.wf_iff (f : F) : f.WF ↔ ∀ t ∈ f.trees, t.Good := by
  induction f with
  | nil => simp [F.WF, F.trees]
  | cons i k r m kids rest _ ih => simp [F.WF, F.trees, ih, Tr.Good, and_assoc]

theorem F.wf_ofTrees (l : List Tr) : (F.ofTrees l).WF ↔ ∀ t ∈ l, t.Good := by
  rw [F.wf_iff, F.trees_ofTrees]

theorem F.keysGe_iff (p : Int) (f : F) : f.keysGe p ↔ ∀ t ∈ f.trees, p ≤ t.key := by
  induction f with
  | nil => simp [F.keysGe, F.trees]
  | cons i k r m kids rest _ ih => simp [F.keysGe, F.trees, ih]

theorem F.keysGe_mono {p q : Int} (h : q ≤ p) {f : F} (hf : f.keysGe p) : f.keysGe q := by
  induction f with
  | nil => trivial
  | cons i k r m kids rest _ ih => exact ⟨by have := hf.1; omega, ih hf.2⟩

/-! ### lookup is `Spec.get` on the entries -/

theorem Spec.get_append (s₁ s₂ : Spec) (i : Nat) :
    Spec.get (s₁ ++ s₂) i = (Spec.get s₁ i).or (Spec.get s₂ i) := by
  simp only [Spec.get, List.find?_append]
  cases List.find? (fun x => x.1 == i) s₁ <;> simp

theorem F.lookup_eq_get (i : Nat) (f : F) : f.lookup i = Spec.get f.entries i := by
  induction f with
  | nil => rfl
  | cons j k r m kids rest ih1 ih2 =>
    simp only [F.lookup, F.entries]
    by_cases h : j = i
    · simp [h, Spec.get]
    · have h' : ((j, k).1 == i) = false := by simpa using h
      rw [if_neg h, ih1, ih2]
      show _ = Spec.get ((j, k) :: (kids.entries ++ rest.entries)) i
      have : Spec.get ((j, k) :: (kids.entries ++ rest.entries)) i
          = Spec.get (kids.entries ++ rest.entries) i := by
        simp [Spec.get, h]
      rw [this, Spec.get_append]
      cases Spec.get kids.entries i <;> simp

end TapkeeVerif.FibHeap
