import TapkeeVerif.Proofs.LocallyLinearHlleMat
import TapkeeVerif.Proofs.LocallyLinearPsd
/-!
C08, HLLE: from `gramSchmidt_spec` (the as-written modified Gram–Schmidt sweep) through the column-sum normalisation and
`Yi.rightCols(dp)` to the Gram–Schmidt CONTRACT `hgs` of `hlle_const_null` / `hlle_affine_on_flat_partial`:

  `GsExact sqrtO [] (hlleYi0 U)` (exact square root on the norms that occur, no vanishing remainder), `¬ thr < 0`
  ⇒ `hlleH sqrtO thr U = (gramSchmidt sqrtO [] (hlleYi0 U)).drop (1 + d)` (the column-sum step never fires: every product
     column has sum EXACTLY `0` after the sweep, and `0 > 1e-4` is false)
  ⇒ every column of `hlleH` sums to zero and is orthogonal to every column of `U`.
-/
set_option linter.unusedSectionVars false
namespace TapkeeVerif.LocallyLinear
open TapkeeVerif Matrix Gen.HlleIndex

variable {K : Type} [Field K] [LT K] [DecidableLT K] {k d : Nat}

theorem hlleYi0_length (U : Mat k d K) : (hlleYi0 U).length = hlleCols d := by
  simp only [hlleYi0, List.length_map, List.length_range]

theorem hlleCols_split (d : Nat) : hlleCols d = 1 + d + hlleDp d := by
  rw [hlleCols_eq, hlleDp_eq]

/-- column 0 of `Yi` is the constant `1` -/
theorem hlleYi0_zero (U : Mat k d K) : (hlleYi0 U)[0]? = some (DVec.ofFn fun _ => (1 : K)) := by
  have h : 0 < hlleCols d := by rw [hlleCols_split]; omega
  simp only [hlleYi0, List.getElem?_map, List.getElem?_range h, Option.map_some, if_true]

/-- columns `1 … d` of `Yi` are the tangent columns -/
theorem hlleYi0_tangent (U : Mat k d K) (c : Fin d) :
    (hlleYi0 U)[c.1 + 1]? = some (DVec.ofFn fun r => U r c) := by
  have h : c.1 + 1 < hlleCols d := by rw [hlleCols_split]; have := c.2; omega
  have h0 : c.1 + 1 ≠ 0 := by omega
  have h1 : c.1 + 1 ≤ d := c.2
  have hcol : colOf U ((c.1 + 1 : Nat) : Int) = fun r => U r c := by
    rw [colOf_eq U _ ⟨by omega, by simp only [Int.toNat_natCast]; omega⟩]
    funext r
    congr 1
  simp only [hlleYi0, List.getElem?_map, List.getElem?_range h, Option.map_some, if_neg h0, if_pos h1, hcol]

theorem mem_take_of_getElem? {α : Type} (l : List α) (i m : Nat) (x : α) (h : l[i]? = some x) (him : i < m) :
    x ∈ l.take m := by
  rw [List.mem_iff_getElem?]
  exact ⟨i, by rw [List.getElem?_take, if_pos him, h]⟩

/-- every column of the swept `Yi` beyond the first `1 + d` sums to zero and is orthogonal to the tangent columns -/
theorem gs_tail_orthogonal (sqrtO : K → K) (U : Mat k d K) (hE : GsExact sqrtO [] (hlleYi0 U)) :
    ∀ q ∈ (gramSchmidt sqrtO [] (hlleYi0 U)).drop (1 + d),
      (∑ a, q.get a = 0) ∧ ∀ c, ∑ a, q.get a * U a c = 0 := by
  obtain ⟨ho, _, hspan⟩ := gramSchmidt_spec sqrtO (hlleYi0 U) hE
  intro q hq
  set Q := gramSchmidt sqrtO [] (hlleYi0 U) with hQ
  have hpw : (Q.take (1 + d) ++ Q.drop (1 + d)).Pairwise (fun p q => ddot p q = 0) := by
    rw [List.take_append_drop]
    exact ho.1
  have hperp : ∀ p ∈ Q.take (1 + d), ddot p q = 0 := fun p hp =>
    (List.pairwise_append.1 hpw).2.2 p hp q hq
  have hin := hspan (1 + d) q hperp
  constructor
  · have := hin _ (mem_take_of_getElem? _ 0 (1 + d) _ (hlleYi0_zero U) (by omega))
    simpa [ddot, DVec.get_ofFn] using this
  · intro c
    have := hin _ (mem_take_of_getElem? _ (c.1 + 1) (1 + d) _ (hlleYi0_tangent U c) (by have := c.2; omega))
    simp only [ddot, DVec.get_ofFn] at this
    rw [← this]
    exact Finset.sum_congr rfl fun a _ => mul_comm _ _

/-- `colsumNorm` is the identity on a column whose sum is exactly zero (`0 > thr` is false for `thr ≥ 0`) -/
theorem colsumNorm_of_sum_zero (thr : K) (hthr : ¬ thr < 0) (v : DVec k K) (hv : ∑ a, v.get a = 0) :
    colsumNorm thr v = v := by
  simp only [colsumNorm, sumFin_eq_sum, hv, if_neg hthr]

theorem mapIdx_eq_self {α : Type} (f : Nat → α → α) (l : List α)
    (h : ∀ (i : Nat) (hi : i < l.length), f i l[i] = l[i]) : l.mapIdx f = l := by
  apply List.ext_getElem
  · simp
  · intro i h1 h2
    rw [List.getElem_mapIdx]
    exact h i h2

/-- **the columns `hessian_weight_matrix` multiplies out are the last `dp` columns of the Gram–Schmidt sweep, untouched by
    the column-sum step** -/
theorem hlleH_eq_drop (hrc : ∀ d dp : Int, rightColsArg d dp = dp)
    (sqrtO : K → K) (thr : K) (hthr : ¬ thr < 0) (U : Mat k d K) (hE : GsExact sqrtO [] (hlleYi0 U)) :
    hlleH sqrtO thr U = (gramSchmidt sqrtO [] (hlleYi0 U)).drop (1 + d) := by
  have htail := gs_tail_orthogonal sqrtO U hE
  set Q := gramSchmidt sqrtO [] (hlleYi0 U) with hQ
  have hlen : Q.length = 1 + d + hlleDp d := by
    rw [hQ, gramSchmidt_length, hlleYi0_length, hlleCols_split]
  have hmap : (Q.mapIdx fun c v => if 1 + d ≤ c ∧ c < 1 + d + hlleDp d then colsumNorm thr v else v) = Q := by
    apply mapIdx_eq_self
    intro i hi
    split_ifs with hc
    · apply colsumNorm_of_sum_zero thr hthr
      refine (htail Q[i] ?_).1
      rw [List.mem_iff_getElem]
      refine ⟨i - (1 + d), by rw [List.length_drop]; omega, ?_⟩
      rw [List.getElem_drop]
      congr 1
      omega
    · rfl
  have hdrop : Q.length - (rightColsArg (d : Int) (dpExpr (d : Int))).toNat = 1 + d := by
    rw [hrc, hlen]
    show 1 + d + hlleDp d - hlleDp d = 1 + d
    omega
  simp only [hlleH]
  rw [← hQ, hmap, hdrop]

/-- **the Gram–Schmidt contract `hgs` as a theorem about the as-written sweep** -/
theorem hlleH_contract (hrc : ∀ d dp : Int, rightColsArg d dp = dp)
    (sqrtO : K → K) (thr : K) (hthr : ¬ thr < 0) (U : Mat k d K) (hE : GsExact sqrtO [] (hlleYi0 U)) :
    ∀ h ∈ hlleH sqrtO thr U, (∑ a, h.get a = 0) ∧ ∀ c, ∑ a, h.get a * U a c = 0 := by
  rw [hlleH_eq_drop hrc sqrtO thr hthr U hE]
  exact gs_tail_orthogonal sqrtO U hE

/-! ### null vectors of the assembled HLLE matrix, neighbourhood by neighbourhood -/

section Null
variable {K : Type} [Field K] [LinearOrder K] [IsStrictOrderedRing K] {N k d : Nat}

/-- `yᵀ (H Hᵀ) y = 0` forces `y` orthogonal to every column of `H` -/
theorem listProj_null (H : List (DVec k K)) (y : Fin k → K)
    (hz : ∑ a, y a * ∑ b, (H.map fun h => h.get a * h.get b).sum * y b = 0) :
    ∀ h ∈ H, ∑ b, h.get b * y b = 0 := by
  induction H with
  | nil => intro h hh; simp at hh
  | cons h t ih =>
    have e : ∑ a, y a * ∑ b, ((h :: t).map fun h => h.get a * h.get b).sum * y b
        = (∑ a, h.get a * y a) * (∑ b, h.get b * y b)
          + ∑ a, y a * ∑ b, (t.map fun h => h.get a * h.get b).sum * y b := by
      simp only [List.map_cons, List.sum_cons, add_mul, Finset.sum_add_distrib, mul_add]
      congr 1
      rw [Finset.sum_mul_sum]
      refine Finset.sum_congr rfl fun a _ => ?_
      rw [Finset.mul_sum]
      refine Finset.sum_congr rfl fun b _ => ?_
      ring
    rw [e] at hz
    have h1 : 0 ≤ (∑ a, h.get a * y a) * (∑ b, h.get b * y b) := mul_self_nonneg _
    have h2 := listProj_psd t y
    have h3 : (∑ a, h.get a * y a) * (∑ b, h.get b * y b) = 0 := by linarith
    have h4 : ∑ a, y a * ∑ b, (t.map fun h => h.get a * h.get b).sum * y b = 0 := by linarith
    intro q hq
    rcases List.mem_cons.1 hq with rfl | hq
    · exact mul_self_eq_zero.1 h3
    · exact ih h4 q hq

/-- **a null vector of the assembled HLLE matrix is orthogonal, on every neighbourhood, to every column of `H_s`** -/
theorem hlle_null_local (nb : Fin N → Fin k → Fin N) (sqrtO : K → K) (thr : K) (U : Fin N → Mat k d K)
    (v : Fin N → K) (hv : (Mat.toM (hlleMat nb sqrtO thr U)).mulVec v = 0) :
    ∀ s, ∀ q ∈ hlleH sqrtO thr (U s), ∑ b, q.get b * v (nb s b) = 0 := by
  have h0 : v ⬝ᵥ (Mat.toM (hlleMat nb sqrtO thr U) *ᵥ v) = 0 := by rw [hv, dotProduct_zero]
  rw [hlleMat_toM, Matrix.sum_mulVec, dotProduct_sum] at h0
  have hnn : ∀ s ∈ (Finset.univ : Finset (Fin N)),
      0 ≤ v ⬝ᵥ ((S (nb s) * Mat.toM (hlleProj sqrtO thr (U s)) * (S (nb s))ᵀ) *ᵥ v) := by
    intro s _
    rw [dot_sandwich]
    exact hlle_local_psd sqrtO thr (U s) _
  intro s
  have hs := (Finset.sum_eq_zero_iff_of_nonneg hnn).1 h0 s (Finset.mem_univ s)
  rw [dot_sandwich, S_transpose_mulVec] at hs
  simp only [dotProduct, Matrix.mulVec, Mat.toM_apply, hlleProj_apply] at hs
  exact listProj_null _ _ hs

end Null

end TapkeeVerif.LocallyLinear
