import Mathlib.Algebra.Order.Field.Basic
import Mathlib.Tactic.Ring
import Mathlib.Tactic.Linarith
import Mathlib.Tactic.FieldSimp
import TapkeeVerif.Model.QuadTree
/-!
Geometry of cells and the insertion invariant `WF` of the quadtree model (C18).

`WF data t is` : `is` is the list of indices whose `insert` was accepted by the node `t` (passed its containment
test), in insertion order.  It pins `cum_size`, the centre of mass, the residents and — recursively — the lists of the
four children, which are the *geometric routes* (`first child in NW, NE, SW, SE order whose closed cell contains the point`)
of the node's list **minus the coincident points the node absorbed while it still was a leaf** (`dups`): those are
counted by the node but never handed down by `subdivide()`.
-/
namespace TapkeeVerif.QuadTree

variable {K : Type} [Field K] [LinearOrder K] [IsStrictOrderedRing K]
set_option linter.unusedSectionVars false

theorem contains_iff (c : Cell K) (p : K × K) :
    c.containsPoint p = true ↔
      c.x - c.hw ≤ p.1 ∧ p.1 ≤ c.x + c.hw ∧ c.y - c.hh ≤ p.2 ∧ p.2 ≤ c.y + c.hh := by
  unfold Cell.containsPoint
  split_ifs with h1 h2 h3 h4
  · constructor
    · intro h; exact absurd h (by decide)
    · rintro ⟨h, -⟩; exact absurd h (not_le.mpr h1)
  · constructor
    · intro h; exact absurd h (by decide)
    · rintro ⟨-, h, -⟩; exact absurd h (not_le.mpr h2)
  · constructor
    · intro h; exact absurd h (by decide)
    · rintro ⟨-, -, h, -⟩; exact absurd h (not_le.mpr h3)
  · constructor
    · intro h; exact absurd h (by decide)
    · rintro ⟨-, -, -, h⟩; exact absurd h (not_le.mpr h4)
  · constructor
    · intro _; exact ⟨not_lt.mp h1, not_lt.mp h2, not_lt.mp h3, not_lt.mp h4⟩
    · intro _; rfl

theorem half_add_half (a : K) : half a + half a = a := by
  unfold half
  have : (1 + 1 : K) ≠ 0 := by norm_num
  field_simp

/-- the four children cover the parent's closed box -/
theorem children_cover (b : Cell K) (p : K × K) (h : b.containsPoint p = true) :
    (cellNW b).containsPoint p = true ∨ (cellNE b).containsPoint p = true ∨
    (cellSW b).containsPoint p = true ∨ (cellSE b).containsPoint p = true := by
  rw [contains_iff] at h
  obtain ⟨h1, h2, h3, h4⟩ := h
  have hw := half_add_half b.hw
  have hh := half_add_half b.hh
  simp only [contains_iff, cellNW, cellNE, cellSW, cellSE]
  rcases le_total p.1 b.x with hx | hx <;> rcases le_total p.2 b.y with hy | hy
  · left; refine ⟨?_, ?_, ?_, ?_⟩ <;> linarith
  · right; right; left; refine ⟨?_, ?_, ?_, ?_⟩ <;> linarith
  · right; left; refine ⟨?_, ?_, ?_, ?_⟩ <;> linarith
  · right; right; right; refine ⟨?_, ?_, ?_, ?_⟩ <;> linarith

/-! ### geometric routes -/

/-- which child takes a point: the first in the order NW, NE, SW, SE whose closed cell contains it -/
def rNW (b : Cell K) (p : K × K) : Bool := (cellNW b).containsPoint p
def rNE (b : Cell K) (p : K × K) : Bool := !(cellNW b).containsPoint p && (cellNE b).containsPoint p
def rSW (b : Cell K) (p : K × K) : Bool :=
  !(cellNW b).containsPoint p && !(cellNE b).containsPoint p && (cellSW b).containsPoint p
def rSE (b : Cell K) (p : K × K) : Bool :=
  !(cellNW b).containsPoint p && !(cellNE b).containsPoint p && !(cellSW b).containsPoint p &&
    (cellSE b).containsPoint p

/-- `cum_size • com = Σ routed points` -/
def MassOK (data : Nat → K × K) (cum : Nat) (com : K × K) (is : List Nat) : Prop :=
  (cum : K) * com.1 = (is.map fun i => (data i).1).sum ∧ (cum : K) * com.2 = (is.map fun i => (data i).2).sum

/-- the insertion invariant (see the file header) -/
def WF (data : Nat → K × K) : Tree K → List Nat → Prop
  | .leaf _ cum _ none, is => is = [] ∧ cum = 0
  | .leaf b cum com (some r), is =>
    ∃ dups, is = r :: dups ∧ cum = is.length ∧ MassOK data cum com is ∧
      ∀ i ∈ is, b.containsPoint (data i) = true ∧ data i = data r
  | .node b cum com nw ne sw se, is =>
    ∃ r dups rest, is = r :: (dups ++ rest) ∧ cum = is.length ∧ MassOK data cum com is ∧
      (∀ i ∈ is, b.containsPoint (data i) = true) ∧ (∀ d ∈ dups, data d = data r) ∧
      (∃ j ∈ rest, data j ≠ data r) ∧
      nw.cell = cellNW b ∧ ne.cell = cellNE b ∧ sw.cell = cellSW b ∧ se.cell = cellSE b ∧
      WF data nw ((r :: rest).filter fun i => rNW b (data i)) ∧
      WF data ne ((r :: rest).filter fun i => rNE b (data i)) ∧
      WF data sw ((r :: rest).filter fun i => rSW b (data i)) ∧
      WF data se ((r :: rest).filter fun i => rSE b (data i))

theorem WF_emptyLeaf (data : Nat → K × K) (b : Cell K) : WF data (emptyLeaf b) [] := by
  simp [emptyLeaf, WF]

/-- the online update keeps `cum • com = Σ` -/
theorem massOK_upd (data : Nat → K × K) (cum : Nat) (com : K × K) (is : List Nat) (i : Nat)
    (h : MassOK data cum com is) : MassOK data (cum + 1) (updCom (cum + 1) com (data i)) (is ++ [i]) := by
  obtain ⟨h1, h2⟩ := h
  have hc : ((cum + 1 : Nat) : K) ≠ 0 := by
    have : (0 : K) < ((cum + 1 : Nat) : K) := by exact_mod_cast Nat.succ_pos cum
    exact ne_of_gt this
  unfold MassOK updCom
  simp only [Nat.add_sub_cancel, List.map_append, List.sum_append, List.map_cons, List.map_nil,
    List.sum_cons, List.sum_nil, add_zero]
  constructor
  · rw [← h1]; field_simp
  · rw [← h2]; field_simp

end TapkeeVerif.QuadTree
