import Mathlib.Algebra.Order.Field.Basic
import Mathlib.Tactic.Ring
import Mathlib.Tactic.Linarith
import Mathlib.Tactic.FieldSimp
import TapkeeVerif.Model.QuadTree
/-!
Geometry of cells and the insertion invariant `WF` of the quadtree model (C18).

`WF data t ps` : `ps` is the list of the coordinates of the points whose `insert` was accepted by the node `t` (passed its
containment test), in insertion order.  It pins `cum_size`, the centre of mass, the residents and — recursively — the
lists of the four children, which are the *geometric routes* (`first child in NW, NE, SW, SE order whose closed cell
contains the point`) of the node's list.  (The lists are lists of coordinates, not of indices: `subdivide()` hands the
resident's index down once per coincident point it stands for.)
-/
namespace TapkeeVerif.QuadTree

variable {K : Type} [Field K] [LinearOrder K] [IsStrictOrderedRing K]
set_option linter.unusedSectionVars false

theorem contains_iff (c : Cell K) (p : K × K) :
    c.containsPoint p = true ↔
      c.x - c.hw ≤ p.1 ∧ p.1 ≤ c.x + c.hw ∧ c.y - c.hh ≤ p.2 ∧ p.2 ≤ c.y + c.hh := by
  unfold Cell.containsPoint
  split_ifs with h1 h2 h3 h4
  · constructor
    · intro h; exact absurd h (by decide)
    · rintro ⟨h, -⟩; exact absurd h (not_le.mpr h1)
  · constructor
    · intro h; exact absurd h (by decide)
    · rintro ⟨-, h, -⟩; exact absurd h (not_le.mpr h2)
  · constructor
    · intro h; exact absurd h (by decide)
    · rintro ⟨-, -, h, -⟩; exact absurd h (not_le.mpr h3)
  · constructor
    · intro h; exact absurd h (by decide)
    · rintro ⟨-, -, -, h⟩; exact absurd h (not_le.mpr h4)
  · constructor
    · intro _; exact ⟨not_lt.mp h1, not_lt.mp h2, not_lt.mp h3, not_lt.mp h4⟩
    · intro _; rfl

theorem half_add_half (a : K) : half a + half a = a := by
  unfold half
  have : (1 + 1 : K) ≠ 0 := by norm_num
  field_simp

/-- the four children cover the parent's closed box -/
theorem children_cover (b : Cell K) (p : K × K) (h : b.containsPoint p = true) :
    (cellNW b).containsPoint p = true ∨ (cellNE b).containsPoint p = true ∨
    (cellSW b).containsPoint p = true ∨ (cellSE b).containsPoint p = true := by
  rw [contains_iff] at h
  obtain ⟨h1, h2, h3, h4⟩ := h
  have hw := half_add_half b.hw
  have hh := half_add_half b.hh
  simp only [contains_iff, cellNW, cellNE, cellSW, cellSE]
  rcases le_total p.1 b.x with hx | hx <;> rcases le_total p.2 b.y with hy | hy
  · left; refine ⟨?_, ?_, ?_, ?_⟩ <;> linarith
  · right; right; left; refine ⟨?_, ?_, ?_, ?_⟩ <;> linarith
  · right; left; refine ⟨?_, ?_, ?_, ?_⟩ <;> linarith
  · right; right; right; refine ⟨?_, ?_, ?_, ?_⟩ <;> linarith

/-! ### geometric routes -/

/-- which child takes a point: the first in the order NW, NE, SW, SE whose closed cell contains it -/
def rNW (b : Cell K) (p : K × K) : Bool := (cellNW b).containsPoint p
def rNE (b : Cell K) (p : K × K) : Bool := !(cellNW b).containsPoint p && (cellNE b).containsPoint p
def rSW (b : Cell K) (p : K × K) : Bool :=
  !(cellNW b).containsPoint p && !(cellNE b).containsPoint p && (cellSW b).containsPoint p
def rSE (b : Cell K) (p : K × K) : Bool :=
  !(cellNW b).containsPoint p && !(cellNE b).containsPoint p && !(cellSW b).containsPoint p &&
    (cellSE b).containsPoint p

/-- `cum_size • com = Σ routed points` -/
def MassOK (cum : Nat) (com : K × K) (ps : List (K × K)) : Prop :=
  (cum : K) * com.1 = (ps.map Prod.fst).sum ∧ (cum : K) * com.2 = (ps.map Prod.snd).sum

/-- the insertion invariant = the mass / centre-of-mass statement of C18, for every cell (see the file header) -/
def WF (data : Nat → K × K) : Tree K → List (K × K) → Prop
  | .leaf _ cum _ none, ps => ps = [] ∧ cum = 0
  | .leaf b cum com (some r), ps =>
    ps ≠ [] ∧ cum = ps.length ∧ MassOK cum com ps ∧ ∀ p ∈ ps, b.containsPoint p = true ∧ p = data r
  | .node b cum com nw ne sw se, ps =>
    cum = ps.length ∧ MassOK cum com ps ∧ (∀ p ∈ ps, b.containsPoint p = true) ∧
      (∃ p ∈ ps, ∃ q ∈ ps, p ≠ q) ∧
      nw.cell = cellNW b ∧ ne.cell = cellNE b ∧ sw.cell = cellSW b ∧ se.cell = cellSE b ∧
      WF data nw (ps.filter fun p => rNW b p) ∧
      WF data ne (ps.filter fun p => rNE b p) ∧
      WF data sw (ps.filter fun p => rSW b p) ∧
      WF data se (ps.filter fun p => rSE b p)

theorem WF_emptyLeaf (data : Nat → K × K) (b : Cell K) : WF data (emptyLeaf b) [] := by
  simp [emptyLeaf, WF]

theorem WF.cum_eq {data : Nat → K × K} {t : Tree K} {ps : List (K × K)} (h : WF data t ps) :
    t.cum = ps.length := by
  cases t with
  | leaf b cum com res =>
    cases res with
    | none => simp only [WF] at h; simp [Tree.cum, h.1, h.2]
    | some r => exact h.2.1
  | node => exact h.1

/-- the online update keeps `cum • com = Σ` -/
theorem massOK_upd (cum : Nat) (com : K × K) (ps : List (K × K)) (p : K × K)
    (h : MassOK cum com ps) : MassOK (cum + 1) (updCom (cum + 1) com p) (ps ++ [p]) := by
  obtain ⟨h1, h2⟩ := h
  have hc : ((cum + 1 : Nat) : K) ≠ 0 := by
    have : (0 : K) < ((cum + 1 : Nat) : K) := by exact_mod_cast Nat.succ_pos cum
    exact ne_of_gt this
  unfold MassOK updCom
  simp only [Nat.add_sub_cancel, List.map_append, List.sum_append, List.map_cons, List.map_nil,
    List.sum_cons, List.sum_nil, add_zero]
  constructor
  · rw [← h1]; field_simp
  · rw [← h2]; field_simp

end TapkeeVerif.QuadTree
