import TapkeeVerif.Proofs.OmpDeterminism
/-! From the generated access table to the operational model: a loop that performs only the accesses listed in a
    region's table inherits the table's race freedom; effect lists as programs. -/
namespace TapkeeVerif.Omp
variable {V E : Type}

theorem dimOverlap_trans_some {x y : Option Nat} {r : Nat} (hx : dimOverlap x (some r)) (hy : dimOverlap y (some r)) :
    dimOverlap x y := by
  cases x <;> cases y <;> simp_all

/-- two table rows that cover the same location in different iterations, one of them an uncritical write, conflict -/
theorem conflicts_of_covers (r : Region) (s : Nat → Nat) {a b : Access} {i j : Nat} {l : Loc}
    (hw : a.kind.isWrite = true) (hca : a.critical = false) (hfa : a.foreign = false) (hij : i ≠ j)
    (hi : r.lo s ≤ i ∧ i < r.hi s) (hj : r.lo s ≤ j ∧ j < r.hi s)
    (ha : a.covers s i l) (hb : b.covers s j l) : a.ConflictsWith r.lo r.hi b := by
  obtain ⟨harr, va, hga, hra, hcola⟩ := ha
  obtain ⟨hbrr, vb, hgb, hrb, hcolb⟩ := hb
  refine ⟨hw, harr.trans hbrr.symm, ?_, ?_, s, i, j, va, vb, hij, hi.1, hi.2, hj.1, hj.2, hga, hgb,
    dimOverlap_trans_some hra hrb, dimOverlap_trans_some hcola hcolb⟩
  · intro ⟨h, _⟩
    rw [hca] at h; cases h
  · intro ⟨h, _⟩
    rw [hfa] at h; cases h

/-- **Table ⇒ model.**  A loop conforming to a race-free region table is race free. -/
theorem raceFree_of_conforms (r : Region) (hr : r.RaceFree) (p : ParLoop V E) (s : Nat → Nat)
    (hc : p.Conforms r s) : p.RaceFree := by
  intro i j hij l hw
  have hval : r.lo s + i.val ≠ r.lo s + j.val := fun e => hij (Fin.ext (by omega))
  have hbi : r.lo s ≤ r.lo s + i.val ∧ r.lo s + i.val < r.hi s := ⟨by omega, by have := hc.size; have := i.isLt; omega⟩
  have hbj : r.lo s ≤ r.lo s + j.val ∧ r.lo s + j.val < r.hi s := ⟨by omega, by have := hc.size; have := j.isLt; omega⟩
  obtain ⟨a, ha, haw, hac, haf, hacov⟩ := hc.writes i l hw
  constructor
  · intro hwj
    obtain ⟨b, hb, _, _, _, hbcov⟩ := hc.writes j l hwj
    exact hr a ha b hb (conflicts_of_covers r s haw hac haf hval hbi hbj hacov hbcov)
  · intro hrj
    rcases hc.reads j l hrj ⟨i, hw⟩ with ⟨b, hb, _, _, _, hbcov⟩ | ⟨b, hb, _, _, _, hbcov⟩
    · exact hr a ha b hb (conflicts_of_covers r s haw hac haf hval hbi hbj hacov hbcov)
    · exact hr a ha b hb (conflicts_of_covers r s haw hac haf hval hbi hbj hacov hbcov)

/-! ### effect lists -/

/-- write / read sets of an effect list -/
def effW (es : List (Eff V E)) (l : Loc) : Prop := ∃ f, Eff.write l f ∈ es
def effR (es : List (Eff V E)) (l : Loc) : Prop := (Eff.read l : Eff V E) ∈ es

theorem ofEffs_writes (es : List (Eff V E)) (h : List V) (l : Loc) :
    (Prog.ofEffs es h).Writes l → effW es l := by
  induction es generalizing h with
  | nil => intro hw; cases hw
  | cons e es ih =>
    cases e with
    | read l0 =>
      intro hw
      cases hw with
      | read_k hw' =>
        obtain ⟨f, hf⟩ := ih _ hw'
        exact ⟨f, List.mem_cons_of_mem _ hf⟩
    | write l0 f0 =>
      intro hw
      cases hw with
      | here => exact ⟨f0, List.mem_cons_self ..⟩
      | write_k hw' =>
        obtain ⟨f, hf⟩ := ih _ hw'
        exact ⟨f, List.mem_cons_of_mem _ hf⟩
    | criticalAppend x =>
      intro hw
      cases hw with
      | crit_k hw' =>
        obtain ⟨f, hf⟩ := ih _ hw'
        exact ⟨f, List.mem_cons_of_mem _ hf⟩

theorem ofEffs_reads (es : List (Eff V E)) (h : List V) (l : Loc) :
    (Prog.ofEffs es h).Reads l → effR es l := by
  induction es generalizing h with
  | nil => intro hw; cases hw
  | cons e es ih =>
    cases e with
    | read l0 =>
      intro hw
      cases hw with
      | here => exact List.mem_cons_self ..
      | read_k hw' => exact List.mem_cons_of_mem _ (ih _ hw')
    | write l0 f0 =>
      intro hw
      cases hw with
      | write_k hw' => exact List.mem_cons_of_mem _ (ih _ hw')
    | criticalAppend x =>
      intro hw
      cases hw with
      | crit_k hw' => exact List.mem_cons_of_mem _ (ih _ hw')

/-- a parallel loop given as `(n, body : Fin n → List Eff)` -/
def ParLoop.ofEffs (n : Nat) (body : Fin n → List (Eff V E)) : ParLoop V E :=
  ⟨n, fun i => Prog.ofEffs (body i) []⟩

end TapkeeVerif.Omp
