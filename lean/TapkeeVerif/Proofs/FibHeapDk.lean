import TapkeeVerif.Proofs.FibHeapRoots
/-! Post-conditions of `dk` (descent of `decrease_key` with `cut` / `cascading_cut`), property C16. -/
namespace TapkeeVerif.FibHeap

/-- `pk ≤ k` for an optional parent key -/
def leO (pk : Option Int) (k : Int) : Prop := ∀ p, pk = some p → p ≤ k
/-- all top-level keys of `f` are ≥ the optional parent key -/
def keysGeO (pk : Option Int) (f : F) : Prop := ∀ p, pk = some p → f.keysGe p

@[simp] theorem keysGeO_none (f : F) : keysGeO none f := by intro p hp; cases hp
@[simp] theorem keysGeO_some (p : Int) (f : F) : keysGeO (some p) f ↔ f.keysGe p := by
  simp [keysGeO]
@[simp] theorem leO_none (k : Int) : leO none k := by intro p hp; cases hp
@[simp] theorem leO_some (p k : Int) : leO (some p) k ↔ p ≤ k := by simp [leO]
theorem keysGeO_cons (pk : Option Int) (i k r m kids rest) :
    keysGeO pk (.cons i k r m kids rest) ↔ leO pk k ∧ keysGeO pk rest := by
  cases pk <;> simp [F.keysGe]

def DkWF (pk : Option Int) (f : F) : DkRes → Prop
  | .notFound => True
  | .done f' cuts _ _ => f'.WF ∧ (∀ c ∈ cuts, c.Good) ∧ f'.len = f.len ∧ (pk.isSome → f'.vals = f.vals) ∧ keysGeO pk f'
  | .cutHere f' cuts => f'.WF ∧ (∀ c ∈ cuts, c.Good) ∧ f'.len + 1 = f.len ∧ (f'.vals).Sublist f.vals ∧ keysGeO pk f'

theorem dk_wf (idx : Nat) (nk : Int) (pk : Option Int) (f : F) (hwf : f.WF) (hk : keysGeO pk f) :
    DkWF pk f (dk idx nk pk f) := by
  fun_induction dk idx nk pk f
  case case1 => trivial
  case case2 => exact ⟨hwf, by simp, rfl, fun _ => rfl, hk⟩
  case case3 k r m kids rest h1 p h2 =>
    obtain ⟨w1, w2, w3, w4, w5⟩ := hwf
    rw [keysGeO_cons] at hk
    refine ⟨w5, ?_, rfl, List.sublist_cons_self _ _, hk.2⟩
    intro c hc; simp only [List.mem_singleton] at hc; subst hc
    exact ⟨w1, F.keysGe_mono (show nk ≤ k by omega) w2, w3, w4⟩
  case case4 k r m kids rest h1 p h2 =>
    obtain ⟨w1, w2, w3, w4, w5⟩ := hwf
    rw [keysGeO_cons] at hk
    refine ⟨⟨w1, F.keysGe_mono (by omega) w2, w3, w4, w5⟩, by simp, rfl, fun _ => rfl, ?_⟩
    rw [keysGeO_cons]; exact ⟨by simp; omega, hk.2⟩
  case case5 k r m kids rest h1 =>
    obtain ⟨w1, w2, w3, w4, w5⟩ := hwf
    exact ⟨⟨w1, F.keysGe_mono (by omega) w2, w3, w4, w5⟩, by simp, rfl, by simp, by simp⟩
  case case6 pk i k r m kids rest hne kids' cuts ir lg hx ih =>
    obtain ⟨w1, w2, w3, w4, w5⟩ := hwf
    have ih := ih w4 (by simpa using w2)
    rw [hx] at ih
    obtain ⟨a1, a2, a3, a4, a5⟩ := ih
    rw [keysGeO_cons] at hk
    refine ⟨⟨by omega, by simpa using a5, by rw [a4 rfl]; exact w3, a1, w5⟩, a2, rfl, fun _ => rfl, ?_⟩
    rw [keysGeO_cons]; exact hk
  case case7 i k r m kids rest hne kids' cuts hx ih =>
    obtain ⟨w1, w2, w3, w4, w5⟩ := hwf
    have ih := ih w4 (by simpa using w2)
    rw [hx] at ih
    obtain ⟨a1, a2, a3, a4, a5⟩ := ih
    exact ⟨⟨by omega, by simpa using a5, w3.sublist a4, a1, w5⟩, a2, rfl, by simp, by simp⟩
  case case8 i k r m kids rest hne kids' cuts hx p hm ih =>
    obtain ⟨w1, w2, w3, w4, w5⟩ := hwf
    have ih := ih w4 (by simpa using w2)
    rw [hx] at ih
    obtain ⟨a1, a2, a3, a4, a5⟩ := ih
    rw [keysGeO_cons] at hk
    refine ⟨⟨by omega, by simpa using a5, w3.sublist a4, a1, w5⟩, a2, rfl, ?_, ?_⟩
    · intro _; simp only [F.vals]; simp at hm; subst hm; simp; omega
    · rw [keysGeO_cons]; exact hk
  case case9 i k r m kids rest hne kids' cuts hx p hm ih =>
    obtain ⟨w1, w2, w3, w4, w5⟩ := hwf
    have ih := ih w4 (by simpa using w2)
    rw [hx] at ih
    obtain ⟨a1, a2, a3, a4, a5⟩ := ih
    rw [keysGeO_cons] at hk
    refine ⟨w5, ?_, rfl, List.sublist_cons_self _ _, hk.2⟩
    intro c hc; simp only [List.mem_append, List.mem_singleton] at hc
    rcases hc with hc | rfl
    · exact a2 c hc
    · exact ⟨by simp; omega, by simpa using a5, w3.sublist a4, a1⟩
  case case10 => trivial
  case case11 pk i k r m kids rest hne hx1 rest' cuts ir lg hx _ ih =>
    obtain ⟨w1, w2, w3, w4, w5⟩ := hwf
    rw [keysGeO_cons] at hk
    have ih := ih w5 hk.2
    rw [hx] at ih
    obtain ⟨a1, a2, a3, a4, a5⟩ := ih
    refine ⟨⟨w1, w2, w3, w4, a1⟩, a2, by simp [F.len, a3], ?_, ?_⟩
    · intro h; simp only [F.vals, a4 h]
    · rw [keysGeO_cons]; exact ⟨hk.1, a5⟩
  case case12 pk i k r m kids rest hne hx1 rest' cuts hx _ ih =>
    obtain ⟨w1, w2, w3, w4, w5⟩ := hwf
    rw [keysGeO_cons] at hk
    have ih := ih w5 hk.2
    rw [hx] at ih
    obtain ⟨a1, a2, a3, a4, a5⟩ := ih
    refine ⟨⟨w1, w2, w3, w4, a1⟩, a2, by simp [F.len]; omega, ?_, ?_⟩
    · simp only [F.vals]; exact a4.cons_cons _
    · rw [keysGeO_cons]; exact ⟨hk.1, a5⟩

/-! ### entries: `dk` replaces `(idx, old)` by `(idx, nk)` in the multiset of entries -/

/-- indicator -/
def ind (a b : Nat × Int) : Nat := if a = b then 1 else 0

theorem count_cons_ind (a b : Nat × Int) (l : List (Nat × Int)) :
    List.count a (b :: l) = List.count a l + ind a b := by
  simp only [List.count_cons, ind, beq_iff_eq]
  by_cases h : a = b
  · simp [h]
  · have : ¬ b = a := fun h' => h h'.symm
    simp [h, this]

def DkEnt (idx : Nat) (nk : Int) (f : F) : DkRes → Prop
  | .notFound => f.lookup idx = none
  | .done f' cuts _ true => f' = f ∧ cuts = [] ∧ ∃ old, f.lookup idx = some old ∧ nk > old
  | .done f' cuts _ false => ∃ old, f.lookup idx = some old ∧ nk ≤ old ∧
      ∀ a, List.count a f'.entries + List.count a (entriesL cuts) + ind a (idx, old)
        = List.count a f.entries + ind a (idx, nk)
  | .cutHere f' cuts => ∃ old, f.lookup idx = some old ∧ nk ≤ old ∧
      ∀ a, List.count a f'.entries + List.count a (entriesL cuts) + ind a (idx, old)
        = List.count a f.entries + ind a (idx, nk)

theorem dk_ent (idx : Nat) (nk : Int) (pk : Option Int) (f : F) : DkEnt idx nk f (dk idx nk pk f) := by
  fun_induction dk idx nk pk f
  case case1 => rfl
  case case2 k r m kids rest h => exact ⟨rfl, rfl, k, by simp [F.lookup], h⟩
  case case3 k r m kids rest h1 p h2 =>
    refine ⟨k, by simp [F.lookup], by omega, ?_⟩
    intro a
    simp only [F.entries, entriesL_cons, entriesL_nil, count_cons_ind, List.count_append, List.count_nil]
    omega
  case case4 k r m kids rest h1 p h2 =>
    refine ⟨k, by simp [F.lookup], by omega, ?_⟩
    intro a
    simp only [F.entries, entriesL_nil, count_cons_ind, List.count_append, List.count_nil]
    omega
  case case5 k r m kids rest h1 =>
    refine ⟨k, by simp [F.lookup], by omega, ?_⟩
    intro a
    simp only [F.entries, entriesL_nil, count_cons_ind, List.count_append, List.count_nil]
    omega
  case case6 pk i k r m kids rest hne kids' cuts ir lg hx ih =>
    rw [hx] at ih
    cases lg with
    | true =>
      obtain ⟨a1, a2, old, a3, a4⟩ := ih
      exact ⟨by rw [a1], a2, old, by simp [F.lookup, hne, a3], a4⟩
    | false =>
      obtain ⟨old, a1, a2, a3⟩ := ih
      refine ⟨old, by simp [F.lookup, hne, a1], a2, ?_⟩
      intro a
      have := a3 a
      simp only [F.entries, count_cons_ind, List.count_append]
      omega
  case case7 i k r m kids rest hne kids' cuts hx ih =>
    rw [hx] at ih
    obtain ⟨old, a1, a2, a3⟩ := ih
    refine ⟨old, by simp [F.lookup, hne, a1], a2, ?_⟩
    intro a
    have := a3 a
    simp only [F.entries, count_cons_ind, List.count_append]
    omega
  case case8 i k r m kids rest hne kids' cuts hx p hm ih =>
    rw [hx] at ih
    obtain ⟨old, a1, a2, a3⟩ := ih
    refine ⟨old, by simp [F.lookup, hne, a1], a2, ?_⟩
    intro a
    have := a3 a
    simp only [F.entries, count_cons_ind, List.count_append]
    omega
  case case9 i k r m kids rest hne kids' cuts hx p hm ih =>
    rw [hx] at ih
    obtain ⟨old, a1, a2, a3⟩ := ih
    refine ⟨old, by simp [F.lookup, hne, a1], a2, ?_⟩
    intro a
    have := a3 a
    simp only [F.entries, entriesL_append, entriesL_cons, entriesL_nil, count_cons_ind,
      List.count_append, List.count_nil]
    omega
  case case10 pk i k r m kids rest hne hx1 hx2 ih2 ih1 =>
    rw [hx1] at ih2; rw [hx2] at ih1
    simp only [DkEnt] at ih1 ih2 ⊢
    simp [F.lookup, hne, ih1, ih2]
  case case11 pk i k r m kids rest hne hx1 rest' cuts ir lg hx ih2 ih =>
    rw [hx1] at ih2; rw [hx] at ih
    simp only [DkEnt] at ih2
    cases lg with
    | true =>
      obtain ⟨a1, a2, old, a3, a4⟩ := ih
      exact ⟨by rw [a1], a2, old, by simp [F.lookup, hne, a3, ih2], a4⟩
    | false =>
      obtain ⟨old, a1, a2, a3⟩ := ih
      refine ⟨old, by simp [F.lookup, hne, a1, ih2], a2, ?_⟩
      intro a
      have := a3 a
      simp only [F.entries, count_cons_ind, List.count_append]
      omega
  case case12 pk i k r m kids rest hne hx1 rest' cuts hx ih2 ih =>
    rw [hx1] at ih2; rw [hx] at ih
    simp only [DkEnt] at ih2
    obtain ⟨old, a1, a2, a3⟩ := ih
    refine ⟨old, by simp [F.lookup, hne, a1, ih2], a2, ?_⟩
    intro a
    have := a3 a
    simp only [F.entries, count_cons_ind, List.count_append]
    omega

/-! ### the root ring (`pk = none`) -/

theorem dk_none_not_cutHere (idx : Nat) (nk : Int) (pk : Option Int) (f : F) (hpk : pk = none)
    (f' : F) (cuts : List Tr) : dk idx nk pk f ≠ .cutHere f' cuts := by
  fun_induction dk idx nk pk f generalizing f' cuts
  all_goals first
    | (intro h; cases h; done)
    | (cases hpk; done)
    | skip
  case case12 pk i k r m kids rest hne hx1 rest' cuts' hx ih2 ih =>
    exact absurd hx (ih hpk _ _)

/-- top-level relation between the ring before and after `dk`: same indices, same keys except
    (when the node is a root, `ir = true`) the key of `idx`, which became `nk` -/
def TopRel (idx : Nat) (nk : Int) (ir : Bool) : F → F → Prop
  | .nil, .nil => True
  | .cons i' k' _ _ _ rest', .cons i k _ _ _ rest =>
    i' = i ∧ (k' = k ∨ (ir = true ∧ i = idx ∧ k' = nk ∧ nk ≤ k)) ∧ TopRel idx nk ir rest' rest
  | _, _ => False

theorem TopRel.refl (idx : Nat) (nk : Int) (ir : Bool) (f : F) : TopRel idx nk ir f f := by
  induction f with
  | nil => trivial
  | cons i k r m kids rest _ ih => exact ⟨rfl, Or.inl rfl, ih⟩

def DkTop (idx : Nat) (nk : Int) (pk : Option Int) (f : F) : DkRes → Prop
  | .done f' cuts ir false =>
    (pk = none → TopRel idx nk ir f' f) ∧ ((∃ c ∈ cuts, c.idx = idx) ∨ ∃ t ∈ f'.trees, t.key ≤ nk)
  | .cutHere _ cuts => ∃ c ∈ cuts, c.idx = idx
  | _ => True

theorem dk_top (idx : Nat) (nk : Int) (pk : Option Int) (f : F) (hwf : f.WF) (hk : keysGeO pk f) :
    DkTop idx nk pk f (dk idx nk pk f) := by
  fun_induction dk idx nk pk f
  case case1 => trivial
  case case2 => trivial
  case case3 k r m kids rest h1 p h2 => exact ⟨⟨idx, nk, r, false, kids⟩, by simp, rfl⟩
  case case4 k r m kids rest h1 p h2 =>
    exact ⟨(by intro h; cases h), Or.inr ⟨_, by simp [F.trees]; exact Or.inl rfl, by simp⟩⟩
  case case5 k r m kids rest h1 =>
    refine ⟨fun _ => ⟨rfl, Or.inr ⟨rfl, rfl, rfl, by omega⟩, TopRel.refl _ _ _ _⟩, ?_⟩
    exact Or.inr ⟨_, by simp [F.trees]; exact Or.inl rfl, by simp⟩
  case case6 pk i k r m kids rest hne kids' cuts ir lg hx ih =>
    obtain ⟨w1, w2, w3, w4, w5⟩ := hwf
    have hw := dk_wf idx nk (some k) kids w4 (by simpa using w2)
    have ih := ih w4 (by simpa using w2)
    rw [hx] at ih hw
    cases lg with
    | true => trivial
    | false =>
      refine ⟨fun _ => ⟨rfl, Or.inl rfl, TopRel.refl _ _ _ _⟩, ?_⟩
      rcases ih.2 with h | ⟨t, ht, htk⟩
      · exact Or.inl h
      · refine Or.inr ⟨⟨i, k, r, m, kids'⟩, by simp [F.trees], ?_⟩
        have := (F.keysGe_iff k kids').1 (by simpa using hw.2.2.2.2) t ht
        show k ≤ nk
        omega
  case case7 i k r m kids rest hne kids' cuts hx ih =>
    obtain ⟨w1, w2, w3, w4, w5⟩ := hwf
    have ih := ih w4 (by simpa using w2)
    rw [hx] at ih
    exact ⟨fun _ => ⟨rfl, Or.inl rfl, TopRel.refl _ _ _ _⟩, Or.inl ih⟩
  case case8 i k r m kids rest hne kids' cuts hx p hm ih =>
    obtain ⟨w1, w2, w3, w4, w5⟩ := hwf
    have ih := ih w4 (by simpa using w2)
    rw [hx] at ih
    exact ⟨(by intro h; cases h), Or.inl ih⟩
  case case9 i k r m kids rest hne kids' cuts hx p hm ih =>
    obtain ⟨w1, w2, w3, w4, w5⟩ := hwf
    have ih := ih w4 (by simpa using w2)
    rw [hx] at ih
    obtain ⟨c, hc, hci⟩ := ih
    exact ⟨c, by simp [hc], hci⟩
  case case10 => trivial
  case case11 pk i k r m kids rest hne hx1 rest' cuts ir lg hx ih2 ih =>
    obtain ⟨w1, w2, w3, w4, w5⟩ := hwf
    rw [keysGeO_cons] at hk
    have ih := ih w5 hk.2
    rw [hx] at ih
    cases lg with
    | true => trivial
    | false =>
      refine ⟨fun h => ⟨rfl, Or.inl rfl, ih.1 h⟩, ?_⟩
      rcases ih.2 with h | ⟨t, ht, htk⟩
      · exact Or.inl h
      · exact Or.inr ⟨t, by simp [F.trees, ht], htk⟩
  case case12 pk i k r m kids rest hne hx1 rest' cuts hx ih2 ih =>
    obtain ⟨w1, w2, w3, w4, w5⟩ := hwf
    rw [keysGeO_cons] at hk
    have ih := ih w5 hk.2
    rw [hx] at ih
    exact ih

end TapkeeVerif.FibHeap
