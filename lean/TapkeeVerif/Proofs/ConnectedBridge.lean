import TapkeeVerif.Props.C04
import TapkeeVerif.Proofs.ConnectedPerm
/-!
C03 ↔ C04: strong connectivity of the neighbourhood graph (C03's `StronglyConnected`, over `Connected.Reach`)
gives a directed walk between every ordered pair in C04's sense (`Dijkstra.Walk`), hence — by C04's
`dijkstra_exact` (`none` iff unreachable) — every entry of the geodesic matrix computed by
`compute_shortest_distances_matrix` is finite.  Also: order independence of the *result* of `find_neighbors`.
-/
namespace TapkeeVerif.Connected
open List

/-- the C04 problem for a neighbourhood graph `g` over `N` samples with edge weights `w` -/
def problemOf {K : Type} (g : Graph) (N : Nat) (w : Nat → Nat → K) : Dijkstra.Problem K :=
  ⟨N, (g.map List.toArray).toArray, w⟩

theorem problemOf_nbr {K : Type} (g : Graph) (N : Nat) (w : Nat → Nat → K) (u i : Nat) :
    (problemOf g N w).nbr u i = (g[u]?).bind (·[i]?) := by
  unfold Dijkstra.Problem.nbr problemOf
  simp only [List.getElem?_toArray, getElem?_map]
  cases g[u]? with
  | none => rfl
  | some l => simp

theorem problemOf_wf {K : Type} {g : Graph} {N k : Nat} (hu : Uniform g N k) (w : Nat → Nat → K) :
    Dijkstra.WF (problemOf g N w) k := by
  intro u hu' i hi
  have hlt : u < g.length := by rw [hu.1]; exact hu'
  have hl := hu.2 g[u] (getElem_mem hlt)
  have hi' : i < g[u].length := by rw [hl.1]; exact hi
  refine ⟨g[u][i], ?_, hl.2 _ (getElem_mem hi')⟩
  rw [problemOf_nbr, getElem?_eq_getElem hlt]
  simp [getElem?_eq_getElem hi']

section
variable {K : Type} [AddCommMonoid K] [LinearOrder K] [IsOrderedAddMonoid K]

/-- an edge of the graph is an edge of the C04 problem -/
theorem dijkstraEdge_of_edge {g : Graph} {N k : Nat} (hu : Uniform g N k) (w : Nat → Nat → K) {a b : Nat}
    (he : Edge g a b) : Dijkstra.Edge (problemOf g N w) k a b := by
  obtain ⟨ha, hb⟩ := Edge.lt_of_wf hu.wf he
  obtain ⟨nb, hnb, hmem⟩ := he
  refine ⟨ha, hb, ?_⟩
  obtain ⟨i, hi, hget⟩ := getElem_of_mem hmem
  have hlt : a < g.length := by rw [hu.1]; exact ha
  have hnb' : nb = g[a] := by
    rw [getElem?_eq_getElem hlt] at hnb
    exact (Option.some.inj hnb).symm
  have hk : nb.length = k := by rw [hnb']; exact (hu.2 _ (getElem_mem hlt)).1
  refine ⟨i, by omega, ?_⟩
  rw [problemOf_nbr, hnb]
  simp [getElem?_eq_getElem hi, hget]

/-- a path of C03 is a walk of C04 -/
theorem walk_of_reach {g : Graph} {N k : Nat} (hu : Uniform g N k) (w : Nat → Nat → K) {a b : Nat} (ha : a < N)
    (hr : Reach g a b) : ∃ d, Dijkstra.Walk (problemOf g N w) k a b d := by
  induction hr with
  | refl => exact ⟨0, Dijkstra.Walk.nil ha⟩
  | step _ he ih =>
    obtain ⟨d, hd⟩ := ih
    exact ⟨_, Dijkstra.Walk.snoc hd (dijkstraEdge_of_edge hu w he)⟩

/-- **all geodesics are finite on a strongly connected graph**: for uniform lists, non-negative weights, both
    queue disciplines and every tie-breaking stream, the row `compute_shortest_distances_matrix` computes for any
    source `s` exists and has no `dblmax` (`none`) entry. -/
theorem geodesics_finite {g : Graph} {N k : Nat} (hu : Uniform g N k) (hN : 0 < N) (hsc : StronglyConnected g N)
    (w : Nat → Nat → K) (hw : ∀ a b, 0 ≤ w a b) (disc : Dijkstra.Disc) (ch : Nat → Nat) {s : Nat} (hs : s < N) :
    ∃ r, Dijkstra.row (problemOf g N w) disc k ch s s = .ok r ∧ ∀ v (hv : v < N), r[v] ≠ none := by
  obtain ⟨r, hr, hg⟩ := Dijkstra.dijkstra_exact (P := problemOf g N w) (problemOf_wf hu w) hw disc ch (s := s) hs
  refine ⟨r, hr, ?_⟩
  intro v hv hnone
  have hgeo := hg v hv
  rw [hnone] at hgeo
  have hreach : Reach g s v := by
    have := hsc s hs v hv
    rwa [hu.followed hN] at this
  obtain ⟨d, hd⟩ := walk_of_reach hu w hs hreach
  exact hgeo d hd

end

/-! ### order independence of the result of `find_neighbors` -/

/-- two graphs with the same edges (lists equal up to order) -/
def SameEdges (g g' : Graph) (N : Nat) : Prop := ∀ a, a < N → ∀ b, Edge g a b ↔ Edge g' a b

theorem reach_of_sameEdges {g g' : Graph} {N : Nat} (hwf : WFG N g) (h : SameEdges g g' N) {a b : Nat} (ha : a < N)
    (hr : Reach g a b) : Reach g' a b := by
  induction hr with
  | refl => exact Reach.refl _
  | step hr' he ih =>
    rename_i v' w'
    have hv' : v' < N := by
      cases hr' with
      | refl => exact ha
      | step _ he' => exact (Edge.lt_of_wf hwf he').2
    exact Reach.step ih ((h v' hv' w').1 he)

/-- the verdict of `is_connected` depends on the edge sets only -/
theorem isConnected_sameEdges {g g' : Graph} {N k : Nat} (hu : Uniform g N k) (hu' : Uniform g' N k) (hN : 0 < N)
    (h : SameEdges g g' N) : isConnected N g' = isConnected N g := by
  obtain ⟨b1, hb1, h1⟩ := isConnected_spec hN (hu'.not_oob hN)
  obtain ⟨b2, hb2, h2⟩ := isConnected_spec hN (hu.not_oob hN)
  rw [hb1, hb2]
  congr 1
  rw [Bool.eq_iff_iff, h1, h2]
  unfold StronglyConnected
  rw [hu.followed hN, hu'.followed hN]
  constructor
  · intro hs u hu1 v hv
    exact reach_of_sameEdges hu'.wf (fun a ha b => (h a ha b).symm) hu1 (hs u hu1 v hv)
  · intro hs u hu1 v hv
    exact reach_of_sameEdges hu.wf h hu1 (hs u hu1 v hv)

/-- the two runs as related results -/
def SameRun (search search' : Nat → Graph) : Res Found → Res Found → Prop
  | .ok f, .ok f' => f'.k = f.k ∧ f'.tried = f.tried ∧ f.graph = search f.k ∧ f'.graph = search' f.k
  | .oob, .oob => True
  | .fuelOut, .fuelOut => True
  | _, _ => False

/-- **the result does not depend on the order of the samples** — as far as it is determined: if for every k the
    search on the re-ordered data returns, up to the order inside each list, the relabelled lists of the search on the
    original data (true of every exact search on tie-free data, where the k-NN sets are unique:
    `exactKnn_unique_of_tieFree`), then both runs of `find_neighbors(.., true)` try the same k sequence, stop at the
    same final k, and return the graphs of that k. -/
theorem findNeighbors_order_independent (search search' : Nat → Graph) {N : Nat} (hN : 0 < N) {π inv : List Nat}
    (hp : IsPermPair π inv N)
    (hu : ∀ k, k ≤ N - 1 → Uniform (search k) N k) (hu' : ∀ k, k ≤ N - 1 → Uniform (search' k) N k)
    (heq : ∀ k, k ≤ N - 1 → SameEdges (relabel (search k) π inv) (search' k) N) :
    ∀ (fuel k : Nat) (tried : List Nat),
      SameRun search search' (findNeighbors search N true fuel k tried) (findNeighbors search' N true fuel k tried)
  | 0, _, _ => by simp [findNeighbors, SameRun]
  | fuel + 1, k, tried => by
    rw [findNeighbors_unfold, findNeighbors_unfold]
    simp only [if_true]
    have hck : clamp N k ≤ N - 1 := by rw [clamp_eq_min]; omega
    have hc : isConnected N (search' (clamp N k)) = isConnected N (search (clamp N k)) := by
      rw [isConnected_sameEdges (relabel_uniform (hu _ hck) hp) (hu' _ hck) hN (heq _ hck)]
      exact isConnected_relabel (hu _ hck) hp hN
    rw [hc]
    cases hres : isConnected N (search (clamp N k)) with
    | ok b =>
      cases b with
      | true => exact ⟨rfl, rfl, rfl, rfl⟩
      | false => exact findNeighbors_order_independent search search' hN hp hu hu' heq fuel _ _
    | oob => trivial
    | fuelOut => trivial

end TapkeeVerif.Connected
