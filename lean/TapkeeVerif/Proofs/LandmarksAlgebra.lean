import Mathlib.Algebra.BigOperators.Fin
import Mathlib.Algebra.BigOperators.Ring.Finset
import Mathlib.Algebra.BigOperators.Field
import Mathlib.Algebra.CharZero.Defs
import Mathlib.Tactic.Ring
import Mathlib.Tactic.FieldSimp
import Mathlib.Tactic.Linarith
import TapkeeVerif.Proofs.MatBridge
import TapkeeVerif.Proofs.LandmarksSelect
/-!
C11 helper lemmas: the algebra of Landmark MDS (double centring, the triangulation formula, exact recovery).
Everything is over a field of characteristic zero; sums are Mathlib `∑` after `sumFin_eq_sum`.
-/
namespace TapkeeVerif.Landmarks
open TapkeeVerif Finset

variable {K : Type} [Field K] {N nl d m : Nat}

/-! ### unfolding the transcribed definitions into `∑` -/

theorem negHalf_eq [CharZero K] : (negHalf : K) = -(1 / 2) := by
  simp [negHalf]

theorem colMeans_apply {n k : Nat} (A : Mat n k K) (j : Fin k) : colMeans A j = (∑ i, A i j) / (n : K) := by
  simp [colMeans, sumFin_eq_sum]

theorem grandMean_eq {n k : Nat} (A : Mat n k K) : grandMean A = (∑ i, ∑ j, A i j) / ((n : K) * (k : K)) := by
  simp [grandMean, sumFin_eq_sum, Nat.cast_mul]

theorem centerMatrix_apply {n : Nat} (A : Mat n n K) (i j : Fin n) :
    centerMatrix A i j = A i j + grandMean A - colMeans A j - colMeans A i := by
  simp [centerMatrix, centerWith]

theorem lmdsB_apply (δ : Mat N N K) (lm : Fin nl → Fin N) (a b : Fin nl) :
    lmdsB δ lm a b =
      (landmarkSqDist δ lm a b + grandMean (landmarkSqDist δ lm) - colMeans (landmarkSqDist δ lm) b
        - colMeans (landmarkSqDist δ lm) a) * negHalf := by
  simp [lmdsB, scale, centerMatrix_apply]

/-! ### double centring -/

/-- the sum of the column means is `n` times the grand mean -/
theorem sum_colMeans {n : Nat} (A : Mat n n K) (hn : (n : K) ≠ 0) :
    ∑ a, colMeans A a = (n : K) * grandMean A := by
  simp only [colMeans_apply, grandMean_eq]
  rw [← Finset.sum_div, Finset.sum_comm]
  field_simp

theorem sum_col {n : Nat} (A : Mat n n K) (hn : (n : K) ≠ 0) (b : Fin n) :
    ∑ a, A a b = (n : K) * colMeans A b := by
  rw [colMeans_apply]
  field_simp

/-- every column of the doubly centred matrix sums to zero -/
theorem centerMatrix_col_sum {n : Nat} (A : Mat n n K) (hn : (n : K) ≠ 0) (b : Fin n) :
    ∑ a, centerMatrix A a b = 0 := by
  simp only [centerMatrix_apply]
  rw [Finset.sum_sub_distrib, Finset.sum_sub_distrib, Finset.sum_add_distrib, sum_col A hn, sum_colMeans A hn]
  simp only [Finset.sum_const, Finset.card_univ, Fintype.card_fin, nsmul_eq_mul]
  ring

theorem lmdsB_col_sum (δ : Mat N N K) (lm : Fin nl → Fin N) (hn : (nl : K) ≠ 0) (b : Fin nl) :
    ∑ a, lmdsB δ lm a b = 0 := by
  have : ∀ a, lmdsB δ lm a b = centerMatrix (landmarkSqDist δ lm) a b * negHalf := by
    intro a; simp [lmdsB, scale]
  simp only [this]
  rw [← Finset.sum_mul, centerMatrix_col_sum _ hn, zero_mul]

/-! ### eigenvectors of a centred matrix -/

theorem isEig_apply {n : Nat} {B : Mat n n K} {V : Mat n d K} {lam : Vec d K} (h : IsEig B V lam) (a : Fin n) (i : Fin d) :
    ∑ b, B a b * V b i = lam i * V a i := by
  have := h a i
  rwa [sumFin_eq_sum] at this

/-- an eigenvector for a nonzero eigenvalue of a matrix whose columns sum to zero has entries summing to zero -/
theorem eig_sum_zero {n : Nat} {B : Mat n n K} {V : Mat n d K} {lam : Vec d K} (h : IsEig B V lam)
    (hcol : ∀ b, ∑ a, B a b = 0) (i : Fin d) (hl : lam i ≠ 0) : ∑ a, V a i = 0 := by
  have h1 : ∑ a, lam i * V a i = 0 := by
    calc ∑ a, lam i * V a i = ∑ a, ∑ b, B a b * V b i := by
          apply Finset.sum_congr rfl; intro a _; rw [isEig_apply h]
      _ = ∑ b, ∑ a, B a b * V b i := Finset.sum_comm
      _ = ∑ b, (∑ a, B a b) * V b i := by
          apply Finset.sum_congr rfl; intro b _; rw [Finset.sum_mul]
      _ = 0 := by simp [hcol]
  rw [← Finset.mul_sum] at h1
  exact (mul_eq_zero.mp h1).resolve_left hl

/-! ### the triangulation formula reproduces the landmark rows -/

theorem landmarkSqDist_symm (δ : Mat N N K) (lm : Fin nl → Fin N) (a b : Fin nl) :
    landmarkSqDist δ lm a b = landmarkSqDist δ lm b a := by
  unfold landmarkSqDist sqDistMatrix subCallback
  by_cases h1 : a ≤ b <;> by_cases h2 : b ≤ a
  · have : a = b := le_antisymm h1 h2
    subst this; rfl
  · simp [h1, h2]
  · simp [h1, h2]
  · exact absurd (le_of_not_ge h1) h2

theorem lmdsB_symm (δ : Mat N N K) (lm : Fin nl → Fin N) (a b : Fin nl) : lmdsB δ lm a b = lmdsB δ lm b a := by
  rw [lmdsB_apply, lmdsB_apply, landmarkSqDist_symm δ lm a b]
  ring

/-- `-½ (A a b − μ b) = B a b + ½ (g − μ a)` for `B = -½ centre(A)` -/
theorem negHalf_sub_mu [CharZero K] (δ : Mat N N K) (lm : Fin nl → Fin N) (a b : Fin nl) :
    negHalf * (landmarkSqDist δ lm a b - lmdsMu δ lm b) =
      lmdsB δ lm a b - negHalf * (grandMean (landmarkSqDist δ lm) - lmdsMu δ lm a) := by
  rw [lmdsB_apply]
  unfold lmdsMu
  ring

/-- core of `triangulate_fixes_landmarks`: for an eigen-system of `lmdsB`, the triangulation expression with the
    landmark eigenvectors scaled column-wise by `c` (`c i = s i / lam i` where the pseudo-inverse divides, `0` where it
    zeroes the column), evaluated on the squared distances of landmark `a` to the landmarks, returns
    `c i * lam i * V a i` -/
theorem triangulation_of_landmark_column [CharZero K] (δ : Mat N N K) (lm : Fin nl → Fin N) (hn : (nl : K) ≠ 0)
    (V : Mat nl d K) (lam : Vec d K) (heig : IsEig (lmdsB δ lm) V lam) (a : Fin nl) (i : Fin d) (c : K)
    (hc : c = 0 ∨ lam i ≠ 0) :
    negHalf * ∑ b, (V b i * c) * (landmarkSqDist δ lm a b - lmdsMu δ lm b) = c * (lam i * V a i) := by
  rcases hc with rfl | hl
  · simp
  have hsum : ∑ b, V b i = 0 := eig_sum_zero heig (lmdsB_col_sum δ lm hn) i hl
  calc negHalf * ∑ b, (V b i * c) * (landmarkSqDist δ lm a b - lmdsMu δ lm b)
      = ∑ b, (V b i * c) * (negHalf * (landmarkSqDist δ lm a b - lmdsMu δ lm b)) := by
        rw [Finset.mul_sum]; apply Finset.sum_congr rfl; intro b _; ring
    _ = ∑ b, (c * (lmdsB δ lm a b * V b i)
          - c * (negHalf * (grandMean (landmarkSqDist δ lm) - lmdsMu δ lm a)) * V b i) := by
        apply Finset.sum_congr rfl; intro b _; rw [negHalf_sub_mu]; ring
    _ = c * ∑ b, lmdsB δ lm a b * V b i
          - c * (negHalf * (grandMean (landmarkSqDist δ lm) - lmdsMu δ lm a)) * ∑ b, V b i := by
        rw [Finset.sum_sub_distrib, ← Finset.mul_sum, ← Finset.mul_sum]
    _ = c * (lam i * V a i) := by
        rw [hsum, isEig_apply heig, mul_zero, sub_zero]

/-! ### the pseudo-inverse of `triangulate` -/
section pinv
variable [LinearOrder K]

/-- the factor the pseudo-inverse loop applies to column `i` of `V diag s` -/
def coef (tol : K) (lam s : Vec d K) : Vec d K := fun i => if tol < lam i then s i / lam i else 0

theorem pinvCols_post {n : Nat} (tol : K) (V : Mat n d K) (lam s : Vec d K) (a : Fin n) (i : Fin d) :
    pinvCols tol (post V s) lam a i = V a i * coef tol lam s i := by
  unfold pinvCols coef post
  split <;> ring

theorem coef_zero_or (tol : K) (htol : 0 ≤ tol) (lam s : Vec d K) (i : Fin d) : coef tol lam s i = 0 ∨ lam i ≠ 0 := by
  unfold coef
  by_cases h : tol < lam i
  · right; exact ne_of_gt (lt_of_le_of_lt htol h)
  · left; simp [h]

theorem maxAbsVec_foldl_nonneg [IsStrictOrderedRing K] (lam : Vec d K) (l : List (Fin d)) (acc : K) (h : 0 ≤ acc) :
    0 ≤ l.foldl (fun acc i => if acc < absK (lam i) then absK (lam i) else acc) acc := by
  induction l generalizing acc with
  | nil => exact h
  | cons i t ih =>
    simp only [List.foldl]
    apply ih
    split
    · rename_i hlt; exact le_of_lt (lt_of_le_of_lt h hlt)
    · exact h

theorem maxAbsVec_nonneg [IsStrictOrderedRing K] (lam : Vec d K) : 0 ≤ maxAbsVec lam :=
  maxAbsVec_foldl_nonneg lam _ 0 le_rfl

/-- the tolerance `n · ε · max|λ|` is non-negative -/
theorem eigTol_nonneg [IsStrictOrderedRing K] (n : Nat) (eps : K) (heps : 0 ≤ eps) (lam : Vec d K) :
    0 ≤ eigTol n eps lam := by
  unfold eigTol
  exact mul_nonneg (mul_nonneg (Nat.cast_nonneg n) heps) (maxAbsVec_nonneg lam)

@[simp] theorem eigTol_zero (n : Nat) (lam : Vec d K) : eigTol n (0 : K) lam = 0 := by
  simp [eigTol]

theorem clamp0_of_nonneg {x : K} (h : 0 ≤ x) : clamp0 x = x := by
  unfold clamp0
  simp [not_lt.mpr h]

theorem clamp0_of_nonpos {x : K} (h : x ≤ 0) : clamp0 x = 0 := by
  unfold clamp0
  by_cases hx : x < 0
  · simp [hx]
  · simp [hx]; exact le_antisymm h (not_lt.mp hx)

end pinv

end TapkeeVerif.Landmarks
