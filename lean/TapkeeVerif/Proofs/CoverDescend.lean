import TapkeeVerif.Proofs.CoverLive
/-!
C02, cover tree batch query, part 7: `descend` — the loop over the parents of `cover_sets[current_scale]`
and, inside, over the children of each parent — keeps the live-set invariant.
-/
namespace TapkeeVerif.CoverTree
open List TapkeeVerif.VpTree

variable {K : Type} [LinearOrder K] [AddCommGroup K] [IsOrderedAddMonoid K]
variable {δ : Nat → Nat → K} {pts : List Nat} {K0 : Nat}

/-- the live set while `descend` runs at scale `cur`: zero set, pending entries (children still to be tested,
    parents still to be descended), entries at the scales above `cur` -/
def dlive (st : DState K) (pend : List (DN K)) (cur : Nat) : List (DN K) :=
  st.zero ++ pend ++ hi st.cover cur st.maxScale

variable (δ pts K0)

structure DI (Q : CNode K) (L : List Nat) (cur : Nat) (st : DState K) (pend : List (DN K)) (Off : List Nat) : Prop where
  ub : UBOk δ pts K0 Q.p st.ub Off
  live : LiveOk δ pts K0 Q.p L Off (dlive st pend cur)
  leafs : ∀ e ∈ st.zero, e.node.children = []
  sc : ∀ s, cur < s → ∀ e ∈ st.cover s, s ≤ st.maxScale ∧ s ≤ e.node.scale ∧ e.node.children ≠ []

variable {δ pts K0}

theorem DI.empty_above {Q : CNode K} {L : List Nat} {cur : Nat} {st : DState K} {pend : List (DN K)} {Off : List Nat}
    (h : DI δ pts K0 Q L cur st pend Off) : ∀ t, st.maxScale < t → cur < t → st.cover t = [] := by
  intro t ht hct
  apply eq_nil_iff_forall_not_mem.2
  intro e he
  have := (h.sc t hct e he).1
  omega

/-- what a step of `descend` may change outside the live set -/
structure Step (cur : Nat) (st st' : DState K) (Off Off' : List Nat) : Prop where
  low : ∀ s, s ≤ cur → st'.cover s = st.cover s
  max : st.maxScale ≤ st'.maxScale
  offSub : ∀ o ∈ Off, o ∈ Off'

theorem Step.refl (cur : Nat) (st : DState K) (Off : List Nat) : Step cur st st Off Off :=
  ⟨fun _ _ => rfl, Nat.le_refl _, fun _ h => h⟩

theorem Step.trans {cur : Nat} {s1 s2 s3 : DState K} {O1 O2 O3 : List Nat} (h1 : Step cur s1 s2 O1 O2)
    (h2 : Step cur s2 s3 O2 O3) : Step cur s1 s3 O1 O3 :=
  ⟨fun s hs => (h2.low s hs).trans (h1.low s hs), Nat.le_trans h1.max h2.max, fun o ho => h2.offSub o (h1.offSub o ho)⟩

/-- the pending head entry is dropped (soundly pruned) -/
theorem DI.drop {Q : CNode K} {L : List Nat} {cur : Nat} {st : DState K} {e : DN K} {pend : List (DN K)}
    {Off : List Nat} (h : DI δ pts K0 Q L cur st (e :: pend) Off)
    (hs : ∀ q' ∈ L, ∀ c ∈ e.node.leaves, ¬ Near δ pts K0 q' c) : DI δ pts K0 Q L cur st pend Off := by
  refine ⟨h.ub, ?_, h.leafs, h.sc⟩
  have hp : (e :: (st.zero ++ pend ++ hi st.cover cur st.maxScale)).Perm (dlive st (e :: pend) cur) := by
    unfold dlive
    rw [append_assoc, append_assoc]
    exact perm_middle.symm.trans (by rw [cons_append])
  have := (h.live.perm hp).drop_head hs
  simpa [dlive] using this

theorem mem_dlive_head {st : DState K} {e : DN K} {pend : List (DN K)} {cur : Nat} : e ∈ dlive st (e :: pend) cur := by
  unfold dlive
  simp

/-- the pending head entry is recorded in the zero set; the array may have been updated by an offer -/
theorem DI.keep_zero {Q : CNode K} {L : List Nat} {cur : Nat} {st : DState K} {e : DN K} {pend : List (DN K)}
    {Off Off' : List Nat} {ub' : List K} (h : DI δ pts K0 Q L cur st (e :: pend) Off)
    (hub : UBOk δ pts K0 Q.p ub' Off') (hlive : LiveOk δ pts K0 Q.p L Off' (dlive st (e :: pend) cur))
    (hleaf : e.node.children = []) :
    DI δ pts K0 Q L cur { st with ub := ub', zero := st.zero ++ [e] } pend Off' := by
  refine ⟨hub, ?_, ?_, h.sc⟩
  · apply hlive.perm
    unfold dlive
    simp only [append_assoc, singleton_append]
    exact Perm.refl _
  · intro e' he'
    rcases mem_append.1 he' with he' | he'
    · exact h.leafs e' he'
    · simp only [mem_singleton] at he'
      subst he'
      exact hleaf

/-- the pending head entry is pushed into the cover set of its scale (above `cur`) -/
theorem DI.keep_cover {Q : CNode K} {L : List Nat} {cur : Nat} {st : DState K} {e : DN K} {pend : List (DN K)}
    {Off Off' : List Nat} {ub' : List K} (h : DI δ pts K0 Q L cur st (e :: pend) Off)
    (hub : UBOk δ pts K0 Q.p ub' Off') (hlive : LiveOk δ pts K0 Q.p L Off' (dlive st (e :: pend) cur))
    (hch : e.node.children ≠ []) (hsc : cur < e.node.scale) :
    DI δ pts K0 Q L cur
      { ub := ub', maxScale := max st.maxScale e.node.scale, cover := st.cover.push e.node.scale e, zero := st.zero }
      pend Off' := by
  refine ⟨hub, ?_, h.leafs, ?_⟩
  · apply hlive.perm
    unfold dlive
    dsimp only
    have hp := hi_push (cover := st.cover) (cur := cur) (M := st.maxScale) (M' := max st.maxScale e.node.scale)
      (s := e.node.scale) e hsc (Nat.le_max_right _ _) (Nat.le_max_left _ _)
      (fun t ht hct => h.empty_above t ht hct)
    refine ((hp.append_left (st.zero ++ pend))).trans ?_
    simp only [append_assoc]
    apply Perm.append_left
    rw [← append_assoc]
    exact perm_append_singleton _ _
  · intro s hs e' he'
    dsimp only at he' ⊢
    by_cases hse : s = e.node.scale
    · subst hse
      have : e' ∈ st.cover e.node.scale ∨ e' = e := by
        simpa [Cover.push] using he'
      rcases this with h1 | h1
      · have := h.sc _ hs e' h1
        exact ⟨Nat.le_trans this.1 (Nat.le_max_left _ _), this.2⟩
      · subst h1
        exact ⟨Nat.le_max_right _ _, Nat.le_refl _, hch⟩
    · have : e' ∈ st.cover s := by simpa [Cover.push, hse] using he'
      have := h.sc s hs e' this
      exact ⟨Nat.le_trans this.1 (Nat.le_max_left _ _), this.2⟩

theorem subInf_upperChi (u : Option K) (m σ : K) :
    subInf (addInf (addInf (addInf u m) σ) σ) m = addInf (addInf u σ) σ := by
  cases u with
  | none => rfl
  | some v => simp only [addInf, subInf, Option.map_some]; congr 1; abel

/-- **one non-first child** (`descendChild`) -/
theorem descendChild_DI (hm : IsMetric δ) (hK : 1 ≤ K0) {Q : CNode K} {L : List Nat} {cur : Nat} {st : DState K}
    {pend : List (DN K)} {Off : List Nat} {parp : Nat} {chi : CNode K}
    (hI : DI δ pts K0 Q L cur st (⟨δ Q.p chi.p, chi⟩ :: pend) Off) (hσ : ∀ q' ∈ L, δ Q.p q' ≤ Q.maxDist)
    (hpd : chi.parentDist = δ parp chi.p) (hnot : chi.p ∉ Off) (hsc : chi.children = [] ∨ cur < chi.scale) :
    ∃ Off', DI δ pts K0 Q L cur (descendChild δ K0 Q (δ Q.p parp) st chi) pend Off' ∧
      Step cur st (descendChild δ K0 Q (δ Q.p parp) st chi) Off Off' ∧ ∀ o ∈ Off', o = chi.p ∨ o ∈ Off := by
  have hnode : NodeOk δ pts chi := hI.live.node ⟨δ Q.p chi.p, chi⟩ mem_dlive_head
  have hρ : ∀ c ∈ chi.leaves, δ chi.p c ≤ chi.maxDist := leaves_within δ hnode.1
  have hchip : chi.p ∈ pts := hnode.2.2 _ (p_mem_leaves δ chi hnode.1)
  unfold descendChild
  dsimp only
  by_cases hsh : shell (δ Q.p parp) chi.parentDist
      (addInf (addInf (addInf (ub0 K0 st.ub) chi.maxDist) Q.maxDist) Q.maxDist) = true
  · rw [if_pos hsh]
    by_cases hd : leInf (δ Q.p chi.p) (addInf (addInf (addInf (ub0 K0 st.ub) chi.maxDist) Q.maxDist) Q.maxDist) = true
    · rw [if_pos hd]
      -- the distance is offered
      have hub' : UBOk δ pts K0 Q.p (offer K0 st.ub (δ Q.p chi.p)) (chi.p :: Off) := hI.ub.offer hK hchip hnot
      have hlive' : LiveOk δ pts K0 Q.p L (chi.p :: Off) (dlive st (⟨δ Q.p chi.p, chi⟩ :: pend) cur) :=
        hI.live.offer (e := ⟨δ Q.p chi.p, chi⟩) mem_dlive_head
      have hoff' : ∀ o ∈ chi.p :: Off, o = chi.p ∨ o ∈ Off := fun o ho => by
        rcases mem_cons.1 ho with h | h
        · exact Or.inl h
        · exact Or.inr h
      by_cases hleaf : chi.isLeaf = true
      · have hcl : chi.children = [] := by simpa [CNode.isLeaf] using hleaf
        simp only [hleaf, Bool.not_true, Bool.false_eq_true, if_false]
        by_cases hz : leInf (δ Q.p chi.p)
            (subInf (addInf (addInf (addInf (ub0 K0 st.ub) chi.maxDist) Q.maxDist) Q.maxDist) chi.maxDist) = true
        · rw [if_pos hz]
          refine ⟨chi.p :: Off, hI.keep_zero hub' hlive' hcl, ⟨fun _ _ => rfl, Nat.le_refl _, fun o ho => mem_cons_of_mem _ ho⟩,
            hoff'⟩
        · rw [if_neg hz]
          have hz' : leInf (δ Q.p chi.p) (addInf (addInf (ub0 K0 st.ub) Q.maxDist) Q.maxDist) = false := by
            rw [subInf_upperChi] at hz
            simpa using hz
          have hsound := descend_leaf_sound hm hI.ub hσ (r := chi.p) hz'
          have hI' : DI δ pts K0 Q L cur { st with ub := offer K0 st.ub (δ Q.p chi.p) }
              (⟨δ Q.p chi.p, chi⟩ :: pend) (chi.p :: Off) := ⟨hub', hlive', hI.leafs, hI.sc⟩
          refine ⟨chi.p :: Off, hI'.drop ?_, ⟨fun _ _ => rfl, Nat.le_refl _, fun o ho => mem_cons_of_mem _ ho⟩, hoff'⟩
          intro q' hq c hc
          rw [leaves_of_leaf hcl] at hc
          simp only [mem_singleton] at hc
          subst hc
          exact hsound q' hq
      · have hcl : chi.children ≠ [] := by simpa [CNode.isLeaf] using hleaf
        have hnl : (!chi.isLeaf) = true := by simpa using hleaf
        rw [if_pos hnl]
        have hcs : cur < chi.scale := by
          rcases hsc with h | h
          · exact absurd h hcl
          · exact h
        refine ⟨chi.p :: Off, hI.keep_cover hub' hlive' hcl hcs, ⟨?_, Nat.le_max_left _ _, fun o ho => mem_cons_of_mem _ ho⟩,
          hoff'⟩
        intro s hs
        have : s ≠ chi.scale := by omega
        funext
        simp [Cover.push, this]
    · rw [if_neg hd]
      have hd' : leInf (δ Q.p chi.p) (addInf (addInf (addInf (ub0 K0 st.ub) chi.maxDist) Q.maxDist) Q.maxDist) = false := by
        simpa using hd
      exact ⟨Off, hI.drop (descend_child_dist_sound hm hI.ub hσ hρ hd'), Step.refl _ _ _, fun o ho => Or.inr ho⟩
  · rw [if_neg hsh]
    have hsh' : shell (δ Q.p parp) (δ parp chi.p)
        (addInf (addInf (addInf (ub0 K0 st.ub) chi.maxDist) Q.maxDist) Q.maxDist) = false := by
      rw [← hpd]
      simpa using hsh
    exact ⟨Off, hI.drop (descend_child_shell_sound hm hI.ub hσ hρ hsh'), Step.refl _ _ _, fun o ho => Or.inr ho⟩

/-- the loop over the non-first children -/
theorem descendChildren_DI (hm : IsMetric δ) (hK : 1 ≤ K0) {Q : CNode K} {L : List Nat} {cur : Nat} {parp : Nat}
    (hσ : ∀ q' ∈ L, δ Q.p q' ≤ Q.maxDist) :
    ∀ (cs : List (CNode K)) (st : DState K) (pend : List (DN K)) (Off : List Nat),
      DI δ pts K0 Q L cur st (pendOf δ Q.p cs ++ pend) Off →
      (∀ c ∈ cs, c.parentDist = δ parp c.p) → (∀ c ∈ cs, c.p ∉ Off) → (cs.map CNode.p).Nodup →
      (∀ c ∈ cs, c.children = [] ∨ cur < c.scale) →
      ∃ Off', DI δ pts K0 Q L cur (cs.foldl (descendChild δ K0 Q (δ Q.p parp)) st) pend Off' ∧
        Step cur st (cs.foldl (descendChild δ K0 Q (δ Q.p parp)) st) Off Off'
  | [], st, pend, Off, hI, _, _, _, _ => ⟨Off, by simpa [pendOf] using hI, Step.refl _ _ _⟩
  | chi :: cs, st, pend, Off, hI, hpd, hnot, hnd, hsc => by
    simp only [foldl_cons]
    have hI' : DI δ pts K0 Q L cur st (⟨δ Q.p chi.p, chi⟩ :: (pendOf δ Q.p cs ++ pend)) Off := by
      simpa [pendOf] using hI
    obtain ⟨Off1, hI1, hstep1, hoff1⟩ := descendChild_DI hm hK hI' hσ (hpd chi mem_cons_self) (hnot chi mem_cons_self)
      (hsc chi mem_cons_self)
    simp only [map_cons, nodup_cons] at hnd
    obtain ⟨Off2, hI2, hstep2⟩ := descendChildren_DI hm hK hσ cs _ pend Off1 hI1
      (fun c hc => hpd c (mem_cons_of_mem _ hc))
      (fun c hc ho => by
        rcases hoff1 _ ho with h | h
        · exact hnd.1 (mem_map.2 ⟨c, hc, h⟩)
        · exact hnot c (mem_cons_of_mem _ hc) h)
      hnd.2 (fun c hc => hsc c (mem_cons_of_mem _ hc))
    exact ⟨Off2, hI2, hstep1.trans hstep2⟩

/-- a pending parent is replaced by its children -/
theorem DI.expand {Q : CNode K} {L : List Nat} {cur : Nat} {st : DState K} {par : DN K} {pend : List (DN K)}
    {Off : List Nat} {c0 : CNode K} {cs : List (CNode K)} (h : DI δ pts K0 Q L cur st (par :: pend) Off)
    (hc : par.node.children = c0 :: cs) :
    DI δ pts K0 Q L cur st (pendOf δ Q.p (c0 :: cs) ++ pend) Off ∧ ∀ c ∈ cs, c.p ∉ Off := by
  have hp : (par :: (st.zero ++ pend ++ hi st.cover cur st.maxScale)).Perm (dlive st (par :: pend) cur) := by
    unfold dlive
    rw [append_assoc, append_assoc]
    exact perm_middle.symm.trans (by rw [cons_append])
  have hl := h.live.perm hp
  refine ⟨⟨h.ub, ?_, h.leafs, h.sc⟩, child_not_offered hl hc⟩
  apply (hl.expand_head hc).perm
  unfold dlive
  simp only [append_assoc]
  exact perm_append_comm_assoc _ _ _

/-- **one parent** (`descendParent`): `par` is an entry of `cover_sets[cur]`, hence has children and scale `cur` -/
theorem descendParent_DI (hm : IsMetric δ) (hK : 1 ≤ K0) {Q : CNode K} {L : List Nat} {cur : Nat} {st : DState K}
    {pend : List (DN K)} {Off : List Nat} {par : DN K} (hI : DI δ pts K0 Q L cur st (par :: pend) Off)
    (hσ : ∀ q' ∈ L, δ Q.p q' ≤ Q.maxDist) (hparsc : cur ≤ par.node.scale) (hparc : par.node.children ≠ []) :
    ∃ Off', DI δ pts K0 Q L cur (descendParent δ K0 Q st par) pend Off' ∧
      Step cur st (descendParent δ K0 Q st par) Off Off' := by
  have hpar : NodeOk δ pts par.node := hI.live.node par mem_dlive_head
  have hpdist : par.dist = δ Q.p par.node.p := hI.live.dist par mem_dlive_head
  unfold descendParent
  dsimp only
  by_cases ht : leInf par.dist (addInf (addInf (addInf (ub0 K0 st.ub) Q.maxDist) Q.maxDist) par.node.maxDist) = true
  · rw [if_pos ht]
    cases hc : par.node.children with
    | nil => exact absurd hc hparc
    | cons c0 cs =>
      dsimp only
      obtain ⟨hc0p, hpds, hnodes, _⟩ := child_facts hpar hc
      have hscs := (wfNode_children δ hpar.1 hc).2.2.2.1
      obtain ⟨hIe, hnot⟩ := hI.expand hc
      have hc0d : δ Q.p c0.p = par.dist := by rw [hc0p, hpdist]
      have hIe' : DI δ pts K0 Q L cur st (⟨par.dist, c0⟩ :: (pendOf δ Q.p cs ++ pend)) Off := by
        have : pendOf δ Q.p (c0 :: cs) ++ pend = ⟨par.dist, c0⟩ :: (pendOf δ Q.p cs ++ pend) := by
          simp [pendOf, hc0d]
        rwa [this] at hIe
      have hρ0 : ∀ c ∈ c0.leaves, δ c0.p c ≤ c0.maxDist := leaves_within δ (hnodes c0 mem_cons_self).1
      -- the first child
      have hfirst : ∃ st1, st1 =
          (if leInf par.dist (addInf (addInf (addInf (ub0 K0 st.ub) Q.maxDist) Q.maxDist) c0.maxDist) = true then
            if (!c0.isLeaf) = true then
              { st with maxScale := max st.maxScale c0.scale, cover := st.cover.push c0.scale ⟨par.dist, c0⟩ }
            else if leInf par.dist (addInf (addInf (ub0 K0 st.ub) Q.maxDist) Q.maxDist) = true then
              { st with zero := st.zero ++ [⟨par.dist, c0⟩] }
            else st
          else st) ∧ DI δ pts K0 Q L cur st1 (pendOf δ Q.p cs ++ pend) Off ∧ Step cur st st1 Off Off := by
        refine ⟨_, rfl, ?_⟩
        by_cases h1 : leInf par.dist (addInf (addInf (addInf (ub0 K0 st.ub) Q.maxDist) Q.maxDist) c0.maxDist) = true
        · rw [if_pos h1]
          by_cases hleaf : c0.isLeaf = true
          · have hcl : c0.children = [] := by simpa [CNode.isLeaf] using hleaf
            simp only [hleaf, Bool.not_true, Bool.false_eq_true, if_false]
            by_cases hz : leInf par.dist (addInf (addInf (ub0 K0 st.ub) Q.maxDist) Q.maxDist) = true
            · rw [if_pos hz]
              exact ⟨hIe'.keep_zero hIe'.ub hIe'.live hcl, ⟨fun _ _ => rfl, Nat.le_refl _, fun _ h => h⟩⟩
            · rw [if_neg hz]
              refine ⟨hIe'.drop ?_, Step.refl _ _ _⟩
              have hz' : leInf (δ Q.p c0.p) (addInf (addInf (ub0 K0 st.ub) Q.maxDist) Q.maxDist) = false := by
                rw [hc0d]; simpa using hz
              have hsound := descend_leaf_sound hm hI.ub hσ (r := c0.p) hz'
              intro q' hq c hcm
              dsimp only at hcm
              rw [leaves_of_leaf hcl] at hcm
              simp only [mem_singleton] at hcm
              subst hcm
              exact hsound q' hq
          · have hcl : c0.children ≠ [] := by simpa [CNode.isLeaf] using hleaf
            have hnl : (!c0.isLeaf) = true := by simpa using hleaf
            rw [if_pos hnl]
            have hcs : cur < c0.scale := by
              rcases hscs c0 mem_cons_self with h | h
              · omega
              · exact absurd h hcl
            have hk := hIe'.keep_cover (e := ⟨par.dist, c0⟩) hIe'.ub hIe'.live hcl hcs
            refine ⟨hk, ⟨?_, Nat.le_max_left _ _, fun _ h => h⟩⟩
            intro s hs
            have : s ≠ c0.scale := by omega
            funext
            simp [Cover.push, this]
        · rw [if_neg h1]
          refine ⟨hIe'.drop ?_, Step.refl _ _ _⟩
          have h1' : leInf (δ Q.p c0.p) (addInf (addInf (addInf (ub0 K0 st.ub) Q.maxDist) Q.maxDist) c0.maxDist) = false := by
            rw [hc0d]; simpa using h1
          exact descend_parent_prune_sound hm hI.ub hσ hρ0 h1'
      obtain ⟨st1, hst1, hI1, hstep1⟩ := hfirst
      rw [← hst1]
      have hpd' : δ Q.p par.node.p = par.dist := hpdist.symm
      rw [← hpd']
      obtain ⟨Off2, hI2, hstep2⟩ := descendChildren_DI hm hK (parp := par.node.p) hσ cs st1 pend Off hI1 hpds hnot
        (children_points_ne hpar hc)
        (fun c hcm => by
          rcases hscs c (mem_cons_of_mem _ hcm) with h | h
          · exact Or.inr (by omega)
          · exact Or.inl h)
      exact ⟨Off2, hI2, hstep1.trans hstep2⟩
  · rw [if_neg ht]
    have ht' : leInf (δ Q.p par.node.p) (addInf (addInf (addInf (ub0 K0 st.ub) Q.maxDist) Q.maxDist) par.node.maxDist) = false := by
      rw [← hpdist]; simpa using ht
    exact ⟨Off, hI.drop (descend_parent_prune_sound hm hI.ub hσ (leaves_within δ hpar.1) ht'), Step.refl _ _ _⟩

/-- the loop over all parents of `cover_sets[cur]` -/
theorem descendParents_DI (hm : IsMetric δ) (hK : 1 ≤ K0) {Q : CNode K} {L : List Nat} {cur : Nat}
    (hσ : ∀ q' ∈ L, δ Q.p q' ≤ Q.maxDist) :
    ∀ (pars : List (DN K)) (st : DState K) (Off : List Nat), DI δ pts K0 Q L cur st pars Off →
      (∀ par ∈ pars, cur ≤ par.node.scale ∧ par.node.children ≠ []) →
      ∃ Off', DI δ pts K0 Q L cur (pars.foldl (descendParent δ K0 Q) st) [] Off' ∧
        Step cur st (pars.foldl (descendParent δ K0 Q) st) Off Off'
  | [], st, Off, hI, _ => ⟨Off, hI, Step.refl _ _ _⟩
  | par :: pars, st, Off, hI, hp => by
    simp only [foldl_cons]
    obtain ⟨Off1, hI1, hs1⟩ := descendParent_DI hm hK hI hσ (hp par mem_cons_self).1 (hp par mem_cons_self).2
    obtain ⟨Off2, hI2, hs2⟩ := descendParents_DI hm hK hσ pars _ Off1 hI1 (fun p hpm => hp p (mem_cons_of_mem _ hpm))
    exact ⟨Off2, hI2, hs1.trans hs2⟩

end TapkeeVerif.CoverTree
