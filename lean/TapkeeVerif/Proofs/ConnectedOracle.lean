import TapkeeVerif.Proofs.ConnectedPerm
/-!
C03: the executable oracle `stronglyConnected` (closure from every vertex, used by the driver on the
implementation's lists) is sound: when it says `true`, every sample reaches every other one.
-/
namespace TapkeeVerif.Connected
open List

theorem followed_getElem? {g : Graph} {N : Nat} (hlen : g.length = N) (a : Nat) :
    (followed g N)[a]? = (g[a]?).map (·.take (degree g)) := by
  unfold followed
  rw [take_of_length_le (by omega), getElem?_map]

theorem edge_followed_of_mem {g : Graph} {N : Nat} (hlen : g.length = N) {a w : Nat}
    (hw : w ∈ ((g[a]?).getD []).take (degree g)) : Edge (followed g N) a w := by
  cases hga : g[a]? with
  | none => rw [hga] at hw; simp at hw
  | some nb =>
    rw [hga] at hw
    simp only [Option.getD_some] at hw
    exact ⟨nb.take (degree g), by rw [followed_getElem? hlen, hga]; rfl, hw⟩

/-- everything the worklist closure collects is reachable -/
theorem closure_reach {g : Graph} {N : Nat} (hlen : g.length = N) (u : Nat) :
    ∀ (fuel : Nat) (seen work : List Nat), (∀ x ∈ seen, Reach (followed g N) u x) → (∀ x ∈ work, x ∈ seen) →
      ∀ x ∈ closure g (degree g) fuel seen work, Reach (followed g N) u x
  | 0, seen, _, hs, _ => by simpa [closure] using hs
  | _ + 1, seen, [], hs, _ => by simpa [closure] using hs
  | fuel + 1, seen, a :: work, hs, hw => by
    simp only [closure]
    apply closure_reach hlen u fuel
    · intro x hx
      rcases mem_append.1 hx with h | h
      · have hx' : x ∈ ((g[a]?).getD []).take (degree g) := by
          have := (mem_eraseDups.1 h)
          exact (mem_filter.1 this).1
        exact Reach.step (hs a (hw a mem_cons_self)) (edge_followed_of_mem hlen hx')
      · exact hs x h
    · intro x hx
      rcases mem_append.1 hx with h | h
      · exact mem_append_left _ h
      · exact mem_append_right _ (hw x (mem_cons_of_mem _ h))

/-- **the oracle is sound**: `stronglyConnected g N = true` implies `StronglyConnected g N` -/
theorem stronglyConnected_sound' {g : Graph} {N : Nat} (hlen : g.length = N) (h : stronglyConnected g N = true) :
    StronglyConnected g N := by
  intro u hu v hv
  unfold stronglyConnected at h
  rw [all_eq_true] at h
  have h1 := h u (mem_range.2 hu)
  simp only [all_eq_true] at h1
  have h2 := h1 v (mem_range.2 hv)
  have hmem : v ∈ reachSet g (degree g) N u := by simpa using h2
  unfold reachSet at hmem
  exact closure_reach hlen u _ [u] [u] (fun x hx => by simp at hx; subst hx; exact Reach.refl _)
    (fun x hx => hx) v hmem

end TapkeeVerif.Connected
