import Mathlib.Tactic.Abel
import TapkeeVerif.Proofs.CoverBasic
/-!
C02, cover tree batch query, part 3: **soundness of every pruning decision** of `descend`,
`copy_zero_set`, `copy_cover_sets` and of the final filter of `brute_nearest`.

Setting: a query node with point `x` whose leaves `L` all lie within `σ` of `x` (`σ = query->max_dist`), an
`upper_bound` array justified for `x` (`UBOk`), a reference node with point `r` whose leaves all lie within
`ρ` of `r` (`ρ = max_dist`).  Whenever one of the tests of the code rejects the reference node, no sample
below it is near (`Near`) any query sample of `L` — so nothing that belongs into a result is ever lost.
These are the statements a wrong bound falsifies (e.g. adding `query->max_dist` once instead of twice).
-/
namespace TapkeeVerif.CoverTree
open List TapkeeVerif.VpTree

variable {K : Type} [LinearOrder K] [AddCommGroup K] [IsOrderedAddMonoid K]
variable {δ : Nat → Nat → K} {pts : List Nat} {K0 : Nat}

theorem leInf_false {d : K} {u : Option K} (h : leInf d u = false) : ∃ U, u = some U ∧ U < d := by
  cases u with
  | none => simp [leInf] at h
  | some U => exact ⟨U, rfl, by simpa [leInf] using h⟩

theorem addInf_some {a : Option K} {x U : K} (h : addInf a x = some U) : ∃ u, a = some u ∧ U = u + x := by
  cases a with
  | none => simp [addInf] at h
  | some u => exact ⟨u, rfl, by simpa [addInf, eq_comm] using h⟩

theorem subInf_some {a : Option K} {x U : K} (h : subInf a x = some U) : ∃ u, a = some u ∧ U = u - x := by
  cases a with
  | none => simp [subInf] at h
  | some u => exact ⟨u, rfl, by simpa [subInf, eq_comm] using h⟩

/-- **core**: a reference node farther from the query node's point than `u + ρ + σ + σ` contains nothing near
    any query sample below the query node -/
theorem far_node_sound (hm : IsMetric δ) {x r : Nat} {L Lr : List Nat} {σ ρ u : K} {ub : List K} {Off : List Nat}
    (hub : UBOk δ pts K0 x ub Off) (hu : ub0 K0 ub = some u)
    (hσ : ∀ q' ∈ L, δ x q' ≤ σ) (hρ : ∀ c ∈ Lr, δ r c ≤ ρ)
    (hfar : u + ρ + σ + σ < δ x r) : ∀ q' ∈ L, ∀ c ∈ Lr, ¬ Near δ pts K0 q' c := by
  intro q' hq c hc
  apply not_near_of_ub hm hub hu
  -- δ x r ≤ δ x q' + δ q' c + δ c r
  have h1 : δ x r ≤ δ x q' + δ q' c + δ r c := by
    have t1 := hm.tri x q' r
    have t2 := hm.tri q' c r
    rw [hm.symm c r] at t2
    calc δ x r ≤ δ x q' + δ q' r := t1
      _ ≤ δ x q' + (δ q' c + δ r c) := by
        rw [add_comm (δ x q'), add_comm (δ x q')]
        exact add_le_add_left t2 _
      _ = δ x q' + δ q' c + δ r c := (add_assoc _ _ _).symm
  have h2 : δ x q' + δ q' c + δ r c ≤ σ + δ q' c + ρ := by
    have a1 : δ x q' + δ q' c ≤ σ + δ q' c := add_le_add_left (hσ q' hq) _
    have a2 : δ x q' + δ q' c + δ r c ≤ σ + δ q' c + δ r c := add_le_add_left a1 _
    have a3 : δ r c + (σ + δ q' c) ≤ ρ + (σ + δ q' c) := add_le_add_left (hρ c hc) _
    rw [add_comm (δ r c), add_comm ρ] at a3
    exact le_trans a2 a3
  have h3 : u + ρ + σ + σ < σ + δ q' c + ρ := lt_of_lt_of_le hfar (le_trans h1 h2)
  -- cancel σ and ρ
  have h4 : u + σ + (ρ + σ) < δ q' c + (ρ + σ) := by
    have e1 : u + ρ + σ + σ = u + σ + (ρ + σ) := by abel
    have e2 : σ + δ q' c + ρ = δ q' c + (ρ + σ) := by abel
    rw [e1, e2] at h3
    exact h3
  have h5 : u + σ < δ q' c := lt_of_add_lt_add_right h4
  have h6 : u + δ x q' ≤ u + σ := by
    rw [add_comm u, add_comm u]
    exact add_le_add_left (hσ q' hq) _
  exact lt_of_le_of_lt h6 h5

/-- `shell` rejects only nodes that are far: `pd - cpd ≤ δ x r` by the triangle inequality through the parent -/
theorem shell_false_far (hm : IsMetric δ) {x par r : Nat} {U : Option K}
    (h : shell (δ x par) (δ par r) U = false) : ∃ V, U = some V ∧ V < δ x r := by
  obtain ⟨V, hV, hlt⟩ := leInf_false h
  refine ⟨V, hV, lt_of_lt_of_le hlt ?_⟩
  have t := hm.tri x r par
  rw [hm.symm r par] at t
  exact sub_le_iff_le_add.2 t

/-! ### `descend` -/

/-- the test `parent->dist <= upper_dist + par->max_dist` (whole parent skipped when false) -/
theorem descend_parent_prune_sound (hm : IsMetric δ) {Q : CNode K} {L : List Nat} {ub : List K} {Off : List Nat}
    (hub : UBOk δ pts K0 Q.p ub Off) (hσ : ∀ q' ∈ L, δ Q.p q' ≤ Q.maxDist)
    {par : CNode K} (hρ : ∀ c ∈ par.leaves, δ par.p c ≤ par.maxDist)
    (h : leInf (δ Q.p par.p) (addInf (addInf (addInf (ub0 K0 ub) Q.maxDist) Q.maxDist) par.maxDist) = false) :
    ∀ q' ∈ L, ∀ c ∈ par.leaves, ¬ Near δ pts K0 q' c := by
  obtain ⟨U, hU, hlt⟩ := leInf_false h
  obtain ⟨u2, hu2, rfl⟩ := addInf_some hU
  obtain ⟨u1, hu1, rfl⟩ := addInf_some hu2
  obtain ⟨u, hu, rfl⟩ := addInf_some hu1
  apply far_node_sound hm hub hu hσ hρ
  have e : u + par.maxDist + Q.maxDist + Q.maxDist = u + Q.maxDist + Q.maxDist + par.maxDist := by abel
  rw [e]
  exact hlt

/-- a non-first child rejected by `shell(parent->dist, chi->parent_dist, upper_chi)` -/
theorem descend_child_shell_sound (hm : IsMetric δ) {Q : CNode K} {L : List Nat} {ub : List K} {Off : List Nat}
    (hub : UBOk δ pts K0 Q.p ub Off) (hσ : ∀ q' ∈ L, δ Q.p q' ≤ Q.maxDist)
    {par : Nat} {chi : CNode K} (hρ : ∀ c ∈ chi.leaves, δ chi.p c ≤ chi.maxDist)
    (h : shell (δ Q.p par) (δ par chi.p)
      (addInf (addInf (addInf (ub0 K0 ub) chi.maxDist) Q.maxDist) Q.maxDist) = false) :
    ∀ q' ∈ L, ∀ c ∈ chi.leaves, ¬ Near δ pts K0 q' c := by
  obtain ⟨V, hV, hlt⟩ := shell_false_far hm h
  obtain ⟨u2, hu2, rfl⟩ := addInf_some hV
  obtain ⟨u1, hu1, rfl⟩ := addInf_some hu2
  obtain ⟨u, hu, rfl⟩ := addInf_some hu1
  exact far_node_sound hm hub hu hσ hρ hlt

/-- a non-first child rejected by `d <= upper_chi` -/
theorem descend_child_dist_sound (hm : IsMetric δ) {Q : CNode K} {L : List Nat} {ub : List K} {Off : List Nat}
    (hub : UBOk δ pts K0 Q.p ub Off) (hσ : ∀ q' ∈ L, δ Q.p q' ≤ Q.maxDist)
    {chi : CNode K} (hρ : ∀ c ∈ chi.leaves, δ chi.p c ≤ chi.maxDist)
    (h : leInf (δ Q.p chi.p) (addInf (addInf (addInf (ub0 K0 ub) chi.maxDist) Q.maxDist) Q.maxDist) = false) :
    ∀ q' ∈ L, ∀ c ∈ chi.leaves, ¬ Near δ pts K0 q' c := by
  obtain ⟨V, hV, hlt⟩ := leInf_false h
  obtain ⟨u2, hu2, rfl⟩ := addInf_some hV
  obtain ⟨u1, hu1, rfl⟩ := addInf_some hu2
  obtain ⟨u, hu, rfl⟩ := addInf_some hu1
  exact far_node_sound hm hub hu hσ hρ hlt

/-- a leaf (first child: `parent->dist <= upper_dist`; other child: `d <= upper_chi - chi->max_dist`) that is
    not put into the zero set: its point is not near any query sample.  `d` is its true distance. -/
theorem descend_leaf_sound (hm : IsMetric δ) {Q : CNode K} {L : List Nat} {ub : List K} {Off : List Nat}
    (hub : UBOk δ pts K0 Q.p ub Off) (hσ : ∀ q' ∈ L, δ Q.p q' ≤ Q.maxDist) {r : Nat}
    (h : leInf (δ Q.p r) (addInf (addInf (ub0 K0 ub) Q.maxDist) Q.maxDist) = false) :
    ∀ q' ∈ L, ¬ Near δ pts K0 q' r := by
  obtain ⟨V, hV, hlt⟩ := leInf_false h
  obtain ⟨u1, hu1, rfl⟩ := addInf_some hV
  obtain ⟨u, hu, rfl⟩ := addInf_some hu1
  intro q' hq
  have := far_node_sound hm hub hu hσ (Lr := [r]) (r := r) (ρ := 0)
    (fun c hc => by simp only [mem_singleton] at hc; subst hc; rw [hm.self])
    (by rw [add_zero]; exact hlt) q' hq r (by simp)
  exact this

/-- the non-first-leaf test `d <= upper_chi - chi->max_dist` is the same bound as for a first-child leaf -/
theorem upperChi_sub (u m σ : K) : u + m + σ + σ - m = u + σ + σ := by abel

/-! ### `copy_zero_set` / `copy_cover_sets` (query child `C`, its own refilled array)

The bounds proved sound here are the *repaired* ones (F-COVER-COPY): `new_upper_bound[0] + max_dist + max_dist
(+ ele->n->max_dist)`.  With `query_chi->max_dist` counted once — the code before the repair — the statements are
false (`Props/C02.lean`, `cover_copy_bound_refuted`). -/

/-- `shell(ele->dist, query_chi->parent_dist, ·)`: the triangle goes through the old query point `x` -/
theorem copy_shell_false_far (hm : IsMetric δ) {x y r : Nat} {U : Option K}
    (h : shell (δ x r) (δ x y) U = false) : ∃ V, U = some V ∧ V < δ y r := by
  obtain ⟨V, hV, hlt⟩ := leInf_false h
  refine ⟨V, hV, lt_of_lt_of_le hlt ?_⟩
  have t := hm.tri x y r
  exact sub_le_iff_le_add'.2 t

/-- an element of a cover set rejected by `shell` when it is copied for the query child `C` -/
theorem copy_cover_shell_sound (hm : IsMetric δ) {C : CNode K} {L : List Nat} {ub : List K} {Off : List Nat}
    (hub : UBOk δ pts K0 C.p ub Off) (hσ : ∀ q' ∈ L, δ C.p q' ≤ C.maxDist)
    {x : Nat} {n : CNode K} (hρ : ∀ c ∈ n.leaves, δ n.p c ≤ n.maxDist)
    (h : shell (δ x n.p) (δ x C.p)
      (addInf (addInf (addInf (ub0 K0 ub) C.maxDist) C.maxDist) n.maxDist) = false) :
    ∀ q' ∈ L, ∀ c ∈ n.leaves, ¬ Near δ pts K0 q' c := by
  obtain ⟨V, hV, hlt⟩ := copy_shell_false_far hm h
  obtain ⟨u2, hu2, rfl⟩ := addInf_some hV
  obtain ⟨u1, hu1, rfl⟩ := addInf_some hu2
  obtain ⟨u, hu, rfl⟩ := addInf_some hu1
  apply far_node_sound hm hub hu hσ hρ
  have e : u + n.maxDist + C.maxDist + C.maxDist = u + C.maxDist + C.maxDist + n.maxDist := by abel
  rw [e]
  exact hlt

/-- an element of a cover set rejected by `d <= upper_dist` when it is copied for the query child `C` -/
theorem copy_cover_dist_sound (hm : IsMetric δ) {C : CNode K} {L : List Nat} {ub : List K} {Off : List Nat}
    (hub : UBOk δ pts K0 C.p ub Off) (hσ : ∀ q' ∈ L, δ C.p q' ≤ C.maxDist)
    {n : CNode K} (hρ : ∀ c ∈ n.leaves, δ n.p c ≤ n.maxDist)
    (h : leInf (δ C.p n.p) (addInf (addInf (addInf (ub0 K0 ub) C.maxDist) C.maxDist) n.maxDist) = false) :
    ∀ q' ∈ L, ∀ c ∈ n.leaves, ¬ Near δ pts K0 q' c := by
  obtain ⟨V, hV, hlt⟩ := leInf_false h
  obtain ⟨u2, hu2, rfl⟩ := addInf_some hV
  obtain ⟨u1, hu1, rfl⟩ := addInf_some hu2
  obtain ⟨u, hu, rfl⟩ := addInf_some hu1
  apply far_node_sound hm hub hu hσ hρ
  have e : u + n.maxDist + C.maxDist + C.maxDist = u + C.maxDist + C.maxDist + n.maxDist := by abel
  rw [e]
  exact hlt

/-- an element of the zero set (a sample `r`) rejected by `shell` or by `d <= upper_dist` when it is copied for
    the query child `C`; `V` is the bound `new_upper_bound[0] + max_dist + max_dist` -/
theorem copy_zero_sound (hm : IsMetric δ) {C : CNode K} {L : List Nat} {ub : List K} {Off : List Nat}
    (hub : UBOk δ pts K0 C.p ub Off) (hσ : ∀ q' ∈ L, δ C.p q' ≤ C.maxDist) {x r : Nat}
    (h : shell (δ x r) (δ x C.p) (addInf (addInf (ub0 K0 ub) C.maxDist) C.maxDist) = false ∨
      leInf (δ C.p r) (addInf (addInf (ub0 K0 ub) C.maxDist) C.maxDist) = false) :
    ∀ q' ∈ L, ¬ Near δ pts K0 q' r := by
  have hfar : ∃ V, addInf (addInf (ub0 K0 ub) C.maxDist) C.maxDist = some V ∧ V < δ C.p r := by
    rcases h with h | h
    · exact copy_shell_false_far hm h
    · exact leInf_false h
  obtain ⟨V, hV, hlt⟩ := hfar
  obtain ⟨u1, hu1, rfl⟩ := addInf_some hV
  obtain ⟨u, hu, rfl⟩ := addInf_some hu1
  intro q' hq
  exact far_node_sound hm hub hu hσ (Lr := [r]) (r := r) (ρ := 0)
    (fun c hc => by simp only [mem_singleton] at hc; subst hc; rw [hm.self])
    (by rw [add_zero]; exact hlt) q' hq r (by simp)

/-! ### the final filter of `brute_nearest` -/

/-- a zero-set element dropped by `ele->dist <= upper_bound[0]` at a leaf query `q` is not near `q` -/
theorem brute_filter_sound (hm : IsMetric δ) {q r : Nat} {ub : List K} {Off : List Nat}
    (hub : UBOk δ pts K0 q ub Off) (h : leInf (δ q r) (ub0 K0 ub) = false) : ¬ Near δ pts K0 q r := by
  obtain ⟨u, hu, hlt⟩ := leInf_false h
  apply not_near_of_ub hm hub hu
  rw [hm.self, add_zero]
  exact hlt

/-- conversely every near sample passes the filter: its distance is within any justified `upper_bound[0]` -/
theorem near_within_ub {q c : Nat} {ub : List K} {Off : List Nat} (hub : UBOk δ pts K0 q ub Off)
    (hn : Near δ pts K0 q c) : leInf (δ q c) (ub0 K0 ub) = true := by
  cases hu : ub0 K0 ub with
  | none => rfl
  | some u =>
    obtain ⟨Y, hYnd, hYsub, hYlen, hYu⟩ := hub.count hu
    obtain ⟨y, hy, hle⟩ := hn.2 Y hYnd hYsub hYlen
    simp only [leInf, decide_eq_true_eq]
    exact le_trans hle (hYu y hy)

end TapkeeVerif.CoverTree
