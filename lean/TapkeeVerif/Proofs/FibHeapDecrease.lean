import TapkeeVerif.Proofs.FibHeapInv
/-! `decrease_key` never reaches an error state, preserves the invariant and replaces exactly one
    entry (property C16). -/
namespace TapkeeVerif.FibHeap

/-- `HeadMin` up to the tree whose key was just decreased (when it is a root, `ir = true`) -/
def HeadMinX (idx : Nat) (nk : Int) (ir : Bool) : List Tr → Prop
  | [] => True
  | m :: rs => ∀ t ∈ rs, m.key ≤ t.key ∨ (ir = true ∧ t.idx = idx ∧ t.key = nk)

theorem TopRel.mem {idx : Nat} {nk : Int} {ir : Bool} {f' f : F} (h : TopRel idx nk ir f' f) :
    ∀ t' ∈ f'.trees, (∃ t ∈ f.trees, t.key = t'.key) ∨ (ir = true ∧ t'.idx = idx ∧ t'.key = nk) := by
  induction f' generalizing f with
  | nil => intro t' ht'; simp [F.trees] at ht'
  | cons i' k' r' m' kids' rest' _ ih =>
    cases f with
    | nil => exact absurd h (by simp [TopRel])
    | cons i k r m kids rest =>
      obtain ⟨h1, h2, h3⟩ := h
      intro t' ht'
      simp only [F.trees, List.mem_cons] at ht'
      rcases ht' with rfl | ht'
      · rcases h2 with h2 | ⟨a, b, c, _⟩
        · exact Or.inl ⟨_, by simp [F.trees]; exact Or.inl rfl, h2.symm⟩
        · exact Or.inr ⟨a, by simp [h1, b], c⟩
      · rcases ih h3 t' ht' with ⟨t, ht, htk⟩ | hx
        · exact Or.inl ⟨t, by simp [F.trees, ht], htk⟩
        · exact Or.inr hx

theorem TopRel.headMinX {idx : Nat} {nk : Int} {ir : Bool} {f' f : F} (h : TopRel idx nk ir f' f)
    (hm : HeadMin f.trees) : HeadMinX idx nk ir f'.trees := by
  cases f' with
  | nil => trivial
  | cons i' k' r' m' kids' rest' =>
    cases f with
    | nil => exact absurd h (by simp [TopRel])
    | cons i k r m kids rest =>
      obtain ⟨h1, h2, h3⟩ := h
      simp only [F.trees, HeadMin, HeadMinX] at hm ⊢
      intro t' ht'
      have hk : k' ≤ k := by rcases h2 with h2 | ⟨_, _, c, d⟩ <;> omega
      rcases h3.mem t' ht' with ⟨t, ht, htk⟩ | hx
      · have := hm t ht; left; omega
      · exact Or.inr hx

theorem addToRoots_headMinX {idx : Nat} {nk : Int} {ir : Bool} {roots : List Tr}
    (h : HeadMinX idx nk ir roots) (up : Tr) : HeadMinX idx nk ir (addToRoots roots up) := by
  unfold addToRoots
  split
  · simp [HeadMinX]
  · rename_i m rs
    simp only [HeadMinX] at h
    split
    · rename_i hlt
      intro t ht
      simp only [List.mem_append, List.mem_singleton] at ht
      rcases ht with ht | rfl
      · rcases h t ht with h' | h'
        · left; omega
        · exact Or.inr h'
      · left; omega
    · rename_i hlt
      intro t ht
      simp only [List.mem_cons] at ht
      rcases ht with rfl | ht
      · left; omega
      · exact h t ht

theorem foldl_addToRoots_headMinX {idx : Nat} {nk : Int} {ir : Bool} (cuts : List Tr)
    {roots : List Tr} (h : HeadMinX idx nk ir roots) :
    HeadMinX idx nk ir (cuts.foldl addToRoots roots) := by
  induction cuts generalizing roots with
  | nil => simpa
  | cons c cs ih => exact ih (addToRoots_headMinX h c)

theorem fsts_perm_of_replace {E E' : List (Nat × Int)} {i : Nat} {old key : Int}
    (hc : ∀ a, List.count a E' + ind a (i, old) = List.count a E + ind a (i, key)) :
    (fsts E').Perm (fsts E) := by
  have h1 : (E' ++ [(i, old)]).Perm (E ++ [(i, key)]) := by
    rw [List.perm_iff_count]; intro a
    simp only [List.count_append, count_cons_ind, List.count_nil]
    have := hc a; omega
  have h2 := h1.map (·.1)
  simp only [List.map_append, List.map_cons, List.map_nil] at h2
  exact (List.perm_append_right_iff _).1 h2

theorem mem_of_replace {E E' : List (Nat × Int)} {i : Nat} {old key : Int}
    (hc : ∀ a, List.count a E' + ind a (i, old) = List.count a E + ind a (i, key))
    (ho : (i, old) ∈ E) : (i, key) ∈ E' := by
  have h1 := hc (i, key)
  have h2 : 0 < List.count (i, old) E := List.count_pos_iff.2 ho
  rw [← List.count_pos_iff]
  by_cases h : key = old
  · subst h; omega
  · have : ind (i, key) (i, old) = 0 := by simp [ind, h]
    have : ind (i, key) (i, key) = 1 := by simp [ind]
    omega

theorem inv_of_replace {h : Heap} (hinv : Inv h) {roots' : List Tr} {nt : Int} {i : Nat}
    {old key : Int} (hg : ∀ t ∈ roots', t.Good) (hh : HeadMin roots')
    (hc : ∀ a, List.count a (entriesL roots') + ind a (i, old)
      = List.count a (entriesL h.roots) + ind a (i, key)) :
    Inv { h with roots := roots', numTrees := nt } := by
  have hp := fsts_perm_of_replace hc
  refine ⟨hg, hh, hp.nodup_iff.2 hinv.nodup, fun j hj => hinv.ltCap j (hp.mem_iff.1 hj), ?_⟩
  show h.numNodes = (entriesL roots').length
  have := hp.length_eq
  simp only [fsts, List.length_map] at this
  rw [this, hinv.numNodes]

/-- the result of `decrease_key`: always `.ok`; either nothing changed (a guard fired) or the
    entry of `idx` was replaced -/
theorem decreaseKey_spec {h : Heap} (hinv : Inv h) (idx key : Int) :
    ∃ h', h.decreaseKey idx key = .ok h' ∧ Inv h' ∧ h'.cap = h.cap ∧ h'.dn = h.dn ∧
      h'.numNodes = h.numNodes ∧
      ((h' = h ∧ (idx < 0 ∨ idx ≥ h.cap ∨ h.lookup idx.toNat = none ∨
          ∃ old, h.lookup idx.toNat = some old ∧ key > old)) ∨
       (¬ (idx < 0 ∨ idx ≥ h.cap) ∧ ∃ old, h.lookup idx.toNat = some old ∧ key ≤ old ∧
          ∀ a, List.count a (entriesL h'.roots) + ind a (idx.toNat, old)
            = List.count a (entriesL h.roots) + ind a (idx.toNat, key))) := by
  by_cases hguard : idx < 0 ∨ idx ≥ h.cap
  · refine ⟨h, by simp [Heap.decreaseKey, hguard], hinv, rfl, rfl, rfl, Or.inl ⟨rfl, ?_⟩⟩
    rcases hguard with h' | h' <;> simp [h']
  · have hwf : h.forest.WF := (F.wf_ofTrees _).2 hinv.good
    have hW := dk_wf idx.toNat key none h.forest hwf (by simp)
    have hE := dk_ent idx.toNat key none h.forest
    have hT := dk_top idx.toNat key none h.forest hwf (by simp)
    have hC := dk_none_not_cutHere idx.toNat key none h.forest rfl
    unfold Heap.decreaseKey
    rw [if_neg hguard]
    dsimp only
    cases hdk : dk idx.toNat key none h.forest with
    | notFound =>
      rw [hdk] at hE
      exact ⟨h, rfl, hinv, rfl, rfl, rfl, Or.inl ⟨rfl, Or.inr (Or.inr (Or.inl hE))⟩⟩
    | cutHere f cuts => exact absurd hdk (hC f cuts)
    | done f cuts ir lg =>
      rw [hdk] at hE hW hT
      cases lg with
      | true =>
        obtain ⟨_, _, old, h1, h2⟩ := hE
        exact ⟨h, rfl, hinv, rfl, rfl, rfl, Or.inl ⟨rfl, Or.inr (Or.inr (Or.inr ⟨old, h1, h2⟩))⟩⟩
      | false =>
        obtain ⟨old, ho, hle, hcnt⟩ := hE
        have ho : h.lookup idx.toNat = some old := ho
        obtain ⟨w1, w2, w3, w4, w5⟩ := hW
        obtain ⟨t1, t2⟩ := hT
        have hperm := foldl_addToRoots_perm cuts f.trees
        have hcnt' : ∀ a, List.count a (entriesL (cuts.foldl addToRoots f.trees)) + ind a (idx.toNat, old)
            = List.count a (entriesL h.roots) + ind a (idx.toNat, key) := by
          intro a
          have h1 := (List.perm_iff_count.1 (entriesL_perm hperm)) a
          have h2 := hcnt a
          simp only [entriesL_append, List.count_append, ← F.entries_eq, Heap.forest,
            F.entries_ofTrees] at h1 h2
          omega
        have hgood : ∀ t ∈ cuts.foldl addToRoots f.trees, t.Good := by
          intro t ht
          have := hperm.mem_iff.1 ht
          simp only [List.mem_append] at this
          rcases this with h' | h'
          · exact (F.wf_iff f).1 w1 t h'
          · exact w2 t h'
        have hX : HeadMinX idx.toNat key ir (cuts.foldl addToRoots f.trees) :=
          foldl_addToRoots_headMinX cuts ((t1 rfl).headMinX (by simpa [Heap.forest] using hinv.headMin))
        have hoE : (idx.toNat, old) ∈ entriesL h.roots := by
          rw [Heap.lookup_eq] at ho; exact Spec.get_some_mem ho
        have hnew := mem_of_replace hcnt' hoE
        have hnd : (fsts (entriesL (cuts.foldl addToRoots f.trees))).Nodup :=
          (fsts_perm_of_replace hcnt').nodup_iff.2 hinv.nodup
        simp only [Bool.false_eq_true, if_false]
        cases hroots : cuts.foldl addToRoots f.trees with
        | nil =>
          exfalso
          rcases t2 with ⟨c, hc, _⟩ | ⟨t, ht, _⟩
          · have := hperm.mem_iff.2 (List.mem_append.2 (Or.inr hc)); rw [hroots] at this; simp at this
          · have := hperm.mem_iff.2 (List.mem_append.2 (Or.inl ht)); rw [hroots] at this; simp at this
        | cons m rs =>
          rw [hroots] at hX hgood hcnt' hnew hnd hperm
          simp only [HeadMinX] at hX
          by_cases hlt : key < m.key
          · simp only [hlt, if_true]
            have hall : ∀ t ∈ m :: rs, key ≤ t.key := by
              intro t ht
              simp only [List.mem_cons] at ht
              rcases ht with rfl | ht
              · omega
              · rcases hX t ht with h' | ⟨_, _, h'⟩ <;> omega
            by_cases hroot : ir = true ∨ cuts.any (fun x => x.idx == idx.toNat) = true
            · rw [if_pos hroot]
              have hrp := rotateTo_perm idx.toNat (m :: rs)
              have hcnt'' : ∀ a, List.count a (entriesL (rotateTo idx.toNat (m :: rs))) + ind a (idx.toNat, old)
                  = List.count a (entriesL h.roots) + ind a (idx.toNat, key) := by
                intro a
                rw [(List.perm_iff_count.1 (entriesL_perm hrp)) a]; exact hcnt' a
              refine ⟨_, rfl, inv_of_replace hinv (fun t ht => hgood t (hrp.mem_iff.1 ht)) ?_ hcnt'',
                rfl, rfl, rfl, Or.inr ⟨hguard, old, ho, hle, hcnt''⟩⟩
              by_cases hf : ∃ t ∈ m :: rs, t.idx = idx.toNat
              · obtain ⟨t0, rest, hrt, hti⟩ := rotateTo_found hf
                rw [hrt] at hrp ⊢
                have ht0 : t0 ∈ m :: rs := hrp.mem_iff.1 (by simp)
                have hk0 : t0.key = key := by
                  have := mem_entriesL_of_mem ht0
                  rw [hti] at this
                  exact fst_unique hnd this hnew
                intro t ht
                have := hall t (hrp.mem_iff.1 (by simp [ht]))
                omega
              · rw [rotateTo_not_found (by intro t ht hti; exact hf ⟨t, ht, hti⟩)]
                intro t ht
                rcases hX t ht with h' | ⟨_, h', _⟩
                · exact h'
                · exact absurd ⟨t, by simp [ht], h'⟩ hf
            · exfalso
              have hir : ir = false := by
                cases ir with
                | true => exact absurd (Or.inl rfl) hroot
                | false => rfl
              rcases t2 with ⟨c, hc, hci⟩ | ⟨t, ht, htk⟩
              · apply hroot; right
                rw [List.any_eq_true]; exact ⟨c, hc, by simp [hci]⟩
              · have ht' : t ∈ m :: rs := hperm.mem_iff.2 (List.mem_append.2 (Or.inl ht))
                simp only [List.mem_cons] at ht'
                rcases ht' with rfl | ht'
                · omega
                · rcases hX t ht' with h' | ⟨h', _, _⟩
                  · omega
                  · rw [hir] at h'; cases h'
          · simp only [hlt, if_false]
            refine ⟨_, rfl, inv_of_replace hinv hgood ?_ hcnt', rfl, rfl, rfl,
              Or.inr ⟨hguard, old, ho, hle, hcnt'⟩⟩
            intro t ht
            rcases hX t ht with h' | ⟨_, _, h'⟩ <;> omega

end TapkeeVerif.FibHeap
