import TapkeeVerif.Proofs.TsneVp
import TapkeeVerif.Proofs.KnnVpBuild
/-!
C17: the model of `tsne::VpTree::buildFromPoints` (`vpBuild`: any vantage stream, `nth_element` modelled by a stable sort
of the tail) returns a tree with the ball invariant over the reordered item array, holding every position of its
segment exactly once — the hypotheses of `bh_neighbours_true`.
-/
namespace TapkeeVerif.Tsne
open TapkeeVerif List

variable {K : Type} [Field K] [LinearOrder K] [IsStrictOrderedRing K]
set_option linter.unusedSectionVars false

/-! ### the structural insertion sort -/
section Sorting
variable {α : Type} (key : α → K)

theorem insertBy_perm (x : α) : ∀ l : List α,
    (insertBy (fun a b => decide (key a ≤ key b)) x l).Perm (x :: l)
  | [] => Perm.refl _
  | y :: ys => by
    simp only [insertBy]
    split_ifs
    · exact ((insertBy_perm x ys).cons y).trans (Perm.swap x y ys)
    · exact Perm.refl _

theorem insertBy_sorted (x : α) : ∀ l : List α, l.Pairwise (fun a b => key a ≤ key b) →
    (insertBy (fun a b => decide (key a ≤ key b)) x l).Pairwise (fun a b => key a ≤ key b)
  | [], _ => by simp [insertBy]
  | y :: ys, h => by
    simp only [insertBy]
    obtain ⟨h1, h2⟩ := pairwise_cons.1 h
    split_ifs with hle
    · have hle' : key y ≤ key x := by simpa using hle
      refine pairwise_cons.2 ⟨?_, insertBy_sorted x ys h2⟩
      intro z hz
      rcases (mem_cons.1 ((insertBy_perm key x ys).mem_iff.1 hz)) with rfl | hz'
      · exact hle'
      · exact h1 z hz'
    · have hlt : key x < key y := by
        have : ¬ key y ≤ key x := by simpa using hle
        exact not_le.mp this
      refine pairwise_cons.2 ⟨?_, h⟩
      intro z hz
      rcases mem_cons.1 hz with rfl | hz'
      · exact hlt.le
      · exact le_trans hlt.le (h1 z hz')

theorem foldl_insertBy (l : List α) : ∀ acc : List α, acc.Pairwise (fun a b => key a ≤ key b) →
    (l.foldl (fun acc x => insertBy (fun a b => decide (key a ≤ key b)) x acc) acc).Perm (acc ++ l) ∧
    (l.foldl (fun acc x => insertBy (fun a b => decide (key a ≤ key b)) x acc) acc).Pairwise
      (fun a b => key a ≤ key b) := by
  induction l with
  | nil => intro acc h; simpa using h
  | cons x l ih =>
    intro acc h
    simp only [foldl_cons]
    obtain ⟨p, s⟩ := ih _ (insertBy_sorted key x acc h)
    refine ⟨p.trans ?_, s⟩
    have := (insertBy_perm key x acc).append_right l
    refine this.trans ?_
    simp only [cons_append]
    exact perm_middle.symm

theorem sortBy_spec (l : List α) :
    (sortBy (fun a b => decide (key a ≤ key b)) l).Perm l ∧
    (sortBy (fun a b => decide (key a ≤ key b)) l).Pairwise (fun a b => key a ≤ key b) := by
  have := foldl_insertBy key l [] Pairwise.nil
  simpa [sortBy] using this

end Sorting

/-! ### the build -/

theorem vpSwap_perm (x : Nat × List K) (rest : List (Nat × List K)) (i : Nat) :
    ((vpSwap x rest i).1 :: (vpSwap x rest i).2).Perm (x :: rest) := by
  cases i with
  | zero => exact Perm.refl _
  | succ j =>
    simp only [vpSwap]
    cases h : rest[j]? with
    | none => exact Perm.refl _
    | some y => exact VpTree.swap_aux rest j x y h

/-- what `vpBuild` guarantees -/
structure BuildOK (dist : List K → List K → K) (base : Nat) (seg : List (Nat × List K))
    (r : VpNode K × List (Nat × List K) × Nat) : Prop where
  perm : r.2.1.Perm seg
  points : (toTree r.1).points.Perm (List.range' base seg.length)
  inv : ∀ items : Nat → List K, (∀ j (hj : j < r.2.1.length), items (base + j) = (r.2.1[j]).2) →
    VpTree.TInv (posDist dist items) (toTree r.1)

/-- one node, given that the recursive calls are good on shorter segments -/
theorem vpNodeOf_ok (dist : List K → List K → K)
    (recur : Nat → Nat → List (Nat × List K) → VpNode K × List (Nat × List K) × Nat) (bound : Nat)
    (ih : ∀ (base draw : Nat) (seg : List (Nat × List K)), seg.length ≤ bound →
      BuildOK dist base seg (recur base draw seg))
    (base draw : Nat) (seg : List (Nat × List K)) (h2 : 2 ≤ seg.length) (hb : seg.length ≤ bound + 1)
    (vp : Nat × List K) (tail : List (Nat × List K)) (hswap : (vp :: tail).Perm seg) :
    BuildOK dist base seg (vpNodeOf dist recur base draw seg.length vp tail) := by
  have htl : tail.length + 1 = seg.length := by
    have := hswap.length_eq
    simpa using this
  obtain ⟨hsp, hss⟩ := sortBy_spec (fun a : Nat × List K => dist vp.2 a.2) tail
  unfold vpNodeOf
  set sorted := sortBy (fun a b : Nat × List K => decide (dist vp.2 a.2 ≤ dist vp.2 b.2)) tail with hsorted
  have hsl : sorted.length = tail.length := hsp.length_eq
  set medRel := seg.length / 2 - 1 with hmed
  have hmlt : medRel < sorted.length := by rw [hsl, hmed]; omega
  have hget : sorted[medRel]? = some sorted[medRel] := List.getElem?_eq_getElem hmlt
  simp only [hget]
  set thr : K := dist vp.2 (sorted[medRel]).2 with hthr
  have hLlen : (sorted.take medRel).length = medRel := by rw [List.length_take]; omega
  have hRlen : (sorted.drop medRel).length = sorted.length - medRel := List.length_drop
  have okL := ih (base + 1) (draw + 1) (sorted.take medRel) (by rw [hLlen]; omega)
  set L := recur (base + 1) (draw + 1) (sorted.take medRel) with hL
  have okR := ih (base + 1 + medRel) L.2.2 (sorted.drop medRel) (by rw [hRlen]; omega)
  set R := recur (base + 1 + medRel) L.2.2 (sorted.drop medRel) with hR
  have hsegL : L.2.1.length = medRel := by rw [okL.perm.length_eq, hLlen]
  have hsegR : R.2.1.length = sorted.length - medRel := by rw [okR.perm.length_eq, hRlen]
  refine ⟨?_, ?_, ?_⟩
  · -- permutation of the segment
    show (vp :: (L.2.1 ++ R.2.1)).Perm seg
    have h1 : (L.2.1 ++ R.2.1).Perm sorted := by
      have := okL.perm.append okR.perm
      rwa [List.take_append_drop] at this
    exact ((h1.trans hsp).cons vp).trans hswap
  · -- positions
    show (base :: ((toTree L.1).points ++ (toTree R.1).points)).Perm (List.range' base seg.length)
    have hp := okL.points.append okR.points
    rw [hLlen, hRlen] at hp
    have e : List.range' base seg.length =
        base :: (List.range' (base + 1) medRel ++ List.range' (base + 1 + medRel) (sorted.length - medRel)) := by
      have hlen : seg.length = 1 + (medRel + (sorted.length - medRel)) := by omega
      rw [hlen, Nat.add_comm 1, List.range'_succ, List.range'_append_1]
    rw [e]
    exact hp.cons base
  · -- the ball invariant
    intro items hitems
    have hvp : items base = vp.2 := by
      have := hitems 0 (by simp)
      simpa using this
    have hLi : ∀ j (hj : j < L.2.1.length), items (base + 1 + j) = (L.2.1[j]).2 := by
      intro j hj
      have := hitems (j + 1) (by simp; omega)
      rw [show base + (j + 1) = base + 1 + j by omega] at this
      rw [this, List.getElem_cons_succ, List.getElem_append_left hj]
    have hRi : ∀ j (hj : j < R.2.1.length), items (base + 1 + medRel + j) = (R.2.1[j]).2 := by
      intro j hj
      have := hitems (L.2.1.length + j + 1) (by simp; omega)
      rw [show base + (L.2.1.length + j + 1) = base + 1 + medRel + j by omega] at this
      rw [this, List.getElem_cons_succ, List.getElem_append_right (by omega)]
      simp
    show VpTree.TInv (posDist dist items) (.node base thr (toTree L.1) (toTree R.1))
    refine ⟨?_, ?_, okL.inv items hLi, okR.inv items hRi⟩
    · intro p hp
      have hp' := okL.points.mem_iff.1 hp
      rw [List.mem_range'_1, hLlen] at hp'
      obtain ⟨j, rfl⟩ : ∃ j, p = base + 1 + j := ⟨p - (base + 1), by omega⟩
      have hj : j < L.2.1.length := by omega
      unfold posDist
      rw [hvp, hLi j hj]
      have hmem : L.2.1[j] ∈ sorted.take medRel := okL.perm.mem_iff.1 (List.getElem_mem hj)
      obtain ⟨i, hi, he⟩ := List.getElem_of_mem hmem
      rw [List.length_take] at hi
      rw [List.getElem_take] at he
      rw [← he, hthr]
      exact List.pairwise_iff_getElem.1 hss i medRel (by omega) hmlt (by omega)
    · intro p hp
      have hp' := okR.points.mem_iff.1 hp
      rw [List.mem_range'_1, hRlen] at hp'
      obtain ⟨j, rfl⟩ : ∃ j, p = base + 1 + medRel + j := ⟨p - (base + 1 + medRel), by omega⟩
      have hj : j < R.2.1.length := by omega
      unfold posDist
      rw [hvp, hRi j hj]
      have hmem : R.2.1[j] ∈ sorted.drop medRel := okR.perm.mem_iff.1 (List.getElem_mem hj)
      obtain ⟨i, hi, he⟩ := List.getElem_of_mem hmem
      rw [List.length_drop] at hi
      rw [List.getElem_drop] at he
      rw [← he, hthr]
      by_cases h0 : i = 0
      · subst h0; simp
      · exact List.pairwise_iff_getElem.1 hss medRel (medRel + i) hmlt (by omega) (by omega)

theorem vpBuild_ok (dist : List K → List K → K) (pick : Nat → Nat → Nat) :
    ∀ (fuel base draw : Nat) (seg : List (Nat × List K)), seg.length ≤ fuel →
      BuildOK dist base seg (vpBuild dist pick fuel base draw seg) := by
  intro fuel
  induction fuel with
  | zero =>
    intro base draw seg h
    have : seg = [] := List.length_eq_zero_iff.mp (by omega)
    subst this
    exact ⟨by simp [vpBuild], by simp [vpBuild, toTree, VpTree.Tree.points],
      fun _ _ => by simp [vpBuild, toTree, VpTree.TInv]⟩
  | succ fuel ih =>
    intro base draw seg h
    match seg, h with
    | [], _ =>
      exact ⟨by simp [vpBuild], by simp [vpBuild, toTree, VpTree.Tree.points],
        fun _ _ => by simp [vpBuild, toTree, VpTree.TInv]⟩
    | [x], _ =>
      refine ⟨by simp [vpBuild], by simp [vpBuild, toTree, VpTree.Tree.points], fun _ _ => ?_⟩
      simp [vpBuild, toTree, VpTree.TInv, VpTree.Tree.points]
    | x :: y :: rest', h =>
      have e : vpBuild dist pick (fuel + 1) base draw (x :: y :: rest') =
          vpNodeOf dist (vpBuild dist pick fuel) base draw (x :: y :: rest').length
            (vpSwap x (y :: rest') (pick draw ((y :: rest').length + 1 - 1))).1
            (vpSwap x (y :: rest') (pick draw ((y :: rest').length + 1 - 1))).2 := rfl
      rw [e]
      exact vpNodeOf_ok dist (vpBuild dist pick fuel) fuel ih base draw (x :: y :: rest')
        (by simp) h _ _ (vpSwap_perm x (y :: rest') _)

end TapkeeVerif.Tsne
