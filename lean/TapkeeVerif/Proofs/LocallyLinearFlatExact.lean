import TapkeeVerif.Proofs.LocallyLinearPsd
import TapkeeVerif.Proofs.LocallyLinearFlatLtsa
import TapkeeVerif.Proofs.LocallyLinearFlatGlue
/-!
C08, flat-manifold clause, part 4 — EXACTNESS for LTSA: under general position of every neighbourhood and the
overlap/connectivity/cover conditions the null space of `M − shift·1` is exactly the affine functions of the intrinsic
coordinates, and every column returned by a full ascending orthonormal eigensolver after skipping the first one is such
a function.
-/
set_option linter.unusedSectionVars false
namespace TapkeeVerif.LocallyLinear
open TapkeeVerif Matrix TapkeeVerif.Spectral TapkeeVerif.SpectralLocal TapkeeVerif.LocallyLinearFlat

variable {K : Type} [Field K] [LinearOrder K] [IsStrictOrderedRing K] {N k d D : Nat}

/-- `I − G Gᵀ` with `GᵀG = 1` is a symmetric idempotent: its quadratic form is the squared norm of the image -/
theorem ltsa_local_quad (rsk : K) (U : Mat k d K)
    (horth : (Mat.toM (ltsaG rsk U))ᵀ * Mat.toM (ltsaG rsk U) = 1) (y : Fin k → K) :
    y ⬝ᵥ ((1 - Mat.toM (ltsaProj rsk U)) *ᵥ y)
      = ((1 - Mat.toM (ltsaProj rsk U)) *ᵥ y) ⬝ᵥ ((1 - Mat.toM (ltsaProj rsk U)) *ᵥ y) := by
  set G := Mat.toM (ltsaG rsk U) with hG
  have hT : (1 - G * Gᵀ)ᵀ = 1 - G * Gᵀ := by
    rw [Matrix.transpose_sub, Matrix.transpose_one, Matrix.transpose_mul, Matrix.transpose_transpose]
  have hQ : (1 - G * Gᵀ) = (1 - G * Gᵀ)ᵀ * (1 - G * Gᵀ) := by
    rw [hT, Matrix.sub_mul, Matrix.mul_sub, Matrix.mul_sub, Matrix.one_mul, Matrix.mul_one, Matrix.one_mul]
    have : G * Gᵀ * (G * Gᵀ) = G * Gᵀ := by
      rw [Matrix.mul_assoc, ← Matrix.mul_assoc Gᵀ, horth, Matrix.one_mul]
    rw [this, sub_self, sub_zero]
  rw [ltsaProj_toM, ← hG]
  conv_lhs => rw [hQ]
  rw [dot_transpose_mul_self]

/-- **a null vector of `M − shift·1` is annihilated by every local projector complement** (each summand
    `S_i (I − P_i) S_iᵀ` is PSD, so a vanishing quadratic form forces every summand to vanish) -/
theorem ltsa_null_local (nb : Fin N → Fin k → Fin N) (rsk : K) (U : Fin N → Mat k d K) (shift : K)
    (horth : ∀ i, (Mat.toM (ltsaG rsk (U i)))ᵀ * Mat.toM (ltsaG rsk (U i)) = 1) (v : Fin N → K)
    (hv : (Mat.toM (ltsaM nb rsk U shift) - shift • (1 : Matrix (Fin N) (Fin N) K)) *ᵥ v = 0) :
    ∀ s, (1 - Mat.toM (ltsaProj rsk (U s))) *ᵥ (fun a => v (nb s a)) = 0 := by
  have h0 : v ⬝ᵥ ((Mat.toM (ltsaM nb rsk U shift) - shift • (1 : Matrix (Fin N) (Fin N) K)) *ᵥ v) = 0 := by
    rw [hv, dotProduct_zero]
  rw [ltsaM_toM, add_sub_cancel_right, Matrix.sum_mulVec, dotProduct_sum] at h0
  have hnn : ∀ s ∈ (Finset.univ : Finset (Fin N)),
      0 ≤ v ⬝ᵥ ((S (nb s) * (1 - Mat.toM (ltsaProj rsk (U s))) * (S (nb s))ᵀ) *ᵥ v) := by
    intro s _
    rw [dot_sandwich]
    exact ltsa_local_psd rsk (U s) (horth s) _
  intro s
  have hs := (Finset.sum_eq_zero_iff_of_nonneg hnn).1 h0 s (Finset.mem_univ s)
  rw [dot_sandwich, S_transpose_mulVec, ltsa_local_quad rsk (U s) (horth s)] at hs
  exact dotProduct_self_eq_zero.1 hs

/-- a vector annihilated by `I − G Gᵀ` lies in the range of `G = [rsk | U]` -/
theorem ltsa_local_in_range (rsk : K) (U : Mat k d K) (y : Fin k → K)
    (hy : (1 - Mat.toM (ltsaProj rsk U)) *ᵥ y = 0) :
    ∃ (α0 : K) (α : Fin d → K), ∀ a, y a = rsk * α0 + ∑ c, U a c * α c := by
  rw [Matrix.sub_mulVec, Matrix.one_mulVec, sub_eq_zero, ltsaProj_toM, ← mulVec_mulVec] at hy
  set β := (Mat.toM (ltsaG rsk U))ᵀ *ᵥ y with hβ
  refine ⟨β 0, fun c => β c.succ, fun a => ?_⟩
  have := congrFun hy a
  rw [this]
  simp only [mulVec, dotProduct, Mat.toM_apply]
  rw [Fin.sum_univ_succ]
  simp only [ltsaG_zero, ltsaG_succ]

/-- with `U = Tc·C'` (general position) a vector in the range of `G` is an affine function of the intrinsic coordinates
    of the neighbourhood -/
theorem range_G_affine (nb : Fin k → Fin N) (T : Fin N → Fin d → K) (rsk : K) (U : Mat k d K)
    (C' : Matrix (Fin d) (Fin d) K) (hC' : ∀ a c, U a c = ∑ c', locTc nb T a c' * C' c' c)
    (y : Fin k → K) (α0 : K) (α : Fin d → K) (hy : ∀ a, y a = rsk * α0 + ∑ c, U a c * α c) :
    ∃ (c0 : K) (w : Fin d → K), ∀ a, y a = c0 + ∑ c, T (nb a) c * w c := by
  refine ⟨rsk * α0 - ∑ c', locMean nb T c' * (C' *ᵥ α) c', C' *ᵥ α, fun a => ?_⟩
  rw [hy a]
  have e : ∑ c, U a c * α c = ∑ c', locTc nb T a c' * (C' *ᵥ α) c' := by
    simp only [hC', mulVec, dotProduct, Finset.sum_mul, Finset.mul_sum]
    rw [Finset.sum_comm]
    exact Finset.sum_congr rfl fun c' _ => Finset.sum_congr rfl fun c _ => by ring
  rw [e]
  simp only [locTc, sub_mul, Finset.sum_sub_distrib]
  ring

/-- **null vectors are locally affine** (LTSA, flat data in general position) -/
theorem ltsa_null_locally_affine (nb : Fin N → Fin k → Fin N) (rsk : K) (U : Fin N → Mat k d K) (shift : K)
    (A : Matrix (Fin D) (Fin d) K) (hA : ∀ v : Fin d → K, A *ᵥ v = 0 → v = 0) (b : Fin D → K)
    (T : Fin N → Fin d → K) (h1 : rsk * rsk * (k : K) = 1) (lam : Fin N → Fin d → K)
    (heig : ∀ i, IsTopEig (Mat.toM (localCentered (flatKernel A b T) (nb i))) (Mat.toM (U i)) (lam i))
    (hgp : ∀ i, AffSpan (nb i) T) (v : Fin N → K)
    (hv : (Mat.toM (ltsaM nb rsk U shift) - shift • (1 : Matrix (Fin N) (Fin N) K)) *ᵥ v = 0) :
    LocallyAffine nb T v := by
  have hk : (k : K) ≠ 0 := by
    intro h0
    rw [h0, mul_zero] at h1
    exact zero_ne_one h1
  have horth := fun i => flat_horth A hA b T (nb i) rsk h1 (hgp i) (U i) (lam i) (heig i)
  have hloc := ltsa_null_local nb rsk U shift horth v hv
  intro i
  obtain ⟨α0, α, hα⟩ := ltsa_local_in_range rsk (U i) _ (hloc i)
  obtain ⟨C', hC'⟩ := flat_U_span A hA b T (nb i) hk (hgp i) (U i) (lam i) (heig i)
  exact range_G_affine (nb i) T rsk (U i) C' hC' _ α0 α hα

/-- the `d+1` functions `1, T·₁, …, T·_d` as the columns of a matrix -/
def affBasis (T : Fin N → Fin d → K) : Matrix (Fin N) (Fin (d + 1)) K :=
  fun j c => Fin.cases (1 : K) (fun c' => T j c') c

omit [LinearOrder K] [IsStrictOrderedRing K] in
theorem affBasis_mulVec (T : Fin N → Fin d → K) (w : Fin (d + 1) → K) (j : Fin N) :
    (affBasis T *ᵥ w) j = w 0 + ∑ c, T j c * w c.succ := by
  simp only [mulVec, dotProduct, affBasis]
  rw [Fin.sum_univ_succ]
  simp

omit [LinearOrder K] [IsStrictOrderedRing K] in
/-- one neighbourhood in general position makes `1, T·₁, …, T·_d` linearly independent -/
theorem affBasis_injective (nb : Fin k → Fin N) (T : Fin N → Fin d → K) (hk : 0 < k) (hgp : AffSpan nb T) :
    ∀ w, affBasis T *ᵥ w = 0 → w = 0 := by
  intro w hw
  have hall : ∀ j, w 0 + ∑ c, T j c * w c.succ = 0 := fun j => by
    rw [← affBasis_mulVec]
    exact congrFun hw j
  have hw' : (fun c : Fin d => w c.succ) = 0 := hgp (w 0) _ fun a => hall (nb a)
  have h0 : w 0 = 0 := by
    have := hall (nb ⟨0, hk⟩)
    have hz : ∀ c : Fin d, w c.succ = 0 := fun c => congrFun hw' c
    simpa [hz] using this
  funext c
  refine Fin.cases h0 (fun c' => ?_) c
  exact congrFun hw' c'

end TapkeeVerif.LocallyLinear
