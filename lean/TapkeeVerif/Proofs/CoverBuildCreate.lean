import TapkeeVerif.Proofs.CoverBuildInsert
/-!
C02, cover tree construction, part 4: `batch_create` returns a well-formed tree storing every sample exactly once.
-/
set_option linter.unusedSectionVars false
namespace TapkeeVerif.CoverBuild
open List TapkeeVerif.CoverTree

variable {K : Type} [LinearOrder K] [AddCommGroup K] [IsOrderedAddMonoid K]
variable {δ : Nat → Nat → K} {getScale : K → Int} {distOfScale : Int → K}

/-- the loop raising the top scale ends with a scale that covers `maxDist` -/
theorem raiseTop_covers (maxDist : K) : ∀ (cnt : Nat) {s top : Int}, raiseTop distOfScale maxDist cnt s = some top →
    maxDist ≤ distOfScale top
  | 0, s, top, h => by
    unfold raiseTop at h
    by_cases hlt : distOfScale s < maxDist
    · simp [hlt] at h
    · simp only [hlt, if_false, Option.some.injEq] at h
      subst h
      exact not_lt.1 hlt
  | cnt + 1, s, top, h => by
    unfold raiseTop at h
    by_cases hlt : distOfScale s < maxDist
    · simp only [hlt, if_true] at h
      exact raiseTop_covers maxDist cnt h
    · simp only [hlt, if_false, Option.some.injEq] at h
      subst h
      exact not_lt.1 hlt

/-- the tree returned by `batch_create` satisfies `wfNode`, its leaves are the given points (each as often as given),
    and the leaf scale is at least 100 -/
theorem batchCreate_good (hself : ∀ x, δ x x = 0) (hnn : ∀ x y, 0 ≤ δ x y) (hpos : ∀ s, 0 ≤ distOfScale s)
    {fuel : Nat} {points : List Nat} {t : CNode K} {ls : Nat}
    (h : batchCreate δ getScale distOfScale fuel points = some (t, ls)) :
    wfNode δ t = true ∧ t.leaves.Perm points ∧ 100 ≤ ls := by
  cases points with
  | nil => simp [batchCreate] at h
  | cons p0 rest =>
    simp only [batchCreate] at h
    have hch : ∀ e ∈ rest.map (fun x => (⟨[δ p0 x], x⟩ : DS K)), Chained δ (p0 :: []) e := by
      intro e he
      obtain ⟨x, _, rfl⟩ := mem_map.1 he
      simp [Chained]
    have hpts : pts (rest.map fun x => (⟨[δ p0 x], x⟩ : DS K)) = rest := by
      simp [pts, Function.comp_def]
    generalize rest.map (fun x => (⟨[δ p0 x], x⟩ : DS K)) = ps at h hch hpts
    cases hmax : maxSet ps with
    | none => simp [hmax] at h
    | some md =>
      simp only [hmax] at h
      cases hrt : raiseTop distOfScale md fuel (getScale md) with
      | none => simp [hrt] at h
      | some top =>
      simp only [hrt] at h
      have hcov : md ≤ distOfScale top := raiseTop_covers _ _ hrt
      cases hr : batchInsert δ getScale distOfScale fuel p0 top top ps [] [] 100 with
      | none => simp [hr] at h
      | some r =>
        simp only [hr, Option.some.injEq, Prod.mk.injEq] at h
        obtain ⟨ht, hls⟩ := h
        have hok := batchInsert_ok hself hnn hpos fuel [] p0 top top ps [] [] 100 r hch
          (by simp) (by simp) hr
        obtain ⟨new, hc, hnew, hlv, hperm⟩ := hok.cons
        obtain ⟨_, hle, _⟩ := maxSet_chained hch hmax
        -- nothing is left over at the top level
        have hnil : r.pointSet = [] := by
          apply eq_nil_iff_forall_not_mem.2
          intro e he
          have hleft := hok.left e he
          have hmem : e.p ∈ pts ps := hperm.mem_iff.1 (mem_append_right _ (mem_map_of_mem he))
          obtain ⟨e', he', hp'⟩ := mem_map.1 hmem
          have hd : δ p0 e.p ≤ md := by rw [← hp']; exact hle e' he'
          exact absurd (lt_of_le_of_lt (le_trans hd hcov) hleft) (lt_irrefl _)
        have hleaves : r.node.leaves.Perm (p0 :: rest) := by
          rw [hnil] at hperm
          simp only [pts_nil, append_nil, hpts] at hperm
          exact hlv.trans (Perm.cons _ hperm)
        have h100 : 100 ≤ r.leafScale := hok.ls_mono
        subst hls
        refine ⟨?_, ?_, h100⟩
        · by_cases hgt : 100 < r.leafScale
          · rw [if_pos hgt] at ht
            rw [← ht]
            exact hok.wf _ (le_refl _)
          · rw [if_neg hgt] at ht
            have h100' : r.leafScale = 100 := by omega
            rw [← ht, ← hok.fix]
            exact hok.wf 100 (le_of_eq h100')
        · by_cases hgt : 100 < r.leafScale
          · rw [if_pos hgt] at ht
            rw [← ht, setLeafScale_leaves]
            exact hleaves
          · rw [if_neg hgt] at ht
            rw [← ht]
            exact hleaves

/-- **`batchCreate_wf`** : for the samples `0 .. N-1` in any order the tree `batch_create` returns is well formed in the
    sense of `CoverTree.wfTree` — the hypothesis of `cover_query_exact` -/
theorem batchCreate_wf' (hself : ∀ x, δ x x = 0) (hnn : ∀ x y, 0 ≤ δ x y) (hpos : ∀ s, 0 ≤ distOfScale s)
    {fuel N : Nat} {points : List Nat} (hpts : points.Perm (List.range N)) {t : CNode K} {ls : Nat}
    (h : batchCreate δ getScale distOfScale fuel points = some (t, ls)) : wfTree δ N t = true := by
  obtain ⟨hwf, hlv, _⟩ := batchCreate_good hself hnn hpos h
  have hp := hlv.trans hpts
  unfold wfTree
  simp only [Bool.and_eq_true, decide_eq_true_eq, beq_iff_eq, all_eq_true]
  refine ⟨⟨⟨hwf, hp.nodup_iff.2 nodup_range⟩, by rw [hp.length_eq, length_range]⟩, ?_⟩
  intro x hx
  exact mem_range.1 (hp.mem_iff.1 hx)

/-- a tree with at least two leaves has children -/
theorem children_ne_nil_of_leaves {t : CNode K} (h : 2 ≤ t.leaves.length) : t.children ≠ [] := by
  intro hc
  rw [leaves_of_leaf hc] at h
  simp at h

end TapkeeVerif.CoverBuild
