import TapkeeVerif.Proofs.SpeIndex
/-!
Local strategy of SPE: what the index bookkeeping DOES guarantee on the code as written (lengths, bounds, no
out-of-range access, partners are neighbours of their first members) — the permutation property is lost
(`Props/C19.lean: spe_indices_perm_local_refuted`).
-/
namespace TapkeeVerif.Spe

/-- the neighbour lists handed to `spe_embedding`: one list per point, at least `k` entries each, entries are
    point indices, no point is its own neighbour -/
structure ValidNeighbors (nb : List (List Nat)) (N k : Nat) : Prop where
  len : nb.length = N
  rows : ∀ i (h : i < nb.length), k ≤ (nb[i]).length
  bound : ∀ i (h : i < nb.length), ∀ x ∈ nb[i], x < N
  noself : ∀ i (h : i < nb.length), i ∉ nb[i]

/-- the `k` candidate partners of the `j`-th first member -/
def rowOf (nb : List (List Nat)) (k : Nat) (idx : List Nat) (j : Nat) : List Nat :=
  (nb.getD (idx.getD j 0) []).take k

theorem getD_list {α : Type} (l : List α) (i : Nat) (dflt : α) (h : i < l.length) : l.getD i dflt = l[i] := by
  simp [List.getD_eq_getElem?_getD, h]

theorem rowOf_eq (nb : List (List Nat)) (k : Nat) (idx : List Nat) (j : Nat) (hi : idx.getD j 0 < nb.length) :
    rowOf nb k idx j = (nb[idx.getD j 0]).take k := by
  unfold rowOf
  rw [getD_list nb _ [] hi]

theorem rowOf_eq' (nb : List (List Nat)) (k : Nat) (idx : List Nat) (j i : Nat) (he : idx.getD j 0 = i)
    (hi : i < nb.length) : rowOf nb k idx j = (nb[i]).take k := by
  subst he
  exact rowOf_eq nb k idx j hi

theorem rowOf_length {nb : List (List Nat)} {N k : Nat} (hv : ValidNeighbors nb N k) {idx : List Nat}
    (hall : ∀ x ∈ idx, x < N) {j : Nat} (hj : j < idx.length) : (rowOf nb k idx j).length = k := by
  have hi : idx.getD j 0 < nb.length := by rw [hv.len]; exact getD_lt_of_all hall hj
  have := hv.rows _ hi
  rw [rowOf_eq nb k idx j hi, List.length_take]
  omega

theorem rowOf_mem {nb : List (List Nat)} {N k : Nat} (hv : ValidNeighbors nb N k) {idx : List Nat}
    (hall : ∀ x ∈ idx, x < N) {j : Nat} (hj : j < idx.length) {x : Nat} (hx : x ∈ rowOf nb k idx j) :
    x < N ∧ x ≠ idx.getD j 0 := by
  have hi : idx.getD j 0 < nb.length := by rw [hv.len]; exact getD_lt_of_all hall hj
  have hx' : x ∈ nb[idx.getD j 0] := by
    rw [rowOf_eq nb k idx j hi] at hx
    exact List.mem_of_mem_take hx
  refine ⟨hv.bound _ hi _ hx', ?_⟩
  intro he
  exact hv.noself _ hi (he ▸ hx')

theorem gather_ok {nb : List (List Nat)} {N k : Nat} (hv : ValidNeighbors nb N k) {idx : List Nat}
    (hall : ∀ x ∈ idx, x < N) :
    ∀ todo j, j + todo ≤ idx.length →
      gatherNeighbors nb k idx todo j = .ok (((List.range' j todo).map (rowOf nb k idx)).flatten) := by
  intro todo
  induction todo with
  | zero => intro j _; simp [gatherNeighbors]
  | succ todo ih =>
    intro j hj
    have hjl : j < idx.length := by omega
    have hi : idx[j] < nb.length := by rw [hv.len]; exact hall _ (List.getElem_mem hjl)
    have hk := hv.rows _ hi
    have hrow : rowOf nb k idx j = (nb[idx[j]]).take k :=
      rowOf_eq' nb k idx j _ (getD_of_lt idx j hjl) hi
    simp [gatherNeighbors, hjl, neighborRow, hi, hk, ih (j + 1) (by omega), List.range'_succ, hrow]

/-- indexing into the concatenation of rows of equal length `k` -/
theorem flatten_getElem? {α : Type} (k : Nat) :
    ∀ (rows : List (List α)), (∀ r ∈ rows, r.length = k) → ∀ j p, p < k →
      rows.flatten[k * j + p]? = (rows[j]?).bind (·[p]?) := by
  intro rows
  induction rows with
  | nil => intro _ j p _; simp
  | cons r rs ih =>
    intro hlen j p hp
    have hr : r.length = k := hlen r (by simp)
    cases j with
    | zero =>
      simp only [List.flatten_cons, Nat.mul_zero, Nat.zero_add]
      rw [List.getElem?_append_left (by omega)]
      simp
    | succ j =>
      simp only [List.flatten_cons]
      rw [List.getElem?_append_right (by rw [hr, Nat.mul_succ]; omega)]
      have : k * (j + 1) + p - r.length = k * j + p := by rw [hr, Nat.mul_succ]; omega
      rw [this, ih (fun r' hr' => hlen r' (by simp [hr'])) j p hp]
      simp

theorem rows_getElem? (rowsF : Nat → List Nat) (nup j : Nat) (hj : j < nup) :
    ((List.range' 0 nup).map rowsF)[j]? = some (rowsF j) := by
  simp [hj]

/-- the overwrite loop of the local branch stays in range and writes, at position `nup + j`, one of the `k`
    candidate partners of the `j`-th first member; all other positions keep their value -/
theorem overwrite_ok {N k nup : Nat} {flat : List Nat} {rowsF : Nat → List Nat}
    (hflat : flat = ((List.range' 0 nup).map rowsF).flatten)
    (hrows : ∀ j, j < nup → (rowsF j).length = k)
    (fv : Nat → Int) (c0 : Nat) (hfv : ∀ c, 0 ≤ fv c ∧ fv c < k) (h2 : 2 * nup ≤ N) :
    ∀ todo j idx, j + todo = nup → idx.length = N →
      ∃ idx', overwriteLoop k nup flat fv c0 todo j idx = .ok idx' ∧ idx'.length = N
        ∧ (∀ p, p < nup + j → idx'[p]? = idx[p]?)
        ∧ (∀ p, nup + nup ≤ p → idx'[p]? = idx[p]?)
        ∧ (∀ j', j ≤ j' → j' < nup → ∃ v, v ∈ rowsF j' ∧ idx'[nup + j']? = some v) := by
  intro todo
  induction todo with
  | zero =>
    intro j idx hj hlen
    refine ⟨idx, rfl, hlen, fun _ _ => rfl, fun _ _ => rfl, ?_⟩
    intro j' h1 h3
    omega
  | succ todo ih =>
    intro j idx hj hlen
    have hjn : j < nup := by omega
    obtain ⟨hf0, hfk⟩ := hfv (c0 + j)
    -- the index r
    have hr0 : ¬ (fv (c0 + j) + ((k * j : Nat) : Int) < 0) := by
      have : (0 : Int) ≤ ((k * j : Nat) : Int) := Int.natCast_nonneg _
      omega
    have hp : (fv (c0 + j)).toNat < k := by omega
    have hrt : (fv (c0 + j) + ((k * j : Nat) : Int)).toNat = k * j + (fv (c0 + j)).toNat := by omega
    have hall : ∀ r ∈ (List.range' 0 nup).map rowsF, r.length = k := by
      intro r hr
      obtain ⟨a, ha, rfl⟩ := List.mem_map.mp hr
      have : a < nup := by simpa using ha
      exact hrows a this
    have hget : flat[k * j + (fv (c0 + j)).toNat]? = (rowsF j)[(fv (c0 + j)).toNat]? := by
      rw [hflat, flatten_getElem? k _ hall j _ hp, rows_getElem? rowsF nup j hjn]
      rfl
    have hpl : (fv (c0 + j)).toNat < (rowsF j).length := by rw [hrows j hjn]; exact hp
    have hsome : flat[k * j + (fv (c0 + j)).toNat]? = some ((rowsF j)[(fv (c0 + j)).toNat]) := by
      rw [hget, List.getElem?_eq_getElem hpl]
    have hpos : nup + j < idx.length := by omega
    obtain ⟨idx', hrun, hl', hlow, hhigh, hset⟩ :=
      ih (j + 1) (idx.set (nup + j) ((rowsF j)[(fv (c0 + j)).toNat])) (by omega) (by simp [hlen])
    refine ⟨idx', ?_, hl', ?_, ?_, ?_⟩
    · simp only [overwriteLoop, hr0, if_false, hrt, hsome, hpos, if_true]
      exact hrun
    · intro p hp'
      rw [hlow p (by omega), List.getElem?_set_ne (by omega)]
    · intro p hp'
      rw [hhigh p hp', List.getElem?_set_ne (by omega)]
    · intro j' h1 h3
      rcases Nat.eq_or_lt_of_le h1 with h | h
      · subst h
        refine ⟨_, List.getElem_mem hpl, ?_⟩
        rw [hlow (nup + j) (by omega), List.getElem?_set_self hpos]
      · exact hset j' (by omega) h3

/-- what the local strategy preserves of the index vector: its length and the range of its entries -/
def Bounded (N : Nat) (idx : List Nat) : Prop := idx.length = N ∧ ∀ x ∈ idx, x < N

theorem bounded_range (N : Nat) : Bounded N (List.range N) := ⟨by simp, fun x hx => by simpa using hx⟩

theorem applyShuffle_bounded {N : Nat} {π idx : List Nat} (hπ : π.Perm (List.range N)) (h : Bounded N idx) :
    Bounded N (applyShuffle π idx) := by
  refine ⟨by rw [applyShuffle_length]; simpa using hπ.length_eq, ?_⟩
  intro x hx
  obtain ⟨p, hp, rfl⟩ := List.mem_map.mp hx
  have hpN : p < N := by simpa using (hπ.mem_iff).mp hp
  exact getD_lt_of_all h.2 (by rw [h.1]; exact hpN)

/-- one iteration of the index bookkeeping in the local strategy, as written -/
theorem idxStep_local {N k nup : Nat} {nb : List (List Nat)} (hv : ValidNeighbors nb N k) (h2 : 2 * nup ≤ N)
    {π : List Nat} (hπ : π.Perm (List.range N)) {idx : List Nat} (hb : Bounded N idx)
    (fv : Nat → Int) (c0 : Nat) (hfv : ∀ c, 0 ≤ fv c ∧ fv c < k) :
    ∃ idx', idxStep false nb k nup π fv c0 idx = .ok idx' ∧ Bounded N idx' ∧
      ∀ j, j < nup → idx'.getD j 0 = (applyShuffle π idx).getD j 0 ∧
        idx'.getD (nup + j) 0 ∈ rowOf nb k idx' j := by
  have hb1 := applyShuffle_bounded hπ hb
  have hg := gather_ok hv hb1.2 nup 0 (by rw [hb1.1]; omega)
  have hrows : ∀ j, j < nup → (rowOf nb k (applyShuffle π idx) j).length = k :=
    fun j hj => rowOf_length hv hb1.2 (by rw [hb1.1]; omega)
  obtain ⟨idx', hrun, hl', hlow, hhigh, hset⟩ :=
    overwrite_ok (N := N) (rowsF := rowOf nb k (applyShuffle π idx)) rfl hrows fv c0 hfv h2 nup 0
      (applyShuffle π idx) (by omega) hb1.1
  have hfirst : ∀ j, j < nup → idx'.getD j 0 = (applyShuffle π idx).getD j 0 := by
    intro j hj
    simp only [List.getD_eq_getElem?_getD, hlow j (by omega)]
  refine ⟨idx', ?_, ⟨hl', ?_⟩, ?_⟩
  · simp only [idxStep, hg]
    exact hrun
  · intro x hx
    obtain ⟨p, hp⟩ := List.getElem?_of_mem hx
    by_cases h1 : p < nup
    · rw [hlow p (by omega)] at hp
      exact hb1.2 x (List.mem_of_getElem? hp)
    · by_cases h3 : p < nup + nup
      · obtain ⟨v, hv1, hv2⟩ := hset (p - nup) (by omega) (by omega)
        have : nup + (p - nup) = p := by omega
        rw [this, hp] at hv2
        cases hv2
        exact (rowOf_mem hv hb1.2 (by rw [hb1.1]; omega) hv1).1
      · rw [hhigh p (by omega)] at hp
        exact hb1.2 x (List.mem_of_getElem? hp)
  · intro j hj
    refine ⟨hfirst j hj, ?_⟩
    obtain ⟨v, hv1, hv2⟩ := hset j (by omega) hj
    have hrow : rowOf nb k idx' j = rowOf nb k (applyShuffle π idx) j := by
      unfold rowOf
      rw [hfirst j hj]
    rw [hrow]
    simp only [List.getD_eq_getElem?_getD, hv2, Option.getD_some]
    exact hv1

/-- the local strategy for every stream: no out-of-range access, entries stay below `N`, and every partner is one
    of the first `k` neighbours of its first member (hence different from it) -/
theorem indicesAt_local {N k nup : Nat} {nb : List (List Nat)} (hv : ValidNeighbors nb N k) (h2 : 2 * nup ≤ N)
    (shuffle : Nat → List Nat) (hs : ∀ t, (shuffle t).Perm (List.range N))
    (fv : Nat → Int) (hfv : ∀ c, 0 ≤ fv c ∧ fv c < k) (t : Nat) :
    ∃ idx, indicesAt false nb k N nup shuffle fv t = .ok idx ∧ Bounded N idx ∧
      ∀ j, j < nup → ind2 nup idx j ∈ rowOf nb k idx j := by
  induction t with
  | zero =>
    obtain ⟨idx', h, hb, hp⟩ := idxStep_local hv h2 (hs 0) (bounded_range N) fv 0 hfv
    exact ⟨idx', by simp [indicesAt, h], hb, fun j hj => (hp j hj).2⟩
  | succ t ih =>
    obtain ⟨idx, h, hb, _⟩ := ih
    obtain ⟨idx', h', hb', hp⟩ :=
      idxStep_local hv h2 (hs (t + 1)) hb fv ((t + 1) * drawsPerIter false nup) hfv
    exact ⟨idx', by simp [indicesAt, h, h'], hb', fun j hj => (hp j hj).2⟩

end TapkeeVerif.Spe
