import TapkeeVerif.Proofs.SpeIndex
/-!
Local strategy of SPE: what the index bookkeeping DOES guarantee on the code as written (lengths, bounds, no
out-of-range access, partners are neighbours of their first members) — the permutation property is lost
(`Props/C19.lean: spe_indices_perm_local_refuted`).
-/
namespace TapkeeVerif.Spe

/-- the neighbour lists handed to `spe_embedding`: one list per point, at least `k` entries each, entries are
    point indices, no point is its own neighbour -/
structure ValidNeighbors (nb : List (List Nat)) (N k : Nat) : Prop where
  len : nb.length = N
  rows : ∀ i (h : i < nb.length), k ≤ (nb[i]).length
  bound : ∀ i (h : i < nb.length), ∀ x ∈ nb[i], x < N
  noself : ∀ i (h : i < nb.length), i ∉ nb[i]

/-- the `k` candidate partners of the `j`-th first member -/
def rowOf (nb : List (List Nat)) (k : Nat) (idx : List Nat) (j : Nat) : List Nat :=
  (nb.getD (idx.getD j 0) []).take k

theorem getD_list {α : Type} (l : List α) (i : Nat) (dflt : α) (h : i < l.length) : l.getD i dflt = l[i] := by
  simp [List.getD_eq_getElem?_getD, h]

theorem rowOf_eq (nb : List (List Nat)) (k : Nat) (idx : List Nat) (j : Nat) (hi : idx.getD j 0 < nb.length) :
    rowOf nb k idx j = (nb[idx.getD j 0]).take k := by
  unfold rowOf
  rw [getD_list nb _ [] hi]

theorem rowOf_length {nb : List (List Nat)} {N k : Nat} (hv : ValidNeighbors nb N k) {idx : List Nat}
    (hall : ∀ x ∈ idx, x < N) {j : Nat} (hj : j < idx.length) : (rowOf nb k idx j).length = k := by
  have hi : idx.getD j 0 < nb.length := by rw [hv.len]; exact getD_lt_of_all hall hj
  have := hv.rows _ hi
  rw [rowOf_eq nb k idx j hi, List.length_take]
  omega

theorem rowOf_mem {nb : List (List Nat)} {N k : Nat} (hv : ValidNeighbors nb N k) {idx : List Nat}
    (hall : ∀ x ∈ idx, x < N) {j : Nat} (hj : j < idx.length) {x : Nat} (hx : x ∈ rowOf nb k idx j) :
    x < N ∧ x ≠ idx.getD j 0 := by
  have hi : idx.getD j 0 < nb.length := by rw [hv.len]; exact getD_lt_of_all hall hj
  have hx' : x ∈ nb[idx.getD j 0] := by
    rw [rowOf_eq nb k idx j hi] at hx
    exact List.mem_of_mem_take hx
  refine ⟨hv.bound _ hi _ hx', ?_⟩
  intro he
  exact hv.noself _ hi (he ▸ hx')

theorem gather_ok {nb : List (List Nat)} {N k : Nat} (hv : ValidNeighbors nb N k) {idx : List Nat}
    (hall : ∀ x ∈ idx, x < N) :
    ∀ todo j, j + todo ≤ idx.length →
      gatherNeighbors nb k idx todo j = .ok (((List.range' j todo).map (rowOf nb k idx)).flatten) := by
  intro todo
  induction todo with
  | zero => intro j _; simp [gatherNeighbors]
  | succ todo ih =>
    intro j hj
    have hjl : j < idx.length := by omega
    have hi : idx[j] < nb.length := by rw [hv.len]; exact hall _ (List.getElem_mem hjl)
    have hk := hv.rows _ hi
    have hrow : rowOf nb k idx j = (nb[idx[j]]).take k := by
      have hg : idx.getD j 0 = idx[j] := getD_of_lt idx j hjl
      rw [rowOf_eq nb k idx j (by rw [hg]; exact hi)]
      simp [hg]
    simp [gatherNeighbors, hjl, neighborRow, hi, hk, ih (j + 1) (by omega), List.range'_succ, hrow]

/-- indexing into the concatenation of rows of equal length `k` -/
theorem flatten_getElem? {α : Type} (k : Nat) :
    ∀ (rows : List (List α)), (∀ r ∈ rows, r.length = k) → ∀ j p, p < k →
      rows.flatten[k * j + p]? = (rows[j]?).bind (·[p]?) := by
  intro rows
  induction rows with
  | nil => intro _ j p _; simp
  | cons r rs ih =>
    intro hlen j p hp
    have hr : r.length = k := hlen r (by simp)
    cases j with
    | zero =>
      simp only [List.flatten_cons, Nat.mul_zero, Nat.zero_add]
      rw [List.getElem?_append_left (by omega)]
      simp
    | succ j =>
      simp only [List.flatten_cons]
      rw [List.getElem?_append_right (by rw [hr, Nat.mul_succ]; omega)]
      have : k * (j + 1) + p - r.length = k * j + p := by rw [hr, Nat.mul_succ]; omega
      rw [this, ih (fun r' hr' => hlen r' (by simp [hr'])) j p hp]
      simp

end TapkeeVerif.Spe
