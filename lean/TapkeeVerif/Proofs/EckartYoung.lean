import TapkeeVerif.Proofs.Spectral
/-!
# Eckart–Young for positive semi-definite approximants, from the variational top-`d` property

`IsTopEig.eckartYoung_psd` : `A` symmetric, `(V, lam)` a top-`d` eigensystem of `A`.  Among all matrices
`G = Q·diag(mu)·Qᵀ` with `QᵀQ = 1` (`d` columns) and `mu ≥ 0` — i.e. all positive semi-definite matrices of rank `≤ d`, in
spectral form — the Frobenius distance `‖A − G‖_F` is minimal at `G* = V·diag(lam⁺)·Vᵀ`, `lam⁺ = max lam 0`.
Proof: `‖A − G‖² = ‖A‖² − Σ_k (2 mu_k b_k − mu_k²)`, `b_k = q_kᵀ A q_k`; `2 mu b − mu² ≤ (b⁺)²`; and
`Σ_k (b_k⁺)² ≤ Σ_j (lam_j⁺)²` by the splitting of `quad_split`, Bessel and Jensen's inequality for the square — no analysis,
any linearly ordered field.
-/
namespace TapkeeVerif.Spectral
open Matrix Finset

variable {K : Type*} [Field K] [LinearOrder K] [IsStrictOrderedRing K]
variable {n d : Type*} [Fintype n] [Fintype d] [DecidableEq n] [DecidableEq d]

/-- squared Frobenius norm -/
def frobSq {m m' : Type*} [Fintype m] [Fintype m'] (M : Matrix m m' K) : K := trace (Mᵀ * M)

omit [LinearOrder K] [IsStrictOrderedRing K] [DecidableEq n] [DecidableEq d] in
theorem frobSq_eq_sum {m m' : Type*} [Fintype m] [Fintype m'] (M : Matrix m m' K) :
    frobSq M = ∑ j, ∑ i, M i j * M i j := by
  simp [frobSq, trace, Matrix.mul_apply]

omit [LinearOrder K] [IsStrictOrderedRing K] [DecidableEq n] in
theorem trace_mul_diagonal (M : Matrix d d K) (g : d → K) : trace (M * diagonal g) = ∑ k, M k k * g k := by
  simp [trace, Matrix.mul_diagonal]

omit [LinearOrder K] [IsStrictOrderedRing K] in
/-- `‖A − Z·diag g·Zᵀ‖² = ‖A‖² − 2 Σ_k g_k (ZᵀAZ)_kk + Σ_k g_k²` for symmetric `A` and orthonormal `Z` -/
theorem frobSq_sub_spectral {A : Matrix n n K} (hA : Aᵀ = A) (Z : Matrix n d K) (hZ : Zᵀ * Z = 1) (g : d → K) :
    frobSq (A - Z * diagonal g * Zᵀ) = frobSq A - 2 * ∑ k, (Zᵀ * A * Z) k k * g k + ∑ k, g k * g k := by
  set G := Z * diagonal g * Zᵀ with hG
  have hGt : Gᵀ = G := by
    rw [hG, transpose_mul, transpose_mul, transpose_transpose, diagonal_transpose, Matrix.mul_assoc]
  have h1 : trace (A * G) = ∑ k, (Zᵀ * A * Z) k k * g k := by
    rw [← trace_mul_diagonal, hG, ← Matrix.mul_assoc, ← Matrix.mul_assoc, trace_mul_comm, ← Matrix.mul_assoc,
      ← Matrix.mul_assoc]
  have h2 : trace (G * A) = ∑ k, (Zᵀ * A * Z) k k * g k := by rw [trace_mul_comm, h1]
  have h3 : trace (G * G) = ∑ k, g k * g k := by
    have : G * G = Z * diagonal (fun k => g k * g k) * Zᵀ := by
      rw [hG]
      calc Z * diagonal g * Zᵀ * (Z * diagonal g * Zᵀ)
          = Z * diagonal g * (Zᵀ * Z) * diagonal g * Zᵀ := by simp only [Matrix.mul_assoc]
        _ = Z * (diagonal g * diagonal g) * Zᵀ := by rw [hZ, Matrix.mul_one]; simp only [Matrix.mul_assoc]
        _ = _ := by rw [diagonal_mul_diagonal]
    rw [this, trace_mul_comm, ← Matrix.mul_assoc, hZ, Matrix.one_mul, trace_diagonal]
  unfold frobSq
  rw [transpose_sub, hA, hGt, Matrix.sub_mul, Matrix.mul_sub, Matrix.mul_sub, trace_sub, trace_sub, trace_sub,
    h1, h2, h3]
  ring

omit [DecidableEq n] [DecidableEq d] [Fintype n] in
/-- Jensen's inequality for the square, weights `w j ≥ 0` and one extra weight `ρ ≥ 0`, total mass one -/
theorem jensen_sq (w a : d → K) (ρ a0 : K) (hw : ∀ j, 0 ≤ w j) (hρ : 0 ≤ ρ) (hsum : ∑ j, w j + ρ = 1) :
    (∑ j, w j * a j + ρ * a0) ^ 2 ≤ ∑ j, w j * a j ^ 2 + ρ * a0 ^ 2 := by
  set S1 := ∑ j, w j * a j with hS1
  set S2 := ∑ j, w j * a j ^ 2 with hS2
  set m := S1 + ρ * a0 with hm
  have e1 : ∑ j, w j * (a j - m) ^ 2 = S2 - 2 * m * S1 + m ^ 2 * ∑ j, w j := by
    rw [hS1, hS2, Finset.mul_sum, Finset.mul_sum, ← Finset.sum_sub_distrib, ← Finset.sum_add_distrib]
    exact Finset.sum_congr rfl fun j _ => by ring
  have hn : 0 ≤ ∑ j, w j * (a j - m) ^ 2 + ρ * (a0 - m) ^ 2 :=
    add_nonneg (Finset.sum_nonneg fun j _ => mul_nonneg (hw j) (sq_nonneg _)) (mul_nonneg hρ (sq_nonneg _))
  have hs : ∑ j, w j = 1 - ρ := by linarith
  rw [e1, hs] at hn
  have hid : S2 - 2 * m * S1 + m ^ 2 * (1 - ρ) + ρ * (a0 - m) ^ 2 = S2 + ρ * a0 ^ 2 - m ^ 2 := by
    rw [hm]; ring
  rw [hid] at hn
  linarith

omit [DecidableEq n] [DecidableEq d] [Fintype n] [Fintype d] in
theorem two_mul_sub_sq_le (mu b : K) (hmu : 0 ≤ mu) : 2 * mu * b - mu * mu ≤ (max b 0) ^ 2 := by
  rcases le_total 0 b with hb | hb
  · rw [max_eq_left hb]; nlinarith [sq_nonneg (b - mu)]
  · rw [max_eq_right hb]; nlinarith [mul_nonneg hmu (neg_nonneg.2 hb), mul_self_nonneg mu]

/-- **Eckart–Young, positive semi-definite form.**  `(V, lam)` a top-`d` eigensystem of the symmetric `A`; for every
    positive semi-definite `G = Q·diag(mu)·Qᵀ` of rank `≤ d` (`QᵀQ = 1`, `mu ≥ 0`):
    `‖A − V·diag(lam⁺)·Vᵀ‖_F² ≤ ‖A − G‖_F²`. -/
theorem IsTopEig.eckartYoung_psd {A : Matrix n n K} (hA : Aᵀ = A) {V : Matrix n d K} {lam : d → K}
    (h : IsTopEig A V lam) (Q : Matrix n d K) (hQ : Qᵀ * Q = 1) (mu : d → K) (hmu : ∀ k, 0 ≤ mu k) :
    frobSq (A - V * diagonal (fun j => max (lam j) 0) * Vᵀ) ≤ frobSq (A - Q * diagonal mu * Qᵀ) := by
  classical
  rw [frobSq_sub_spectral hA V h.ortho, frobSq_sub_spectral hA Q hQ]
  -- the optimum: VᵀAV = diag lam, and lam·lam⁺ = lam⁺²
  have hVAV : ∀ j, (Vᵀ * A * V) j j = lam j := by
    intro j
    rw [Matrix.mul_assoc, h.eig, ← Matrix.mul_assoc, h.ortho, Matrix.one_mul, diagonal_apply_eq]
  have hopt : ∀ j, (Vᵀ * A * V) j j * max (lam j) 0 = max (lam j) 0 * max (lam j) 0 := by
    intro j
    rw [hVAV]
    rcases le_total 0 (lam j) with hl | hl
    · rw [max_eq_left hl]
    · rw [max_eq_right hl]; simp
  rw [Finset.sum_congr rfl fun j _ => hopt j]
  -- reduce to  Σ_k (2 mu_k b_k − mu_k²) ≤ Σ_j (lam_j⁺)²
  suffices hkey : ∑ k, (2 * mu k * (Qᵀ * A * Q) k k - mu k * mu k) ≤ ∑ j, max (lam j) 0 * max (lam j) 0 by
    have e : ∑ k, (2 * mu k * (Qᵀ * A * Q) k k - mu k * mu k)
        = 2 * ∑ k, (Qᵀ * A * Q) k k * mu k - ∑ k, mu k * mu k := by
      rw [Finset.sum_sub_distrib, Finset.mul_sum]
      congr 1
      exact Finset.sum_congr rfl fun k _ => by ring
    rw [e] at hkey
    linarith
  rcases isEmpty_or_nonempty d with hd | hd
  · simp
  obtain ⟨j0, -, hj0⟩ := Finset.exists_min_image (Finset.univ : Finset d) lam Finset.univ_nonempty
  set lp : d → K := fun j => max (lam j) 0 with hlp
  have hlp0 : ∀ j, 0 ≤ lp j := fun j => le_max_right _ _
  have hlple : ∀ j, lam j ≤ lp j := fun j => le_max_left _ _
  have hlpmin : ∀ j, lp j0 ≤ lp j := fun j => max_le_max (hj0 j (Finset.mem_univ j)) le_rfl
  set c : d → d → K := fun k j => (Vᵀ *ᵥ fun i => Q i k) j with hc
  set m : d → K := fun j => ∑ k, c k j * c k j with hm
  have hb : ∀ k, (Qᵀ * A * Q) k k = (fun i => Q i k) ⬝ᵥ (A *ᵥ fun i => Q i k) := by
    intro k
    simp only [Matrix.mul_apply, transpose_apply, dotProduct, mulVec, Finset.sum_mul, Finset.mul_sum]
    rw [Finset.sum_comm]
    exact Finset.sum_congr rfl fun i _ => Finset.sum_congr rfl fun j _ => by ring
  have hcol : ∀ k, (fun i => Q i k) ⬝ᵥ (fun i => Q i k) = 1 := by
    intro k
    have := congrFun (congrFun hQ k) k
    simpa [Matrix.mul_apply, dotProduct] using this
  -- weights of column k: c k j ² (j : d) and ρ k
  have hρ : ∀ k, 0 ≤ 1 - ∑ j, c k j * c k j := by
    intro k
    have hbv := bessel V h.ortho (fun i => Q i k)
    rw [hcol k] at hbv
    have e : (Vᵀ *ᵥ fun i => Q i k) ⬝ᵥ (Vᵀ *ᵥ fun i => Q i k) = ∑ j, c k j * c k j := by simp [dotProduct, hc]
    rw [e] at hbv
    linarith
  have hbound : ∀ k, (Qᵀ * A * Q) k k ≤ ∑ j, (c k j * c k j) * lp j + (1 - ∑ j, c k j * c k j) * lp j0 := by
    intro k
    rw [hb]
    obtain ⟨hperp, hquad, hnorm⟩ := quad_split hA h.toIsEigSystem (fun i => Q i k)
    rw [hquad]
    have ht := h.top _ hperp j0
    rw [hnorm, hcol k] at ht
    have e : (Vᵀ *ᵥ fun i => Q i k) ⬝ᵥ (Vᵀ *ᵥ fun i => Q i k) = ∑ j, c k j * c k j := by simp [dotProduct, hc]
    rw [e] at ht
    have h1 : ∑ j, lam j * ((Vᵀ *ᵥ fun i => Q i k) j * (Vᵀ *ᵥ fun i => Q i k) j) ≤ ∑ j, (c k j * c k j) * lp j := by
      refine Finset.sum_le_sum fun j _ => ?_
      have := mul_le_mul_of_nonneg_left (hlple j) (mul_self_nonneg (c k j))
      simp only [hc] at this ⊢
      linarith
    have h2 : lam j0 * (1 - ∑ j, c k j * c k j) ≤ (1 - ∑ j, c k j * c k j) * lp j0 := by
      have := mul_le_mul_of_nonneg_left (hlple j0) (hρ k)
      linarith
    linarith
  have hm1 : ∀ j, m j ≤ 1 := by
    intro j
    have hbz := bessel Q hQ (fun i => V i j)
    have hv : (fun i => V i j) ⬝ᵥ (fun i => V i j) = 1 := by
      have := congrFun (congrFun h.ortho j) j
      simpa [Matrix.mul_apply, dotProduct] using this
    rw [hv] at hbz
    refine le_trans (le_of_eq ?_) hbz
    simp only [hm, hc, dotProduct, mulVec, transpose_apply]
    refine Finset.sum_congr rfl fun k _ => ?_
    congr 1 <;> exact Finset.sum_congr rfl fun i _ => mul_comm _ _
  -- per column: 2 mu b − mu² ≤ (b⁺)² ≤ ā² ≤ Σ_j c² lp² + ρ lp0²
  have hper : ∀ k, 2 * mu k * (Qᵀ * A * Q) k k - mu k * mu k
      ≤ ∑ j, (c k j * c k j) * lp j ^ 2 + (1 - ∑ j, c k j * c k j) * lp j0 ^ 2 := by
    intro k
    set abar := ∑ j, (c k j * c k j) * lp j + (1 - ∑ j, c k j * c k j) * lp j0 with habar
    have habar0 : 0 ≤ abar :=
      add_nonneg (Finset.sum_nonneg fun j _ => mul_nonneg (mul_self_nonneg _) (hlp0 j)) (mul_nonneg (hρ k) (hlp0 j0))
    have h1 := two_mul_sub_sq_le (mu k) ((Qᵀ * A * Q) k k) (hmu k)
    have h2 : max ((Qᵀ * A * Q) k k) 0 ^ 2 ≤ abar ^ 2 :=
      pow_le_pow_left₀ (le_max_right _ _) (max_le (hbound k) habar0) 2
    have h3 := jensen_sq (fun j => c k j * c k j) lp (1 - ∑ j, c k j * c k j) (lp j0)
      (fun j => mul_self_nonneg _) (hρ k) (by ring)
    exact h1.trans (h2.trans h3)
  calc ∑ k, (2 * mu k * (Qᵀ * A * Q) k k - mu k * mu k)
      ≤ ∑ k, (∑ j, (c k j * c k j) * lp j ^ 2 + (1 - ∑ j, c k j * c k j) * lp j0 ^ 2) :=
        Finset.sum_le_sum fun k _ => hper k
    _ = ∑ j, (m j * lp j ^ 2 + (1 - m j) * lp j0 ^ 2) := by
        simp only [hm, Finset.sum_add_distrib, Finset.sum_mul, sub_mul, Finset.sum_sub_distrib, one_mul]
        rw [Finset.sum_comm]
        congr 2
        rw [Finset.sum_comm]
    _ ≤ ∑ j, (m j * lp j ^ 2 + (1 - m j) * lp j ^ 2) := by
        refine Finset.sum_le_sum fun j _ => ?_
        have hsq : lp j0 ^ 2 ≤ lp j ^ 2 := pow_le_pow_left₀ (hlp0 j0) (hlpmin j) 2
        have := mul_le_mul_of_nonneg_left hsq (sub_nonneg.2 (hm1 j))
        linarith
    _ = ∑ j, max (lam j) 0 * max (lam j) 0 := Finset.sum_congr rfl fun j _ => by simp only [hlp]; ring

end TapkeeVerif.Spectral
