import Mathlib.Data.Matrix.Basic
import Mathlib.Data.Matrix.Mul
import Mathlib.Algebra.BigOperators.Fin
import TapkeeVerif.Model.Mat
/-!
Bridge between the core-only model matrices (`TapkeeVerif.Mat`) and Mathlib's `Matrix`:
`Mat n m K` *is* `Matrix (Fin n) (Fin m) K` definitionally; these lemmas rewrite the model's
list-based sums and operations into Mathlib's `∑`, `*`, `ᵀ`, so that `Matrix` lemmas, `ring`,
`Finset.sum_comm`, … apply to statements about the executable model.
-/
namespace TapkeeVerif
open Matrix

variable {K : Type} {n m p : Nat}

theorem sumFin_eq_sum [AddCommMonoid K] (f : Fin n → K) : sumFin n f = ∑ i, f i := by
  unfold sumFin
  exact (Fin.sum_univ_def f).symm

namespace Mat

/-- a model matrix viewed as a Mathlib matrix (the identity function; `Matrix.of`) -/
abbrev toM (A : Mat n m K) : Matrix (Fin n) (Fin m) K := Matrix.of A

@[simp] theorem toM_apply (A : Mat n m K) (i : Fin n) (j : Fin m) : toM A i j = A i j := rfl

theorem mul_eq [NonUnitalNonAssocSemiring K] (A : Mat n m K) (B : Mat m p K) :
    toM (Mat.mul A B) = toM A * toM B := by
  ext i j
  simp [Mat.mul, sumFin_eq_sum, Matrix.mul_apply]

theorem mul_apply' [NonUnitalNonAssocSemiring K] (A : Mat n m K) (B : Mat m p K) (i : Fin n) (j : Fin p) :
    Mat.mul A B i j = ∑ k, A i k * B k j := by
  simp [Mat.mul, sumFin_eq_sum]

theorem transpose_eq (A : Mat n m K) : toM (Mat.transpose A) = (toM A)ᵀ := rfl

theorem mulVec_eq [NonUnitalNonAssocSemiring K] (A : Mat n m K) (v : Vec m K) :
    Mat.mulVec A v = Matrix.mulVec (toM A) v := by
  funext i
  simp [Mat.mulVec, sumFin_eq_sum, Matrix.mulVec, dotProduct]

theorem trace_eq [AddCommMonoid K] (A : Mat n n K) : Mat.trace A = ∑ i, A i i := by
  simp [Mat.trace, sumFin_eq_sum]

theorem dot_eq [NonUnitalNonAssocSemiring K] (u v : Vec n K) : Mat.dot u v = ∑ i, u i * v i := by
  simp [Mat.dot, sumFin_eq_sum]

theorem one_eq [Zero K] [One K] : toM (Mat.one : Mat n n K) = (1 : Matrix (Fin n) (Fin n) K) := by
  ext i j
  simp [Mat.one, Matrix.one_apply]

theorem diag_eq [Zero K] (d : Vec n K) : toM (Mat.diag d) = Matrix.diagonal d := by
  ext i j
  simp [Mat.diag, Matrix.diagonal_apply]

end Mat
end TapkeeVerif
