import TapkeeVerif.Proofs.SpeLocal
/-!
`stepAt` (the index bookkeeping the driver runs, for either shape of the local strategy):
* `inPlace = true` or global strategy: it is `indicesAt` followed by `pairsOf` (`stepAt_of_indicesAt`);
* `inPlace = false`, local strategy (partners in a separate vector): `indices` stays a permutation for every stream and
  the pairs are (shuffled prefix, neighbours) (`stepAt_separate`).
-/
namespace TapkeeVerif.Spe

theorem stepPairs_inPlace {ip global : Bool} (h : (ip || global) = true) (nb : List (List Nat)) (k nup : Nat)
    (π : List Nat) (fv : Nat → Int) (c0 : Nat) (idx idx' : List Nat) (ps : List (Nat × Nat))
    (h1 : idxStep global nb k nup π fv c0 idx = .ok idx') (h2 : pairsOf nup idx' nup 0 = .ok ps) :
    stepPairs ip global nb k nup π fv c0 idx = .ok (idx', ps) := by
  simp [stepPairs, h, h1, h2]

/-- in-place shape / global strategy: `stepAt` is `indicesAt` + `pairsOf` whenever the vector stays long enough -/
theorem stepAt_of_indicesAt {ip global : Bool} (h : (ip || global) = true) (nb : List (List Nat)) (k N nup : Nat)
    (shuffle : Nat → List Nat) (fv : Nat → Int)
    (hall : ∀ s, ∃ idx, indicesAt global nb k N nup shuffle fv s = .ok idx ∧ 2 * nup ≤ idx.length) (t : Nat) :
    ∃ idx ps, stepAt ip global nb k N nup shuffle fv t = .ok (idx, ps) ∧
      indicesAt global nb k N nup shuffle fv t = .ok idx ∧ pairsOf nup idx nup 0 = .ok ps ∧ ps.length = nup := by
  induction t with
  | zero =>
    obtain ⟨idx, hi, hl⟩ := hall 0
    obtain ⟨ps, hps, hlen⟩ := pairsOf_ok nup idx hl nup 0 (by omega)
    refine ⟨idx, ps, ?_, hi, hps, hlen⟩
    simp only [stepAt]
    exact stepPairs_inPlace h nb k nup _ fv 0 _ idx ps (by simpa [indicesAt] using hi) hps
  | succ t ih =>
    obtain ⟨idx, ps, hst, hi, _, _⟩ := ih
    obtain ⟨idx', hi', hl'⟩ := hall (t + 1)
    obtain ⟨ps', hps', hlen'⟩ := pairsOf_ok nup idx' hl' nup 0 (by omega)
    refine ⟨idx', ps', ?_, hi', hps', hlen'⟩
    simp only [stepAt, hst]
    refine stepPairs_inPlace h nb k nup _ fv _ idx idx' ps' ?_ hps'
    simpa [indicesAt, hi] using hi'

/-! ### separate partners vector -/

theorem partnersLoop_ok {k nup : Nat} {flat : List Nat} {rowsF : Nat → List Nat}
    (hflat : flat = ((List.range' 0 nup).map rowsF).flatten)
    (hrows : ∀ j, j < nup → (rowsF j).length = k)
    (fv : Nat → Int) (c0 : Nat) (hfv : ∀ c, 0 ≤ fv c ∧ fv c < k) :
    ∀ todo j, j + todo = nup →
      ∃ ps, partnersLoop k flat fv c0 todo j = .ok ps ∧ ps.length = todo ∧
        ∀ i, i < todo → ∃ v, v ∈ rowsF (j + i) ∧ ps[i]? = some v := by
  intro todo
  induction todo with
  | zero => intro j _; exact ⟨[], rfl, rfl, fun i hi => by omega⟩
  | succ todo ih =>
    intro j hj
    have hjn : j < nup := by omega
    obtain ⟨hf0, hfk⟩ := hfv (c0 + j)
    have hr0 : ¬ (fv (c0 + j) + ((k * j : Nat) : Int) < 0) := by
      have : (0 : Int) ≤ ((k * j : Nat) : Int) := Int.natCast_nonneg _
      omega
    have hp : (fv (c0 + j)).toNat < k := by omega
    have hrt : (fv (c0 + j) + ((k * j : Nat) : Int)).toNat = k * j + (fv (c0 + j)).toNat := by omega
    have hall : ∀ r ∈ (List.range' 0 nup).map rowsF, r.length = k := by
      intro r hr
      obtain ⟨a, ha, rfl⟩ := List.mem_map.mp hr
      have : a < nup := by simpa using ha
      exact hrows a this
    have hpl : (fv (c0 + j)).toNat < (rowsF j).length := by rw [hrows j hjn]; exact hp
    have hsome : flat[k * j + (fv (c0 + j)).toNat]? = some ((rowsF j)[(fv (c0 + j)).toNat]) := by
      rw [hflat, flatten_getElem? k _ hall j _ hp, rows_getElem? rowsF nup j hjn]
      simp [List.getElem?_eq_getElem hpl]
    obtain ⟨rest, hrun, hl, hmem⟩ := ih (j + 1) (by omega)
    refine ⟨(rowsF j)[(fv (c0 + j)).toNat] :: rest, ?_, by simp [hl], ?_⟩
    · simp only [partnersLoop, hr0, if_false, hrt, hsome, hrun]
    · intro i hi
      cases i with
      | zero => exact ⟨_, List.getElem_mem hpl, by simp⟩
      | succ i =>
        obtain ⟨v, hv1, hv2⟩ := hmem i (by omega)
        refine ⟨v, ?_, by simpa using hv2⟩
        have : j + (i + 1) = j + 1 + i := by omega
        rw [this]; exact hv1

theorem pairsSep_ok (idx partners : List Nat) :
    ∀ todo j, j + todo ≤ idx.length → j + todo ≤ partners.length →
      ∃ ps, pairsSep idx partners todo j = .ok ps ∧ ps.length = todo ∧
        ∀ i, i < todo → ps[i]? = some (idx.getD (j + i) 0, partners.getD (j + i) 0) := by
  intro todo
  induction todo with
  | zero => intro j _ _; exact ⟨[], rfl, rfl, fun i hi => by omega⟩
  | succ todo ih =>
    intro j h1 h2
    obtain ⟨rest, hrun, hl, hget⟩ := ih (j + 1) (by omega) (by omega)
    have hj1 : j < idx.length := by omega
    have hj2 : j < partners.length := by omega
    refine ⟨(idx[j], partners[j]) :: rest, ?_, by simp [hl], ?_⟩
    · simp [pairsSep, hj1, hj2, hrun]
    · intro i hi
      cases i with
      | zero => simp [hj1, hj2]
      | succ i =>
        have := hget i (by omega)
        have he : j + (i + 1) = j + 1 + i := by omega
        rw [he]
        simpa using this

/-- one iteration with the partners in a separate vector -/
theorem stepPairs_separate {N k nup : Nat} {nb : List (List Nat)} (hv : ValidNeighbors nb N k) (h2 : 2 * nup ≤ N)
    {π : List Nat} (hπ : π.Perm (List.range N)) {idx : List Nat} (hp : idx.Perm (List.range N))
    (fv : Nat → Int) (c0 : Nat) (hfv : ∀ c, 0 ≤ fv c ∧ fv c < k) :
    ∃ ps, stepPairs false false nb k nup π fv c0 idx = .ok (applyShuffle π idx, ps) ∧ ps.length = nup ∧
      ∀ j, j < nup → ∃ b, ps[j]? = some ((applyShuffle π idx).getD j 0, b) ∧
        b ∈ rowOf nb k (applyShuffle π idx) j := by
  have hp1 := applyShuffle_perm hπ hp
  have hb1 : Bounded N (applyShuffle π idx) := ⟨by simpa using hp1.length_eq, perm_range_lt hp1⟩
  have hg := gather_ok hv hb1.2 nup 0 (by rw [hb1.1]; omega)
  have hrows : ∀ j, j < nup → (rowOf nb k (applyShuffle π idx) j).length = k :=
    fun j hj => rowOf_length hv hb1.2 (by rw [hb1.1]; omega)
  obtain ⟨partners, hrun, hl, hmem⟩ :=
    partnersLoop_ok (rowsF := rowOf nb k (applyShuffle π idx)) rfl hrows fv c0 hfv nup 0 (by omega)
  obtain ⟨ps, hps, hpl, hget⟩ := pairsSep_ok (applyShuffle π idx) partners nup 0 (by rw [hb1.1]; omega) (by omega)
  refine ⟨ps, ?_, hpl, ?_⟩
  · simp [stepPairs, hg, hrun, hps]
  · intro j hj
    obtain ⟨v, hv1, hv2⟩ := hmem j hj
    refine ⟨partners.getD j 0, by simpa using hget j hj, ?_⟩
    simp only [List.getD_eq_getElem?_getD, hv2, Option.getD_some]
    simpa using hv1

/-- separate partners vector, every stream, every iteration: `indices` is a permutation, and the pairs are
    (first `nup` entries of it, one of the first `k` neighbours of each) -/
theorem stepAt_separate {N k nup : Nat} {nb : List (List Nat)} (hv : ValidNeighbors nb N k) (h2 : 2 * nup ≤ N)
    (shuffle : Nat → List Nat) (hs : ∀ t, (shuffle t).Perm (List.range N))
    (fv : Nat → Int) (hfv : ∀ c, 0 ≤ fv c ∧ fv c < k) (t : Nat) :
    ∃ idx ps, stepAt false false nb k N nup shuffle fv t = .ok (idx, ps) ∧ idx.Perm (List.range N) ∧
      ps.length = nup ∧
      ∀ j, j < nup → ∃ b, ps[j]? = some (idx.getD j 0, b) ∧ b ∈ rowOf nb k idx j := by
  induction t with
  | zero =>
    obtain ⟨ps, h, hl, hp⟩ := stepPairs_separate hv h2 (hs 0) (List.Perm.refl _) fv 0 hfv
    exact ⟨_, ps, by simp [stepAt, h], applyShuffle_perm (hs 0) (List.Perm.refl _), hl, hp⟩
  | succ t ih =>
    obtain ⟨idx, ps0, h0, hp0, _, _⟩ := ih
    obtain ⟨ps, h, hl, hp⟩ :=
      stepPairs_separate hv h2 (hs (t + 1)) hp0 fv ((t + 1) * drawsPerIter false nup) hfv
    exact ⟨_, ps, by simp [stepAt, h0, h], applyShuffle_perm (hs (t + 1)) hp0, hl, hp⟩

end TapkeeVerif.Spe
