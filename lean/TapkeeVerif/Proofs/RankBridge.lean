import Mathlib.LinearAlgebra.Matrix.Rank
import Mathlib.Data.Fintype.Sum
import TapkeeVerif.Proofs.Spectral
/-!
From "the centred data have rank ≤ d" to "everything orthogonal to the returned eigenvectors is in the kernel of the
Gram matrix": the bridge between the *data-side* hypothesis of the exact-recovery statements (C05 `mds_exact_recovery`,
C11) and the kernel form used in their proofs.  Any linearly ordered field.
-/
namespace TapkeeVerif.Spectral
open Matrix Finset

variable {K : Type*} [Field K] [LinearOrder K] [IsStrictOrderedRing K]
variable {n D d : Type*} [Fintype n] [Fintype D] [Fintype d] [DecidableEq n] [DecidableEq D] [DecidableEq d]

omit [DecidableEq n] [DecidableEq D] [DecidableEq d] [Fintype D] [Fintype d] in
theorem dot_self_pos {v : n → K} (hv : v ≠ 0) : 0 < v ⬝ᵥ v := by
  obtain ⟨i, hi⟩ : ∃ i, v i ≠ 0 := by
    by_contra hall
    exact hv (funext fun i => not_not.1 fun hi => hall ⟨i, hi⟩)
  exact Finset.sum_pos' (fun j _ => mul_self_nonneg (v j)) ⟨i, Finset.mem_univ i, mul_self_pos.2 hi⟩

/-- **rank bridge.**  `B = Xc·Xcᵀ` a Gram matrix, `(V, lam)` a top-`d` eigensystem of `B`, `rank Xc ≤ d`: then every
    vector orthogonal to the returned eigenvectors is annihilated by `B` (the returned eigenvectors span the range). -/
theorem kernel_of_rank_le (Xc : Matrix n D K) (V : Matrix n d K) (lam : d → K)
    (h : IsTopEig (Xc * Xcᵀ) V lam) (hrk : Xc.rank ≤ Fintype.card d) :
    ∀ x : n → K, Vᵀ *ᵥ x = 0 → (Xc * Xcᵀ) *ᵥ x = 0 := by
  classical
  intro x hx
  by_contra hBx
  set B := Xc * Xcᵀ with hB
  have hBsymm : Bᵀ = B := by rw [hB, transpose_mul, transpose_transpose]
  set u := Xcᵀ *ᵥ x with hu
  have hu0 : u ≠ 0 := by
    intro h0
    apply hBx
    rw [hB, ← mulVec_mulVec, ← hu, h0, mulVec_zero]
  have hq : x ⬝ᵥ (B *ᵥ x) = u ⬝ᵥ u := by
    rw [hB, ← mulVec_mulVec, ← hu, dot_mulVec_eq]
  have hqpos : 0 < x ⬝ᵥ (B *ᵥ x) := hq ▸ dot_self_pos hu0
  have hx0 : x ≠ 0 := by
    intro h0; rw [h0, mulVec_zero] at hBx; exact hBx rfl
  have hxx : 0 < x ⬝ᵥ x := dot_self_pos hx0
  have hlam : ∀ j, lam j ≠ 0 := by
    intro j hj
    have := h.top x hx j
    rw [hj, zero_mul] at this
    exact absurd hqpos (not_lt.2 this)
  -- the d+1 columns: the returned eigenvectors and x
  let W : Matrix n (d ⊕ Unit) K := fun i a => Sum.elim (fun j : d => V i j) (fun _ => x i) a
  let g : d ⊕ Unit → K := Sum.elim lam (fun _ => x ⬝ᵥ (B *ᵥ x))
  have hBv : ∀ k : d, B *ᵥ (fun i => V i k) = lam k • (fun i => V i k) := by
    intro k
    funext i
    have := congrFun (congrFun h.eig i) k
    rw [Matrix.mul_diagonal, Matrix.mul_apply] at this
    simp only [mulVec, dotProduct, Pi.smul_apply, smul_eq_mul]
    rw [this, mul_comm]
  have hvv : ∀ j k : d, (fun i => V i j) ⬝ᵥ (fun i => V i k) = if j = k then 1 else 0 := by
    intro j k
    have := congrFun (congrFun h.ortho j) k
    simpa [Matrix.mul_apply, dotProduct, Matrix.one_apply] using this
  have hvx : ∀ j : d, (fun i => V i j) ⬝ᵥ x = 0 := by
    intro j
    have := congrFun hx j
    simpa [mulVec, dotProduct] using this
  have hG : Wᵀ * B * W = diagonal g := by
    ext a b
    have hab : (Wᵀ * B * W) a b = (fun i => W i a) ⬝ᵥ (B *ᵥ fun i => W i b) := by
      simp only [Matrix.mul_apply, transpose_apply, dotProduct, mulVec, Finset.sum_mul, Finset.mul_sum]
      rw [Finset.sum_comm]
      exact Finset.sum_congr rfl fun i _ => Finset.sum_congr rfl fun j _ => by ring
    rw [hab]
    rcases a with j | _ <;> rcases b with k | _
    · show (fun i => V i j) ⬝ᵥ (B *ᵥ fun i => V i k) = _
      rw [hBv, dotProduct_smul, hvv, diagonal_apply]
      by_cases hjk : j = k
      · subst hjk; simp [g]
      · simp [hjk]
    · show (fun i => V i j) ⬝ᵥ (B *ᵥ x) = _
      rw [dot_mulVec_eq, hBsymm, hBv, smul_dotProduct, hvx]
      simp
    · show x ⬝ᵥ (B *ᵥ fun i => V i k) = _
      rw [hBv, dotProduct_smul, dotProduct_comm, hvx]
      simp
    · show x ⬝ᵥ (B *ᵥ x) = _
      simp [g]
  -- rank count
  have hgne : ∀ a, g a ≠ 0 := by
    rintro (j | _)
    · exact hlam j
    · exact hqpos.ne'
  have hrG : (diagonal g).rank = Fintype.card d + 1 := by
    rw [rank_diagonal]
    have : Fintype.card {a // g a ≠ 0} = Fintype.card (d ⊕ Unit) :=
      Fintype.card_of_subtype Finset.univ (fun a => by simp [hgne a])
    rw [this, Fintype.card_sum, Fintype.card_unit]
  have hfac : Wᵀ * B * W = (Xcᵀ * W)ᵀ * (Xcᵀ * W) := by
    rw [hB, transpose_mul, transpose_transpose]; simp only [Matrix.mul_assoc]
  have h1 : (diagonal g).rank ≤ (Xcᵀ * W).rank := by
    rw [← hG, hfac]; exact rank_mul_le_right _ _
  have h2 : (Xcᵀ * W).rank ≤ Xc.rank := (rank_mul_le_left _ _).trans_eq (rank_transpose Xc)
  omega

end TapkeeVerif.Spectral
