import TapkeeVerif.Proofs.TsneCsrCount
/-!
C17, CSR symmetriser, part 4: the run — every write in bounds, every cell written, the result described cell by cell.
-/
namespace TapkeeVerif.Tsne

variable {K : Type} [Field K]
set_option linter.unusedSectionVars false

/-- all triples of the second pass, in order -/
def emissions (N : Nat) (c : Csr K) : List (Nat × Nat × K) := (csrEntries N c).flatMap (emit c)

theorem placeAll_append (S : Nat → Nat) (st : SymSt K) (xs ys : List (Nat × Nat × K)) :
    placeAll S st (xs ++ ys) = (match placeAll S st xs with
      | .error e => .error e
      | .ok s1 => placeAll S s1 ys) := by
  unfold placeAll
  rw [List.foldlM_append]
  cases List.foldlM (place S) st xs <;> rfl

/-- the whole second pass is the placement of all emissions -/
theorem fill_eq_placeAll (N : Nat) (c : Csr K) (h : WFc N c) (hd : DistinctCols N c) (S : Nat → Nat) :
    ∀ (E : List (Nat × Nat)) (st : SymSt K), (∀ e ∈ E, e ∈ csrEntries N c) →
      E.foldlM (fillStep c S) st = placeAll S st (E.flatMap (emit c)) := by
  intro E
  induction E with
  | nil => intro st _; rfl
  | cons e E ih =>
    intro st hE
    have he := hE e (by simp)
    have hcol := entry_col_lt N c h he
    have hrow := (mem_entries N c e).1 he
    have hstep : fillStep c S st e = placeAll S st (emit c e) := by
      obtain ⟨n, i⟩ := e
      apply fillStep_eq_place c S st n i (hd _ hcol)
      intro hcn
      cases hp : partner c n i with
      | some m => exact ⟨m, rfl⟩
      | none =>
        exfalso
        have := partner_none c hp i (by rw [hcn]; exact hrow.2)
        exact this hcn
    rw [List.foldlM_cons, List.flatMap_cons, placeAll_append, hstep]
    cases placeAll S st (emit c e) with
    | error err => rfl
    | ok s1 => exact ih s1 fun e' he' => hE e' (by simp [he'])

theorem emit_rows_lt (N : Nat) (c : Csr K) (h : WFc N c) {e : Nat × Nat} (he : e ∈ csrEntries N c) :
    ∀ x ∈ emit c e, x.1 < N := by
  have hcol := entry_col_lt N c h he
  have hrow := ((mem_entries N c e).1 he).1
  intro x hx
  unfold emit at hx
  cases hp : partner c e.1 e.2 with
  | none =>
    simp only [hp, List.mem_cons, List.mem_nil_iff, or_false] at hx
    rcases hx with rfl | rfl <;> assumption
  | some m =>
    simp only [hp] at hx
    split_ifs at hx with h1 h2
    · simp only [List.mem_singleton] at hx; subst hx; exact hrow
    · simp only [List.mem_cons, List.mem_nil_iff, or_false] at hx
      rcases hx with rfl | rfl <;> assumption
    · simp at hx

theorem emissions_rows_lt (N : Nat) (c : Csr K) (h : WFc N c) : ∀ x ∈ emissions N c, x.1 < N := by
  intro x hx
  unfold emissions at hx
  rw [List.mem_flatMap] at hx
  obtain ⟨e, he, hxe⟩ := hx
  exact emit_rows_lt N c h he x hxe

/-- the content of cell `p` of the result: the `j`-th triple of row `r` for `p = S r + j` -/
def cellAt (N : Nat) (c : Csr K) (p : Nat) : Option (Nat × K) :=
  ((List.range N).findSome? fun r =>
    if symRowOf (rcOf N c) r ≤ p ∧ p < symRowOf (rcOf N c) (r + 1) then
      (rowList (emissions N c) r)[p - symRowOf (rcOf N c) r]? else none)

/-- **the second pass runs without leaving its arrays and writes every cell**: from the freshly allocated state
    it ends in a state whose cell `S r + j` holds the `j`-th triple emitted into row `r`, for every `r < N`,
    `j < row_counts[r]` — and these are all cells -/
theorem second_pass_ok (N : Nat) (c : Csr K) (h : WFc N c) (hd : DistinctCols N c) :
    ∃ st', (csrEntries N c).foldlM (fillStep c (symRowOf (rcOf N c)))
        (⟨Mem.alloc (symRowOf (rcOf N c) N), fun _ => 0⟩ : SymSt K) = .ok st' ∧
      (∀ r < N, ∀ j < rcOf N c r, ∃ y, (rowList (emissions N c) r)[j]? = some y ∧
        st'.mem.get (symRowOf (rcOf N c) r + j) = some y) ∧
      (∀ p < symRowOf (rcOf N c) N, ∃ r < N, ∃ j < rcOf N c r, p = symRowOf (rcOf N c) r + j) := by
  have hcap : ∀ r < N, (⟨Mem.alloc (symRowOf (rcOf N c) N), fun _ => 0⟩ : SymSt K).off r +
      (rowList (emissions N c) r).length ≤ rcOf N c r := by
    intro r _
    simp only [Nat.zero_add]
    exact Nat.le_of_eq (rc_eq_emitted N c h hd r)
  obtain ⟨st', hrun, -, -, hcont, -⟩ := placeAll_spec (rcOf N c) N (emissions N c)
    (⟨Mem.alloc (symRowOf (rcOf N c) N), fun _ => 0⟩ : SymSt K) rfl (emissions_rows_lt N c h) hcap
  refine ⟨st', ?_, ?_, slot_cover (rcOf N c) N⟩
  · rw [fill_eq_placeAll N c h hd _ _ _ fun e he => he]
    exact hrun
  · intro r hr j hj
    have hlen : j < (rowList (emissions N c) r).length := by
      unfold emissions; rw [rc_eq_emitted N c h hd r]; exact hj
    refine ⟨(rowList (emissions N c) r)[j], List.getElem?_eq_getElem hlen, ?_⟩
    have := hcont r hr j _ (List.getElem?_eq_getElem hlen)
    simpa using this

end TapkeeVerif.Tsne
