import Mathlib.Algebra.BigOperators.Fin
import Mathlib.Algebra.BigOperators.Ring.Finset
import Mathlib.Algebra.BigOperators.Field
import Mathlib.Algebra.BigOperators.Group.List.Basic
import Mathlib.Tactic.Ring
import Mathlib.Tactic.FieldSimp
import TapkeeVerif.Model.LinearGraph
import TapkeeVerif.Proofs.MatBridge
/-!
Helper lemmas for C10 (`Props/C10.lean`): closed forms of the folds of `Model/LinearGraph.lean`
(`sampleSumD`, `weightSumD`) and of the three `construct_*_eigenproblem` models as they are now (after the fix commits
F-LIN-TRI and F-LLTSA-CENTRE): the returned pairs are the full forms, both triangles.
The rotation algebra is in `Proofs/LinearGraphFixed.lean`; the routines as they were BEFORE the fixes, with what was
proved of them (regression witnesses), are in `Proofs/LinearGraphPreFix.lean`.
-/
namespace TapkeeVerif.LinearGraph
open TapkeeVerif

variable {K : Type} [Field K] {N D : Nat}

/-! ### the folds -/

/-- folding upper-triangle `+=` updates from `A0`: `A0 + Σ updates` on and above the diagonal, `A0` untouched below -/
theorem foldl_upper_get {α : Type} (upd : α → Mat D D K) (l : List α) (A0 : DMat D D K) (i j : Fin D) :
    (l.foldl (fun A e => DMat.ofFn (fun i j => if i ≤ j then A.get i j + upd e i j else A.get i j)) A0).get i j
      = if i ≤ j then A0.get i j + (l.map fun e => upd e i j).sum else A0.get i j := by
  induction l generalizing A0 with
  | nil => simp
  | cons e l ih =>
    rw [List.foldl_cons, ih, DMat.get_ofFn]
    split <;> simp [add_assoc]

theorem zeroD_get (i j : Fin D) : (zeroD : DMat D D K).get i j = 0 := by
  unfold zeroD
  rw [DMat.get_ofFn]

theorem list_sum_map_finRange (f : Fin N → K) : ((List.finRange N).map f).sum = ∑ r, f r :=
  (Fin.sum_univ_def f).symm

theorem list_sum_map_flatMap {α β : Type} (g : α → List β) (f : β → K) (l : List α) :
    ((l.flatMap g).map f).sum = (l.map fun a => ((g a).map f).sum).sum := by
  induction l with
  | nil => simp
  | cons a l ih => simp [List.flatMap_cons, ih]

/-- `rhs` after the sample loop: the weighted second-moment matrix, **upper triangle only** -/
theorem sampleSumD_get (F : Mat N D K) (wt : Vec N K) (i j : Fin D) :
    (sampleSumD F wt).get i j = if i ≤ j then ∑ r, wt r * (F r i * F r j) else 0 := by
  have h := foldl_upper_get (fun (r : Fin N) i j => wt r * (F r i * F r j)) (List.finRange N) zeroD i j
  rw [zeroD_get, list_sum_map_finRange, zero_add] at h
  exact h

/-- `lhs` after the loop over the stored entries of the sparse matrix, **upper triangle only** -/
theorem weightSumD_get (W : Mat N N K) (F : Mat N D K) (i j : Fin D) :
    (weightSumD W F).get i j
      = if i ≤ j then ∑ c, ∑ r, W r c * (F r i * F c j + F c i * F r j) else 0 := by
  have h := foldl_upper_get
    (fun (e : Fin N × Fin N × K) i j => e.2.2 * (F e.1 i * F e.2.1 j + F e.2.1 i * F e.1 j)) (sparseEntries W) zeroD i j
  rw [zeroD_get, zero_add] at h
  have hs : ((sparseEntries W).map fun e => e.2.2 * (F e.1 i * F e.2.1 j + F e.2.1 i * F e.1 j)).sum
      = ∑ c, ∑ r, W r c * (F r i * F c j + F c i * F r j) := by
    unfold sparseEntries
    rw [list_sum_map_flatMap, list_sum_map_finRange]
    refine Finset.sum_congr rfl fun c _ => ?_
    rw [List.map_map, list_sum_map_finRange]
    rfl
  rw [hs] at h
  exact h

/-! ### the full forms as Mathlib sums -/

theorem fullForm_apply (M : Mat N N K) (F : Mat N D K) (i j : Fin D) :
    fullForm M F i j = ∑ r, ∑ c, F r i * M r c * F c j := by
  simp only [fullForm, sumFin_eq_sum]

theorem fullDiagForm_apply (w : Vec N K) (F : Mat N D K) (i j : Fin D) :
    fullDiagForm w F i j = ∑ r, F r i * w r * F r j := by
  simp only [fullDiagForm, sumFin_eq_sum]

theorem featureSum_apply (F : Mat N D K) (j : Fin D) : featureSum F j = ∑ r, F r j := by
  simp only [featureSum, sumFin_eq_sum]

theorem fullDiagForm_symm (w : Vec N K) (F : Mat N D K) (i j : Fin D) :
    fullDiagForm w F i j = fullDiagForm w F j i := by
  rw [fullDiagForm_apply, fullDiagForm_apply]
  exact Finset.sum_congr rfl fun r _ => by ring

theorem fullForm_symm {W : Mat N N K} (hW : ∀ r c, W r c = W c r) (F : Mat N D K) (i j : Fin D) :
    fullForm W F i j = fullForm W F j i := by
  rw [fullForm_apply, fullForm_apply, Finset.sum_comm]
  refine Finset.sum_congr rfl fun c _ => Finset.sum_congr rfl fun r _ => ?_
  rw [hW r c]
  ring

/-- each stored entry `(r, c, v)` contributes `v (x_r x_cᵀ + x_c x_rᵀ)`: for symmetric `W` the total is `2 Fᵀ W F` -/
theorem weightSum_closed {W : Mat N N K} (hW : ∀ r c, W r c = W c r) (F : Mat N D K) (i j : Fin D) :
    (∑ c, ∑ r, W r c * (F r i * F c j + F c i * F r j)) = 2 * fullForm W F i j := by
  rw [fullForm_apply, two_mul]
  simp only [mul_add, Finset.sum_add_distrib]
  congr 1
  · rw [Finset.sum_comm]
    exact Finset.sum_congr rfl fun r _ => Finset.sum_congr rfl fun c _ => by ring
  · refine Finset.sum_congr rfl fun c _ => Finset.sum_congr rfl fun r _ => ?_
    rw [hW r c]
    ring

theorem sampleSum_closed (wt : Vec N K) (F : Mat N D K) (i j : Fin D) :
    (∑ r, wt r * (F r i * F r j)) = fullDiagForm wt F i j := by
  rw [fullDiagForm_apply]
  exact Finset.sum_congr rfl fun r _ => by ring

/-- `Fᵀ (1 − 11ᵀ/N) F = Fᵀ F − s sᵀ / N` (true also for `N = 0`, where both sides are `0`) -/
theorem fullForm_centering (F : Mat N D K) (i j : Fin D) :
    fullForm centering F i j
      = fullDiagForm (fun _ => 1) F i j - featureSum F i * featureSum F j / (N : K) := by
  rw [fullForm_apply, fullDiagForm_apply, featureSum_apply, featureSum_apply, Finset.sum_mul_sum,
    Finset.sum_div, ← Finset.sum_sub_distrib]
  refine Finset.sum_congr rfl fun r _ => ?_
  rw [Finset.sum_div]
  simp only [centering, mul_sub, sub_mul, Finset.sum_sub_distrib]
  congr 1
  · simp
  · exact Finset.sum_congr rfl fun c _ => by ring

/-- the centred second-moment matrix `Fᵀ F − s sᵀ / N`, entrywise -/
def centredMoment (F : Mat N D K) : Mat D D K :=
  fun i j => fullDiagForm (fun _ => 1) F i j - featureSum F i * featureSum F j / (N : K)

theorem centredMoment_symm (F : Mat N D K) (i j : Fin D) : centredMoment F i j = centredMoment F j i := by
  unfold centredMoment
  rw [fullDiagForm_symm, mul_comm]

/-! ### triangle views -/

/-- a reader of the lower triangle sees only the diagonal of an upper-only matrix -/
theorem lowerView_upperOnly (X : Mat D D K) (i j : Fin D) :
    Mat.lowerView (fun i j => if i ≤ j then X i j else 0) i j = if i = j then X i i else 0 := by
  simp only [Mat.lowerView]
  rcases lt_trichotomy i j with h | h | h
  · rw [if_neg (not_le.mpr h), if_neg (not_le.mpr h), if_neg h.ne]
  · subst h
    rw [if_pos le_rfl, if_pos le_rfl, if_pos rfl]
  · rw [if_pos h.le, if_neg (not_le.mpr h), if_neg h.ne']

omit [Field K] in
theorem lowerView_of_symm (A : Mat D D K) (hA : ∀ i j, A i j = A j i) : Mat.lowerView A = A := by
  funext i j
  simp only [Mat.lowerView]
  split
  · rfl
  · exact hA j i

/-- mirroring the upper triangle of an upper-only copy of a symmetric matrix gives the matrix back -/
theorem upperView_upperOnly (X : Mat D D K) (hX : ∀ i j, X i j = X j i) :
    Mat.upperView (fun i j => if i ≤ j then X i j else 0) = X := by
  funext i j
  simp only [Mat.upperView]
  by_cases h : i ≤ j
  · rw [if_pos h, if_pos h]
  · rw [if_neg h, if_pos (le_of_not_ge h), hX j i]

omit [Field K] in
theorem upperView_symm (A : Mat D D K) (i j : Fin D) : Mat.upperView A i j = Mat.upperView A j i := by
  simp only [Mat.upperView]
  rcases lt_trichotomy i j with h | h | h
  · rw [if_pos h.le, if_neg (not_le.mpr h)]
  · subst h; rfl
  · rw [if_neg (not_le.mpr h), if_pos h.le]

/-! ### the three routines in closed form -/

theorem weightSumD_get_symm {W : Mat N N K} (hW : ∀ r c, W r c = W c r) (F : Mat N D K) :
    (weightSumD W F).get = fun i j => if i ≤ j then 2 * fullForm W F i j else 0 := by
  funext i j
  rw [weightSumD_get, weightSum_closed hW]

theorem sampleSumD_get_closed (F : Mat N D K) (wt : Vec N K) :
    (sampleSumD F wt).get = fun i j => if i ≤ j then fullDiagForm wt F i j else 0 := by
  funext i j
  rw [sampleSumD_get, sampleSum_closed]

/-- a rank-one upper update of an upper-only matrix is upper-only -/
theorem rankUpdate1_upperOnly (X : Mat D D K) (u : Vec D K) (α : K) :
    rankUpdate1 (fun i j => if i ≤ j then X i j else 0) u α
      = fun i j => if i ≤ j then X i j + α * (u i * u j) else 0 := by
  funext i j
  simp only [rankUpdate1]
  split <;> rfl

theorem mirrorUpperD_get (A : DMat D D K) : (mirrorUpperD A).get = Mat.upperView A.get := by
  unfold mirrorUpperD
  rw [DMat.get_ofFn]

theorem mirror_weightSum {W : Mat N N K} (hW : ∀ r c, W r c = W c r) (F : Mat N D K) :
    (mirrorUpperD (weightSumD W F)).get = fun i j => 2 * fullForm W F i j := by
  rw [mirrorUpperD_get, weightSumD_get_symm hW]
  exact upperView_upperOnly (fun i j => 2 * fullForm W F i j) (fun i j => by rw [fullForm_symm hW])

theorem mirror_sampleSum (F : Mat N D K) (wt : Vec N K) :
    (mirrorUpperD (sampleSumD F wt)).get = fullDiagForm wt F := by
  rw [mirrorUpperD_get, sampleSumD_get_closed]
  exact upperView_upperOnly _ (fullDiagForm_symm wt F)

theorem fullForm_centering_symm (F : Mat N D K) (i j : Fin D) :
    fullForm centering F i j = fullForm centering F j i := by
  rw [fullForm_centering, fullForm_centering]
  exact centredMoment_symm F i j

theorem mirror_centredSampleSum (F : Mat N D K) :
    (mirrorUpperD (rankUpdate1D (sampleSumD F fun _ => 1) (DVec.ofFn (featureSum F)).get ((-1) / (N : K)))).get
      = fullForm centering F := by
  rw [mirrorUpperD_get]
  simp only [rankUpdate1D, DMat.get_ofFn, DVec.get_ofFn]
  rw [sampleSumD_get_closed, rankUpdate1_upperOnly]
  have h : (fun i j : Fin D => if i ≤ j then
        fullDiagForm (fun _ => 1) F i j + (-1) / (N : K) * (featureSum F i * featureSum F j) else 0)
      = fun i j => if i ≤ j then fullForm centering F i j else 0 := by
    funext i j
    split
    · rw [fullForm_centering]
      ring
    · rfl
  rw [h]
  exact upperView_upperOnly _ (fullForm_centering_symm F)

/-- NPE returns `(2 · Fᵀ W F, Fᵀ F)`, both triangles -/
theorem npe_returns {W : Mat N N K} (hW : ∀ r c, W r c = W c r) (F : Mat N D K) :
    npeProblem W F = (fun i j => 2 * fullForm W F i j, fullDiagForm (fun _ => 1) F) := by
  show ((mirrorUpperD (weightSumD W F)).get, (mirrorUpperD (sampleSumD F fun _ => 1)).get) = _
  rw [mirror_weightSum hW, mirror_sampleSum]

/-- LLTSA returns `(2 · Fᵀ W F, Fᵀ H F)`, both triangles (no hypothesis on `N`: for `N = 0` everything is `0`) -/
theorem lltsa_returns {W : Mat N N K} (hW : ∀ r c, W r c = W c r) (F : Mat N D K) :
    lltsaProblem W F = (fun i j => 2 * fullForm W F i j, fullForm centering F) := by
  show ((mirrorUpperD (weightSumD W F)).get,
    (mirrorUpperD (rankUpdate1D (sampleSumD F fun _ => 1) (DVec.ofFn (featureSum F)).get ((-1) / (N : K)))).get) = _
  rw [mirror_weightSum hW, mirror_centredSampleSum]

/-- LPP returns `(2 · Fᵀ L F, Fᵀ diag(Dg) F)`, both triangles -/
theorem lpp_returns {L : Mat N N K} (hL : ∀ r c, L r c = L c r) (Dg : Vec N K) (F : Mat N D K) :
    lppProblem L Dg F = (fun i j => 2 * fullForm L F i j, fullDiagForm Dg F) := by
  show ((mirrorUpperD (weightSumD L F)).get, (mirrorUpperD (sampleSumD F Dg)).get) = _
  rw [mirror_weightSum hL, mirror_sampleSum]

theorem two_fullForm_symm {W : Mat N N K} (hW : ∀ r c, W r c = W c r) (F : Mat N D K) (i j : Fin D) :
    (fun i j => 2 * fullForm W F i j) i j = (fun i j => 2 * fullForm W F i j) j i := by
  show 2 * fullForm W F i j = 2 * fullForm W F j i
  rw [fullForm_symm hW]

/-- the generalised solver (lower triangles) sees the NPE pair in full -/
theorem genSolveLower_npe {W : Mat N N K} (hW : ∀ r c, W r c = W c r) (F : Mat N D K) :
    genSolveLower (npeProblem W F) = (fun i j => 2 * fullForm W F i j, fullDiagForm (fun _ => 1) F) := by
  rw [npe_returns hW]
  show (Mat.lowerView _, Mat.lowerView _) = _
  rw [lowerView_of_symm _ (two_fullForm_symm hW F), lowerView_of_symm _ (fullDiagForm_symm _ F)]

theorem genSolveLower_lltsa {W : Mat N N K} (hW : ∀ r c, W r c = W c r) (F : Mat N D K) :
    genSolveLower (lltsaProblem W F) = (fun i j => 2 * fullForm W F i j, fullForm centering F) := by
  rw [lltsa_returns hW]
  show (Mat.lowerView _, Mat.lowerView _) = _
  rw [lowerView_of_symm _ (two_fullForm_symm hW F), lowerView_of_symm _ (fullForm_centering_symm F)]

theorem genSolveLower_lpp {L : Mat N N K} (hL : ∀ r c, L r c = L c r) (Dg : Vec N K) (F : Mat N D K) :
    genSolveLower (lppProblem L Dg F) = (fun i j => 2 * fullForm L F i j, fullDiagForm Dg F) := by
  rw [lpp_returns hL]
  show (Mat.lowerView _, Mat.lowerView _) = _
  rw [lowerView_of_symm _ (two_fullForm_symm hL F), lowerView_of_symm _ (fullDiagForm_symm _ F)]

/-! ### the witness of `C10.prefix_solver_sees_XMXt_refuted`: two samples `(1,0)`, `(1,1)` in the plane, `W = 1` -/

def refuteW : Mat 2 2 ℚ := fun r c => if r = c then 1 else 0
def refuteF : Mat 2 2 ℚ := fun r j => if r = 0 ∧ j = 1 then 0 else 1

theorem refuteW_symm : ∀ r c, refuteW r c = refuteW c r := by decide

/-- `Fᵀ W F = [[2,1],[1,1]]` has a non-zero off-diagonal entry -/
theorem refute_fullForm_01 : fullForm refuteW refuteF 0 1 = 1 := by
  rw [fullForm_apply]
  simp [Fin.sum_univ_two, refuteW, refuteF]

end TapkeeVerif.LinearGraph
