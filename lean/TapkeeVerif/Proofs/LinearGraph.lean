import Mathlib.Algebra.BigOperators.Fin
import Mathlib.Algebra.BigOperators.Ring.Finset
import Mathlib.Algebra.BigOperators.Field
import Mathlib.Algebra.BigOperators.Group.List.Basic
import Mathlib.Tactic.Ring
import Mathlib.Tactic.FieldSimp
import TapkeeVerif.Model.LinearGraph
import TapkeeVerif.Proofs.MatBridge
/-!
Helper lemmas for C10 (`Props/C10.lean`): closed forms of the folds of `Model/LinearGraph.lean`
(`sampleSumD`, `weightSumD`) and of the three `construct_*_eigenproblem` models as they are now (after the fix commits
F-LIN-TRI and F-LLTSA-CENTRE): the returned pairs are the full forms, both triangles.
The rotation algebra is in `Proofs/LinearGraphFixed.lean`; the routines as they were BEFORE the fixes, with what was
proved of them (regression witnesses), are in `Proofs/LinearGraphPreFix.lean`.
-/
namespace TapkeeVerif.LinearGraph
open TapkeeVerif

variable {K : Type} [Field K] {N D : Nat}

/-! ### the folds -/

/-- folding upper-triangle `+=` updates from `A0`: `A0 + Σ updates` on and above the diagonal, `A0` untouched below -/
theorem foldl_upper_get {α : Type} (upd : α → Mat D D K) (l : List α) (A0 : DMat D D K) (i j : Fin D) :
    (l.foldl (fun A e => DMat.ofFn (fun i j => if i ≤ j then A.get i j + upd e i j else A.get i j)) A0).get i j
      = if i ≤ j then A0.get i j + (l.map fun e => upd e i j).sum else A0.get i j := by
  induction l generalizing A0 with
  | nil => simp
  | cons e l ih =>
    rw [List.foldl_cons, ih, DMat.get_ofFn]
    split <;> simp [add_assoc]

theorem zeroD_get (i j : Fin D) : (zeroD : DMat D D K).get i j = 0 := by
  unfold zeroD
  rw [DMat.get_ofFn]

theorem list_sum_map_finRange (f : Fin N → K) : ((List.finRange N).map f).sum = ∑ r, f r :=
  (Fin.sum_univ_def f).symm

theorem list_sum_map_flatMap {α β : Type} (g : α → List β) (f : β → K) (l : List α) :
    ((l.flatMap g).map f).sum = (l.map fun a => ((g a).map f).sum).sum := by
  induction l with
  | nil => simp
  | cons a l ih => simp [List.flatMap_cons, ih]

/-- `rhs` after the sample loop: the weighted second-moment matrix, **upper triangle only** -/
theorem sampleSumD_get (F : Mat N D K) (wt : Vec N K) (i j : Fin D) :
    (sampleSumD F wt).get i j = if i ≤ j then ∑ r, wt r * (F r i * F r j) else 0 := by
  have h := foldl_upper_get (fun (r : Fin N) i j => wt r * (F r i * F r j)) (List.finRange N) zeroD i j
  rw [zeroD_get, list_sum_map_finRange, zero_add] at h
  exact h

/-- `lhs` after the loop over the stored entries of the sparse matrix, **upper triangle only** -/
theorem weightSumD_get (W : Mat N N K) (F : Mat N D K) (i j : Fin D) :
    (weightSumD W F).get i j
      = if i ≤ j then ∑ c, ∑ r, W r c * (F r i * F c j + F c i * F r j) else 0 := by
  have h := foldl_upper_get
    (fun (e : Fin N × Fin N × K) i j => e.2.2 * (F e.1 i * F e.2.1 j + F e.2.1 i * F e.1 j)) (sparseEntries W) zeroD i j
  rw [zeroD_get, zero_add] at h
  have hs : ((sparseEntries W).map fun e => e.2.2 * (F e.1 i * F e.2.1 j + F e.2.1 i * F e.1 j)).sum
      = ∑ c, ∑ r, W r c * (F r i * F c j + F c i * F r j) := by
    unfold sparseEntries
    rw [list_sum_map_flatMap, list_sum_map_finRange]
    refine Finset.sum_congr rfl fun c _ => ?_
    rw [List.map_map, list_sum_map_finRange]
    rfl
  rw [hs] at h
  exact h

/-! ### the full forms as Mathlib sums -/

theorem fullForm_apply (M : Mat N N K) (F : Mat N D K) (i j : Fin D) :
    fullForm M F i j = ∑ r, ∑ c, F r i * M r c * F c j := by
  simp only [fullForm, sumFin_eq_sum]

theorem fullDiagForm_apply (w : Vec N K) (F : Mat N D K) (i j : Fin D) :
    fullDiagForm w F i j = ∑ r, F r i * w r * F r j := by
  simp only [fullDiagForm, sumFin_eq_sum]

theorem featureSum_apply (F : Mat N D K) (j : Fin D) : featureSum F j = ∑ r, F r j := by
  simp only [featureSum, sumFin_eq_sum]

theorem fullDiagForm_symm (w : Vec N K) (F : Mat N D K) (i j : Fin D) :
    fullDiagForm w F i j = fullDiagForm w F j i := by
  rw [fullDiagForm_apply, fullDiagForm_apply]
  exact Finset.sum_congr rfl fun r _ => by ring

theorem fullForm_symm {W : Mat N N K} (hW : ∀ r c, W r c = W c r) (F : Mat N D K) (i j : Fin D) :
    fullForm W F i j = fullForm W F j i := by
  rw [fullForm_apply, fullForm_apply, Finset.sum_comm]
  refine Finset.sum_congr rfl fun c _ => Finset.sum_congr rfl fun r _ => ?_
  rw [hW r c]
  ring

/-- each stored entry `(r, c, v)` contributes `v (x_r x_cᵀ + x_c x_rᵀ)`: for symmetric `W` the total is `2 Fᵀ W F` -/
theorem weightSum_closed {W : Mat N N K} (hW : ∀ r c, W r c = W c r) (F : Mat N D K) (i j : Fin D) :
    (∑ c, ∑ r, W r c * (F r i * F c j + F c i * F r j)) = 2 * fullForm W F i j := by
  rw [fullForm_apply, two_mul]
  simp only [mul_add, Finset.sum_add_distrib]
  congr 1
  · rw [Finset.sum_comm]
    exact Finset.sum_congr rfl fun r _ => Finset.sum_congr rfl fun c _ => by ring
  · refine Finset.sum_congr rfl fun c _ => Finset.sum_congr rfl fun r _ => ?_
    rw [hW r c]
    ring

theorem sampleSum_closed (wt : Vec N K) (F : Mat N D K) (i j : Fin D) :
    (∑ r, wt r * (F r i * F r j)) = fullDiagForm wt F i j := by
  rw [fullDiagForm_apply]
  exact Finset.sum_congr rfl fun r _ => by ring

/-- `Fᵀ (1 − 11ᵀ/N) F = Fᵀ F − s sᵀ / N` (true also for `N = 0`, where both sides are `0`) -/
theorem fullForm_centering (F : Mat N D K) (i j : Fin D) :
    fullForm centering F i j
      = fullDiagForm (fun _ => 1) F i j - featureSum F i * featureSum F j / (N : K) := by
  rw [fullForm_apply, fullDiagForm_apply, featureSum_apply, featureSum_apply, Finset.sum_mul_sum,
    Finset.sum_div, ← Finset.sum_sub_distrib]
  refine Finset.sum_congr rfl fun r _ => ?_
  rw [Finset.sum_div]
  simp only [centering, mul_sub, sub_mul, Finset.sum_sub_distrib]
  congr 1
  · simp
  · exact Finset.sum_congr rfl fun c _ => by ring

/-- the centred second-moment matrix `Fᵀ F − s sᵀ / N`, entrywise -/
def centredMoment (F : Mat N D K) : Mat D D K :=
  fun i j => fullDiagForm (fun _ => 1) F i j - featureSum F i * featureSum F j / (N : K)

theorem centredMoment_symm (F : Mat N D K) (i j : Fin D) : centredMoment F i j = centredMoment F j i := by
  unfold centredMoment
  rw [fullDiagForm_symm, mul_comm]

/-! ### triangle views -/

/-- a reader of the lower triangle sees only the diagonal of an upper-only matrix -/
theorem lowerView_upperOnly (X : Mat D D K) (i j : Fin D) :
    Mat.lowerView (fun i j => if i ≤ j then X i j else 0) i j = if i = j then X i i else 0 := by
  simp only [Mat.lowerView]
  rcases lt_trichotomy i j with h | h | h
  · rw [if_neg (not_le.mpr h), if_neg (not_le.mpr h), if_neg h.ne]
  · subst h
    rw [if_pos le_rfl, if_pos le_rfl, if_pos rfl]
  · rw [if_pos h.le, if_neg (not_le.mpr h), if_neg h.ne']

omit [Field K] in
theorem lowerView_of_symm (A : Mat D D K) (hA : ∀ i j, A i j = A j i) : Mat.lowerView A = A := by
  funext i j
  simp only [Mat.lowerView]
  split
  · rfl
  · exact hA j i

/-- mirroring the upper triangle of an upper-only copy of a symmetric matrix gives the matrix back -/
theorem upperView_upperOnly (X : Mat D D K) (hX : ∀ i j, X i j = X j i) :
    Mat.upperView (fun i j => if i ≤ j then X i j else 0) = X := by
  funext i j
  simp only [Mat.upperView]
  by_cases h : i ≤ j
  · rw [if_pos h, if_pos h]
  · rw [if_neg h, if_pos (le_of_not_ge h), hX j i]

omit [Field K] in
theorem upperView_symm (A : Mat D D K) (i j : Fin D) : Mat.upperView A i j = Mat.upperView A j i := by
  simp only [Mat.upperView]
  rcases lt_trichotomy i j with h | h | h
  · rw [if_pos h.le, if_neg (not_le.mpr h)]
  · subst h; rfl
  · rw [if_neg (not_le.mpr h), if_pos h.le]

/-! ### the three routines in closed form -/

theorem weightSumD_get_symm {W : Mat N N K} (hW : ∀ r c, W r c = W c r) (F : Mat N D K) :
    (weightSumD W F).get = fun i j => if i ≤ j then 2 * fullForm W F i j else 0 := by
  funext i j
  rw [weightSumD_get, weightSum_closed hW]

theorem sampleSumD_get_closed (F : Mat N D K) (wt : Vec N K) :
    (sampleSumD F wt).get = fun i j => if i ≤ j then fullDiagForm wt F i j else 0 := by
  funext i j
  rw [sampleSumD_get, sampleSum_closed]

/-- a rank-one upper update of an upper-only matrix is upper-only -/
theorem rankUpdate1_upperOnly (X : Mat D D K) (u : Vec D K) (α : K) :
    rankUpdate1 (fun i j => if i ≤ j then X i j else 0) u α
      = fun i j => if i ≤ j then X i j + α * (u i * u j) else 0 := by
  funext i j
  simp only [rankUpdate1]
  split <;> rfl

theorem mirrorUpperD_get (A : DMat D D K) : (mirrorUpperD A).get = Mat.upperView A.get := by
  unfold mirrorUpperD
  rw [DMat.get_ofFn]

theorem mirror_weightSum {W : Mat N N K} (hW : ∀ r c, W r c = W c r) (F : Mat N D K) :
    (mirrorUpperD (weightSumD W F)).get = fun i j => 2 * fullForm W F i j := by
  rw [mirrorUpperD_get, weightSumD_get_symm hW]
  exact upperView_upperOnly (fun i j => 2 * fullForm W F i j) (fun i j => by rw [fullForm_symm hW])

theorem mirror_sampleSum (F : Mat N D K) (wt : Vec N K) :
    (mirrorUpperD (sampleSumD F wt)).get = fullDiagForm wt F := by
  rw [mirrorUpperD_get, sampleSumD_get_closed]
  exact upperView_upperOnly _ (fullDiagForm_symm wt F)

theorem fullForm_centering_symm (F : Mat N D K) (i j : Fin D) :
    fullForm centering F i j = fullForm centering F j i := by
  rw [fullForm_centering, fullForm_centering]
  exact centredMoment_symm F i j

theorem mirror_centredSampleSum (F : Mat N D K) :
    (mirrorUpperD (rankUpdate1D (sampleSumD F fun _ => 1) (DVec.ofFn (featureSum F)).get ((-1) / (N : K)))).get
      = fullForm centering F := by
  rw [mirrorUpperD_get]
  simp only [rankUpdate1D, DMat.get_ofFn, DVec.get_ofFn]
  rw [sampleSumD_get_closed, rankUpdate1_upperOnly]
  have h : (fun i j : Fin D => if i ≤ j then
        fullDiagForm (fun _ => 1) F i j + (-1) / (N : K) * (featureSum F i * featureSum F j) else 0)
      = fun i j => if i ≤ j then fullForm centering F i j else 0 := by
    funext i j
    split
    · rw [fullForm_centering]
      ring
    · rfl
  rw [h]
  exact upperView_upperOnly _ (fullForm_centering_symm F)

/-- NPE returns `(2 · Fᵀ W F, Fᵀ F)`, both triangles -/
theorem npe_returns {W : Mat N N K} (hW : ∀ r c, W r c = W c r) (F : Mat N D K) :
    npeProblem W F = (fun i j => 2 * fullForm W F i j, fullDiagForm (fun _ => 1) F) := by
  show ((mirrorUpperD (weightSumD W F)).get, (mirrorUpperD (sampleSumD F fun _ => 1)).get) = _
  rw [mirror_weightSum hW, mirror_sampleSum]

/-- LPP returns `(2 · Fᵀ L F, Fᵀ diag(Dg) F)`, both triangles -/
theorem lpp_returns {L : Mat N N K} (hL : ∀ r c, L r c = L c r) (Dg : Vec N K) (F : Mat N D K) :
    lppProblem L Dg F = (fun i j => 2 * fullForm L F i j, fullDiagForm Dg F) := by
  show ((mirrorUpperD (weightSumD L F)).get, (mirrorUpperD (sampleSumD F Dg)).get) = _
  rw [mirror_weightSum hL, mirror_sampleSum]

/-! ### LLTSA: the alignment matrix acts on the centred features (fix F-LLTSA-SHIFT) -/

/-- `H W H` with `H = 1 − 11ᵀ/N` the centring matrix -/
def centredForm (W : Mat N N K) : Mat N N K :=
  fun r c => ∑ a, ∑ b, centering r a * W a b * centering b c

theorem centredForm_toM (W : Mat N N K) :
    Mat.toM (centredForm W) = Mat.toM (centering : Mat N N K) * Mat.toM W * Mat.toM (centering : Mat N N K) := by
  ext r c
  simp only [Mat.toM_apply, centredForm, Matrix.mul_apply, Finset.sum_mul]
  exact Finset.sum_comm

theorem rowSums_apply (W : Mat N N K) (r : Fin N) : rowSums W r = ∑ c, W r c := by
  simp only [rowSums, sumFin_eq_sum]

theorem weightedFeatureSum_apply (W : Mat N N K) (F : Mat N D K) (j : Fin D) :
    weightedFeatureSum W F j = ∑ r, rowSums W r * F r j := by
  simp only [weightedFeatureSum, sumFin_eq_sum]

omit [Field K] in
theorem transpose_of_symm {W : Mat N N K} (hW : ∀ r c, W r c = W c r) : Mat.transpose W = W := by
  funext r c
  exact hW c r

/-- `H W H` entrywise: `W − 1 (1ᵀW)/N − (W1) 1ᵀ/N + (1ᵀW1)/N² 11ᵀ` (any `N`) -/
theorem centredForm_expand (W : Mat N N K) (r c : Fin N) :
    centredForm W r c
      = W r c - rowSums (Mat.transpose W) c / (N : K) - rowSums W r / (N : K)
        + (∑ a, rowSums W a) / ((N : K) * (N : K)) := by
  have inner : ∀ a, ∑ b, W a b * centering b c = W a c - rowSums W a / (N : K) := by
    intro a
    simp only [centering, mul_sub, Finset.sum_sub_distrib, mul_ite, mul_one, mul_zero, Finset.sum_ite_eq',
      Finset.mem_univ, if_true, mul_one_div, ← Finset.sum_div, rowSums_apply]
  have outer : ∀ g : Fin N → K, ∑ a, centering r a * g a = g r - (∑ a, g a) / (N : K) := by
    intro g
    simp only [centering, sub_mul, Finset.sum_sub_distrib, ite_mul, one_mul, zero_mul, Finset.sum_ite_eq,
      Finset.mem_univ, if_true, ← Finset.mul_sum]
    ring
  unfold centredForm
  simp only [mul_assoc, ← Finset.mul_sum, inner]
  rw [outer]
  simp only [Finset.sum_sub_distrib, ← Finset.sum_div, rowSums_apply, Mat.transpose]
  ring

theorem centredForm_symm {W : Mat N N K} (hW : ∀ r c, W r c = W c r) (r c : Fin N) :
    centredForm W r c = centredForm W c r := by
  rw [centredForm_expand, centredForm_expand, transpose_of_symm hW, hW r c]
  ring

/-- the double loop of rank-two updates without any symmetry assumption: `Fᵀ W F + (Fᵀ W F)ᵀ` -/
theorem weightSum_general (W : Mat N N K) (F : Mat N D K) (i j : Fin D) :
    (∑ c, ∑ r, W r c * (F r i * F c j + F c i * F r j)) = fullForm W F i j + fullForm W F j i := by
  rw [fullForm_apply, fullForm_apply]
  simp only [mul_add, Finset.sum_add_distrib]
  congr 1
  · rw [Finset.sum_comm]
    exact Finset.sum_congr rfl fun r _ => Finset.sum_congr rfl fun c _ => by ring
  · rw [Finset.sum_comm]
    exact Finset.sum_congr rfl fun r _ => Finset.sum_congr rfl fun c _ => by ring

/-- `Fᵀ (H W H) F = Fᵀ W F − (u sᵀ + s u'ᵀ)/N + (1ᵀW1)/N² s sᵀ`, `s = Σ x_r`, `u = Σ (W1)_r x_r`, `u' = Σ (Wᵀ1)_r x_r`
    (any `W`, any `N`) -/
theorem fullForm_centredForm (W : Mat N N K) (F : Mat N D K) (i j : Fin D) :
    fullForm (centredForm W) F i j
      = fullForm W F i j
        - (weightedFeatureSum W F i * featureSum F j
            + featureSum F i * weightedFeatureSum (Mat.transpose W) F j) / (N : K)
        + (∑ a, rowSums W a) / ((N : K) * (N : K)) * (featureSum F i * featureSum F j) := by
  rw [fullForm_apply, fullForm_apply, weightedFeatureSum_apply, weightedFeatureSum_apply, featureSum_apply,
    featureSum_apply]
  simp only [centredForm_expand]
  generalize (∑ a, rowSums W a) = T
  rw [Finset.sum_mul_sum, Finset.sum_mul_sum, Finset.sum_mul_sum]
  simp only [Finset.mul_sum, Finset.sum_div, ← Finset.sum_add_distrib, ← Finset.sum_sub_distrib]
  exact Finset.sum_congr rfl fun r _ => Finset.sum_congr rfl fun c _ => by ring

/-- the accumulated upper triangle of the LLTSA `lhs` before mirroring: the sparse loop followed by
    `rankUpdate(weighted_sum, sum, -2/N)` and `rankUpdate(sum, 2 * w_ones.sum() / (N*N))` -/
def lltsaLhsUpper (W : Mat N N K) (F : Mat N D K) : Mat D D K :=
  rankUpdate1
    (rankUpdate2 (weightSumD W F).get (weightedFeatureSum W F) (featureSum F) ((-((2 : Nat) : K)) / (N : K)))
    (featureSum F) (((2 : Nat) : K) * sumFin N (rowSums W) / ((N : K) * (N : K)))

theorem lltsaProblem_fst (W : Mat N N K) (F : Mat N D K) :
    (lltsaProblem W F).1 = Mat.upperView (lltsaLhsUpper W F) := by
  show (mirrorUpperD _).get = _
  rw [mirrorUpperD_get]
  simp only [rankUpdate1D, rankUpdate2D, DMat.get_ofFn, DVec.get_ofFn]
  rfl

theorem lltsaProblem_snd (W : Mat N N K) (F : Mat N D K) :
    (lltsaProblem W F).2 = fullForm centering F := by
  show (mirrorUpperD (rankUpdate1D (sampleSumD F fun _ => 1) (DVec.ofFn (featureSum F)).get ((-1) / (N : K)))).get = _
  rw [mirror_centredSampleSum]

/-- what the code literally accumulates (no symmetry assumed, any `N`) -/
theorem lltsaLhsUpper_get (W : Mat N N K) (F : Mat N D K) (i j : Fin D) :
    lltsaLhsUpper W F i j
      = if i ≤ j then
          fullForm W F i j + fullForm W F j i
            - 2 / (N : K) * (weightedFeatureSum W F i * featureSum F j + featureSum F i * weightedFeatureSum W F j)
            + 2 * (∑ r, rowSums W r) / ((N : K) * (N : K)) * (featureSum F i * featureSum F j)
        else 0 := by
  simp only [lltsaLhsUpper, rankUpdate1, rankUpdate2, weightSumD_get, weightSum_general, sumFin_eq_sum,
    Nat.cast_ofNat]
  split
  · ring
  · rfl

/-- for symmetric `W` the accumulated triangle is that of `2 · Fᵀ (H W H) F` (any `N`) -/
theorem lltsaLhsUpper_symm {W : Mat N N K} (hW : ∀ r c, W r c = W c r) (F : Mat N D K) :
    lltsaLhsUpper W F = fun i j => if i ≤ j then 2 * fullForm (centredForm W) F i j else 0 := by
  funext i j
  rw [lltsaLhsUpper_get]
  split
  · rw [fullForm_centredForm, transpose_of_symm hW, fullForm_symm hW F j i]
    ring
  · rfl

/-- LLTSA returns `(2 · Fᵀ (H W H) F, Fᵀ H F)`, both triangles (true for any `N`, also when `(N : K) = 0`) -/
theorem lltsa_returns {W : Mat N N K} (hW : ∀ r c, W r c = W c r) (F : Mat N D K) :
    lltsaProblem W F = (fun i j => 2 * fullForm (centredForm W) F i j, fullForm centering F) := by
  have h1 : (lltsaProblem W F).1 = fun i j => 2 * fullForm (centredForm W) F i j := by
    rw [lltsaProblem_fst, lltsaLhsUpper_symm hW]
    exact upperView_upperOnly (fun i j => 2 * fullForm (centredForm W) F i j)
      (fun i j => by rw [fullForm_symm (centredForm_symm hW)])
  exact Prod.ext h1 (lltsaProblem_snd W F)

/-! ### consequences: constant eigenvector, translation invariance -/

/-- if `W 1 = σ 1` (the alignment matrix: `σ` = the nullspace shift) and `W` is symmetric then `H W H = W − (σ/N) 11ᵀ`
    (any `N`) -/
theorem centredForm_of_const_eigvec {W : Mat N N K} {σ : K} (hσ : ∀ r, rowSums W r = σ)
    (hW : ∀ r c, W r c = W c r) :
    centredForm W = fun r c => W r c - σ / (N : K) := by
  funext r c
  rw [centredForm_expand, transpose_of_symm hW]
  simp only [hσ, Finset.sum_const, Finset.card_univ, Fintype.card_fin, nsmul_eq_mul]
  by_cases hN : (N : K) = 0
  · simp [hN]
  · field_simp
    ring

theorem centering_row_sum (hN : (N : K) ≠ 0) (r : Fin N) : ∑ c, (centering : Mat N N K) r c = 0 := by
  simp only [centering, Finset.sum_sub_distrib, Finset.sum_ite_eq, Finset.mem_univ, if_true, Finset.sum_const,
    Finset.card_univ, Fintype.card_fin, nsmul_eq_mul]
  rw [mul_one_div, div_self hN, sub_self]

theorem centering_symm (r c : Fin N) : (centering : Mat N N K) r c = centering c r := by
  simp only [centering, eq_comm]

theorem centering_col_sum (hN : (N : K) ≠ 0) (c : Fin N) : ∑ r, (centering : Mat N N K) r c = 0 := by
  simp only [centering_symm _ c]
  exact centering_row_sum hN c

theorem centredForm_row_sum (hN : (N : K) ≠ 0) (W : Mat N N K) (r : Fin N) : ∑ c, centredForm W r c = 0 := by
  unfold centredForm
  rw [Finset.sum_comm]
  refine Finset.sum_eq_zero fun a _ => ?_
  rw [Finset.sum_comm]
  refine Finset.sum_eq_zero fun b _ => ?_
  rw [← Finset.mul_sum, centering_row_sum hN, mul_zero]

theorem centredForm_col_sum (hN : (N : K) ≠ 0) (W : Mat N N K) (c : Fin N) : ∑ r, centredForm W r c = 0 := by
  unfold centredForm
  rw [Finset.sum_comm]
  refine Finset.sum_eq_zero fun a _ => ?_
  rw [Finset.sum_comm]
  refine Finset.sum_eq_zero fun b _ => ?_
  simp only [mul_assoc]
  rw [← Finset.sum_mul, centering_col_sum hN, zero_mul]

/-- a form `Fᵀ M F` with `M 1 = 0` and `1ᵀ M = 0` does not see a translation of the samples -/
theorem fullForm_translate {M : Mat N N K} (hrow : ∀ r, ∑ c, M r c = 0) (hcol : ∀ c, ∑ r, M r c = 0)
    (F : Mat N D K) (t : Vec D K) :
    fullForm M (fun r j => F r j + t j) = fullForm M F := by
  funext i j
  rw [fullForm_apply, fullForm_apply]
  have h : ∀ r c, (F r i + t i) * M r c * (F c j + t j)
      = F r i * M r c * F c j + t j * (F r i * M r c) + t i * (M r c * F c j) + t i * t j * M r c := by
    intro r c
    ring
  have h2 : ∑ r, ∑ c, t j * (F r i * M r c) = 0 := by
    simp only [← Finset.mul_sum, hrow, mul_zero, Finset.sum_const_zero]
  have h3 : ∑ r, ∑ c, t i * (M r c * F c j) = 0 := by
    rw [Finset.sum_comm]
    simp only [← Finset.mul_sum, ← Finset.sum_mul, hcol, zero_mul, mul_zero, Finset.sum_const_zero]
  have h4 : ∑ r, ∑ c, t i * t j * M r c = 0 := by
    simp only [← Finset.mul_sum, hrow, mul_zero, Finset.sum_const_zero]
  simp only [h, Finset.sum_add_distrib, h2, h3, h4, add_zero]

/-- the LLTSA left-hand form does not depend on the origin of the feature space -/
theorem fullForm_centredForm_translate (hN : (N : K) ≠ 0) (W : Mat N N K) (F : Mat N D K) (t : Vec D K) :
    fullForm (centredForm W) (fun r j => F r j + t j) = fullForm (centredForm W) F :=
  fullForm_translate (centredForm_row_sum hN W) (centredForm_col_sum hN W) F t

/-- nor does the right-hand form `Fᵀ H F` -/
theorem fullForm_centering_translate (hN : (N : K) ≠ 0) (F : Mat N D K) (t : Vec D K) :
    fullForm centering (fun r j => F r j + t j) = fullForm centering F :=
  fullForm_translate (centering_row_sum hN) (centering_col_sum hN) F t

/-- the whole LLTSA problem is translation invariant -/
theorem lltsaProblem_translate (hN : (N : K) ≠ 0) {W : Mat N N K} (hW : ∀ r c, W r c = W c r) (F : Mat N D K)
    (t : Vec D K) :
    lltsaProblem W (fun r j => F r j + t j) = lltsaProblem W F := by
  rw [lltsa_returns hW, lltsa_returns hW, fullForm_centredForm_translate hN, fullForm_centering_translate hN]

/-! ### LLTSA: from `H W H` to the alignment matrix proper (`W = Align + shift · 1`) -/

/-- the regularised alignment matrix `W = Align + shift · 1` (`Align` symmetric, `Align 1 = 0`) acts on the centred
    features as `Align + shift · H` (any `N`) -/
theorem centredForm_align {Al : Mat N N K} (shift : K) (hAl : ∀ r c, Al r c = Al c r)
    (h0 : ∀ r, rowSums Al r = 0) :
    centredForm (fun r c => Al r c + (if r = c then shift else 0))
      = fun r c => Al r c + shift * centering r c := by
  have hσ : ∀ r, rowSums (fun r c => Al r c + (if r = c then shift else 0)) r = shift := by
    intro r
    have h := h0 r
    rw [rowSums_apply] at h
    simp only [rowSums_apply, Finset.sum_add_distrib, Finset.sum_ite_eq, Finset.mem_univ, if_true, h, zero_add]
  have hW : ∀ r c, (fun r c => Al r c + (if r = c then shift else 0)) r c
      = (fun r c => Al r c + (if r = c then shift else 0)) c r := by
    intro r c
    simp only [hAl r c, eq_comm]
  rw [centredForm_of_const_eigvec hσ hW]
  funext r c
  unfold centering
  split <;> ring

/-- `Fᵀ M F` is linear in `M` -/
theorem fullForm_add_smul (A B : Mat N N K) (s : K) (F : Mat N D K) (i j : Fin D) :
    fullForm (fun r c => A r c + s * B r c) F i j = fullForm A F i j + s * fullForm B F i j := by
  simp only [fullForm_apply, Finset.mul_sum, ← Finset.sum_add_distrib]
  exact Finset.sum_congr rfl fun r _ => Finset.sum_congr rfl fun c _ => by ring

/-- the LLTSA left-hand form is `Fᵀ Align F + shift · Fᵀ H F` -/
theorem lltsa_pencil_align_eq {Al : Mat N N K} (shift : K) (hAl : ∀ r c, Al r c = Al c r)
    (h0 : ∀ r, rowSums Al r = 0) (F : Mat N D K) (i j : Fin D) :
    fullForm (centredForm (fun r c => Al r c + (if r = c then shift else 0))) F i j
      = fullForm Al F i j + shift * fullForm centering F i j := by
  rw [centredForm_align shift hAl h0, fullForm_add_smul]

/-- same eigenvectors, eigenvalues shifted by `shift` -/
theorem lltsa_solves_alignment_eq {Al : Mat N N K} (shift : K) (hAl : ∀ r c, Al r c = Al c r)
    (h0 : ∀ r, rowSums Al r = 0) (F : Mat N D K) (p : Vec D K) (μ : K)
    (hp : (Mat.toM (fullForm (centredForm (fun r c => Al r c + (if r = c then shift else 0))) F)).mulVec p
      = μ • (Mat.toM (fullForm centering F)).mulVec p) :
    (Mat.toM (fullForm Al F)).mulVec p = (μ - shift) • (Mat.toM (fullForm centering F)).mulVec p := by
  have hM : Mat.toM (fullForm (centredForm (fun r c => Al r c + (if r = c then shift else 0))) F)
      = Mat.toM (fullForm Al F) + shift • Mat.toM (fullForm centering F) := by
    ext i j
    simp only [Mat.toM_apply, Matrix.add_apply, Matrix.smul_apply, smul_eq_mul]
    exact lltsa_pencil_align_eq shift hAl h0 F i j
  rw [hM, Matrix.add_mulVec, Matrix.smul_mulVec] at hp
  rw [sub_smul, ← hp, add_sub_cancel_right]

/-- a non-trivial instance: `Align = [[1,−1],[−1,1]]` (symmetric, zero row sums) -/
def alignEx : Mat 2 2 ℚ := fun r c => if r = c then 1 else -1

theorem alignEx_symm : ∀ r c, alignEx r c = alignEx c r := by decide

theorem alignEx_rowSums : ∀ r, rowSums alignEx r = 0 := by
  rw [Fin.forall_fin_two]
  constructor <;> simp [rowSums_apply, Fin.sum_univ_two, alignEx]

theorem two_fullForm_symm {W : Mat N N K} (hW : ∀ r c, W r c = W c r) (F : Mat N D K) (i j : Fin D) :
    (fun i j => 2 * fullForm W F i j) i j = (fun i j => 2 * fullForm W F i j) j i := by
  show 2 * fullForm W F i j = 2 * fullForm W F j i
  rw [fullForm_symm hW]

/-- the generalised solver (lower triangles) sees the NPE pair in full -/
theorem genSolveLower_npe {W : Mat N N K} (hW : ∀ r c, W r c = W c r) (F : Mat N D K) :
    genSolveLower (npeProblem W F) = (fun i j => 2 * fullForm W F i j, fullDiagForm (fun _ => 1) F) := by
  rw [npe_returns hW]
  show (Mat.lowerView _, Mat.lowerView _) = _
  rw [lowerView_of_symm _ (two_fullForm_symm hW F), lowerView_of_symm _ (fullDiagForm_symm _ F)]

theorem genSolveLower_lltsa {W : Mat N N K} (hW : ∀ r c, W r c = W c r) (F : Mat N D K) :
    genSolveLower (lltsaProblem W F)
      = (fun i j => 2 * fullForm (centredForm W) F i j, fullForm centering F) := by
  rw [lltsa_returns hW]
  show (Mat.lowerView _, Mat.lowerView _) = _
  rw [lowerView_of_symm _ (two_fullForm_symm (centredForm_symm hW) F),
    lowerView_of_symm _ (fullForm_centering_symm F)]

theorem genSolveLower_lpp {L : Mat N N K} (hL : ∀ r c, L r c = L c r) (Dg : Vec N K) (F : Mat N D K) :
    genSolveLower (lppProblem L Dg F) = (fun i j => 2 * fullForm L F i j, fullDiagForm Dg F) := by
  rw [lpp_returns hL]
  show (Mat.lowerView _, Mat.lowerView _) = _
  rw [lowerView_of_symm _ (two_fullForm_symm hL F), lowerView_of_symm _ (fullDiagForm_symm _ F)]

/-! ### the witness of `C10.prefix_solver_sees_XMXt_refuted`: two samples `(1,0)`, `(1,1)` in the plane, `W = 1` -/

def refuteW : Mat 2 2 ℚ := fun r c => if r = c then 1 else 0
def refuteF : Mat 2 2 ℚ := fun r j => if r = 0 ∧ j = 1 then 0 else 1

theorem refuteW_symm : ∀ r c, refuteW r c = refuteW c r := by decide

/-- `W 1 = 1`: a constant eigenvector with non-zero eigenvalue (a "shift-like" weight matrix) -/
theorem refuteW_rowSums : ∀ r, rowSums refuteW r = 1 := by
  rw [Fin.forall_fin_two]
  constructor <;> simp [rowSums_apply, refuteW]

/-- `Fᵀ W F = [[2,1],[1,1]]` has a non-zero off-diagonal entry -/
theorem refute_fullForm_01 : fullForm refuteW refuteF 0 1 = 1 := by
  rw [fullForm_apply]
  simp [Fin.sum_univ_two, refuteW, refuteF]

end TapkeeVerif.LinearGraph
