import TapkeeVerif.Proofs.QuadTreeBasic
/-!
C18: the default root cell (`QuadTree(data, N)`: centre = mean, half sizes = largest deviation from the mean + padding)
contains every input point, so the default constructor accepts every point.
-/
namespace TapkeeVerif.QuadTree

variable {K : Type} [Field K] [LinearOrder K] [IsStrictOrderedRing K]
set_option linter.unusedSectionVars false

theorem foldl_max_ge (f : K × K → K) : ∀ (l : List (K × K)) (m0 : K),
    m0 ≤ l.foldl (fun m p => if f p > m then f p else m) m0 ∧
    ∀ p ∈ l, f p ≤ l.foldl (fun m p => if f p > m then f p else m) m0 := by
  intro l
  induction l with
  | nil => intro m0; exact ⟨le_refl _, fun p hp => by simp at hp⟩
  | cons q l ih =>
    intro m0
    simp only [List.foldl_cons]
    obtain ⟨h1, h2⟩ := ih (if f q > m0 then f q else m0)
    have hm : m0 ≤ (if f q > m0 then f q else m0) := by split_ifs with h <;> [exact le_of_lt h; exact le_refl _]
    have hq : f q ≤ (if f q > m0 then f q else m0) := by split_ifs with h <;> [exact le_refl _; exact not_lt.mp h]
    refine ⟨le_trans hm h1, ?_⟩
    intro p hp
    simp only [List.mem_cons] at hp
    rcases hp with rfl | hp
    · exact le_trans hq h1
    · exact h2 p hp

theorem foldl_min_le (f : K × K → K) : ∀ (l : List (K × K)) (m0 : K),
    l.foldl (fun m p => if f p < m then f p else m) m0 ≤ m0 ∧
    ∀ p ∈ l, l.foldl (fun m p => if f p < m then f p else m) m0 ≤ f p := by
  intro l
  induction l with
  | nil => intro m0; exact ⟨le_refl _, fun p hp => by simp at hp⟩
  | cons q l ih =>
    intro m0
    simp only [List.foldl_cons]
    obtain ⟨h1, h2⟩ := ih (if f q < m0 then f q else m0)
    have hm : (if f q < m0 then f q else m0) ≤ m0 := by split_ifs with h <;> [exact le_of_lt h; exact le_refl _]
    have hq : (if f q < m0 then f q else m0) ≤ f q := by split_ifs with h <;> [exact le_refl _; exact not_lt.mp h]
    refine ⟨le_trans h1 hm, ?_⟩
    intro p hp
    simp only [List.mem_cons] at hp
    rcases hp with rfl | hp
    · exact le_trans h1 hq
    · exact h2 p hp

theorem le_stdMax_left (a b : K) : a ≤ stdMax a b := by
  unfold stdMax; split_ifs with h <;> [exact le_of_lt h; exact le_refl _]

theorem le_stdMax_right (a b : K) : b ≤ stdMax a b := by
  unfold stdMax; split_ifs with h <;> [exact le_refl _; exact not_lt.mp h]

/-- **the default root cell contains every input point** (padding `eps ≥ 0`; the code uses `1e-5`) -/
theorem rootCell_contains_all (eps : K) (heps : 0 ≤ eps) (pts : List (K × K)) (p : K × K) (hp : p ∈ pts) :
    (rootCell eps pts).containsPoint p = true := by
  cases pts with
  | nil => simp at hp
  | cons p0 rest =>
    rw [contains_iff]
    simp only [rootCell]
    set mx := (List.foldl (fun a q => a + q.1) 0 (p0 :: rest)) / ((p0 :: rest).length : K)
    set my := (List.foldl (fun a q => a + q.2) 0 (p0 :: rest)) / ((p0 :: rest).length : K)
    have hxmax := foldl_max_ge (fun q : K × K => q.1) rest p0.1
    have hxmin := foldl_min_le (fun q : K × K => q.1) rest p0.1
    have hymax := foldl_max_ge (fun q : K × K => q.2) rest p0.2
    have hymin := foldl_min_le (fun q : K × K => q.2) rest p0.2
    have hpx1 : p.1 ≤ rest.foldl (fun m q => if q.1 > m then q.1 else m) p0.1 := by
      simp only [List.mem_cons] at hp
      rcases hp with rfl | hp
      · exact hxmax.1
      · exact hxmax.2 p hp
    have hpx2 : rest.foldl (fun m q => if q.1 < m then q.1 else m) p0.1 ≤ p.1 := by
      simp only [List.mem_cons] at hp
      rcases hp with rfl | hp
      · exact hxmin.1
      · exact hxmin.2 p hp
    have hpy1 : p.2 ≤ rest.foldl (fun m q => if q.2 > m then q.2 else m) p0.2 := by
      simp only [List.mem_cons] at hp
      rcases hp with rfl | hp
      · exact hymax.1
      · exact hymax.2 p hp
    have hpy2 : rest.foldl (fun m q => if q.2 < m then q.2 else m) p0.2 ≤ p.2 := by
      simp only [List.mem_cons] at hp
      rcases hp with rfl | hp
      · exact hymin.1
      · exact hymin.2 p hp
    have a1 := le_stdMax_left (rest.foldl (fun m q => if q.1 > m then q.1 else m) p0.1 - mx)
      (mx - rest.foldl (fun m q => if q.1 < m then q.1 else m) p0.1)
    have a2 := le_stdMax_right (rest.foldl (fun m q => if q.1 > m then q.1 else m) p0.1 - mx)
      (mx - rest.foldl (fun m q => if q.1 < m then q.1 else m) p0.1)
    have b1 := le_stdMax_left (rest.foldl (fun m q => if q.2 > m then q.2 else m) p0.2 - my)
      (my - rest.foldl (fun m q => if q.2 < m then q.2 else m) p0.2)
    have b2 := le_stdMax_right (rest.foldl (fun m q => if q.2 > m then q.2 else m) p0.2 - my)
      (my - rest.foldl (fun m q => if q.2 < m then q.2 else m) p0.2)
    refine ⟨?_, ?_, ?_, ?_⟩ <;> linarith

end TapkeeVerif.QuadTree
