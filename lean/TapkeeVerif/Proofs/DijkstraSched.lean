import TapkeeVerif.Model.DijkstraSched
import TapkeeVerif.Proofs.DijkstraQueue
/-!
Schedule independence: one iteration of the `omp for` body started from arbitrary scratch contents (but an empty
heap — the heap is constructed empty and `clear()`ed at the end of every iteration) writes exactly `row … r` into
its own row; hence every schedule executing each loop index once yields the rows `row … r`.
-/
namespace TapkeeVerif.Dijkstra
set_option linter.unusedSectionVars false

variable {K : Type} [LinearOrder K] [Add K] [Zero K]

theorem pushInit_nil (disc : Disc) {N src : Nat} (hs : src < N) :
    pushInit (K := K) disc N [] src = [(src, 0)] := by
  cases disc
  · rfl
  · simp [pushInit, idxInsert, hs]

/-- started with an empty heap, the loop body computes `row` whatever the scratch arrays and the row contained -/
theorem iteration_eq_row (P : Problem K) (disc : Disc) (k : Nat) (ch : Nat → Nat) (src flag : Nat)
    (scr : Scratch K P.N) (rowOld : Vector (Option K) P.N) (hheap : scr.heap = [])
    {r : Vector (Option K) P.N} (hr : row P disc k ch src flag = .ok r) :
    ∃ scr', iteration P disc k ch src flag scr rowOld = .ok (scr', r) ∧ scr'.heap = [] := by
  unfold row at hr
  unfold iteration
  by_cases hs : src < P.N
  · by_cases hf : flag < P.N
    · simp only [hs, hf, dite_true] at hr ⊢
      have hinit : ({ dist := (rowOld.map fun _ => none).set src (some 0),
                      s := scr.s.map fun _ => false,
                      f := (scr.f.map fun _ => false).set flag true,
                      q := pushInit disc P.N scr.heap src } : St K P.N) = initSt src hs flag hf := by
        have h1 : (rowOld.map fun _ => (none : Option K)) = Vector.replicate P.N none := by
          apply Vector.ext
          intro i hi
          simp
        have h2 : (scr.s.map fun _ => false) = Vector.replicate P.N false := by
          apply Vector.ext
          intro i hi
          simp
        have h3 : (scr.f.map fun _ => false) = Vector.replicate P.N false := by
          apply Vector.ext
          intro i hi
          simp
        simp only [initSt, h1, h2, h3, hheap, pushInit_nil disc hs]
      rw [hinit]
      cases hl : loop P disc k ch (fuelFor P.N k) 0 (initSt src hs flag hf) with
      | error e => simp [hl] at hr
      | ok σ =>
        simp only [hl, Except.ok.injEq] at hr
        subst hr
        exact ⟨_, rfl, rfl⟩
    · simp [hs, hf] at hr
  · simp [hs] at hr

/-- what a schedule computes, by induction over its events -/
theorem runSchedule_rows (P : Problem K) (disc : Disc) (k : Nat) (ch : Nat → Nat → Nat) (srcOf flagOf : Nat → Nat)
    (res : Nat → Vector (Option K) P.N) :
    ∀ (sched : List (Nat × Nat)) (W : World K P.N),
      (∀ e ∈ sched, e.1 < W.scr.length ∧ e.2 < W.rows.length) →
      (∀ e ∈ sched, row P disc k (ch e.2) (srcOf e.2) (flagOf e.2) = .ok (res e.2)) →
      (sched.map Prod.snd).Nodup →
      (∀ scr ∈ W.scr, scr.heap = []) →
      ∃ W', runSchedule P disc k ch srcOf flagOf sched W = .ok W' ∧
        W'.rows.length = W.rows.length ∧
        (∀ r, r ∈ sched.map Prod.snd → W'.rows[r]? = some (res r)) ∧
        (∀ r, r ∉ sched.map Prod.snd → W'.rows[r]? = W.rows[r]?) := by
  intro sched
  induction sched with
  | nil =>
    intro W _ _ _ _
    exact ⟨W, rfl, rfl, by simp, fun _ _ => rfl⟩
  | cons e es ih =>
    intro W hb hrow hnd hheap
    obtain ⟨hth, hr⟩ := hb e List.mem_cons_self
    have hscr : W.scr[e.1]? = some W.scr[e.1] := List.getElem?_eq_getElem hth
    have hrowOld : W.rows[e.2]? = some W.rows[e.2] := List.getElem?_eq_getElem hr
    obtain ⟨scr', hit, hheap'⟩ := iteration_eq_row P disc k (ch e.2) (srcOf e.2) (flagOf e.2)
      W.scr[e.1] W.rows[e.2] (hheap _ (List.getElem_mem hth)) (hrow e List.mem_cons_self)
    have hev : event P disc k ch srcOf flagOf W e
        = .ok { rows := W.rows.set e.2 (res e.2), scr := W.scr.set e.1 scr' } := by
      simp only [event, hscr, hrowOld, hit]
    simp only [List.map_cons, List.nodup_cons] at hnd
    obtain ⟨W', hrun, hlen, hdone, hother⟩ := ih { rows := W.rows.set e.2 (res e.2), scr := W.scr.set e.1 scr' }
      (by
        intro e' he'
        have := hb e' (List.mem_cons_of_mem _ he')
        simpa using this)
      (fun e' he' => hrow e' (List.mem_cons_of_mem _ he'))
      hnd.2
      (by
        intro s hs
        rcases List.mem_or_eq_of_mem_set hs with h | h
        · exact hheap s h
        · rw [h]; exact hheap')
    refine ⟨W', ?_, ?_, ?_, ?_⟩
    · simp only [runSchedule, hev]
      exact hrun
    · rw [hlen]
      simp
    · intro r hr'
      simp only [List.map_cons, List.mem_cons] at hr'
      rcases hr' with rfl | hr'
      · rw [hother _ hnd.1]
        simp [hr]
      · exact hdone r hr'
    · intro r hr'
      simp only [List.map_cons, List.mem_cons, not_or] at hr'
      rw [hother r hr'.2]
      simp only
      rw [List.getElem?_set_ne (Ne.symm hr'.1)]

/-- `mapM` over `Except` succeeds iff every element does -/
theorem mapM_except_ok {α β ε : Type} (f : α → Except ε β) :
    ∀ (l : List α) (ys : List β), l.mapM f = .ok ys ↔ l.map f = ys.map .ok := by
  intro l
  induction l with
  | nil =>
    intro ys
    simp only [List.mapM_nil, pure, Except.pure, Except.ok.injEq, List.map_nil]
    constructor
    · rintro rfl; rfl
    · intro h
      cases ys with
      | nil => rfl
      | cons _ _ => simp at h
  | cons a l ih =>
    intro ys
    simp only [List.mapM_cons, bind, Except.bind, List.map_cons]
    cases hfa : f a with
    | error e =>
      simp only [reduceCtorEq, false_iff]
      intro h
      cases ys with
      | nil => simp at h
      | cons y ys => simp at h
    | ok b =>
      simp only
      cases hl : l.mapM f with
      | error e =>
        simp only [reduceCtorEq, false_iff]
        intro h
        cases ys with
        | nil => simp at h
        | cons y ys =>
          simp only [List.map_cons, List.cons.injEq] at h
          have := (ih ys).mpr h.2
          rw [hl] at this
          cases this
      | ok bs =>
        simp only [pure, Except.pure, Except.ok.injEq]
        constructor
        · rintro rfl
          simp only [List.map_cons, List.cons.injEq, true_and]
          exact (ih bs).mp hl
        · intro h
          cases ys with
          | nil => simp at h
          | cons y ys =>
            simp only [List.map_cons, List.cons.injEq, Except.ok.injEq] at h
            have := (ih ys).mpr h.2
            rw [hl] at this
            obtain rfl := Except.ok.inj this
            rw [h.1]

theorem mapM_except_getElem {α β ε : Type} {f : α → Except ε β} {l : List α} {ys : List β}
    (h : l.mapM f = .ok ys) : ys.length = l.length ∧ ∀ i (hi : i < l.length) (hj : i < ys.length), f l[i] = .ok ys[i] := by
  have hm := (mapM_except_ok f l ys).mp h
  have hlen : ys.length = l.length := by
    have := congrArg List.length hm
    simpa using this.symm
  refine ⟨hlen, ?_⟩
  intro i hi hj
  have h1 : (l.map f)[i]'(by simpa using hi) = (ys.map Except.ok)[i]'(by simpa using hj) := by
    simp only [hm]
  simpa using h1

end TapkeeVerif.Dijkstra
