import TapkeeVerif.Proofs.ConnectedDfs
/-!
C03: `is_connected` (forward + reversed depth-first search from sample 0) decides strong connectivity
of the followed edges; consequences for `find_neighbors`.
-/
namespace TapkeeVerif.Connected
open List

/-! ### the forward and the reversed graph -/

theorem forwardOf_some {N k : Nat} {g fwd : Graph} (h : forwardOf N k g = some fwd) :
    fwd = (g.take N).map (·.take k) ∧ WFG N fwd := by
  unfold forwardOf at h
  split at h
  · cases h
  · split at h
    · rename_i hlen hall
      cases h
      refine ⟨rfl, ?_, ?_⟩
      · simp only [length_map, length_take]
        omega
      · intro l hl w hw
        obtain ⟨l0, hl0, rfl⟩ := mem_map.1 hl
        rw [all_eq_true] at hall
        have := hall l0 hl0
        simp only [Bool.and_eq_true, decide_eq_true_eq, all_eq_true] at this
        exact this.2 w hw
    · cases h

theorem mem_backwardOf {N : Nat} {fwd : Graph} {u v : Nat} (hv : v < N) :
    Edge (backwardOf N fwd) v u ↔ Edge fwd u v := by
  unfold Edge backwardOf
  constructor
  · rintro ⟨nb, hnb, hu⟩
    rw [getElem?_map, getElem?_range hv] at hnb
    simp only [Option.map_some, Option.some.injEq] at hnb
    subst hnb
    simp only [mem_flatten, mem_map, Prod.exists] at hu
    obtain ⟨_, ⟨l, u', hlu, rfl⟩, hmem⟩ := hu
    have hrep := mem_replicate.1 hmem
    obtain ⟨hcnt, rfl⟩ := hrep
    refine ⟨l, ?_, ?_⟩
    · exact mem_zipIdx_iff_getElem?.1 hlu
    · exact count_pos_iff.1 (Nat.pos_of_ne_zero hcnt)
  · rintro ⟨l, hl, hvl⟩
    refine ⟨_, by rw [getElem?_map, getElem?_range hv]; rfl, ?_⟩
    simp only [mem_flatten, mem_map, Prod.exists]
    refine ⟨_, ⟨l, u, mem_zipIdx_iff_getElem?.2 hl, rfl⟩, ?_⟩
    exact mem_replicate.2 ⟨Nat.ne_of_gt (count_pos_iff.2 hvl), rfl⟩

theorem backwardOf_wf {N : Nat} {fwd : Graph} (hwf : WFG N fwd) : WFG N (backwardOf N fwd) := by
  refine ⟨by simp [backwardOf], ?_⟩
  intro l hl w hw
  simp only [backwardOf, mem_map, mem_range] at hl
  obtain ⟨v, _, rfl⟩ := hl
  simp only [mem_flatten, mem_map, Prod.exists] at hw
  obtain ⟨_, ⟨l', u', hlu, rfl⟩, hmem⟩ := hw
  have hwu : w = u' := (mem_replicate.1 hmem).2
  have := mem_zipIdx_iff_getElem?.1 hlu
  have hlt : u' < fwd.length := by
    by_contra hcon
    rw [getElem?_eq_none (by omega)] at this
    cases this
  rw [hwf.1] at hlt
  rw [hwu]
  exact hlt

theorem Edge.lt_of_wf {N : Nat} {h : Graph} (hwf : WFG N h) {u w : Nat} (he : Edge h u w) : u < N ∧ w < N := by
  obtain ⟨nb, hnb, hw⟩ := he
  have hlt : u < h.length := by
    by_contra hcon
    rw [getElem?_eq_none (by omega)] at hnb
    cases hnb
  refine ⟨hwf.1 ▸ hlt, hwf.2 nb ?_ w hw⟩
  rw [getElem?_eq_getElem hlt] at hnb
  cases hnb
  exact getElem_mem hlt

/-- a path in the reversed graph is a reversed path -/
theorem reach_backward {N : Nat} {fwd : Graph} (hwf : WFG N fwd) {u v : Nat} (hu : u < N) :
    Reach (backwardOf N fwd) u v → Reach fwd v u := by
  intro hr
  induction hr with
  | refl => exact Reach.refl _
  | step hr' he ih =>
    rename_i v' w'
    have hv' : v' < N := by
      cases hr' with
      | refl => exact hu
      | step _ he' => exact (Edge.lt_of_wf (backwardOf_wf hwf) he').2
    exact Reach.head ((mem_backwardOf hv').1 he) ih

theorem reach_backward' {N : Nat} {fwd : Graph} (hwf : WFG N fwd) {u v : Nat} (hv : v < N) :
    Reach fwd u v → Reach (backwardOf N fwd) v u := by
  intro hr
  induction hr with
  | refl => exact Reach.refl _
  | step hr' he ih =>
    rename_i v' w'
    have hw' : w' < N := (Edge.lt_of_wf hwf he).2
    have hv' : v' < N := (Edge.lt_of_wf hwf he).1
    exact Reach.head ((mem_backwardOf hw').2 he) (ih hv')

/-! ### `is_connected` -/

/-- **`isConnected_iff`** : on lists that can be read in bounds (`≠ oob`), `is_connected` always answers
    (`≠ fuelOut`), and its answer is: every sample reaches every other sample along the followed edges. -/
theorem isConnected_spec {N : Nat} {g : Graph} (hN : 0 < N) (hoob : isConnected N g ≠ .oob) :
    ∃ b, isConnected N g = .ok b ∧ (b = true ↔ StronglyConnected g N) := by
  unfold isConnected at hoob ⊢
  cases g with
  | nil => exact absurd rfl hoob
  | cons nb0 rest =>
    simp only at hoob ⊢
    cases hf : forwardOf N nb0.length (nb0 :: rest) with
    | none => rw [hf] at hoob; exact absurd rfl hoob
    | some fwd =>
      simp only []
      obtain ⟨hfwd, hwf⟩ := forwardOf_some hf
      have hfol : followed (nb0 :: rest) N = fwd := by
        rw [hfwd]; rfl
      obtain ⟨b1, hb1, hiff1⟩ := reachesAll_iff hwf hN
      obtain ⟨b2, hb2, hiff2⟩ := reachesAll_iff (backwardOf_wf hwf) hN
      have hsc : StronglyConnected (nb0 :: rest) N ↔
          (∀ v, v < N → Reach fwd 0 v) ∧ (∀ v, v < N → Reach (backwardOf N fwd) 0 v) := by
        unfold StronglyConnected
        rw [hfol]
        constructor
        · intro h
          exact ⟨fun v hv => h 0 hN v hv, fun v hv => reach_backward' hwf hN (h v hv 0 hN)⟩
        · rintro ⟨h1, h2⟩ u hu v hv
          exact Reach.trans (reach_backward hwf hN (h2 u hu)) (h1 v hv)
      rw [hb1]
      cases b1 with
      | true =>
        simp only []
        refine ⟨b2, hb2, ?_⟩
        rw [hsc, hiff2]
        constructor
        · intro h; exact ⟨hiff1.1 rfl, h⟩
        · intro h; exact h.2
      | false =>
        refine ⟨false, rfl, ?_⟩
        rw [hsc]
        constructor
        · intro h; cases h
        · intro h
          exact absurd (hiff1.2 h.1) (by simp)

/-- the verdict `true` means strong connectivity (no side condition needed: `true` is never `oob`) -/
theorem isConnected_true_iff {N : Nat} {g : Graph} (hN : 0 < N) :
    isConnected N g = .ok true → StronglyConnected g N := by
  intro h
  obtain ⟨b, hb, hiff⟩ := isConnected_spec hN (by rw [h]; simp)
  rw [h] at hb
  cases hb
  exact hiff.1 rfl

end TapkeeVerif.Connected
