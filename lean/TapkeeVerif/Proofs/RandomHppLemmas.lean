import Mathlib.Algebra.Order.Field.Basic
import Mathlib.Tactic.Ring
import Mathlib.Tactic.Linarith
import Mathlib.Tactic.FieldSimp
import Mathlib.Tactic.Positivity
import TapkeeVerif.Model.RandomHpp
/-!
`defines/random.hpp`: ranges of `uniform_random()` and of the polar method's accepted radius, for every `rand()` stream.
-/
set_option linter.unusedSectionVars false
namespace TapkeeVerif.RandomHpp
variable {K : Type} [Field K] [LinearOrder K] [IsStrictOrderedRing K]

theorem randMax_succ_pos : (0 : K) < (randMax : K) + 1 := by positivity

theorem uniformRandom_range (r : Nat) (h : r ≤ randMax) :
    0 ≤ uniformRandom (K := K) r ∧ uniformRandom (K := K) r < 1 := by
  unfold uniformRandom
  constructor
  · exact div_nonneg (Nat.cast_nonneg r) randMax_succ_pos.le
  · rw [div_lt_one randMax_succ_pos]
    have : (r : K) ≤ (randMax : K) := by exact_mod_cast h
    linarith

theorem toUnit_range (r : Nat) (h : r ≤ randMax) : -1 ≤ toUnit (K := K) r ∧ toUnit (K := K) r < 1 := by
  obtain ⟨h0, h1⟩ := uniformRandom_range (K := K) r h
  unfold toUnit
  push_cast
  constructor <;> linarith

/-- whatever the stream: a pair that leaves the rejection loop has `0 < radius < 1`; `x` and `radius` come from the two
    draws consumed last, and an even number of draws was consumed -/
theorem polarLoop_accept (rand : Nat → Nat) :
    ∀ (fuel c : Nat) (x radius : K) (c' : Nat), polarLoop rand fuel c = some (x, radius, c') →
      0 < radius ∧ radius < 1 ∧ (∃ i, c' = c + 2 * (i + 1) ∧ i < fuel) ∧
      x = toUnit (rand (c' - 2)) ∧ radius = x * x + toUnit (rand (c' - 1)) * toUnit (rand (c' - 1)) := by
  intro fuel
  induction fuel with
  | zero => intro c x radius c' h; simp [polarLoop] at h
  | succ fuel ih =>
    intro c x radius c' h
    simp only [polarLoop] at h
    split at h
    · obtain ⟨h1, h2, ⟨i, hi, hif⟩, h4, h5⟩ := ih (c + 2) x radius c' h
      exact ⟨h1, h2, ⟨i + 1, by omega, by omega⟩, h4, h5⟩
    · rename_i hrej
      rw [not_or, not_le] at hrej
      simp only [Option.some.injEq, Prod.mk.injEq] at h
      obtain ⟨hx, hr, hc⟩ := h
      subst hc
      have hnn : (0 : K) ≤ radius := by
        rw [← hr]
        exact add_nonneg (mul_self_nonneg _) (mul_self_nonneg _)
      refine ⟨lt_of_le_of_ne hnn (by rw [← hr]; exact fun h0 => hrej.2 h0.symm), by rw [← hr]; exact hrej.1,
        ⟨0, by omega, by omega⟩, ?_, ?_⟩
      · rw [← hx]; simp
      · rw [← hr, ← hx]; simp

/-- the loop stops at the first acceptable pair: fuel is exhausted only if the stream offers none -/
theorem polarLoop_terminates (rand : Nat → Nat) :
    ∀ (i c : Nat),
      (let x : K := toUnit (rand (c + 2 * i)); let y : K := toUnit (rand (c + 2 * i + 1));
       ¬ (1 ≤ x * x + y * y ∨ x * x + y * y = 0)) →
      ∃ r, polarLoop (K := K) rand (i + 1) c = some r := by
  intro i
  induction i with
  | zero =>
    intro c h
    simp only [Nat.mul_zero, Nat.add_zero] at h
    exact ⟨_, by simp only [polarLoop]; rw [if_neg h]⟩
  | succ i ih =>
    intro c h
    simp only [polarLoop]
    split
    · apply ih (c + 2)
      have e1 : c + 2 + 2 * i = c + 2 * (i + 1) := by omega
      have e2 : c + 2 + 2 * i + 1 = c + 2 * (i + 1) + 1 := by omega
      simp only [e1]
      exact h
    · exact ⟨_, rfl⟩

end TapkeeVerif.RandomHpp
