import Mathlib.Data.Matrix.Basic
import Mathlib.Data.Matrix.Mul
import Mathlib.Algebra.BigOperators.Fin
import Mathlib.Algebra.BigOperators.Ring.Finset
import Mathlib.Algebra.BigOperators.Field
import Mathlib.Tactic.Ring
import Mathlib.Tactic.FieldSimp
import TapkeeVerif.Model.Diffusion
import TapkeeVerif.Proofs.MatBridge
import TapkeeVerif.Proofs.SpectralLocal
/-!
Helper lemmas for C09, parts B and C: `compute_diffusion_matrix` (`Model/Diffusion.lean`) returns
`Q^{-1/2} (P⁻¹ K P⁻¹) Q^{-1/2}`, a symmetric matrix with eigenpair `(1, √q)` that is conjugate (by `Q^{1/2}`) to the
row-stochastic diffusion operator `Q⁻¹ (P⁻¹ K P⁻¹)`; the post-processing of `methods/diffusion_map.hpp` computes
`λ_c^t ψ_c / ψ_0`.
-/
namespace TapkeeVerif.Diffusion
open TapkeeVerif Matrix

variable {K : Type} [Field K] {N : Nat}

/-- the kernel after the first normalisation, `K1 = P⁻¹ K0 P⁻¹` with `p` the column sums of `K0` -/
def kernel1 (heat : K → K) (dist : Mat N N K) (w : K) : Mat N N K :=
  normBy (kernel0 heat dist w) (colSums (kernel0 heat dist w))

/-- `q` = the column sums of `K1` -/
def qVec (heat : K → K) (dist : Mat N N K) (w : K) : Vec N K := colSums (kernel1 heat dist w)

/-- `s = √q` (through the oracle) -/
def sVec (heat sqrtO : K → K) (dist : Mat N N K) (w : K) : Vec N K := fun i => sqrtO (qVec heat dist w i)

/-- the row-stochastic diffusion operator `Q⁻¹ K1` -/
def markov (heat : K → K) (dist : Mat N N K) (w : K) : Matrix (Fin N) (Fin N) K :=
  fun i j => kernel1 heat dist w i j / qVec heat dist w i

theorem diffusionMatrix_unfold (heat sqrtO : K → K) (dist : Mat N N K) (w : K) :
    diffusionMatrix heat sqrtO dist w
      = normBy (normBy (kernel0 heat dist w) (colSums (kernel0 heat dist w)))
          (fun i => sqrtO (colSums (normBy (kernel0 heat dist w) (colSums (kernel0 heat dist w))) i)) := by
  simp only [diffusionMatrix, diffusionMatrixD, DMat.get_ofFn, DVec.get_ofFn]

theorem diffusionMatrix_eq (heat sqrtO : K → K) (dist : Mat N N K) (w : K) :
    diffusionMatrix heat sqrtO dist w = normBy (kernel1 heat dist w) (sVec heat sqrtO dist w) :=
  diffusionMatrix_unfold heat sqrtO dist w

theorem sqrtQD_get' (heat sqrtO : K → K) (dist : Mat N N K) (w : K) :
    (sqrtQD heat sqrtO dist w).get = sVec heat sqrtO dist w := by
  simp only [sqrtQD, DMat.get_ofFn, DVec.get_ofFn]
  rfl

theorem kernel0_symm' (heat : K → K) (dist : Mat N N K) (w : K) (i j : Fin N) :
    kernel0 heat dist w i j = kernel0 heat dist w j i := by
  unfold kernel0
  by_cases hij : i ≤ j
  · by_cases hji : j ≤ i
    · have : i = j := le_antisymm hij hji
      subst this
      rfl
    · simp only [hij, hji, if_true, if_false]
  · have hji : j ≤ i := le_of_not_ge hij
    simp only [hij, hji, if_true, if_false]

theorem normBy_symm (A : Mat N N K) (p : Vec N K) (hA : ∀ i j, A i j = A j i) (i j : Fin N) :
    normBy A p i j = normBy A p j i := by
  simp only [normBy, hA i j, mul_comm (p i)]

theorem kernel1_symm (heat : K → K) (dist : Mat N N K) (w : K) (i j : Fin N) :
    kernel1 heat dist w i j = kernel1 heat dist w j i :=
  normBy_symm _ _ (kernel0_symm' heat dist w) i j

theorem diffusionMatrix_symm' (heat sqrtO : K → K) (dist : Mat N N K) (w : K) (i j : Fin N) :
    diffusionMatrix heat sqrtO dist w i j = diffusionMatrix heat sqrtO dist w j i := by
  rw [diffusionMatrix_eq]
  exact normBy_symm _ _ (kernel1_symm heat dist w) i j

/-- `q` is also the vector of row sums of `K1` (symmetry) -/
theorem qVec_eq_rowsum (heat : K → K) (dist : Mat N N K) (w : K) (i : Fin N) :
    qVec heat dist w i = ∑ j, kernel1 heat dist w i j := by
  simp only [qVec, colSums, sumFin_eq_sum]
  exact Finset.sum_congr rfl fun j _ => kernel1_symm heat dist w j i

theorem diffusion_top (heat sqrtO : K → K) (dist : Mat N N K) (w : K)
    (hs : ∀ i, sqrtO (qVec heat dist w i) * sqrtO (qVec heat dist w i) = qVec heat dist w i)
    (hs0 : ∀ i, sqrtO (qVec heat dist w i) ≠ 0) :
    (Mat.toM (diffusionMatrix heat sqrtO dist w)).mulVec (sVec heat sqrtO dist w) = sVec heat sqrtO dist w := by
  funext i
  simp only [Matrix.mulVec, dotProduct, Mat.toM_apply, diffusionMatrix_eq, normBy]
  have hterm : ∀ j, kernel1 heat dist w i j / (sVec heat sqrtO dist w i * sVec heat sqrtO dist w j)
      * sVec heat sqrtO dist w j = kernel1 heat dist w i j / sVec heat sqrtO dist w i := by
    intro j
    have hj : sVec heat sqrtO dist w j ≠ 0 := hs0 j
    rw [← div_div, div_mul_cancel₀ _ hj]
  simp only [hterm, ← Finset.sum_div, ← qVec_eq_rowsum]
  have hi : sVec heat sqrtO dist w i ≠ 0 := hs0 i
  rw [div_eq_iff hi]
  exact (hs i).symm

theorem markov_row_sum (heat : K → K) (dist : Mat N N K) (w : K) (i : Fin N) (hq : qVec heat dist w i ≠ 0) :
    ∑ j, markov heat dist w i j = 1 := by
  simp only [markov, ← Finset.sum_div, ← qVec_eq_rowsum]
  exact div_self hq

theorem diffusion_conj (heat sqrtO : K → K) (dist : Mat N N K) (w : K)
    (hs : ∀ i, sqrtO (qVec heat dist w i) * sqrtO (qVec heat dist w i) = qVec heat dist w i)
    (hs0 : ∀ i, sqrtO (qVec heat dist w i) ≠ 0)
    (φ : Fin N → K) (lam : K)
    (hT : (Mat.toM (diffusionMatrix heat sqrtO dist w)).mulVec φ = lam • φ) :
    (markov heat dist w).mulVec (fun i => φ i / sVec heat sqrtO dist w i)
      = lam • (fun i => φ i / sVec heat sqrtO dist w i) := by
  funext i
  have hTi := congrFun hT i
  simp only [Matrix.mulVec, dotProduct, Mat.toM_apply, diffusionMatrix_eq, normBy, Pi.smul_apply,
    smul_eq_mul] at hTi
  simp only [Matrix.mulVec, dotProduct, markov, Pi.smul_apply, smul_eq_mul]
  have hi : sVec heat sqrtO dist w i ≠ 0 := hs0 i
  have hq : qVec heat dist w i = sVec heat sqrtO dist w i * sVec heat sqrtO dist w i := (hs i).symm
  have hterm : ∀ j, kernel1 heat dist w i j / qVec heat dist w i * (φ j / sVec heat sqrtO dist w j)
      = kernel1 heat dist w i j / (sVec heat sqrtO dist w i * sVec heat sqrtO dist w j) * φ j
          / sVec heat sqrtO dist w i := by
    intro j
    rw [hq]
    field_simp
  simp only [hterm, ← Finset.sum_div, hTi]
  ring

/-! ### post-processing -/

theorem npowK_eq_pow' {M : Type} [Monoid M] (x : M) (t : Nat) : npowK x t = x ^ t := by
  induction t with
  | zero => simp [npowK]
  | succ t ih => simp [npowK, ih, pow_succ]

theorem dmPost_apply {d : Nat} (V : Mat N (d + 1) K) (lam : Vec (d + 1) K) (t : Nat) (i : Fin N) (c : Fin d) :
    dmPost V lam t i c = V i c.castSucc * lam c.castSucc ^ t / V i (Fin.last d) := by
  simp only [dmPost, npowK_eq_pow']

theorem dmPost_coordinates {d : Nat} (V : Mat N (d + 1) K) (lam : Vec (d + 1) K) (t : Nat) (s : Vec N K)
    (hs : ∀ i, s i ≠ 0) (i : Fin N) (c : Fin d) :
    dmPost V lam t i c = lam c.castSucc ^ t * ((V i c.castSucc / s i) / (V i (Fin.last d) / s i)) := by
  rw [dmPost_apply, div_div_div_cancel_right₀ (hs i)]
  ring

theorem dmPost_timesteps {d : Nat} (V : Mat N (d + 1) K) (lam : Vec (d + 1) K) (t : Nat) (i : Fin N) (c : Fin d) :
    dmPost V lam t i c = dmPost V lam 0 i c * lam c.castSucc ^ t := by
  rw [dmPost_apply, dmPost_apply]
  ring

theorem dmPost_trivial {d : Nat} (V : Mat N (d + 1) K) (lam : Vec (d + 1) K) (t : Nat) (s : Vec N K) (κ : K)
    (hκ : ∀ i, V i (Fin.last d) = κ * s i) (i : Fin N) (c : Fin d) :
    dmPost V lam t i c = lam c.castSucc ^ t * (V i c.castSucc / s i) / κ := by
  rw [dmPost_apply, hκ i]
  ring

/-! ### Diffusion Map solves its spectral problem (eigensolver contract as hypothesis) -/

section solution
open TapkeeVerif.SpectralLocal
variable {K : Type} [Field K] [LinearOrder K] [IsStrictOrderedRing K] {N d : Nat}

/-- the indices `N−d−1, …, N−1` of the `d+1` largest eigenvalues of an ascending eigensystem (what
    `eigendecomposition(LargestEigenvalues, d+1)` returns: ascending, the largest last) -/
def topIdx (hd : d + 1 ≤ N) : Fin (d + 1) → Fin N := shiftIdx (N - (d + 1)) (Nat.sub_add_cancel hd).le

theorem topIdx_val (hd : d + 1 ≤ N) (c : Fin (d + 1)) : (topIdx hd c).1 = N - (d + 1) + c.1 := rfl

theorem dm_solution' (heat sqrtO : K → K) (dist : Mat N N K) (w : K)
    (hs : ∀ i, sqrtO (qVec heat dist w i) * sqrtO (qVec heat dist w i) = qVec heat dist w i)
    (hs0 : ∀ i, sqrtO (qVec heat dist w i) ≠ 0)
    (hd : d + 1 ≤ N) (Vf : Matrix (Fin N) (Fin N) K) (lam : Fin N → K)
    (h : GenEigSystem (Mat.toM (diffusionMatrix heat sqrtO dist w)) 1 Vf lam)
    (hsimple : ∀ j : Fin N, j.1 ≠ N - 1 → lam j ≠ 1) (t : Nat) :
    ∃ κ : K, κ ≠ 0 ∧
      (∀ i, Vf i (topIdx hd (Fin.last d)) = κ * sVec heat sqrtO dist w i) ∧
      lam (topIdx hd (Fin.last d)) = 1 ∧
      (∀ (i : Fin N) (c : Fin d),
        dmPost (cols Vf (topIdx hd)) (fun c => lam (topIdx hd c)) t i c
          = lam (topIdx hd c.castSucc) ^ t * (Vf i (topIdx hd c.castSucc) / sVec heat sqrtO dist w i) / κ) ∧
      (∀ c : Fin d,
        (markov heat dist w).mulVec (fun i => Vf i (topIdx hd c.castSucc) / sVec heat sqrtO dist w i)
          = lam (topIdx hd c.castSucc) • (fun i => Vf i (topIdx hd c.castSucc) / sVec heat sqrtO dist w i)) ∧
      (∀ j : Fin N, j.1 < N - (d + 1) → ∀ c, lam j ≤ lam (topIdx hd c)) ∧
      (∀ j : Fin N, lam j ≤ 1) := by
  set T := Mat.toM (diffusionMatrix heat sqrtO dist w) with hT
  set s := sVec heat sqrtO dist w with hsdef
  set j0 : Fin N := topIdx hd (Fin.last d) with hj0
  have hj0v : j0.1 = N - 1 := by
    rw [hj0, topIdx_val, Fin.val_last]
    omega
  have hTs : T.mulVec s = s := diffusion_top heat sqrtO dist w hs hs0
  have hx : T.mulVec s = (1 : K) • (1 : Matrix (Fin N) (Fin N) K).mulVec s := by
    rw [hTs, Matrix.one_mulVec, one_smul]
  let i0 : Fin N := ⟨0, by omega⟩
  have hx0 : s ≠ 0 := fun h0 => hs0 i0 (congrFun h0 i0)
  obtain ⟨κ, hκ, hV⟩ := col_of_simple_eigenvalue h s 1 hx hx0 j0
    (fun j hj => hsimple j (fun hjv => hj (Fin.ext (hjv.trans hj0v.symm))))
  have hlast : lam j0 = 1 := by
    have hcol := eigen_equation_col h j0
    have hcolκ : (fun i => Vf i j0) = κ • s := funext fun i => by rw [hV i]; rfl
    rw [hcolκ, Matrix.one_mulVec, Matrix.mulVec_smul, hTs] at hcol
    have := congrFun hcol i0
    simp only [Pi.smul_apply, smul_eq_mul] at this
    have hne : κ * s i0 ≠ 0 := mul_ne_zero hκ (hs0 i0)
    have h1 : 1 * (κ * s i0) = lam j0 * (κ * s i0) := by rw [one_mul]; exact this
    exact (mul_right_cancel₀ hne h1).symm
  refine ⟨κ, hκ, hV, hlast, ?_, ?_, ?_, ?_⟩
  · intro i c
    exact dmPost_trivial (cols Vf (topIdx hd)) (fun c => lam (topIdx hd c)) t s κ hV i c
  · intro c
    refine diffusion_conj heat sqrtO dist w hs hs0 (fun i => Vf i (topIdx hd c.castSucc)) _ ?_
    rw [eigen_equation_col h, Matrix.one_mulVec]
  · intro j hj c
    apply h.sorted
    rw [Fin.le_def, topIdx_val]
    omega
  · intro j
    rw [← hlast]
    apply h.sorted
    rw [Fin.le_def, hj0v]
    have := j.2
    omega

end solution

end TapkeeVerif.Diffusion
