import TapkeeVerif.Proofs.KnnVpSearch
import TapkeeVerif.Proofs.KnnBrute
/-!
C02, VP-tree construction: every tree `buildFromPoints` can return (`Built`: any vantage choice, any
`nth_element` outcome) satisfies the ball invariant `TInv` and stores every item exactly once; the
executable `build` is one of them; the wrapper `find_neighbors_vptree_impl` is exact.
-/
namespace TapkeeVerif.VpTree
open List TapkeeVerif.Knn

variable {α K : Type} [DecidableEq α] [LinearOrder K] [AddCommGroup K] [IsOrderedAddMonoid K]

theorem swap_aux : ∀ (t : List α) (j : Nat) (x y : α), t[j]? = some y → (y :: t.set j x).Perm (x :: t)
  | [], _, _, _, h => by simp at h
  | a :: t, 0, x, y, h => by
    simp only [getElem?_cons_zero, Option.some.injEq] at h
    subst h
    simp only [set_cons_zero]
    exact Perm.swap _ _ _
  | a :: t, j + 1, x, y, h => by
    simp only [getElem?_cons_succ] at h
    simp only [set_cons_succ]
    have ih := swap_aux t j x y h
    exact (Perm.swap a y _).trans ((ih.cons a).trans (Perm.swap x a _))

theorem swap0_perm (l : List α) (i : Nat) : (swap0 l i).Perm l := by
  cases l with
  | nil => simp [swap0]
  | cons x t =>
    cases i with
    | zero => simp [swap0]
    | succ j =>
      simp only [swap0]
      cases h : t[j]? with
      | none => simp
      | some y => exact swap_aux t j x y h

theorem vantageOffset_lt (m cnt : Nat) (h : 2 ≤ cnt) : vantageOffset m cnt < cnt - 1 := by
  unfold vantageOffset
  apply Nat.div_lt_of_lt_mul
  have h1 : m % 1048576 < 1048576 := Nat.mod_lt _ (by decide)
  have h2 : 0 < cnt - 1 := by omega
  calc m % 1048576 * (cnt - 1) < 1048576 * (cnt - 1) := Nat.mul_lt_mul_of_pos_right h1 h2
    _ = 1048576 * (cnt - 1) := rfl

theorem mem_drop_of_getElem? {l : List α} {n : Nat} {m : α} (h : l[n]? = some m) :
    l.drop n = m :: l.drop (n + 1) := by
  have hn : n < l.length := by
    by_contra hcon
    rw [getElem?_eq_none (by omega)] at h
    cases h
  rw [getElem?_eq_getElem hn] at h
  cases h
  exact drop_eq_getElem_cons hn

/-- **`vptree_build_inv`**: whatever the vantage stream and whatever `nth_element` returns within its
    postcondition, the tree satisfies the ball invariant and holds every item exactly once -/
theorem built_inv {cb : Cb α K} (hcb : CbOk cb) {items : List α} {t : Tree α K} (h : Built cb items t) :
    TInv cb.dist t ∧ t.points.Perm items := by
  induction h with
  | nil => exact ⟨trivial, Perm.refl _⟩
  | leaf x => exact ⟨⟨by simp [Tree.points], by simp [Tree.points], trivial, trivial⟩, by simp [Tree.points]⟩
  | node items i vp tail out m l r _ _ hswap hnth hmed _ _ ihl ihr =>
    obtain ⟨hperm, hsep, hnthc⟩ := hnth
    have hdrop := mem_drop_of_getElem? hmed
    refine ⟨⟨?_, ?_, ihl.1, ihr.1⟩, ?_⟩
    · intro x hx
      have hx' : x ∈ out.take (items.length / 2 - 1) := ihl.2.mem_iff.1 hx
      have hm' : m ∈ out.drop (items.length / 2 - 1) := by rw [hdrop]; exact mem_cons_self
      have := hsep x hx' m hm'
      have hn : ¬ cb.dist vp m < cb.dist vp x := by
        intro hlt
        rw [(hcb vp m x).2 hlt] at this
        cases this
      exact le_of_not_gt hn
    · intro x hx
      have hx' : x ∈ out.drop (items.length / 2 - 1) := ihr.2.mem_iff.1 hx
      rw [hdrop] at hx'
      rcases mem_cons.1 hx' with rfl | hx''
      · exact le_refl _
      · have := hnthc m hmed x hx''
        have hn : ¬ cb.dist vp x < cb.dist vp m := by
          intro hlt
          rw [(hcb vp x m).2 hlt] at this
          cases this
        exact le_of_not_gt hn
    · have h1 : (l.points ++ r.points).Perm out := by
        have := ihl.2.append ihr.2
        rwa [take_append_drop] at this
      have h2 : (vp :: (l.points ++ r.points)).Perm (vp :: tail) := (h1.trans hperm).cons vp
      rw [← hswap] at h2
      exact h2.trans (swap0_perm items i)

theorem lt_eq_of_cbOk {cb : Cb α K} (hcb : CbOk cb) (vp : α) :
    cb.lt vp = fun a b => decide (cb.dist vp a < cb.dist vp b) := by
  funext a b
  by_cases h : cb.dist vp a < cb.dist vp b
  · simp [h, (hcb vp a b).2 h]
  · have : cb.lt vp a b = false := by
      by_contra hne
      exact h ((hcb vp a b).1 (by simpa using hne))
    simp [h, this]

/-- the executable `build` returns one of the admissible trees (for every draw stream) -/
theorem build_built {cb : Cb α K} (hcb : CbOk cb) (draws : List Nat) :
    ∀ (fuel pos : Nat) (items : List α), items.length ≤ fuel → Built cb items (build cb draws fuel pos items).1
  | 0, pos, items, h => by
    have : items = [] := by
      cases items with
      | nil => rfl
      | cons a t => simp at h
    subst this
    exact Built.nil
  | fuel + 1, pos, [], _ => by
    simp only [build]
    exact Built.nil
  | fuel + 1, pos, [x], _ => by
    simp only [build]
    exact Built.leaf x
  | fuel + 1, pos, a :: b :: rest, h => by
    have hlen2 : 2 ≤ (a :: b :: rest).length := by simp
    have hoff := vantageOffset_lt (draws.getD (pos % draws.length) 0) (a :: b :: rest).length hlen2
    have hsw := swap0_perm (a :: b :: rest) (vantageOffset (draws.getD (pos % draws.length) 0) (a :: b :: rest).length)
    simp only [build]
    cases hs : swap0 (a :: b :: rest) (vantageOffset (draws.getD (pos % draws.length) 0) (a :: b :: rest).length) with
    | nil =>
      rw [hs] at hsw
      have := hsw.length_eq
      simp at this
    | cons vp tail =>
      rw [hs] at hsw
      have htl : tail.length + 1 = (a :: b :: rest).length := by simpa using hsw.length_eq
      have hnth := nthElementExec_spec (fun x => cb.dist vp x) ((a :: b :: rest).length / 2 - 1) tail
      rw [← lt_eq_of_cbOk hcb vp] at hnth
      have holen : (nthElementExec (cb.lt vp) ((a :: b :: rest).length / 2 - 1) tail).length = tail.length :=
        hnth.1.length_eq
      have hn : (a :: b :: rest).length / 2 - 1 < (nthElementExec (cb.lt vp) ((a :: b :: rest).length / 2 - 1) tail).length := by
        rw [holen]
        have : (a :: b :: rest).length / 2 ≤ (a :: b :: rest).length - 1 := by
          have := Nat.div_le_self (a :: b :: rest).length 2
          have h2 : (a :: b :: rest).length / 2 * 2 ≤ (a :: b :: rest).length := Nat.div_mul_le_self _ _
          omega
        omega
      have hmed := getElem?_eq_getElem hn
      have hB1 := build_built hcb draws fuel (pos + 1)
        ((nthElementExec (cb.lt vp) ((a :: b :: rest).length / 2 - 1) tail).take ((a :: b :: rest).length / 2 - 1))
        (by rw [length_take]; simp only [length_cons] at h htl ⊢; omega)
      have hB2 := build_built hcb draws fuel
        (build cb draws fuel (pos + 1)
          ((nthElementExec (cb.lt vp) ((a :: b :: rest).length / 2 - 1) tail).take ((a :: b :: rest).length / 2 - 1))).2
        ((nthElementExec (cb.lt vp) ((a :: b :: rest).length / 2 - 1) tail).drop ((a :: b :: rest).length / 2 - 1))
        (by rw [length_drop, holen]; simp only [length_cons] at h htl ⊢; omega)
      simp only [hmed]
      exact Built.node (a :: b :: rest) _ vp tail _ _ _ _ hlen2 (by omega) hs hnth hmed hB1 hB2

/-! ### the wrapper -/

theorem IsKNearest.perm {δ : α → α → K} {q : α} {pool S S' : List α} {k : Nat} (h : IsKNearest δ q pool k S)
    (hp : S'.Perm S) : IsKNearest δ q pool k S' :=
  ⟨hp.nodup_iff.2 h.1, hp.length_eq.trans h.2.1, fun a ha => h.2.2.1 a (hp.mem_iff.1 ha),
    fun a ha b hb hbn => h.2.2.2 a (hp.mem_iff.1 ha) b hb (fun hc => hbn (hp.mem_iff.2 hc))⟩

theorem IsKNearest.pool_perm {δ : α → α → K} {q : α} {pool pool' S : List α} {k : Nat}
    (h : IsKNearest δ q pool k S) (hp : pool.Perm pool') : IsKNearest δ q pool' k S :=
  ⟨h.1, h.2.1, fun a ha => hp.mem_iff.1 (h.2.2.1 a ha), fun a ha b hb hbn => h.2.2.2 a ha b (hp.mem_iff.2 hb) hbn⟩

theorem drain_perm (h : List (α × K)) : (drain h).Perm (h.map (·.1)) :=
  (mergeSort_perm _ _).map _

/-- public `search(target, k)` returns `k` nearest samples of the target (k ≥ 1, k ≤ N) -/
theorem searchTop_nearest {cb : Cb α K} {pop : List (α × K) → List (α × K)} (hm : IsMetric cb.dist)
    (hcb : CbOk cb) (hpop : PopSpec pop) {pts : List α} {t : Tree α K} (hB : Built cb pts t) (hnd : pts.Nodup)
    (q : α) {k : Nat} (hk : 1 ≤ k) (hkN : k ≤ pts.length) :
    IsKNearest cb.dist q pts k (searchTop cb pop t q k) := by
  obtain ⟨hT, hperm⟩ := built_inv hcb hB
  have hnd' : t.points.Nodup := hperm.nodup_iff.2 hnd
  have h := search_nearest (q := q) hm hk hpop hT hnd' (by rw [hperm.length_eq]; exact hkN)
  exact IsKNearest.perm (IsKNearest.pool_perm h hperm) (drain_perm _)

/-- **the VP-tree neighbour search is exact**: for every metric callback, every admissible tree (any
    vantage stream, any `nth_element` outcome), any heap tie-break, every k < N, repeated samples included -/
theorem vp_exact' {cb : Cb α K} {pop : List (α × K) → List (α × K)} (hm : IsMetric cb.dist)
    (hcb : CbOk cb) (hpop : PopSpec pop) {pts : List α} {t : Tree α K} (hB : Built cb pts t) (hnd : pts.Nodup)
    {i : α} (hi : i ∈ pts) {k : Nat} (hk : k < pts.length) :
    IsExactKnn cb.dist pts k i (vpKnn cb pop t k i) := by
  have hn := searchTop_nearest hm hcb hpop hB hnd i (k := k + 1) (by omega) (by omega)
  have hself : ∀ j ∈ pts, cb.dist i i ≤ cb.dist i j := fun j _ => by
    rw [hm.self]; exact hm.nonneg i j
  unfold vpKnn removeSelf
  by_cases hiS : i ∈ searchTop cb pop t i (k + 1)
  · have hr := nearest_remove_self hn hiS
    have hlen : ((searchTop cb pop t i (k + 1)).filter (fun j => j ≠ i)).length = k := hr.2.1
    have : dropFirstIfLonger k ((searchTop cb pop t i (k + 1)).filter (fun j => j ≠ i)) =
        (searchTop cb pop t i (k + 1)).filter (fun j => j ≠ i) := by
      unfold dropFirstIfLonger
      rw [if_neg (by omega)]
    rw [this]
    exact exact_of_nearest hnd hr
  · rw [filter_ne_eq_self hiS]
    have hlen : (searchTop cb pop t i (k + 1)).length = k + 1 := hn.2.1
    have : dropFirstIfLonger k (searchTop cb pop t i (k + 1)) = (searchTop cb pop t i (k + 1)).drop 1 := by
      unfold dropFirstIfLonger
      rw [if_pos (by omega)]
    rw [this]
    apply exact_of_nearest hnd
    apply nearest_drop_any hself hi hn hiS
    · exact hn.1.sublist (drop_sublist _ _)
    · rw [length_drop, hlen]; rfl
    · intro a ha
      exact (drop_sublist _ _).subset ha

end TapkeeVerif.VpTree
