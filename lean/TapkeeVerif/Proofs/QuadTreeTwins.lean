import Mathlib.Algebra.Group.Prod
import Mathlib.Tactic.Abel
import TapkeeVerif.Proofs.QuadTreeForces
/-!
C18 / C17: `computeNonEdgeForces` at `θ = 0` for EVERY point set, coincident points included.

For a query `pi` the tree returns the sum of the Student-t terms of all accepted points (the query's own point
included: force 0, `Q = 1`) minus, in `sum_Q` only, the mass of the leaf whose resident is `pi` itself (that leaf is
skipped as "self-interaction", together with the twins it absorbed).  Hence the force components are always the exact
all-pairs sums, and `sum_Q` is off by `1 − corr pi t`; summed over all query points the corrections cancel
(`Σ_pi corr pi t` = number of accepted points).
-/
namespace TapkeeVerif.QuadTree

variable {K : Type} [Field K] [LinearOrder K] [IsStrictOrderedRing K]
set_option linter.unusedSectionVars false

/-- the Student-t term of the point `p` seen from `y`: `((q²(y−p)_0, q²(y−p)_1), q)` -/
def stTerm (y p : K × K) : Acc K :=
  ((1 / (1 + sqNorm (y.1 - p.1, y.2 - p.2)) * (1 / (1 + sqNorm (y.1 - p.1, y.2 - p.2))) * (y.1 - p.1),
    1 / (1 + sqNorm (y.1 - p.1, y.2 - p.2)) * (1 / (1 + sqNorm (y.1 - p.1, y.2 - p.2))) * (y.2 - p.2)),
   1 / (1 + sqNorm (y.1 - p.1, y.2 - p.2)))

def scale (c : K) (t : Acc K) : Acc K := ((c * t.1.1, c * t.1.2), c * t.2)

theorem stTerm_self (y : K × K) : stTerm y y = ((0, 0), 1) := by
  simp [stTerm, sqNorm]

theorem addSummary_eq (cum : Nat) (y p : K × K) (acc : Acc K) :
    addSummary cum (y.1 - p.1, y.2 - p.2) (sqNorm (y.1 - p.1, y.2 - p.2)) acc = acc + scale (cum : K) (stTerm y p) := by
  unfold addSummary scale stTerm
  refine Prod.ext (Prod.ext ?_ ?_) ?_ <;> simp only [Prod.fst_add, Prod.snd_add] <;> ring

/-- a list of copies of `q` -/
theorem sum_all_eq (g : K × K → Acc K) (q : K × K) : ∀ ps : List (K × K), (∀ p ∈ ps, p = q) →
    (ps.map g).sum = scale (ps.length : K) (g q) := by
  intro ps
  induction ps with
  | nil => intro _; simp [scale]; rfl
  | cons p ps ih =>
    intro h
    have hp := h p (by simp)
    subst hp
    rw [List.map_cons, List.sum_cons, ih fun x hx => h x (by simp [hx])]
    unfold scale
    refine Prod.ext (Prod.ext ?_ ?_) ?_ <;>
      simp only [Prod.fst_add, Prod.snd_add, List.length_cons, Nat.cast_add, Nat.cast_one] <;> ring

theorem sum_fst_all_eq (f : K × K → K) (q : K × K) : ∀ ps : List (K × K), (∀ p ∈ ps, p = q) →
    (ps.map f).sum = (ps.length : K) * f q := by
  intro ps
  induction ps with
  | nil => intro _; simp
  | cons p ps ih =>
    intro h
    have hp := h p (by simp)
    subst hp
    rw [List.map_cons, List.sum_cons, ih fun x hx => h x (by simp [hx])]
    simp only [List.length_cons, Nat.cast_add, Nat.cast_one]; ring

/-- a sum over the points of a cell splits along the four routes -/
theorem sum_route_partition (b : Cell K) (g : K × K → Acc K) : ∀ (ps : List (K × K)),
    (∀ p ∈ ps, b.containsPoint p = true) →
    (ps.map g).sum = ((ps.filter fun p => rNW b p).map g).sum + ((ps.filter fun p => rNE b p).map g).sum +
      ((ps.filter fun p => rSW b p).map g).sum + ((ps.filter fun p => rSE b p).map g).sum := by
  intro ps
  induction ps with
  | nil => intro _; simp
  | cons p ps ih =>
    intro hall
    have hi := hall p (by simp)
    have ih' := ih fun q hq => hall q (by simp [hq])
    have hc := children_cover b p hi
    rw [List.map_cons, List.sum_cons, ih']
    simp only [List.filter_cons, rNW, rNE, rSW, rSE]
    cases h1 : (cellNW b).containsPoint p <;> cases h2 : (cellNE b).containsPoint p <;>
      cases h3 : (cellSW b).containsPoint p <;> cases h4 : (cellSE b).containsPoint p <;>
      simp_all <;> abel

/-- the mass of the leaf whose resident is `pi` (0 when `pi` is not stored) -/
def corr (pi : Nat) : Tree K → Nat
  | .leaf _ cum _ (some r) => if r = pi then cum else 0
  | .leaf _ _ _ none => 0
  | .node _ _ _ nw ne sw se => corr pi nw + corr pi ne + corr pi sw + corr pi se

/-- **θ = 0, every point set**: the tree adds the terms of all points routed into it, except that the leaf whose
    resident is the query itself is skipped -/
theorem forces_zero_general (data : Nat → K × K) (pi : Nat) : ∀ (t : Tree K) (ps : List (K × K)), WF data t ps →
    ∀ acc : Acc K, forces data 0 pi t acc =
      acc + (ps.map (stTerm (data pi))).sum - ((0, 0), ((corr pi t : Nat) : K)) := by
  intro t
  induction t with
  | leaf b cum com res =>
    intro ps hwf acc
    cases res with
    | none =>
      simp only [WF] at hwf
      obtain ⟨rfl, rfl⟩ := hwf
      refine Prod.ext (Prod.ext ?_ ?_) ?_ <;> simp [forces, corr]
    | some r =>
      simp only [WF] at hwf
      obtain ⟨hne, hcum, hmass, hall⟩ := hwf
      have hq : ∀ p ∈ ps, p = data r := fun p hp => (hall p hp).2
      have hc0 : cum ≠ 0 := by
        rw [hcum]; exact fun h => hne (List.length_eq_zero_iff.1 h)
      have hcK : (cum : K) ≠ 0 := Nat.cast_ne_zero.2 hc0
      rw [sum_all_eq (stTerm (data pi)) (data r) ps hq, ← hcum]
      by_cases hp : r = pi
      · subst hp
        rw [stTerm_self]
        refine Prod.ext (Prod.ext ?_ ?_) ?_ <;> simp [forces, corr, scale]
      · obtain ⟨m1, m2⟩ := hmass
        rw [sum_fst_all_eq Prod.fst (data r) ps hq, ← hcum] at m1
        rw [sum_fst_all_eq Prod.snd (data r) ps hq, ← hcum] at m2
        have e1 : com.1 = (data r).1 := mul_left_cancel₀ hcK m1
        have e2 : com.2 = (data r).2 := mul_left_cancel₀ hcK m2
        have hforce : forces data 0 pi (.leaf b cum com (some r)) acc =
            addSummary cum ((data pi).1 - (data r).1, (data pi).2 - (data r).2)
              (sqNorm ((data pi).1 - (data r).1, (data pi).2 - (data r).2)) acc := by
          simp [forces, hc0, hp, e1, e2]
        rw [hforce, addSummary_eq]
        refine Prod.ext (Prod.ext ?_ ?_) ?_ <;> simp [corr, hp]
  | node b cum com nw ne sw se ih1 ih2 ih3 ih4 =>
    intro ps hwf acc
    simp only [WF] at hwf
    obtain ⟨hcum, -, hall, ⟨p, hp, -⟩, -, -, -, -, w1, w2, w3, w4⟩ := hwf
    have hc : cum ≠ 0 := by
      rw [hcum]; exact fun h => by rw [List.length_eq_zero_iff] at h; simp [h] at hp
    simp only [forces, hc, if_false, useSummary_zero, Bool.false_eq_true]
    rw [ih1 _ w1, ih2 _ w2, ih3 _ w3, ih4 _ w4, sum_route_partition b (stTerm (data pi)) ps hall]
    have hcorr : (((corr pi (.node b cum com nw ne sw se) : Nat) : K)) =
        (corr pi nw : K) + (corr pi ne : K) + (corr pi sw : K) + (corr pi se : K) := by
      simp [corr]
    rw [hcorr]
    refine Prod.ext (Prod.ext ?_ ?_) ?_ <;>
      simp only [Prod.fst_add, Prod.snd_add, Prod.fst_sub, Prod.snd_sub] <;> ring

/-- the corrections of all query points add up to the number of points in the tree -/
theorem corr_total (data : Nat → K × K) : ∀ (t : Tree K) (ps : List (K × K)), WF data t ps →
    ∀ l : List Nat, l.Nodup → (∀ r ∈ allIndices t, r ∈ l) → (l.map fun pi => corr pi t).sum = ps.length := by
  intro t
  induction t with
  | leaf b cum com res =>
    intro ps hwf l hnd hsub
    cases res with
    | none =>
      simp only [WF] at hwf
      obtain ⟨rfl, rfl⟩ := hwf
      simp [corr]
    | some r =>
      simp only [WF] at hwf
      obtain ⟨-, hcum, -, -⟩ := hwf
      have hr : r ∈ l := hsub r (by simp [allIndices])
      rw [← hcum]
      simp only [corr]
      clear hsub
      induction l with
      | nil => simp at hr
      | cons a l ih =>
        rw [List.nodup_cons] at hnd
        simp only [List.mem_cons] at hr
        rw [List.map_cons, List.sum_cons]
        by_cases ha : r = a
        · subst ha
          have : (l.map fun pi => if r = pi then cum else 0).sum = 0 := by
            apply List.sum_eq_zero
            intro x hx
            simp only [List.mem_map] at hx
            obtain ⟨y, hy, rfl⟩ := hx
            have : ¬ r = y := fun e => hnd.1 (e ▸ hy)
            simp [this]
          simp [this]
        · rcases hr with h | h
          · exact absurd h ha
          · simp [ha, ih hnd.2 h]
  | node b cum com nw ne sw se ih1 ih2 ih3 ih4 =>
    intro ps hwf l hnd hsub
    simp only [WF] at hwf
    obtain ⟨-, -, hall, -, -, -, -, -, w1, w2, w3, w4⟩ := hwf
    have s1 := ih1 _ w1 l hnd fun r hr => hsub r (by simp [allIndices, hr])
    have s2 := ih2 _ w2 l hnd fun r hr => hsub r (by simp [allIndices, hr])
    have s3 := ih3 _ w3 l hnd fun r hr => hsub r (by simp [allIndices, hr])
    have s4 := ih4 _ w4 l hnd fun r hr => hsub r (by simp [allIndices, hr])
    have := route_partition b ps hall
    simp only [corr, List.sum_map_add]
    omega

/-! ### against the exact all-pairs sums over the accepted indices -/

theorem scale_one (t : Acc K) : scale 1 t = t := by
  simp [scale]

theorem foldl_fstep_terms (data : Nat → K × K) (pi : Nat) : ∀ (js : List Nat) (acc : Acc K),
    js.foldl (fstep data pi) acc = acc + (js.map fun j => if j = pi then 0 else stTerm (data pi) (data j)).sum := by
  intro js
  induction js with
  | nil => intro acc; simp
  | cons j js ih =>
    intro acc
    rw [List.foldl_cons, ih, List.map_cons, List.sum_cons]
    unfold fstep
    by_cases h : j = pi
    · simp [h]
    · simp only [h, if_false]
      have := addSummary_eq 1 (data pi) (data j) acc
      rw [Nat.cast_one, scale_one] at this
      rw [this, add_assoc]

theorem sum_self_count (pi : Nat) : ∀ js : List Nat,
    (js.map fun j => if j = pi then (((0, 0), 1) : Acc K) else 0).sum = ((0, 0), ((js.count pi : Nat) : K)) := by
  intro js
  induction js with
  | nil => simp; rfl
  | cons j js ih =>
    rw [List.map_cons, List.sum_cons, ih, List.count_cons]
    by_cases h : j = pi
    · subst h
      refine Prod.ext (Prod.ext ?_ ?_) ?_ <;> simp [add_comm]
    · have h' : ¬ (j == pi) = true := by simpa using h
      refine Prod.ext (Prod.ext ?_ ?_) ?_ <;> simp [h]

/-- **θ = 0 with coincident points** (any index list, repetitions allowed): the returned force components are the
    exact all-pairs sums; `sum_Q` deviates by the number of times `pi` itself was accepted minus the mass of the leaf
    whose resident is `pi` -/
theorem forces_zero_coincident (data : Nat → K × K) (fuel : Nat) (root : Cell K) (is : List Nat) (t : Tree K)
    (h : buildIn data fuel root is = some t) (pi : Nat) :
    forces data 0 pi t ((0, 0), 0) =
      exactForces data (accepted data root is) pi +
        ((0, 0), (((accepted data root is).count pi : Nat) : K) - ((corr pi t : Nat) : K)) := by
  obtain ⟨hwf, -⟩ := buildIn_WF data fuel root is t h
  rw [forces_zero_general data pi t _ hwf, acceptedPts_eq, List.map_map, exactForces_eq, foldl_fstep_terms]
  have hsplit : (accepted data root is).map (stTerm (data pi) ∘ data) =
      (accepted data root is).map fun j => (if j = pi then 0 else stTerm (data pi) (data j)) +
        (if j = pi then (((0, 0), 1) : Acc K) else 0) := by
    apply List.map_congr_left
    intro j _
    by_cases hj : j = pi
    · subst hj; simp [stTerm_self]
    · simp [hj]
  rw [hsplit, List.sum_map_add, sum_self_count]
  refine Prod.ext (Prod.ext ?_ ?_) ?_ <;>
    simp only [Prod.fst_add, Prod.snd_add, Prod.fst_sub, Prod.snd_sub, Prod.fst_zero, Prod.snd_zero] <;> ring

end TapkeeVerif.QuadTree
