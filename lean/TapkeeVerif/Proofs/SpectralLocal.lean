import Mathlib.Data.Matrix.Basic
import Mathlib.Data.Matrix.Mul
import Mathlib.LinearAlgebra.Matrix.NonsingularInverse
import Mathlib.LinearAlgebra.Matrix.Trace
import Mathlib.Algebra.Order.BigOperators.Group.Finset
import Mathlib.Algebra.Order.BigOperators.Ring.Finset
import Mathlib.Tactic.Ring
import Mathlib.Tactic.Linarith
import Mathlib.Tactic.Positivity
/-!
Spectral lemmas used by C08, C09, C10 (own copy; the shared `Proofs/Spectral.lean` of the C05–C07 owner was not
available when these were written): the **generalised Ky Fan minimum principle with excluded eigenvectors**.

For a pencil `(A, B)` with a full `B`-orthonormal eigensystem `V` (`Vᵀ B V = 1`, `Vᵀ A V = diag lam`; the
eigensolver's contract, a hypothesis here), a set `S` of `d` indices whose eigenvalues lie below a threshold `t`
while all others — except an excluded set `E` — lie above it, and any `Z` with `Zᵀ B Z = 1` that is `B`-orthogonal
to the excluded eigenvectors:      `∑_{j ∈ S} lam j ≤ tr (Zᵀ A Z)`.
Elementary: with `W = Vᵀ B Z`, `tr = ∑_j lam_j w_j`, `0 ≤ w_j ≤ 1`, `∑ w_j = d`, `w_j = 0` on `E`; exchange argument.
-/
set_option linter.unusedSectionVars false
namespace TapkeeVerif.SpectralLocal
open Matrix

variable {K : Type} [Field K] [LinearOrder K] [IsStrictOrderedRing K]

/-- the exchange argument: weights in `[0,1]` of total mass `|S|`, `μ ≤ t` on `S`, `t ≤ μ` off `S` wherever the
    weight is not forced to vanish -/
theorem weighted_sum_ge {ι : Type} [Fintype ι] [DecidableEq ι] (μ w : ι → K) (S : Finset ι) (t : K)
    (hw0 : ∀ j, 0 ≤ w j) (hw1 : ∀ j, w j ≤ 1) (hsum : ∑ j, w j = (S.card : K))
    (hS : ∀ j ∈ S, μ j ≤ t) (hrest : ∀ j, j ∉ S → w j = 0 ∨ t ≤ μ j) :
    ∑ j ∈ S, μ j ≤ ∑ j, μ j * w j := by
  have hsplit : ∑ j, μ j * w j = ∑ j ∈ S, μ j * w j + ∑ j ∈ Sᶜ, μ j * w j :=
    (Finset.sum_add_sum_compl S _).symm
  have hsplitw : ∑ j, w j = ∑ j ∈ S, w j + ∑ j ∈ Sᶜ, w j := (Finset.sum_add_sum_compl S _).symm
  have h1 : t * ∑ j ∈ Sᶜ, w j ≤ ∑ j ∈ Sᶜ, μ j * w j := by
    rw [Finset.mul_sum]
    apply Finset.sum_le_sum
    intro j hj
    rcases hrest j (Finset.mem_compl.mp hj) with h | h
    · simp [h]
    · exact mul_le_mul_of_nonneg_right h (hw0 j)
  have h2 : ∑ j ∈ S, μ j * (1 - w j) ≤ t * ∑ j ∈ S, (1 - w j) := by
    rw [Finset.mul_sum]
    apply Finset.sum_le_sum
    intro j hj
    exact mul_le_mul_of_nonneg_right (hS j hj) (sub_nonneg.mpr (hw1 j))
  have h3 : ∑ j ∈ S, μ j * (1 - w j) = ∑ j ∈ S, μ j - ∑ j ∈ S, μ j * w j := by
    rw [← Finset.sum_sub_distrib]
    exact Finset.sum_congr rfl fun j _ => by ring
  have h4 : ∑ j ∈ S, (1 - w j) = (S.card : K) - ∑ j ∈ S, w j := by
    rw [Finset.sum_sub_distrib, Finset.sum_const, nsmul_eq_mul, mul_one]
  have h5 : ∑ j ∈ S, (1 - w j) = ∑ j ∈ Sᶜ, w j := by
    rw [h4]
    linarith
  rw [h5] at h2
  linarith

variable {n d : Nat}

/-- the row weights `∑_c W_jc²` of a matrix with orthonormal columns are at most 1 (`W Wᵀ` is a projection) -/
theorem row_weight_le_one (W : Matrix (Fin n) (Fin d) K) (hW : Wᵀ * W = 1) (j : Fin n) :
    ∑ c, W j c * W j c ≤ 1 := by
  set P : Matrix (Fin n) (Fin n) K := W * Wᵀ with hP
  have hPP : P * P = P := by
    rw [hP, Matrix.mul_assoc, ← Matrix.mul_assoc Wᵀ W Wᵀ, hW, Matrix.one_mul]
  have hsym : ∀ a b, P a b = P b a := by
    intro a b
    simp only [hP, Matrix.mul_apply, Matrix.transpose_apply]
    exact Finset.sum_congr rfl fun c _ => mul_comm _ _
  have hjj : P j j = ∑ c, W j c * W j c := by
    simp [hP, Matrix.mul_apply, Matrix.transpose_apply]
  have hsq : P j j * P j j ≤ P j j := by
    have h := congrFun (congrFun hPP j) j
    rw [Matrix.mul_apply] at h
    calc P j j * P j j ≤ ∑ l, P j l * P l j := by
          have : P j j * P j j = P j j * P j j := rfl
          have hnn : ∀ l ∈ (Finset.univ : Finset (Fin n)), 0 ≤ P j l * P l j := by
            intro l _
            rw [hsym l j]
            exact mul_self_nonneg _
          exact Finset.single_le_sum hnn (Finset.mem_univ j)
      _ = P j j := h
  rw [← hjj]
  nlinarith [hsq]

/-- **Generalised Ky Fan minimum principle with excluded eigenvectors.** -/
theorem genKyFan_min (A B V : Matrix (Fin n) (Fin n) K) (lam : Fin n → K)
    (hB : Vᵀ * B * V = 1) (hA : Vᵀ * A * V = Matrix.diagonal lam)
    (S E : Finset (Fin n)) (t : K)
    (hS : ∀ j ∈ S, lam j ≤ t) (hrest : ∀ j, j ∉ S → j ∉ E → t ≤ lam j)
    (Z : Matrix (Fin n) (Fin d) K) (hZ : Zᵀ * B * Z = 1) (hd : S.card = d)
    (hE : ∀ j ∈ E, ∀ c, (Vᵀ * B * Z) j c = 0) :
    ∑ j ∈ S, lam j ≤ Matrix.trace (Zᵀ * A * Z) := by
  have hVinv : V * (Vᵀ * B) = 1 := by
    have h : (Vᵀ * B) * V = 1 := hB
    exact mul_eq_one_comm.mp h
  set W : Matrix (Fin n) (Fin d) K := Vᵀ * B * Z with hWdef
  have hZW : V * W = Z := by
    rw [hWdef, ← Matrix.mul_assoc, hVinv, Matrix.one_mul]
  have hWW : Wᵀ * W = 1 := by
    have : Zᵀ * B * Z = Wᵀ * (Vᵀ * B * V) * W := by
      rw [← hZW, Matrix.transpose_mul]
      simp only [Matrix.mul_assoc]
    rw [← hZ, this, hB, Matrix.mul_one]
  have hZAZ : Zᵀ * A * Z = Wᵀ * Matrix.diagonal lam * W := by
    rw [← hA, ← hZW, Matrix.transpose_mul]
    simp only [Matrix.mul_assoc]
  set w : Fin n → K := fun j => ∑ c, W j c * W j c with hw
  have htrace : Matrix.trace (Zᵀ * A * Z) = ∑ j, lam j * w j := by
    rw [hZAZ, Matrix.trace]
    simp only [Matrix.diag_apply, Matrix.mul_apply, Matrix.transpose_apply, Matrix.diagonal_apply, hw]
    rw [Finset.sum_comm]
    apply Finset.sum_congr rfl
    intro j _
    rw [Finset.mul_sum]
    apply Finset.sum_congr rfl
    intro c _
    rw [Finset.sum_eq_single j]
    · simp
      ring
    · intro b _ hb
      simp [hb]
    · intro h
      exact absurd (Finset.mem_univ j) h
  have hsumw : ∑ j, w j = (S.card : K) := by
    have h := congrArg Matrix.trace hWW
    rw [Matrix.trace_one, Fintype.card_fin] at h
    rw [hd, ← h, Matrix.trace]
    simp only [Matrix.diag_apply, Matrix.mul_apply, Matrix.transpose_apply, hw]
    rw [Finset.sum_comm]
  rw [htrace]
  apply weighted_sum_ge lam w S t
  · intro j
    exact Finset.sum_nonneg fun c _ => mul_self_nonneg _
  · intro j
    exact row_weight_le_one W hWW j
  · exact hsumw
  · exact hS
  · intro j hj
    by_cases hjE : j ∈ E
    · left
      simp only [hw]
      apply Finset.sum_eq_zero
      intro c _
      rw [hE j hjE c, mul_zero]
    · right
      exact hrest j hj hjE

/-! ### the eigensolver contract and the selected columns -/

/-- contract of a (generalised) self-adjoint eigensolver: a full `B`-orthonormal eigensystem with ascending
    eigenvalues (`B = 1` for the ordinary problem).  A hypothesis of the theorems; checked per run on the observed
    values by the certificate of the drivers. -/
structure GenEigSystem (A B V : Matrix (Fin n) (Fin n) K) (lam : Fin n → K) : Prop where
  orth : Vᵀ * B * V = 1
  diag : Vᵀ * A * V = Matrix.diagonal lam
  sorted : Monotone lam

/-- the columns `e 0, …, e (d-1)` of `V` -/
def cols (V : Matrix (Fin n) (Fin n) K) (e : Fin d → Fin n) : Matrix (Fin n) (Fin d) K := fun i c => V i (e c)

theorem cols_sandwich (M V : Matrix (Fin n) (Fin n) K) (e : Fin d → Fin n) (c c' : Fin d) :
    ((cols V e)ᵀ * M * cols V e) c c' = (Vᵀ * M * V) (e c) (e c') := by
  simp only [cols, Matrix.mul_apply, Matrix.transpose_apply]

theorem cols_orthonormal {A B V : Matrix (Fin n) (Fin n) K} {lam : Fin n → K} (h : GenEigSystem A B V lam)
    (e : Fin d → Fin n) (he : Function.Injective e) : (cols V e)ᵀ * B * cols V e = 1 := by
  ext c c'
  rw [cols_sandwich, h.orth, Matrix.one_apply, Matrix.one_apply]
  by_cases hc : c = c'
  · simp [hc]
  · have : e c ≠ e c' := fun h' => hc (he h')
    simp [hc, this]

theorem cols_quadratic {A B V : Matrix (Fin n) (Fin n) K} {lam : Fin n → K} (h : GenEigSystem A B V lam)
    (e : Fin d → Fin n) (he : Function.Injective e) :
    (cols V e)ᵀ * A * cols V e = Matrix.diagonal fun c => lam (e c) := by
  ext c c'
  rw [cols_sandwich, h.diag, Matrix.diagonal_apply, Matrix.diagonal_apply]
  by_cases hc : c = c'
  · simp [hc]
  · have : e c ≠ e c' := fun h' => hc (he h')
    simp [hc, this]

theorem cols_trace {A B V : Matrix (Fin n) (Fin n) K} {lam : Fin n → K} (h : GenEigSystem A B V lam)
    (e : Fin d → Fin n) (he : Function.Injective e) :
    Matrix.trace ((cols V e)ᵀ * A * cols V e) = ∑ c, lam (e c) := by
  rw [cols_quadratic h e he, Matrix.trace_diagonal]

/-- `A V = B V diag(lam)`: every column of `V` solves the generalised eigen-equation -/
theorem eigen_equation {A B V : Matrix (Fin n) (Fin n) K} {lam : Fin n → K} (h : GenEigSystem A B V lam) :
    A * V = B * V * Matrix.diagonal lam := by
  have hVinv : V * (Vᵀ * B) = 1 := mul_eq_one_comm.mp h.orth
  have hleft : (Vᵀ * B)ᵀ * Vᵀ = 1 := by
    rw [← Matrix.transpose_mul, hVinv, Matrix.transpose_one]
  have h1 : Vᵀ * (A * V) = Vᵀ * (B * V * Matrix.diagonal lam) := by
    rw [← Matrix.mul_assoc, h.diag, ← Matrix.mul_assoc, ← Matrix.mul_assoc, h.orth, Matrix.one_mul]
  calc A * V = ((Vᵀ * B)ᵀ * Vᵀ) * (A * V) := by rw [hleft, Matrix.one_mul]
    _ = (Vᵀ * B)ᵀ * (Vᵀ * (A * V)) := by rw [Matrix.mul_assoc]
    _ = (Vᵀ * B)ᵀ * (Vᵀ * (B * V * Matrix.diagonal lam)) := by rw [h1]
    _ = ((Vᵀ * B)ᵀ * Vᵀ) * (B * V * Matrix.diagonal lam) := by rw [← Matrix.mul_assoc ((Vᵀ * B)ᵀ) Vᵀ]
    _ = B * V * Matrix.diagonal lam := by rw [hleft, Matrix.one_mul]

theorem eigen_equation_col {A B V : Matrix (Fin n) (Fin n) K} {lam : Fin n → K} (h : GenEigSystem A B V lam)
    (j : Fin n) : A.mulVec (fun i => V i j) = lam j • B.mulVec (fun i => V i j) := by
  have hh := eigen_equation h
  funext i
  have := congrFun (congrFun hh i) j
  simp only [Matrix.mul_apply, Matrix.diagonal_apply] at this
  simp only [Matrix.mulVec, dotProduct, Pi.smul_apply, smul_eq_mul]
  rw [this, Finset.sum_eq_single j]
  · simp
    ring
  · intro b _ hb
    simp [hb]
  · intro hj
    exact absurd (Finset.mem_univ j) hj

/-- the indices `t, t+1, …, t+d-1` -/
def shiftIdx (t : Nat) (h : t + d ≤ n) : Fin d → Fin n := fun c => ⟨t + c.1, by have := c.2; omega⟩

theorem shiftIdx_injective (t : Nat) (h : t + d ≤ n) : Function.Injective (shiftIdx (d := d) (n := n) t h) := by
  intro a b hab
  have := congrArg Fin.val hab
  simp only [shiftIdx] at this
  exact Fin.ext (by omega)

/-- **Bottom-`d` optimality after skipping `t` eigenvectors**: among all `Z` with `Zᵀ B Z = 1` that are
    `B`-orthogonal to the first `t` eigenvectors, `tr(Zᵀ A Z)` is at least the sum of the eigenvalues
    `lam t, …, lam (t+d-1)`, which is attained by the corresponding columns of `V`. -/
theorem bottom_after_skip {A B V : Matrix (Fin n) (Fin n) K} {lam : Fin n → K} (h : GenEigSystem A B V lam)
    (t : Nat) (htd : t + d ≤ n) (Z : Matrix (Fin n) (Fin d) K) (hZ : Zᵀ * B * Z = 1)
    (hE : ∀ j : Fin n, j.1 < t → ∀ c, (Vᵀ * B * Z) j c = 0) :
    Matrix.trace ((cols V (shiftIdx t htd))ᵀ * A * cols V (shiftIdx t htd)) ≤ Matrix.trace (Zᵀ * A * Z) := by
  rw [cols_trace h _ (shiftIdx_injective t htd)]
  rcases Nat.eq_zero_or_pos d with hd0 | hdpos
  · subst hd0
    simp [Matrix.trace]
  set e := shiftIdx (d := d) (n := n) t htd with he
  set S : Finset (Fin n) := Finset.image e Finset.univ with hSdef
  set E : Finset (Fin n) := Finset.univ.filter fun j => j.1 < t with hEdef
  have hcard : S.card = d := by
    rw [hSdef, Finset.card_image_of_injective _ (shiftIdx_injective t htd), Finset.card_univ, Fintype.card_fin]
  have hsumS : ∑ j ∈ S, lam j = ∑ c, lam (e c) := by
    rw [hSdef, Finset.sum_image]
    intro a _ b _ hab
    exact shiftIdx_injective t htd hab
  let top : Fin n := ⟨t + d - 1, by omega⟩
  have hmemS : ∀ j : Fin n, j ∈ S ↔ t ≤ j.1 ∧ j.1 < t + d := by
    intro j
    simp only [hSdef, Finset.mem_image, Finset.mem_univ, true_and]
    constructor
    · rintro ⟨c, rfl⟩
      simp only [he, shiftIdx]
      have := c.2
      omega
    · rintro ⟨h1, h2⟩
      refine ⟨⟨j.1 - t, by omega⟩, ?_⟩
      apply Fin.ext
      simp only [he, shiftIdx]
      omega
  rw [← hsumS]
  apply genKyFan_min A B V lam h.orth h.diag S E (lam top)
  · intro j hj
    apply h.sorted
    have := (hmemS j).mp hj
    show j.1 ≤ t + d - 1
    omega
  · intro j hjS hjE
    apply h.sorted
    have h1 : ¬ (t ≤ j.1 ∧ j.1 < t + d) := fun hh => hjS ((hmemS j).mpr hh)
    have h2 : ¬ j.1 < t := by
      intro hh
      exact hjE (by simp [hEdef, hh])
    show t + d - 1 ≤ j.1
    omega
  · exact hZ
  · exact hcard
  · intro j hj c
    have : j.1 < t := by simpa [hEdef] using hj
    exact hE j this c

/-- rotating a pencil rotates its eigensystem: `(R V, lam)` is an eigensystem of `(R A Rᵀ, R B Rᵀ)` -/
theorem GenEigSystem.rotate {A B V : Matrix (Fin n) (Fin n) K} {lam : Fin n → K} (h : GenEigSystem A B V lam)
    (R : Matrix (Fin n) (Fin n) K) (hR : Rᵀ * R = 1) : GenEigSystem (R * A * Rᵀ) (R * B * Rᵀ) (R * V) lam := by
  have key : ∀ M : Matrix (Fin n) (Fin n) K, (R * V)ᵀ * (R * M * Rᵀ) * (R * V) = Vᵀ * M * V := by
    intro M
    calc (R * V)ᵀ * (R * M * Rᵀ) * (R * V) = Vᵀ * (Rᵀ * R) * M * (Rᵀ * R) * V := by
          rw [Matrix.transpose_mul]
          simp only [Matrix.mul_assoc]
      _ = Vᵀ * M * V := by rw [hR, Matrix.mul_one, Matrix.mul_one]
  exact ⟨by rw [key, h.orth], by rw [key, h.diag], h.sorted⟩

/-- scaling the pencil by positive constants keeps the eigenvectors (up to the `B`-normalisation) and scales the
    eigenvalues by `c / c'`: the generalised eigen-equation of the unscaled pencil -/
theorem eigen_equation_scaled {A B As Bs V : Matrix (Fin n) (Fin n) K} {lam : Fin n → K} {c c' : K}
    (h : GenEigSystem As Bs V lam) (hA : As = c • A) (hB : Bs = c' • B) (hc : c ≠ 0) (j : Fin n) :
    A.mulVec (fun i => V i j) = (c' / c * lam j) • B.mulVec (fun i => V i j) := by
  have := eigen_equation_col h j
  rw [hA, hB, Matrix.smul_mulVec, Matrix.smul_mulVec] at this
  have h2 : c⁻¹ • (c • A.mulVec fun i => V i j) = c⁻¹ • (lam j • c' • B.mulVec fun i => V i j) := by rw [this]
  rw [smul_smul, inv_mul_cancel₀ hc, one_smul] at h2
  rw [h2, smul_smul, smul_smul]
  congr 1
  field_simp

/-- **A known eigenvector with a simple eigenvalue is the solver's column.**  If `A x = s B x`, `x ≠ 0`, and the
    eigenvalue `s` occurs in the eigensystem at most at index `j0` (`lam j ≠ s` for every other index), then column
    `j0` of `V` is a non-zero multiple of `x`.  (With `x = 1`: whenever the trivial eigenvalue is simple, the
    eigenvector the methods skip IS the constant vector, so the returned columns are orthogonal to it.) -/
theorem col_of_simple_eigenvalue {A B V : Matrix (Fin n) (Fin n) K} {lam : Fin n → K} (h : GenEigSystem A B V lam)
    (x : Fin n → K) (s : K) (hx : A.mulVec x = s • B.mulVec x) (hx0 : x ≠ 0) (j0 : Fin n)
    (hsimple : ∀ j : Fin n, j ≠ j0 → lam j ≠ s) :
    ∃ κ : K, κ ≠ 0 ∧ ∀ i, V i j0 = κ * x i := by
  have hVinv : V * (Vᵀ * B) = 1 := mul_eq_one_comm.mp h.orth
  set c : Fin n → K := (Vᵀ * B).mulVec x with hc
  have hxV : V.mulVec c = x := by
    rw [hc, Matrix.mulVec_mulVec, hVinv, Matrix.one_mulVec]
  -- (lam j - s) c_j = 0
  have hkey : ∀ j, (lam j - s) * c j = 0 := by
    have h1 : A.mulVec x = (B * V * Matrix.diagonal lam).mulVec c := by
      rw [← eigen_equation h, ← Matrix.mulVec_mulVec, hxV]
    have h2 : s • B.mulVec x = (B * V).mulVec (s • c) := by
      rw [Matrix.mulVec_smul, ← Matrix.mulVec_mulVec, hxV]
    have h3 : (B * V).mulVec ((Matrix.diagonal lam).mulVec c) = (B * V).mulVec (s • c) := by
      rw [Matrix.mulVec_mulVec, ← h1, hx, h2]
    have h4 : (Matrix.diagonal lam).mulVec c = s • c := by
      calc (Matrix.diagonal lam).mulVec c
          = (Vᵀ * B * V).mulVec ((Matrix.diagonal lam).mulVec c) := by rw [h.orth, Matrix.one_mulVec]
        _ = Vᵀ.mulVec ((B * V).mulVec ((Matrix.diagonal lam).mulVec c)) := by
            rw [Matrix.mul_assoc]
            exact (Matrix.mulVec_mulVec ((Matrix.diagonal lam).mulVec c) Vᵀ (B * V)).symm
        _ = Vᵀ.mulVec ((B * V).mulVec (s • c)) := by rw [h3]
        _ = (Vᵀ * (B * V)).mulVec (s • c) := Matrix.mulVec_mulVec _ _ _
        _ = s • c := by rw [← Matrix.mul_assoc, h.orth, Matrix.one_mulVec]
    intro j
    have := congrFun h4 j
    simp only [Matrix.mulVec_diagonal, Pi.smul_apply, smul_eq_mul] at this
    rw [sub_mul, this, sub_self]
  have hc0 : ∀ j, j ≠ j0 → c j = 0 := by
    intro j hj
    rcases mul_eq_zero.mp (hkey j) with h1 | h1
    · exact absurd (sub_eq_zero.mp h1) (hsimple j hj)
    · exact h1
  have hxi : ∀ i, x i = V i j0 * c j0 := by
    intro i
    have := congrFun hxV i
    rw [Matrix.mulVec, dotProduct, Finset.sum_eq_single j0] at this
    · exact this.symm
    · intro b _ hb
      rw [hc0 b hb, mul_zero]
    · intro hj
      exact absurd (Finset.mem_univ j0) hj
  have hcj : c j0 ≠ 0 := by
    intro h0
    apply hx0
    funext i
    rw [hxi i, h0, mul_zero]
    rfl
  refine ⟨(c j0)⁻¹, inv_ne_zero hcj, ?_⟩
  intro i
  rw [hxi i]
  field_simp

end TapkeeVerif.SpectralLocal
