import Mathlib.Algebra.Order.Archimedean.Basic
import Mathlib.Topology.MetricSpace.Pseudo.Defs
import Mathlib.Topology.Instances.Real.Lemmas
import TapkeeVerif.Proofs.TsneBasic
/-!
C17: the perplexity bisection terminates.  For a strictly decreasing entropy oracle `H` that takes the target value at
some `b > 0` and is continuous there (ε–δ form, over any Archimedean ordered field; `ContinuousAt` over ℝ), the loop
`while (!found)` sets `found` after finitely many passes: the doubling/halving phases end because `2ⁿ` passes `b` and
`2⁻ⁿ` falls below it, after which `beta` is the midpoint of a bracket whose width halves with every pass.
(The source also stops after `bisectIters` passes; whether that cap is reached is a quantitative matter of `H`.)
-/
namespace TapkeeVerif.Tsne

section
variable {K : Type} [Field K] [LinearOrder K] [IsStrictOrderedRing K]
set_option linter.unusedSectionVars false

theorem bisectIter_succ' (H : K → K) (lp tol : K) : ∀ (n : Nat) (s : BisState K),
    bisectIter H lp tol (n + 1) s = bisectStep H lp tol (bisectIter H lp tol n s)
  | 0, _ => rfl
  | n + 1, s => by
    show bisectIter H lp tol (n + 1) (bisectStep H lp tol s) = _
    rw [bisectIter_succ' H lp tol n (bisectStep H lp tol s)]
    rfl

/-- `beta` is the midpoint of the bracket once both ends are set -/
def Mid (s : BisState K) : Prop := ∀ mn mx, s.minB = some mn → s.maxB = some mx → s.beta = (mn + mx) / (1 + 1)

theorem mid_init : Mid (bisectInit : BisState K) := by
  intro mn mx h; simp [bisectInit] at h

theorem mid_step (H : K → K) (lp tol : K) (s : BisState K) (hs : Mid s) : Mid (bisectStep H lp tol s) := by
  by_cases hf : s.found = true
  · rw [bisectStep_found H lp tol s hf]; exact hs
  have hf' : s.found = false := by simpa using hf
  by_cases hin : H s.beta - lp < tol ∧ -(H s.beta - lp) < tol
  · rw [bisectStep_in H lp tol s hf' hin]; exact hs
  by_cases hpos : 0 < H s.beta - lp
  · rw [bisectStep_up H lp tol s hf' hin hpos]
    intro mn mx h1 h2
    simp only at h1 h2
    injection h1 with h1
    subst h1
    rw [h2]
  · rw [bisectStep_down H lp tol s hf' hin hpos]
    intro mn mx h1 h2
    simp only at h1 h2
    injection h2 with h2
    subst h2
    rw [h1]
    show (s.beta + mn) / (1 + 1) = (mn + s.beta) / (1 + 1)
    rw [add_comm]

/-- a pass from a two-sided bracket halves its width -/
theorem width_step (H : K → K) (lp tol : K) (s : BisState K) (hf : s.found = false)
    (hin : ¬ (H s.beta - lp < tol ∧ -(H s.beta - lp) < tol)) (mn mx : K) (hmn : s.minB = some mn)
    (hmx : s.maxB = some mx) (hmid : s.beta = (mn + mx) / (1 + 1)) :
    ∃ mn' mx', (bisectStep H lp tol s).minB = some mn' ∧ (bisectStep H lp tol s).maxB = some mx' ∧
      mx' - mn' = (mx - mn) / (1 + 1) := by
  have h2 : (1 + 1 : K) ≠ 0 := by norm_num
  by_cases hpos : 0 < H s.beta - lp
  · rw [bisectStep_up H lp tol s hf hin hpos]
    refine ⟨s.beta, mx, rfl, hmx, ?_⟩
    rw [hmid]; field_simp; ring
  · rw [bisectStep_down H lp tol s hf hin hpos]
    refine ⟨mn, s.beta, hmn, rfl, ?_⟩
    rw [hmid]; field_simp; ring

variable [Archimedean K]

/-- **the bisection sets `found` after finitely many passes** -/
theorem bisect_terminates (H : K → K) (hH : StrictAnti H) (b lp tol : K) (hb : H b = lp) (hbpos : 0 < b)
    (htol : 0 < tol)
    (hcont : ∃ δ, 0 < δ ∧ ∀ β, |β - b| < δ → H β - lp < tol ∧ -(H β - lp) < tol) :
    ∃ n, (bisectIter H lp tol n bisectInit).found = true := by
  by_contra hcon
  have hnf : ∀ n, (bisectIter H lp tol n (bisectInit : BisState K)).found = false := by
    intro n
    by_contra h
    exact hcon ⟨n, by simpa using h⟩
  set seq : Nat → BisState K := fun n => bisectIter H lp tol n bisectInit with hseq
  have hsucc : ∀ n, seq (n + 1) = bisectStep H lp tol (seq n) := fun n => bisectIter_succ' H lp tol n _
  have hnotin : ∀ n, ¬ (H (seq n).beta - lp < tol ∧ -(H (seq n).beta - lp) < tol) := by
    intro n hin
    have := hnf (n + 1)
    change (seq (n + 1)).found = false at this
    rw [hsucc, bisectStep_in H lp tol (seq n) (hnf n) hin] at this
    simp at this
  have hbrk : ∀ n, Bracket b (seq n) := fun n =>
    bisectIter_invariant (Bracket b) H lp tol (fun s hs => bracket_step H hH b lp tol hb htol s hs) n _
      (bracket_init b)
  have hmid : ∀ n, Mid (seq n) := fun n =>
    bisectIter_invariant Mid H lp tol (fun s hs => mid_step H lp tol s hs) n _ mid_init
  have two_pos : (0 : K) < 1 + 1 := by norm_num
  -- the doubling phase ends
  have hmax1 : ∀ n, (seq n).maxB = none → (seq n).beta = (1 + 1) ^ n := by
    intro n
    induction n with
    | zero => intro _; simp [hseq, bisectIter, bisectInit]
    | succ n ih =>
      intro hnone
      rw [hsucc] at hnone ⊢
      by_cases hpos : 0 < H (seq n).beta - lp
      · rw [bisectStep_up H lp tol (seq n) (hnf n) (hnotin n) hpos] at hnone ⊢
        simp only at hnone
        simp only [hnone]
        rw [ih hnone, pow_succ]
      · rw [bisectStep_down H lp tol (seq n) (hnf n) (hnotin n) hpos] at hnone
        simp at hnone
  have hmax2 : ∀ n, (seq (n + 1)).maxB = none → (1 + 1 : K) ^ n < b := by
    intro n hnone
    rw [hsucc] at hnone
    by_cases hpos : 0 < H (seq n).beta - lp
    · rw [bisectStep_up H lp tol (seq n) (hnf n) (hnotin n) hpos] at hnone
      simp only at hnone
      rw [← hmax1 n hnone]
      have : H b < H (seq n).beta := by rw [hb]; linarith
      exact (StrictAnti.lt_iff_gt hH).mp this
    · rw [bisectStep_down H lp tol (seq n) (hnf n) (hnotin n) hpos] at hnone
      simp at hnone
  have hmaxSome : ∃ n, (seq n).maxB ≠ none := by
    by_contra hall
    have hall' : ∀ n, (seq n).maxB = none := by
      intro n; by_contra h; exact hall ⟨n, h⟩
    obtain ⟨n, hn⟩ := pow_unbounded_of_one_lt b (show (1 : K) < 1 + 1 by norm_num)
    exact absurd (hmax2 n (hall' (n + 1))) (not_lt.mpr hn.le)
  -- the halving phase ends
  have hmin1 : ∀ n, (seq n).minB = none → (seq n).beta = (1 / (1 + 1)) ^ n := by
    intro n
    induction n with
    | zero => intro _; simp [hseq, bisectIter, bisectInit]
    | succ n ih =>
      intro hnone
      rw [hsucc] at hnone ⊢
      by_cases hpos : 0 < H (seq n).beta - lp
      · rw [bisectStep_up H lp tol (seq n) (hnf n) (hnotin n) hpos] at hnone
        simp at hnone
      · rw [bisectStep_down H lp tol (seq n) (hnf n) (hnotin n) hpos] at hnone ⊢
        simp only at hnone
        simp only [hnone]
        rw [ih hnone, pow_succ, mul_one_div]
  have hmin2 : ∀ n, (seq (n + 1)).minB = none → b ≤ (1 / (1 + 1) : K) ^ n := by
    intro n hnone
    rw [hsucc] at hnone
    by_cases hpos : 0 < H (seq n).beta - lp
    · rw [bisectStep_up H lp tol (seq n) (hnf n) (hnotin n) hpos] at hnone
      simp at hnone
    · rw [bisectStep_down H lp tol (seq n) (hnf n) (hnotin n) hpos] at hnone
      simp only at hnone
      rw [← hmin1 n hnone]
      have : H (seq n).beta ≤ H b := by rw [hb]; linarith
      exact (StrictAnti.le_iff_ge hH).mp this
  have hminSome : ∃ n, (seq n).minB ≠ none := by
    by_contra hall
    have hall' : ∀ n, (seq n).minB = none := by
      intro n; by_contra h; exact hall ⟨n, h⟩
    obtain ⟨n, hn⟩ := exists_pow_lt_of_lt_one hbpos (show (1 / (1 + 1) : K) < 1 by
      rw [div_lt_one two_pos]; norm_num)
    exact absurd (hmin2 n (hall' (n + 1))) (not_le.mpr hn)
  -- both ends stay set
  have hmaxP : ∀ n, (seq n).maxB ≠ none → (seq (n + 1)).maxB ≠ none := by
    intro n h
    rw [hsucc]
    by_cases hpos : 0 < H (seq n).beta - lp
    · rw [bisectStep_up H lp tol (seq n) (hnf n) (hnotin n) hpos]; exact h
    · rw [bisectStep_down H lp tol (seq n) (hnf n) (hnotin n) hpos]; simp
  have hminP : ∀ n, (seq n).minB ≠ none → (seq (n + 1)).minB ≠ none := by
    intro n h
    rw [hsucc]
    by_cases hpos : 0 < H (seq n).beta - lp
    · rw [bisectStep_up H lp tol (seq n) (hnf n) (hnotin n) hpos]; simp
    · rw [bisectStep_down H lp tol (seq n) (hnf n) (hnotin n) hpos]; exact h
  obtain ⟨n1, h1⟩ := hmaxSome
  obtain ⟨n2, h2⟩ := hminSome
  have hmaxK : ∀ k, (seq (n1 + k)).maxB ≠ none := by
    intro k; induction k with
    | zero => exact h1
    | succ k ih => exact hmaxP _ ih
  have hminK : ∀ k, (seq (n2 + k)).minB ≠ none := by
    intro k; induction k with
    | zero => exact h2
    | succ k ih => exact hminP _ ih
  -- from `n0` on the bracket is two-sided and halves
  set n0 := n1 + n2 with hn0
  have hmx0 : (seq n0).maxB ≠ none := hmaxK n2
  have hmn0 : (seq n0).minB ≠ none := by
    have := hminK n1; rwa [Nat.add_comm] at this
  obtain ⟨mx0, hmx0⟩ := Option.ne_none_iff_exists'.mp hmx0
  obtain ⟨mn0, hmn0⟩ := Option.ne_none_iff_exists'.mp hmn0
  have hhalve : ∀ k, ∃ mn mx, (seq (n0 + k)).minB = some mn ∧ (seq (n0 + k)).maxB = some mx ∧
      mx - mn = (mx0 - mn0) * (1 / (1 + 1)) ^ k := by
    intro k
    induction k with
    | zero => exact ⟨mn0, mx0, hmn0, hmx0, by simp⟩
    | succ k ih =>
      obtain ⟨mn, mx, e1, e2, e3⟩ := ih
      obtain ⟨mn', mx', f1, f2, f3⟩ := width_step H lp tol (seq (n0 + k)) (hnf _) (hnotin _) mn mx e1 e2
        (hmid _ mn mx e1 e2)
      refine ⟨mn', mx', ?_, ?_, ?_⟩
      · show (seq (n0 + k + 1)).minB = _; rw [hsucc]; exact f1
      · show (seq (n0 + k + 1)).maxB = _; rw [hsucc]; exact f2
      · rw [f3, e3, pow_succ]; ring
  obtain ⟨δ, hδ, hcl⟩ := hcont
  have hw0 : 0 < mx0 - mn0 := by
    have a := ((hbrk n0).min_lt mn0 hmn0).1
    have c := ((hbrk n0).lt_max mx0 hmx0).1
    linarith
  obtain ⟨k, hk⟩ := exists_pow_lt_of_lt_one (div_pos hδ hw0) (show (1 / (1 + 1) : K) < 1 by
    rw [div_lt_one two_pos]; norm_num)
  obtain ⟨mn, mx, e1, e2, e3⟩ := hhalve k
  have hβ := hmid (n0 + k) mn mx e1 e2
  have a := ((hbrk (n0 + k)).min_lt mn e1).1
  have c := ((hbrk (n0 + k)).lt_max mx e2).1
  have hwk : mx - mn < δ := by
    rw [e3]
    have := (lt_div_iff₀ hw0).mp hk
    linarith
  apply hnotin (n0 + k)
  apply hcl
  rw [hβ, abs_lt]
  constructor
  · rw [lt_sub_iff_add_lt, lt_div_iff₀ two_pos]; linarith
  · rw [sub_lt_iff_lt_add, div_lt_iff₀ two_pos]; linarith

end

/-- over ℝ, with `ContinuousAt` -/
theorem bisect_terminates_real (H : ℝ → ℝ) (hH : StrictAnti H) (b lp tol : ℝ) (hb : H b = lp) (hbpos : 0 < b)
    (htol : 0 < tol) (hc : ContinuousAt H b) :
    ∃ n, (bisectIter H lp tol n bisectInit).found = true := by
  apply bisect_terminates H hH b lp tol hb hbpos htol
  obtain ⟨δ, hδ, h⟩ := Metric.continuousAt_iff.mp hc tol htol
  refine ⟨δ, hδ, fun β hβ => ?_⟩
  have := h (show dist β b < δ by rw [Real.dist_eq]; exact hβ)
  rw [Real.dist_eq, hb, abs_lt] at this
  constructor <;> linarith [this.1, this.2]

end TapkeeVerif.Tsne
