import Mathlib.Algebra.Order.Field.Basic
import Mathlib.Tactic.Linarith
import TapkeeVerif.Proofs.SpeRun
import TapkeeVerif.Proofs.SpeCentroid
/-!
Totality of the full model: if the index trajectory `stepAt` never fails and only produces pairs of valid points (which
the index theorems establish for every stream), `tolerance > 0`, the sqrt oracle is non-negative and `alpha` is defined,
then `Spe.run` reaches neither `Err.oob` (an out-of-range vector access) nor `Err.divzero`.
-/
set_option linter.unusedSectionVars false
namespace TapkeeVerif.Spe
variable {K : Type} [Field K] [LinearOrder K] [IsStrictOrderedRing K]

theorem pairTerms_ok (d : Nat) (Y : Array (Array K)) (dist : Nat → Nat → K) (sqrtO : K → K) (alpha tol : K)
    (htol : 0 < tol) (hsq : ∀ x, 0 ≤ sqrtO x) :
    ∀ ps : List (Nat × Nat), (∀ p ∈ ps, p.1 < Y.size ∧ p.2 < Y.size) →
      ∃ ts, pairTerms d Y dist sqrtO alpha tol ps = .ok ts := by
  intro ps
  induction ps with
  | nil => intro _; exact ⟨[], rfl⟩
  | cons p ps ih =>
    intro h
    obtain ⟨a, b⟩ := p
    obtain ⟨ha, hb⟩ := h (a, b) (by simp)
    obtain ⟨rest, hrest⟩ := ih (fun q hq => h q (by simp [hq]))
    have hne : ¬ (sqrtO (sqNorm (ptVec (d := d) (vecPt (vsub (ptVec (d := d) Y[a]) (ptVec Y[b]))))) + tol = 0) := by
      have := hsq (sqNorm (ptVec (d := d) (vecPt (vsub (ptVec (d := d) Y[a]) (ptVec Y[b])))))
      intro h0
      linarith
    have ha' : a < Y.size := ha
    have hb' : b < Y.size := hb
    simp only [pairTerms, Array.getElem?_eq_getElem ha', Array.getElem?_eq_getElem hb', hne, if_false, hrest]
    exact ⟨_, rfl⟩

theorem coordStep_ok (d : Nat) (Y : Array (Array K)) (dist : Nat → Nat → K) (sqrtO : K → K) (alpha tol lam : K)
    (htol : 0 < tol) (hsq : ∀ x, 0 ≤ sqrtO x) (ps : List (Nat × Nat))
    (h : ∀ p ∈ ps, p.1 < Y.size ∧ p.2 < Y.size) :
    ∃ Y', coordStep d Y dist sqrtO alpha tol lam ps = .ok Y' ∧ Y'.size = Y.size := by
  obtain ⟨ts, hts⟩ := pairTerms_ok d Y dist sqrtO alpha tol htol hsq ps h
  refine ⟨applyMoves d lam ps ts Y, by simp [coordStep, hts], applyMoves_size lam ps ts Y⟩

theorem iterate_ok (inp : Input K) (k nup maxIt : Nat) (alpha : K)
    (htol : 0 < inp.tol) (hsq : ∀ x, 0 ≤ inp.sqrtO x)
    (hstep : ∀ t, ∃ idx ps,
      stepAt inp.inPlace inp.global inp.nb k inp.N nup inp.shuffle (floorPick inp k) t = .ok (idx, ps) ∧
        ∀ p ∈ ps, p.1 < inp.N ∧ p.2 < inp.N)
    (t : Nat) (s : State K) (hc : Coherent inp k nup t s) (hY : s.Y.size = inp.N) :
    ∃ s', iterate inp k nup maxIt alpha t s = .ok s' ∧ s'.Y.size = inp.N := by
  obtain ⟨idx, ps, hst, hps⟩ := hstep t
  have hsp : stepPairs inp.inPlace inp.global inp.nb k nup (inp.shuffle t) (floorPick inp k) s.draws s.idx
      = .ok (idx, ps) := by
    cases t with
    | zero =>
      have h0 := hc.idx
      have hd := hc.draws
      simp only [Nat.zero_mul] at hd
      simp only at h0
      simp only [stepAt] at hst
      rw [hd, h0]; exact hst
    | succ u =>
      obtain ⟨ps0, h0⟩ := hc.idx
      simp only [stepAt, h0] at hst
      rw [hc.draws]; exact hst
  obtain ⟨Y', hY', hsz⟩ := coordStep_ok inp.d s.Y inp.dist inp.sqrtO alpha inp.tol s.lam htol hsq ps
    (by rw [hY]; exact hps)
  exact ⟨_, by simp only [iterate, hsp, hY']; rfl, by simp [hsz, hY]⟩

theorem loop_ok (inp : Input K) (k nup maxIt : Nat) (alpha : K)
    (htol : 0 < inp.tol) (hsq : ∀ x, 0 ≤ inp.sqrtO x)
    (hstep : ∀ t, ∃ idx ps,
      stepAt inp.inPlace inp.global inp.nb k inp.N nup inp.shuffle (floorPick inp k) t = .ok (idx, ps) ∧
        ∀ p ∈ ps, p.1 < inp.N ∧ p.2 < inp.N) :
    ∀ todo t (s : State K), Coherent inp k nup t s → s.Y.size = inp.N →
      ∃ s', loop inp k nup maxIt alpha todo t s = .ok s' := by
  intro todo
  induction todo with
  | zero => intro t s _ _; exact ⟨s, rfl⟩
  | succ todo ih =>
    intro t s hc hY
    obtain ⟨s1, h1, hY1⟩ := iterate_ok inp k nup maxIt alpha htol hsq hstep t s hc hY
    obtain ⟨s', h'⟩ := ih (t + 1) s1 (iterate_coherent inp k nup maxIt alpha t s s1 hc h1) hY1
    exact ⟨s', by simp only [loop, h1]; exact h'⟩

/-- `run` succeeds whenever `k` and `alpha` are defined and the index trajectory is well behaved -/
theorem run_ok (inp : Input K) (k : Nat) (alpha : K)
    (hk : kOf inp.global inp.nb = .ok k)
    (halpha : alphaOf inp.zeroGuard inp.global inp.N inp.dist inp.sqrtO = .ok alpha)
    (hY : inp.y0.size = inp.N) (htol : 0 < inp.tol) (hsq : ∀ x, 0 ≤ inp.sqrtO x)
    (hstep : ∀ t, ∃ idx ps,
      stepAt inp.inPlace inp.global inp.nb k inp.N (clampUpdates inp.N inp.nupReq) inp.shuffle (floorPick inp k) t
        = .ok (idx, ps) ∧ ∀ p ∈ ps, p.1 < inp.N ∧ p.2 < inp.N) :
    ∃ st, run inp = .ok st := by
  have hc0 : Coherent inp k (clampUpdates inp.N inp.nupReq) 0
      { idx := List.range inp.N, Y := inp.y0, lam := 1, draws := 0, trace := [] } :=
    ⟨by simp, rfl, rfl, fun u hu => by omega⟩
  obtain ⟨s', h'⟩ := loop_ok inp k _ (maxIter inp.N inp.maxIterReq inp.global inp.fl004) alpha htol hsq hstep
    (maxIter inp.N inp.maxIterReq inp.global inp.fl004) 0 _ hc0 hY
  exact ⟨s', by simp only [run, hk, halpha]; exact h'⟩

end TapkeeVerif.Spe
