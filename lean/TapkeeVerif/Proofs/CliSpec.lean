/-
C20 — vocabulary of the hand-written SPEC TABLE (the table itself is in `Props/C20.lean`) and the decidable
checkers that compare a generated table with it.  No Mathlib needed.
-/
import TapkeeVerif.Model.Cli

namespace TapkeeVerif.Cli
open TapkeeVerif.Gen.Cli

/-- how an option determines the keyword it sets -/
inductive How where
  /-- the keyword receives the option's value, parsed as `ty` -/
  | value (ty : Ty)
  /-- the keyword receives `MAP[value]` -/
  | named (map : String)
  /-- a flag: present ⇒ `true`, absent ⇒ `false` -/
  | flagTrue
  /-- a flag: present ⇒ `false`, absent ⇒ `true` -/
  | flagFalse
  deriving DecidableEq, Repr

/-- what the help text says an option is for -/
inductive Role where
  /-- sets the library keyword `keyword` -/
  | param (keyword : String) (how : How)
  | inFile | outFile | projMatrixFile | projMeanFile
  | delimiter
  | transposeIn | transposeOut
  /-- switches a logging level on -/
  | logging (effect : String)
  /-- prints the usage and stops -/
  | help
  /-- influences no library parameter at all (`--precompute`: "changes nothing but speed") -/
  | noKeyword
  deriving DecidableEq, Repr

structure SpecRow where
  option : String
  role : Role
  deriving DecidableEq, Repr

/-- the options an expression mentions -/
def Expr.opts : Expr → List String
  | .count o => [o]
  | .value o _ => [o]
  | .lookup _ e => e.opts
  | .lookupFails _ e => e.opts
  | .lit _ _ => []
  | .const _ => []
  | .not e => e.opts
  | .neg e => e.opts
  | .bin _ a b => a.opts ++ b.opts
  | .ite c a b => c.opts ++ a.opts ++ b.opts
  | .index0 e => e.opts
  | .field e _ => e.opts
  | .sym _ => []

/-- the truth value of a condition over one flag when that flag occurs `n` times -/
def flagTruth (opt : String) (e : Expr) (n : Nat) : Option Bool :=
  (eval cliOptions nameMaps {} [{ name := opt, count := n, value := "" }] e).truthy

/-- classification of a wired expression: the single option it depends on and how (semantic for flags: the expression
    is evaluated with the flag absent, given once, given twice) -/
def classify (e : Expr) : Option (String × How) :=
  match e with
  | .value o ty => some (o, .value ty)
  | .lookup m (.value o .str) => some (o, .named m)
  | e =>
    match e.opts.eraseDups with
    | [o] =>
      match flagTruth o e 0, flagTruth o e 1, flagTruth o e 2 with
      | some false, some true, some true => some (o, .flagTrue)
      | some true, some false, some false => some (o, .flagFalse)
      | _, _, _ => none
    | _ => none

def roleOf (spec : List SpecRow) (opt : String) : Option Role :=
  (spec.find? (fun r => r.option == opt)).map (·.role)

/-- one wiring row agrees with the spec: it depends on exactly one option, in the way and for the keyword the spec
    names — or on no option at all and then it is one of the listed constants -/
def rowOk (spec : List SpecRow) (consts : List (String × Expr)) (w : WireRow) : Bool :=
  match classify w.expr with
  | some (o, how) => roleOf spec o == some (.param w.keyword how)
  | none => w.expr.opts.isEmpty && consts.contains (w.keyword, w.expr)

/-- every `param` row of the spec has its wiring row -/
def specRowWired (wiring : List WireRow) (r : SpecRow) : Bool :=
  match r.role with
  | .param kw how => wiring.any (fun w => w.keyword == kw && classify w.expr == some (r.option, how))
  | _ => true

/-- the default of an option that selects by name is a name its map accepts -/
def namedDefaultOk (r : SpecRow) : Bool :=
  match r.role with
  | .param _ (.named m) => (lookupName nameMaps m (textOf cliOptions [] r.option)).isSome
  | _ => true

/-- the `with_default` literal of option `opt` equals (as a number) the default documented for the keyword it sets -/
def mirrorsLibraryDoc (spec : List SpecRow) (opt : String) : Bool :=
  match roleOf spec opt, optRow? cliOptions opt with
  | some (.param kw _), some r =>
    match libDocDefaults.lookup kw with
    | some doc => doc != "" && (parseNum r.default.toList).isSome && parseNum r.default.toList == parseNum doc.toList
    | none => false
  | _, _ => false

/-- a guard with condition `c` and a non-zero exit code is reached before any data is touched: it is preceded only by
    other non-zero guards, logging effects and stream openings -/
def reachesGuard (c : Expr) : List Step → Bool
  | [] => false
  | .guard g :: rest => g.exit != 0 && (g.cond == c || reachesGuard c rest)
  | .effect _ _ :: rest => reachesGuard c rest
  | .openIn _ :: rest => reachesGuard c rest
  | .openOut _ :: rest => reachesGuard c rest
  | _ => false

/-- the steps after the guards: what is done with the data, in order (guards, effects and opens dropped) -/
def dataSteps : List Step → List Step
  | [] => []
  | .guard g :: rest => if g.cond.opts.isEmpty then .guard g :: dataSteps rest else dataSteps rest
  | .effect _ _ :: rest => dataSteps rest
  | .openIn _ :: rest => dataSteps rest
  | .openOut _ :: rest => dataSteps rest
  | s :: rest => s :: dataSteps rest

/-- steps that do not touch data: guards, logging effects, stream openings -/
def Step.isPre : Step → Bool
  | .guard _ => true
  | .effect _ _ => true
  | .openIn _ => true
  | .openOut _ => true
  | _ => false

/-- a step without the descriptive callback strings of the embed rows (those are documentation of the branch, not
    something the model interprets) -/
def Step.skeleton : Step → Step
  | .embed c p d _ _ _ => .embed c p d "" "" ""
  | s => s

/-- the data part of `run()`: everything from the first step that touches data -/
def dataPart (steps : List Step) : List Step := (steps.dropWhile Step.isPre).map Step.skeleton

/-- `read_data` is reached with only non-zero guards, logging effects and stream openings before it -/
def reachesRead (f d : Expr) : List Step → Bool
  | [] => false
  | .guard g :: rest => g.exit != 0 && reachesRead f d rest
  | .effect _ _ :: rest => reachesRead f d rest
  | .openIn _ :: rest => reachesRead f d rest
  | .openOut _ :: rest => reachesRead f d rest
  | .readData c t f' d' :: _ => c == .lit .flag "true" && t == "input" && f' == f && d' == d
  | _ => false

/-- a transposition step touches the input matrix or the embedding, nothing else (not the projection matrix) -/
def transposeTargetOk : Step → Bool
  | .transpose _ t => t == "input" || t == "output.embedding"
  | _ => true

/-- an embed step passes THE parameter set built by `tapkee::kwargs[…]` -/
def embedParamsOk : Step → Bool
  | .embed _ p _ _ _ _ => p == "parameters"
  | _ => true

/-- the D × N matrix the library receives, from the matrix F whose rows are the lines of the file -/
def libraryInput {α} (transposeInputGiven : Bool) (F : DMat α) : DMat α :=
  if transposeInputGiven then F else F.transpose

/-- the matrix written to the output file, from the N × d embedding the library returns -/
def writtenOutput {α} (transposeOutputGiven : Bool) (E : DMat α) : DMat α :=
  if transposeOutputGiven then E.transpose else E

/-! ## guards, semantically -/

/-- the bad-input predicate a guard tests (what the property text names), independent of how it is spelled -/
inductive Atom where
  /-- the option's text is not a key of the map -/
  | unknownName (map opt : String)
  /-- the option's `int` value is `< n` -/
  | intLt (opt : String) (n : Int)
  /-- the option's `double` value is `< q` -/
  | dblLt (opt : String) (q : Rat)
  deriving DecidableEq, Repr

def flipOp : BinOp → Option BinOp
  | .lt => some .gt | .le => some .ge | .gt => some .lt | .ge => some .le | _ => none

def negOp : BinOp → Option BinOp
  | .lt => some .ge | .le => some .gt | .gt => some .le | .ge => some .lt | _ => none

def isOrdOp : BinOp → Bool
  | .lt | .le | .gt | .ge => true
  | _ => false

/-- a comparison `value(opt) ⋈ literal` brought to the form "option on the left, not negated":
    `x ⋈ c`, `c ⋈ x` (flipped), `!(…)` (negated), any nesting of `!` -/
def cmpNorm : Expr → Option (BinOp × String × Ty × String)
  | .bin op (.value o ty) (.lit ty' s) =>
    if ty = ty' ∧ (ty = .int ∨ ty = .dbl) ∧ isOrdOp op = true then some (op, o, ty, s) else none
  | .bin op (.lit ty' s) (.value o ty) =>
    if ty = ty' ∧ (ty = .int ∨ ty = .dbl) then (flipOp op).map (fun op' => (op', o, ty, s)) else none
  | .not e =>
    match cmpNorm e with
    | some (op, o, ty, s) => (negOp op).map (fun op' => (op', o, ty, s))
    | none => none
  | _ => none

/-- `x < n`, and for integers `x ≤ n` (= `x < n+1`), as "below" atoms -/
def atomOfCmp (c : BinOp × String × Ty × String) : Option Atom :=
  match c with
  | (.lt, o, .int, s) => (parseIntCxx s.toList).map (fun n => Atom.intLt o n)
  | (.le, o, .int, s) => (parseIntCxx s.toList).map (fun n => Atom.intLt o (n + 1))
  | (.lt, o, .dbl, s) => (parseNum s.toList).map (fun q => Atom.dblLt o q)
  | _ => none

def leafAtom? (e : Expr) : Option (List Atom) :=
  match e with
  | .lookupFails m (.value o .str) => some [Atom.unknownName m o]
  | e => (cmpNorm e).bind (fun c => (atomOfCmp c).map (fun a => [a]))

/-- the atoms a guard condition is a disjunction of; `none` if some part of it is not understood -/
def atomsOf? : Expr → Option (List Atom)
  | .bin .or a b =>
    match atomsOf? a, atomsOf? b with
    | some x, some y => some (x ++ y)
    | _, _ => none
  | e => leafAtom? e

def guardHasAtom (a : Atom) (g : GuardRow) : Bool :=
  match atomsOf? g.cond with
  | some as => as.contains a
  | none => false

/-- a non-zero guard testing (at least) the bad-input predicate `a` is reached before any data is touched -/
def reachesAtom (a : Atom) : List Step → Bool
  | [] => false
  | .guard g :: rest => g.exit != 0 && (guardHasAtom a g || reachesAtom a rest)
  | .effect _ _ :: rest => reachesAtom a rest
  | .openIn _ :: rest => reachesAtom a rest
  | .openOut _ :: rest => reachesAtom a rest
  | _ => false

/-- every guard before the data is read is `--help` or a disjunction of spec atoms: nothing else makes the program
    stop early (no over-rejection) -/
def preGuardOk (spec : List Atom) : Step → Bool
  | .guard g =>
    g.cond == .count "help" ||
      (match atomsOf? g.cond with
       | some as => as.all spec.contains
       | none => false)
  | _ => true

/-! ## conditions of data steps, semantically -/

/-- the flags and run-time facts the conditions of the data steps may depend on -/
structure Assign where
  tin : Bool
  tout : Bool
  pre : Bool
  pmat : Bool
  pmean : Bool
  hasProj : Bool
  castOk : Bool
  deriving DecidableEq, Repr

def bools : List Bool := [false, true]

def allAssign : List Assign :=
  bools.flatMap fun a => bools.flatMap fun b => bools.flatMap fun c => bools.flatMap fun d =>
  bools.flatMap fun e => bools.flatMap fun f => bools.map fun g => ⟨a, b, c, d, e, f, g⟩

def Assign.flag (a : Assign) (opt : String) : Option Bool :=
  if opt == "transpose-input" then some a.tin
  else if opt == "transpose-output" then some a.tout
  else if opt == "precompute" then some a.pre
  else if opt == "output-projection-matrix-file" then some a.pmat
  else if opt == "output-projection-mean-file" then some a.pmean
  else none

/-- `opt.count(X) ⋈ literal` as a test of presence (`some true`) or absence (`some false`) of the flag; `none` if the
    comparison is not a function of presence alone (e.g. `count > 1`) -/
def countCmp (op : BinOp) (s : String) : Option Bool :=
  if s == "0" then
    (match op with
     | .gt => some true | .ne => some true | .eq => some false | .le => some false | _ => none)
  else if s == "1" then
    (match op with
     | .ge => some true | .lt => some false | _ => none)
  else none

/-- truth value of a condition built from `count` (also `count > 0`, `== 0`, `!= 0`, `<= 0`, `>= 1`, `< 1`), run-time
    symbols, `true/false`, `!`, `&&`, `||`, `?:` as a function of WHICH flags are present (not how often) -/
def evalA (a : Assign) : Expr → Option Bool
  | .count x => a.flag x
  | .sym n =>
    if n == "output.projection.implementation" then some a.hasProj
    else if n == "projection" then some a.castOk
    else none
  | .lit .flag s => if s == "true" then some true else if s == "false" then some false else none
  | .not e => (evalA a e).map (!·)
  | .bin .and x y =>
    match evalA a x, evalA a y with
    | some p, some q => some (p && q)
    | some false, _ => some false
    | _, _ => none
  | .bin .or x y =>
    match evalA a x, evalA a y with
    | some p, some q => some (p || q)
    | some true, _ => some true
    | _, _ => none
  | .bin op (.count x) (.lit .int s) =>
    match countCmp op s, a.flag x with
    | some pol, some f => some (if pol then f else !f)
    | _, _ => none
  | .ite c x y =>
    match evalA a c with
    | some true => evalA a x
    | some false => evalA a y
    | none => none
  | _ => none

/-- the truth table of a condition over all assignments -/
def tableOf (e : Expr) : List (Option Bool) := allAssign.map (fun a => evalA a e)

/-- the truth table of a spec predicate -/
def tableOfPred (p : Assign → Bool) : List (Option Bool) := allAssign.map (fun a => some (p a))

/-- what a data step does, with its condition as a truth table and its streams as the options that name them;
    the descriptive spellings of the generated rows are dropped -/
inductive SemStep where
  | read (fileOpt delimOpt : String) (table : List (Option Bool))
  | transpose (target : String) (table : List (Option Bool))
  /-- `direct` = embedUsing(input) (false: the precomputed-callback branch over the same input); `kernel`, `distance`,
      `features` = what reaches the three callback slots, as the translator's canonical descriptors (`kernel(input)` =
      eigen_kernel_callback over the input matrix; `precomputed_distance[needs_distance ? distance(input)]` =
      precomputed_distance_callback over the matrix filled from eigen_distance_callback(input) iff the method needs it) -/
  | embed (direct : Bool) (params : String) (kernel distance features : String) (table : List (Option Bool))
  | writeMatrix (what fileOpt delimOpt : String) (table : List (Option Bool))
  | writeVector (what fileOpt : String) (table : List (Option Bool))
  | guard (exit : Nat) (table : List (Option Bool))
  | ret (n : Nat)
  | other
  deriving DecidableEq, Repr

def fileOpt? : Expr → Option String
  | .value o .str => some o
  | _ => none

def delimOpt? : Expr → Option String
  | .index0 (.value o .str) => some o
  | _ => none

def Step.sem : Step → SemStep
  | .readData c t f d =>
    match fileOpt? f, delimOpt? d with
    | some fo, some dopt => if t == "input" then .read fo dopt (tableOf c) else .other
    | _, _ => .other
  | .transpose c t => .transpose t (tableOf c)
  | .embed c p d k ds f => .embed (d == "input") p k ds f (tableOf c)
  | .writeMatrix c w f d =>
    match fileOpt? f, delimOpt? d with
    | some fo, some dopt => .writeMatrix w fo dopt (tableOf c)
    | _, _ => .other
  | .writeVector c w f =>
    match fileOpt? f with
    | some fo => .writeVector w fo (tableOf c)
    | none => .other
  | .guard g => .guard g.exit (tableOf g.cond)
  | .ret n => .ret n
  | _ => .other

/-- a write step is one of the three the property knows: the embedding (always, to --output-file), the projection
    matrix and the mean (under a condition with truth table `projTable`, to the files of their options); matrices with
    the delimiter option -/
def writeStepOk (projTable : List (Option Bool)) : Step → Bool
  | .writeMatrix c w f d =>
    delimOpt? d == some "delimiter" &&
      ((w == "output.embedding" && fileOpt? f == some "output-file" && tableOf c == tableOfPred (fun _ => true)) ||
       (w == "projection.proj_mat" && fileOpt? f == some "output-projection-matrix-file" && tableOf c == projTable))
  | .writeVector c w f =>
    w == "projection.mean_vec" && fileOpt? f == some "output-projection-mean-file" && tableOf c == projTable
  | _ => true

/-- the data part of run() as semantic steps -/
def semDataPart (steps : List Step) : List SemStep := (steps.dropWhile Step.isPre).map Step.sem

/-- same elements, any order -/
def sameSet (xs ys : List SemStep) : Bool := xs.all ys.contains && ys.all xs.contains && xs.length == ys.length

end TapkeeVerif.Cli
