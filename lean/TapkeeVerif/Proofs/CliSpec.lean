/-
C20 — vocabulary of the hand-written SPEC TABLE (the table itself is in `Props/C20.lean`) and the decidable
checkers that compare a generated table with it.  No Mathlib needed.
-/
import TapkeeVerif.Model.Cli

namespace TapkeeVerif.Cli
open TapkeeVerif.Gen.Cli

/-- how an option determines the keyword it sets -/
inductive How where
  /-- the keyword receives the option's value, parsed as `ty` -/
  | value (ty : Ty)
  /-- the keyword receives `MAP[value]` -/
  | named (map : String)
  /-- a flag: present ⇒ `true`, absent ⇒ `false` -/
  | flagTrue
  /-- a flag: present ⇒ `false`, absent ⇒ `true` -/
  | flagFalse
  deriving DecidableEq, Repr

/-- what the help text says an option is for -/
inductive Role where
  /-- sets the library keyword `keyword` -/
  | param (keyword : String) (how : How)
  | inFile | outFile | projMatrixFile | projMeanFile
  | delimiter
  | transposeIn | transposeOut
  /-- switches a logging level on -/
  | logging (effect : String)
  /-- prints the usage and stops -/
  | help
  /-- influences no library parameter at all (`--precompute`: "changes nothing but speed") -/
  | noKeyword
  deriving DecidableEq, Repr

structure SpecRow where
  option : String
  role : Role
  deriving DecidableEq, Repr

/-- the options an expression mentions -/
def Expr.opts : Expr → List String
  | .count o => [o]
  | .value o _ => [o]
  | .lookup _ e => e.opts
  | .lookupFails _ e => e.opts
  | .lit _ _ => []
  | .const _ => []
  | .not e => e.opts
  | .neg e => e.opts
  | .bin _ a b => a.opts ++ b.opts
  | .ite c a b => c.opts ++ a.opts ++ b.opts
  | .index0 e => e.opts
  | .field e _ => e.opts
  | .sym _ => []

/-- the truth value of a condition over one flag when that flag occurs `n` times -/
def flagTruth (opt : String) (e : Expr) (n : Nat) : Option Bool :=
  (eval cliOptions nameMaps {} [{ name := opt, count := n, value := "" }] e).truthy

/-- classification of a wired expression: the single option it depends on and how (semantic for flags: the expression
    is evaluated with the flag absent, given once, given twice) -/
def classify (e : Expr) : Option (String × How) :=
  match e with
  | .value o ty => some (o, .value ty)
  | .lookup m (.value o .str) => some (o, .named m)
  | e =>
    match e.opts.eraseDups with
    | [o] =>
      match flagTruth o e 0, flagTruth o e 1, flagTruth o e 2 with
      | some false, some true, some true => some (o, .flagTrue)
      | some true, some false, some false => some (o, .flagFalse)
      | _, _, _ => none
    | _ => none

def roleOf (spec : List SpecRow) (opt : String) : Option Role :=
  (spec.find? (fun r => r.option == opt)).map (·.role)

/-- one wiring row agrees with the spec: it depends on exactly one option, in the way and for the keyword the spec
    names — or on no option at all and then it is one of the listed constants -/
def rowOk (spec : List SpecRow) (consts : List (String × Expr)) (w : WireRow) : Bool :=
  match classify w.expr with
  | some (o, how) => roleOf spec o == some (.param w.keyword how)
  | none => w.expr.opts.isEmpty && consts.contains (w.keyword, w.expr)

/-- every `param` row of the spec has its wiring row -/
def specRowWired (wiring : List WireRow) (r : SpecRow) : Bool :=
  match r.role with
  | .param kw how => wiring.any (fun w => w.keyword == kw && classify w.expr == some (r.option, how))
  | _ => true

/-- the default of an option that selects by name is a name its map accepts -/
def namedDefaultOk (r : SpecRow) : Bool :=
  match r.role with
  | .param _ (.named m) => (lookupName nameMaps m (textOf cliOptions [] r.option)).isSome
  | _ => true

/-- a guard with condition `c` and a non-zero exit code is reached before any data is touched: it is preceded only by
    other non-zero guards, logging effects and stream openings -/
def reachesGuard (c : Expr) : List Step → Bool
  | [] => false
  | .guard g :: rest => g.exit != 0 && (g.cond == c || reachesGuard c rest)
  | .effect _ _ :: rest => reachesGuard c rest
  | .openIn _ :: rest => reachesGuard c rest
  | .openOut _ :: rest => reachesGuard c rest
  | _ => false

/-- the steps after the guards: what is done with the data, in order (guards, effects and opens dropped) -/
def dataSteps : List Step → List Step
  | [] => []
  | .guard g :: rest => if g.cond.opts.isEmpty then .guard g :: dataSteps rest else dataSteps rest
  | .effect _ _ :: rest => dataSteps rest
  | .openIn _ :: rest => dataSteps rest
  | .openOut _ :: rest => dataSteps rest
  | s :: rest => s :: dataSteps rest

/-- steps that do not touch data: guards, logging effects, stream openings -/
def Step.isPre : Step → Bool
  | .guard _ => true
  | .effect _ _ => true
  | .openIn _ => true
  | .openOut _ => true
  | _ => false

/-- a step without the descriptive callback strings of the embed rows (those are documentation of the branch, not
    something the model interprets) -/
def Step.skeleton : Step → Step
  | .embed c p d _ _ _ => .embed c p d "" "" ""
  | s => s

/-- the data part of `run()`: everything from the first step that touches data -/
def dataPart (steps : List Step) : List Step := (steps.dropWhile Step.isPre).map Step.skeleton

/-- `read_data` is reached with only non-zero guards, logging effects and stream openings before it -/
def reachesRead (f d : Expr) : List Step → Bool
  | [] => false
  | .guard g :: rest => g.exit != 0 && reachesRead f d rest
  | .effect _ _ :: rest => reachesRead f d rest
  | .openIn _ :: rest => reachesRead f d rest
  | .openOut _ :: rest => reachesRead f d rest
  | .readData c t f' d' :: _ => c == .lit .flag "true" && t == "input" && f' == f && d' == d
  | _ => false

/-- a transposition step touches the input matrix or the embedding, nothing else (not the projection matrix) -/
def transposeTargetOk : Step → Bool
  | .transpose _ t => t == "input" || t == "output.embedding"
  | _ => true

/-- an embed step passes THE parameter set built by `tapkee::kwargs[…]` -/
def embedParamsOk : Step → Bool
  | .embed _ p _ _ _ _ => p == "parameters"
  | _ => true

/-- the D × N matrix the library receives, from the matrix F whose rows are the lines of the file -/
def libraryInput {α} (transposeInputGiven : Bool) (F : DMat α) : DMat α :=
  if transposeInputGiven then F else F.transpose

/-- the matrix written to the output file, from the N × d embedding the library returns -/
def writtenOutput {α} (transposeOutputGiven : Bool) (E : DMat α) : DMat α :=
  if transposeOutputGiven then E.transpose else E

end TapkeeVerif.Cli
