import TapkeeVerif.Proofs.TsneCsrPlace
/-!
C17, CSR symmetriser, part 2: stable bucket placement.

`placeAll` of a list of triples `(row, col, val)` into segments `[S r, S (r+1))`, `S = symRowOf rc`, succeeds — **every write
is in bounds** — as soon as no row receives more triples than `rc` counts for it; afterwards the `j`-th triple of row `r`
sits at `S r + j`, and nothing else was touched.
-/
namespace TapkeeVerif.Tsne

variable {K : Type} [Field K]

/-- the `(col, val)` pairs of the triples of row `r`, in order -/
def rowList (xs : List (Nat × Nat × K)) (r : Nat) : List (Nat × K) :=
  (xs.filter fun x => x.1 = r).map (·.2)

theorem rowList_cons_self (x : Nat × Nat × K) (xs : List (Nat × Nat × K)) :
    rowList (x :: xs) x.1 = x.2 :: rowList xs x.1 := by
  simp [rowList]

theorem rowList_cons_ne (x : Nat × Nat × K) (xs : List (Nat × Nat × K)) {r : Nat} (h : x.1 ≠ r) :
    rowList (x :: xs) r = rowList xs r := by
  simp [rowList, h]

/-! ### prefix sums -/

theorem symRowOf_succ (rc : Nat → Nat) (n : Nat) : symRowOf rc (n + 1) = symRowOf rc n + rc n := rfl

theorem symRowOf_mono (rc : Nat → Nat) : ∀ {a b : Nat}, a ≤ b → symRowOf rc a ≤ symRowOf rc b := by
  intro a b h
  induction b with
  | zero => have : a = 0 := by omega
            subst this; exact Nat.le_refl _
  | succ b ih =>
    by_cases hab : a = b + 1
    · subst hab; exact Nat.le_refl _
    · have := ih (by omega)
      rw [symRowOf_succ]; omega

/-- two different slots of the segments are different positions -/
theorem slot_ne (rc : Nat → Nat) {r r' a b : Nat} (ha : a < rc r) (hb : b < rc r') (h : (r, a) ≠ (r', b)) :
    symRowOf rc r + a ≠ symRowOf rc r' + b := by
  intro he
  rcases Nat.lt_trichotomy r r' with hlt | heq | hgt
  · have := symRowOf_mono rc (show r + 1 ≤ r' by omega)
    rw [symRowOf_succ] at this; omega
  · subst heq
    have : a = b := by omega
    subst this; exact h rfl
  · have := symRowOf_mono rc (show r' + 1 ≤ r by omega)
    rw [symRowOf_succ] at this; omega

/-- every position below `S N` is a slot of a row `< N` -/
theorem slot_cover (rc : Nat → Nat) : ∀ (N p : Nat), p < symRowOf rc N → ∃ r < N, ∃ j < rc r, p = symRowOf rc r + j := by
  intro N
  induction N with
  | zero => intro p hp; simp [symRowOf] at hp
  | succ N ih =>
    intro p hp
    rw [symRowOf_succ] at hp
    by_cases h : p < symRowOf rc N
    · obtain ⟨r, hr, j, hj, he⟩ := ih p h
      exact ⟨r, by omega, j, hj, he⟩
    · exact ⟨N, by omega, p - symRowOf rc N, by omega, by omega⟩

/-! ### placement -/

theorem place_ok (S : Nat → Nat) (st : SymSt K) (x : Nat × Nat × K) (h : S x.1 + st.off x.1 < st.mem.size) :
    place S st x = .ok ⟨⟨st.mem.size, fun j => if j = S x.1 + st.off x.1 then some x.2 else st.mem.get j⟩,
      inc st.off x.1⟩ := by
  unfold place
  rw [put_ok S st x.1 x.2.1 x.2.2 h]

/-- the bucket lemma (see the file header) -/
theorem placeAll_spec (rc : Nat → Nat) (N : Nat) : ∀ (xs : List (Nat × Nat × K)) (st : SymSt K),
    st.mem.size = symRowOf rc N → (∀ x ∈ xs, x.1 < N) →
    (∀ r < N, st.off r + (rowList xs r).length ≤ rc r) →
    ∃ st', placeAll (symRowOf rc) st xs = .ok st' ∧ st'.mem.size = st.mem.size ∧
      (∀ r, st'.off r = st.off r + (rowList xs r).length) ∧
      (∀ r < N, ∀ j (y : Nat × K), (rowList xs r)[j]? = some y →
        st'.mem.get (symRowOf rc r + (st.off r + j)) = some y) ∧
      (∀ p, (∀ r < N, ∀ j < (rowList xs r).length, p ≠ symRowOf rc r + (st.off r + j)) →
        st'.mem.get p = st.mem.get p) := by
  intro xs
  induction xs with
  | nil =>
    intro st _ _ _
    exact ⟨st, rfl, rfl, fun r => by simp [rowList], fun r _ j y h => by simp [rowList] at h, fun p _ => rfl⟩
  | cons x xs ih =>
    intro st hsize hrows hcap
    have hx : x.1 < N := hrows x (by simp)
    have hcapx := hcap x.1 hx
    rw [rowList_cons_self, List.length_cons] at hcapx
    have hslot : st.off x.1 < rc x.1 := by omega
    have hpos : symRowOf rc x.1 + st.off x.1 < st.mem.size := by
      rw [hsize]
      have := symRowOf_mono rc (show x.1 + 1 ≤ N by omega)
      rw [symRowOf_succ] at this; omega
    -- the state after the first placement
    set st1 : SymSt K := ⟨⟨st.mem.size, fun j => if j = symRowOf rc x.1 + st.off x.1 then some x.2 else st.mem.get j⟩,
      inc st.off x.1⟩ with hst1
    have hcap1 : ∀ r < N, st1.off r + (rowList xs r).length ≤ rc r := by
      intro r hr
      by_cases hrx : r = x.1
      · subst hrx
        simp only [hst1, inc_self]; omega
      · have := hcap r hr
        rw [rowList_cons_ne x xs (Ne.symm hrx)] at this
        simp only [hst1, inc_ne _ hrx]; exact this
    obtain ⟨st', hrun, hsz, hoff, hcont, hother⟩ := ih st1 (by simp [hst1, hsize]) (fun y hy => hrows y (by simp [hy])) hcap1
    refine ⟨st', ?_, ?_, ?_, ?_, ?_⟩
    · unfold placeAll at hrun ⊢
      rw [List.foldlM_cons, place_ok (symRowOf rc) st x hpos]
      exact hrun
    · rw [hsz]
    · intro r
      rw [hoff r]
      by_cases hrx : r = x.1
      · subst hrx
        rw [rowList_cons_self, List.length_cons]
        simp only [hst1, inc_self]; omega
      · rw [rowList_cons_ne x xs (Ne.symm hrx)]
        simp only [hst1, inc_ne _ hrx]
    · intro r hr j y hy
      by_cases hrx : r = x.1
      · subst hrx
        rw [rowList_cons_self] at hy
        cases j with
        | zero =>
          simp only [List.getElem?_cons_zero, Option.some.injEq] at hy
          -- the slot written first is not touched by the later placements
          rw [hother _ (by
            intro r' hr' j' hj'
            by_cases hr'x : r' = x.1
            · subst hr'x
              simp only [hst1, inc_self]; omega
            · have hb : st.off r' + j' < rc r' := by
                have := hcap1 r' hr'
                simp only [hst1, inc_ne _ hr'x] at this
                omega
              simp only [hst1, inc_ne _ hr'x]
              have := slot_ne rc hslot hb (by intro he; exact hr'x (by injection he with h1 _; exact h1.symm))
              omega)]
          simp [hst1, hy]
        | succ j =>
          simp only [List.getElem?_cons_succ] at hy
          have := hcont x.1 hr j y hy
          simp only [hst1, inc_self] at this
          rw [← this]; congr 1; omega
      · rw [rowList_cons_ne x xs (Ne.symm hrx)] at hy
        have := hcont r hr j y hy
        simp only [hst1, inc_ne _ hrx] at this
        exact this
    · intro p hp
      rw [hother p (by
        intro r hr j hj
        by_cases hrx : r = x.1
        · subst hrx
          have := hp x.1 hr (j + 1) (by rw [rowList_cons_self, List.length_cons]; omega)
          simp only [hst1, inc_self]; omega
        · have := hp r hr j (by rw [rowList_cons_ne x xs (Ne.symm hrx)]; exact hj)
          simp only [hst1, inc_ne _ hrx]; exact this)]
      have hne : p ≠ symRowOf rc x.1 + st.off x.1 := by
        have := hp x.1 hx 0 (by rw [rowList_cons_self, List.length_cons]; omega)
        omega
      simp [hst1, hne]

end TapkeeVerif.Tsne
