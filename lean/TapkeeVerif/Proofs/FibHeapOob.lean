import TapkeeVerif.Proofs.FibHeapFib
import TapkeeVerif.Proofs.FibHeapRefine
/-! `consolidate` never indexes its array `A` at or beyond its size `Dn`; fuel adequacy of `carry`
    (property C16). -/
namespace TapkeeVerif.FibHeap

/-! ### fuel adequacy of `carry` -/

/-- With fuel `> a.length - d` (the model passes `a.length + 1`), `carry` returns `none` exactly
    when the `while (A[d] != NULL)` loop runs off the end of the array: every slot from `d` to the
    end is occupied.  So `none` always means "index out of bounds", never "fuel exhausted". -/
theorem carry_none_iff_oob (fuel : Nat) (a : Slots) (x : Tr) (d : Nat) (hf : a.length < fuel + d) :
    carry fuel a x d = none ↔ ∀ j, d ≤ j → j < a.length → ∃ y, a[j]? = some (some y) := by
  fun_induction carry fuel a x d
  case case1 a x d =>
    simp only [true_iff]; intro j h1 h2; omega
  case case2 fuel a x d hg =>
    simp only [true_iff]; intro j h1 h2
    simp only [slotGet, List.getElem?_eq_none_iff] at hg; omega
  case case3 fuel a x d hg =>
    simp only [reduceCtorEq, false_iff]
    intro h
    simp only [slotGet] at hg
    have hd : d < a.length := by
      apply Nat.lt_of_not_le; intro hle
      rw [List.getElem?_eq_none_iff.2 hle] at hg; cases hg
    obtain ⟨y, hy⟩ := h d (Nat.le_refl _) hd
    rw [hy] at hg; cases hg
  case case4 fuel a x d y hg y' x' hyx ih =>
    rw [ih (by simp [slotSet]; omega)]
    simp only [slotGet] at hg
    constructor
    · intro h j h1 h2
      by_cases hj : j = d
      · subst hj; exact ⟨y, hg⟩
      · have := h j (by omega) (by simpa [slotSet] using h2)
        simpa [slotSet, List.getElem?_set, Ne.symm hj] using this
    · intro h j h1 h2
      have hj : d ≠ j := by omega
      have := h j (by omega) (by simpa [slotSet] using h2)
      simpa [slotSet, List.getElem?_set, hj] using this

/-! ### the degree bound keeps `carry` inside the array -/

theorem carry_ne_none (cap fuel : Nat) (a : Slots) (x : Tr) (d : Nat) (ha : SlotsOK a) (hx : x.Good)
    (hd : x.rank = d) (hsz : (slotsE a).length + x.entries.length ≤ cap)
    (hcap : cap < fib (a.length + 2)) (hf : a.length < fuel + d) : carry fuel a x d ≠ none := by
  have hdlt : ∀ {x : Tr} {d : Nat}, x.Good → x.rank = d → x.entries.length ≤ cap → d < a.length := by
    intro x d hx hd hsz
    have h1 := hx.size_bound
    rw [hd] at h1
    have : d + 2 < a.length + 2 := lt_of_fib_lt (by omega)
    omega
  fun_induction carry fuel a x d
  case case1 a x d => have := hdlt hx hd (by omega); omega
  case case2 fuel a x d hg =>
    have := hdlt hx hd (by omega)
    simp only [slotGet, List.getElem?_eq_none_iff] at hg; omega
  case case3 => simp
  case case4 fuel a x d y hg y' x' hyx ih =>
    have hy := ha d y hg
    have hset : SlotsOK (slotSet a d none) := ha.set d (by intro t ht; simp at ht)
    have hp := (slotsE_set (a := a) (d := d) (o := some y) hg none).length_eq
    simp only [optE, List.append_nil, List.length_append] at hp
    have hlen : (slotSet a d none).length = a.length := by simp [slotSet]
    by_cases hlt : y.key < x.key
    · simp only [hlt, if_true, Prod.mk.injEq] at hyx
      obtain ⟨rfl, rfl⟩ := hyx
      have hl : (link x y).Good := link_good hy.2 hx (by omega) (by omega)
      have he := (link_entries x y).length_eq
      simp only [List.length_append] at he
      apply ih hset hl (by simp; omega) (by simp only [slotSet] at hp ⊢; omega) (by rw [hlen]; exact hcap)
        (by rw [hlen]; omega)
      intro x' d' h1 h2 h3; rw [hlen]; exact hdlt h1 h2 h3
    · simp only [hlt, if_false, Prod.mk.injEq] at hyx
      obtain ⟨rfl, rfl⟩ := hyx
      have hl : (link y x).Good := link_good hx hy.2 (by omega) (by omega)
      have he := (link_entries y x).length_eq
      simp only [List.length_append] at he
      apply ih hset hl (by simp; omega) (by simp only [slotSet] at hp ⊢; omega) (by rw [hlen]; exact hcap)
        (by rw [hlen]; omega)
      intro x' d' h1 h2 h3; rw [hlen]; exact hdlt h1 h2 h3

theorem consolidateLoop_ne_none (cap : Nat) (roots : List Tr) (a : Slots) (ha : SlotsOK a)
    (hr : ∀ t ∈ roots, t.Good) (hsz : (slotsE a).length + (entriesL roots).length ≤ cap)
    (hcap : cap < fib (a.length + 2)) : consolidateLoop roots a ≠ none := by
  induction roots generalizing a with
  | nil => simp [consolidateLoop]
  | cons x ws ih =>
    have hx := hr x (by simp)
    have hxl : (entriesL (x :: ws)).length = x.entries.length + (entriesL ws).length := by
      simp [Tr.entries]; omega
    simp only [consolidateLoop]
    cases hc : carry (a.length + 1) a x x.rank with
    | none =>
      exact absurd hc (carry_ne_none cap _ a x x.rank ha hx rfl (by omega) hcap (by omega))
    | some a1 =>
      obtain ⟨c1, c2, c3⟩ := carry_spec _ a x x.rank a1 ha hx rfl hc
      have := c3.length_eq
      simp only [List.length_append] at this
      exact ih a1 c1 (fun t ht => hr t (by simp [ht])) (by omega) (by rw [c2]; exact hcap)

theorem consolidate_ne_none (cap dn : Nat) (roots : List Tr) (hr : ∀ t ∈ roots, t.Good)
    (hsz : (entriesL roots).length ≤ cap) (hcap : cap < fib (dn + 2)) :
    consolidate dn roots ≠ none := by
  simp only [consolidate]
  cases hc : consolidateLoop roots (List.replicate dn none) with
  | none =>
    exact absurd hc (consolidateLoop_ne_none cap roots _ (slotsOK_replicate dn) hr
      (by simp [slotsE_replicate]; exact hsz) (by simpa using hcap))
  | some a => simp

/-- an invariant heap stores at most `capacity` nodes -/
theorem Inv.size_le_cap {h : Heap} (hinv : Inv h) : (entriesL h.roots).length ≤ h.cap := by
  have := length_le_of_nodup_lt h.cap _ hinv.nodup hinv.ltCap
  simpa [fsts] using this

theorem run_no_oob (cap dn : Nat) (hdn : cap < fib (dn + 2)) (ops : List Op) :
    run (Heap.init cap dn) ops ≠ .error .oob := by
  intro herr
  obtain ⟨_, h1, m, rs, hinv, hcap, hdn', hr, hc⟩ := run_error ops (inv_init cap dn) herr
  have hsz := hinv.size_le_cap
  have hE := (extractRest_entries hr).length_eq
  simp only [List.length_cons] at hE
  refine consolidate_ne_none cap h1.dn _ (extractRest_good hinv hr) ?_ ?_ hc
  · have : h1.cap = cap := hcap
    omega
  · have : h1.dn = dn := hdn'
    rw [this]; exact hdn

end TapkeeVerif.FibHeap
