import Mathlib.Algebra.BigOperators.Intervals
import Mathlib.Algebra.BigOperators.Field
import TapkeeVerif.Proofs.TsneCsrVal
/-!
C17, CSR symmetriser, part 7: the total mass is preserved (sum of the half sums over all `(n, m)`).
-/
namespace TapkeeVerif.Tsne
open Finset

variable {K : Type} [Field K]
set_option linter.unusedSectionVars false

theorem list_range_sum (f : Nat → K) : ∀ n, ((List.range n).map f).sum = ∑ i ∈ Finset.range n, f i := by
  intro n
  induction n with
  | zero => simp
  | succ n ih => rw [List.range_succ, List.map_append, List.sum_append, ih, Finset.sum_range_succ]; simp

/-- the row segments of a prefix-sum array tile `[0, T n)` -/
theorem segments_tile (T : Nat → Nat) (h0 : T 0 = 0) (f : Nat → K) : ∀ n, (∀ k < n, T k ≤ T (k + 1)) →
    ((List.range (T n)).map f).sum =
      ∑ r ∈ Finset.range n, ((List.range' (T r) (T (r + 1) - T r)).map f).sum := by
  intro n
  induction n with
  | zero => intro _; simp [h0]
  | succ n ih =>
    intro hm
    rw [Finset.sum_range_succ, ← ih fun k hk => hm k (by omega)]
    have hle := hm n (by omega)
    have : List.range (T (n + 1)) = List.range (T n) ++ List.range' (T n) (T (n + 1) - T n) := by
      rw [List.range_eq_range', List.range_eq_range']
      have := List.range'_append (s := 0) (m := T n) (n := T (n + 1) - T n) (step := 1)
      simp only [Nat.zero_add, Nat.one_mul] at this
      rw [this]; congr 1; omega
    rw [this, List.map_append, List.sum_append]

/-- a value whose column is below `N` is picked up by exactly one column index -/
theorem sum_cols (N : Nat) (col : Nat) (v : K) (h : col < N) :
    ∑ m ∈ Finset.range N, (if col = m then v else 0) = v := by
  rw [Finset.sum_ite_eq (Finset.range N) col fun _ => v]
  simp [h]

/-- a row of a CSR matrix sums to the sum of its entries over all columns (columns below `N`) -/
theorem row_sum_entries (N : Nat) (c : Csr K) (n : Nat)
    (hc : ∀ i ∈ List.range' (c.R n) (c.R (n + 1) - c.R n), c.C i < N) :
    ((List.range' (c.R n) (c.R (n + 1) - c.R n)).map c.V).sum = ∑ m ∈ Finset.range N, c.entry n m := by
  have : ∀ m, c.entry n m = ((List.range' (c.R n) (c.R (n + 1) - c.R n)).map fun i =>
      if c.C i = m then c.V i else 0).sum := fun m => entry_eq_sum c n m
  simp only [this]
  generalize List.range' (c.R n) (c.R (n + 1) - c.R n) = l at hc
  induction l with
  | nil => simp
  | cons i l ih =>
    simp only [List.map_cons, List.sum_cons, Finset.sum_add_distrib]
    rw [ih fun j hj => hc j (by simp [hj]), sum_cols N (c.C i) (c.V i) (hc i (by simp))]

/-- the total of a well-formed CSR matrix is the sum of its entries -/
theorem total_entries (N : Nat) (c : Csr K) (h : WFc N c) :
    ((List.range c.colP.size).map c.V).sum = ∑ n ∈ Finset.range N, ∑ m ∈ Finset.range N, c.entry n m := by
  rw [← h.last, segments_tile c.R h.zero c.V N h.mono]
  apply Finset.sum_congr rfl
  intro n hn
  rw [Finset.mem_range] at hn
  apply row_sum_entries
  intro i hi
  exact h.cols i (inRow_lt_size N c h hn ((mem_rowRange c n i).1 hi))

/-! ### part 2: the result is a well-formed CSR matrix, its total, normalisation -/

/-- rows and columns of the emitted triples are row indices -/
theorem emit_bounds (N : Nat) (c : Csr K) (h : WFc N c) {e : Nat × Nat} (he : e ∈ csrEntries N c) :
    ∀ x ∈ emit c e, x.1 < N ∧ x.2.1 < N := by
  have h1 : e.1 < N := ((mem_entries N c e).1 he).1
  have h2 : c.C e.2 < N := entry_col_lt N c h he
  intro x hx
  unfold emit at hx
  split at hx
  · simp only [List.mem_cons, List.not_mem_nil, or_false] at hx
    rcases hx with rfl | rfl <;> exact ⟨by assumption, by assumption⟩
  · split_ifs at hx with ha hb
    · simp only [List.mem_cons, List.not_mem_nil, or_false] at hx
      subst hx; exact ⟨h1, h1⟩
    · simp only [List.mem_cons, List.not_mem_nil, or_false] at hx
      rcases hx with rfl | rfl <;> exact ⟨by assumption, by assumption⟩
    · simp at hx

theorem rowList_col_lt (N : Nat) (c : Csr K) (h : WFc N c) (r : Nat) (y : Nat × K)
    (hy : y ∈ rowList (emissions N c) r) : y.1 < N := by
  unfold rowList emissions at hy
  simp only [List.mem_map, List.mem_filter, List.mem_flatMap, decide_eq_true_eq] at hy
  obtain ⟨x, ⟨⟨e, he, hx⟩, -⟩, rfl⟩ := hy
  exact (emit_bounds N c h he x hx).2

/-- the result of the symmetriser is a well-formed CSR matrix -/
theorem wfc_out (N : Nat) (c : Csr K) (hw : c.wellFormed N = true) (hd : DistinctCols N c) (out : Csr K)
    (hout : symmetrizeCsr N c = .ok out) : WFc N out := by
  obtain ⟨out', hout', hR, hcells, hs1, hs2⟩ := symmetrizeCsr_ok N c hw hd
  rw [hout] at hout'
  injection hout' with he
  subst he
  have h := wfc_of_wellFormed N c hw
  refine ⟨?_, ?_, ?_, ?_, ?_⟩
  · rw [hR 0 (by omega)]; rfl
  · intro n hn
    rw [hR n (by omega), hR (n + 1) (by omega), symRowOf_succ]; omega
  · rw [hR N (Nat.le_refl _), hs1]
  · rw [hs1, hs2]
  · intro i hi
    rw [hs1] at hi
    obtain ⟨r, hr, j, hj, rfl⟩ := slot_cover (rcOf N c) N i hi
    obtain ⟨y, hy, hC, -⟩ := hcells r hr j hj
    rw [hC]
    exact rowList_col_lt N c h r y (List.mem_of_getElem? hy)

theorem array_foldl_sum (a : Array K) :
    a.foldl (· + ·) 0 = ((List.range a.size).map fun i => a.getD i 0).sum := by
  have : (List.range a.size).map (fun i => a.getD i 0) = a.toList := by
    apply List.ext_getElem
    · simp
    · intro i h1 h2
      simp only [List.length_map, List.length_range] at h1
      simp [Array.getD, h1]
  rw [this, ← Array.foldl_toList, List.sum_eq_foldl]

/-- **the total of the result**: `Σ sym_val_P = (Σ val_P + Σ val_P) / 2` -/
theorem out_total (N : Nat) (c : Csr K) (hw : c.wellFormed N = true) (hd : DistinctCols N c) (out : Csr K)
    (hout : symmetrizeCsr N c = .ok out) :
    out.valP.foldl (· + ·) 0 =
      (c.valP.foldl (· + ·) 0 + c.valP.foldl (· + ·) 0) / ((Gen.TsneOps.symDivisor : Nat) : K) := by
  have hc := wfc_of_wellFormed N c hw
  have ho := wfc_out N c hw hd out hout
  rw [array_foldl_sum, array_foldl_sum, ← ho.vals, ← hc.vals]
  have e1 := total_entries N out ho
  have e2 := total_entries N c hc
  unfold Csr.V at e1 e2
  rw [e1, e2]
  have : ∑ n ∈ Finset.range N, ∑ m ∈ Finset.range N, out.entry n m =
      ∑ n ∈ Finset.range N, ∑ m ∈ Finset.range N,
        (c.entry n m + c.entry m n) / ((Gen.TsneOps.symDivisor : Nat) : K) := by
    apply Finset.sum_congr rfl; intro n hn
    apply Finset.sum_congr rfl; intro m hm
    exact out_half_sum N c hw hd out hout n m (Finset.mem_range.1 hn) (Finset.mem_range.1 hm)
  rw [this]
  simp only [← Finset.sum_div, Finset.sum_add_distrib]
  congr 2
  exact Finset.sum_comm

theorem list_sum_map_div {α : Type} (f : α → K) (s : K) : ∀ l : List α,
    (l.map fun i => f i / s).sum = (l.map f).sum / s := by
  intro l
  induction l with
  | nil => simp
  | cons a l ih => rw [List.map_cons, List.sum_cons, ih, List.map_cons, List.sum_cons, add_div]

theorem getD_map_div (a : Array K) (s : K) (i : Nat) : (a.map (· / s)).getD i 0 = a.getD i 0 / s := by
  by_cases h : i < a.size
  · simp [Array.getD, h]
  · simp [Array.getD, h]

/-- `val_P[i] /= Σ val_P`: the values then sum to one -/
theorem normalise_total (c : Csr K) (h : c.valP.foldl (· + ·) 0 ≠ 0) :
    c.normalise.valP.foldl (· + ·) 0 = 1 := by
  unfold Csr.normalise
  simp only
  rw [array_foldl_sum (c.valP.map _)]
  simp only [getD_map_div, Array.size_map]
  rw [list_sum_map_div (fun i => c.valP.getD i 0), ← array_foldl_sum, div_self h]

/-- … and every entry is divided by the total -/
theorem normalise_entry (c : Csr K) (n m : Nat) :
    c.normalise.entry n m = c.entry n m / c.valP.foldl (· + ·) 0 := by
  rw [entry_eq_sum, entry_eq_sum]
  unfold Csr.normalise Csr.R Csr.C Csr.V
  simp only [getD_map_div]
  exact sum_ite_div (fun i => c.colP.getD i 0 = m) (fun i => c.valP.getD i 0) _ _

end TapkeeVerif.Tsne
