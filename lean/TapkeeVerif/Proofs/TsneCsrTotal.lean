import Mathlib.Algebra.BigOperators.Intervals
import TapkeeVerif.Proofs.TsneCsrVal
/-!
C17, CSR symmetriser, part 7: the total mass is preserved (sum of the half sums over all `(n, m)`).
-/
namespace TapkeeVerif.Tsne
open Finset

variable {K : Type} [Field K]
set_option linter.unusedSectionVars false

theorem list_range_sum (f : Nat → K) : ∀ n, ((List.range n).map f).sum = ∑ i ∈ Finset.range n, f i := by
  intro n
  induction n with
  | zero => simp
  | succ n ih => rw [List.range_succ, List.map_append, List.sum_append, ih, Finset.sum_range_succ]; simp

/-- the row segments of a prefix-sum array tile `[0, T n)` -/
theorem segments_tile (T : Nat → Nat) (h0 : T 0 = 0) (f : Nat → K) : ∀ n, (∀ k < n, T k ≤ T (k + 1)) →
    ((List.range (T n)).map f).sum =
      ∑ r ∈ Finset.range n, ((List.range' (T r) (T (r + 1) - T r)).map f).sum := by
  intro n
  induction n with
  | zero => intro _; simp [h0]
  | succ n ih =>
    intro hm
    rw [Finset.sum_range_succ, ← ih fun k hk => hm k (by omega)]
    have hle := hm n (by omega)
    have : List.range (T (n + 1)) = List.range (T n) ++ List.range' (T n) (T (n + 1) - T n) := by
      rw [List.range_eq_range', List.range_eq_range']
      have := List.range'_append (s := 0) (m := T n) (n := T (n + 1) - T n) (step := 1)
      simp only [Nat.zero_add, Nat.one_mul] at this
      rw [this]; congr 1; omega
    rw [this, List.map_append, List.sum_append]

/-- a value whose column is below `N` is picked up by exactly one column index -/
theorem sum_cols (N : Nat) (col : Nat) (v : K) (h : col < N) :
    ∑ m ∈ Finset.range N, (if col = m then v else 0) = v := by
  rw [Finset.sum_ite_eq (Finset.range N) col fun _ => v]
  simp [h]

/-- a row of a CSR matrix sums to the sum of its entries over all columns (columns below `N`) -/
theorem row_sum_entries (N : Nat) (c : Csr K) (n : Nat)
    (hc : ∀ i ∈ List.range' (c.R n) (c.R (n + 1) - c.R n), c.C i < N) :
    ((List.range' (c.R n) (c.R (n + 1) - c.R n)).map c.V).sum = ∑ m ∈ Finset.range N, c.entry n m := by
  have : ∀ m, c.entry n m = ((List.range' (c.R n) (c.R (n + 1) - c.R n)).map fun i =>
      if c.C i = m then c.V i else 0).sum := fun m => entry_eq_sum c n m
  simp only [this]
  generalize List.range' (c.R n) (c.R (n + 1) - c.R n) = l at hc
  induction l with
  | nil => simp
  | cons i l ih =>
    simp only [List.map_cons, List.sum_cons, Finset.sum_add_distrib]
    rw [ih fun j hj => hc j (by simp [hj]), sum_cols N (c.C i) (c.V i) (hc i (by simp))]

/-- the total of a well-formed CSR matrix is the sum of its entries -/
theorem total_entries (N : Nat) (c : Csr K) (h : WFc N c) :
    ((List.range c.colP.size).map c.V).sum = ∑ n ∈ Finset.range N, ∑ m ∈ Finset.range N, c.entry n m := by
  rw [← h.last, segments_tile c.R h.zero c.V N h.mono]
  apply Finset.sum_congr rfl
  intro n hn
  rw [Finset.mem_range] at hn
  apply row_sum_entries
  intro i hi
  exact h.cols i (inRow_lt_size N c h hn ((mem_rowRange c n i).1 hi))

end TapkeeVerif.Tsne
