import Mathlib.Algebra.Order.Field.Basic
import Mathlib.Tactic.Linarith
import TapkeeVerif.Proofs.KnnVpSearch
import TapkeeVerif.Model.Tsne
/-!
C17: `tsne::VpTree::search` is an instance of the VP-tree search C02 proves exact.

The two C++ classes differ in one respect: tapkee's own tree guards *both* recursive calls of a branch
(`if (d - tau <= thr) search(left); if (d + tau >= thr) search(right)`), `tsne::VpTree` makes the first call of each
branch unconditionally.  For a non-negative distance the first guard of C02's search is always true (`d < thr` and
`0 ≤ tau` give `d - tau ≤ thr`; `thr ≤ d` and `0 ≤ tau` give `thr ≤ d + tau`), so the two searches coincide
(`vpSearch_eq`) and exactness is inherited (`vpSearch_nearest`).
-/
namespace TapkeeVerif.Tsne
open TapkeeVerif

variable {K : Type} [Field K] [LinearOrder K] [IsStrictOrderedRing K]
set_option linter.unusedSectionVars false

/-- the tree of item positions, in C02's representation -/
def toTree : VpNode K → VpTree.Tree Nat K
  | .nil => .nil
  | .node idx thr l r => .node idx thr (toTree l) (toTree r)

theorem toTree_isNil (t : VpNode K) : (toTree t).isNil = t.isNil := by
  cases t <;> rfl

/-- the distance between two item positions -/
def posDist (distf : List K → List K → K) (items : Nat → List K) (a b : Nat) : K := distf (items a) (items b)

def cbOf (distf : List K → List K → K) (items : Nat → List K) : VpTree.Cb Nat K :=
  ⟨posDist distf items, fun _ _ _ => false⟩

def toS (s : SearchState K) : VpTree.SState Nat K := ⟨s.tau, s.heap⟩

theorem heapTop_eq : ∀ h : Heap K, heapTop h = VpTree.maxDist h
  | [] => rfl
  | x :: t => by
    simp only [heapTop, VpTree.maxDist, heapTop_eq t]
    cases VpTree.maxDist t <;> rfl

theorem heapPop_eq : ∀ h : Heap K, heapPop h = VpTree.popMaxFirst h
  | [] => rfl
  | x :: t => by
    simp only [heapPop, VpTree.popMaxFirst, heapTop_eq t, heapPop_eq t]
    cases VpTree.maxDist t <;> rfl

/-- heap distances and `tau` are non-negative -/
def NonNeg (s : SearchState K) : Prop := (∀ e ∈ s.heap, 0 ≤ e.2) ∧ ∀ t, s.tau = some t → 0 ≤ t

theorem heapTop_mem : ∀ (h : Heap K) (m : K), heapTop h = some m → ∃ e ∈ h, e.2 = m
  | [], m, hm => by simp [heapTop] at hm
  | x :: t, m, hm => by
    simp only [heapTop] at hm
    cases ht : heapTop t with
    | none =>
      simp only [ht, Option.some.injEq] at hm
      exact ⟨x, by simp, hm⟩
    | some m' =>
      simp only [ht] at hm
      split_ifs at hm with hlt
      · simp only [Option.some.injEq] at hm; exact ⟨x, by simp, hm⟩
      · simp only [Option.some.injEq] at hm
        obtain ⟨e, he, hem⟩ := heapTop_mem t m' ht
        exact ⟨e, by simp [he], hem.trans hm⟩

theorem heapPop_sub : ∀ (h : Heap K) (e : Nat × K), e ∈ heapPop h → e ∈ h
  | [], e, he => by simp [heapPop] at he
  | x :: t, e, he => by
    simp only [heapPop] at he
    cases ht : heapTop t with
    | none => simp only [ht] at he; simp [he]
    | some m =>
      simp only [ht] at he
      split_ifs at he with hlt
      · simp [he]
      · simp only [List.mem_cons] at he ⊢
        rcases he with rfl | he
        · exact Or.inl rfl
        · exact Or.inr (heapPop_sub t e he)

/-- the admission block of `search` (shared by both classes) -/
def admitItem (k idx : Nat) (dist : K) (s : SearchState K) : SearchState K :=
  if (match s.tau with | none => true | some t => decide (dist < t)) then
    ⟨if ((idx, dist) :: (if s.heap.length = k then heapPop s.heap else s.heap)).length = k then
        heapTop ((idx, dist) :: (if s.heap.length = k then heapPop s.heap else s.heap)) else s.tau,
      (idx, dist) :: (if s.heap.length = k then heapPop s.heap else s.heap)⟩
  else s

theorem admit_nonneg (k idx : Nat) (dist : K) (hd : 0 ≤ dist) (s : SearchState K) (hs : NonNeg s) :
    NonNeg (admitItem k idx dist s) := by
  unfold admitItem
  by_cases hc : (match s.tau with | none => true | some t => decide (dist < t)) = true
  · rw [if_pos hc]
    have hh : ∀ e ∈ ((idx, dist) :: (if s.heap.length = k then heapPop s.heap else s.heap)), 0 ≤ e.2 := by
      intro e he
      simp only [List.mem_cons] at he
      rcases he with rfl | he
      · exact hd
      · split_ifs at he with hl
        · exact hs.1 e (heapPop_sub _ _ he)
        · exact hs.1 e he
    refine ⟨hh, ?_⟩
    intro t ht
    simp only at ht
    by_cases hl2 : ((idx, dist) :: (if s.heap.length = k then heapPop s.heap else s.heap)).length = k
    · rw [if_pos hl2] at ht
      obtain ⟨e, he, hem⟩ := heapTop_mem _ t ht
      exact hem ▸ hh e he
    · rw [if_neg hl2] at ht
      exact hs.2 t ht
  · rw [if_neg hc]; exact hs

theorem admit_eq (k idx : Nat) (dist : K) (s : SearchState K) :
    toS (admitItem k idx dist s) = VpTree.admission VpTree.popMaxFirst k idx dist (toS s) := by
  obtain ⟨tau, heap⟩ := s
  unfold admitItem VpTree.admission toS VpTree.ltTau
  cases tau with
  | none =>
    simp only [if_true]
    by_cases hl : heap.length = k
    · simp only [hl, if_true, heapPop_eq, heapTop_eq]
    · simp only [hl, if_false, heapTop_eq]
  | some t =>
    simp only
    by_cases hd : dist < t
    · simp only [hd, decide_true, if_true]
      by_cases hl : heap.length = k
      · simp only [hl, if_true, heapPop_eq, heapTop_eq]
      · simp only [hl, if_false, heapTop_eq]
    · simp only [hd, decide_false, Bool.false_eq_true, if_false]

/-- `vpSearch` written with `admitItem` -/
theorem vpSearch_node (distf : List K → List K → K) (items : Nat → List K) (target : List K) (k idx : Nat) (thr : K)
    (l r : VpNode K) (s : SearchState K) :
    vpSearch distf items target k (.node idx thr l r) s =
      (let dist := distf (items idx) target
       let s1 := admitItem k idx dist s
       if l.isNil && r.isNil then s1
       else if dist < thr then
         let s2 := vpSearch distf items target k l s1
         if (match s2.tau with | none => true | some t => decide (thr ≤ dist + t)) then
           vpSearch distf items target k r s2 else s2
       else
         let s2 := vpSearch distf items target k r s1
         if (match s2.tau with | none => true | some t => decide (dist - t ≤ thr)) then
           vpSearch distf items target k l s2 else s2) := by
  unfold admitItem
  rfl

theorem vpSearch_nonneg (distf : List K → List K → K) (hd : ∀ a b, 0 ≤ distf a b) (items : Nat → List K)
    (target : List K) (k : Nat) : ∀ (t : VpNode K) (s : SearchState K), NonNeg s →
    NonNeg (vpSearch distf items target k t s) := by
  intro t
  induction t with
  | nil => intro s hs; simpa [vpSearch] using hs
  | node idx thr l r ihl ihr =>
    intro s hs
    rw [vpSearch_node]
    have h1 := admit_nonneg k idx _ (hd (items idx) target) s hs
    simp only
    split_ifs
    · exact h1
    · exact ihr _ (ihl _ h1)
    · exact ihl _ h1
    · exact ihl _ (ihr _ h1)
    · exact ihr _ h1

theorem leftTest_true_of (d thr : K) (τ : Option K) (hlt : d < thr) (h : ∀ t, τ = some t → 0 ≤ t) :
    VpTree.leftTest d thr τ = true := by
  cases τ with
  | none => rfl
  | some t =>
    have := h t rfl
    simp only [VpTree.leftTest, decide_eq_true_eq]
    linarith

theorem rightTest_true_of (d thr : K) (τ : Option K) (hge : thr ≤ d) (h : ∀ t, τ = some t → 0 ≤ t) :
    VpTree.rightTest d thr τ = true := by
  cases τ with
  | none => rfl
  | some t =>
    have := h t rfl
    simp only [VpTree.rightTest, decide_eq_true_eq]
    linarith

theorem rightTest_eq (d thr : K) (τ : Option K) :
    VpTree.rightTest d thr τ = (match τ with | none => true | some t => decide (thr ≤ d + t)) := by
  cases τ <;> rfl

theorem leftTest_eq (d thr : K) (τ : Option K) :
    VpTree.leftTest d thr τ = (match τ with | none => true | some t => decide (d - t ≤ thr)) := by
  cases τ <;> rfl

/-- **the two searches coincide** for a non-negative distance, when the target is the item at position `q` -/
theorem vpSearch_eq (distf : List K → List K → K) (hd : ∀ a b, 0 ≤ distf a b) (items : Nat → List K) (q k : Nat) :
    ∀ (t : VpNode K) (s : SearchState K), NonNeg s →
      toS (vpSearch distf items (items q) k t s) =
        VpTree.search (cbOf distf items) VpTree.popMaxFirst q k (toTree t) (toS s) := by
  intro t
  induction t with
  | nil => intro s _; simp [vpSearch, toTree, VpTree.search]
  | node idx thr l r ihl ihr =>
    intro s hs
    rw [vpSearch_node]
    have h1 := admit_nonneg k idx (distf (items idx) (items q)) (hd _ _) s hs
    have ha := admit_eq k idx (distf (items idx) (items q)) s
    have e1 : (cbOf distf items).dist idx q = distf (items idx) (items q) := rfl
    simp only [toTree, VpTree.search, toTree_isNil, e1, ← ha]
    by_cases hn : (l.isNil && r.isNil) = true
    · simp only [hn, if_true]
    · simp only [hn, Bool.false_eq_true, if_false]
      by_cases hlt : distf (items idx) (items q) < thr
      · simp only [hlt, if_true]
        have hL := leftTest_true_of (distf (items idx) (items q)) thr
          (toS (admitItem k idx (distf (items idx) (items q)) s)).tau hlt h1.2
        rw [hL]
        simp only [if_true]
        rw [← ihl _ h1, rightTest_eq, apply_ite toS]
        have h2 := vpSearch_nonneg distf hd items (items q) k l _ h1
        rw [ihr _ h2]
        rfl
      · simp only [hlt, if_false]
        have hR := rightTest_true_of (distf (items idx) (items q)) thr
          (toS (admitItem k idx (distf (items idx) (items q)) s)).tau (not_lt.mp hlt) h1.2
        rw [hR]
        simp only [if_true]
        rw [← ihr _ h1, leftTest_eq, apply_ite toS]
        have h2 := vpSearch_nonneg distf hd items (items q) k r _ h1
        rw [ihl _ h2]
        rfl

/-- **exactness of `tsne::VpTree::search`**: for every (pseudo-)metric on the items, every tree with the ball invariant
    (what `buildFromPoints` produces, checked on every dumped tree by the correspondence run), every `1 ≤ k ≤ N` and
    every query that is one of the items, the heap holds `k` nearest items of the query -/
theorem vpSearch_nearest (distf : List K → List K → K) (items : Nat → List K)
    (hm : VpTree.IsMetric (posDist distf items)) (hd : ∀ a b, 0 ≤ distf a b)
    (t : VpNode K) (hT : VpTree.TInv (posDist distf items) (toTree t)) (hnd : (toTree t).points.Nodup)
    (k : Nat) (hk : 1 ≤ k) (hkN : k ≤ (toTree t).points.length) (q : Nat) :
    Knn.IsKNearest (posDist distf items) q (toTree t).points k
      ((vpSearch distf items (items q) k t ⟨none, []⟩).heap.map (·.1)) := by
  have h0 : NonNeg (⟨none, []⟩ : SearchState K) := ⟨fun e he => by simp at he, fun t ht => by simp at ht⟩
  have he := vpSearch_eq distf hd items q k t ⟨none, []⟩ h0
  have hs := VpTree.search_nearest (cb := cbOf distf items) (pop := VpTree.popMaxFirst) (q := q) hm hk
    VpTree.popMaxFirst_spec hT hnd hkN
  have : (vpSearch distf items (items q) k t ⟨none, []⟩).heap =
      (VpTree.search (cbOf distf items) VpTree.popMaxFirst q k (toTree t) ⟨none, []⟩).heap := by
    have := congrArg VpTree.SState.heap he
    simpa [toS] using this
  rw [this]
  exact hs

end TapkeeVerif.Tsne
